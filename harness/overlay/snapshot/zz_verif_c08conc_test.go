//go:build verif

package snapshot

// C08 — TRACE REFINEMENT of the interleaved model (lean/SV/Model/SnapConc.lean) by the real snapshotter.
//
// Several API calls (Prepare with/without target, View, Commit, Remove, Cleanup, Update) run in
// goroutines on ONE real snapshotter with a recording FileSystem.  The crash-point markers of
// snapshot.go and the backend calls are used as SYNC POINTS: a goroutine that reaches one logs an
// event and parks until the scheduler (the test goroutine) resumes it, so exactly one call makes
// progress at a time and the log is a faithful total order of the atomic steps.  The one exception is
// deliberate: while a call is parked INSIDE its write transaction (create.tempdir, create.renamed,
// commit.beforetx) the scheduler may start ONE call whose next segment needs bolt's writer lock (a
// "probe"); on the unchanged code it blocks inside bolt until the holder commits, and runs right after
// (its events are then ordered after the holder's commit, which bolt guarantees).  If it does NOT
// block, the lock discipline the model assumes is broken and the trace acceptor rejects the trace.
//
// After every batch of concurrent calls (quiescence) the trace is translated to the event alphabet
// of lean/SV/Model/SnapTrace.lean and emitted: the driver must accept every event (enabled transition
// + invariant), its result for every call must equal the real one and at quiescence the model's
// directories / metadata / backend mounts must equal the real ones.  Independently the C08 clauses are
// evaluated on the real state (oracle signatures conc-*).

import (
	"context"
	"fmt"
	"os"
	"path/filepath"
	"runtime"
	"sort"
	"strconv"
	"strings"
	"sync"
	"testing"
	"time"

	"github.com/containerd/containerd/v2/core/mount"
	"github.com/containerd/containerd/v2/core/snapshots"
	"github.com/containerd/stargz-snapshotter/internal/verifutil"
)

type verifTrKey struct{}

type verifTrCall struct {
	id                  int
	name                string // prepare view commit remove cleanup update
	key, parent, target string // commit: key = active key, target = new name; prepare: target = @ref value
	labels              string
	lk, lv              string
	orc                 *verifOracle

	resume chan struct{}
	note   chan struct{}
	// written under env.mu
	parked, finished bool
	at               string
	inLock, needLock bool
	res              string
	ms               []mount.Mount
	lastUnmount      string
	order            []string
}

func (c *verifTrCall) args() string {
	switch c.name {
	case "prepare", "view":
		return fmt.Sprintf("%s %s %s", c.key, verifDash(c.parent), c.labels)
	case "commit":
		return fmt.Sprintf("%s %s %s", c.target, c.key, c.labels)
	case "remove":
		return c.key
	case "update":
		return fmt.Sprintf("%s %s %s", c.key, c.lk, verifDash(c.lv))
	}
	return ""
}

type verifTrRaw struct {
	c         *verifTrCall
	kind, arg string
}

type verifTrEnv struct {
	t   *testing.T
	out *verifutil.Out
	rnd *verifutil.Rand

	root string
	sn   snapshots.Snapshotter
	cfg  [3]bool

	mu     sync.Mutex
	byGid  map[uint64]*verifTrCall
	log    []verifTrRaw
	live   map[string]int
	temps  map[string]int
	nextID int
	ctr    int
	failed bool
}

func verifGoid() uint64 {
	var b [64]byte
	n := runtime.Stack(b[:], false)
	f := strings.Fields(string(b[:n]))
	if len(f) < 2 {
		return 0
	}
	id, _ := strconv.ParseUint(f[1], 10, 64)
	return id
}

func (e *verifTrEnv) fail(sig, what string) {
	e.out.Fail(sig, what)
}

// park logs the event and blocks until the scheduler resumes the call.
func (e *verifTrEnv) park(c *verifTrCall, kind, arg string, inLock, needLock bool) {
	e.mu.Lock()
	e.log = append(e.log, verifTrRaw{c, kind, arg})
	c.at, c.inLock, c.needLock, c.parked = kind, inLock, needLock, true
	e.mu.Unlock()
	c.note <- struct{}{}
	<-c.resume
}

func (e *verifTrEnv) current() *verifTrCall {
	g := verifGoid()
	e.mu.Lock()
	defer e.mu.Unlock()
	return e.byGid[g]
}

func (e *verifTrEnv) dirTok(name string) string {
	if strings.HasPrefix(name, "new-") {
		e.mu.Lock()
		defer e.mu.Unlock()
		if k, ok := e.temps[name]; ok {
			return "t" + strconv.Itoa(k)
		}
		return "t?"
	}
	return name
}

func (e *verifTrEnv) marker(name string) {
	c := e.current()
	if c == nil {
		return
	}
	switch name {
	case "create.tempdir":
		// the MkdirTemp of this call: the one new-* entry not seen before
		es, _ := os.ReadDir(filepath.Join(e.root, "snapshots"))
		e.mu.Lock()
		for _, en := range es {
			if strings.HasPrefix(en.Name(), "new-") {
				if _, ok := e.temps[en.Name()]; !ok {
					e.temps[en.Name()] = len(e.temps)
				}
			}
		}
		e.mu.Unlock()
		e.park(c, name, "", true, false)
	case "create.renamed", "commit.beforetx":
		e.park(c, name, "", true, false)
	case "create.committed", "remove.txcommitted":
		e.park(c, name, "", false, false)
	case "prepare.mounted":
		e.park(c, name, "", false, true)
	case "cleanupdir.removed":
		e.mu.Lock()
		d := c.lastUnmount
		e.mu.Unlock()
		e.park(c, name, d, false, false)
	}
}

type verifTrFS struct{ e *verifTrEnv }

func (f *verifTrFS) call(ctx context.Context) *verifTrCall {
	if c, ok := ctx.Value(verifTrKey{}).(*verifTrCall); ok {
		return c
	}
	return f.e.current()
}

func (f *verifTrFS) Mount(ctx context.Context, mountpoint string, labels map[string]string) error {
	e := f.e
	c := f.call(ctx)
	id := e.dirTok(filepath.Base(filepath.Dir(mountpoint)))
	ok := true
	if c != nil {
		ok = !(c.orc.mfAll || c.orc.mf[id])
	}
	if st, err := os.Stat(mountpoint); err != nil || !st.IsDir() {
		e.fail("conc-mount-without-dir", "Mount called on missing mountpoint "+mountpoint)
	}
	if ok {
		e.mu.Lock()
		e.live[mountpoint]++
		if e.live[mountpoint] > 1 {
			e.mu.Unlock()
			e.fail("conc-mounted-twice", "second live backend mount on "+mountpoint)
			e.mu.Lock()
		}
		e.mu.Unlock()
	}
	if c != nil {
		// logged, NOT a sync point: prepareRemoteSnapshot calls Mount inside an open READ transaction, and
		// bolt makes a writer whose commit has to grow the file wait for every open reader; parking here
		// would dead-lock the schedule.  The call parks at prepare.mounted (or runs on to its return).
		e.mu.Lock()
		e.log = append(e.log, verifTrRaw{c, "mount", id})
		e.mu.Unlock()
	}
	if !ok {
		return fmt.Errorf("verif: mount failure injected")
	}
	return nil
}

func (f *verifTrFS) Check(ctx context.Context, mountpoint string, labels map[string]string) error {
	c := f.call(ctx)
	id := f.e.dirTok(filepath.Base(filepath.Dir(mountpoint)))
	if c != nil && c.orc.cf[id] {
		return fmt.Errorf("verif: check failure injected")
	}
	return nil
}

func (f *verifTrFS) Unmount(ctx context.Context, mountpoint string) error {
	e := f.e
	c := f.call(ctx)
	name := filepath.Base(filepath.Dir(mountpoint))
	id := e.dirTok(name)
	ok := true
	if c != nil {
		key := id
		if strings.HasPrefix(id, "t") {
			key = "t"
		}
		ok = !c.orc.uf[key]
	}
	// ---- oracle: the directory being released belongs to no live snapshot ----
	if !strings.HasPrefix(name, "new-") {
		v := verifTakeView(e.root, e.sn, nil)
		if !v.uninit && v.hasID(name) {
			e.fail("conc-unmount-of-live-snapshot", fmt.Sprintf("Unmount(%s) while a snapshot with that id is in the metadata (%s)", name, v.metaStr()))
		}
	}
	e.mu.Lock()
	delete(e.live, mountpoint)
	if c != nil {
		c.lastUnmount = id
		c.order = append(c.order, id)
	}
	e.mu.Unlock()
	if c != nil {
		e.park(c, "unmount", id, false, false)
	}
	if !ok {
		return fmt.Errorf("verif: unmount failure injected")
	}
	return nil
}

func (e *verifTrEnv) raw(ctx context.Context, c *verifTrCall) (string, []mount.Mount) {
	var o []snapshots.Opt
	if l := verifParseLabels(c.labels); l != nil {
		o = append(o, snapshots.WithLabels(l))
	}
	var ms []mount.Mount
	var err error
	detail := ""
	switch c.name {
	case "prepare":
		ms, err = e.sn.Prepare(ctx, c.key, c.parent, o...)
	case "view":
		ms, err = e.sn.View(ctx, c.key, c.parent, o...)
	case "commit":
		err = e.sn.Commit(ctx, c.target, c.key, o...)
	case "remove":
		err = e.sn.Remove(ctx, c.key)
	case "cleanup":
		err = e.sn.(snapshots.Cleaner).Cleanup(ctx)
	case "update":
		in := snapshots.Info{Name: c.key}
		if c.lv != "" {
			in.Labels = map[string]string{verifLabelUntok(c.lk): verifLabelUntok(c.lv)}
		}
		var info snapshots.Info
		info, err = e.sn.Update(ctx, in, "labels."+verifLabelUntok(c.lk))
		if err == nil {
			detail = verifInfoStr(info.Name, info.Kind, info.Parent, info.Labels)
		}
	default:
		e.t.Fatalf("raw %q", c.name)
	}
	r := verifErrClass(err)
	if err == nil && ms != nil {
		detail, _ = (&verifEnv{}).parseMounts(ms)
	}
	if detail != "" {
		r += ":" + detail
	}
	return r, ms
}

func (e *verifTrEnv) body(c *verifTrCall) {
	g := verifGoid()
	e.mu.Lock()
	e.byGid[g] = c
	e.mu.Unlock()
	e.park(c, "start", "", false, true)
	ctx := context.WithValue(context.Background(), verifTrKey{}, c)
	r, ms := e.raw(ctx, c)
	e.mu.Lock()
	delete(e.byGid, g)
	e.log = append(e.log, verifTrRaw{c, "end", r})
	c.res, c.ms, c.finished, c.parked = r, ms, true, false
	e.mu.Unlock()
	c.note <- struct{}{}
}

func (e *verifTrEnv) await(c *verifTrCall, d time.Duration) bool {
	select {
	case <-c.note:
		return true
	case <-time.After(d):
		return false
	}
}

const verifTrStuck = 45 * time.Second

// stuck: the schedule cannot make progress (a call believed to run lock-free is blocked, or nothing is
// eligible).  The goroutines of the batch cannot be unwound: report and leave the process.
func (e *verifTrEnv) stuck(what string) {
	e.fail("conc-schedule-stuck", what)
	e.out.Close()
	os.Exit(3)
}

// schedule runs the calls of one batch to completion; pick chooses among the eligible parked calls.
func (e *verifTrEnv) schedule(calls []*verifTrCall, pick func(el []*verifTrCall) *verifTrCall) {
	for _, c := range calls {
		go e.body(c)
	}
	for _, c := range calls {
		if !e.await(c, verifTrStuck) {
			e.stuck("call did not start")
		}
	}
	var blocked *verifTrCall
	for {
		var holder *verifTrCall
		var parked []*verifTrCall
		allDone := true
		e.mu.Lock()
		for _, c := range calls {
			if !c.finished {
				allDone = false
			}
			if c.parked && !c.finished {
				parked = append(parked, c)
				if c.inLock {
					holder = c
				}
			}
		}
		blockedMoved := blocked != nil && (blocked.parked || blocked.finished)
		e.mu.Unlock()
		if allDone {
			return
		}
		if blockedMoved {
			<-blocked.note
			blocked = nil
			continue
		}
		if blocked != nil && holder == nil {
			// the writer lock has been released: the blocked call runs now; wait for its next sync point
			if !e.await(blocked, verifTrStuck) {
				e.stuck("call blocked on the writer lock never resumed: " + blocked.name)
			}
			blocked = nil
			continue
		}
		var el []*verifTrCall
		for _, c := range parked {
			if holder == nil || c == holder || !c.needLock || blocked == nil {
				el = append(el, c)
			}
		}
		if len(el) == 0 {
			e.stuck("no call can be scheduled")
		}
		c := pick(el)
		probe := holder != nil && c != holder && c.needLock
		e.mu.Lock()
		c.parked = false
		e.mu.Unlock()
		c.resume <- struct{}{}
		if probe {
			if e.await(c, 40*time.Millisecond) {
				// it got through a write transaction while another one is open: the acceptor will reject
				e.out.Count("conc/probe-not-blocked")
			} else {
				blocked = c
				e.out.Count("conc/probe-blocked-on-writer-lock")
			}
			continue
		}
		if !e.await(c, verifTrStuck) {
			e.stuck(fmt.Sprintf("%s %s resumed at %s did not reach its next sync point (blocked on the writer lock outside a write transaction?)", c.name, c.args(), c.at))
		}
	}
}

// ---------------------------------------------------------------------------------------------
// translation of the raw log to the model's event alphabet

func (e *verifTrEnv) emitBatch(calls []*verifTrCall) string {
	for _, c := range calls {
		e.out.Emit(strings.TrimSpace(fmt.Sprintf("conc-spawn %d %s %s ord=%s %s", c.id, c.name, c.orc.fields(), verifJoin(c.order), c.args())), "ok")
	}
	pending := -1
	txDone := map[int]bool{}
	icDone := map[int]bool{}
	mounted := map[int]bool{}
	var shape []string
	flush := func(except int) {
		if pending >= 0 && pending != except {
			e.out.Emit(fmt.Sprintf("conc-txcommit %d", pending), "ok")
			pending = -1
		}
	}
	ev := func(c *verifTrCall, line, impl string) {
		e.out.Emit(line, impl)
		shape = append(shape, c.name[:2]+strings.TrimPrefix(strings.Fields(line)[0], "conc-"))
	}
	for _, r := range e.log {
		c := r.c
		switch r.kind {
		case "start":
		case "create.tempdir":
			flush(c.id)
			ev(c, fmt.Sprintf("conc-txbegin %d", c.id), "ok")
		case "create.renamed":
			ev(c, fmt.Sprintf("conc-rename %d", c.id), "ok")
			pending = c.id
		case "create.committed":
			if pending == c.id {
				ev(c, fmt.Sprintf("conc-txcommit %d", c.id), "ok")
				pending = -1
			}
		case "mount":
			mounted[c.id] = !(c.orc.mfAll || c.orc.mf[r.arg])
			ev(c, fmt.Sprintf("conc-mount %d", c.id), "ok")
		case "commit.beforetx":
			flush(c.id)
			if c.name == "commit" {
				txDone[c.id] = true
				ev(c, fmt.Sprintf("conc-tx %d", c.id), "ok")
			} else {
				icDone[c.id] = true
				ev(c, fmt.Sprintf("conc-icommit %d", c.id), "ok")
			}
		case "remove.txcommitted":
			flush(c.id)
			txDone[c.id] = true
			ev(c, fmt.Sprintf("conc-tx %d", c.id), "ok")
		case "unmount":
			if c.name == "cleanup" && !txDone[c.id] {
				flush(c.id)
				txDone[c.id] = true
				ev(c, fmt.Sprintf("conc-tx %d", c.id), "ok")
			}
			ev(c, fmt.Sprintf("conc-unmount %d %s", c.id, r.arg), "ok")
		case "cleanupdir.removed":
			ev(c, fmt.Sprintf("conc-rmdir %d %s", c.id, r.arg), "ok")
		case "end":
			switch c.name {
			case "commit", "update", "remove", "cleanup":
				if !txDone[c.id] {
					flush(c.id)
					txDone[c.id] = true
					ev(c, fmt.Sprintf("conc-tx %d", c.id), "ok")
				}
			case "prepare":
				if mounted[c.id] && !icDone[c.id] {
					flush(c.id)
					ev(c, fmt.Sprintf("conc-icommit %d", c.id), "ok")
				}
			}
			if pending == c.id { // cannot happen: create.committed precedes the return
				flush(-1)
			}
			ev(c, fmt.Sprintf("conc-ret %d", c.id), "r="+r.arg)
			e.out.Count("conc/" + c.name + "/" + strings.SplitN(r.arg, ":", 2)[0])
		}
	}
	flush(-1)
	e.log = nil
	return strings.Join(shape, ",")
}

func (e *verifTrEnv) liveIDs() string {
	var l []string
	for mp, n := range e.live {
		if n > 0 {
			l = append(l, filepath.Base(filepath.Dir(mp)))
		}
	}
	sort.Slice(l, func(i, j int) bool { return verifIDLess(l[i], l[j]) })
	return verifJoin(l)
}

// quiesce emits the observation of the real state and evaluates the C08 clauses on it.
func (e *verifTrEnv) quiesce(calls []*verifTrCall, before *verifView, final bool) *verifView {
	v := verifTakeView(e.root, e.sn, e.live)
	e.out.Emit("conc-quiesce", fmt.Sprintf("ls=%s meta=%s mounts=%s", verifLsStr(v.ids, v.temps), v.metaStr(), e.liveIDs()))
	snaps := filepath.Join(e.root, "snapshots")
	// every live snapshot has its directory (fs, and work for an active one)
	for _, k := range v.order {
		i := v.infos[k]
		if st, err := os.Stat(filepath.Join(snaps, i.id, "fs")); err != nil || !st.IsDir() {
			e.fail("conc-live-snapshot-dir-missing", fmt.Sprintf("snapshot %s (id %s) has no fs directory after %s", k, i.id, verifTrDescribe(calls)))
		}
		if i.kind == snapshots.KindActive {
			if _, err := os.Stat(filepath.Join(snaps, i.id, "work")); err != nil {
				e.fail("conc-live-snapshot-dir-missing", fmt.Sprintf("active snapshot %s (id %s) has no work directory", k, i.id))
			}
		}
	}
	// a backend mount implies its directory and a live snapshot or an orphan not yet cleaned
	for mp, n := range e.live {
		if n > 0 {
			if _, err := os.Stat(mp); err != nil {
				e.fail("conc-mount-without-dir", "live backend mount on missing directory "+mp)
			}
		}
	}
	for _, c := range calls {
		cls := strings.SplitN(c.res, ":", 2)[0]
		switch c.name {
		case "prepare", "view":
			if cls == "ok" {
				if _, ok := v.infos[c.key]; !ok {
					e.fail("conc-created-key-missing", fmt.Sprintf("%s %s returned mounts but the key is not in the metadata", c.name, c.key))
				}
				for _, m := range c.ms {
					for _, p := range verifTrMountDirs(m) {
						if _, err := os.Stat(p); err != nil {
							e.fail("conc-mounts-handed-out-for-missing-dir", fmt.Sprintf("%s %s: mount refers to missing %s", c.name, c.key, p))
						}
					}
				}
			}
			if c.name == "prepare" && c.target != "" && cls == "exists" {
				i, ok := v.infos[c.target]
				if _, consumed := v.infos[c.key]; !consumed && (!ok || i.kind != snapshots.KindCommitted) {
					if before == nil || !verifTrHas(before, c.target) {
						e.fail("conc-prepare-exists-without-target", fmt.Sprintf("prepare %s target %s returned AlreadyExists, the key is gone but the target is not a committed snapshot", c.key, c.target))
					}
				}
			}
		case "commit":
			if cls == "ok" && !verifTrTouches(calls, c, "remove", c.target) {
				if i, ok := v.infos[c.target]; !ok || i.kind != snapshots.KindCommitted {
					e.fail("conc-committed-name-missing", fmt.Sprintf("commit %s %s returned ok but %s is not a committed snapshot", c.target, c.key, c.target))
				}
			}
		case "remove":
			// (a Commit / Prepare-with-target of the same batch may legitimately re-create the name afterwards)
			if cls == "ok" && !verifTrTouches(calls, c, "create", c.key) {
				if _, ok := v.infos[c.key]; ok {
					e.fail("conc-removed-key-still-present", "remove "+c.key+" returned ok but the key is still there")
				}
			}
		}
	}
	if final {
		live := map[string]bool{}
		for _, i := range v.infos {
			live[i.id] = true
		}
		exact := v.temps == 0 && len(v.other) == 0 && len(v.ids) == len(live)
		for _, id := range v.ids {
			if !live[id] {
				exact = false
			}
		}
		if !exact {
			e.fail("conc-cleanup-not-exact", fmt.Sprintf("after the final Cleanup: ls=%s meta=%s", verifLsStr(v.ids, v.temps), v.metaStr()))
		}
	}
	return v
}

// verifTrTouches: another call of the batch removes (what="remove") or may create (what="create") the name.
func verifTrTouches(calls []*verifTrCall, self *verifTrCall, what, name string) bool {
	for _, c := range calls {
		if c == self {
			continue
		}
		switch what {
		case "remove":
			if c.name == "remove" && c.key == name {
				return true
			}
		case "create":
			if (c.name == "commit" || c.name == "prepare") && c.target == name {
				return true
			}
			if (c.name == "prepare" || c.name == "view") && c.key == name {
				return true
			}
		}
	}
	return false
}

func verifTrHas(v *verifView, key string) bool { _, ok := v.infos[key]; return ok }

func verifTrDescribe(calls []*verifTrCall) string {
	var l []string
	for _, c := range calls {
		l = append(l, strings.TrimSpace(c.name+" "+c.args()))
	}
	return strings.Join(l, " || ")
}

func verifTrMountDirs(m mount.Mount) []string {
	var l []string
	if m.Type == "bind" {
		return []string{m.Source}
	}
	for _, o := range m.Options {
		for _, pre := range []string{"workdir=", "upperdir="} {
			if strings.HasPrefix(o, pre) {
				l = append(l, strings.TrimPrefix(o, pre))
			}
		}
		if strings.HasPrefix(o, "lowerdir=") {
			l = append(l, strings.Split(strings.TrimPrefix(o, "lowerdir="), ":")...)
		}
	}
	return l
}

// ---------------------------------------------------------------------------------------------
// runs

func (e *verifTrEnv) reset(cfg [3]bool) {
	e.closeRoot()
	e.root = e.t.TempDir()
	e.cfg = cfg
	e.live = map[string]int{}
	e.temps = map[string]int{}
	e.byGid = map[uint64]*verifTrCall{}
	e.log = nil
	e.nextID = 0
	var o []Opt
	if cfg[0] {
		o = append(o, AsynchronousRemove)
	}
	sn, err := NewSnapshotter(context.Background(), e.root, &verifTrFS{e}, o...)
	if err != nil {
		e.t.Fatalf("NewSnapshotter: %v", err)
	}
	e.sn = sn
	e.out.Emit("conc-reset "+verifCfgStr(cfg), "ok")
}

func (e *verifTrEnv) closeRoot() {
	if e.sn != nil {
		e.sn.(*snapshotter).ms.Close()
		e.sn = nil
	}
	if e.root != "" {
		os.RemoveAll(e.root)
		e.root = ""
	}
}

func (e *verifTrEnv) mk(name string) *verifTrCall {
	c := &verifTrCall{id: e.nextID, name: name, labels: "-", orc: verifNoFaults(), resume: make(chan struct{}), note: make(chan struct{}, 1)}
	e.nextID++
	return c
}

func (e *verifTrEnv) prepare(key, parent, target string) *verifTrCall {
	c := e.mk("prepare")
	c.key, c.parent, c.target = key, parent, target
	if target != "" {
		c.labels = "@ref=" + target
	}
	return c
}
func (e *verifTrEnv) view(key, parent string) *verifTrCall {
	c := e.mk("view")
	c.key, c.parent = key, parent
	return c
}
func (e *verifTrEnv) commit(name, key string) *verifTrCall {
	c := e.mk("commit")
	c.target, c.key = name, key
	return c
}
func (e *verifTrEnv) remove(key string) *verifTrCall {
	c := e.mk("remove")
	c.key = key
	return c
}
func (e *verifTrEnv) cleanup() *verifTrCall { return e.mk("cleanup") }
func (e *verifTrEnv) update(key, lk, lv string) *verifTrCall {
	c := e.mk("update")
	c.key, c.lk, c.lv = key, lk, lv
	return c
}

type verifTrStep struct {
	c     *verifTrCall
	until string // park at this sync point ("" = run while eligible)
}

// scripted: follow the steps (a step is over when its call is parked at `until`, has finished or is not
// eligible, i.e. blocked on the writer lock), then lowest id first / random.
func (e *verifTrEnv) scripted(steps []verifTrStep, random bool) func(el []*verifTrCall) *verifTrCall {
	return func(el []*verifTrCall) *verifTrCall {
		for len(steps) > 0 {
			s := steps[0]
			var found *verifTrCall
			for _, c := range el {
				if c == s.c {
					found = c
				}
			}
			e.mu.Lock()
			over := found == nil || (s.until != "" && s.c.at == s.until)
			e.mu.Unlock()
			if over {
				steps = steps[1:]
				continue
			}
			return found
		}
		if random {
			return el[e.rnd.Intn(len(el))]
		}
		return el[0]
	}
}

// batch runs the calls concurrently under pick, emits the trace and the quiescent observation.
func (e *verifTrEnv) batch(calls []*verifTrCall, pick func(el []*verifTrCall) *verifTrCall, final bool) *verifView {
	before := verifTakeView(e.root, e.sn, e.live)
	e.schedule(calls, pick)
	shape := e.emitBatch(calls)
	if len(calls) > 1 {
		e.out.Distinct("conc:" + shape)
	}
	return e.quiesce(calls, before, final)
}

func (e *verifTrEnv) seq(c *verifTrCall) *verifView {
	return e.batch([]*verifTrCall{c}, e.scripted(nil, false), false)
}

func (e *verifTrEnv) finalCleanup() {
	e.batch([]*verifTrCall{e.cleanup()}, e.scripted(nil, false), true)
}

// forced schedules for the marker pairs that matter
func (e *verifTrEnv) forced() {
	for _, async := range []bool{false, true} {
		cfg := [3]bool{async, false, false}
		// F1..F3: Cleanup's scan while a Prepare / View is parked inside its write transaction
		for _, at := range []string{"create.tempdir", "create.renamed", "create.committed"} {
			for _, tgt := range []string{"", "T"} {
				e.out.Comment(fmt.Sprintf("forced: cleanup scan vs prepare parked at %s (target=%q async=%v)", at, tgt, async))
				e.reset(cfg)
				e.seq(e.prepare("base", "", ""))
				e.seq(e.commit("L1", "base"))
				a := e.prepare("k", "L1", tgt)
				b := e.cleanup()
				e.batch([]*verifTrCall{a, b}, e.scripted([]verifTrStep{{a, at}, {b, ""}}, false), false)
				e.finalCleanup()
			}
		}
		// F4: Remove(parent) vs Prepare-with-parent, both orders and inside the create window
		for _, at := range []string{"start", "create.tempdir", "create.renamed", "create.committed"} {
			e.out.Comment(fmt.Sprintf("forced: remove(parent) vs prepare(parent) parked at %s (async=%v)", at, async))
			e.reset(cfg)
			e.seq(e.prepare("base", "", ""))
			e.seq(e.commit("L1", "base"))
			a := e.prepare("k", "L1", "")
			b := e.remove("L1")
			e.batch([]*verifTrCall{a, b}, e.scripted([]verifTrStep{{a, at}, {b, ""}}, false), false)
			e.finalCleanup()
		}
		// F5: Commit vs Remove of the same active key, both orders, and Remove's cleanup loop interleaved
		for _, first := range []int{0, 1} {
			e.out.Comment(fmt.Sprintf("forced: commit vs remove of the same key (first=%d async=%v)", first, async))
			e.reset(cfg)
			e.seq(e.prepare("a1", "", ""))
			a := e.commit("C1", "a1")
			b := e.remove("a1")
			steps := []verifTrStep{{a, "commit.beforetx"}, {b, ""}}
			if first == 1 {
				steps = []verifTrStep{{b, "remove.txcommitted"}, {a, ""}}
			}
			e.batch([]*verifTrCall{a, b}, e.scripted(steps, false), false)
			e.finalCleanup()
		}
		// F6: Remove's cleanup loop vs a Prepare that reuses nothing; Cleanup concurrently cleans the same orphan
		e.out.Comment(fmt.Sprintf("forced: remove loop vs cleanup on the same orphan, prepare in between (async=%v)", async))
		e.reset(cfg)
		e.seq(e.prepare("a1", "", ""))
		e.seq(e.prepare("a2", "", ""))
		a := e.remove("a1")
		b := e.cleanup()
		c := e.prepare("a3", "", "")
		e.batch([]*verifTrCall{a, b, c}, e.scripted([]verifTrStep{{a, "unmount"}, {b, "unmount"}, {c, "create.renamed"}, {a, ""}, {b, ""}}, false), false)
		e.finalCleanup()
		// F9: Remove parked right after its commit, a Prepare renames its directory, Remove reclaims its list
		e.out.Comment(fmt.Sprintf("forced: remove parked after commit vs prepare rename (async=%v)", async))
		e.reset(cfg)
		e.seq(e.prepare("a1", "", ""))
		a = e.remove("a1")
		c = e.prepare("a3", "", "")
		e.batch([]*verifTrCall{a, c}, e.scripted([]verifTrStep{{a, "remove.txcommitted"}, {c, "create.renamed"}, {a, ""}}, false), false)
		e.finalCleanup()
		// F7: a failing createSnapshot (unknown parent) leaves a temp dir that a concurrent Cleanup also sees
		e.out.Comment(fmt.Sprintf("forced: failing create vs cleanup (async=%v)", async))
		e.reset(cfg)
		e.seq(e.prepare("a1", "", ""))
		a = e.prepare("bad", "nosuch", "")
		b = e.cleanup()
		e.batch([]*verifTrCall{a, b}, e.scripted([]verifTrStep{{a, "unmount"}, {b, ""}}, false), false)
		e.finalCleanup()
		// F8: two Prepare with the same target: the second internal commit finds the name taken
		e.out.Comment(fmt.Sprintf("forced: two prepares with the same target (async=%v)", async))
		e.reset(cfg)
		a = e.prepare("p1", "", "T")
		b = e.prepare("p2", "", "T")
		e.batch([]*verifTrCall{a, b}, e.scripted([]verifTrStep{{a, "prepare.mounted"}, {b, "prepare.mounted"}, {b, ""}, {a, ""}}, false), false)
		e.finalCleanup()
	}
}

func (e *verifTrEnv) randOracle() *verifOracle {
	o := &verifOracle{mf: map[string]bool{}, cf: map[string]bool{}, uf: map[string]bool{}}
	if e.rnd.Intn(4) == 0 {
		o.mfAll = true
	}
	for i := 1; i <= 10; i++ {
		if e.rnd.Intn(8) == 0 {
			o.cf[strconv.Itoa(i)] = true
		}
		if e.rnd.Intn(6) == 0 {
			o.uf[strconv.Itoa(i)] = true
		}
	}
	if e.rnd.Intn(5) == 0 {
		o.uf["t"] = true
	}
	return o
}

func (e *verifTrEnv) fresh(p string) string {
	e.ctr++
	return fmt.Sprintf("%s%d", p, e.ctr)
}

// genBatch draws 2-4 calls that respect the model's NoKeyConflict assumption: the keys created in the
// batch are fresh, the keys consumed (Remove / Commit's active key) exist at the start of the batch.
func (e *verifTrEnv) genBatch(v *verifView) []*verifTrCall {
	n := 2 + e.rnd.Intn(3)
	var calls []*verifTrCall
	var committed, active, all []string
	for _, k := range v.order {
		all = append(all, k)
		switch v.infos[k].kind {
		case snapshots.KindCommitted:
			committed = append(committed, k)
		case snapshots.KindActive:
			active = append(active, k)
		}
	}
	pickOf := func(l []string) string {
		if len(l) == 0 || e.rnd.Intn(12) == 0 {
			return "nosuch"
		}
		return l[e.rnd.Intn(len(l))]
	}
	parent := func() string {
		if len(committed) == 0 || e.rnd.Intn(3) == 0 {
			if e.rnd.Intn(10) == 0 && len(active) > 0 {
				return active[e.rnd.Intn(len(active))] // invalid: parent not committed
			}
			return ""
		}
		return pickOf(committed)
	}
	for len(calls) < n {
		var c *verifTrCall
		switch e.rnd.Pick(5, 2, 4, 4, 3, 2) {
		case 0:
			tgt := ""
			if e.rnd.Intn(2) == 0 {
				tgt = e.fresh("T")
				if e.rnd.Intn(5) == 0 && len(committed) > 0 {
					tgt = committed[e.rnd.Intn(len(committed))]
				}
			}
			c = e.prepare(e.fresh("k"), parent(), tgt)
		case 1:
			c = e.view(e.fresh("v"), parent())
		case 2:
			c = e.commit(e.fresh("C"), pickOf(active))
			if e.rnd.Intn(8) == 0 && len(all) > 0 {
				c.target = all[e.rnd.Intn(len(all))] // name taken
			}
		case 3:
			c = e.remove(pickOf(all))
		case 4:
			c = e.cleanup()
		case 5:
			c = e.update(pickOf(all), "x", []string{"", "1", "2"}[e.rnd.Intn(3)])
		}
		c.orc = e.randOracle()
		calls = append(calls, c)
	}
	return calls
}

func (e *verifTrEnv) randomRun() {
	cfg := [3]bool{e.rnd.Intn(3) == 0, false, false}
	e.reset(cfg)
	v := verifTakeView(e.root, e.sn, e.live)
	nb := 3 + e.rnd.Intn(4)
	for b := 0; b < nb; b++ {
		calls := e.genBatch(v)
		v = e.batch(calls, e.scripted(nil, true), false)
	}
	e.finalCleanup()
}

// TestVerifC08Trace — forced schedules, then random schedules; every batch is replayed on the
// interleaved model by svdriver_c08 (conc-* lines).
func TestVerifC08Trace(t *testing.T) {
	e := &verifTrEnv{t: t, out: verifutil.OpenOut(), rnd: verifutil.NewRand(verifutil.Seed() ^ 0xc08c08)}
	VerifCrashPoint = e.marker
	defer func() {
		VerifCrashPoint = nil
		e.closeRoot()
		e.out.Close()
	}()
	e.forced()
	n := verifutil.EnvInt("VERIF_N", 25)
	for i := 0; i < n; i++ {
		e.randomRun()
	}
}
