//go:build verif

package snapshot

// Verification harness for C09: crash images.
//
// The histories of the C08 harness (zz_verif_c08_test.go) are run with the crash-point hook
// armed.  When a selected marker fires, the root directory is copied as it is at that instant
// (the bolt file then holds the last COMMITTED transaction: bolt writes pages only inside
// Tx.Commit and no marker sits inside a Commit) and the run continues.  At the end of the
// history a fresh snapshotter with a fresh recording backend is started on (a copy of) every
// image, for several settings of allow-invalid / no-restore and several Mount failure patterns;
// the model is asked for the same (call index, marker, occurrence).

import (
	"context"
	"fmt"
	"io/fs"
	"os"
	"path/filepath"
	"sort"
	"strings"
	"syscall"
	"testing"

	"github.com/containerd/containerd/v2/core/snapshots"
	"github.com/containerd/stargz-snapshotter/internal/verifutil"
	"github.com/moby/sys/mountinfo"
)

type verifImage struct {
	opIdx  int
	marker string
	occ    int
	dir    string
	op     *verifOp
	before *verifView // Walk/listing acknowledged before the call in flight
}

type verifCrash struct {
	e       *verifEnv
	scratch string
	images  []*verifImage
	prob    int // per-mille probability of imaging a marker firing
	nimg    int
	curOp   *verifOp
	curB    *verifView
	// plant real bind mounts on the crash images (needs root)
	kernelMounts bool
}

func verifCopyTree(src, dst string) error {
	return filepath.WalkDir(src, func(p string, d fs.DirEntry, err error) error {
		if err != nil {
			return err
		}
		rel, _ := filepath.Rel(src, p)
		to := filepath.Join(dst, rel)
		if d.IsDir() {
			info, err := d.Info()
			if err != nil {
				return err
			}
			if err := os.MkdirAll(to, 0o700); err != nil {
				return err
			}
			return os.Chmod(to, info.Mode().Perm())
		}
		b, err := os.ReadFile(p)
		if err != nil {
			return err
		}
		return os.WriteFile(to, b, 0o600)
	})
}

// ---- leftover kernel mounts (needs root): what a killed process leaves behind ----

// verifMountsBelow lists the kernel mountpoints below dir.
func verifMountsBelow(dir string) []string {
	ms, err := mountinfo.GetMounts(mountinfo.PrefixFilter(dir))
	if err != nil {
		return nil
	}
	var l []string
	for _, m := range ms {
		l = append(l, m.Mountpoint)
	}
	sort.Strings(l)
	return l
}

// verifLazyUnmountBelow detaches every mount below dir (deepest first); used in cleanup paths.
func verifLazyUnmountBelow(dir string) {
	for n := 0; n < 5; n++ {
		l := verifMountsBelow(dir)
		if len(l) == 0 {
			return
		}
		for i := len(l) - 1; i >= 0; i-- {
			syscall.Unmount(l[i], syscall.MNT_DETACH)
		}
	}
}

const verifKeepFile = "keep-me"

// plantLeftoverMounts bind-mounts `src` onto directories of the crash image the way a killed
// process leaves its backend mounts behind: (a) the fs directory of a committed remote snapshot,
// (b) the fs directory of the unlabelled active snapshot of the call in flight, (c) orphan
// directories (removed-but-undeleted ids, renamed-but-uncommitted ids, temporaries).
func (c *verifCrash) plantLeftoverMounts(work, src string, img *verifImage, image *verifView) (planted []string) {
	try := func(dir, kind string) {
		mp := filepath.Join(work, "snapshots", dir, "fs")
		if st, err := os.Stat(mp); err != nil || !st.IsDir() {
			return
		}
		if err := syscall.Mount(src, mp, "none", syscall.MS_BIND, ""); err != nil {
			c.e.out.Count("kmount/mount-failed")
			return
		}
		planted = append(planted, mp)
		c.e.out.Count("kmount/planted-" + kind)
	}
	for _, k := range image.order {
		i := image.infos[k]
		_, remote := i.labels[remoteLabel]
		switch {
		case remote && i.kind == snapshots.KindCommitted && c.e.rnd.Intn(100) < 60:
			try(i.id, "committed-remote")
		case !remote && i.kind == snapshots.KindActive && img.op.name == "prepare" && k == img.op.key:
			try(i.id, "inflight-active")
		}
	}
	for _, id := range image.ids {
		if !image.hasID(id) {
			try(id, "orphan")
		}
	}
	if es, err := os.ReadDir(filepath.Join(work, "snapshots")); err == nil {
		for _, en := range es {
			if strings.HasPrefix(en.Name(), "new-") {
				try(en.Name(), "temp")
			}
		}
	}
	return
}

func (c *verifCrash) onMarker(name string, occ int) {
	if c.e.rnd.Intn(1000) >= c.prob {
		return
	}
	c.nimg++
	dir := filepath.Join(c.scratch, fmt.Sprintf("img%d", c.nimg))
	if err := verifCopyTree(c.e.root, dir); err != nil {
		c.e.t.Fatalf("crash image: %v", err)
	}
	c.images = append(c.images, &verifImage{opIdx: c.e.curOpIdx, marker: name, occ: occ, dir: dir, op: c.e.curOpObj, before: c.e.curBefore})
	c.e.out.Count("image@" + name)
}

// restoreAll runs the restart experiments on the images of the history that just ended.
func (c *verifCrash) restoreAll() {
	main := c.e
	for _, img := range c.images {
		nvar := 2
		if main.rnd.Intn(100) < 25 {
			nvar = 3
		}
		for v := 0; v < nvar; v++ {
			cfg := [3]bool{main.cfg[0], false, false}
			mode, ufRand := 0, false
			if v > 0 {
				cfg[2] = main.rnd.Bool()
				cfg[1] = main.rnd.Intn(100) < 12
				if main.rnd.Intn(100) < 15 {
					cfg[0] = !cfg[0]
				}
				mode = main.rnd.Pick(25, 55, 20)
				ufRand = main.rnd.Intn(100) < 30
			}
			c.restoreOne(img, cfg, mode, ufRand)
		}
		os.RemoveAll(img.dir)
	}
	c.images = nil
}

func (c *verifCrash) restoreOne(img *verifImage, cfg [3]bool, mode int, ufRand bool) {
	main := c.e
	c.nimg++
	work := filepath.Join(c.scratch, fmt.Sprintf("work%d", c.nimg))
	if err := verifCopyTree(img.dir, work); err != nil {
		main.t.Fatalf("copy image: %v", err)
	}
	ie := &verifEnv{t: main.t, out: main.out, rnd: main.rnd, prop: "C09", root: work, cfg: main.cfg,
		live: map[string]int{}, liveLabels: map[string]map[string]string{}, orc: verifNoFaults(),
		occ: map[string]int{}, leftover: map[string]bool{}, invalidMounts: map[string]bool{}, ctr: 900000 + c.nimg*10}
	where := fmt.Sprintf("image of call %d (%s) at %s#%d: ", img.opIdx, img.op.name+" "+img.op.args(), img.marker, img.occ)
	VerifCrashPoint = ie.marker
	defer func() {
		VerifCrashPoint = main.marker
		if ie.sn != nil {
			ie.sn.(*snapshotter).ms.Close()
		}
		verifLazyUnmountBelow(work)
		os.RemoveAll(work)
	}()
	fail := func(sig, format string, a ...any) {
		main.out.Fail(sig, where+fmt.Sprintf("%s cfg=%s: ", ie.curOp, verifCfgStr(cfg))+fmt.Sprintf(format, a...))
	}

	image := ie.peek() // the durable image as the dead process left it
	main.out.Emit(fmt.Sprintf("fork %d %s %d", img.opIdx, img.marker, img.occ),
		fmt.Sprintf("ok ls=%s meta=%s", verifLsStr(image.ids, image.temps), image.metaStr()))
	c.ackCheck(img, image, fail)

	// leftover kernel mounts of the dead process (root only; a restoring start must clear them)
	var planted []string
	src := ""
	if c.kernelMounts && !cfg[1] && main.rnd.Intn(100) < 60 {
		src = filepath.Join(c.scratch, fmt.Sprintf("src%d", c.nimg))
		os.MkdirAll(src, 0o755)
		os.WriteFile(filepath.Join(src, verifKeepFile), []byte("backing content"), 0o644)
		defer os.RemoveAll(src)
		defer verifLazyUnmountBelow(work) // runs before the RemoveAll(work) registered above
		planted = c.plantLeftoverMounts(work, src, img, image)
		if len(planted) > 0 {
			main.out.Count("kmount/experiments")
		}
	}
	checkKernel := func(when string) {
		if len(planted) == 0 {
			return
		}
		if l := verifMountsBelow(filepath.Join(work, "snapshots")); len(l) != 0 {
			var rel []string
			for _, m := range l {
				r, _ := filepath.Rel(work, m)
				rel = append(rel, r)
			}
			fail("leftover-kernel-mount-after-restart", "%s: still mounted below snapshots/: %v (planted %d)", when, rel, len(planted))
		}
		if b, err := os.ReadFile(filepath.Join(src, verifKeepFile)); err != nil || string(b) != "backing content" {
			fail("stale-mount-content-destroyed", "%s: the content behind a leftover mount was deleted (RemoveAll descended through the mount): %v", when, err)
		}
	}

	// Mount failure pattern of this start: none / some of the remote snapshots / all
	orc := verifNoFaults()
	switch mode {
	case 1:
		for _, i := range image.infos {
			if _, r := i.labels[remoteLabel]; r && main.rnd.Intn(100) < 55 {
				orc.mf[i.id] = true
			}
		}
	case 2:
		orc.mfAll = true
	}
	res, _, after := ie.exec(&verifOp{name: "restart", labels: "-", cfg: cfg, crashRestart: true, orc: orc})
	main.out.Count("restore/" + res.class)
	checkKernel("after the start")
	main.out.Distinct(fmt.Sprintf("img/%s/%s/%s/%d/%d", img.marker, verifCfgStr(cfg), verifMfStr(orc), len(image.order), len(res.trace)))
	if res.class != "ok" {
		return
	}
	ctx := context.Background()
	c.ackCheck(img, after, fail)
	for k := range after.infos {
		if _, err := ie.sn.Stat(ctx, k); err != nil {
			fail("acknowledged-snapshot-not-usable", "Stat(%s): %v", k, err)
		}
	}

	// sometimes the restarted process works on before it cleans up (id re-use after a crash
	// between Rename and Commit: that Prepare may fail once, see DESIGN C09)
	if main.rnd.Intn(100) < 35 {
		op := &verifOp{name: "prepare", key: ie.fresh("z"), parent: ie.genParent(after), labels: "-", orc: ie.randOracle(after, 25, 20, 20)}
		if main.rnd.Bool() {
			op.labels = "@ref=" + ie.fresh("y")
		}
		ie.exec(op)
		main.out.Count("image/prepare-before-cleanup")
	}

	// one cleanup pass
	co := verifNoFaults()
	if ufRand {
		for _, id := range image.ids {
			if main.rnd.Bool() {
				co.uf[id] = true
			}
		}
		if main.rnd.Bool() {
			co.uf["t"] = true
		}
	}
	cres, _, post := ie.exec(&verifOp{name: "cleanup", labels: "-", orc: co})
	var want []string
	for _, k := range post.order {
		want = append(want, post.infos[k].id)
	}
	sort.Slice(want, func(i, j int) bool { return verifIDLess(want[i], want[j]) })
	exact := verifLsStr(want, 0) == verifLsStr(post.ids, post.temps)
	if cfg[1] {
		// NoRestore on a dead backend: directories of remote snapshots deleted by an interrupted
		// Close are not recreated; only "nothing but live snapshots remains" is required
		exact = post.temps == 0
		for _, id := range post.ids {
			if !post.hasID(id) {
				exact = false
			}
		}
	}
	if cres.class != "ok" || !exact {
		sig := "cleanup-not-exact-after-restart"
		if image.uninit && cres.class != "ok" {
			// exactly the repaired defect 323e1d0: Cleanup errors out while nothing was ever committed
			sig = "cleanup-fails-before-first-commit"
		}
		fail(sig, "Cleanup -> %s, directories %s, live snapshot ids %s", cres.class, verifLsStr(post.ids, post.temps), verifJoin(want))
	}

	// every acknowledged snapshot is usable ...
	for _, k := range post.order {
		if post.infos[k].kind == snapshots.KindCommitted {
			continue
		}
		r, _, _ := ie.exec(&verifOp{name: "mounts", key: k, labels: "-", orc: verifNoFaults()})
		if r.class != "ok" {
			fail("acknowledged-snapshot-not-usable", "Mounts(%s) -> %s", k, r.class)
		}
	}
	// ... and removable (children first: ids grow along parent links)
	keys := append([]string(nil), post.order...)
	sort.Slice(keys, func(a, b int) bool { return verifIDLess(post.infos[keys[b]].id, post.infos[keys[a]].id) })
	for _, k := range keys {
		r, _, _ := ie.exec(&verifOp{name: "remove", key: k, labels: "-", orc: verifNoFaults()})
		if r.class != "ok" {
			fail("acknowledged-snapshot-not-removable", "Remove(%s) -> %s", k, r.class)
		}
	}
	r, _, fin := ie.exec(&verifOp{name: "cleanup", labels: "-", orc: verifNoFaults()})
	if r.class != "ok" || len(fin.ids) != 0 || fin.temps != 0 || len(ie.live) != 0 {
		fail("acknowledged-snapshot-not-removable", "after removing everything: Cleanup -> %s, listing %s, %d live mounts", r.class, verifLsStr(fin.ids, fin.temps), len(ie.live))
	}
	checkKernel("after removing everything")
}

func verifMfStr(o *verifOracle) string {
	if o.mfAll {
		return "*"
	}
	return verifSetStr(o.mf)
}

// ackCheck: every snapshot acknowledged before the call in flight is still present (unless the
// call in flight is the one that consumes it), unchanged.
func (c *verifCrash) ackCheck(img *verifImage, now *verifView, fail func(sig, format string, a ...any)) {
	op := img.op
	for k, b := range img.before.infos {
		n, ok := now.infos[k]
		switch {
		case op.name == "remove" && op.key == k:
			continue
		case op.name == "commit" && op.key == k:
			if !ok {
				t, tok := now.infos[op.target]
				if !tok || t.id != b.id || t.kind != snapshots.KindCommitted || t.parent != b.parent {
					fail("acknowledged-snapshot-lost", "%s neither present nor committed as %s", k, op.target)
				}
			}
			continue
		case !ok:
			fail("acknowledged-snapshot-lost", "%s (id %s) is gone", k, b.id)
			continue
		}
		same := n.id == b.id && n.kind == b.kind && n.parent == b.parent
		if !(op.name == "update" && op.key == k) {
			same = same && verifShowLabels(n.labels, ",") == verifShowLabels(b.labels, ",")
		}
		if !same {
			fail("acknowledged-snapshot-changed", "%s: %s#%s -> %s#%s", k, verifInfoStr(b.key, b.kind, b.parent, b.labels), b.id, verifInfoStr(n.key, n.kind, n.parent, n.labels), n.id)
		}
	}
	if img.before.uninit || now.uninit {
		return
	}
	// nothing unacknowledged except what the call in flight may have made durable
	for k := range now.infos {
		if _, ok := img.before.infos[k]; ok {
			continue
		}
		switch {
		case (op.name == "prepare" || op.name == "view") && k == op.key:
		case op.name == "prepare" && strings.Contains(","+op.labels+",", ",@ref="+k+","):
		case op.name == "commit" && k == op.target:
		default:
			fail("unacknowledged-snapshot-appeared", "%s exists in the image but was never created", k)
		}
	}
}

// TestVerifC09 — scripted scenarios with every marker firing imaged, then random histories with
// sampled crash points.
func TestVerifC09(t *testing.T) {
	e := verifNewEnv(t, "C09")
	defer e.finish()
	c := &verifCrash{e: e, scratch: t.TempDir(), prob: 1000}
	c.kernelMounts = os.Geteuid() == 0 && verifutil.EnvInt("VERIF_KMOUNT", 1) == 1
	if c.kernelMounts {
		// probe: bind mounts may be forbidden even for root (no CAP_SYS_ADMIN)
		a, b := filepath.Join(c.scratch, "probe-a"), filepath.Join(c.scratch, "probe-b")
		os.MkdirAll(a, 0o755)
		os.MkdirAll(b, 0o755)
		if err := syscall.Mount(a, b, "none", syscall.MS_BIND, ""); err != nil {
			c.kernelMounts = false
		} else {
			syscall.Unmount(b, syscall.MNT_DETACH)
		}
	}
	if c.kernelMounts {
		e.out.Count("kmount/stream-ran")
	} else {
		e.out.Count("kmount/stream-skipped-not-root")
	}
	defer verifLazyUnmountBelow(c.scratch)
	e.onMarker = c.onMarker
	e.onHistoryEnd = c.restoreAll
	e.scenarios(nil)
	n := verifutil.EnvInt("VERIF_N", 60)
	c.prob = verifutil.EnvInt("VERIF_IMG_PERMILLE", 120)
	for h := 0; h < n; h++ {
		e.runHistory(6+e.rnd.Intn(22), nil)
	}
}
