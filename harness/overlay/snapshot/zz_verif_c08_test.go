//go:build verif

package snapshot

// Verification harness for C08 (and, through the shared machinery below, C09).
//
// A real snapshotter (NewSnapshotter) runs on a temporary root with a RECORDING FileSystem whose
// Mount/Check/Unmount results are dictated, per API call, by a seeded oracle.  Every call is
// printed twice: as an op line for the Lean model (svdriver_c08) and as the canonical answer of
// the implementation.  Independently of the model the C08 clauses are evaluated on what the
// real code returned (API results, backend call log, snapshots/ listing, Walk).

import (
	"context"
	"errors"
	"fmt"
	"os"
	"path/filepath"
	"runtime"
	"sort"
	"strconv"
	"strings"
	"sync"
	"syscall"
	"testing"
	"time"

	"github.com/containerd/containerd/v2/core/mount"
	"github.com/containerd/containerd/v2/core/snapshots"
	"github.com/containerd/containerd/v2/core/snapshots/storage"
	"github.com/containerd/errdefs"
	"github.com/containerd/stargz-snapshotter/internal/verifutil"
)

// ---------------------------------------------------------------------------------------------
// canonical tokens

func verifLabelTok(s string) string {
	switch s {
	case targetSnapshotLabel:
		return "@ref"
	case remoteLabel:
		return "@remote"
	case remoteLabelVal:
		return "@rs"
	}
	return s
}

func verifLabelUntok(s string) string {
	switch s {
	case "@ref":
		return targetSnapshotLabel
	case "@remote":
		return remoteLabel
	case "@rs":
		return remoteLabelVal
	}
	return s
}

func verifShowLabels(l map[string]string, sep string) string {
	if len(l) == 0 {
		return "-"
	}
	var ks []string
	for k, v := range l {
		ks = append(ks, verifLabelTok(k)+"="+verifLabelTok(v))
	}
	sort.Strings(ks)
	return strings.Join(ks, sep)
}

// verifParseLabels turns "k=v,k=v" (tokens) into a fresh real label map (nil for "-").
func verifParseLabels(s string) map[string]string {
	if s == "-" || s == "" {
		return nil
	}
	m := map[string]string{}
	for _, kv := range strings.Split(s, ",") {
		p := strings.SplitN(kv, "=", 2)
		m[verifLabelUntok(p[0])] = verifLabelUntok(p[1])
	}
	return m
}

func verifIDLess(a, b string) bool {
	if len(a) != len(b) {
		return len(a) < len(b)
	}
	return a < b
}

func verifDash(s string) string {
	if s == "" {
		return "-"
	}
	return s
}

func verifJoin(l []string) string {
	if len(l) == 0 {
		return "-"
	}
	return strings.Join(l, ",")
}

func verifErrClass(err error) string {
	switch {
	case err == nil:
		return "ok"
	case errdefs.IsAlreadyExists(err):
		return "exists"
	case errdefs.IsNotFound(err):
		return "notfound"
	case errdefs.IsUnavailable(err):
		return "unavail"
	case errdefs.IsFailedPrecondition(err):
		return "failedprecond"
	case errdefs.IsInvalidArgument(err):
		return "invalid"
	}
	return "err"
}

// ---------------------------------------------------------------------------------------------
// oracle for the backend calls of one API call

type verifOracle struct {
	mfAll bool
	mf    map[string]bool // ids whose Mount fails
	cf    map[string]bool // ids whose Check fails
	uf    map[string]bool // ids (or "t") whose Unmount fails
}

func verifSetStr(m map[string]bool) string {
	var l []string
	for k := range m {
		l = append(l, k)
	}
	sort.Slice(l, func(i, j int) bool { return verifIDLess(l[i], l[j]) })
	return verifJoin(l)
}

func (o *verifOracle) fields() string {
	mf := verifSetStr(o.mf)
	if o.mfAll {
		mf = "*"
	}
	return fmt.Sprintf("mf=%s cf=%s uf=%s", mf, verifSetStr(o.cf), verifSetStr(o.uf))
}

// ---------------------------------------------------------------------------------------------
// recording FileSystem + trace

type verifTok struct {
	kind byte   // 'M' 'C' 'U' 'K'(marker)
	id   string // directory token: id or "t"
	text string
	ok   bool
}

type verifFS struct {
	env *verifEnv
}

type verifEnv struct {
	t    *testing.T
	out  *verifutil.Out
	rnd  *verifutil.Rand
	prop string // "C08" / "C09" (only used in messages)

	root string
	sn   snapshots.Snapshotter
	cfg  [3]bool // asyncRemove, noRestore, allowInvalid

	mu         sync.Mutex
	orc        *verifOracle
	trace      []verifTok
	live       map[string]int               // mountpoint -> live backend mounts
	liveLabels map[string]map[string]string // labels of the last successful Mount
	curOp      string
	curOpIdx   int

	// bookkeeping for the oracle (reset per history)
	dirty         bool            // some call supplied the remote label itself
	lostDirs      bool            // Close followed by a noRestore restart (deployment contract broken)
	leftover      map[string]bool // ids of active snapshots left mounted by an AlreadyExists internal commit
	invalidMounts map[string]bool // ids whose restore Mount failed and was tolerated
	ctr           int

	// crash imaging (C09); nil for C08
	onMarker     func(name string, occ int)
	onHistoryEnd func()
	quiet        bool // oracle-only stream: calls are not emitted for the model
	concurrent   bool // inside concurrentStep: two API calls may be in flight
	occ          map[string]int
	curOpObj     *verifOp
	curBefore    *verifView
}

func (e *verifEnv) dirTok(mountpoint string) string {
	name := filepath.Base(filepath.Dir(mountpoint))
	if strings.HasPrefix(name, "new-") {
		return "t"
	}
	return name
}

func (f *verifFS) Mount(ctx context.Context, mountpoint string, labels map[string]string) error {
	e := f.env
	e.mu.Lock()
	defer e.mu.Unlock()
	id := e.dirTok(mountpoint)
	ok := !(e.orc.mfAll || e.orc.mf[id])
	e.trace = append(e.trace, verifTok{'M', id, fmt.Sprintf("M%s{%s}", id, verifShowLabels(labels, ";")), ok})
	if filepath.Base(mountpoint) != "fs" || filepath.Dir(filepath.Dir(mountpoint)) != filepath.Join(e.root, "snapshots") {
		e.out.Fail("mount-at-wrong-path", "Mount at "+mountpoint)
	}
	if st, err := os.Stat(mountpoint); err != nil || !st.IsDir() {
		e.out.Fail("mount-without-dir", "Mount called on missing mountpoint "+mountpoint)
	}
	if !ok {
		return errors.New("verif: mount failure injected")
	}
	e.live[mountpoint]++
	cp := map[string]string{}
	for k, v := range labels {
		cp[k] = v
	}
	e.liveLabels[mountpoint] = cp
	return nil
}

func (f *verifFS) Check(ctx context.Context, mountpoint string, labels map[string]string) error {
	e := f.env
	e.mu.Lock()
	defer e.mu.Unlock()
	id := e.dirTok(mountpoint)
	ok := !e.orc.cf[id]
	e.trace = append(e.trace, verifTok{'C', id, "C" + id, ok})
	if !ok {
		return errors.New("verif: check failure injected")
	}
	return nil
}

func (f *verifFS) Unmount(ctx context.Context, mountpoint string) error {
	e := f.env
	e.mu.Lock()
	defer e.mu.Unlock()
	id := e.dirTok(mountpoint)
	ok := !e.orc.uf[id]
	// ---- C08 oracle: the directory still exists when its mount is released ----
	if _, err := os.Stat(filepath.Dir(mountpoint)); err != nil {
		// Sequentially this is always a call-order bug.  With two callers reclaiming the same orphan
		// (sync Remove after its commit + a Cleanup) the second, redundant Unmount legitimately finds
		// the directory gone: then it is a violation only if a backend mount was still live on it.
		if !e.concurrent || e.live[mountpoint] > 0 {
			e.out.Fail("unmount-after-rmdir", fmt.Sprintf("%s: Unmount(%s) called after its directory was deleted (live mounts on it: %d)", e.curOp, id, e.live[mountpoint]))
		} else {
			e.out.Count("conc/redundant-unmount-of-deleted-dir")
		}
	}
	if strings.HasPrefix(e.curOp, "remove ") {
		seen := false
		for _, t := range e.trace {
			if t.kind == 'K' && t.text == "remove.txcommitted" {
				seen = true
			}
		}
		if !seen {
			e.out.Fail("unmount-before-remove-committed", fmt.Sprintf("%s: Unmount(%s) before the removal was committed", e.curOp, id))
		}
	}
	e.trace = append(e.trace, verifTok{'U', id, "U" + id, ok})
	// the backend forgets the mount whatever the outcome (fs/fs.go drops the layer first)
	delete(e.live, mountpoint)
	delete(e.liveLabels, mountpoint)
	if !ok {
		return errors.New("verif: unmount failure injected")
	}
	return nil
}

func (e *verifEnv) marker(name string) {
	e.mu.Lock()
	e.trace = append(e.trace, verifTok{'K', "", name, true})
	e.occ[name]++
	occ := e.occ[name]
	cb := e.onMarker
	e.mu.Unlock()
	if cb != nil {
		cb(name, occ)
	}
}

// traceStr renders the trace; runs of Check calls (issued concurrently) are sorted by id.
func verifTraceStr(tr []verifTok) string {
	var toks []string
	i := 0
	for i < len(tr) {
		if tr[i].kind == 'C' {
			j := i
			for j < len(tr) && tr[j].kind == 'C' {
				j++
			}
			run := append([]verifTok(nil), tr[i:j]...)
			sort.SliceStable(run, func(a, b int) bool { return verifIDLess(run[a].id, run[b].id) })
			for _, t := range run {
				toks = append(toks, t.text+"="+verifOkStr(t.ok))
			}
			i = j
			continue
		}
		if tr[i].kind == 'K' {
			toks = append(toks, tr[i].text)
		} else {
			toks = append(toks, tr[i].text+"="+verifOkStr(tr[i].ok))
		}
		i++
	}
	return verifJoin(toks)
}

func verifOkStr(b bool) string {
	if b {
		return "ok"
	}
	return "fail"
}

// order of the directories handed to cleanupSnapshotDirectory in this call (= Unmount calls)
func verifUnmountOrder(tr []verifTok) string {
	var l []string
	seen := map[string]bool{}
	for _, t := range tr {
		if t.kind == 'U' && !seen[t.id] {
			seen[t.id] = true
			l = append(l, t.id)
		}
	}
	return verifJoin(l)
}

// ---------------------------------------------------------------------------------------------
// independent view of the snapshotter's state

type verifInfo struct {
	key, parent, id string
	kind            snapshots.Kind
	labels          map[string]string
}

type verifView struct {
	uninit bool
	infos  map[string]verifInfo
	order  []string
	ids    []string // listing, id-named, numerically sorted
	temps  int
	other  []string
	live   map[string]int
}

func verifIDOf(sn snapshots.Snapshotter, key string) string {
	o := sn.(*snapshotter)
	ctx, t, err := o.ms.TransactionContext(context.Background(), false)
	if err != nil {
		return ""
	}
	defer t.Rollback()
	id, _, _, err := storage.GetInfo(ctx, key)
	if err != nil {
		return ""
	}
	return id
}

func verifListing(root string) (ids []string, temps int, other []string) {
	es, _ := os.ReadDir(filepath.Join(root, "snapshots"))
	for _, en := range es {
		n := en.Name()
		if strings.HasPrefix(n, "new-") {
			temps++
		} else if _, err := strconv.ParseUint(n, 10, 64); err == nil {
			ids = append(ids, n)
		} else {
			other = append(other, n)
		}
	}
	sort.Slice(ids, func(i, j int) bool { return verifIDLess(ids[i], ids[j]) })
	return
}

func verifLsStr(ids []string, temps int) string {
	return fmt.Sprintf("%s+%d", verifJoin(ids), temps)
}

func verifTakeView(root string, sn snapshots.Snapshotter, live map[string]int) *verifView {
	v := &verifView{infos: map[string]verifInfo{}, live: map[string]int{}}
	v.ids, v.temps, v.other = verifListing(root)
	for k, n := range live {
		v.live[k] = n
	}
	if sn == nil {
		v.uninit = true
		return v
	}
	err := sn.Walk(context.Background(), func(_ context.Context, i snapshots.Info) error {
		v.infos[i.Name] = verifInfo{key: i.Name, parent: i.Parent, kind: i.Kind, labels: i.Labels}
		v.order = append(v.order, i.Name)
		return nil
	})
	if err != nil {
		v.uninit = true
		return v
	}
	for k, i := range v.infos {
		i.id = verifIDOf(sn, k)
		v.infos[k] = i
	}
	sort.Strings(v.order)
	return v
}

func verifKindTok(k snapshots.Kind) string {
	switch k {
	case snapshots.KindActive:
		return "a"
	case snapshots.KindView:
		return "v"
	case snapshots.KindCommitted:
		return "c"
	}
	return "?"
}

func verifInfoStr(key string, kind snapshots.Kind, parent string, labels map[string]string) string {
	return fmt.Sprintf("%s/%s/%s/%s", key, verifKindTok(kind), verifDash(parent), verifShowLabels(labels, ","))
}

func (v *verifView) metaStr() string {
	if v.uninit {
		return "uninit"
	}
	if len(v.order) == 0 {
		return "-"
	}
	var l []string
	for _, k := range v.order {
		i := v.infos[k]
		l = append(l, verifInfoStr(i.key, i.kind, i.parent, i.labels))
	}
	return strings.Join(l, ";")
}

func (v *verifView) hasID(id string) bool {
	for _, i := range v.infos {
		if i.id == id {
			return true
		}
	}
	return false
}

func (v *verifView) committedSet() string {
	var l []string
	for _, k := range v.order {
		if v.infos[k].kind == snapshots.KindCommitted {
			l = append(l, k+"#"+v.infos[k].id)
		}
	}
	return strings.Join(l, ",")
}

// chainIDs follows parent links from key (nearest first); remote[i] tells whether that layer is remote.
func (v *verifView) chain(key string) (ids []string, remote []bool) {
	for n := 0; key != "" && n < 10000; n++ {
		i, ok := v.infos[key]
		if !ok {
			return
		}
		ids = append(ids, i.id)
		_, r := i.labels[remoteLabel]
		remote = append(remote, r)
		key = i.parent
	}
	return
}

// canonical form of a mount list; also returns the parsed pieces for the oracle
type verifMount struct {
	typ, source, upper, work string
	ro                       bool
	lower                    []string
}

func (e *verifEnv) parseMounts(ms []mount.Mount) (string, *verifMount) {
	if len(ms) != 1 {
		return fmt.Sprintf("nmounts%d", len(ms)), nil
	}
	m := ms[0]
	idOf := func(p string) string { // <root>/snapshots/<id>/fs|work
		return filepath.Base(filepath.Dir(p))
	}
	vm := &verifMount{typ: m.Type}
	switch m.Type {
	case "bind":
		vm.source = idOf(m.Source)
		rw := "?"
		for _, o := range m.Options {
			if o == "ro" {
				vm.ro = true
				rw = "ro"
			} else if o == "rw" {
				rw = "rw"
			}
		}
		return fmt.Sprintf("bind:%s:%s", vm.source, rw), vm
	case "overlay":
		for _, o := range m.Options {
			switch {
			case strings.HasPrefix(o, "workdir="):
				vm.work = idOf(strings.TrimPrefix(o, "workdir="))
			case strings.HasPrefix(o, "upperdir="):
				vm.upper = idOf(strings.TrimPrefix(o, "upperdir="))
			case strings.HasPrefix(o, "lowerdir="):
				for _, p := range strings.Split(strings.TrimPrefix(o, "lowerdir="), ":") {
					vm.lower = append(vm.lower, idOf(p))
				}
			}
		}
		return fmt.Sprintf("overlay:%s:%s", verifDash(vm.upper), strings.Join(vm.lower, ",")), vm
	}
	return "type-" + m.Type, vm
}

// ---------------------------------------------------------------------------------------------
// running one API call

type verifOp struct {
	name                string // prepare view commit mounts remove cleanup walk stat update close restart
	key, parent, target string // commit: key = active key, target = new name
	labels              string // token form "k=v,…" or "-"
	lk, lv              string
	cfg                 [3]bool
	crashRestart        bool // restart without a preceding Close (process death)
	orc                 *verifOracle
}

func verifCfgStr(c [3]bool) string {
	s := ""
	for _, b := range c {
		if b {
			s += "1"
		} else {
			s += "0"
		}
	}
	return s
}

func (op *verifOp) args() string {
	switch op.name {
	case "prepare", "view":
		return fmt.Sprintf("%s %s %s", op.key, verifDash(op.parent), op.labels)
	case "commit":
		return fmt.Sprintf("%s %s %s", op.target, op.key, op.labels)
	case "mounts", "remove", "stat":
		return op.key
	case "update":
		return fmt.Sprintf("%s %s %s", op.key, op.lk, verifDash(op.lv))
	case "restart":
		return verifCfgStr(op.cfg)
	}
	return ""
}

func (e *verifEnv) opts() []Opt {
	var o []Opt
	if e.cfg[0] {
		o = append(o, AsynchronousRemove)
	}
	if e.cfg[1] {
		o = append(o, NoRestore)
	}
	if e.cfg[2] {
		o = append(o, AllowInvalidMountsOnRestart)
	}
	return o
}

// reset starts a new history on a fresh root.
func (e *verifEnv) reset(cfg [3]bool) {
	e.endHistory()
	e.shutdown()
	e.root = e.t.TempDir()
	e.cfg = cfg
	e.live = map[string]int{}
	e.liveLabels = map[string]map[string]string{}
	e.trace = nil
	e.orc = &verifOracle{}
	e.dirty, e.lostDirs = false, false
	e.leftover = map[string]bool{}
	e.invalidMounts = map[string]bool{}
	e.curOpIdx = 0
	e.occ = map[string]int{}
	e.curOp = "new"
	sn, err := NewSnapshotter(context.Background(), e.root, &verifFS{e}, e.opts()...)
	if err != nil {
		e.t.Fatalf("NewSnapshotter on a fresh root: %v", err)
	}
	e.sn = sn
	if !e.quiet {
		e.out.Emit("reset "+verifCfgStr(cfg), "ok")
	}
}

func (e *verifEnv) endHistory() {
	if e.onHistoryEnd != nil && e.root != "" {
		if e.sn != nil {
			e.sn.(*snapshotter).ms.Close()
			e.sn = nil
		}
		e.onHistoryEnd()
	}
}

// shutdown releases the bolt file of the current snapshotter without running Close's cleanup
// (what the death of the process does) and drops the root.
func (e *verifEnv) shutdown() {
	if e.sn != nil {
		e.sn.(*snapshotter).ms.Close()
		e.sn = nil
	}
	if e.root != "" {
		os.RemoveAll(e.root)
		e.root = ""
	}
}

type verifResult struct {
	class  string
	detail string
	mnt    *verifMount
	trace  []verifTok
}

// exec runs one call on the real snapshotter, emits the op/result lines and evaluates the
// C08 clauses.  Returns the views before/after for the caller.
func (e *verifEnv) exec(op *verifOp) (res verifResult, before, after *verifView) {
	ctx := context.Background()
	before = verifTakeViewOrPeek(e)
	e.mu.Lock()
	e.orc = op.orc
	e.trace = nil
	e.occ = map[string]int{}
	e.curOp = op.name + " " + op.args()
	e.curOpObj = op
	e.curBefore = before
	e.mu.Unlock()
	var err error
	var ms []mount.Mount
	var info snapshots.Info
	isInfo := false
	switch op.name {
	case "prepare":
		var o []snapshots.Opt
		if l := verifParseLabels(op.labels); l != nil {
			o = append(o, snapshots.WithLabels(l))
		}
		ms, err = e.sn.Prepare(ctx, op.key, op.parent, o...)
	case "view":
		var o []snapshots.Opt
		if l := verifParseLabels(op.labels); l != nil {
			o = append(o, snapshots.WithLabels(l))
		}
		ms, err = e.sn.View(ctx, op.key, op.parent, o...)
	case "commit":
		var o []snapshots.Opt
		if l := verifParseLabels(op.labels); l != nil {
			o = append(o, snapshots.WithLabels(l))
		}
		err = e.sn.Commit(ctx, op.target, op.key, o...)
	case "mounts":
		ms, err = e.sn.Mounts(ctx, op.key)
	case "remove":
		err = e.sn.Remove(ctx, op.key)
	case "cleanup":
		err = e.sn.(snapshots.Cleaner).Cleanup(ctx)
	case "walk":
		err = e.sn.Walk(ctx, func(context.Context, snapshots.Info) error { return nil })
	case "stat":
		info, err = e.sn.Stat(ctx, op.key)
		isInfo = err == nil
	case "update":
		in := snapshots.Info{Name: op.key}
		if op.lv != "" {
			in.Labels = map[string]string{verifLabelUntok(op.lk): verifLabelUntok(op.lv)}
		}
		info, err = e.sn.Update(ctx, in, "labels."+verifLabelUntok(op.lk))
		isInfo = err == nil
	case "close":
		err = e.sn.Close()
	case "restart":
		if e.sn != nil {
			e.sn.(*snapshotter).ms.Close()
			e.sn = nil
		}
		e.cfg = op.cfg
		if !op.cfg[1] { // the backend dies with the process unless NoRestore (FUSE manager kept running)
			e.live = map[string]int{}
			e.liveLabels = map[string]map[string]string{}
		}
		var sn snapshots.Snapshotter
		sn, err = NewSnapshotter(ctx, e.root, &verifFS{e}, e.opts()...)
		if err == nil {
			e.sn = sn
		} else {
			verifReleaseDB(e.root)
		}
	default:
		e.t.Fatalf("unknown op %q", op.name)
	}
	e.mu.Lock()
	res.trace = append([]verifTok(nil), e.trace...)
	e.mu.Unlock()
	res.class = verifErrClass(err)
	if err == nil && ms != nil {
		res.detail, res.mnt = e.parseMounts(ms)
	} else if isInfo {
		res.detail = verifInfoStr(info.Name, info.Kind, info.Parent, info.Labels)
	}
	after = verifTakeView(e.root, e.sn, e.live)
	if op.name == "close" || (op.name == "restart" && err != nil) {
		// the store is closed: read the metadata through a throw-away handle
		after = e.peek()
	}
	r := res.class
	if res.detail != "" {
		r += ":" + res.detail
	}
	opLine := fmt.Sprintf("%s %s order=%s %s", op.name, op.orc.fields(), verifUnmountOrder(res.trace), op.args())
	if !e.quiet {
		e.out.Emit(strings.TrimSpace(opLine),
			fmt.Sprintf("r=%s tr=%s ls=%s meta=%s", r, verifTraceStr(res.trace), verifLsStr(after.ids, after.temps), after.metaStr()))
	}
	e.out.Count(op.name)
	e.out.Count(op.name + "/" + res.class)
	e.curOpIdx++
	e.oracleC08(op, &res, before, after)
	return
}

// verifReleaseDB: NewSnapshotter leaves its bolt handle open (and flock-ed) when the restore fails;
// the real process exits at that point.  Drop the lock of such leaked handles so that the same
// root can be started again inside this process, and let the finalizers reclaim the descriptors.
func verifReleaseDB(root string) {
	db := filepath.Join(root, "metadata.db")
	es, _ := os.ReadDir("/proc/self/fd")
	for _, en := range es {
		if l, err := os.Readlink(filepath.Join("/proc/self/fd", en.Name())); err == nil && l == db {
			if fd, err := strconv.Atoi(en.Name()); err == nil {
				syscall.Flock(fd, syscall.LOCK_UN)
			}
		}
	}
	runtime.GC()
}

// peek reads Walk/listing of the root through a temporary NoRestore snapshotter (no backend calls).
func (e *verifEnv) peek() *verifView {
	tmp, err := NewSnapshotter(context.Background(), e.root, &verifFS{e}, NoRestore)
	if err != nil {
		e.t.Fatalf("peek: %v", err)
	}
	v := verifTakeView(e.root, tmp, e.live)
	tmp.(*snapshotter).ms.Close()
	return v
}

// ---------------------------------------------------------------------------------------------
// the C08 clauses, evaluated on the implementation's own answers

func (e *verifEnv) mp(id string) string { return filepath.Join(e.root, "snapshots", id, "fs") }

func (e *verifEnv) oracleC08(op *verifOp, res *verifResult, before, after *verifView) {
	fail := func(sig, format string, a ...any) {
		e.out.Fail(sig, fmt.Sprintf("%s -> %s: ", e.curOp, res.class)+fmt.Sprintf(format, a...))
	}
	labels := verifParseLabels(op.labels)
	if _, ok := labels[remoteLabel]; ok || (op.name == "update" && verifLabelUntok(op.lk) == remoteLabel) {
		e.dirty = true
	}
	if len(after.other) > 0 {
		fail("unexpected-entry-in-snapshots-dir", "%v", after.other)
	}
	// bookkeeping: a backend mount that was established in this call
	mountedOK := map[string]int{}
	for _, t := range res.trace {
		if t.kind == 'M' && t.ok {
			mountedOK[t.id]++
		}
	}

	// (1) Prepare that names a target
	target, hasTarget := labels[targetSnapshotLabel]
	if op.name == "prepare" && hasTarget {
		ti, tAfter := after.infos[target]
		tb, tBefore := before.infos[target]
		ki, kAfter := after.infos[op.key]
		_, kBefore := before.infos[op.key]
		switch res.class {
		case "exists":
			switch {
			case tAfter && ti.kind == snapshots.KindCommitted && !tBefore:
				// created by this call
				if _, r := ti.labels[remoteLabel]; !r {
					fail("prepare-target-not-remote", "target %s committed by this call lacks the remote label", target)
				}
				if n := after.live[e.mp(ti.id)]; n != 1 || mountedOK[ti.id] != 1 {
					fail("prepare-target-not-mounted-once", "target %s (id %s): live=%d mounts-in-call=%d", target, ti.id, n, mountedOK[ti.id])
				}
				if _, err := os.Stat(e.mp(ti.id)); err != nil {
					fail("prepare-target-no-dir", "target %s has no directory", target)
				}
				if kAfter || kBefore {
					fail("prepare-target-key-left", "key %s still present after it was committed as %s", op.key, target)
				}
				want := map[string]string{}
				for k, v := range labels {
					want[k] = v
				}
				want[remoteLabel] = remoteLabelVal
				if verifShowLabels(want, ",") != verifShowLabels(ti.labels, ",") {
					fail("prepare-target-labels", "target labels %s, want %s", verifShowLabels(ti.labels, ","), verifShowLabels(want, ","))
				}
				e.out.Distinct("prepare-created/" + strconv.Itoa(len(after.order)))
			case tAfter && ti.kind == snapshots.KindCommitted:
				// it existed before; nothing new may have been committed
				if before.committedSet() != after.committedSet() {
					fail("prepare-exists-new-committed", "committed %s -> %s", before.committedSet(), after.committedSet())
				}
				if kAfter && !kBefore {
					if _, r := ki.labels[remoteLabel]; r && !e.dirty {
						fail("prepare-leftover-remote", "key %s left active AND remote", op.key)
					}
					if mountedOK[ki.id] > 0 {
						e.leftover[ki.id] = true
					}
				}
			case tAfter && ti.kind != snapshots.KindCommitted && ((tBefore && tb.kind != snapshots.KindCommitted) || target == op.key):
				// KNOWN finding (see findings/known_findings.txt): the name collides with an uncommitted key
				// (an existing active/view snapshot, or the very key being prepared)
				if e.prop == "C08" { // a C08 finding; the C09 run does not report it again
					e.out.Fail("prepare-exists-target-not-committed",
						fmt.Sprintf("%s: AlreadyExists reported although target %s is an uncommitted snapshot", e.curOp, target))
				}
				if kAfter && !kBefore && mountedOK[ki.id] > 0 {
					e.leftover[ki.id] = true
				}
			case tAfter:
				fail("prepare-exists-target-bad", "target %s exists after the call but is not committed and did not exist before", target)
			default:
				// AlreadyExists of the KEY (createSnapshot): nothing may have changed
				if !kBefore || before.metaStr() != after.metaStr() {
					fail("prepare-exists-without-target", "target %s absent, key existed before=%v, meta %s -> %s", target, kBefore, before.metaStr(), after.metaStr())
				}
			}
		case "ok":
			if !kAfter || ki.kind != snapshots.KindActive {
				fail("prepare-fallback-not-active", "key %s is not an active snapshot after a successful Prepare", op.key)
			} else {
				if _, r := ki.labels[remoteLabel]; r && !e.dirty {
					fail("prepare-fallback-remote", "fallback snapshot %s is marked remote", op.key)
				}
				if after.live[e.mp(ki.id)] != 0 {
					fail("prepare-fallback-mounted", "fallback snapshot %s has a live backend mount", op.key)
				}
			}
			if before.committedSet() != after.committedSet() {
				fail("prepare-fallback-new-committed", "committed %s -> %s", before.committedSet(), after.committedSet())
			}
		default:
			if before.committedSet() != after.committedSet() {
				fail("prepare-error-new-committed", "committed %s -> %s", before.committedSet(), after.committedSet())
			}
		}
	}

	// (2) no mount list for a chain with a remote layer whose Check fails
	anyCheckFailed := false
	checked := map[string]bool{}
	for _, t := range res.trace {
		if t.kind == 'C' {
			checked[t.id] = true
			if !t.ok {
				anyCheckFailed = true
			}
		}
	}
	if res.mnt != nil {
		if anyCheckFailed {
			fail("mounts-despite-failed-check", "mount list %s returned although a Check failed", res.detail)
		}
		checkKey := op.parent
		own := op.key
		if op.name == "mounts" {
			checkKey = op.key
		}
		ids, rem := after.chain(checkKey)
		for i := range ids {
			if rem[i] && !checked[ids[i]] {
				fail("mounts-without-check", "remote layer %s of the chain was not checked", ids[i])
			}
		}
		// (3) lower directories nearest parent first
		oi := after.infos[own]
		pids, _ := after.chain(oi.parent)
		m := res.mnt
		switch {
		case len(pids) == 0:
			if m.typ != "bind" || m.source != oi.id || m.ro != (oi.kind == snapshots.KindView) {
				fail("mount-shape", "no parents: %s", res.detail)
			}
		case oi.kind == snapshots.KindActive:
			if m.typ != "overlay" || m.upper != oi.id || m.work != oi.id || strings.Join(m.lower, ",") != strings.Join(pids, ",") {
				fail("lowerdir-order", "active %s: %s, parent chain (nearest first) %v", own, res.detail, pids)
			}
		case len(pids) == 1:
			if m.typ != "bind" || m.source != pids[0] || !m.ro {
				fail("lowerdir-order", "view %s: %s, parent %v", own, res.detail, pids)
			}
		default:
			if m.typ != "overlay" || m.upper != "" || strings.Join(m.lower, ",") != strings.Join(pids, ",") {
				fail("lowerdir-order", "view %s: %s, parent chain (nearest first) %v", own, res.detail, pids)
			}
		}
		e.out.Distinct(fmt.Sprintf("mounts/%s/%d/%d", m.typ, len(pids), len(checked)))
	} else if anyCheckFailed && res.class != "unavail" {
		fail("failed-check-not-unavailable", "a Check failed but the call returned %s", res.class)
	}

	// (4) unmount only after removal (or Close), and before the directory is deleted
	unmounted := map[string]bool{}
	for _, t := range res.trace {
		if t.kind == 'U' {
			unmounted[t.id] = true
			if op.name != "close" && t.id != "t" && after.hasID(t.id) {
				fail("unmount-of-live-snapshot", "Unmount(%s) but the snapshot is still live", t.id)
			}
		}
	}
	if op.name == "close" {
		for id := range unmounted {
			if !before.hasID(id) {
				fail("close-unmounted-orphan", "Close unmounted %s which is no snapshot", id)
			}
		}
	}
	afterIDs := map[string]bool{}
	for _, id := range after.ids {
		afterIDs[id] = true
	}
	for _, id := range before.ids {
		if !afterIDs[id] && !unmounted[id] {
			fail("rmdir-without-unmount", "directory %s deleted without an Unmount call", id)
		}
	}
	if op.name != "restart" {
		beforeIDs := map[string]bool{}
		for _, id := range before.ids {
			beforeIDs[id] = true
		}
		n := 0
		for _, id := range after.ids {
			if !beforeIDs[id] {
				n++
				if !after.hasID(id) {
					fail("new-dir-without-snapshot", "directory %s appeared without a snapshot", id)
				}
			}
		}
		if n > 1 {
			fail("several-new-dirs", "%d new directories in one call", n)
		}
	}
	if after.temps > before.temps || (after.temps != 0 && (op.name == "cleanup" || (op.name == "remove" && res.class == "ok" && !e.cfg[0]))) {
		fail("temp-left-behind", "%d temporary directories left after the call", after.temps)
	}

	// (5) after Cleanup the directories are exactly those of live snapshots
	if op.name == "cleanup" && res.class == "ok" {
		var want []string
		for _, k := range after.order {
			want = append(want, after.infos[k].id)
		}
		sort.Slice(want, func(i, j int) bool { return verifIDLess(want[i], want[j]) })
		if e.lostDirs {
			for _, id := range after.ids {
				if !after.hasID(id) {
					fail("cleanup-not-exact", "directory %s survives Cleanup but is no live snapshot", id)
				}
			}
		} else if verifJoin(want) != verifJoin(after.ids) {
			fail("cleanup-not-exact", "directories %s, live snapshot ids %s", verifJoin(after.ids), verifJoin(want))
		}
	} else if op.name == "cleanup" {
		fail("cleanup-failed", "Cleanup returned an error")
	}

	if op.name == "restart" && res.class == "ok" {
		e.invalidMounts = map[string]bool{}
		for _, t := range res.trace {
			if t.kind == 'M' && !t.ok {
				e.invalidMounts[t.id] = true
			}
		}
		if op.cfg[1] {
			// NoRestore promises that the backend kept the mounts; after a Close or with a dead
			// backend the remote snapshots stay without directory/mount (deployment contract broken)
			e.lostDirs = true
		} else {
			e.leftover = map[string]bool{}
		}
	}

	// (6) a live backend mount implies its directory; (8) who may be mounted
	for mpath, n := range after.live {
		id := e.dirTok(mpath)
		if _, err := os.Stat(mpath); err != nil {
			fail("mount-without-dir", "live mount on %s whose directory is gone", id)
		}
		if n != 1 {
			fail("mounted-twice", "%d live mounts on %s", n, id)
		}
		if e.dirty {
			continue
		}
		// a directory without a snapshot (removed, awaiting Cleanup) may still be mounted
		isRemote := !after.hasID(id)
		for _, i := range after.infos {
			if i.id == id {
				_, isRemote = i.labels[remoteLabel]
			}
		}
		if !isRemote && !e.leftover[id] && op.name != "close" {
			fail("unexpected-live-mount", "live mount on %s which is neither a remote snapshot nor a leftover of an AlreadyExists commit", id)
		}
	}
	if !e.dirty && !e.lostDirs && op.name != "close" && e.sn != nil {
		for _, i := range after.infos {
			if _, r := i.labels[remoteLabel]; r && !e.invalidMounts[i.id] && after.live[e.mp(i.id)] != 1 {
				fail("remote-snapshot-not-mounted", "remote snapshot %s (id %s) has %d live mounts", i.key, i.id, after.live[e.mp(i.id)])
			}
		}
	}
	if op.name == "close" {
		// Close releases the mount of every live remote snapshot.  (Observation, outside the
		// property: mounts of snapshots removed asynchronously and not yet cleaned up, and the
		// leftover mounts of AlreadyExists commits, are NOT released by Close.)
		for mpath := range after.live {
			id := e.dirTok(mpath)
			for _, i := range before.infos {
				if _, r := i.labels[remoteLabel]; r && i.id == id {
					fail("close-left-mount", "mount of remote snapshot %s (id %s) still live after Close", i.key, id)
				}
			}
		}
	}

	// (7) the remote label appears only through Prepare's internal commit
	if !e.dirty {
		for k, i := range after.infos {
			if _, r := i.labels[remoteLabel]; !r {
				continue
			}
			if bi, ok := before.infos[k]; ok {
				if _, rb := bi.labels[remoteLabel]; rb {
					continue
				}
			}
			if !(op.name == "prepare" && hasTarget && target == k && res.class == "exists" && mountedOK[i.id] == 1) {
				fail("remote-label-without-prepare", "%s became remote", k)
			}
			if i.kind != snapshots.KindCommitted {
				fail("remote-label-on-uncommitted", "%s is remote but not committed", k)
			}
		}
	}

	// restart: every remote snapshot is mounted again with its recorded labels (shared with C09)
	if op.name == "restart" {
		e.oracleRestore(op.cfg, res.class == "ok", res.trace, before, after, e.out.Fail)
	}
}

// oracleRestore: the restart clauses of C09 (also used for C08's restart op).  `img` is the view of the
// durable image before the start, `after` the view after NewSnapshotter returned.
func (e *verifEnv) oracleRestore(cfg [3]bool, ok bool, trace []verifTok, img, after *verifView, failf func(sig, what string)) {
	fail := func(sig, format string, a ...any) {
		failf(sig, fmt.Sprintf("%s cfg=%s: ", e.curOp, verifCfgStr(cfg))+fmt.Sprintf(format, a...))
	}
	mountFailed := false
	nMounts := map[string]int{}
	for _, t := range trace {
		switch t.kind {
		case 'M':
			nMounts[t.id]++
			if !t.ok {
				mountFailed = true
			}
		case 'C', 'U':
			fail("restore-unexpected-backend-call", "%s during restore", t.text)
		}
	}
	if cfg[1] {
		if !ok || len(nMounts) != 0 {
			fail("norestore-not-identity", "ok=%v backend mounts=%d", ok, len(nMounts))
		}
		if verifLsStr(img.ids, img.temps) != verifLsStr(after.ids, after.temps) {
			fail("norestore-not-identity", "listing %s -> %s", verifLsStr(img.ids, img.temps), verifLsStr(after.ids, after.temps))
		}
		return
	}
	if ok == (mountFailed && !cfg[2]) {
		fail("restore-result", "start ok=%v although mountFailed=%v allowInvalid=%v", ok, mountFailed, cfg[2])
	}
	if !ok {
		return
	}
	remoteIDs := map[string]bool{}
	for _, i := range after.infos {
		_, r := i.labels[remoteLabel]
		if !r {
			continue
		}
		remoteIDs[i.id] = true
		if nMounts[i.id] != 1 {
			fail("restore-remote-not-mounted-once", "remote snapshot %s (id %s): %d Mount calls", i.key, i.id, nMounts[i.id])
			continue
		}
		for _, t := range trace {
			if t.kind == 'M' && t.id == i.id {
				want := fmt.Sprintf("M%s{%s}", i.id, verifShowLabels(i.labels, ";"))
				if t.text != want {
					fail("restore-mount-labels", "Mount %s, recorded %s", t.text, want)
				}
				if t.ok && after.live[e.mpIn(after, i.id)] != 1 {
					fail("restore-remote-not-live", "remote snapshot %s not live after restore", i.key)
				}
			}
		}
	}
	for id := range nMounts {
		if !remoteIDs[id] {
			fail("restore-mounted-non-remote", "Mount on %s which is no remote snapshot", id)
		}
	}
	for mpath := range after.live {
		if !remoteIDs[filepath.Base(filepath.Dir(mpath))] {
			fail("restore-mounted-non-remote", "live mount on %s after restore", mpath)
		}
	}
	// directories: only remote snapshots' directories may have been (re)created
	want := map[string]bool{}
	for _, id := range img.ids {
		want[id] = true
	}
	for id := range remoteIDs {
		want[id] = true
	}
	var wl []string
	for id := range want {
		wl = append(wl, id)
	}
	sort.Slice(wl, func(i, j int) bool { return verifIDLess(wl[i], wl[j]) })
	if verifLsStr(wl, img.temps) != verifLsStr(after.ids, after.temps) {
		fail("restore-touched-dirs", "listing %s, expected %s", verifLsStr(after.ids, after.temps), verifLsStr(wl, img.temps))
	}
	if img.metaStr() != after.metaStr() && !img.uninit {
		fail("restore-changed-metadata", "%s -> %s", img.metaStr(), after.metaStr())
	}
}

// mpIn: the live table is keyed by absolute mountpoints of the root the view was taken on
func (e *verifEnv) mpIn(v *verifView, id string) string {
	for mpath := range v.live {
		if filepath.Base(filepath.Dir(mpath)) == id {
			return mpath
		}
	}
	return ""
}

// ---------------------------------------------------------------------------------------------
// generators

func (e *verifEnv) randOracle(v *verifView, mountFailP, checkP, unmountP int) *verifOracle {
	o := &verifOracle{mf: map[string]bool{}, cf: map[string]bool{}, uf: map[string]bool{}}
	if e.rnd.Intn(100) < mountFailP {
		o.mfAll = true
	}
	if e.rnd.Intn(100) < checkP {
		for _, id := range v.ids {
			if e.rnd.Intn(100) < 40 {
				o.cf[id] = true
			}
		}
	}
	if e.rnd.Intn(100) < unmountP {
		for _, id := range v.ids {
			if e.rnd.Intn(100) < 40 {
				o.uf[id] = true
			}
		}
		if e.rnd.Bool() {
			o.uf["t"] = true
		}
	}
	return o
}

func (e *verifEnv) pickKey(v *verifView, pred func(verifInfo) bool) (string, bool) {
	var l []string
	for _, k := range v.order {
		if pred(v.infos[k]) {
			l = append(l, k)
		}
	}
	if len(l) == 0 {
		return "", false
	}
	return l[e.rnd.Intn(len(l))], true
}

func (e *verifEnv) fresh(prefix string) string {
	e.ctr++
	return fmt.Sprintf("%s%d", prefix, e.ctr)
}

func verifIsCommitted(i verifInfo) bool { return i.kind == snapshots.KindCommitted }
func verifIsActive(i verifInfo) bool    { return i.kind == snapshots.KindActive }
func verifAny(verifInfo) bool           { return true }

func (e *verifEnv) genParent(v *verifView) string {
	switch e.rnd.Pick(70, 15, 8, 7) {
	case 0:
		if k, ok := e.pickKey(v, verifIsCommitted); ok {
			return k
		}
		return ""
	case 1:
		return ""
	case 2:
		if k, ok := e.pickKey(v, func(i verifInfo) bool { return !verifIsCommitted(i) }); ok {
			return k
		}
		return ""
	}
	return "nope" + strconv.Itoa(e.rnd.Intn(3))
}

func (e *verifEnv) genLabels(target string) string {
	var l []string
	if target != "" {
		l = append(l, "@ref="+target)
	}
	if e.rnd.Intn(100) < 30 {
		l = append(l, "x="+[]string{"v1", "v2"}[e.rnd.Intn(2)])
	}
	if e.rnd.Intn(100) < 3 {
		l = append(l, "@remote="+[]string{"@rs", "u"}[e.rnd.Intn(2)]) // caller-supplied remote label ("dirty" history)
	}
	if len(l) == 0 {
		return "-"
	}
	return strings.Join(l, ",")
}

// genOp draws the next call.
func (e *verifEnv) genOp(v *verifView) *verifOp {
	op := &verifOp{labels: "-"}
	switch e.rnd.Pick(30, 8, 14, 10, 12, 5, 2, 3, 6, 2, 2) {
	case 0:
		op.name = "prepare"
		op.key = e.fresh("k")
		if e.rnd.Intn(100) < 8 {
			if k, ok := e.pickKey(v, verifAny); ok {
				op.key = k
			}
		}
		op.parent = e.genParent(v)
		target := ""
		if e.rnd.Intn(100) < 55 {
			target = e.fresh("c")
			if e.rnd.Intn(100) < 20 {
				if k, ok := e.pickKey(v, verifIsCommitted); ok {
					target = k
				}
			}
		}
		op.labels = e.genLabels(target)
		op.orc = e.randOracle(v, 25, 30, 15)
	case 1:
		op.name = "view"
		op.key = e.fresh("v")
		op.parent = e.genParent(v)
		op.labels = e.genLabels("")
		op.orc = e.randOracle(v, 0, 30, 15)
	case 2:
		op.name = "commit"
		op.target = e.fresh("c")
		if e.rnd.Intn(100) < 10 {
			if k, ok := e.pickKey(v, verifAny); ok {
				op.target = k
			}
		}
		if k, ok := e.pickKey(v, verifIsActive); ok && e.rnd.Intn(100) < 85 {
			op.key = k
		} else if k, ok := e.pickKey(v, verifAny); ok && e.rnd.Bool() {
			op.key = k
		} else {
			op.key = "nope1"
		}
		op.labels = e.genLabels("")
		if e.rnd.Intn(100) < 70 {
			op.labels = "-"
		}
		op.orc = e.randOracle(v, 0, 0, 0)
	case 3:
		op.name = "mounts"
		if k, ok := e.pickKey(v, func(i verifInfo) bool { return !verifIsCommitted(i) }); ok && e.rnd.Intn(100) < 85 {
			op.key = k
		} else if k, ok := e.pickKey(v, verifAny); ok && e.rnd.Bool() {
			op.key = k
		} else {
			op.key = "nope2"
		}
		op.orc = e.randOracle(v, 0, 40, 0)
	case 4:
		op.name = "remove"
		if k, ok := e.pickKey(v, verifAny); ok && e.rnd.Intn(100) < 92 {
			op.key = k
		} else {
			op.key = "nope0"
		}
		op.orc = e.randOracle(v, 0, 0, 30)
	case 5:
		op.name = "cleanup"
		op.orc = e.randOracle(v, 0, 0, 30)
	case 6:
		op.name = "walk"
		op.orc = e.randOracle(v, 0, 0, 0)
	case 7:
		op.name = "stat"
		if k, ok := e.pickKey(v, verifAny); ok && e.rnd.Intn(100) < 80 {
			op.key = k
		} else {
			op.key = "nope1"
		}
		op.orc = e.randOracle(v, 0, 0, 0)
	case 8:
		op.name = "update"
		if k, ok := e.pickKey(v, verifAny); ok && e.rnd.Intn(100) < 90 {
			op.key = k
		} else {
			op.key = "nope2"
		}
		op.lk = []string{"x", "y", "x", "@ref"}[e.rnd.Intn(4)]
		if e.rnd.Intn(100) < 2 {
			op.lk = "@remote"
		}
		op.lv = []string{"", "v1", "v2", "w"}[e.rnd.Intn(4)]
		op.orc = e.randOracle(v, 0, 0, 0)
	case 9:
		op.name = "close"
		op.orc = e.randOracle(v, 0, 0, 30)
	default:
		op.name = "restart"
		op.crashRestart = true
		op.cfg = e.genRestartCfg(true)
		op.orc = e.restartOracle(v)
	}
	return op
}

func (e *verifEnv) genRestartCfg(crash bool) [3]bool {
	c := [3]bool{e.cfg[0], false, e.rnd.Intn(100) < 50}
	if e.rnd.Intn(100) < 15 {
		c[0] = !c[0]
	}
	if e.rnd.Intn(100) < 12 {
		c[1] = true
	}
	return c
}

func (e *verifEnv) restartOracle(v *verifView) *verifOracle {
	o := &verifOracle{mf: map[string]bool{}, cf: map[string]bool{}, uf: map[string]bool{}}
	switch e.rnd.Pick(55, 35, 10) {
	case 1:
		for _, i := range v.infos {
			if _, r := i.labels[remoteLabel]; r && e.rnd.Intn(100) < 50 {
				o.mf[i.id] = true
			}
		}
	case 2:
		o.mfAll = true
	}
	return o
}

// runHistory: random calls on a fresh root.  `hook` (may be nil) is called after every call.
func (e *verifEnv) runHistory(nops int, hook func(op *verifOp, res verifResult, before, after *verifView)) {
	e.reset([3]bool{e.rnd.Intn(100) < 40, false, false})
	shape := ""
	for i := 0; i < nops; i++ {
		v := verifTakeViewOrPeek(e)
		var op *verifOp
		if e.sn == nil {
			// closed (after Close or a failed start): only a start is possible
			op = &verifOp{name: "restart", labels: "-", cfg: e.genRestartCfg(false), orc: e.restartOracle(v)}
		} else {
			op = e.genOp(v)
		}
		res, before, after := e.exec(op)
		if op.name == "close" {
			e.sn = nil // the handle is dead
		}
		if hook != nil {
			hook(op, res, before, after)
		}
		shape += op.name[:2] + res.class[:1]
	}
	e.out.Distinct("hist/" + shape)
}

func verifTakeViewOrPeek(e *verifEnv) *verifView {
	if e.sn == nil {
		return e.peek()
	}
	return verifTakeView(e.root, e.sn, e.live)
}

func verifNoFaults() *verifOracle {
	return &verifOracle{mf: map[string]bool{}, cf: map[string]bool{}, uf: map[string]bool{}}
}

// scripted scenarios that always run first (edge cases + the known-finding witness)
func (e *verifEnv) scenarios(hook func(op *verifOp, res verifResult, before, after *verifView)) {
	run := func(cfg [3]bool, ops ...*verifOp) {
		e.reset(cfg)
		for _, op := range ops {
			if op.orc == nil {
				op.orc = verifNoFaults()
			}
			if op.labels == "" {
				op.labels = "-"
			}
			if e.sn == nil && op.name != "restart" {
				// a scripted start failed against the script's expectation (already reported by the
				// restart oracle): the remaining calls of the script have no snapshotter to run on
				e.out.Count("scripted-call-skipped")
				continue
			}
			res, before, after := e.exec(op)
			if op.name == "close" {
				e.sn = nil
			}
			if hook != nil {
				hook(op, res, before, after)
			}
		}
	}
	failM := func() *verifOracle { o := verifNoFaults(); o.mfAll = true; return o }
	failC := func(ids ...string) *verifOracle {
		o := verifNoFaults()
		for _, id := range ids {
			o.cf[id] = true
		}
		return o
	}
	failU := func(ids ...string) *verifOracle {
		o := verifNoFaults()
		for _, id := range ids {
			o.uf[id] = true
		}
		return o
	}
	// S1: remote chain of three layers, container on top, checks, removal, close, restart
	run([3]bool{false, false, false},
		&verifOp{name: "walk"},
		&verifOp{name: "cleanup"},
		&verifOp{name: "prepare", key: "k1", labels: "@ref=c1"},
		&verifOp{name: "prepare", key: "k2", parent: "c1", labels: "@ref=c2,x=v1"},
		&verifOp{name: "prepare", key: "k3", parent: "c2", labels: "@ref=c3"},
		&verifOp{name: "prepare", key: "k4", parent: "c3"},
		&verifOp{name: "mounts", key: "k4"},
		&verifOp{name: "mounts", key: "k4", orc: failC("2")},
		&verifOp{name: "view", key: "v5", parent: "c3", orc: failC("1", "3")},
		&verifOp{name: "view", key: "v6", parent: "c1"},
		&verifOp{name: "mounts", key: "v6"},
		&verifOp{name: "mounts", key: "c3"},
		&verifOp{name: "remove", key: "c3"},
		&verifOp{name: "remove", key: "k4"},
		&verifOp{name: "remove", key: "v5", orc: failU("5")},
		&verifOp{name: "remove", key: "c3"},
		&verifOp{name: "stat", key: "c2"},
		&verifOp{name: "update", key: "c2", lk: "y", lv: "w"},
		&verifOp{name: "update", key: "c2", lk: "x", lv: ""},
		&verifOp{name: "close"},
		&verifOp{name: "restart", cfg: [3]bool{false, false, false}},
		&verifOp{name: "mounts", key: "v6"},
		&verifOp{name: "cleanup"},
	)
	// S2: mount failure falls back; target already committed; key already exists; commit paths
	run([3]bool{true, false, false},
		&verifOp{name: "prepare", key: "k1", labels: "@ref=c1", orc: failM()},
		&verifOp{name: "commit", target: "c1", key: "k1", labels: "y=v2"},
		&verifOp{name: "prepare", key: "k2", labels: "@ref=c1"},
		&verifOp{name: "prepare", key: "k2", labels: "@ref=c9"},
		&verifOp{name: "prepare", key: "k3", parent: "k2", labels: "@ref=c3"},
		&verifOp{name: "prepare", key: "k3", parent: "nope", labels: "@ref=c3"},
		&verifOp{name: "commit", target: "c1", key: "k2"},
		&verifOp{name: "commit", target: "c4", key: "c1"},
		&verifOp{name: "commit", target: "c4", key: "nope"},
		&verifOp{name: "remove", key: "k2"},
		&verifOp{name: "remove", key: "c1"},
		&verifOp{name: "prepare", key: "k5", parent: "", labels: "@ref=c5"},
		&verifOp{name: "remove", key: "c5"},
		&verifOp{name: "cleanup", orc: failU("1", "2", "3")},
		&verifOp{name: "restart", crashRestart: true, cfg: [3]bool{false, false, true}},
		&verifOp{name: "cleanup"},
	)
	// S3: restart with failing re-mounts, refused then tolerated
	run([3]bool{false, false, false},
		&verifOp{name: "prepare", key: "k1", labels: "@ref=c1"},
		&verifOp{name: "prepare", key: "k2", parent: "c1", labels: "@ref=c2"},
		&verifOp{name: "prepare", key: "k3", parent: "c2"},
		&verifOp{name: "restart", crashRestart: true, cfg: [3]bool{false, false, false}, orc: func() *verifOracle { o := verifNoFaults(); o.mf["2"] = true; return o }()},
		&verifOp{name: "restart", cfg: [3]bool{false, false, true}, orc: func() *verifOracle { o := verifNoFaults(); o.mf["1"] = true; return o }()},
		&verifOp{name: "mounts", key: "k3"},
		&verifOp{name: "remove", key: "k3"},
		&verifOp{name: "remove", key: "c2"},
		&verifOp{name: "remove", key: "c1"},
		&verifOp{name: "cleanup"},
	)
	// S4 (KNOWN finding witness): the target names an uncommitted snapshot
	run([3]bool{false, false, false},
		&verifOp{name: "prepare", key: "a1"},
		&verifOp{name: "prepare", key: "k2", labels: "@ref=a1"},
		&verifOp{name: "view", key: "v3"},
		&verifOp{name: "prepare", key: "k4", labels: "@ref=v3"},
		&verifOp{name: "prepare", key: "k5", labels: "@ref=k5"},
		&verifOp{name: "close"},
	)
}

// ---------------------------------------------------------------------------------------------

func verifNewEnv(t *testing.T, prop string) *verifEnv {
	e := &verifEnv{t: t, prop: prop, out: verifutil.OpenOut(), rnd: verifutil.NewRand(verifutil.Seed())}
	VerifCrashPoint = e.marker
	return e
}

func (e *verifEnv) finish() {
	e.endHistory()
	VerifCrashPoint = nil
	e.shutdown()
	e.out.Close()
}

// TestVerifC08 — scripted scenarios, then random histories.
func TestVerifC08(t *testing.T) {
	e := verifNewEnv(t, "C08")
	defer e.finish()
	e.scenarios(nil)
	n := verifutil.EnvInt("VERIF_N", 150)
	for h := 0; h < n; h++ {
		e.runHistory(8+e.rnd.Intn(28), nil)
	}
}

// ---------------------------------------------------------------------------------------------
// concurrent callers (oracle only; the model is sequential)
//
// The crash-point markers double as deterministic synchronisation points: when the chosen
// marker fires inside an API call ("outer"), ONE other API call ("inner") is started in a second
// goroutine and given a bounded time.  On the unchanged code a writer blocks on bolt's single
// writer lock until the outer transaction is over (it then finishes after the outer call has
// returned, where it is joined); a reader, or a call arriving outside the outer transaction, may
// complete inside the window.  Afterwards the C08 clauses that do not depend on the schedule are
// evaluated: every live snapshot still has its directory, the mounts handed out exist, an
// unmounted directory belongs to no live snapshot, and after one final Cleanup the directories on
// disk are exactly those of the live snapshots.

type verifConcCall struct {
	name                string // prepare view commit mounts remove cleanup walk stat
	key, parent, target string
	labels              string
}

func (c verifConcCall) String() string {
	return strings.TrimSpace(fmt.Sprintf("%s %s %s %s %s", c.name, c.key, c.parent, c.target, c.labels))
}

func (e *verifEnv) rawCall(c verifConcCall) ([]mount.Mount, error) {
	ctx := context.Background()
	var o []snapshots.Opt
	if l := verifParseLabels(c.labels); l != nil {
		o = append(o, snapshots.WithLabels(l))
	}
	switch c.name {
	case "prepare":
		return e.sn.Prepare(ctx, c.key, c.parent, o...)
	case "view":
		return e.sn.View(ctx, c.key, c.parent, o...)
	case "commit":
		return nil, e.sn.Commit(ctx, c.target, c.key, o...)
	case "mounts":
		return e.sn.Mounts(ctx, c.key)
	case "remove":
		return nil, e.sn.Remove(ctx, c.key)
	case "cleanup":
		return nil, e.sn.(snapshots.Cleaner).Cleanup(ctx)
	case "walk":
		return nil, e.sn.Walk(ctx, func(context.Context, snapshots.Info) error { return nil })
	case "stat":
		_, err := e.sn.Stat(ctx, c.key)
		return nil, err
	}
	e.t.Fatalf("rawCall %q", c.name)
	return nil, nil
}

// concurrentStep runs `outer`; when `marker` fires for the occ-th time inside it, `inner` is started
// in a second goroutine.  Returns false if the marker never fired (inner not run).
func (e *verifEnv) concurrentStep(outer, inner verifConcCall, marker string, occ int, wait time.Duration) bool {
	what := fmt.Sprintf("outer [%s] / inner [%s] started at %s#%d", outer, inner, marker, occ)
	fail := func(sig, format string, a ...any) {
		e.out.Fail(sig, what+": "+fmt.Sprintf(format, a...))
	}
	before := verifTakeView(e.root, e.sn, e.live)
	e.mu.Lock()
	e.orc = verifNoFaults()
	e.trace = nil
	e.occ = map[string]int{}
	e.curOp = "concurrent " + what
	e.concurrent = true
	e.mu.Unlock()
	defer func() { e.mu.Lock(); e.concurrent = false; e.mu.Unlock() }()

	var (
		launched  bool
		innerDone = make(chan struct{})
		innerErr  error
		inWindow  bool
		seen      int
		lmu       sync.Mutex
	)
	prev := e.onMarker
	e.onMarker = func(name string, _ int) {
		// markers of the inner call arrive on its own goroutine after the launch: ignored
		lmu.Lock()
		if launched || name != marker {
			lmu.Unlock()
			return
		}
		seen++
		if seen != occ {
			lmu.Unlock()
			return
		}
		launched = true
		lmu.Unlock()
		go func() {
			defer close(innerDone)
			_, innerErr = e.rawCall(inner)
		}()
		select {
		case <-innerDone:
			inWindow = true
		case <-time.After(wait):
		}
	}
	ms, outerErr := e.rawCall(outer)
	e.mu.Lock()
	e.onMarker = prev
	e.mu.Unlock()
	if !launched {
		return false
	}
	select {
	case <-innerDone:
	case <-time.After(20 * time.Second):
		fail("concurrent-call-hung", "the inner call did not return within 20s after the outer call returned")
		e.t.Fatalf("inner call hung: %s", what)
	}
	e.out.Count("conc/" + outer.name + "+" + inner.name)
	e.out.Count("conc@" + marker)
	if inWindow {
		e.out.Count("conc/inner-completed-in-window")
	} else {
		e.out.Count("conc/inner-blocked-until-outer-finished")
	}
	e.out.Distinct(fmt.Sprintf("conc/%s/%s/%s/%v/%s/%s", outer.name, inner.name, marker, inWindow, verifErrClass(outerErr), verifErrClass(innerErr)))

	// ---- schedule-independent C08 clauses ----
	e.mu.Lock()
	trace := append([]verifTok(nil), e.trace...)
	e.mu.Unlock()
	after := verifTakeView(e.root, e.sn, e.live)
	cleaning := outer.name == "cleanup" || inner.name == "cleanup"
	for _, k := range after.order {
		i := after.infos[k]
		need := []string{"fs"}
		if i.kind == snapshots.KindActive {
			need = append(need, "work")
		}
		for _, sub := range need {
			if _, err := os.Stat(filepath.Join(e.root, "snapshots", i.id, sub)); err != nil {
				sig := "live-snapshot-dir-missing-after-concurrent-calls"
				if cleaning {
					sig = "live-snapshot-dir-removed-by-concurrent-cleanup"
				}
				fail(sig, "live snapshot %s (id %s) has no %s directory (inner completed inside the window: %v)", k, i.id, sub, inWindow)
			}
		}
	}
	if outerErr == nil && ms != nil {
		for _, m := range ms {
			paths := []string{}
			if m.Type == "bind" {
				paths = append(paths, m.Source)
			}
			for _, o := range m.Options {
				for _, pre := range []string{"workdir=", "upperdir="} {
					if strings.HasPrefix(o, pre) {
						paths = append(paths, strings.TrimPrefix(o, pre))
					}
				}
				if strings.HasPrefix(o, "lowerdir=") {
					paths = append(paths, strings.Split(strings.TrimPrefix(o, "lowerdir="), ":")...)
				}
			}
			for _, p := range paths {
				if _, err := os.Stat(p); err != nil {
					fail("mounts-handed-out-for-missing-dir", "the outer call returned %v but %s does not exist", ms, p)
				}
			}
		}
	}
	for _, t := range trace {
		if t.kind == 'U' && t.id != "t" && after.hasID(t.id) {
			fail("unmount-of-live-snapshot", "Unmount(%s) but the snapshot is live after both calls returned", t.id)
		}
	}
	for mpath := range after.live {
		if _, err := os.Stat(mpath); err != nil {
			fail("mount-without-dir", "live backend mount on %s whose directory is gone", mpath)
		}
	}
	bIDs := map[string]bool{}
	for _, id := range before.ids {
		bIDs[id] = true
	}
	unmounted := map[string]bool{}
	for _, t := range trace {
		if t.kind == 'U' {
			unmounted[t.id] = true
		}
	}
	aIDs := map[string]bool{}
	for _, id := range after.ids {
		aIDs[id] = true
	}
	for id := range bIDs {
		if !aIDs[id] && !unmounted[id] {
			fail("rmdir-without-unmount", "directory %s deleted without an Unmount call", id)
		}
	}
	// one final Cleanup: exactly the live snapshots' directories remain
	e.mu.Lock()
	e.trace = nil
	e.curOp = "final cleanup after " + what
	e.mu.Unlock()
	cerr := e.sn.(snapshots.Cleaner).Cleanup(context.Background())
	fin := verifTakeView(e.root, e.sn, e.live)
	var want []string
	for _, k := range fin.order {
		want = append(want, fin.infos[k].id)
	}
	sort.Slice(want, func(i, j int) bool { return verifIDLess(want[i], want[j]) })
	if cerr != nil || verifLsStr(want, 0) != verifLsStr(fin.ids, fin.temps) {
		fail("cleanup-not-exact-after-concurrent-calls", "Cleanup err=%v, directories %s, live snapshot ids %s", cerr, verifLsStr(fin.ids, fin.temps), verifJoin(want))
	}
	return true
}

var verifConcMarkers = []string{"create.tempdir", "create.txcreate", "create.renamed", "create.committed",
	"prepare.mounted", "commit.beforetx", "prepare.targetcommitted", "remove.txcommitted",
	"cleanupdir.unmounted", "cleanupdir.removed"}

func (e *verifEnv) genConcCall(v *verifView, outer bool) verifConcCall {
	pick := func(pred func(verifInfo) bool, def string) string {
		if k, ok := e.pickKey(v, pred); ok {
			return k
		}
		return def
	}
	w := []int{30, 10, 10, 10, 20, 20, 0, 0}
	if !outer {
		w = []int{15, 5, 5, 15, 15, 35, 5, 5}
	}
	switch e.rnd.Pick(w...) {
	case 0:
		c := verifConcCall{name: "prepare", key: e.fresh("k"), parent: pick(verifIsCommitted, ""), labels: "-"}
		if e.rnd.Intn(100) < 45 {
			c.labels = "@ref=" + e.fresh("c")
		}
		return c
	case 1:
		return verifConcCall{name: "view", key: e.fresh("v"), parent: pick(verifIsCommitted, ""), labels: "-"}
	case 2:
		return verifConcCall{name: "commit", key: pick(verifIsActive, "nope"), target: e.fresh("c"), labels: "-"}
	case 3:
		return verifConcCall{name: "mounts", key: pick(func(i verifInfo) bool { return !verifIsCommitted(i) }, "nope"), labels: "-"}
	case 4:
		return verifConcCall{name: "remove", key: pick(verifAny, "nope"), labels: "-"}
	case 5:
		return verifConcCall{name: "cleanup", labels: "-"}
	case 6:
		return verifConcCall{name: "walk", labels: "-"}
	}
	return verifConcCall{name: "stat", key: pick(verifAny, "nope"), labels: "-"}
}

// staleCleanupProbe — KNOWN finding `live-snapshot-dir-removed-by-stale-cleanup-after-id-reuse`
// (crash point x schedule).  A crash between Rename and Commit of a createSnapshot leaves
// snapshots/<next id> (bolt rolls the id sequence back with the transaction; the C09 images have exactly
// this shape).  After the restart a Cleanup scans ([<next id>]), unmounts and is descheduled at
// cleanupdir.unmounted; a Prepare fails once ("rename: file exists") reclaiming the leftover itself, the
// next Prepare succeeds and RE-USES the id; the Cleanup resumes and RemoveAll()s the directory of the
// now live snapshot.  Reported only if that really happens.
func (e *verifEnv) staleCleanupProbe() {
	ctx := context.Background()
	e.reset([3]bool{true, false, false})
	op := &verifOp{name: "prepare", key: "a", labels: "-", orc: verifNoFaults()}
	e.exec(op)
	last := verifIDOf(e.sn, "a")
	n, err := strconv.Atoi(last)
	if err != nil {
		e.out.Count("probe/stale-cleanup-skipped")
		return
	}
	next := strconv.Itoa(n + 1)
	// the process dies between Rename and Commit of the next createSnapshot
	e.sn.(*snapshotter).ms.Close()
	e.sn = nil
	os.MkdirAll(filepath.Join(e.root, "snapshots", next, "fs"), 0o755)
	os.MkdirAll(filepath.Join(e.root, "snapshots", next, "work"), 0o711)
	sn, err := NewSnapshotter(ctx, e.root, &verifFS{e}, e.opts()...)
	if err != nil {
		e.t.Fatalf("probe restart: %v", err)
	}
	e.sn = sn
	e.mu.Lock()
	e.orc = verifNoFaults()
	e.trace = nil
	e.curOp = "concurrent stale-cleanup probe"
	e.concurrent = true
	e.mu.Unlock()
	defer func() { e.mu.Lock(); e.concurrent = false; e.mu.Unlock() }()

	hold, resume, done := make(chan struct{}), make(chan struct{}), make(chan struct{})
	var once sync.Once
	prev := e.onMarker
	e.onMarker = func(name string, _ int) {
		if name != "cleanupdir.unmounted" {
			return
		}
		blocked := false
		once.Do(func() { blocked = true })
		if blocked {
			close(hold) // the Cleanup has scanned and unmounted; it is descheduled here
			<-resume
		}
	}
	go func() {
		defer close(done)
		e.rawCall(verifConcCall{name: "cleanup", labels: "-"})
	}()
	reached := false
	select {
	case <-hold:
		reached = true
	case <-done: // nothing to clean (the leftover was not listed): the window does not exist
	case <-time.After(5 * time.Second):
	}
	var e1, e2 error
	if reached {
		_, e1 = e.rawCall(verifConcCall{name: "prepare", key: "b", labels: "-"})
		_, e2 = e.rawCall(verifConcCall{name: "prepare", key: "b", labels: "-"})
		close(resume)
	}
	select {
	case <-done:
	case <-time.After(20 * time.Second):
		e.t.Fatalf("stale-cleanup probe: Cleanup hung")
	}
	e.mu.Lock()
	e.onMarker = prev
	e.mu.Unlock()
	e.out.Count("probe/stale-cleanup-ran")
	if !reached {
		e.out.Count("probe/stale-cleanup-window-not-reached")
		return
	}
	v := verifTakeView(e.root, e.sn, e.live)
	for _, k := range v.order {
		i := v.infos[k]
		if _, err := os.Stat(filepath.Join(e.root, "snapshots", i.id, "fs")); err != nil {
			e.out.Fail("live-snapshot-dir-removed-by-stale-cleanup-after-id-reuse",
				fmt.Sprintf("leftover snapshots/%s after a crash between Rename and Commit; Cleanup descheduled at cleanupdir.unmounted; "+
					"Prepare(b) -> %s, Prepare(b) -> %s re-using id %s; Cleanup resumed: live snapshot %s (id %s) has no fs directory",
					next, verifErrClass(e1), verifErrClass(e2), i.id, k, i.id))
		}
	}
}

// TestVerifC08Conc — the concurrent-callers stream (oracle only, nothing is emitted for the model).
func TestVerifC08Conc(t *testing.T) {
	e := verifNewEnv(t, "C08")
	e.quiet = true
	defer e.finish()
	wait := time.Duration(verifutil.EnvInt("VERIF_CONC_WAIT_MS", 200)) * time.Millisecond
	e.staleCleanupProbe()
	seq := func(ops ...*verifOp) {
		for _, op := range ops {
			op.orc = verifNoFaults()
			if op.labels == "" {
				op.labels = "-"
			}
			e.exec(op)
		}
	}
	// scripted: a GC Cleanup arrives while a Prepare/View is between "directory renamed" and
	// "metadata committed" (and at the neighbouring points), sync and async removal
	for _, async := range []bool{true, false} {
		for _, mk := range []string{"create.renamed", "create.txcreate", "create.tempdir", "create.committed"} {
			for _, kind := range []string{"prepare", "view"} {
				e.reset([3]bool{async, false, false})
				seq(&verifOp{name: "prepare", key: "b0"}, &verifOp{name: "commit", target: "base", key: "b0"},
					&verifOp{name: "prepare", key: "g1", parent: "base"}, &verifOp{name: "remove", key: "g1"},
					&verifOp{name: "prepare", key: "r0", parent: "base", labels: "@ref=rem"})
				if !e.concurrentStep(verifConcCall{name: kind, key: "cont", parent: "rem", labels: "-"},
					verifConcCall{name: "cleanup", labels: "-"}, mk, 1, wait) {
					t.Fatalf("marker %s never fired", mk)
				}
			}
		}
	}
	// random pairs
	n := verifutil.EnvInt("VERIF_N", 40)
	for h := 0; h < n; h++ {
		e.reset([3]bool{e.rnd.Bool(), false, false})
		for i, nops := 0, 3+e.rnd.Intn(8); i < nops; i++ {
			v := verifTakeView(e.root, e.sn, e.live)
			op := e.genOp(v)
			if op.name == "close" || op.name == "restart" {
				continue
			}
			op.orc = verifNoFaults()
			e.exec(op)
		}
		for j, reached := 0, 0; j < 9 && reached < 3; j++ {
			v := verifTakeView(e.root, e.sn, e.live)
			outer := e.genConcCall(v, true)
			inner := e.genConcCall(v, false)
			var mks []string
			switch outer.name {
			case "prepare":
				mks = verifConcMarkers[:4]
				if outer.labels != "-" {
					mks = verifConcMarkers[:7]
				}
			case "view":
				mks = verifConcMarkers[:4]
			case "commit":
				mks = []string{"commit.beforetx"}
			case "remove":
				mks = []string{"remove.txcommitted", "cleanupdir.unmounted", "cleanupdir.removed"}
			default:
				mks = []string{"cleanupdir.unmounted", "cleanupdir.removed"}
			}
			if e.concurrentStep(outer, inner, mks[e.rnd.Intn(len(mks))], 1, wait) {
				reached++
			} else {
				e.out.Count("conc/marker-not-reached")
			}
		}
	}
}
