//go:build verif

package store

// C16 harness: drives the REAL LayerManager (getLayer / getLayerInfo / use / release) and the
// rootnode / refnode / layernode Lookup / Create / Rmdir handlers of store/fs.go against an
// in-memory OCI registry that serves real eStargz blobs through a real layer.Resolver.
//
// Streams (see HOWTO.md): every operation is written as an op line for the Lean model
// (svdriver_c16) together with the canonicalised answer of the implementation.  Independently of
// the model, the property predicate of C16 is evaluated on the implementation's answers
// (verifH.oracle*), and a failure is reported with out.Fail(sig, what).

import (
	"archive/tar"
	"bytes"
	"compress/gzip"
	"context"
	"encoding/base64"
	"encoding/json"
	"fmt"
	"io"
	"net/http"
	"net/http/httptest"
	"os"
	"runtime"
	"sort"
	"strconv"
	"strings"
	"sync"
	"sync/atomic"
	"syscall"
	"testing"
	"time"

	"github.com/containerd/containerd/v2/core/remotes/docker"
	"github.com/containerd/containerd/v2/pkg/reference"
	"github.com/containerd/log"
	"github.com/containerd/stargz-snapshotter/estargz"
	"github.com/containerd/stargz-snapshotter/fs/config"
	"github.com/containerd/stargz-snapshotter/fs/layer"
	"github.com/containerd/stargz-snapshotter/internal/verifutil"
	memorymetadata "github.com/containerd/stargz-snapshotter/metadata/memory"
	fusefs "github.com/hanwen/go-fuse/v2/fs"
	"github.com/hanwen/go-fuse/v2/fuse"
	digest "github.com/opencontainers/go-digest"
	"github.com/opencontainers/image-spec/specs-go"
	ocispec "github.com/opencontainers/image-spec/specs-go/v1"
)

const verifHost = "verif.test"

// ---------------------------------------------------------------------------------------------
// blobs

type verifBlob struct {
	data []byte
	dgst digest.Digest
	toc  digest.Digest // TOC digest computed by the eStargz builder ("" for a non-eStargz blob)
	esgz bool
}

func verifTar(files [][2]string) []byte {
	buf := new(bytes.Buffer)
	tw := tar.NewWriter(buf)
	for _, f := range files {
		if strings.HasSuffix(f[0], "/") {
			tw.WriteHeader(&tar.Header{Typeflag: tar.TypeDir, Name: f[0], Mode: 0755})
			continue
		}
		tw.WriteHeader(&tar.Header{Typeflag: tar.TypeReg, Name: f[0], Mode: 0644, Size: int64(len(f[1]))})
		tw.Write([]byte(f[1]))
	}
	tw.Close()
	return buf.Bytes()
}

func verifBuildEsgz(files [][2]string) (verifBlob, error) {
	t := verifTar(files)
	b, err := estargz.Build(io.NewSectionReader(bytes.NewReader(t), 0, int64(len(t))), estargz.WithChunkSize(64))
	if err != nil {
		return verifBlob{}, err
	}
	defer b.Close()
	data, err := io.ReadAll(b)
	if err != nil {
		return verifBlob{}, err
	}
	return verifBlob{data: data, dgst: digest.FromBytes(data), toc: b.TOCDigest(), esgz: true}, nil
}

func verifBuildPlainGz(files [][2]string) verifBlob {
	buf := new(bytes.Buffer)
	zw := gzip.NewWriter(buf)
	zw.Write(verifTar(files))
	zw.Close()
	return verifBlob{data: buf.Bytes(), dgst: digest.FromBytes(buf.Bytes())}
}

// ---------------------------------------------------------------------------------------------
// in-memory registry (an http.RoundTripper; nothing listens on a socket)

type verifRegistry struct {
	mu        sync.Mutex
	blobs     map[string][]byte            // digest -> content
	manifests map[string]map[string][]byte // repo -> tag|digest -> manifest
	failBlob  map[string]bool              // repo + "@" + digest -> answer 503
	failMf    map[string]bool              // repo -> manifests answer 503
	gates     map[string]chan struct{}     // repo + "@" + digest -> blob requests wait until closed
	arrived   chan string                  // a gated request has arrived
	hits      int64
}

func (g *verifRegistry) RoundTrip(req *http.Request) (*http.Response, error) {
	atomic.AddInt64(&g.hits, 1)
	if i := strings.LastIndex(req.URL.Path, "/blobs/"); i >= 0 && strings.HasPrefix(req.URL.Path, "/v2/") {
		key := strings.TrimPrefix(req.URL.Path[:i], "/v2/") + "@" + req.URL.Path[i+len("/blobs/"):]
		g.mu.Lock()
		gate := g.gates[key]
		g.mu.Unlock()
		if gate != nil { // the registry is slow, not broken
			select {
			case g.arrived <- key:
			default:
			}
			<-gate
		}
	}
	// like net/http: a request whose context is done fails with the context's error
	if err := req.Context().Err(); err != nil {
		return nil, err
	}
	rec := httptest.NewRecorder()
	g.serve(rec, req)
	res := rec.Result()
	res.Request = req
	return res, nil
}

func (g *verifRegistry) serve(w http.ResponseWriter, req *http.Request) {
	p := req.URL.Path
	if !strings.HasPrefix(p, "/v2/") {
		http.NotFound(w, req)
		return
	}
	rest := strings.TrimPrefix(p, "/v2/")
	if rest == "" {
		w.WriteHeader(200)
		return
	}
	g.mu.Lock()
	defer g.mu.Unlock()
	if i := strings.LastIndex(rest, "/manifests/"); i >= 0 {
		repo, r := rest[:i], rest[i+len("/manifests/"):]
		if g.failMf[repo] {
			w.WriteHeader(http.StatusServiceUnavailable)
			return
		}
		m, ok := g.manifests[repo][r]
		if !ok {
			http.NotFound(w, req)
			return
		}
		w.Header().Set("Content-Type", ocispec.MediaTypeImageManifest)
		w.Header().Set("Docker-Content-Digest", digest.FromBytes(m).String())
		http.ServeContent(w, req, "", time.Time{}, bytes.NewReader(m))
		return
	}
	if i := strings.LastIndex(rest, "/blobs/"); i >= 0 {
		repo, d := rest[:i], rest[i+len("/blobs/"):]
		if g.failBlob[repo+"@"+d] {
			w.WriteHeader(http.StatusServiceUnavailable)
			return
		}
		b, ok := g.blobs[d]
		if !ok {
			http.NotFound(w, req)
			return
		}
		w.Header().Set("Content-Type", "application/octet-stream")
		w.Header().Set("Docker-Content-Digest", d)
		http.ServeContent(w, req, "", time.Time{}, bytes.NewReader(b))
		return
	}
	http.NotFound(w, req)
}

func (g *verifRegistry) hosts(reference.Spec) ([]docker.RegistryHost, error) {
	return []docker.RegistryHost{{
		Client:       &http.Client{Transport: g},
		Host:         verifHost,
		Scheme:       "http",
		Path:         "/v2",
		Capabilities: docker.HostCapabilityPull | docker.HostCapabilityResolve,
	}}, nil
}

// ---------------------------------------------------------------------------------------------
// layer wrapper: records Done()/Close() of the instances held by LayerManager.layer

type verifLayer struct {
	layer.Layer
	id    int
	dones int32
	h     *verifH
}

func (w *verifLayer) Done() {
	atomic.AddInt32(&w.dones, 1)
	w.h.noteDone(w)
	w.Layer.Done()
}

func (w *verifLayer) Close() error {
	atomic.AddInt32(&w.dones, 1)
	w.h.noteDone(w)
	return w.Layer.Close()
}

func (w *verifLayer) isDone() bool { return atomic.LoadInt32(&w.dones) > 0 }

// ---------------------------------------------------------------------------------------------
// harness

type verifImage struct {
	ref    reference.Spec
	repo   string
	layers []int // indices into verifH.blobs, manifest order
	exists bool
	descs  []ocispec.Descriptor
}

type verifKey struct{ ref, x int }

type verifH struct {
	t      *testing.T
	out    *verifutil.Out
	rnd    *verifutil.Rand
	reg    *verifRegistry
	blobs  []verifBlob
	images []verifImage
	tocs   map[int]digest.Digest // toc index -> digest used on the wire
	tocIdx map[string]int
	ldIdx  map[string]int
	refIdx map[string]int
	diffID map[string]int // DiffID string -> manifest index
	work   string

	// per LayerManager instance
	lm      *LayerManager
	root    string
	nroot   *rootnode
	nextID  int
	raw2w   map[layer.Layer]*verifLayer
	doneMu  sync.Mutex
	doneIDs []int

	// property oracle state (independent of the model)
	outstanding map[verifKey]int         // (ref, toc) -> uses not yet released
	held        map[verifKey]*verifLayer // (ref, toc) -> instance that is in use
	tainted     map[verifKey]bool        // (ref, blob) -> a resolution error may be memoised for it
	relZero     map[verifKey]bool        // (ref, toc) was released down to zero before
	cancelled   map[verifKey]bool        // (ref, blob) -> was being resolved when a client abandoned its lookup
	cancelMode  string                   // "", "pre", "mid": how the next lookup's context is cancelled
	hist        []string
	reportKnown bool
}

func verifTocOfBlob(i int, b verifBlob) int {
	if b.esgz {
		return i
	}
	return 900 + i
}

func verifFakeDigest(i int) digest.Digest {
	return digest.FromString("verif-c16-unknown-" + strconv.Itoa(i))
}

func verifNewH(t *testing.T) *verifH {
	h := &verifH{t: t, out: verifutil.OpenOut(), rnd: verifutil.NewRand(verifutil.Seed()),
		tocs: map[int]digest.Digest{}, tocIdx: map[string]int{}, ldIdx: map[string]int{},
		refIdx: map[string]int{}, diffID: map[string]int{}}
	work := os.Getenv("VERIF_WORK")
	if work == "" {
		work = os.TempDir()
	}
	d, err := os.MkdirTemp(work, "c16-")
	if err != nil {
		t.Fatal(err)
	}
	h.work = d
	h.reg = &verifRegistry{blobs: map[string][]byte{}, manifests: map[string]map[string][]byte{},
		failBlob: map[string]bool{}, failMf: map[string]bool{}, gates: map[string]chan struct{}{},
		arrived: make(chan string, 64)}
	// blobs 0..3 eStargz, blob 4 plain tar.gz (can never be resolved as a lazy layer)
	for i := 0; i < 4; i++ {
		b, err := verifBuildEsgz([][2]string{
			{"dir/", ""},
			{"dir/f" + strconv.Itoa(i), strings.Repeat("content-"+strconv.Itoa(i)+"\n", 20+i)},
			{"common", "same in all layers"},
		})
		if err != nil {
			t.Fatalf("building eStargz blob: %v", err)
		}
		h.blobs = append(h.blobs, b)
	}
	h.blobs = append(h.blobs, verifBuildPlainGz([][2]string{{"plain", "not an eStargz layer"}}))
	for i, b := range h.blobs {
		h.reg.blobs[b.dgst.String()] = b.data
		h.ldIdx[b.dgst.String()] = i
		ti := verifTocOfBlob(i, b)
		if b.esgz {
			h.tocs[ti] = b.toc
		} else {
			h.tocs[ti] = verifFakeDigest(ti)
		}
	}
	for _, u := range []int{100, 101} {
		h.tocs[u] = verifFakeDigest(u)
	}
	for i, d := range h.tocs {
		h.tocIdx[d.String()] = i
	}
	// images
	for i := 0; i < 8; i++ {
		h.diffID[digest.FromString("verif-c16-diffid-"+strconv.Itoa(i)).String()] = i
	}
	mk := func(repo string, layers []int, exists bool) {
		ref, err := reference.Parse(verifHost + "/" + repo + ":latest")
		if err != nil {
			t.Fatal(err)
		}
		im := verifImage{ref: ref, repo: repo, layers: layers, exists: exists}
		if exists {
			var diffIDs []digest.Digest
			for i, bi := range layers {
				b := h.blobs[bi]
				desc := ocispec.Descriptor{MediaType: ocispec.MediaTypeImageLayerGzip, Digest: b.dgst, Size: int64(len(b.data))}
				if b.esgz {
					desc.Annotations = map[string]string{estargz.TOCJSONDigestAnnotation: b.toc.String()}
				}
				im.descs = append(im.descs, desc)
				diffIDs = append(diffIDs, digest.FromString("verif-c16-diffid-"+strconv.Itoa(i)))
			}
			cfg := ocispec.Image{Platform: ocispec.Platform{Architecture: runtime.GOARCH, OS: "linux"},
				RootFS: ocispec.RootFS{Type: "layers", DiffIDs: diffIDs}}
			cb, _ := json.Marshal(cfg)
			h.reg.blobs[digest.FromBytes(cb).String()] = cb
			m := ocispec.Manifest{Versioned: specs.Versioned{SchemaVersion: 2}, MediaType: ocispec.MediaTypeImageManifest,
				Config: ocispec.Descriptor{MediaType: ocispec.MediaTypeImageConfig, Digest: digest.FromBytes(cb), Size: int64(len(cb))},
				Layers: im.descs}
			mb, _ := json.Marshal(m)
			h.reg.manifests[repo] = map[string][]byte{"latest": mb, digest.FromBytes(mb).String(): mb}
		}
		h.refIdx[ref.String()] = len(h.images)
		h.images = append(h.images, im)
	}
	mk("img/a", []int{0, 1, 2}, true)    // ref 0: three eStargz layers
	mk("img/b", []int{1, 4, 3, 1}, true) // ref 1: shares blob 1 with ref 0, a non-eStargz layer, a repeated layer
	mk("img/c", []int{3}, true)          // ref 2: single layer
	mk("img/none", nil, false)           // ref 3: not in the registry
	for ri, im := range h.images {
		if !im.exists {
			continue
		}
		var parts []string
		for _, bi := range im.layers {
			parts = append(parts, fmt.Sprintf("%d:%d", bi, verifTocOfBlob(bi, h.blobs[bi])))
		}
		h.out.Emit(strings.TrimSpace(fmt.Sprintf("image %d %s", ri, strings.Join(parts, " "))), "ok")
	}
	return h
}

func (h *verifH) close() {
	h.out.Close()
	os.RemoveAll(h.work)
}

// reset creates a fresh LayerManager (fresh pool directory, fresh layer.Resolver) and a healthy registry.
func (h *verifH) reset() {
	if h.root != "" {
		os.RemoveAll(h.root)
	}
	root, err := os.MkdirTemp(h.work, "root-")
	if err != nil {
		h.t.Fatal(err)
	}
	h.root = root
	cfg := config.Config{
		HTTPCacheType:     "memory",
		FSCacheType:       "memory",
		NoPrefetch:        true,
		NoBackgroundFetch: true,
		NoPrometheus:      true,
	}
	cfg.BlobConfig.CheckAlways = true // a registry failure must be visible to the very next resolution
	lm, err := NewLayerManager(context.Background(), root, h.reg.hosts, memorymetadata.NewReader, cfg)
	if err != nil {
		h.t.Fatalf("NewLayerManager: %v", err)
	}
	h.lm = lm
	h.nroot = &rootnode{fs: &fs{layerManager: lm, nodeMap: new(idMap), layerMap: new(idMap)}}
	fusefs.NewNodeFS(h.nroot, &fusefs.Options{}) // initialises the root inode; nothing is mounted
	h.nextID = 0
	h.raw2w = map[layer.Layer]*verifLayer{}
	h.doneMu.Lock()
	h.doneIDs = nil
	h.doneMu.Unlock()
	h.outstanding = map[verifKey]int{}
	h.held = map[verifKey]*verifLayer{}
	h.tainted = map[verifKey]bool{}
	h.relZero = map[verifKey]bool{}
	h.cancelled = map[verifKey]bool{}
	h.hist = nil
	h.reg.mu.Lock()
	h.reg.failBlob = map[string]bool{}
	h.reg.failMf = map[string]bool{}
	h.reg.mu.Unlock()
	h.out.Emit("reset", "ok")
}

func (h *verifH) noteDone(w *verifLayer) {
	h.doneMu.Lock()
	h.doneIDs = append(h.doneIDs, w.id)
	h.doneMu.Unlock()
}

// known reports a failure of the property that is recorded in findings/known_findings.txt.  The
// main pass only counts it (an oracle failure in a pass makes the runner downgrade stream
// mismatches of that pass to a note, and the main pass must keep its strict correspondence); the
// separate pass TestVerifC16Known reports it with out.Fail.
func (h *verifH) known(sig, what string) {
	if h.reportKnown {
		h.fail(sig, what)
		return
	}
	h.out.Count("known-" + sig)
}

func (h *verifH) fail(sig, what string) {
	h.out.Fail(sig, what+" | history: "+strings.Join(h.hist, "; "))
}

func (h *verifH) setFailBlob(ref, blob int, v bool) {
	h.reg.mu.Lock()
	h.reg.failBlob[h.images[ref].repo+"@"+h.blobs[blob].dgst.String()] = v
	h.reg.mu.Unlock()
}

func (h *verifH) setFailMf(ref int, v bool) {
	h.reg.mu.Lock()
	h.reg.failMf[h.images[ref].repo] = v
	h.reg.mu.Unlock()
}

func (h *verifH) blobFails(ref, blob int) bool {
	h.reg.mu.Lock()
	defer h.reg.mu.Unlock()
	return h.reg.failBlob[h.images[ref].repo+"@"+h.blobs[blob].dgst.String()]
}

func (h *verifH) mfBit(ref int) bool {
	h.reg.mu.Lock()
	defer h.reg.mu.Unlock()
	return !h.reg.failMf[h.images[ref].repo]
}

// oracleBits: the registry's answer for every manifest layer right now (1 = resolvable).
func (h *verifH) oracleBits(ref int) string {
	im := h.images[ref]
	if len(im.layers) == 0 {
		return "-"
	}
	var sb strings.Builder
	for _, bi := range im.layers {
		if h.blobs[bi].esgz && !h.blobFails(ref, bi) {
			sb.WriteByte('1')
		} else {
			sb.WriteByte('0')
		}
	}
	return sb.String()
}

func (h *verifH) onDisk(ref int) bool {
	_, _, err := h.lm.refPool.readManifestAndConfig(h.images[ref].ref)
	return err == nil
}

// verifBusyWorkers counts the goroutines started by getLayer (one per manifest layer) that are
// still working.  getLayer returns as soon as the wanted layer is there; the goroutines of the
// other layers keep resolving -- or have not even been scheduled yet and would resolve a layer that
// a later release dropped.  A worker that found the layer after somebody else delivered it stays
// parked for ever in `resultChan <- gotL`; that one is finished as far as the state is concerned.
func verifBusyWorkers() int { return verifBusyWorkersExcept() }

// verifStackBuf is reused by every stack dump (the harness polls from one goroutine only).
var verifStackBuf []byte

// verifBusyWorkersExcept does not count workers whose stack mentions one of the given strings.
func verifBusyWorkersExcept(except ...string) int {
	if verifStackBuf == nil {
		verifStackBuf = make([]byte, 1<<20)
	}
	var buf []byte
	for {
		n := runtime.Stack(verifStackBuf, true)
		if n < len(verifStackBuf) {
			buf = verifStackBuf[:n]
			break
		}
		verifStackBuf = make([]byte, 2*len(verifStackBuf))
	}
	busy := 0
	for _, g := range bytes.Split(buf, []byte("\n\n")) {
		if !bytes.Contains(g, []byte("sync.(*WaitGroup).Go")) && !bytes.Contains(g, []byte("LayerManager).getLayer")) {
			continue
		}
		nl := bytes.IndexByte(g, '\n')
		if nl < 0 {
			continue
		}
		head := g[:nl]
		if bytes.Contains(head, []byte("[chan send")) {
			continue // parked on resultChan
		}
		if bytes.Contains(g, []byte("sync.(*WaitGroup).Wait")) {
			continue // the goroutine that closes allDone
		}
		if bytes.Contains(g, []byte("verifBusyWorkers")) || bytes.Contains(g, []byte("testing.tRunner")) || bytes.Contains(g, []byte("(*verifH)")) {
			continue // the harness itself
		}
		skip := false
		for _, e := range except {
			if bytes.Contains(g, []byte(e)) {
				skip = true
			}
		}
		if skip {
			continue
		}
		busy++
	}
	return busy
}

// waitQuiescent waits until the lookup that just returned has no worker left.  When the lookup
// went through the manifest (resolved == true) every manifest layer must also have got a resolve
// status; that second criterion does not depend on how getLayer spawns its workers.
func (h *verifH) waitQuiescent(ref int, resolved bool) {
	deadline := time.Now().Add(20 * time.Second)
	for {
		if verifBusyWorkers() == 0 {
			break
		}
		if time.Now().After(deadline) {
			h.fail("resolve-not-quiescent", fmt.Sprintf("layers of ref %d are still being resolved 20s after the lookup", ref))
			return
		}
		time.Sleep(20 * time.Microsecond)
	}
	if !resolved {
		return
	}
	im := h.images[ref]
	grace := time.Now().Add(2 * time.Second)
	for {
		all := true
		h.lm.mu.Lock()
		c := h.lm.resolveLayerCache[im.ref.String()]
		for _, d := range im.descs {
			if _, ok := c[d.Digest.String()]; !ok {
				all = false
			}
		}
		h.lm.mu.Unlock()
		if all {
			return
		}
		if time.Now().After(grace) {
			h.out.Count("resolve-status-incomplete-after-lookup")
			return
		}
		time.Sleep(50 * time.Microsecond)
	}
}

// scanWrap gives every newly cached layer of the image a stable instance id (manifest order) and
// replaces it by a recording wrapper.
func (h *verifH) scanWrap(ref int) {
	im := h.images[ref]
	h.lm.mu.Lock()
	defer h.lm.mu.Unlock()
	m := h.lm.layer[im.ref.String()]
	seen := map[string]bool{}
	for _, bi := range im.layers {
		b := h.blobs[bi]
		if !b.esgz {
			continue
		}
		k := b.toc.String()
		seen[k] = true
		l, ok := m[k]
		if !ok {
			continue
		}
		if _, isW := l.(*verifLayer); isW {
			continue
		}
		w := &verifLayer{Layer: l, id: h.nextID, h: h}
		h.nextID++
		h.raw2w[l] = w
		m[k] = w
	}
	for k := range m {
		if !seen[k] {
			h.fail("layer-under-foreign-key", fmt.Sprintf("ref %d caches a layer under %s which is no TOC digest of the image", ref, k))
		}
	}
}

func (h *verifH) wrapOf(l layer.Layer) *verifLayer {
	if w, ok := l.(*verifLayer); ok {
		return w
	}
	return h.raw2w[l]
}

func (h *verifH) cached(ref, toc int) *verifLayer {
	l := h.lm.getCachedLayer(h.images[ref].ref, h.tocs[toc])
	if l == nil {
		return nil
	}
	return h.wrapOf(l)
}

// memberBlob: manifest layer of the image whose real TOC digest is toc (-1 if none).
func (h *verifH) memberBlob(ref, toc int) int {
	for _, bi := range h.images[ref].layers {
		if h.blobs[bi].esgz && bi == toc {
			return bi
		}
	}
	return -1
}

// --------------------------------------------------------------------------------------------
// operations

const (
	verifViaAPI  = "api"
	verifViaDiff = "diff"
	verifViaBlob = "blob"
	verifViaInfo = "info"
)

func (h *verifH) nodeOf(ref, toc int) (*layernode, syscall.Errno) {
	ctx := context.Background()
	im := h.images[ref]
	var eo fuse.EntryOut
	rin, errno := h.nroot.Lookup(ctx, base64.StdEncoding.EncodeToString([]byte(im.ref.String())), &eo)
	if errno != 0 {
		return nil, errno
	}
	rn := rin.Operations().(*refnode)
	var eo2 fuse.EntryOut
	lin, errno := rn.Lookup(ctx, h.tocs[toc].String(), &eo2)
	if errno != 0 {
		return nil, errno
	}
	return lin.Operations().(*layernode), 0
}

func (h *verifH) lookup(ref, toc int, via string) {
	ctx := context.Background()
	im := h.images[ref]
	d := h.tocs[toc]
	mf := h.mfBit(ref)
	bits := h.oracleBits(ref)
	mfi := 0
	if mf {
		mfi = 1
	}
	cachedBefore := h.lm.getCachedLayer(im.ref, d) != nil
	diskBefore := h.onDisk(ref)
	var failing []int
	for _, bi := range im.layers {
		if !h.blobs[bi].esgz || h.blobFails(ref, bi) {
			failing = append(failing, bi)
		}
	}
	var (
		got   layer.Layer
		err   error
		errno syscall.Errno
		opl   string
	)
	cancel := h.cancelMode
	h.cancelMode = ""
	if via == verifViaAPI && cancel == "pre" {
		// the client is gone before the call: its context cannot fetch the manifest any more
		// (the layers are resolved on context.Background() and do not care)
		mf, mfi = false, 0
		cctx, cf := context.WithCancel(ctx)
		cf()
		opl = fmt.Sprintf("clookup %d %d %d %s", ref, toc, mfi, bits)
		got, err = h.lm.getLayer(cctx, im.ref, d)
	} else if via == verifViaAPI && cancel == "mid" {
		opl = fmt.Sprintf("clookup %d %d %d %s", ref, toc, mfi, bits)
		got, err = h.lookupAbandoned(ref, toc)
	} else if via == verifViaAPI {
		opl = fmt.Sprintf("lookup %d %d %d %s", ref, toc, mfi, bits)
		got, err = h.lm.getLayer(ctx, im.ref, d)
	} else {
		opl = fmt.Sprintf("nlookup %d %d %s %d %s", ref, toc, via, mfi, bits)
		ln, e := h.nodeOf(ref, toc)
		if e != 0 {
			h.fail("node-path-failed", fmt.Sprintf("rootnode/refnode Lookup errno=%d", e))
			errno = e
		} else {
			var eo fuse.EntryOut
			var child *fusefs.Inode
			child, errno = ln.Lookup(ctx, via, &eo)
			if errno == 0 {
				switch n := child.Operations().(type) {
				case *blobnode:
					got = n.l
				default:
					got = h.lm.getCachedLayer(im.ref, d)
				}
			} else {
				err = errno
			}
		}
	}
	h.hist = append(h.hist, opl)
	manifestAvail := im.exists && (diskBefore || mf)
	if !cachedBefore {
		h.waitQuiescent(ref, manifestAvail)
	}
	if !cachedBefore && manifestAvail {
		// oracle bookkeeping: every layer that could not be resolved during this pass may now carry
		// a memoised error until the image's bookkeeping is reset
		for _, bi := range failing {
			h.tainted[verifKey{ref, bi}] = true
		}
		if cancel != "" {
			for _, bi := range im.layers {
				h.cancelled[verifKey{ref, bi}] = true
			}
		}
	}
	h.scanWrap(ref)
	var w *verifLayer
	if err == nil && errno == 0 {
		if got == nil {
			h.fail("lookup-nil-layer", "lookup returned neither a layer nor an error")
		} else if w = h.wrapOf(got); w == nil {
			h.fail("lookup-returned-uncached-layer", fmt.Sprintf("lookup(%d,%d) returned a layer instance that is not the cached one", ref, toc))
		}
	}
	res := "err"
	if cancel != "" {
		// what an abandoned lookup returns is not part of the property; the state it leaves is
		res = "done"
		h.out.Count("lookup-abandoned-" + cancel)
	} else if via == verifViaAPI {
		if w != nil {
			res = fmt.Sprintf("ok %d", w.id)
		} else if err == nil {
			res = "ok ?"
		}
	} else {
		res = "eio"
		if errno == 0 {
			res = "ok"
		} else if errno != syscall.EIO {
			res = fmt.Sprintf("errno%d", int(errno))
		}
	}
	h.out.Emit(opl, res)
	h.out.Count("lookup-" + via)

	// ---- property oracle ----
	ok := err == nil && errno == 0
	mb := h.memberBlob(ref, toc)
	exists := im.exists && mb >= 0
	key := verifKey{ref, toc}
	switch {
	case ok && !exists:
		h.fail("lookup-unknown-succeeded", fmt.Sprintf("lookup(%d,%d) succeeded but the image has no layer with that TOC digest", ref, toc))
	case !ok && exists && cancel != "":
		h.out.Count("abandoned-lookup-failed")
	case !ok && exists:
		healthy := manifestAvail && (cachedBefore || !h.blobFails(ref, mb))
		if healthy && !h.tainted[verifKey{ref, mb}] {
			if h.cancelled[verifKey{ref, mb}] {
				h.fail("lookup-failed-after-cancelled-lookup", fmt.Sprintf("lookup(%d,%d) failed after an earlier lookup on this image was abandoned by its client; the registry is healthy and never failed for blob %d", ref, toc, mb))
			} else if h.relZero[key] {
				h.fail("lookup-after-release-failed", fmt.Sprintf("lookup(%d,%d) failed after the layer had been released to zero; registry healthy", ref, toc))
			} else {
				h.fail("lookup-existing-failed", fmt.Sprintf("lookup(%d,%d) failed although the image contains the layer and the registry is healthy", ref, toc))
			}
		} else if healthy {
			// the registry answers now, the only explanation left is the error that an earlier
			// resolution of this very layer memoised (known finding)
			h.known("lookup-failed-memoised-registry-error", fmt.Sprintf("lookup(%d,%d) failed although the registry is healthy now: an earlier registry error for blob %d is still memoised", ref, toc, mb))
		} else {
			h.out.Count("lookup-failed-registry-error")
		}
	}
	if ok && w != nil {
		if w.isDone() {
			h.fail("lookup-returned-done-layer", fmt.Sprintf("lookup(%d,%d) returned instance %d on which Done() was already called", ref, toc, w.id))
		}
		if w.Info().TOCDigest != d {
			h.fail("lookup-wrong-toc", fmt.Sprintf("lookup(%d,%d) returned a layer whose TOC digest is %s", ref, toc, w.Info().TOCDigest))
		}
		if e := w.Verify(d); e != nil {
			h.fail("lookup-verify-failed", fmt.Sprintf("Verify(%d) on the layer returned by lookup(%d,%d): %v", toc, ref, toc, e))
		}
		if mb >= 0 && !h.blobFails(ref, mb) {
			p := make([]byte, 8)
			if _, e := w.ReadAt(p, 0); e != nil {
				h.fail("lookup-returned-unreadable-layer", fmt.Sprintf("ReadAt on the layer returned by lookup(%d,%d): %v", ref, toc, e))
			} else if !bytes.Equal(p, h.blobs[mb].data[:8]) {
				h.fail("lookup-returned-wrong-bytes", fmt.Sprintf("lookup(%d,%d): blob bytes differ", ref, toc))
			}
		}
		if exists && h.relZero[key] {
			h.out.Count("lookup-after-release-ok")
		}
		if exists && cancel == "" {
			if h.cancelled[verifKey{ref, mb}] {
				h.out.Count("lookup-after-cancelled-ok")
			}
			delete(h.cancelled, verifKey{ref, mb})
		}
	}
	h.afterOp()
}

// lookupAbandoned: getLayer with a context that the client cancels while the registry is still
// working on the first request for one layer of the image (the wanted one if possible) and every
// other layer has been dealt with; then the registry answers.
func (h *verifH) lookupAbandoned(ref, toc int) (layer.Layer, error) {
	im := h.images[ref]
	d := h.tocs[toc]
	gated := -1
	if mb := h.memberBlob(ref, toc); mb >= 0 && !h.blobFails(ref, mb) && h.cached(ref, mb) == nil {
		gated = mb
	} else {
		for _, bi := range im.layers {
			if h.blobs[bi].esgz && !h.blobFails(ref, bi) && h.cached(ref, bi) == nil {
				gated = bi
				break
			}
		}
	}
	ctx, cf := context.WithCancel(context.Background())
	defer cf()
	if gated < 0 {
		l, err := h.lm.getLayer(ctx, im.ref, d)
		return l, err
	}
	key := im.repo + "@" + h.blobs[gated].dgst.String()
	gate := make(chan struct{})
	h.reg.mu.Lock()
	h.reg.gates[key] = gate
	h.reg.mu.Unlock()
	for len(h.reg.arrived) > 0 {
		<-h.reg.arrived
	}
	type res struct {
		l   layer.Layer
		err error
	}
	done := make(chan res, 1)
	go func() {
		l, err := h.lm.getLayer(ctx, im.ref, d)
		done <- res{l, err}
	}()
	var r res
	returned := false
	select {
	case <-h.reg.arrived:
		h.out.Count("lookup-abandoned-in-flight")
		// only the gated resolution may be in flight when the client goes away
		// (the worker waiting at the gate, and a worker of the same blob waiting for it on the
		// per-layer lock, do not count)
		for deadline := time.Now().Add(10 * time.Second); verifBusyWorkersExcept("verifRegistry).RoundTrip", "namedmutex") > 0; {
			if time.Now().After(deadline) {
				h.out.Count("abandon-wait-timeout")
				if os.Getenv("VERIF_C16_DEBUG") != "" {
					n := runtime.Stack(verifStackBuf, true)
					for _, g := range bytes.Split(verifStackBuf[:n], []byte("\n\n")) {
						if (bytes.Contains(g, []byte("getLayer")) || bytes.Contains(g, []byte("WaitGroup).Go"))) && !bytes.Contains(g, []byte("[chan send")) && !bytes.Contains(g, []byte("WaitGroup).Wait")) && !bytes.Contains(g, []byte("namedmutex")) && !bytes.Contains(g, []byte("verifRegistry).RoundTrip")) {
							fmt.Fprintf(os.Stderr, "BUSY:\n%s\n\n", g)
						}
					}
				}
				break
			}
			time.Sleep(200 * time.Microsecond)
		}
	case r = <-done: // nothing was requested for that blob (resolve status already there)
		returned = true
	case <-time.After(20 * time.Second):
		h.fail("abandoned-lookup-stuck", fmt.Sprintf("lookup(%d,%d): no request for blob %d and no return within 20s", ref, toc, gated))
	}
	cf()
	h.reg.mu.Lock()
	delete(h.reg.gates, key)
	h.reg.mu.Unlock()
	close(gate)
	if !returned {
		select {
		case r = <-done:
		case <-time.After(40 * time.Second):
			h.fail("abandoned-lookup-stuck", fmt.Sprintf("lookup(%d,%d) did not return within 40s after its context was cancelled", ref, toc))
			return nil, fmt.Errorf("stuck")
		}
	}
	return r.l, r.err
}

func (h *verifH) info(ref, toc int, viaNode bool) {
	ctx := context.Background()
	im := h.images[ref]
	mf := h.mfBit(ref)
	mfi := 0
	if mf {
		mfi = 1
	}
	manifestAvail := im.exists && (h.onDisk(ref) || mf)
	if viaNode {
		h.lookupInfoNode(ref, toc, mfi, manifestAvail)
		return
	}
	opl := fmt.Sprintf("info %d %d %d", ref, toc, mfi)
	h.hist = append(h.hist, opl)
	before := h.cached(ref, toc)
	li, err := h.lm.getLayerInfo(ctx, im.ref, h.tocs[toc])
	res := "err"
	idx := -1
	if err == nil {
		res = "ok -"
		if f, ok := li.Flags["expected-layer-diffid"]; ok {
			if i, ok := h.diffID[f]; ok {
				idx = i
				res = fmt.Sprintf("ok %d", i)
			} else {
				res = "ok ?"
			}
		}
		if li.TOCDigest != h.tocs[toc] {
			h.fail("info-wrong-toc", fmt.Sprintf("info(%d,%d) reports TOC digest %s", ref, toc, li.TOCDigest))
		}
	}
	h.out.Emit(opl, res)
	h.out.Count("info")
	// oracle
	if err != nil && manifestAvail {
		h.fail("info-failed", fmt.Sprintf("info(%d,%d) failed although the manifest is available: %v", ref, toc, err))
	}
	if err == nil && before != nil {
		want := -1
		for i, bi := range im.layers {
			if bi == toc {
				want = i
			}
		}
		if idx != want {
			h.fail("info-wrong-diffid", fmt.Sprintf("info(%d,%d) reports the diff id of manifest layer %d, want %d", ref, toc, idx, want))
		}
	}
	h.afterOp()
}

func (h *verifH) lookupInfoNode(ref, toc, mfi int, manifestAvail bool) {
	opl := fmt.Sprintf("nlookup %d %d info %d -", ref, toc, mfi)
	h.hist = append(h.hist, opl)
	res := "eio"
	ln, errno := h.nodeOf(ref, toc)
	if errno == 0 {
		var eo fuse.EntryOut
		_, errno = ln.Lookup(context.Background(), verifViaInfo, &eo)
	}
	if errno == 0 {
		res = "ok"
	} else if errno != syscall.EIO {
		res = fmt.Sprintf("errno%d", int(errno))
	}
	h.out.Emit(opl, res)
	h.out.Count("lookup-info-node")
	if errno != 0 && manifestAvail {
		h.fail("info-failed", fmt.Sprintf("layernode.Lookup(info) of (%d,%d) failed although the manifest is available", ref, toc))
	}
	h.afterOp()
}

func (h *verifH) use(ref, toc int, viaNode bool) {
	im := h.images[ref]
	key := verifKey{ref, toc}
	if viaNode {
		opl := fmt.Sprintf("ncreate %d %d", ref, toc)
		h.hist = append(h.hist, opl)
		res := "?"
		ln, errno := h.nodeOf(ref, toc)
		if errno == 0 {
			var eo fuse.EntryOut
			_, _, _, errno = ln.Create(context.Background(), layerUseFile, 0, 0, &eo)
			if errno == syscall.ENOENT {
				res = "enoent"
			} else {
				res = fmt.Sprintf("errno%d", int(errno))
			}
		}
		h.out.Emit(opl, res)
		h.out.Count("use-node")
		h.outstanding[key]++
		h.afterOp()
		return
	}
	opl := fmt.Sprintf("use %d %d", ref, toc)
	h.hist = append(h.hist, opl)
	n := h.lm.use(im.ref, h.tocs[toc])
	h.out.Emit(opl, strconv.Itoa(n))
	h.out.Count("use")
	h.outstanding[key]++
	if n <= 0 {
		h.fail("count-not-positive-after-use", fmt.Sprintf("use(%d,%d) returned %d", ref, toc, n))
	}
	if n != h.outstanding[key] {
		h.fail("use-count-wrong", fmt.Sprintf("use(%d,%d) returned %d with %d outstanding uses", ref, toc, n, h.outstanding[key]))
	}
	h.afterOp()
}

func (h *verifH) release(ref, toc int, viaNode bool) {
	im := h.images[ref]
	key := verifKey{ref, toc}
	before := h.outstanding[key]
	heldBefore := h.cached(ref, toc)
	var (
		n   int
		err error
		opl string
		res string
	)
	if viaNode {
		opl = fmt.Sprintf("nrmdir %d %d", ref, toc)
		h.hist = append(h.hist, opl)
		var eo fuse.EntryOut
		rin, errno := h.nroot.Lookup(context.Background(), base64.StdEncoding.EncodeToString([]byte(im.ref.String())), &eo)
		if errno != 0 {
			h.fail("node-path-failed", fmt.Sprintf("rootnode Lookup errno=%d", errno))
			res = "?"
		} else {
			errno = rin.Operations().(*refnode).Rmdir(context.Background(), h.tocs[toc].String())
			switch errno {
			case syscall.ENOENT:
				res = "enoent"
			case syscall.EIO:
				res = "eio"
				err = errno
			default:
				res = fmt.Sprintf("errno%d", int(errno))
				err = errno
			}
		}
		h.out.Emit(opl, res)
		h.out.Count("release-node")
	} else {
		opl = fmt.Sprintf("release %d %d", ref, toc)
		h.hist = append(h.hist, opl)
		n, err = h.lm.release(context.Background(), im.ref, h.tocs[toc])
		if err != nil {
			res = "err"
		} else {
			res = fmt.Sprintf("ok %d", n)
		}
		h.out.Emit(opl, res)
		h.out.Count("release")
	}
	// ---- property oracle ----
	if before == 0 {
		if err == nil {
			h.fail("release-untracked-succeeded", fmt.Sprintf("release(%d,%d) succeeded without an outstanding use", ref, toc))
		}
		h.out.Count("release-untracked")
		h.afterOp()
		return
	}
	after := before - 1
	h.outstanding[key] = after
	if err == nil && !viaNode {
		if n < 0 {
			h.fail("count-negative", fmt.Sprintf("release(%d,%d) returned %d", ref, toc, n))
		}
		if n != after {
			h.fail("release-count-wrong", fmt.Sprintf("release(%d,%d) returned %d with %d outstanding uses left", ref, toc, n, after))
		}
	}
	if err != nil && heldBefore != nil {
		h.fail("release-tracked-failed", fmt.Sprintf("release(%d,%d) of an acquired layer with %d outstanding uses failed: %v", ref, toc, before, err))
	}
	if after == 0 {
		h.relZero[key] = true
		h.out.Count("release-to-zero")
		if heldBefore != nil {
			if !heldBefore.isDone() {
				h.fail("released-layer-not-done", fmt.Sprintf("last release(%d,%d): Done() was not called on instance %d", ref, toc, heldBefore.id))
			}
			if c := h.cached(ref, toc); c != nil {
				h.fail("layer-kept-after-last-release", fmt.Sprintf("last release(%d,%d): instance %d is still cached", ref, toc, c.id))
			}
			if mb := h.memberBlob(ref, toc); mb >= 0 {
				delete(h.tainted, verifKey{ref, mb}) // the dropped layer must be resolved afresh next time
			}
		}
		delete(h.held, key)
		total := 0
		for k, v := range h.outstanding {
			if k.ref == ref {
				total += v
			}
		}
		if total == 0 {
			h.out.Count("release-image-to-zero")
			// the image's last use is gone: layers that were resolved along with the used ones but
			// never used themselves are still cached and not Done (known finding)
			var kept []string
			for _, bi := range im.layers {
				if !h.blobs[bi].esgz {
					continue
				}
				if c := h.cached(ref, bi); c != nil && !c.isDone() {
					kept = append(kept, strconv.Itoa(bi))
				}
			}
			if len(kept) > 0 {
				sort.Strings(kept)
				h.known("unused-sibling-layers-kept-after-last-release", fmt.Sprintf("release(%d,%d) released the last use of image %d but its layers %s are still cached and not Done", ref, toc, ref, strings.Join(kept, ",")))
			}
			for k := range h.tainted { // last use of the image: its resolution bookkeeping must be dropped
				if k.ref == ref {
					delete(h.tainted, k)
				}
			}
		}
	}
	h.afterOp()
}

// afterOp: checks that must hold after every operation, then the state snapshot.
func (h *verifH) afterOp() {
	for key, n := range h.outstanding {
		if n < 0 {
			h.fail("count-negative", fmt.Sprintf("(%d,%d) has %d outstanding uses", key.ref, key.x, n))
		}
		c := h.cached(key.ref, key.x)
		if n == 0 {
			delete(h.held, key)
			continue
		}
		hd := h.held[key]
		if hd == nil {
			if c != nil {
				h.held[key] = c
				if c.isDone() {
					h.fail("in-use-layer-released", fmt.Sprintf("(%d,%d) is in use but its cached instance %d is Done", key.ref, key.x, c.id))
				}
			}
			continue
		}
		if c == nil {
			h.fail("in-use-layer-released", fmt.Sprintf("(%d,%d) has %d outstanding uses but instance %d is no longer cached", key.ref, key.x, n, hd.id))
			delete(h.held, key)
		} else if c != hd {
			h.fail("in-use-layer-released", fmt.Sprintf("(%d,%d) has %d outstanding uses but instance %d was replaced by %d", key.ref, key.x, n, hd.id, c.id))
			h.held[key] = c
		} else if hd.isDone() {
			h.fail("in-use-layer-released", fmt.Sprintf("(%d,%d) has %d outstanding uses but Done() was called on instance %d", key.ref, key.x, n, hd.id))
		}
	}
	// every cached instance must be live
	h.lm.mu.Lock()
	for _, m := range h.lm.layer {
		for _, l := range m {
			if w, ok := l.(*verifLayer); ok && w.isDone() {
				h.fail("cached-layer-done", fmt.Sprintf("instance %d is cached but Done() was called on it", w.id))
			}
		}
	}
	for r, m := range h.lm.refcounter {
		for t, n := range m {
			if n < 0 {
				h.fail("count-negative", fmt.Sprintf("refcounter[%d][%d] = %d", h.refIdx[r], h.tocIdx[t], n))
			}
		}
	}
	h.lm.mu.Unlock()
	h.out.Emit("snap", h.snap())
}

func verifJoin(xs []string) string {
	if len(xs) == 0 {
		return "-"
	}
	return strings.Join(xs, ",")
}

func (h *verifH) idx(m map[string]int, k string) int {
	if i, ok := m[k]; ok {
		return i
	}
	return 9999
}

// snap: canonical dump of the bookkeeping the property talks about.
func (h *verifH) snap() string {
	type ent struct {
		a, b int
		s    string
	}
	render := func(es []ent) string {
		sort.Slice(es, func(i, j int) bool {
			if es[i].a != es[j].a {
				return es[i].a < es[j].a
			}
			return es[i].b < es[j].b
		})
		var xs []string
		for _, e := range es {
			xs = append(xs, e.s)
		}
		return verifJoin(xs)
	}
	var ls, cs, ms, ps []ent
	h.lm.mu.Lock()
	for r, m := range h.lm.layer {
		for t, l := range m {
			id := "?"
			if w := h.wrapOf(l); w != nil {
				id = strconv.Itoa(w.id)
			}
			ri, ti := h.idx(h.refIdx, r), h.idx(h.tocIdx, t)
			ls = append(ls, ent{ri, ti, fmt.Sprintf("%d:%d=%s", ri, ti, id)})
		}
	}
	for r, m := range h.lm.refcounter {
		for t, n := range m {
			ri, ti := h.idx(h.refIdx, r), h.idx(h.tocIdx, t)
			cs = append(cs, ent{ri, ti, fmt.Sprintf("%d:%d=%d", ri, ti, n)})
		}
	}
	for r, m := range h.lm.resolveLayerCache {
		for d, e := range m {
			ri, di := h.idx(h.refIdx, r), h.idx(h.ldIdx, d)
			o := "ok"
			if e != nil {
				o = "err"
			}
			ms = append(ms, ent{ri, di, fmt.Sprintf("%d:%d=%s", ri, di, o)})
		}
	}
	h.lm.mu.Unlock()
	h.lm.refPool.mu.Lock()
	for r, rel := range h.lm.refPool.refcounter {
		ri := h.idx(h.refIdx, r)
		ps = append(ps, ent{ri, 0, fmt.Sprintf("%d=%d", ri, rel.count)})
	}
	h.lm.refPool.mu.Unlock()
	h.doneMu.Lock()
	ds := append([]int(nil), h.doneIDs...)
	h.doneMu.Unlock()
	sort.Ints(ds)
	var dss []string
	for _, d := range ds {
		dss = append(dss, strconv.Itoa(d))
	}
	var ks []string
	for i := range h.images {
		if h.onDisk(i) {
			ks = append(ks, strconv.Itoa(i))
		}
	}
	return fmt.Sprintf("L=%s C=%s M=%s D=%s P=%s K=%s", render(ls), render(cs), render(ms), verifJoin(dss), render(ps), verifJoin(ks))
}

// --------------------------------------------------------------------------------------------
// scenarios

type verifStep struct {
	op  string // lookup nlookup-diff nlookup-blob nlookup-info info use nuse release nrelease failblob okblob failmf okmf
	ref int
	x   int // toc index (or blob index for failblob/okblob)
}

func (h *verifH) play(name string, steps []verifStep) {
	h.out.Comment("scenario " + name)
	h.reset()
	for _, s := range steps {
		h.do(s)
	}
	h.out.Distinct("scenario/" + name)
}

func (h *verifH) do(s verifStep) {
	switch s.op {
	case "lookup":
		h.lookup(s.ref, s.x, verifViaAPI)
	case "cancel-pre":
		h.cancelMode = "pre"
		h.lookup(s.ref, s.x, verifViaAPI)
	case "cancel-mid":
		h.cancelMode = "mid"
		h.lookup(s.ref, s.x, verifViaAPI)
	case "nlookup-diff":
		h.lookup(s.ref, s.x, verifViaDiff)
	case "nlookup-blob":
		h.lookup(s.ref, s.x, verifViaBlob)
	case "nlookup-info":
		h.info(s.ref, s.x, true)
	case "info":
		h.info(s.ref, s.x, false)
	case "use":
		h.use(s.ref, s.x, false)
	case "nuse":
		h.use(s.ref, s.x, true)
	case "release":
		h.release(s.ref, s.x, false)
	case "nrelease":
		h.release(s.ref, s.x, true)
	case "failblob":
		h.setFailBlob(s.ref, s.x, true)
		h.hist = append(h.hist, fmt.Sprintf("[registry: blob %d of ref %d fails]", s.x, s.ref))
	case "okblob":
		h.setFailBlob(s.ref, s.x, false)
		h.hist = append(h.hist, fmt.Sprintf("[registry: blob %d of ref %d ok]", s.x, s.ref))
	case "failmf":
		h.setFailMf(s.ref, true)
		h.hist = append(h.hist, fmt.Sprintf("[registry: manifest of ref %d fails]", s.ref))
	case "okmf":
		h.setFailMf(s.ref, false)
		h.hist = append(h.hist, fmt.Sprintf("[registry: manifest of ref %d ok]", s.ref))
	case "snapcheck": // no operation: the sibling must still be there for the finding to be what we think
		if h.cached(s.ref, s.x) == nil {
			h.out.Count("known-scenario-sibling-not-cached")
		}
	default:
		h.t.Fatalf("unknown step %q", s.op)
	}
}

func (h *verifH) handWritten() {
	const A, B, C, N = 0, 1, 2, 3
	h.play("lookup-use-release-lookup", []verifStep{
		{"lookup", A, 0}, {"use", A, 0}, {"release", A, 0}, {"lookup", A, 0}, {"use", A, 0}, {"release", A, 0}, {"lookup", A, 0}})
	h.play("sibling-in-use", []verifStep{
		{"lookup", A, 0}, {"lookup", A, 1}, {"use", A, 0}, {"use", A, 1}, {"release", A, 0}, {"lookup", A, 0},
		{"release", A, 1}, {"lookup", A, 1}, {"lookup", A, 2}})
	h.play("release-twice", []verifStep{
		{"lookup", A, 1}, {"use", A, 1}, {"release", A, 1}, {"release", A, 1}, {"use", A, 1}, {"lookup", A, 1}, {"release", A, 1}})
	h.play("release-untracked", []verifStep{
		{"release", A, 0}, {"lookup", A, 0}, {"release", A, 0}, {"use", A, 0}, {"release", A, 1}, {"release", B, 0},
		{"release", N, 0}, {"release", A, 100}, {"release", A, 0}, {"release", A, 0}})
	h.play("unknown-digest", []verifStep{
		{"lookup", A, 100}, {"lookup", A, 3}, {"lookup", N, 0}, {"lookup", A, 0}, {"lookup", A, 101}, {"info", A, 100},
		{"use", A, 100}, {"lookup", A, 100}, {"release", A, 100}, {"lookup", B, 904}, {"lookup", B, 0}, {"lookup", C, 3}, {"lookup", C, 0}})
	h.play("use-before-lookup", []verifStep{
		{"use", A, 2}, {"use", A, 2}, {"lookup", A, 2}, {"release", A, 2}, {"lookup", A, 2}, {"release", A, 2}, {"lookup", A, 2}})
	h.play("nested-counts", []verifStep{
		{"lookup", B, 1}, {"use", B, 1}, {"use", B, 1}, {"use", B, 3}, {"release", B, 1}, {"lookup", B, 1}, {"release", B, 1},
		{"lookup", B, 1}, {"lookup", B, 3}, {"release", B, 3}, {"lookup", B, 3}, {"info", B, 1}, {"info", B, 3}})
	h.play("registry-error-then-recovery", []verifStep{
		{"failblob", A, 1}, {"lookup", A, 1}, {"lookup", A, 0}, {"okblob", A, 1}, {"lookup", A, 1},
		{"use", A, 0}, {"release", A, 0}, {"lookup", A, 1}, {"lookup", A, 0}})
	h.play("registry-error-while-sibling-in-use", []verifStep{
		{"lookup", A, 0}, {"use", A, 0}, {"use", A, 1}, {"release", A, 1}, {"failblob", A, 1}, {"lookup", A, 100},
		{"okblob", A, 1}, {"lookup", A, 1}, {"release", A, 0}, {"lookup", A, 1}})
	h.play("manifest-error-then-recovery", []verifStep{
		{"failmf", A, 0}, {"lookup", A, 0}, {"info", A, 0}, {"okmf", A, 0}, {"lookup", A, 0}, {"failmf", A, 0},
		{"lookup", A, 1}, {"use", A, 1}, {"release", A, 1}, {"lookup", A, 1}, {"info", A, 1}})
	h.play("two-images-shared-blob", []verifStep{
		{"lookup", A, 1}, {"lookup", B, 1}, {"use", A, 1}, {"use", B, 1}, {"release", A, 1}, {"lookup", B, 1}, {"lookup", A, 1},
		{"release", B, 1}, {"lookup", B, 1}})
	// an error memoised for L2 during the first resolution, L3 resolved but never used, L1 used and
	// released to zero, registry heals: the fresh lookup of L2 must succeed
	h.play("error-then-last-release-then-recovery", []verifStep{
		{"failblob", A, 1}, {"lookup", A, 0}, {"use", A, 0}, {"release", A, 0}, {"okblob", A, 1}, {"lookup", A, 1},
		{"lookup", A, 2}, {"lookup", A, 0}})
	// the error of ANOTHER layer (memoised: the non-eStargz layer of image B) arrives at once when a
	// dropped layer is resolved again; the wanted layer itself has no error
	h.play("foreign-error-arrives-first", []verifStep{
		{"lookup", B, 3}, {"use", B, 3}, {"use", B, 1}, {"release", B, 3}, {"lookup", B, 3}, {"use", B, 3},
		{"release", B, 1}, {"lookup", B, 1}, {"release", B, 3}, {"lookup", B, 3}, {"lookup", B, 1}})
	// the client abandons its lookup (FUSE INTERRUPT) while the registry is still answering the first
	// request for the wanted layer and its siblings are done; the registry never fails: nothing may
	// be memoised and fresh lookups must succeed
	h.play("lookup-abandoned-in-flight", []verifStep{
		{"info", A, 1}, {"cancel-mid", A, 1}, {"lookup", A, 1}, {"lookup", A, 0}, {"lookup", A, 2},
		{"use", A, 1}, {"release", A, 1}, {"cancel-mid", A, 1}, {"lookup", A, 1},
		{"cancel-mid", B, 3}, {"lookup", B, 3}, {"lookup", B, 1}, {"cancel-mid", C, 100}, {"lookup", C, 3}})
	h.play("lookup-abandoned-before-manifest", []verifStep{
		{"cancel-pre", A, 0}, {"lookup", A, 0}, {"use", A, 0}, {"release", A, 0}, {"cancel-pre", A, 0}, {"lookup", A, 0},
		{"cancel-pre", C, 3}, {"cancel-mid", C, 3}, {"lookup", C, 3}})
	h.play("node-handlers", []verifStep{
		{"nlookup-info", A, 0}, {"nlookup-diff", A, 0}, {"nuse", A, 0}, {"nlookup-blob", A, 0}, {"nlookup-info", A, 0},
		{"nrelease", A, 0}, {"nlookup-diff", A, 0}, {"nrelease", A, 0}, {"nlookup-diff", A, 100}, {"nlookup-blob", N, 0},
		{"nuse", A, 1}, {"nuse", A, 1}, {"nrelease", A, 1}, {"nlookup-blob", A, 1}, {"nrelease", A, 1}, {"nlookup-blob", A, 1}})
}

func (h *verifH) randomHistory(k int) {
	h.reset()
	rnd := h.rnd
	nops := 4 + rnd.Intn(24)
	nodeMode := rnd.Intn(4) == 0 // a quarter of the histories go through the fs.go handlers
	errMode := rnd.Intn(3) != 0  // a third of the histories have a registry that never fails
	var recent []verifKey
	shape := ""
	for i := 0; i < nops; i++ {
		if errMode && rnd.Intn(6) == 0 {
			ref := rnd.Pick(5, 4, 1)
			im := h.images[ref]
			if rnd.Intn(5) == 0 {
				if h.mfBit(ref) {
					h.do(verifStep{"failmf", ref, 0})
				} else {
					h.do(verifStep{"okmf", ref, 0})
				}
				shape += "m"
			} else {
				bi := im.layers[rnd.Intn(len(im.layers))]
				if h.blobFails(ref, bi) || rnd.Intn(3) == 0 {
					h.do(verifStep{"okblob", ref, bi})
				} else {
					h.do(verifStep{"failblob", ref, bi})
				}
				shape += "b"
			}
		}
		var key verifKey
		if len(recent) > 0 && rnd.Intn(10) < 6 {
			key = recent[rnd.Intn(len(recent))]
		} else {
			ref := rnd.Pick(45, 35, 12, 8)
			im := h.images[ref]
			var toc int
			switch c := rnd.Pick(75, 10, 10, 5); {
			case c == 0 && len(im.layers) > 0:
				bi := im.layers[rnd.Intn(len(im.layers))]
				toc = verifTocOfBlob(bi, h.blobs[bi])
			case c == 1:
				toc = rnd.Intn(4)
			case c == 2:
				toc = 100 + rnd.Intn(2)
			default:
				toc = 904
			}
			key = verifKey{ref, toc}
			recent = append(recent, key)
			if len(recent) > 4 {
				recent = recent[1:]
			}
		}
		node := nodeMode && rnd.Intn(3) != 0
		switch rnd.Pick(32, 6, 24, 24) {
		case 0:
			via := verifViaAPI
			if node {
				via = []string{verifViaDiff, verifViaBlob}[rnd.Intn(2)]
			}
			if via == verifViaAPI {
				switch rnd.Pick(80, 14, 6) {
				case 1:
					h.cancelMode = "mid"
					shape += "c"
				case 2:
					h.cancelMode = "pre"
					shape += "p"
				}
			}
			h.lookup(key.ref, key.x, via)
			shape += "l"
		case 1:
			h.info(key.ref, key.x, node)
			shape += "i"
		case 2:
			h.use(key.ref, key.x, node)
			shape += "u"
		default:
			// mostly release something that is in use (map order is random: sort first)
			var inUse []verifKey
			for k, n := range h.outstanding {
				if n > 0 {
					inUse = append(inUse, k)
				}
			}
			sort.Slice(inUse, func(i, j int) bool {
				if inUse[i].ref != inUse[j].ref {
					return inUse[i].ref < inUse[j].ref
				}
				return inUse[i].x < inUse[j].x
			})
			if len(inUse) > 0 && rnd.Intn(10) < 7 {
				key = inUse[rnd.Intn(len(inUse))]
			}
			h.release(key.ref, key.x, node)
			shape += "r"
		}
		shape += fmt.Sprintf("%d.%d", key.ref, key.x)
	}
	h.out.Distinct(shape)
}

// race: lookups racing on one image (oracle only; the interleaving is not reproducible, so
// nothing is written to the compared streams).
func (h *verifH) race(round int) {
	h.reset()
	const A = 0
	im := h.images[A]
	var wg sync.WaitGroup
	type r struct {
		toc int
		l   layer.Layer
		err error
	}
	res := make([]r, 12)
	for i := range res {
		toc := []int{0, 1, 2, 100}[i%4]
		res[i].toc = toc
		wg.Add(1)
		go func(i int) {
			defer wg.Done()
			res[i].l, res[i].err = h.lm.getLayer(context.Background(), im.ref, h.tocs[toc])
		}(i)
	}
	wg.Wait()
	h.waitQuiescent(A, true)
	first := map[int]layer.Layer{}
	for _, x := range res {
		if x.toc == 100 {
			if x.err == nil {
				h.fail("lookup-unknown-succeeded", "racing lookup of an unknown digest succeeded")
			}
			continue
		}
		if x.err != nil {
			h.fail("racing-lookup-failed", fmt.Sprintf("racing lookup(%d,%d) failed: %v", A, x.toc, x.err))
			continue
		}
		if c := h.lm.getCachedLayer(im.ref, h.tocs[x.toc]); c != x.l {
			h.fail("racing-lookup-uncached-instance", fmt.Sprintf("racing lookup(%d,%d) returned an instance that is not the cached one", A, x.toc))
		}
		if f, ok := first[x.toc]; ok && f != x.l {
			h.fail("racing-lookup-two-instances", fmt.Sprintf("racing lookups of (%d,%d) returned two different instances", A, x.toc))
		}
		first[x.toc] = x.l
		if x.l.Info().TOCDigest != h.tocs[x.toc] {
			h.fail("lookup-wrong-toc", "racing lookup returned a layer with another TOC digest")
		}
	}
	h.out.Count("race-round")
	// Whatever the interleaving was, the racing lookups must leave the state that one sequential
	// lookup leaves (ids are given in manifest order by scanWrap): that is what the model replays.
	h.scanWrap(A)
	res0 := "err"
	if c := h.cached(A, 0); c != nil {
		res0 = fmt.Sprintf("ok %d", c.id)
	}
	h.out.Emit("lookup 0 0 1 111", res0)
	h.out.Emit("snap", h.snap())
}

// knownScenarios: the two recorded findings, triggered on every run.
func (h *verifH) knownScenarios() {
	const A, C = 0, 2
	h.play("known-memoised-registry-error", []verifStep{
		{"failblob", A, 1}, {"lookup", A, 1}, {"okblob", A, 1}, {"lookup", A, 1}, {"lookup", A, 0}, {"lookup", A, 1},
		{"use", A, 0}, {"release", A, 0}, {"lookup", A, 1}})
	h.play("known-unused-siblings-kept", []verifStep{
		{"lookup", A, 0}, {"use", A, 0}, {"release", A, 0}, {"snapcheck", A, 1}, {"lookup", A, 1}, {"lookup", A, 0},
		{"use", A, 1}, {"use", A, 2}, {"release", A, 1}, {"release", A, 2},
		{"lookup", C, 3}, {"use", C, 3}, {"release", C, 3}})
}

// TestVerifC16Known is the separate pass in which the known findings are reported as oracle
// failures (and nothing else may fail).
func TestVerifC16Known(t *testing.T) {
	log.SetLevel("panic")
	h := verifNewH(t)
	defer h.close()
	h.reportKnown = true
	h.knownScenarios()
	n := verifutil.EnvInt("VERIF_N", 40)
	for k := 0; k < n; k++ {
		h.out.Comment(fmt.Sprintf("history %d", k))
		h.randomHistory(k)
	}
	if h.root != "" {
		os.RemoveAll(h.root)
	}
}

func TestVerifC16(t *testing.T) {
	log.SetLevel("panic") // the store logs every use/release at info level
	h := verifNewH(t)
	defer h.close()
	h.handWritten()
	n := verifutil.EnvInt("VERIF_N", 120)
	for k := 0; k < n; k++ {
		h.out.Comment(fmt.Sprintf("history %d", k))
		h.randomHistory(k)
	}
	if os.Getenv("VERIF_C16_NORACE") == "" {
		nr := verifutil.EnvInt("VERIF_RACE", 10)
		for k := 0; k < nr; k++ {
			h.out.Comment(fmt.Sprintf("race %d", k))
			h.race(k)
		}
	}
	if h.root != "" {
		os.RemoveAll(h.root)
	}
}
