//go:build verif

package store

// C16b harness: the FUSE node layer of store/fs.go (rootnode / refnode / layernode / blobnode /
// info / pool nodes, fs.newInodeWithID, idMap) driven through the REAL go-fuse bridge
// (fusefs.NewNodeFS(...).Lookup / Forget / Create / Rmdir) without a kernel mount: the harness plays
// the kernel (it owns the lookup counts of the node ids it was given and only sends requests a kernel
// can send).  Every request is an `sfs-…` op line for the Lean model SV.StoreFs (svdriver_c16).
//
// Independent oracle (no model involved), see verifFsH.check:
//   - LayerManager.refcounter[ref][toc] == the harness's own count of uses (Create "use") not yet
//     released (Rmdir answered ENOENT)
//   - inode numbers of all nodes the kernel holds or the tree contains are pairwise distinct, every
//     such node's number is still allocated in fs.nodeMap, a LOOKUP never answers with a node id that
//     the kernel holds under another path
//   - a failing LOOKUP changes neither the tree, nor fs.nodeMap, nor the use counts
//   - after the last release the layer directory is gone from the tree
//   - after the kernel has forgotten everything every allocated id belongs to a node of the tree

import (
	"encoding/base64"
	"fmt"
	"os"
	"sort"
	"strconv"
	"strings"
	"syscall"
	"testing"

	"github.com/containerd/log"
	"github.com/containerd/stargz-snapshotter/internal/verifutil"
	fusefs "github.com/hanwen/go-fuse/v2/fs"
	"github.com/hanwen/go-fuse/v2/fuse"
)

type verifFsNode struct {
	id      uint64
	lookups uint64
	parent  uint64
	name    string // model token
	ino     uint64
	kind    string // ref layer diff info blob pool
	ref     int
	toc     int
	inode   *fusefs.Inode
}

type verifFsH struct {
	*verifH
	raw     fuse.RawFileSystem
	rootn   *rootnode
	kern    map[uint64]*verifFsNode // node ids the kernel was ever given and still holds
	uses    map[verifKey]int        // (ref, toc) -> Create("use") not yet released
	silent  bool                    // an RMDIR reached a node without Rmdir handler (bridge removes the child)
	// candidate findings (see drain): directories that were unlinked while the kernel held them
	// (node id -> "lookup-after-release" | "silent-rmdir") and the inode numbers that can no longer be
	// freed because of a LOOKUP below such a directory / because the bridge unlinked them
	detached map[uint64]string
	excuse   map[uint64]string
	report   bool // VERIF_C16B_REPORT=1: report the candidate findings as oracle failures
}

func (f *verifFsH) resetFs() {
	f.verifH.reset() // fresh LayerManager / registry state (emits "reset")
	f.rootn = &rootnode{fs: &fs{layerManager: f.lm, nodeMap: new(idMap), layerMap: new(idMap)}}
	f.nroot = f.rootn
	f.raw = fusefs.NewNodeFS(f.rootn, &fusefs.Options{})
	f.kern = map[uint64]*verifFsNode{}
	f.uses = map[verifKey]int{}
	f.silent = false
	f.detached = map[uint64]string{}
	f.excuse = map[uint64]string{}
	f.report = os.Getenv("VERIF_C16B_REPORT") != ""
	f.out.Emit("sfs-reset", "ok")
}

// wire name of a model token at the level of the directory it is asked in
func (f *verifFsH) wire(tok string) string {
	switch {
	case tok == "bad":
		return "!!not-a-name!!"
	case tok == "other":
		return "something-else"
	case tok == "pool" || tok == "diff" || tok == "info" || tok == "blob" || tok == "use":
		return tok
	case tok[0] == 'r':
		i, _ := strconv.Atoi(tok[1:])
		return base64.StdEncoding.EncodeToString([]byte(f.images[i].ref.String()))
	case tok[0] == 't':
		i, _ := strconv.Atoi(tok[1:])
		return f.tocs[i].String()
	}
	return tok
}

func (f *verifFsH) inodeOf(id uint64) *fusefs.Inode {
	if id == 1 {
		return f.rootn.EmbeddedInode()
	}
	if n := f.kern[id]; n != nil {
		return n.inode
	}
	return nil
}

func verifErrno(st fuse.Status) string {
	switch syscall.Errno(st) {
	case 0:
		return "ok"
	case syscall.EINVAL:
		return "einval"
	case syscall.EIO:
		return "eio"
	case syscall.ENOENT:
		return "enoent"
	case syscall.EROFS:
		return "erofs"
	}
	return fmt.Sprintf("errno%d", int(st))
}

func (f *verifFsH) nodeMapIDs() []int {
	m := f.rootn.fs.nodeMap
	m.mu.Lock()
	defer m.mu.Unlock()
	var xs []int
	for k := range m.m {
		xs = append(xs, int(k))
	}
	sort.Ints(xs)
	return xs
}

func (f *verifFsH) layerMapIDs() []int {
	m := f.rootn.fs.layerMap
	m.mu.Lock()
	defer m.mu.Unlock()
	var xs []int
	for k := range m.m {
		xs = append(xs, int(k))
	}
	sort.Ints(xs)
	return xs
}

func (f *verifFsH) tokOfWire(level int, w string) string {
	switch level {
	case 0:
		if w == "pool" {
			return "pool"
		}
		if b, err := base64.StdEncoding.DecodeString(w); err == nil {
			if i, ok := f.refIdx[string(b)]; ok {
				return "r" + strconv.Itoa(i)
			}
		}
	case 1:
		if i, ok := f.tocIdx[w]; ok {
			return "t" + strconv.Itoa(i)
		}
	case 2:
		return w
	}
	return "?" + w
}

func verifInoStr(in *fusefs.Inode) string {
	ino := in.StableAttr().Ino
	if ino>>32 != 0 {
		return "d" + strconv.FormatUint(ino>>32, 10)
	}
	return strconv.FormatUint(ino, 10)
}

// tree: the real tree below the root as sorted "path=ino" entries, and the inodes in it.
func (f *verifFsH) tree() ([]string, []*fusefs.Inode) {
	var es []string
	var ins []*fusefs.Inode
	var walk func(in *fusefs.Inode, prefix string, level int)
	walk = func(in *fusefs.Inode, prefix string, level int) {
		if level > 2 {
			return
		}
		for w, ch := range in.Children() {
			p := prefix + f.tokOfWire(level, w)
			es = append(es, p+"="+verifInoStr(ch))
			ins = append(ins, ch)
			if _, isLayer := ch.Operations().(*layernode); level < 1 || isLayer {
				walk(ch, p+"/", level+1)
			}
		}
	}
	walk(f.rootn.EmbeddedInode(), "", 0)
	sort.Strings(es)
	return es, ins
}

func verifJoinInts(xs []int) string {
	var ss []string
	for _, x := range xs {
		ss = append(ss, strconv.Itoa(x))
	}
	return verifJoin(ss)
}

func (f *verifFsH) fsSnap() string {
	tr, _ := f.tree()
	var ids []int
	for id := range f.kern {
		ids = append(ids, int(id))
	}
	sort.Ints(ids)
	var hs []string
	for _, id := range ids {
		hs = append(hs, fmt.Sprintf("%d:%d", id, f.kern[uint64(id)].lookups))
	}
	return fmt.Sprintf("N=%s Y=%s T=%s H=%s X=0", verifJoinInts(f.nodeMapIDs()), verifJoinInts(f.layerMapIDs()), verifJoin(tr), verifJoin(hs))
}

func (f *verifFsH) counts() string {
	var xs []string
	f.lm.mu.Lock()
	for r, m := range f.lm.refcounter {
		for t, n := range m {
			xs = append(xs, fmt.Sprintf("%d:%d=%d", f.idx(f.refIdx, r), f.idx(f.tocIdx, t), n))
		}
	}
	f.lm.mu.Unlock()
	sort.Strings(xs)
	return strings.Join(xs, ",")
}

// check: the independent oracle evaluated after every request, then the two snapshots.
func (f *verifFsH) check() {
	// use counts
	f.lm.mu.Lock()
	for r, m := range f.lm.refcounter {
		for t, n := range m {
			k := verifKey{f.idx(f.refIdx, r), f.idx(f.tocIdx, t)}
			if n != f.uses[k] {
				f.fail("sfs-count-mismatch", fmt.Sprintf("refcounter[%d][%d] = %d but %d uses are outstanding", k.ref, k.x, n, f.uses[k]))
			}
		}
	}
	for k, n := range f.uses {
		if n > 0 {
			if _, ok := f.lm.refcounter[f.images[k.ref].ref.String()][f.tocs[k.x].String()]; !ok {
				f.fail("sfs-count-mismatch", fmt.Sprintf("(%d,%d) has %d outstanding uses but is not counted", k.ref, k.x, n))
			}
		}
	}
	f.lm.mu.Unlock()
	// inode numbers
	alloc := map[int]bool{}
	for _, id := range f.nodeMapIDs() {
		alloc[id] = true
	}
	_, ins := f.tree()
	seen := map[*fusefs.Inode]bool{}
	byIno := map[uint64]*fusefs.Inode{}
	note := func(in *fusefs.Inode, what string) {
		if in == nil || seen[in] {
			return
		}
		seen[in] = true
		ino := in.StableAttr().Ino
		if o, ok := byIno[ino]; ok && o != in {
			f.fail("sfs-ino-not-unique", fmt.Sprintf("two live nodes have inode number %d (%s)", ino, what))
		}
		byIno[ino] = in
		if ino>>32 == 0 && !alloc[int(ino)] {
			f.fail("sfs-live-ino-freed", fmt.Sprintf("inode number %d of a live node (%s) is not allocated in nodeMap", ino, what))
		}
	}
	for _, in := range ins {
		note(in, "in the tree")
	}
	for _, n := range f.kern {
		note(n.inode, fmt.Sprintf("held by the kernel as node %d", n.id))
	}
	f.out.Emit("sfs-snap", f.fsSnap())
	f.afterOp() // C16's own per-op checks + "snap" of the LayerManager bookkeeping
}

func (f *verifFsH) lookup(parent uint64, tok string) (uint64, string) {
	pin := f.inodeOf(parent)
	ref, toc := -1, -1
	mfi, bits := 1, "-"
	isLayerLookup := false
	var cachedBefore, diskBefore, mf bool
	if pn := f.kern[parent]; pn != nil && pn.kind == "layer" {
		ref, toc = pn.ref, pn.toc
		mf = f.mfBit(ref)
		if !mf {
			mfi = 0
		}
		bits = f.oracleBits(ref)
		if (tok == "diff" || tok == "blob") && pin.GetChild(f.wire(tok)) == nil {
			isLayerLookup = true
			cachedBefore = f.lm.getCachedLayer(f.images[ref].ref, f.tocs[toc]) != nil
			diskBefore = f.onDisk(ref)
		}
	}
	opl := fmt.Sprintf("sfs-lookup %d %s %d %s", parent, tok, mfi, bits)
	f.hist = append(f.hist, opl)
	treeBefore, _ := f.tree()
	idsBefore := verifJoinInts(f.nodeMapIDs())
	cntBefore := f.counts()
	var out fuse.EntryOut
	st := f.raw.Lookup(nil, &fuse.InHeader{NodeId: parent}, f.wire(tok), &out)
	if isLayerLookup {
		im := f.images[ref]
		if !cachedBefore {
			f.waitQuiescent(ref, im.exists && (diskBefore || mf))
		}
		f.scanWrap(ref)
	}
	res := verifErrno(st)
	var got uint64
	if st == fuse.OK {
		got = out.NodeId
		inoS := strconv.FormatUint(out.Ino, 10)
		if out.Ino>>32 != 0 {
			inoS = "d" + strconv.FormatUint(out.Ino>>32, 10)
		}
		res = fmt.Sprintf("ok %d %s", out.NodeId, inoS)
		child := pin.GetChild(f.wire(tok))
		if child == nil {
			f.fail("sfs-lookup-child-not-linked", fmt.Sprintf("%s succeeded but the directory has no such child", opl))
		}
		n := f.kern[out.NodeId]
		if n != nil && (n.parent != parent || n.name != tok) {
			f.fail("sfs-node-aliased", fmt.Sprintf("%s answered node %d which the kernel holds as %d/%s", opl, out.NodeId, n.parent, n.name))
		}
		if n == nil {
			n = &verifFsNode{id: out.NodeId, parent: parent, name: tok, ino: out.Ino, inode: child, ref: ref, toc: toc}
			if child != nil {
				switch child.Operations().(type) {
				case *refnode:
					n.kind = "ref"
					n.ref, _ = strconv.Atoi(tok[1:])
				case *layernode:
					n.kind = "layer"
					n.ref = f.kern[parent].ref
					n.toc, _ = strconv.Atoi(tok[1:])
				case *blobnode:
					n.kind = "blob"
				case *MemRegularFileOnForget:
					n.kind = "info"
				case *MemSymlinkOnForget:
					n.kind = "pool"
				default:
					n.kind = "diff"
				}
			}
			f.kern[out.NodeId] = n
			if why, ok := f.detached[parent]; ok {
				// a new (persistent) node below a directory that is no longer linked: nobody will
				// ever run RmAllChildren on that directory again
				f.excuse[out.Ino] = why
				f.excuse[f.kern[parent].ino] = why
				if n.kind == "layer" || n.kind == "ref" {
					f.detached[out.NodeId] = why
				}
				f.out.Count("sfs-lookup-created-node-in-unlinked-dir-" + why)
			}
		}
		if n.inode != child && child != nil {
			f.fail("sfs-node-aliased", fmt.Sprintf("%s answered node %d but another inode is linked under that name", opl, out.NodeId))
		}
		if n.ino != out.Ino {
			f.fail("sfs-ino-changed", fmt.Sprintf("%s: node %d had inode number %d, now %d", opl, n.id, n.ino, out.Ino))
		}
		n.lookups++
	}
	f.out.Emit(opl, res)
	f.out.Count("sfs-lookup-" + res[:2])
	if st != fuse.OK {
		treeAfter, _ := f.tree()
		if strings.Join(treeBefore, ",") != strings.Join(treeAfter, ",") || idsBefore != verifJoinInts(f.nodeMapIDs()) || cntBefore != f.counts() {
			f.fail("sfs-failed-lookup-changed-state", fmt.Sprintf("%s failed (%s) but changed the tree, nodeMap or the use counts", opl, res))
		}
	}
	f.check()
	return got, res
}

func (f *verifFsH) forget(id uint64, k uint64) {
	n := f.kern[id]
	opl := fmt.Sprintf("sfs-forget %d %d", id, k)
	f.hist = append(f.hist, opl)
	f.raw.Forget(id, k)
	n.lookups -= k
	if n.lookups == 0 {
		delete(f.kern, id)
	}
	f.out.Emit(opl, "ok")
	f.out.Count("sfs-forget")
	f.check()
}

func (f *verifFsH) create(parent uint64, tok string) {
	opl := fmt.Sprintf("sfs-create %d %s", parent, tok)
	f.hist = append(f.hist, opl)
	var out fuse.CreateOut
	st := f.raw.Create(nil, &fuse.CreateIn{InHeader: fuse.InHeader{NodeId: parent}}, f.wire(tok), &out)
	if pn := f.kern[parent]; pn != nil && pn.kind == "layer" && tok == "use" {
		f.uses[verifKey{pn.ref, pn.toc}]++
		f.outstanding[verifKey{pn.ref, pn.toc}]++
		if syscall.Errno(st) != syscall.ENOENT {
			f.fail("sfs-create-use-errno", fmt.Sprintf("%s answered %s", opl, verifErrno(st)))
		}
	}
	f.out.Emit(opl, verifErrno(st))
	f.out.Count("sfs-create")
	f.check()
}

func (f *verifFsH) rmdir(parent uint64, tok string) {
	opl := fmt.Sprintf("sfs-rmdir %d %s", parent, tok)
	f.hist = append(f.hist, opl)
	pn := f.kern[parent]
	isRef := pn != nil && pn.kind == "ref" && tok[0] == 't'
	var key verifKey
	var before int
	var heldBefore *verifLayer
	if isRef {
		t, _ := strconv.Atoi(tok[1:])
		key = verifKey{pn.ref, t}
		before = f.uses[key]
		heldBefore = f.cached(key.ref, key.x)
	}
	victim := f.inodeOf(parent).GetChild(f.wire(tok))
	st := f.raw.Rmdir(nil, &fuse.InHeader{NodeId: parent}, f.wire(tok))
	res := verifErrno(st)
	f.out.Emit(opl, res)
	f.out.Count("sfs-rmdir-" + res)
	if isRef {
		switch {
		case before == 0 && res == "enoent":
			f.fail("sfs-rmdir-untracked-succeeded", fmt.Sprintf("%s released a layer without an outstanding use", opl))
		case before > 0 && res != "enoent" && heldBefore != nil:
			f.fail("sfs-rmdir-tracked-failed", fmt.Sprintf("%s (%d outstanding uses, layer cached) answered %s", opl, before, res))
		}
		if before > 0 {
			// LayerManager.release decrements before it can fail ("layer not registered")
			f.uses[key] = before - 1
			f.outstanding[key] = before - 1
			if before == 1 && res == "enoent" {
				if pn.inode.GetChild(f.wire(tok)) != nil {
					f.fail("sfs-released-layer-still-linked", fmt.Sprintf("%s released the last use but the layer directory is still a child of the ref directory", opl))
				}
				if heldBefore != nil && !heldBefore.isDone() {
					f.fail("released-layer-not-done", fmt.Sprintf("%s: Done() was not called on instance %d", opl, heldBefore.id))
				}
				f.out.Count("sfs-release-to-zero")
				for id, n := range f.kern {
					if n.inode == victim && victim != nil {
						f.detached[id] = "lookup-after-release" // unlinked while the kernel holds it
					}
				}
			}
		}
	} else if res == "ok" {
		f.silent = true
		f.out.Count("sfs-rmdir-silently-removed-child")
		// the bridge unlinked the child without telling anybody: the subtree stays persistent
		var mark func(in *fusefs.Inode)
		mark = func(in *fusefs.Inode) {
			if in == nil {
				return
			}
			f.excuse[in.StableAttr().Ino] = "silent-rmdir"
			for id, n := range f.kern {
				if n.inode == in && (n.kind == "ref" || n.kind == "layer") {
					f.detached[id] = "silent-rmdir"
				}
			}
			for _, ch := range in.Children() {
				mark(ch)
			}
		}
		if victim != nil && f.inodeOf(parent).GetChild(f.wire(tok)) == nil {
			mark(victim)
		}
	}
	f.check()
}

// drain: the client releases what it uses and the kernel forgets everything it holds.
func (f *verifFsH) drain() {
	for guard := 0; guard < 64; guard++ {
		var k verifKey
		found := false
		var keys []verifKey
		for kk, n := range f.uses {
			if n > 0 {
				keys = append(keys, kk)
			}
		}
		sort.Slice(keys, func(i, j int) bool {
			if keys[i].ref != keys[j].ref {
				return keys[i].ref < keys[j].ref
			}
			return keys[i].x < keys[j].x
		})
		if len(keys) > 0 {
			k, found = keys[0], true
		}
		if !found {
			break
		}
		rid, res := f.lookup(1, "r"+strconv.Itoa(k.ref))
		if rid == 0 {
			f.fail("sfs-drain-failed", "cannot look up the ref directory: "+res)
			return
		}
		f.rmdir(rid, "t"+strconv.Itoa(k.x))
	}
	for len(f.kern) > 0 {
		var ids []int
		for id := range f.kern {
			ids = append(ids, int(id))
		}
		sort.Ints(ids)
		// children first (highest id first is good enough: a child is always younger than its parent)
		id := uint64(ids[len(ids)-1])
		f.forget(id, f.kern[id].lookups)
	}
	// nothing is used, nothing is held: no count may be left, every allocated id must belong to the tree
	if c := f.counts(); c != "" {
		f.fail("sfs-count-left-after-drain", "use counts left after every use was released: "+c)
	}
	_, ins := f.tree()
	inTree := map[uint64]bool{}
	for _, in := range ins {
		inTree[in.StableAttr().Ino] = true
	}
	for _, id := range f.nodeMapIDs() {
		if !inTree[uint64(id)] {
			what := fmt.Sprintf("id %d is still allocated in nodeMap after the kernel forgot everything, but no node of the tree has it", id)
			if why, ok := f.excuse[uint64(id)]; ok {
				// candidate findings, each under its own signature (reported to the lead; counted
				// here so that every OTHER leak is still a violation)
				if f.report {
					f.fail("sfs-id-leaked-"+why, what)
				} else {
					f.out.Count("candidate-sfs-id-leaked-" + why)
				}
			} else {
				f.fail("sfs-id-leaked", what)
			}
		}
	}
}

// walk: LOOKUP along a path from the root; returns the node ids (0 on failure).
func (f *verifFsH) walk(toks ...string) []uint64 {
	var ids []uint64
	cur := uint64(1)
	for _, t := range toks {
		id, _ := f.lookup(cur, t)
		ids = append(ids, id)
		if id == 0 {
			return ids
		}
		cur = id
	}
	return ids
}

func (f *verifFsH) handWrittenFs() {
	f.out.Comment("sfs scenario use-release-forget-relookup")
	f.resetFs()
	p := f.walk("r0", "t0", "diff")
	f.lookup(p[1], "blob")
	f.lookup(p[1], "info")
	f.lookup(p[1], "use")
	f.lookup(p[1], "other")
	f.create(p[1], "use")
	f.create(p[1], "use")
	f.lookup(1, "pool")
	f.lookup(1, "pool")
	f.rmdir(p[0], "t0")
	f.forget(p[2], 1)
	f.rmdir(p[0], "t0") // last release while the kernel still holds the layer dir and its children
	f.rmdir(p[0], "t0") // untracked
	q := f.walk("r0", "t0", "diff") // new nodes, new layer instance
	f.create(q[1], "use")
	f.drain()
	f.walk("r0", "t0", "blob") // after everything was forgotten the same path works again
	f.drain()
	f.out.Distinct("sfs-scenario/use-release-forget-relookup")

	f.out.Comment("sfs scenario forget-before-release")
	f.resetFs()
	p = f.walk("r0", "t1", "blob")
	f.create(p[1], "use")
	f.forget(p[2], 1)
	f.forget(p[1], 1)
	f.forget(p[0], 1)       // kernel holds nothing; nodes are persistent
	p = f.walk("r0", "t1") // the same nodes again
	f.lookup(p[1], "blob")
	f.forget(p[1], 1)
	f.rmdir(p[0], "t1") // layer dir not held: dropped at once with its children
	f.walk("r0", "t1", "diff")
	f.drain()
	f.out.Distinct("sfs-scenario/forget-before-release")

	f.out.Comment("sfs scenario failing-lookups")
	f.resetFs()
	f.lookup(1, "bad")
	f.lookup(1, "t0")
	p = f.walk("r0")
	f.lookup(p[0], "bad")
	f.lookup(p[0], "r0")
	p = f.walk("r0", "t100") // a digest no layer has: the directory exists, its files do not resolve
	f.lookup(p[1], "diff")
	f.lookup(p[1], "blob")
	f.lookup(p[1], "info")
	p = f.walk("r3", "t0") // an image the registry does not have
	f.lookup(p[1], "diff")
	f.lookup(p[1], "info")
	f.setFailBlob(0, 1, true)
	p = f.walk("r0", "t1")
	f.lookup(p[1], "blob")
	f.setFailBlob(0, 1, false)
	f.lookup(p[1], "blob")
	f.create(p[0], "use")
	f.create(1, "use")
	f.create(p[1], "other")
	f.drain()
	f.out.Distinct("sfs-scenario/failing-lookups")

	f.out.Comment("sfs scenario two-layers-one-image")
	f.resetFs()
	a := f.walk("r0", "t0", "diff")
	b := f.walk("r0", "t1", "diff")
	f.create(a[1], "use")
	f.create(b[1], "use")
	f.rmdir(a[0], "t0")
	f.forget(a[2], 1)
	f.forget(a[1], 1)
	f.rmdir(b[0], "t1") // last layer of the image: the ref directory goes as soon as the kernel lets go
	f.forget(b[0], 2)
	f.walk("r0", "t0", "diff")
	f.drain()
	f.out.Distinct("sfs-scenario/two-layers-one-image")

	f.out.Comment("sfs scenario lookup-in-released-layer-dir")
	f.resetFs()
	p = f.walk("r0", "t0", "blob")
	f.create(p[1], "use")
	f.rmdir(p[0], "t0")    // last release; the kernel still holds the layer directory
	f.lookup(p[1], "info") // ... and looks something up in it: a persistent child of an unlinked directory
	f.lookup(p[1], "diff")
	f.drain()
	f.out.Distinct("sfs-scenario/lookup-in-released-layer-dir")

	f.out.Comment("sfs scenario rmdir-without-handler")
	f.resetFs()
	p = f.walk("r2", "t3", "info")
	f.rmdir(p[1], "info") // layernode has no Rmdir: the bridge unlinks the child and answers OK
	f.rmdir(1, "r2")      // same on the root: the whole ref directory is unlinked
	f.walk("r2", "t3", "info")
	f.drain()
	f.out.Distinct("sfs-scenario/rmdir-without-handler")
}

func (f *verifFsH) randomFs(k int) {
	f.resetFs()
	rnd := f.rnd
	nops := 6 + rnd.Intn(30)
	errMode := rnd.Intn(3) == 0
	silentMode := rnd.Intn(6) == 0
	shape := ""
	heldOf := func(kind string) []uint64 {
		var ids []int
		for id, n := range f.kern {
			if kind == "" || n.kind == kind {
				ids = append(ids, int(id))
			}
		}
		sort.Ints(ids)
		var r []uint64
		for _, i := range ids {
			r = append(r, uint64(i))
		}
		return r
	}
	pick := func(xs []uint64) uint64 { return xs[rnd.Intn(len(xs))] }
	tocOf := func(ref int) string {
		im := f.images[ref]
		switch c := rnd.Pick(80, 10, 10); {
		case c == 0 && len(im.layers) > 0:
			bi := im.layers[rnd.Intn(len(im.layers))]
			return "t" + strconv.Itoa(verifTocOfBlob(bi, f.blobs[bi]))
		case c == 1:
			return "t" + strconv.Itoa(rnd.Intn(4))
		}
		return "t100"
	}
	for i := 0; i < nops; i++ {
		if errMode && rnd.Intn(7) == 0 {
			ref := rnd.Pick(5, 4, 1)
			im := f.images[ref]
			if rnd.Intn(5) == 0 {
				f.setFailMf(ref, f.mfBit(ref))
				shape += "m"
			} else {
				bi := im.layers[rnd.Intn(len(im.layers))]
				f.setFailBlob(ref, bi, !f.blobFails(ref, bi))
				shape += "b"
			}
		}
		refs, lays := heldOf("ref"), heldOf("layer")
		all := heldOf("")
		switch c := rnd.Pick(14, 16, 26, 14, 14, 12, 4); {
		case c == 0 || len(all) == 0:
			tok := []string{"r0", "r0", "r1", "r1", "r2", "r3", "pool", "bad"}[rnd.Intn(8)]
			f.lookup(1, tok)
			shape += "R" + tok
		case c == 1 && len(refs) > 0:
			p := pick(refs)
			tok := tocOf(f.kern[p].ref)
			if rnd.Intn(12) == 0 {
				tok = "bad"
			}
			f.lookup(p, tok)
			shape += "L" + tok
		case c == 2 && len(lays) > 0:
			p := pick(lays)
			tok := []string{"diff", "diff", "blob", "blob", "info", "use", "other"}[rnd.Intn(7)]
			f.lookup(p, tok)
			shape += "F" + tok
		case c == 3 && len(lays) > 0:
			p := pick(lays)
			tok := "use"
			if rnd.Intn(8) == 0 {
				tok = "other"
			}
			f.create(p, tok)
			shape += "C" + tok
		case c == 4 && len(refs) > 0:
			// mostly release something that is in use through a ref directory the kernel holds
			var cands [][2]int
			for _, p := range refs {
				for kk, n := range f.uses {
					if n > 0 && kk.ref == f.kern[p].ref {
						cands = append(cands, [2]int{int(p), kk.x})
					}
				}
			}
			sort.Slice(cands, func(i, j int) bool {
				if cands[i][0] != cands[j][0] {
					return cands[i][0] < cands[j][0]
				}
				return cands[i][1] < cands[j][1]
			})
			if len(cands) > 0 && rnd.Intn(10) < 8 {
				c := cands[rnd.Intn(len(cands))]
				f.rmdir(uint64(c[0]), "t"+strconv.Itoa(c[1]))
				shape += "D+"
			} else {
				p := pick(refs)
				f.rmdir(p, tocOf(f.kern[p].ref))
				shape += "D"
			}
		case c == 5:
			id := pick(all)
			n := f.kern[id]
			kk := n.lookups
			if kk > 1 && rnd.Intn(3) == 0 {
				kk = 1 + uint64(rnd.Intn(int(kk)))
			}
			f.forget(id, kk)
			shape += "G" + n.kind
		default:
			// requests that reach nodes without the handler
			var cand []uint64
			for _, id := range all {
				if f.kern[id].kind != "diff" {
					cand = append(cand, id)
				}
			}
			if len(cand) == 0 {
				continue
			}
			p := pick(cand)
			n := f.kern[p]
			switch rnd.Intn(3) {
			case 0:
				if n.kind != "ref" && n.kind != "layer" {
					f.lookup(p, "diff")
					shape += "x"
				}
			case 1:
				if n.kind != "layer" {
					f.create(p, "use")
					shape += "y"
				}
			default:
				if silentMode {
					if n.kind == "layer" {
						f.rmdir(p, []string{"diff", "info", "blob"}[rnd.Intn(3)])
					} else if rnd.Intn(2) == 0 {
						f.rmdir(1, "r"+strconv.Itoa(rnd.Intn(3)))
					}
					shape += "z"
				}
			}
		}
	}
	f.drain()
	f.out.Distinct("sfs/" + shape)
}

func TestVerifC16b(t *testing.T) {
	log.SetLevel("panic")
	h := verifNewH(t)
	defer h.close()
	f := &verifFsH{verifH: h}
	f.handWrittenFs()
	n := verifutil.EnvInt("VERIF_N", 60)
	for k := 0; k < n; k++ {
		f.out.Comment(fmt.Sprintf("sfs history %d", k))
		f.randomFs(k)
	}
	if h.root != "" {
		os.RemoveAll(h.root)
	}
}
