//go:build verif

package externaltoc

// C19 harness: real layer converters (eStargz, zstd:chunked, external-TOC lossy and lossless) against a
// local content store.  Every claim of the returned descriptor is recomputed from the committed blob
// read back from the store (verifOracle*), independently of the Lean model.  Canonical lines are emitted
// for the media-type table and the contents of the TOC image for the Lean driver (svdriver_c19).

import (
	"archive/tar"
	"bytes"
	"compress/gzip"
	"context"
	"crypto/sha256"
	"encoding/hex"
	"encoding/json"
	"errors"
	"fmt"
	"io"
	"os"
	"os/exec"
	"regexp"
	"sort"
	"strings"
	"sync"
	"testing"
	"time"

	"github.com/containerd/containerd/v2/core/content"
	"github.com/containerd/containerd/v2/core/images"
	"github.com/containerd/containerd/v2/core/images/converter"
	"github.com/containerd/containerd/v2/pkg/labels"
	"github.com/containerd/containerd/v2/plugins/content/local"
	"github.com/containerd/platforms"
	"github.com/containerd/stargz-snapshotter/estargz"
	esgzexternaltoc "github.com/containerd/stargz-snapshotter/estargz/externaltoc"
	esgzzstd "github.com/containerd/stargz-snapshotter/estargz/zstdchunked"
	"github.com/containerd/stargz-snapshotter/internal/verifutil"
	"github.com/containerd/stargz-snapshotter/metadata"
	memorymetadata "github.com/containerd/stargz-snapshotter/metadata/memory"
	estargzconvert "github.com/containerd/stargz-snapshotter/nativeconverter/estargz"
	zstdconvert "github.com/containerd/stargz-snapshotter/nativeconverter/zstdchunked"
	"github.com/klauspost/compress/zstd"
	"github.com/opencontainers/go-digest"
	ocispecs "github.com/opencontainers/image-spec/specs-go"
	ocispec "github.com/opencontainers/image-spec/specs-go/v1"
)

const (
	verifLayerDigestAnn = "containerd.io/snapshot/stargz/layer.digest"

	// Signatures with a history (findings/known_findings.txt):
	//  known  : verifSigZstdKept, verifSigLabelPreexist — their inputs are generated only by the
	//           separate pass TestVerifC19Known;
	//  fixed  : the shared-opts signatures (27b6c79) — the scenarios stay in the main pass and any
	//           failure of them is a violation again.
	verifSigZstdKept      = "gzip-converter-keeps-zstd-mediatype"
	verifSigLabelPreexist = "uncompressed-label-missing-preexisting-blob"
	verifSigSharedExt     = "shared-opts-slice-externaltoc"
	verifSigSharedZstd    = "shared-opts-slice-zstdchunked"
	verifSigSharedEsgz    = "shared-opts-slice-estargz"
	// Not clauses of C19, recorded as evidence notes only (stats keys "note:..."):
	verifNoteStaleZstdAnn = "note:gzip-blob-keeps-zstdchunked-annotations"
	verifNoteNonLayer     = "note:externaltoc-nonlayer-mediatype"
)

// ---------------------------------------------------------------------------------------------
// store

type verifLabelStore struct {
	mu sync.Mutex
	m  map[digest.Digest]map[string]string
}

func (s *verifLabelStore) Get(d digest.Digest) (map[string]string, error) {
	s.mu.Lock()
	defer s.mu.Unlock()
	out := map[string]string{}
	for k, v := range s.m[d] {
		out[k] = v
	}
	return out, nil
}

func (s *verifLabelStore) Set(d digest.Digest, l map[string]string) error {
	s.mu.Lock()
	defer s.mu.Unlock()
	c := map[string]string{}
	for k, v := range l {
		c[k] = v
	}
	s.m[d] = c
	return nil
}

func (s *verifLabelStore) Update(d digest.Digest, u map[string]string) (map[string]string, error) {
	s.mu.Lock()
	defer s.mu.Unlock()
	c := map[string]string{}
	for k, v := range s.m[d] {
		c[k] = v
	}
	for k, v := range u {
		if v == "" {
			delete(c, k)
		} else {
			c[k] = v
		}
	}
	s.m[d] = c
	return c, nil
}

func verifNewStore(t *testing.T) content.Store {
	cs, err := local.NewLabeledStore(t.TempDir(), &verifLabelStore{m: map[digest.Digest]map[string]string{}})
	if err != nil {
		t.Fatal(err)
	}
	return cs
}

// verifFailStore interrupts ingests: a writer whose ref has the given prefix fails after `after` bytes.
type verifFailStore struct {
	content.Store
	prefix string
	after  int64
}

func (s *verifFailStore) Writer(ctx context.Context, opts ...content.WriterOpt) (content.Writer, error) {
	var wo content.WriterOpts
	for _, o := range opts {
		if err := o(&wo); err != nil {
			return nil, err
		}
	}
	w, err := s.Store.Writer(ctx, opts...)
	if err != nil {
		return nil, err
	}
	if strings.HasPrefix(wo.Ref, s.prefix) {
		return &verifFailWriter{Writer: w, left: s.after}, nil
	}
	return w, nil
}

type verifFailWriter struct {
	content.Writer
	left int64
}

var errVerifInterrupted = errors.New("verif: interrupted")

func (w *verifFailWriter) Write(p []byte) (int, error) {
	if int64(len(p)) > w.left {
		n, _ := w.Writer.Write(p[:w.left])
		w.left = 0
		return n, errVerifInterrupted
	}
	w.left -= int64(len(p))
	return w.Writer.Write(p)
}

// verifBarrierStore lines concurrent conversions up right before their write to the shared TOC map:
// the last store operation before `esgzDigest2TOC[...] = ...` is the deferred second Close of the
// external-TOC writer; every conversion waits there until all n have arrived (or a timeout passes).
type verifBarrierStore struct {
	content.Store
	n       int
	mu      sync.Mutex
	arrived int
	release chan struct{}
}

func (s *verifBarrierStore) Writer(ctx context.Context, opts ...content.WriterOpt) (content.Writer, error) {
	var wo content.WriterOpts
	for _, o := range opts {
		if err := o(&wo); err != nil {
			return nil, err
		}
	}
	w, err := s.Store.Writer(ctx, opts...)
	if err != nil {
		return nil, err
	}
	if strings.HasPrefix(wo.Ref, "external-toc") {
		return &verifBarrierWriter{Writer: w, s: s}, nil
	}
	return w, nil
}

type verifBarrierWriter struct {
	content.Writer
	s      *verifBarrierStore
	closes int
}

func (w *verifBarrierWriter) Close() error {
	err := w.Writer.Close()
	w.closes++
	if w.closes == 2 {
		w.s.mu.Lock()
		w.s.arrived++
		if w.s.arrived == w.s.n {
			close(w.s.release)
		}
		w.s.mu.Unlock()
		select {
		case <-w.s.release:
		case <-time.After(20 * time.Second):
		}
	}
	return err
}

func verifReadBlob(cs content.Store, d digest.Digest) ([]byte, error) {
	ctx := context.Background()
	ra, err := cs.ReaderAt(ctx, ocispec.Descriptor{Digest: d})
	if err != nil {
		return nil, err
	}
	defer ra.Close()
	b := make([]byte, ra.Size())
	if _, err := io.ReadFull(io.NewSectionReader(ra, 0, ra.Size()), b); err != nil {
		return nil, err
	}
	return b, nil
}

func verifSha(b []byte) digest.Digest {
	h := sha256.Sum256(b)
	return digest.NewDigestFromBytes(digest.SHA256, h[:])
}

// ---------------------------------------------------------------------------------------------
// source layers

type verifFile struct {
	name string
	data []byte
}

// verifRandTar builds a small random layer tar (dirs, regular files of assorted sizes incl. empty and
// multi-chunk ones, symlinks, hard links, xattrs) and returns it with its regular files.
func verifRandTar(rnd *verifutil.Rand, salt string) ([]byte, []verifFile) {
	var buf bytes.Buffer
	tw := tar.NewWriter(&buf)
	var files []verifFile
	mt := time.Unix(1600000000+int64(rnd.Intn(1000000)), 0)
	ndirs := 1 + rnd.Intn(3)
	var dirs []string
	for i := 0; i < ndirs; i++ {
		d := fmt.Sprintf("d%d%s/", i, salt)
		dirs = append(dirs, d)
		tw.WriteHeader(&tar.Header{Typeflag: tar.TypeDir, Name: d, Mode: 0755, ModTime: mt})
	}
	nfiles := 1 + rnd.Intn(6)
	for i := 0; i < nfiles; i++ {
		var size int
		switch rnd.Pick(2, 5, 3, 1) {
		case 0:
			size = 0
		case 1:
			size = 1 + rnd.Intn(600)
		case 2:
			size = 3000 + rnd.Intn(9000)
		default:
			size = 20000 + rnd.Intn(30000)
		}
		data := make([]byte, size)
		if rnd.Bool() { // compressible
			pat := rnd.Bytes(1 + rnd.Intn(40))
			for j := range data {
				data[j] = pat[j%len(pat)]
			}
		} else {
			copy(data, rnd.Bytes(size))
		}
		name := fmt.Sprintf("%sf%d", dirs[rnd.Intn(len(dirs))], i)
		h := &tar.Header{Typeflag: tar.TypeReg, Name: name, Mode: int64(0600 + rnd.Intn(0200)), Size: int64(size),
			ModTime: mt, Uid: rnd.Intn(3), Gid: rnd.Intn(3)}
		if rnd.Intn(5) == 0 {
			h.PAXRecords = map[string]string{"SCHILY.xattr.user.verif": fmt.Sprintf("v%d", rnd.Intn(100))}
			h.Format = tar.FormatPAX
		}
		tw.WriteHeader(h)
		tw.Write(data)
		files = append(files, verifFile{name, data})
	}
	if rnd.Bool() {
		tw.WriteHeader(&tar.Header{Typeflag: tar.TypeSymlink, Name: dirs[0] + "sl", Linkname: "f0", Mode: 0777, ModTime: mt})
	}
	if rnd.Bool() {
		tw.WriteHeader(&tar.Header{Typeflag: tar.TypeLink, Name: dirs[0] + "hl", Linkname: files[0].name, Mode: 0644, ModTime: mt})
	}
	tw.Close()
	return buf.Bytes(), files
}

func verifGzip(b []byte, level int) []byte {
	var out bytes.Buffer
	w, _ := gzip.NewWriterLevel(&out, level)
	w.Write(b)
	w.Close()
	return out.Bytes()
}

func verifZstd(b []byte) []byte {
	var out bytes.Buffer
	w, _ := zstd.NewWriter(&out)
	w.Write(b)
	w.Close()
	return out.Bytes()
}

// verifSniff names the compression a blob really uses (magic bytes).
func verifSniff(b []byte) string {
	if len(b) >= 2 && b[0] == 0x1f && b[1] == 0x8b {
		return "gzip"
	}
	if len(b) >= 4 && b[0] == 0x28 && b[1] == 0xb5 && b[2] == 0x2f && b[3] == 0xfd {
		return "zstd"
	}
	if len(b) >= 4 && b[0]&0xf0 == 0x50 && b[1] == 0x2a && b[2] == 0x4d && b[3] == 0x18 { // skippable frame
		return "zstd"
	}
	return "none"
}

// verifDecompress fully decompresses a blob with the codec its magic names (independent of the
// converters' own counting): all gzip members / all zstd frames, skippable frames skipped.
func verifDecompress(b []byte) ([]byte, error) {
	switch verifSniff(b) {
	case "gzip":
		zr, err := gzip.NewReader(bytes.NewReader(b))
		if err != nil {
			return nil, err
		}
		return io.ReadAll(zr)
	case "zstd":
		zr, err := zstd.NewReader(bytes.NewReader(b))
		if err != nil {
			return nil, err
		}
		defer zr.Close()
		return io.ReadAll(zr)
	}
	return b, nil
}

// media types of the table; must be the list MT.all of the model (the driver answers bad-op otherwise
// and `rows` compares the number).
var verifMediaTypes = []struct {
	mt   string
	comp string // natural content: none | gzip | zstd | json
}{
	{images.MediaTypeDockerSchema2Layer, "none"},
	{images.MediaTypeDockerSchema2LayerGzip, "gzip"},
	{images.MediaTypeDockerSchema2LayerZstd, "zstd"},
	{images.MediaTypeDockerSchema2LayerForeign, "none"},
	{images.MediaTypeDockerSchema2LayerForeignGzip, "gzip"},
	{"application/vnd.docker.image.rootfs.foreign.diff.tar.zstd", "zstd"},
	{ocispec.MediaTypeImageLayer, "none"},
	{ocispec.MediaTypeImageLayerGzip, "gzip"},
	{ocispec.MediaTypeImageLayerZstd, "zstd"},
	{ocispec.MediaTypeImageLayerNonDistributable, "none"},     //nolint:staticcheck
	{ocispec.MediaTypeImageLayerNonDistributableGzip, "gzip"}, //nolint:staticcheck
	{ocispec.MediaTypeImageLayerNonDistributableZstd, "zstd"}, //nolint:staticcheck
	{images.MediaTypeDockerSchema2Manifest, "json"},
	{images.MediaTypeDockerSchema2ManifestList, "json"},
	{images.MediaTypeDockerSchema2Config, "json"},
	{ocispec.MediaTypeImageManifest, "json"},
	{ocispec.MediaTypeImageIndex, "json"},
	{ocispec.MediaTypeImageConfig, "json"},
	{"application/octet-stream", "json"},
}

var verifLayerTypes = []int{0, 1, 2, 3, 4, 6, 7, 8, 9, 10, 11} // indices of verifMediaTypes that containerd treats as layers

func verifMTComp(mt string) string {
	switch {
	case strings.HasSuffix(mt, "gzip"):
		return "gzip"
	case strings.HasSuffix(mt, "zstd"):
		return "zstd"
	case strings.HasSuffix(mt, ".tar"):
		return "none"
	}
	return "?"
}

type verifSrc struct {
	desc   ocispec.Descriptor
	blob   []byte
	stream []byte // decompressed source
	files  []verifFile
	comp   string
	kind   string // plain | esgz | zstdchunked | exttoc (already-converted input)
	nolabel bool
}

// verifPut ingests a source blob; labels as a pull would leave them (random subset).
func verifPut(t *testing.T, cs content.Store, rnd *verifutil.Rand, blob []byte, mt string, stream []byte) (ocispec.Descriptor, bool) {
	d := verifSha(blob)
	desc := ocispec.Descriptor{MediaType: mt, Digest: d, Size: int64(len(blob))}
	lbl := map[string]string{}
	nolabel := true
	if rnd.Intn(3) != 0 && stream != nil {
		lbl[labels.LabelUncompressed] = verifSha(stream).String()
		nolabel = false
	}
	if rnd.Bool() {
		lbl["containerd.io/distribution.source.reg.test"] = "library/verif"
	}
	ref := fmt.Sprintf("verif-put-%s-%d", d.Encoded(), rnd.Uint64())
	err := content.WriteBlob(context.Background(), cs, ref, bytes.NewReader(blob), desc, content.WithLabels(lbl))
	if err != nil {
		t.Fatalf("put: %v", err)
	}
	if info, err := cs.Info(context.Background(), d); err == nil {
		_, has := info.Labels[labels.LabelUncompressed]
		nolabel = !has
	}
	return desc, nolabel
}

func verifEncode(raw []byte, comp string, rnd *verifutil.Rand) []byte {
	switch comp {
	case "gzip":
		return verifGzip(raw, 1+rnd.Intn(9))
	case "zstd":
		return verifZstd(raw)
	}
	return raw
}

func verifNewSrc(t *testing.T, cs content.Store, rnd *verifutil.Rand, mt, comp, salt string) *verifSrc {
	raw, files := verifRandTar(rnd, salt)
	blob := verifEncode(raw, comp, rnd)
	desc, nolabel := verifPut(t, cs, rnd, blob, mt, raw)
	return &verifSrc{desc: desc, blob: blob, stream: raw, files: files, comp: comp, kind: "plain", nolabel: nolabel}
}

// verifNewConvertedSrc makes an already-converted input layer with the library builders (not with the
// converters under test).
func verifNewConvertedSrc(t *testing.T, cs content.Store, rnd *verifutil.Rand, kind, salt string, docker bool) *verifSrc {
	raw, files := verifRandTar(rnd, salt)
	sr := io.NewSectionReader(bytes.NewReader(raw), 0, int64(len(raw)))
	var opts []estargz.Option
	mt := ocispec.MediaTypeImageLayerGzip
	if docker {
		mt = images.MediaTypeDockerSchema2LayerGzip
	}
	ann := map[string]string{}
	meta := map[string]string{}
	switch kind {
	case "zstdchunked":
		opts = append(opts, estargz.WithCompression(&verifZstdCompression{new(esgzzstd.Decompressor),
			&esgzzstd.Compressor{CompressionLevel: zstd.SpeedDefault, Metadata: meta}}))
		mt = ocispec.MediaTypeImageLayerZstd
	case "exttoc":
		opts = append(opts, estargz.WithCompression(esgzexternaltoc.NewGzipCompressionWithLevel(nil, gzip.BestSpeed)))
	}
	b, err := estargz.Build(sr, opts...)
	if err != nil {
		t.Fatalf("prebuild: %v", err)
	}
	blob, err := io.ReadAll(b)
	if err != nil {
		t.Fatalf("prebuild read: %v", err)
	}
	b.Close()
	ann[estargz.TOCJSONDigestAnnotation] = b.TOCDigest().String()
	for k, v := range meta {
		ann[k] = v
	}
	stream, err := verifDecompress(blob)
	if err != nil {
		t.Fatalf("prebuild decompress: %v", err)
	}
	desc, nolabel := verifPut(t, cs, rnd, blob, mt, stream)
	desc.Annotations = ann
	return &verifSrc{desc: desc, blob: blob, stream: stream, files: files, comp: verifSniff(blob), kind: kind, nolabel: nolabel}
}

type verifZstdCompression struct {
	*esgzzstd.Decompressor
	*esgzzstd.Compressor
}

// ---------------------------------------------------------------------------------------------
// converters under test

type verifConv struct {
	target   string // esgz | zstdchunked | exttoc | exttoc-lossless
	variant  string
	fn       converter.ConvertFunc
	finalize func(ctx context.Context, cs content.Store, ref string, desc *ocispec.Descriptor) (*images.Image, error)
	optDesc  string
	// docker2oci: the result went through containerd's Docker->OCI media type rewriting
	docker2oci bool
	// minChunk: the MinChunkSize in effect for a source digest (<=0: none)
	minChunk func(digest.Digest) int
	// finalizeDesc: the converted image handed to finalize (nil: none, as for bare layer conversions)
	finalizeDesc *ocispec.Descriptor
}

func (c *verifConv) gzipTarget() bool { return c.target != "zstdchunked" }

// exact returns a slice without spare capacity (appending to it always copies).
func verifExact(o []estargz.Option) []estargz.Option {
	if len(o) == 0 {
		return nil
	}
	c := make([]estargz.Option, len(o))
	copy(c, o)
	return c
}

// verifRandOpts: random common build options; names of prioritized files are drawn from `files`.
// Prioritized files are only drawn when `prio` (the option list is used for exactly one layer, whose
// files they are): a prioritized file that is missing fails the build, and the documented escape
// (WithAllowPrioritizeNotFound) hands ONE slice pointer to every build using the options.
func verifRandOpts(rnd *verifutil.Rand, files []string, zstdTarget bool, prio bool) ([]estargz.Option, string, int) {
	var o []estargz.Option
	var d []string
	minChunk := -1
	if rnd.Intn(3) != 0 {
		cs := []int{0, 1000, 4096, 16384, 50000}[rnd.Intn(5)]
		if zstdTarget && cs == 1000 {
			cs = 8192 // a zstd encoder per chunk is expensive; keep the zstd runs affordable
		}
		o = append(o, estargz.WithChunkSize(cs))
		d = append(d, fmt.Sprintf("chunk=%d", cs))
	}
	if rnd.Intn(4) == 0 {
		ms := []int{0, 2000, 10000, 60000}[rnd.Intn(4)]
		o = append(o, estargz.WithMinChunkSize(ms))
		d = append(d, fmt.Sprintf("minchunk=%d", ms))
		minChunk = ms
	}
	if !zstdTarget && rnd.Bool() {
		l := 1 + rnd.Intn(9)
		o = append(o, estargz.WithCompressionLevel(l))
		d = append(d, fmt.Sprintf("level=%d", l))
	}
	if prio && len(files) > 0 && rnd.Intn(3) == 0 {
		var p []string
		for _, f := range files {
			if rnd.Bool() {
				p = append(p, f)
			}
		}
		o = append(o, estargz.WithPrioritizedFiles(p))
		d = append(d, fmt.Sprintf("prio=%d", len(p)))
	}
	if rnd.Bool() {
		w := 1 + rnd.Intn(3)
		o = append(o, estargz.WithParallelism(w))
		d = append(d, fmt.Sprintf("par=%d", w))
	}
	return o, strings.Join(d, ","), minChunk
}

func verifFileNames(srcs []*verifSrc) []string {
	var n []string
	for _, s := range srcs {
		for _, f := range s.files {
			n = append(n, f.name)
		}
	}
	return n
}

// verifNewConv creates ONE converter instance of the given target with random common and per-layer
// options for the given sources.  spare=true hands the option slices over with spare capacity (the
// way cmd/ctr-remote builds them); the main stream uses exact-capacity slices.
func verifNewConv(rnd *verifutil.Rand, target string, srcs []*verifSrc, spare bool) *verifConv {
	names := verifFileNames(srcs)
	common, cd, commonMin := verifRandOpts(rnd, names, target == "zstdchunked", len(srcs) == 1)
	layerMin := map[digest.Digest]int{}
	shape := func(o []estargz.Option) []estargz.Option {
		if spare {
			c := make([]estargz.Option, len(o), len(o)+8)
			copy(c, o)
			return c
		}
		return verifExact(o)
	}
	perLayer := map[digest.Digest][]estargz.Option{}
	pd := 0
	for _, s := range srcs {
		if rnd.Intn(3) == 0 {
			var fn []string
			for _, f := range s.files {
				fn = append(fn, f.name)
			}
			o, _, m := verifRandOpts(rnd, fn, target == "zstdchunked", true)
			perLayer[s.desc.Digest] = shape(o)
			layerMin[s.desc.Digest] = m
			pd++
		}
	}
	c := &verifConv{target: target}
	withLayer := func(d digest.Digest) int { // per-layer options are applied after the common ones
		if m, ok := layerMin[d]; ok && m >= 0 {
			return m
		}
		return commonMin
	}
	onlyCommon := func(digest.Digest) int { return commonMin }
	c.minChunk = onlyCommon
	switch target {
	case "esgz":
		if rnd.Bool() {
			c.variant = "LayerConvertFunc"
			c.fn = estargzconvert.LayerConvertFunc(shape(common)...)
		} else {
			c.minChunk = withLayer
			c.variant = "LayerConvertWithLayerAndCommonOptsFunc"
			c.fn = estargzconvert.LayerConvertWithLayerAndCommonOptsFunc(perLayer, shape(common)...)
			cd += fmt.Sprintf(" perlayer=%d", pd)
		}
	case "zstdchunked":
		lv := []zstd.EncoderLevel{zstd.SpeedFastest, zstd.SpeedDefault}[rnd.Intn(2)]
		// all variants; since 27b6c79 each of them may convert layers in parallel
		switch rnd.Intn(4) {
		case 0:
			c.variant = "LayerConvertFuncWithCompressionLevel"
			c.fn = zstdconvert.LayerConvertFuncWithCompressionLevel(lv, shape(common)...)
		case 1:
			c.variant = "LayerConvertFunc"
			c.fn = zstdconvert.LayerConvertFunc(shape(common)...)
		default:
			// the per-layer variants take no common options; layers without an entry get none
			for _, s := range srcs {
				if _, ok := perLayer[s.desc.Digest]; !ok && rnd.Bool() {
					perLayer[s.desc.Digest] = shape(common)
					layerMin[s.desc.Digest] = commonMin
				}
			}
			c.minChunk = func(d digest.Digest) int { return layerMin[d] }
			cd += fmt.Sprintf(" perlayer=%d", len(perLayer))
			if rnd.Bool() {
				c.variant = "LayerConvertWithLayerOptsFuncWithCompressionLevel"
				c.fn = zstdconvert.LayerConvertWithLayerOptsFuncWithCompressionLevel(lv, perLayer)
			} else {
				c.variant = "LayerConvertWithLayerOptsFunc"
				c.fn = zstdconvert.LayerConvertWithLayerOptsFunc(perLayer)
			}
		}
	case "exttoc":
		lv := 1 + rnd.Intn(9)
		if rnd.Bool() {
			c.variant = "LayerConvertFunc"
			c.fn, c.finalize = LayerConvertFunc(shape(common), lv)
		} else {
			c.minChunk = withLayer
			c.variant = "LayerConvertWithLayerAndCommonOptsFunc"
			c.fn, c.finalize = LayerConvertWithLayerAndCommonOptsFunc(perLayer, shape(common), lv)
			cd += fmt.Sprintf(" perlayer=%d", pd)
		}
	case "exttoc-lossless":
		cfg := LayerConvertLossLessConfig{CompressionLevel: 1 + rnd.Intn(9),
			ChunkSize: []int{0, 1000, 4096, 50000}[rnd.Intn(4)], MinChunkSize: []int{0, 0, 3000}[rnd.Intn(3)]}
		c.variant = "LayerConvertLossLessFunc"
		c.fn, c.finalize = LayerConvertLossLessFunc(cfg)
		c.minChunk = func(digest.Digest) int { return cfg.MinChunkSize }
		cd = fmt.Sprintf("level=%d,chunk=%d,minchunk=%d", cfg.CompressionLevel, cfg.ChunkSize, cfg.MinChunkSize)
	}
	c.optDesc = cd
	return c
}

// ---------------------------------------------------------------------------------------------
// oracle

type verifReport interface {
	Fail(sig, what string)
	Count(k string)
}

// verifOracleDesc recomputes everything the descriptor claims from the committed blob.
// Returns the external TOC-free facts needed later (decompressed stream).
func verifOracleDesc(rep verifReport, cs content.Store, c *verifConv, src *verifSrc, nd *ocispec.Descriptor, extTOC []byte, where string) {
	ctx := context.Background()
	id := fmt.Sprintf("%s %s/%s src=%s(%s,%s) opts=%s", where, c.target, c.variant, src.desc.MediaType, src.comp, src.kind, c.optDesc)
	blob, err := verifReadBlob(cs, nd.Digest)
	if err != nil {
		rep.Fail("desc-digest-not-in-store", fmt.Sprintf("%s: descriptor digest %s is not a committed blob: %v", id, nd.Digest, err))
		return
	}
	if got := verifSha(blob); got != nd.Digest {
		rep.Fail("desc-digest-mismatch", fmt.Sprintf("%s: stored blob hashes to %s, descriptor says %s", id, got, nd.Digest))
	}
	if int64(len(blob)) != nd.Size {
		rep.Fail("desc-size-mismatch", fmt.Sprintf("%s: stored blob has %d bytes, descriptor says %d (source size %d)", id, len(blob), nd.Size, src.desc.Size))
	}
	// media type vs. the compression really used
	actual := verifSniff(blob)
	want := "gzip"
	if !c.gzipTarget() {
		want = "zstd"
	}
	if actual != want {
		rep.Fail("blob-compression-not-target", fmt.Sprintf("%s: blob is %s, converter writes %s", id, actual, want))
	}
	if mc := verifMTComp(nd.MediaType); mc != actual {
		sig := "mediatype-compression-mismatch"
		if c.gzipTarget() && verifMTComp(src.desc.MediaType) == "zstd" && actual == "gzip" && nd.MediaType == src.desc.MediaType {
			sig = verifSigZstdKept
		}
		rep.Fail(sig, fmt.Sprintf("%s: media type %q announces %s but the blob is %s", id, nd.MediaType, mc, actual))
	}
	if !images.IsLayerType(nd.MediaType) {
		rep.Fail("mediatype-not-a-layer", fmt.Sprintf("%s: %q", id, nd.MediaType))
	}
	if images.IsNonDistributable(nd.MediaType) != images.IsNonDistributable(src.desc.MediaType) {
		rep.Fail("mediatype-distributability-changed", fmt.Sprintf("%s: %q -> %q", id, src.desc.MediaType, nd.MediaType))
	}
	if c.gzipTarget() && !c.docker2oci {
		if images.IsDockerType(nd.MediaType) != images.IsDockerType(src.desc.MediaType) {
			rep.Fail("mediatype-family-changed", fmt.Sprintf("%s: %q -> %q", id, src.desc.MediaType, nd.MediaType))
		}
	} else if images.IsDockerType(nd.MediaType) {
		rep.Fail("mediatype-family-changed", fmt.Sprintf("%s: zstd:chunked result has Docker type %q", id, nd.MediaType))
	}
	// decompressed stream: size annotation and store label
	stream, err := verifDecompress(blob)
	if err != nil {
		rep.Fail("blob-does-not-decompress", fmt.Sprintf("%s: %v", id, err))
		return
	}
	if a := nd.Annotations[estargz.StoreUncompressedSizeAnnotation]; a != fmt.Sprintf("%d", len(stream)) {
		rep.Fail("uncompressed-size-annotation-mismatch", fmt.Sprintf("%s: annotation %q, decompressed blob has %d bytes (source stream %d)", id, a, len(stream), len(src.stream)))
	}
	info, err := cs.Info(ctx, nd.Digest)
	if err != nil {
		rep.Fail("desc-digest-not-in-store", fmt.Sprintf("%s: Info: %v", id, err))
		return
	}
	if l := info.Labels[labels.LabelUncompressed]; l != verifSha(stream).String() {
		sig := "uncompressed-label-mismatch"
		if l == "" && nd.Digest == src.desc.Digest && src.nolabel {
			sig = verifSigLabelPreexist
		}
		rep.Fail(sig, fmt.Sprintf("%s: label %q, SHA-256 of the decompressed blob is %s", id, l, verifSha(stream)))
	}
	// TOC digest annotation: the digest under which Open + VerifyTOC succeed
	var dec metadata.Decompressor
	switch {
	case !c.gzipTarget():
		dec = new(esgzzstd.Decompressor)
	case extTOC != nil:
		dec = esgzexternaltoc.NewGzipDecompressor(func() ([]byte, error) { return extTOC, nil })
	default:
		dec = new(estargz.GzipDecompressor)
	}
	tocAnn := nd.Annotations[estargz.TOCJSONDigestAnnotation]
	if c.finalize != nil && extTOC == nil {
		// external TOC not known yet (checked after finalize); nothing to open here
	} else {
		r, err := estargz.Open(io.NewSectionReader(bytes.NewReader(blob), 0, int64(len(blob))), estargz.WithDecompressors(dec))
		if err != nil {
			rep.Fail("converted-blob-does-not-open", fmt.Sprintf("%s: %v", id, err))
			return
		}
		td, perr := digest.Parse(tocAnn)
		if perr != nil {
			rep.Fail("toc-annotation-does-not-verify", fmt.Sprintf("%s: annotation %q: %v", id, tocAnn, perr))
		} else {
			if r.TOCDigest() != td {
				rep.Fail("toc-annotation-does-not-verify", fmt.Sprintf("%s: annotation %s, the TOC of the blob hashes to %s", id, td, r.TOCDigest()))
			} else if _, err := r.VerifyTOC(td); err != nil {
				mc := 0
				if c.minChunk != nil {
					mc = c.minChunk(src.desc.Digest)
				}
				rep.Fail("toc-annotation-does-not-verify", fmt.Sprintf("%s: VerifyTOC(%s): %v (MinChunkSize in effect: %d)", id, td, err, mc))
			}
			// the mount path: metadata reader over the same bytes
			mr, err := memorymetadata.NewReader(io.NewSectionReader(bytes.NewReader(blob), 0, int64(len(blob))), metadata.WithDecompressors(dec))
			if err != nil {
				rep.Fail("converted-blob-does-not-mount", fmt.Sprintf("%s: %v", id, err))
			} else {
				if mr.TOCDigest() != td {
					rep.Fail("toc-annotation-does-not-mount", fmt.Sprintf("%s: annotation %s, metadata reader sees TOC %s", id, td, mr.TOCDigest()))
				}
				mr.Close()
			}
		}
		if _, err := r.VerifyTOC(verifSha([]byte("not the toc"))); err == nil {
			rep.Fail("verifytoc-accepts-anything", id)
		}
		// every source file is served with its bytes
		for _, f := range src.files {
			fr, err := r.OpenFile(f.name)
			if err != nil {
				rep.Fail("converted-file-missing", fmt.Sprintf("%s: %s: %v", id, f.name, err))
				continue
			}
			got, err := io.ReadAll(fr)
			if err != nil || !bytes.Equal(got, f.data) {
				rep.Fail("converted-file-differs", fmt.Sprintf("%s: %s: err=%v len=%d want %d", id, f.name, err, len(got), len(f.data)))
			}
		}
	}
	// zstd:chunked manifest annotations describe this blob's footer
	if !c.gzipTarget() {
		verifOracleZstdManifest(rep, id, blob, nd)
	} else {
		for _, k := range []string{esgzzstd.ManifestChecksumAnnotation, esgzzstd.ManifestPositionAnnotation} {
			if _, ok := nd.Annotations[k]; ok {
				rep.Count(verifNoteStaleZstdAnn) // extra annotations are not a clause of C19
			}
		}
	}
	// lossless: DiffID and bytes unchanged
	if c.target == "exttoc-lossless" {
		if verifSha(stream) != verifSha(src.stream) || !bytes.Equal(stream, src.stream) {
			rep.Fail("lossless-stream-differs", fmt.Sprintf("%s: DiffID %s, source DiffID %s (%d vs %d bytes)", id, verifSha(stream), verifSha(src.stream), len(stream), len(src.stream)))
		}
	}
}

func verifOracleZstdManifest(rep verifReport, id string, blob []byte, nd *ocispec.Descriptor) {
	if len(blob) < esgzzstd.FooterSize {
		rep.Fail("zstdchunked-manifest-annotation-mismatch", id+": blob shorter than a footer")
		return
	}
	_, tocOff, tocSize, err := new(esgzzstd.Decompressor).ParseFooter(blob[len(blob)-esgzzstd.FooterSize:])
	if err != nil {
		rep.Fail("zstdchunked-manifest-annotation-mismatch", fmt.Sprintf("%s: footer: %v", id, err))
		return
	}
	if tocOff < 0 || tocOff+tocSize > int64(len(blob)) {
		rep.Fail("zstdchunked-manifest-annotation-mismatch", fmt.Sprintf("%s: footer points outside the blob", id))
		return
	}
	ctoc := blob[tocOff : tocOff+tocSize]
	zr, err := zstd.NewReader(bytes.NewReader(ctoc))
	if err != nil {
		rep.Fail("zstdchunked-manifest-annotation-mismatch", fmt.Sprintf("%s: %v", id, err))
		return
	}
	raw, err := io.ReadAll(zr)
	zr.Close()
	if err != nil {
		rep.Fail("zstdchunked-manifest-annotation-mismatch", fmt.Sprintf("%s: toc: %v", id, err))
		return
	}
	wantPos := fmt.Sprintf("%d:%d:%d:%d", tocOff, len(ctoc), len(raw), 1)
	if got := nd.Annotations[esgzzstd.ManifestPositionAnnotation]; got != wantPos {
		rep.Fail("zstdchunked-manifest-annotation-mismatch", fmt.Sprintf("%s: position annotation %q, the blob's footer says %q", id, got, wantPos))
	}
	if got := nd.Annotations[esgzzstd.ManifestChecksumAnnotation]; got != verifSha(ctoc).String() {
		rep.Fail("zstdchunked-manifest-annotation-mismatch", fmt.Sprintf("%s: checksum annotation %q, the blob's compressed TOC hashes to %s", id, got, verifSha(ctoc)))
	}
	if got := nd.Annotations[estargz.TOCJSONDigestAnnotation]; got != verifSha(raw).String() {
		rep.Fail("toc-annotation-does-not-verify", fmt.Sprintf("%s: TOC annotation %q, the TOC JSON in the blob hashes to %s", id, got, verifSha(raw)))
	}
}

// Optional hooks into UNEXPORTED identifiers of the package under test.  They are set by
// zz_verif_xc19hooks_test.go, which is compiled in only when it still builds against /repo (a
// refactor may rename what it uses); this file depends on the exported API only.
var (
	// the snapshotter's own manifest lookup (fetcher.go fetchTOCBlobFromManifest)
	verifHookFetch func(ctx context.Context, cs content.Store, mf ocispec.Manifest, layer digest.Digest) ([]byte, error)
	// a lossless external-TOC converter whose data writer is wrapped by `wrap` (fault injection)
	verifHookLosslessWith func(wrap func(*esgzexternaltoc.GzipCompression) estargz.Compressor, chunk, level int) (converter.ConvertFunc, func(context.Context, content.Store, string, *ocispec.Descriptor) (*images.Image, error))
)

// verifLookupTOC is the documented lookup of a layer's TOC in the TOC image: the first manifest layer
// whose "containerd.io/snapshot/stargz/layer.digest" annotation names the layer; its blob is the TOC.
func verifLookupTOC(cs content.Store, mf ocispec.Manifest, layer digest.Digest) ([]byte, error) {
	for _, l := range mf.Layers {
		if l.Annotations[verifLayerDigestAnn] == layer.String() {
			return verifReadBlob(cs, l.Digest)
		}
	}
	return nil, errors.New("TOC not found")
}

type verifStoreFetcher struct{ cs content.Store }

func (f verifStoreFetcher) Fetch(ctx context.Context, desc ocispec.Descriptor) (io.ReadCloser, error) {
	b, err := verifReadBlob(f.cs, desc.Digest)
	if err != nil {
		return nil, err
	}
	return io.NopCloser(bytes.NewReader(b)), nil
}

type verifDone struct {
	src *verifSrc
	nd  *ocispec.Descriptor
}

type verifEmitter interface {
	verifReport
	Emit(op, res string) int
	Comment(c string)
	Count(k string)
}

// verifOracleTOCImage: finalize, then check that the TOC image maps EVERY converted layer digest to a
// TOC blob under which that layer opens and verifies; emits the map contents for the driver.
func verifOracleTOCImage(out verifEmitter, rnd *verifutil.Rand, cs content.Store, c *verifConv, done []verifDone, where string) {
	ctx := context.Background()
	id := fmt.Sprintf("%s %s/%s", where, c.target, c.variant)
	ref := fmt.Sprintf("reg.test/verif/img%d:v%d", rnd.Intn(100), rnd.Intn(100))
	img, err := c.finalize(ctx, cs, ref, c.finalizeDesc)
	if err != nil {
		out.Fail("finalize-error", fmt.Sprintf("%s: %v", id, err))
		return
	}
	if img.Name != ref+"-esgztoc" {
		out.Fail("tocimage-name", fmt.Sprintf("%s: %q for %q", id, img.Name, ref))
	}
	mb, err := verifReadBlob(cs, img.Target.Digest)
	if err != nil {
		out.Fail("tocimage-manifest-not-in-store", fmt.Sprintf("%s: %v", id, err))
		return
	}
	if verifSha(mb) != img.Target.Digest || int64(len(mb)) != img.Target.Size || img.Target.MediaType != ocispec.MediaTypeImageManifest {
		out.Fail("tocimage-manifest-descriptor-mismatch", fmt.Sprintf("%s: %+v vs %s/%d", id, img.Target, verifSha(mb), len(mb)))
	}
	var mf ocispec.Manifest
	if err := json.Unmarshal(mb, &mf); err != nil {
		out.Fail("tocimage-manifest-json", fmt.Sprintf("%s: %v", id, err))
		return
	}
	if cb, err := verifReadBlob(cs, mf.Config.Digest); err != nil || int64(len(cb)) != mf.Config.Size {
		out.Fail("tocimage-config-not-in-store", fmt.Sprintf("%s: %v", id, err))
	}
	byLayer := map[string][]ocispec.Descriptor{}
	for _, l := range mf.Layers {
		byLayer[l.Annotations[verifLayerDigestAnn]] = append(byLayer[l.Annotations[verifLayerDigestAnn]], l)
	}
	distinct := map[digest.Digest]struct{}{}
	out.Emit("reset", "ok")
	type put struct{ layer, toc digest.Digest; size int64 }
	var puts []put
	for _, d := range done {
		distinct[d.nd.Digest] = struct{}{}
		ls := byLayer[d.nd.Digest.String()]
		if len(ls) != 1 {
			sig := "tocimage-missing-layer"
			if len(ls) > 1 {
				sig = "tocimage-duplicate-layer"
			}
			out.Fail(sig, fmt.Sprintf("%s: converted layer %s (from %s) has %d entries in the TOC image; manifest annotations: %v", id, d.nd.Digest, d.src.desc.Digest, len(ls), verifKeys(byLayer)))
			verifOracleDesc(out, cs, c, d.src, d.nd, nil, where)
			continue
		}
		l := ls[0]
		tb, err := verifReadBlob(cs, l.Digest)
		if err != nil {
			out.Fail("tocimage-toc-not-in-store", fmt.Sprintf("%s: %s: %v", id, l.Digest, err))
			continue
		}
		if verifSha(tb) != l.Digest || int64(len(tb)) != l.Size || l.MediaType != ocispec.MediaTypeImageLayerGzip {
			out.Fail("tocimage-toc-descriptor-mismatch", fmt.Sprintf("%s: %+v vs %s/%d", id, l, verifSha(tb), len(tb)))
		}
		// the layer opens and verifies with THIS TOC (descriptor oracle with the external TOC)
		rec := &verifRecorder{}
		verifOracleDesc(rec, cs, c, d.src, d.nd, tb, where)
		for _, k := range rec.counts {
			out.Count(k)
		}
		for _, f := range rec.fails {
			sig := f[0]
			if sig == "toc-annotation-does-not-verify" || sig == "converted-blob-does-not-open" {
				sig = "tocimage-toc-does-not-verify-layer"
			}
			out.Fail(sig, f[1])
		}
		// the real lookup used at mount time (when the hook is available)
		if verifHookFetch != nil {
			got, err := verifHookFetch(ctx, cs, mf, d.nd.Digest)
			if err != nil || !bytes.Equal(got, tb) {
				out.Fail("tocimage-fetch-mismatch", fmt.Sprintf("%s: the snapshotter's manifest lookup of %s: err=%v", id, d.nd.Digest, err))
			}
		}
		puts = append(puts, put{d.nd.Digest, l.Digest, l.Size})
	}
	if len(mf.Layers) != len(distinct) {
		out.Fail("tocimage-layer-count", fmt.Sprintf("%s: %d manifest layers for %d distinct converted digests", id, len(mf.Layers), len(distinct)))
	}
	// canonical lines: the puts in a random order (the model is order independent), the manifest, the lookups
	for i := len(puts) - 1; i > 0; i-- {
		j := rnd.Intn(i + 1)
		puts[i], puts[j] = puts[j], puts[i]
	}
	seen := map[digest.Digest]struct{}{}
	for _, p := range puts {
		seen[p.layer] = struct{}{}
		out.Emit(fmt.Sprintf("put %s %s %d", p.layer.Encoded(), p.toc.Encoded(), p.size), fmt.Sprintf("ok n=%d", len(seen)))
	}
	// the manifest as a SET of (toc, size, layer): the order of layers is not a clause of C19 (the Go
	// sort is by TOC digest with unspecified ties); canonical order = by TOC digest, then layer digest
	var ls []string
	for _, l := range mf.Layers {
		ld, _ := digest.Parse(l.Annotations[verifLayerDigestAnn])
		ls = append(ls, fmt.Sprintf("%s:%d:%s", l.Digest.Encoded(), l.Size, ld.Encoded()))
	}
	sort.Strings(ls)
	line := "layers=-"
	if len(ls) > 0 {
		line = "layers=" + strings.Join(ls, ",")
	}
	out.Emit("finalize", line)
	for _, p := range puts {
		got, err := verifLookupTOC(cs, mf, p.layer)
		res := "notfound"
		if err == nil {
			res = fmt.Sprintf("toc=%s:%d", verifSha(got).Encoded(), len(got))
		}
		out.Emit("fetch "+p.layer.Encoded(), res)
	}
	absent := verifSha(rnd.Bytes(8))
	if _, err := verifLookupTOC(cs, mf, absent); err == nil {
		out.Emit("fetch "+absent.Encoded(), "found")
	} else {
		out.Emit("fetch "+absent.Encoded(), "notfound")
	}
}

func verifKeys(m map[string][]ocispec.Descriptor) []string {
	var k []string
	for x := range m {
		k = append(k, x)
	}
	sort.Strings(k)
	return k
}

type verifRecorder struct {
	mu     sync.Mutex
	fails  [][2]string
	counts []string
}

func (r *verifRecorder) Fail(sig, what string) {
	r.mu.Lock()
	r.fails = append(r.fails, [2]string{sig, what})
	r.mu.Unlock()
}

func (r *verifRecorder) Count(k string) {
	r.mu.Lock()
	r.counts = append(r.counts, k)
	r.mu.Unlock()
}

// ---------------------------------------------------------------------------------------------
// running conversions

type verifResult struct {
	nd    *ocispec.Descriptor
	err   error
	panic any
}

func verifConvertOne(ctx context.Context, c *verifConv, cs content.Store, desc ocispec.Descriptor) (res verifResult) {
	defer func() {
		if r := recover(); r != nil {
			res.panic = r
		}
	}()
	res.nd, res.err = c.fn(ctx, cs, desc)
	return
}

// verifConvertBatch converts all sources CONCURRENTLY with the one converter instance (goroutines
// released together), each with its own context that is cancelled as soon as its conversion returns.
func verifConvertBatch(c *verifConv, cs content.Store, srcs []*verifSrc) []verifResult {
	res := make([]verifResult, len(srcs))
	start := make(chan struct{})
	var wg sync.WaitGroup
	for i := range srcs {
		wg.Add(1)
		go func(i int) {
			defer wg.Done()
			ctx, cancel := context.WithCancel(context.Background())
			defer cancel()
			<-start
			res[i] = verifConvertOne(ctx, c, cs, srcs[i].desc)
		}(i)
	}
	close(start)
	wg.Wait()
	return res
}

// verifCheckBatch applies the oracles to a batch's results.
func verifCheckBatch(out verifEmitter, rnd *verifutil.Rand, cs content.Store, c *verifConv, srcs []*verifSrc, res []verifResult, where string) {
	var done []verifDone
	for i, r := range res {
		s := srcs[i]
		id := fmt.Sprintf("%s %s/%s src=%s(%s,%s) opts=%s", where, c.target, c.variant, s.desc.MediaType, s.comp, s.kind, c.optDesc)
		switch {
		case r.panic != nil:
			out.Fail("conversion-panic", fmt.Sprintf("%s: %v", id, r.panic))
		case r.err != nil:
			if verifExpectedErr(c, s) {
				continue
			}
			out.Fail("unexpected-conversion-error", fmt.Sprintf("%s: %v", id, r.err))
		case r.nd == nil:
			out.Fail("layer-left-untouched", id)
		default:
			out.Count("validated-conversions")
			if c.finalize == nil {
				verifOracleDesc(out, cs, c, s, r.nd, nil, where)
			}
			done = append(done, verifDone{s, r.nd})
		}
	}
	if c.finalize != nil {
		verifOracleTOCImage(out, rnd, cs, c, done, where)
	}
}

// verifExpectedErr: inputs on which an error return is what the code documents.
func verifExpectedErr(c *verifConv, s *verifSrc) bool {
	if c.target == "zstdchunked" && s.desc.MediaType == images.MediaTypeDockerSchema2LayerZstd {
		return true // convertMediaTypeToZstd knows no Docker zstd type
	}
	if c.target == "exttoc-lossless" {
		if s.comp == "zstd" {
			return true // AppendTarLossLess reads gzip or plain tar only
		}
		if s.kind == "esgz" || s.kind == "zstdchunked" {
			return true // "existing TOC JSON is not allowed"
		}
	}
	return false
}

func verifHex(s string) string {
	if s == "" {
		return "-"
	}
	return hex.EncodeToString([]byte(s))
}

// ---------------------------------------------------------------------------------------------
// scenarios

var verifTargets = []string{"esgz", "zstdchunked", "exttoc", "exttoc-lossless"}

// verifTable runs EVERY row of the media-type table (4 converters x 19 media types, content in the
// encoding the media type names) through the real converters, plus `extra` rows whose content is in
// another encoding than the media type says.
//
// known=false (main pass): every row except (a) zstd-typed layers given to a gzip-producing converter —
// the known finding verifSigZstdKept, run by the pass known=true — and (b) non-layer media types given
// to the external-TOC functions, which are outside C19 (one guarded probe, verifProbeNonLayer).
func verifTable(t *testing.T, out *verifutil.Out, rnd *verifutil.Rand, extra int, known bool) {
	cs := verifNewStore(t)
	out.Comment(fmt.Sprintf("media-type table (known-finding rows: %v)", known))
	if !known {
		out.Emit("rows", fmt.Sprintf("%d", len(verifTargets)*len(verifMediaTypes)))
	}
	knownRow := func(target string, mi int) bool {
		m := verifMediaTypes[mi]
		return target != "zstdchunked" && images.IsLayerType(m.mt) && verifMTComp(m.mt) == "zstd"
	}
	type row struct {
		target string
		mi     int
		comp   string
	}
	var rows []row
	for _, tg := range verifTargets {
		for mi, m := range verifMediaTypes {
			if !images.IsLayerType(m.mt) && (tg == "exttoc" || tg == "exttoc-lossless") {
				continue
			}
			if knownRow(tg, mi) == known {
				rows = append(rows, row{tg, mi, m.comp})
			}
		}
	}
	for i := 0; i < extra; i++ {
		mi := verifLayerTypes[rnd.Intn(len(verifLayerTypes))]
		comp := []string{"none", "gzip", "zstd"}[rnd.Intn(3)]
		tg := verifTargets[rnd.Intn(4)]
		if comp == verifMediaTypes[mi].comp || knownRow(tg, mi) != known {
			continue
		}
		rows = append(rows, row{tg, mi, comp})
	}
	for ri, r := range rows {
		m := verifMediaTypes[r.mi]
		var src *verifSrc
		if r.comp == "json" {
			blob := []byte(fmt.Sprintf(`{"verif":%d}`, ri))
			desc, _ := verifPut(t, cs, rnd, blob, m.mt, nil)
			src = &verifSrc{desc: desc, blob: blob, comp: "json", kind: "plain", nolabel: true}
		} else {
			src = verifNewSrc(t, cs, rnd, m.mt, r.comp, fmt.Sprintf("t%d", ri))
		}
		c := verifNewConv(rnd, r.target, []*verifSrc{src}, false)
		res := verifConvertOne(context.Background(), c, cs, src.desc)
		op := fmt.Sprintf("mt %s %s %s", r.target, verifHex(m.mt), r.comp)
		id := fmt.Sprintf("table %s/%s src=%s(%s) opts=%s", c.target, c.variant, m.mt, r.comp, c.optDesc)
		out.Count("table:" + r.target)
		switch {
		case res.panic != nil:
			out.Emit(op, "panic")
			out.Fail("conversion-panic", fmt.Sprintf("%s: %v", id, res.panic))
		case res.err != nil:
			out.Emit(op, "err")
			if !verifExpectedErr(c, src) {
				out.Fail("unexpected-conversion-error", fmt.Sprintf("%s: %v", id, res.err))
			}
		case res.nd == nil:
			out.Emit(op, "nil")
			if images.IsLayerType(m.mt) {
				out.Fail("layer-left-untouched", id)
			}
		default:
			out.Emit(op, "ok "+verifHex(res.nd.MediaType))
			out.Count("validated-conversions")
			out.Distinct(fmt.Sprintf("row:%s:%s:%s", r.target, m.mt, r.comp))
			if !images.IsLayerType(m.mt) {
				out.Fail("nonlayer-converted", id)
			}
			if c.finalize == nil {
				verifOracleDesc(out, cs, c, src, res.nd, nil, "table")
			} else {
				verifOracleTOCImage(out, rnd, cs, c, []verifDone{{src, res.nd}}, "table")
			}
		}
	}
}

// verifPickMT: a layer media type and its natural encoding.
func verifPickMT(rnd *verifutil.Rand, c string) (string, string) {
	for {
		m := verifMediaTypes[verifLayerTypes[rnd.Intn(len(verifLayerTypes))]]
		// the classes with their own signature are covered by the table; keep the random stream
		// on the inputs the converters document
		if m.comp == "zstd" && c != "zstdchunked" {
			continue
		}
		if m.mt == images.MediaTypeDockerSchema2LayerZstd {
			continue
		}
		return m.mt, m.comp
	}
}

// verifConcurrent: N layers (with duplicates, the same tar in two encodings, already-converted input)
// converted concurrently by ONE converter instance.
func verifConcurrent(t *testing.T, out *verifutil.Out, rnd *verifutil.Rand, target string, n int, round int) {
	cs := verifNewStore(t)
	var srcs []*verifSrc
	for i := 0; i < n; i++ {
		salt := fmt.Sprintf("c%d_%d", round, i)
		switch rnd.Pick(6, 1, 1, 1) {
		case 0:
			mt, comp := verifPickMT(rnd, target)
			srcs = append(srcs, verifNewSrc(t, cs, rnd, mt, comp, salt))
		case 1: // duplicate layer in the same image
			if len(srcs) > 0 {
				srcs = append(srcs, srcs[rnd.Intn(len(srcs))])
			}
		case 2: // the same tar in another encoding: distinct source digests, (for lossy gzip targets) the same result
			if len(srcs) > 0 {
				o := srcs[rnd.Intn(len(srcs))]
				if o.kind == "plain" {
					comp := []string{"none", "gzip"}[rnd.Intn(2)]
					mt := map[string]string{"none": ocispec.MediaTypeImageLayer, "gzip": ocispec.MediaTypeImageLayerGzip}[comp]
					blob := verifEncode(o.stream, comp, rnd)
					desc, nolabel := verifPut(t, cs, rnd, blob, mt, o.stream)
					srcs = append(srcs, &verifSrc{desc: desc, blob: blob, stream: o.stream, files: o.files, comp: comp, kind: "plain", nolabel: nolabel})
				}
			}
		default: // already converted input
			kind := []string{"esgz", "exttoc", "zstdchunked"}[rnd.Intn(3)]
			if target == "exttoc-lossless" {
				kind = "exttoc" // a TOC entry in the stream is refused by the lossless writer (documented)
			}
			if kind == "zstdchunked" && target != "zstdchunked" {
				kind = "esgz" // zstd-typed input to a gzip converter: class verifSigZstdKept, see verifKnown
			}
			s := verifNewConvertedSrc(t, cs, rnd, kind, salt, rnd.Bool() && kind != "zstdchunked")
			if s.nolabel {
				// re-converting with equal options can reproduce the very same blob; give the source
				// the label a pull+unpack leaves (the label-less variant is class verifSigLabelPreexist)
				cs.Update(context.Background(), content.Info{Digest: s.desc.Digest, Labels: map[string]string{
					labels.LabelUncompressed: verifSha(s.stream).String()}}, "labels."+labels.LabelUncompressed)
				s.nolabel = false
			}
			srcs = append(srcs, s)
		}
	}
	spare := rnd.Bool() // option slices with spare capacity, the way cmd/ctr-remote builds them
	c := verifNewConv(rnd, target, srcs, spare)
	out.Comment(fmt.Sprintf("concurrent %s/%s n=%d spare=%v opts=%s", c.target, c.variant, len(srcs), spare, c.optDesc))
	t0 := time.Now()
	res := verifConvertBatch(c, cs, srcs)
	t1 := time.Now()
	verifCheckBatch(out, rnd, cs, c, srcs, res, fmt.Sprintf("concurrent#%d", round))
	if os.Getenv("VERIF_C19_TIMING") != "" {
		fmt.Fprintf(os.Stderr, "concurrent#%d %s n=%d convert=%v check=%v\n", round, target, len(srcs), t1.Sub(t0), time.Since(t1))
	}
	kinds := map[string]int{}
	for _, s := range srcs {
		kinds[s.comp+"/"+s.kind]++
		out.Count("src:" + s.comp + "/" + s.kind)
	}
	out.Count("concurrent:" + target)
	out.Distinct(fmt.Sprintf("conc:%s:%s:%d:%v:%s", c.target, c.variant, len(srcs), kinds, c.optDesc))
}

// verifRetry: a conversion interrupted while it streams into the writer (ingest left under the ref,
// exactly what a killed process leaves), or garbage left under the ref, then retried with the same
// converter instance against the same store.
func verifRetry(t *testing.T, out *verifutil.Out, rnd *verifutil.Rand, target string, round int) {
	cs := verifNewStore(t)
	mt, comp := verifPickMT(rnd, target)
	src := verifNewSrc(t, cs, rnd, mt, comp, fmt.Sprintf("r%d", round))
	c := verifNewConv(rnd, target, []*verifSrc{src}, false)
	prefix := "convert-estargz-from-"
	if target == "zstdchunked" {
		prefix = "convert-zstdchunked-from-"
	}
	mode := rnd.Intn(4)
	if c.finalize == nil && mode == 3 {
		mode = 0
	}
	ctx := context.Background()
	switch mode {
	case 0, 1: // interrupted mid-stream
		after := int64(rnd.Intn(200))
		if mode == 1 {
			after = int64(200 + rnd.Intn(3000))
		}
		fs := &verifFailStore{Store: cs, prefix: prefix, after: after}
		r := verifConvertOne(ctx, c, fs, src.desc)
		if r.err == nil && r.panic == nil {
			// the blob was shorter than the cut: a complete conversion, checked below as usual
			out.Count("retry:not-interrupted")
		} else if !errors.Is(r.err, errVerifInterrupted) {
			out.Fail("interrupted-conversion-other-error", fmt.Sprintf("retry %s/%s: %v %v", c.target, c.variant, r.err, r.panic))
		}
	case 2: // garbage of arbitrary length left under the ref
		w, err := content.OpenWriter(ctx, cs, content.WithRef(prefix+src.desc.Digest.String()))
		if err != nil {
			t.Fatal(err)
		}
		w.Write(rnd.Bytes(1 + rnd.Intn(20000)))
		w.Close()
	case 3: // external TOC: the layer is committed, the TOC write is interrupted
		fs := &verifFailStore{Store: cs, prefix: "external-toc", after: int64(rnd.Intn(50))}
		r := verifConvertOne(ctx, c, fs, src.desc)
		if !errors.Is(r.err, errVerifInterrupted) {
			out.Fail("interrupted-conversion-other-error", fmt.Sprintf("retry(toc) %s/%s: %v %v", c.target, c.variant, r.err, r.panic))
		}
	}
	out.Comment(fmt.Sprintf("retry mode=%d %s/%s opts=%s", mode, c.target, c.variant, c.optDesc))
	res := verifConvertOne(ctx, c, cs, src.desc)
	verifCheckBatch(out, rnd, cs, c, []*verifSrc{src}, []verifResult{res}, fmt.Sprintf("retry#%d(mode %d)", round, mode))
	// no ingest may stay behind under the conversion ref
	if st, err := cs.ListStatuses(ctx); err == nil {
		for _, s := range st {
			if strings.HasPrefix(s.Ref, prefix) {
				out.Fail("ingest-left-after-successful-conversion", fmt.Sprintf("retry %s: ref %s offset %d", c.target, s.Ref, s.Offset))
			}
		}
	}
	out.Count(fmt.Sprintf("retry:%s:mode%d", target, mode))
	out.Distinct(fmt.Sprintf("retry:%s:%s:%d:%s:%s", c.target, c.variant, mode, mt, c.optDesc))
}

// verifImage: a whole image converted by containerd's converter (which runs the layer conversions in
// parallel itself); the config's diff_ids must be the DiffIDs of the converted layers.
func verifImage(t *testing.T, out *verifutil.Out, rnd *verifutil.Rand, target string, round int) {
	ctx := context.Background()
	cs := verifNewStore(t)
	n := 2 + rnd.Intn(4)
	docker := rnd.Bool()
	var srcs []*verifSrc
	var layers []ocispec.Descriptor
	var diffIDs []digest.Digest
	for i := 0; i < n; i++ {
		comp := []string{"none", "gzip"}[rnd.Intn(2)]
		if target == "zstdchunked" && rnd.Intn(3) == 0 && !docker {
			comp = "zstd"
		}
		var mt string
		switch {
		case docker && comp == "none":
			mt = images.MediaTypeDockerSchema2Layer
		case docker:
			mt = images.MediaTypeDockerSchema2LayerGzip
		case comp == "none":
			mt = ocispec.MediaTypeImageLayer
		case comp == "gzip":
			mt = ocispec.MediaTypeImageLayerGzip
		default:
			mt = ocispec.MediaTypeImageLayerZstd
		}
		s := verifNewSrc(t, cs, rnd, mt, comp, fmt.Sprintf("i%d_%d", round, i))
		srcs = append(srcs, s)
		layers = append(layers, s.desc)
		diffIDs = append(diffIDs, verifSha(s.stream))
	}
	cfg := ocispec.Image{Platform: ocispec.Platform{Architecture: "amd64", OS: "linux"},
		RootFS: ocispec.RootFS{Type: "layers", DiffIDs: diffIDs}}
	cfgB, _ := json.Marshal(cfg)
	cfgMT, mfMT := ocispec.MediaTypeImageConfig, ocispec.MediaTypeImageManifest
	if docker {
		cfgMT, mfMT = images.MediaTypeDockerSchema2Config, images.MediaTypeDockerSchema2Manifest
	}
	cfgDesc := ocispec.Descriptor{MediaType: cfgMT, Digest: verifSha(cfgB), Size: int64(len(cfgB))}
	if err := content.WriteBlob(ctx, cs, "verif-cfg", bytes.NewReader(cfgB), cfgDesc); err != nil {
		t.Fatal(err)
	}
	mf := ocispec.Manifest{Versioned: ocispecs.Versioned{SchemaVersion: 2}, MediaType: mfMT, Config: cfgDesc, Layers: layers}
	mfB, _ := json.Marshal(mf)
	mfDesc := ocispec.Descriptor{MediaType: mfMT, Digest: verifSha(mfB), Size: int64(len(mfB))}
	lb := map[string]string{"containerd.io/gc.ref.content.config": cfgDesc.Digest.String()}
	for i, l := range layers {
		lb[fmt.Sprintf("containerd.io/gc.ref.content.l.%d", i)] = l.Digest.String()
	}
	if err := content.WriteBlob(ctx, cs, "verif-mf", bytes.NewReader(mfB), mfDesc, content.WithLabels(lb)); err != nil {
		t.Fatal(err)
	}
	c := verifNewConv(rnd, target, srcs, rnd.Bool())
	c.docker2oci = true
	out.Comment(fmt.Sprintf("image %s/%s layers=%d docker=%v opts=%s", c.target, c.variant, n, docker, c.optDesc))
	cf := converter.DefaultIndexConvertFunc(c.fn, true, platforms.All)
	var nd *ocispec.Descriptor
	var err error
	func() {
		defer func() {
			if r := recover(); r != nil {
				err = fmt.Errorf("panic: %v", r)
			}
		}()
		nd, err = cf(ctx, cs, mfDesc)
	}()
	id := fmt.Sprintf("image#%d %s/%s", round, c.target, c.variant)
	if err != nil || nd == nil {
		out.Fail("image-conversion-failed", fmt.Sprintf("%s: nd=%v err=%v", id, nd, err))
		return
	}
	nb, err := verifReadBlob(cs, nd.Digest)
	if err != nil {
		out.Fail("image-conversion-failed", fmt.Sprintf("%s: %v", id, err))
		return
	}
	var nmf ocispec.Manifest
	json.Unmarshal(nb, &nmf)
	if len(nmf.Layers) != n {
		out.Fail("image-layer-count", fmt.Sprintf("%s: %d layers, want %d", id, len(nmf.Layers), n))
		return
	}
	cb, err := verifReadBlob(cs, nmf.Config.Digest)
	if err != nil {
		out.Fail("image-conversion-failed", fmt.Sprintf("%s: config: %v", id, err))
		return
	}
	var ncfg ocispec.Image
	json.Unmarshal(cb, &ncfg)
	var res []verifResult
	for i := range nmf.Layers {
		l := nmf.Layers[i]
		res = append(res, verifResult{nd: &l})
		lb, err := verifReadBlob(cs, l.Digest)
		if err != nil {
			continue
		}
		st, _ := verifDecompress(lb)
		if i >= len(ncfg.RootFS.DiffIDs) || ncfg.RootFS.DiffIDs[i] != verifSha(st) {
			out.Fail("image-config-diffid-mismatch", fmt.Sprintf("%s: layer %d: config says %v, decompressed layer hashes to %s", id, i, ncfg.RootFS.DiffIDs, verifSha(st)))
		}
	}
	c.finalizeDesc = nd
	verifCheckBatch(out, rnd, cs, c, srcs, res, fmt.Sprintf("image#%d", round))
	out.Count("image:" + target)
	out.Distinct(fmt.Sprintf("image:%s:%s:%d:%v:%s", c.target, c.variant, n, docker, c.optDesc))
}

// verifRetryHalf: for the given converter, HALF OF A PREVIOUS OUTPUT is left under the converter's own
// ingest ref (the writer was closed without commit or abort, as a killed conversion leaves it), then the
// conversion is retried by the same converter instance.  The size of the output is learnt from a
// complete conversion of the same source by the same instance against a scratch store.
func verifRetryHalf(t *testing.T, out *verifutil.Out, rnd *verifutil.Rand, target string, round int) {
	ctx := context.Background()
	cs, scratch := verifNewStore(t), verifNewStore(t)
	mt, comp := verifPickMT(rnd, target)
	src := verifNewSrc(t, cs, rnd, mt, comp, fmt.Sprintf("h%d", round))
	if err := content.WriteBlob(ctx, scratch, "verif-copy", bytes.NewReader(src.blob), src.desc); err != nil {
		t.Fatal(err)
	}
	c := verifNewConv(rnd, target, []*verifSrc{src}, rnd.Bool())
	prefix := "convert-estargz-from-"
	if target == "zstdchunked" {
		prefix = "convert-zstdchunked-from-"
	}
	out.Comment(fmt.Sprintf("retry-half %s/%s src=%s opts=%s", c.target, c.variant, mt, c.optDesc))
	first := verifConvertOne(ctx, c, scratch, src.desc)
	if first.nd == nil {
		out.Fail("unexpected-conversion-error", fmt.Sprintf("retry-half %s/%s: first conversion: err=%v panic=%v", c.target, c.variant, first.err, first.panic))
		return
	}
	half := first.nd.Size / 2
	fs := &verifFailStore{Store: cs, prefix: prefix, after: half}
	r := verifConvertOne(ctx, c, fs, src.desc)
	if !errors.Is(r.err, errVerifInterrupted) {
		out.Fail("interrupted-conversion-other-error", fmt.Sprintf("retry-half %s/%s: cut at %d of %d: nd=%v err=%v panic=%v", c.target, c.variant, half, first.nd.Size, r.nd, r.err, r.panic))
	}
	// the stale half really sits under the ref the retry will open
	left := int64(-1)
	if st, err := cs.Status(ctx, prefix+src.desc.Digest.String()); err == nil {
		left = st.Offset
	}
	if left != half {
		out.Fail("harness-leftover-not-in-place", fmt.Sprintf("retry-half %s: ingest %s%s holds %d bytes, want %d", c.target, prefix, src.desc.Digest, left, half))
	}
	res := verifConvertOne(ctx, c, cs, src.desc)
	verifCheckBatch(out, rnd, cs, c, []*verifSrc{src}, []verifResult{res}, fmt.Sprintf("retry-half#%d(left %d of %d)", round, half, first.nd.Size))
	if res.nd != nil && (res.nd.Digest != first.nd.Digest || res.nd.Size != first.nd.Size) {
		out.Fail("retry-result-differs-from-clean-run", fmt.Sprintf("retry-half %s/%s: clean run %s/%d, retried run %s/%d", c.target, c.variant, first.nd.Digest, first.nd.Size, res.nd.Digest, res.nd.Size))
	}
	out.Count("retry-half:" + target)
	out.Distinct(fmt.Sprintf("retry-half:%s:%s:%s:%s", c.target, c.variant, mt, c.optDesc))
}

// verifPutJSON stores a JSON document and returns its descriptor.
func verifPutJSON(t *testing.T, cs content.Store, mt string, v any) ocispec.Descriptor {
	b, _ := json.Marshal(v)
	d := ocispec.Descriptor{MediaType: mt, Digest: verifSha(b), Size: int64(len(b))}
	if err := content.WriteBlob(context.Background(), cs, "verif-json-"+d.Digest.Encoded(), bytes.NewReader(b), d); err != nil {
		t.Fatal(err)
	}
	return d
}

// verifImageIndex: a multi-platform index (linux/amd64 + linux/arm64; one shared base layer, one
// layer specific to each platform) converted by containerd's DefaultIndexConvertFunc for ALL platforms,
// then finalize(…, converted index): the TOC image must map EVERY converted layer of EVERY platform.
func verifImageIndex(t *testing.T, out *verifutil.Out, rnd *verifutil.Rand, target string, round int) {
	ctx := context.Background()
	cs := verifNewStore(t)
	mk := func(salt string) *verifSrc {
		comp := []string{"none", "gzip"}[rnd.Intn(2)]
		mt := map[string]string{"none": ocispec.MediaTypeImageLayer, "gzip": ocispec.MediaTypeImageLayerGzip}[comp]
		return verifNewSrc(t, cs, rnd, mt, comp, fmt.Sprintf("x%d_%s", round, salt))
	}
	base, la, lb := mk("base"), mk("amd64"), mk("arm64")
	perPlatform := [][]*verifSrc{{base, la}, {base, lb}}
	if rnd.Bool() { // platform specific layer below the shared one
		perPlatform = [][]*verifSrc{{la, base}, {lb, base}}
	}
	var mfs []ocispec.Descriptor
	for i, arch := range []string{"amd64", "arm64"} {
		p := ocispec.Platform{Architecture: arch, OS: "linux"}
		var layers []ocispec.Descriptor
		var diffIDs []digest.Digest
		for _, s := range perPlatform[i] {
			layers = append(layers, s.desc)
			diffIDs = append(diffIDs, verifSha(s.stream))
		}
		cfg := verifPutJSON(t, cs, ocispec.MediaTypeImageConfig, ocispec.Image{Platform: p, RootFS: ocispec.RootFS{Type: "layers", DiffIDs: diffIDs}})
		md := verifPutJSON(t, cs, ocispec.MediaTypeImageManifest, ocispec.Manifest{Versioned: ocispecs.Versioned{SchemaVersion: 2},
			MediaType: ocispec.MediaTypeImageManifest, Config: cfg, Layers: layers})
		md.Platform = &p
		mfs = append(mfs, md)
	}
	idx := verifPutJSON(t, cs, ocispec.MediaTypeImageIndex, ocispec.Index{Versioned: ocispecs.Versioned{SchemaVersion: 2},
		MediaType: ocispec.MediaTypeImageIndex, Manifests: mfs})
	all := []*verifSrc{base, la, lb}
	c := verifNewConv(rnd, target, all, rnd.Bool())
	c.docker2oci = true
	out.Comment(fmt.Sprintf("index(amd64+arm64) %s/%s opts=%s", c.target, c.variant, c.optDesc))
	id := fmt.Sprintf("index#%d %s/%s", round, c.target, c.variant)
	var nd *ocispec.Descriptor
	var err error
	func() {
		defer func() {
			if r := recover(); r != nil {
				err = fmt.Errorf("panic: %v", r)
			}
		}()
		nd, err = converter.DefaultIndexConvertFunc(c.fn, true, platforms.All)(ctx, cs, idx)
	}()
	if err != nil || nd == nil {
		out.Fail("image-conversion-failed", fmt.Sprintf("%s: nd=%v err=%v", id, nd, err))
		return
	}
	var nidx ocispec.Index
	if b, err := verifReadBlob(cs, nd.Digest); err != nil || json.Unmarshal(b, &nidx) != nil || len(nidx.Manifests) != 2 {
		out.Fail("image-conversion-failed", fmt.Sprintf("%s: converted index unreadable or not 2 manifests: %v", id, err))
		return
	}
	var srcs []*verifSrc
	var res []verifResult
	for i, m := range nidx.Manifests {
		var nmf ocispec.Manifest
		if b, err := verifReadBlob(cs, m.Digest); err != nil || json.Unmarshal(b, &nmf) != nil || len(nmf.Layers) != 2 {
			out.Fail("image-layer-count", fmt.Sprintf("%s: manifest %d unreadable or not 2 layers: %v", id, i, err))
			return
		}
		for j := range nmf.Layers {
			l := nmf.Layers[j]
			srcs = append(srcs, perPlatform[i][j])
			res = append(res, verifResult{nd: &l})
		}
	}
	c.finalizeDesc = nd // finalize is told which image it finalizes
	verifCheckBatch(out, rnd, cs, c, srcs, res, fmt.Sprintf("index#%d", round))
	out.Count("index:" + target)
	out.Distinct(fmt.Sprintf("index:%s:%s:%s", c.target, c.variant, c.optDesc))
}

// verifCorruptCompression is an external-TOC gzip compression whose data writer alters the stream it
// is given: mode 0 flips one bit of the first byte (same length, other DiffID), mode 1 appends a byte
// (other length and DiffID).  It stands for a lossy step inside the "lossless" writer.
type verifCorruptCompression struct {
	*esgzexternaltoc.GzipCompression
	mode int
	done *bool
}

type verifCorruptWriter struct {
	estargz.WriteFlushCloser
	c *verifCorruptCompression
}

func (c *verifCorruptCompression) Writer(w io.Writer) (estargz.WriteFlushCloser, error) {
	gw, err := c.GzipCompression.Writer(w)
	if err != nil {
		return nil, err
	}
	return &verifCorruptWriter{gw, c}, nil
}

func (w *verifCorruptWriter) Write(p []byte) (int, error) {
	if *w.c.done || len(p) == 0 {
		return w.WriteFlushCloser.Write(p)
	}
	*w.c.done = true
	q := append([]byte{}, p...)
	if w.c.mode == 0 {
		q[0] ^= 0x01
	} else {
		q = append(q, 0)
	}
	if _, err := w.WriteFlushCloser.Write(q); err != nil {
		return 0, err
	}
	return len(p), nil
}

// verifLosslessFault: the lossless double check must refuse a writer that changed the stream — with
// the same length (DiffID check) as well as with another length — and commit nothing it describes.
func verifLosslessFault(t *testing.T, out *verifutil.Out, rnd *verifutil.Rand, round int) {
	if verifHookLosslessWith == nil {
		out.Count("lossless-fault:skipped-no-hook")
		return
	}
	cs := verifNewStore(t)
	comp := []string{"none", "gzip"}[rnd.Intn(2)]
	mt := map[string]string{"none": ocispec.MediaTypeImageLayer, "gzip": ocispec.MediaTypeImageLayerGzip}[comp]
	src := verifNewSrc(t, cs, rnd, mt, comp, fmt.Sprintf("lf%d", round))
	mode := round % 2
	chunk := []int{0, 1000, 50000}[rnd.Intn(3)]
	fn, fin := verifHookLosslessWith(func(gc *esgzexternaltoc.GzipCompression) estargz.Compressor {
		done := false
		return &verifCorruptCompression{gc, mode, &done}
	}, chunk, 1+rnd.Intn(9))
	c := &verifConv{target: "exttoc-lossless", variant: "layerLossLessConvertFunc(altering writer)", fn: fn, finalize: fin,
		optDesc: fmt.Sprintf("chunk=%d,fault=%d", chunk, mode)}
	out.Comment(fmt.Sprintf("lossless fault mode=%d src=%s", mode, comp))
	r := verifConvertOne(context.Background(), c, cs, src.desc)
	out.Count(fmt.Sprintf("lossless-fault:mode%d", mode))
	out.Distinct(fmt.Sprintf("lossless-fault:%d:%s:%d", mode, comp, chunk))
	switch {
	case r.panic != nil:
		out.Fail("conversion-panic", fmt.Sprintf("lossless fault mode %d: %v", mode, r.panic))
	case r.err != nil:
		// refused, as it must be
	default:
		what := map[int]string{0: "same length, other DiffID", 1: "other length"}[mode]
		out.Fail("lossless-check-accepted-altered-stream", fmt.Sprintf("lossless conversion of a %s source through a writer that alters the stream (%s) returned %+v", comp, what, r.nd))
		if r.nd != nil {
			verifCheckBatch(out, rnd, cs, c, []*verifSrc{src}, []verifResult{r}, "lossless-fault")
		}
	}
}

// ---------------------------------------------------------------------------------------------
// candidate findings: inputs/schedules on which the code as written misses the property.  Each class
// has its own signature; the concurrent ones run in a child process because their failure mode can
// be a fatal runtime error.

type verifChildOut struct {
	mu sync.Mutex
}

func (o *verifChildOut) Fail(sig, what string) {
	o.mu.Lock()
	fmt.Printf("VERIF-ORACLE-FAIL %s %s\n", sig, strings.ReplaceAll(what, "\n", " "))
	o.mu.Unlock()
}
func (o *verifChildOut) Emit(op, res string) int { return 0 }
func (o *verifChildOut) Comment(c string)        {}
func (o *verifChildOut) Count(k string)          {}

// TestVerifC19Child is the body of a child process (VERIF_C19_CHILD names the scenario).
func TestVerifC19Child(t *testing.T) {
	sc := os.Getenv("VERIF_C19_CHILD")
	if sc == "" {
		t.Skip("child only")
	}
	rnd := verifutil.NewRand(verifutil.Seed() ^ uint64(verifutil.EnvInt("VERIF_C19_CHILD_ROUND", 0)+1)*0x9E37)
	out := &verifChildOut{}
	cs := verifNewStore(t)
	if sc == "putstress" || sc == "putstress-lossless" {
		verifPutStress(t, out, rnd, cs, sc == "putstress-lossless")
		return
	}
	target := map[string]string{"sharedopts-exttoc": "exttoc", "sharedopts-zstd": "zstdchunked", "sharedopts-esgz": "esgz"}[sc]
	if target == "" {
		t.Fatalf("unknown scenario %q", sc)
	}
	n := verifutil.EnvInt("VERIF_C19_CHILD_N", 8)
	var srcs []*verifSrc
	for i := 0; i < n; i++ {
		mt, comp := verifPickMT(rnd, target)
		srcs = append(srcs, verifNewSrc(t, cs, rnd, mt, comp, fmt.Sprintf("s%d", i)))
	}
	var c *verifConv
	for { // the variants that capture the caller's slice, given at least one option
		c = verifNewConv(rnd, target, srcs, true)
		if (c.variant == "LayerConvertFunc" || c.variant == "LayerConvertFuncWithCompressionLevel") && c.optDesc != "" {
			break
		}
	}
	res := verifConvertBatch(c, cs, srcs)
	verifCheckBatch(out, rnd, cs, c, srcs, res, "child:"+sc)
}

// verifPutStress: many tiny layers converted at once by ONE external-TOC converter instance, so that
// the writes to the shared layer-digest -> TOC map overlap as much as the scheduler allows.
func verifPutStress(t *testing.T, out verifEmitter, rnd *verifutil.Rand, cs content.Store, lossless bool) {
	n := verifutil.EnvInt("VERIF_C19_CHILD_N", 96)
	var srcs []*verifSrc
	for i := 0; i < n; i++ {
		var buf bytes.Buffer
		tw := tar.NewWriter(&buf)
		data := []byte(fmt.Sprintf("tiny %d %d", i, rnd.Intn(1000)))
		tw.WriteHeader(&tar.Header{Typeflag: tar.TypeReg, Name: fmt.Sprintf("t%d", i), Mode: 0644, Size: int64(len(data))})
		tw.Write(data)
		tw.Close()
		raw := buf.Bytes()
		desc, nolabel := verifPut(t, cs, rnd, raw, ocispec.MediaTypeImageLayer, raw)
		srcs = append(srcs, &verifSrc{desc: desc, blob: raw, stream: raw, files: []verifFile{{fmt.Sprintf("t%d", i), data}}, comp: "none", kind: "plain", nolabel: nolabel})
	}
	c := &verifConv{target: "exttoc", variant: "LayerConvertFunc", optDesc: "par=1"}
	if lossless {
		c.target, c.variant = "exttoc-lossless", "LayerConvertLossLessFunc"
		c.fn, c.finalize = LayerConvertLossLessFunc(LayerConvertLossLessConfig{CompressionLevel: gzip.BestSpeed})
	} else {
		c.fn, c.finalize = LayerConvertFunc([]estargz.Option{estargz.WithParallelism(1), estargz.WithCompressionLevel(gzip.BestSpeed)}[:2:2], gzip.BestSpeed)
	}
	bs := &verifBarrierStore{Store: cs, n: n, release: make(chan struct{})}
	res := verifConvertBatch(c, bs, srcs)
	verifCheckBatch(out, rnd, cs, c, srcs, res, "putstress")
}

var verifChildFailRe = regexp.MustCompile(`(?m)^VERIF-ORACLE-FAIL (\S+) (.*)$`)

// verifRunChild runs one child scenario and folds every way it can fail into ONE signature.
func verifRunChild(out *verifutil.Out, scenario, sig string, round int) bool {
	cmd := exec.Command(os.Args[0], "-test.run", "^TestVerifC19Child$", "-test.count=1", "-test.timeout", "300s")
	cmd.Env = append(os.Environ(), "VERIF_C19_CHILD="+scenario, fmt.Sprintf("VERIF_C19_CHILD_ROUND=%d", round))
	b, err := cmd.CombinedOutput()
	s := string(b)
	var why []string
	if strings.Contains(s, "DATA RACE") {
		why = append(why, "data race reported by the race detector")
	}
	if strings.Contains(s, "fatal error:") {
		i := strings.Index(s, "fatal error:")
		why = append(why, strings.SplitN(s[i:], "\n", 2)[0])
	}
	for _, m := range verifChildFailRe.FindAllStringSubmatch(s, -1) {
		if strings.HasPrefix(scenario, "putstress") {
			out.Fail(m[1], m[2]) // keeps its own signature
			continue
		}
		why = append(why, m[1]+": "+m[2])
	}
	if err != nil && len(why) == 0 {
		tail := s
		if len(tail) > 1500 {
			tail = tail[len(tail)-1500:]
		}
		why = append(why, fmt.Sprintf("child failed: %v: %s", err, tail))
	}
	out.Count("child:" + scenario)
	if len(why) > 0 {
		if len(why) > 4 {
			why = why[:4]
		}
		desc := "8 layers converted concurrently by one converter instance whose option slice has spare capacity, as cmd/ctr-remote builds it"
		if strings.HasPrefix(scenario, "putstress") {
			desc = "96 tiny layers converted concurrently by one external-TOC converter instance (exact-capacity options)"
		}
		out.Fail(sig, fmt.Sprintf("scenario %s (%s), round %d: %s", scenario, desc, round, strings.Join(why, " | ")))
		return true
	}
	return false
}

// verifSharedOpts: 8 layers converted concurrently by one converter instance that was given an option
// slice with spare capacity (repaired by 27b6c79; a failure here is a violation again).  Child
// processes, because the failure mode includes fatal runtime errors.
func verifSharedOpts(out *verifutil.Out, rounds int) {
	out.Comment("shared option slice (child processes)")
	for _, sc := range []struct{ name, sig string }{
		{"sharedopts-exttoc", verifSigSharedExt}, {"sharedopts-zstd", verifSigSharedZstd}, {"sharedopts-esgz", verifSigSharedEsgz}} {
		for r := 0; r < rounds; r++ {
			if verifRunChild(out, sc.name, sc.sig, r) {
				break
			}
		}
	}
}

// verifProbeNonLayer: what the external-TOC convert functions do with a non-layer media type is not a
// clause of C19 (the property speaks about layers); one guarded probe records the behaviour as a note.
func verifProbeNonLayer(t *testing.T, out *verifutil.Out, rnd *verifutil.Rand) {
	cs := verifNewStore(t)
	blob := []byte(`{"verif":"probe"}`)
	desc, _ := verifPut(t, cs, rnd, blob, ocispec.MediaTypeImageConfig, nil)
	for _, tg := range []string{"exttoc", "exttoc-lossless"} {
		c := verifNewConv(rnd, tg, nil, false)
		r := verifConvertOne(context.Background(), c, cs, desc)
		res := "untouched"
		switch {
		case r.panic != nil:
			res = "panics"
		case r.err != nil:
			res = "error"
		case r.nd != nil:
			res = "converted"
		}
		out.Count(fmt.Sprintf("%s:%s:%s", verifNoteNonLayer, tg, res))
	}
}

// verifKnown generates ONLY the inputs of the two recorded findings:
//   - zstd-typed layers given to the gzip-producing converters (table rows + an already converted
//     zstd:chunked layer): the blob is gzip, the media type stays zstd (verifSigZstdKept);
//   - an eStargz layer without uncompressed label re-converted with the same options: the same blob
//     comes out, Commit says AlreadyExists and the label is never written (verifSigLabelPreexist).
func verifKnown(t *testing.T, out *verifutil.Out, rnd *verifutil.Rand, extra int) {
	verifTable(t, out, rnd, extra, true)
	cs := verifNewStore(t)
	{
		s := verifNewConvertedSrc(t, cs, rnd, "zstdchunked", "fz", false)
		c := &verifConv{target: "esgz", variant: "LayerConvertFunc", fn: estargzconvert.LayerConvertFunc()}
		r := verifConvertOne(context.Background(), c, cs, s.desc)
		verifCheckBatch(out, rnd, cs, c, []*verifSrc{s}, []verifResult{r}, "known:zstdchunked->esgz")
	}
	for i := 0; i < 40; i++ {
		s := verifNewConvertedSrc(t, cs, rnd, "esgz", fmt.Sprintf("fl%d", i), false)
		if !s.nolabel { // drop the label a pull+unpack would have left
			cs.Update(context.Background(), content.Info{Digest: s.desc.Digest, Labels: map[string]string{
				labels.LabelUncompressed: ""}}, "labels."+labels.LabelUncompressed)
			s.nolabel = true
		}
		c := &verifConv{target: "esgz", variant: "LayerConvertFunc", fn: estargzconvert.LayerConvertFunc()}
		r := verifConvertOne(context.Background(), c, cs, s.desc)
		verifCheckBatch(out, rnd, cs, c, []*verifSrc{s}, []verifResult{r}, "known:esgz->esgz(no label)")
		if r.nd != nil && r.nd.Digest == s.desc.Digest {
			break // the re-conversion reproduced the very blob: the class is hit
		}
	}
}

// TestVerifC19Known is the separate pass for the recorded findings.
func TestVerifC19Known(t *testing.T) {
	rnd := verifutil.NewRand(verifutil.Seed() + 7919)
	out := verifutil.OpenOut()
	defer out.Close()
	verifKnown(t, out, rnd, verifutil.EnvInt("VERIF_C19_EXTRA", 4))
}

// ---------------------------------------------------------------------------------------------

func TestVerifC19(t *testing.T) {
	if os.Getenv("VERIF_C19_CHILD") != "" {
		t.Skip("child process")
	}
	rnd := verifutil.NewRand(verifutil.Seed())
	out := verifutil.OpenOut()
	defer out.Close()
	n := verifutil.EnvInt("VERIF_N", 6)
	// 1. the whole media-type table
	if verifutil.EnvInt("VERIF_C19_TABLE", 1) == 1 {
		verifTable(t, out, rnd, verifutil.EnvInt("VERIF_C19_EXTRA", 6), false)
		verifProbeNonLayer(t, out, rnd)
	}
	// 2. scripted: one concurrent batch, one retry of every mode, one image per converter
	round := 0
	for _, tg := range verifTargets {
		verifConcurrent(t, out, rnd, tg, 6, round)
		round++
	}
	// 3. random
	for i := 0; i < n; i++ {
		tg := verifTargets[rnd.Intn(4)]
		switch rnd.Pick(4, 2, 2, 2, 1) {
		case 0:
			verifConcurrent(t, out, rnd, tg, 3+rnd.Intn(7), round)
		case 1:
			verifRetry(t, out, rnd, tg, round)
		case 2:
			verifRetryHalf(t, out, rnd, tg, round)
		case 3:
			verifImage(t, out, rnd, tg, round)
		default:
			verifImageIndex(t, out, rnd, tg, round)
		}
		round++
	}
	for _, tg := range verifTargets {
		verifRetry(t, out, rnd, tg, round)
		round++
		verifRetryHalf(t, out, rnd, tg, round)
		round++
		verifImage(t, out, rnd, tg, round)
		round++
	}
	for _, tg := range []string{"exttoc", "exttoc-lossless", verifTargets[rnd.Intn(2)]} {
		verifImageIndex(t, out, rnd, tg, round)
		round++
	}
	for i := 0; i < 2+n/8; i++ {
		verifLosslessFault(t, out, rnd, i)
	}
	// 3b. the shared TOC map under as much overlap as possible (child process: a concurrent map write is fatal)
	out.Comment("put stress")
	for i := 0; i < verifutil.EnvInt("VERIF_C19_STRESS", 3); i++ {
		sc := []string{"putstress", "putstress-lossless"}[i%2]
		if verifRunChild(out, sc, "tocmap-concurrent-write", i) {
			break
		}
	}
	// 4. the shared option slice
	if r := verifutil.EnvInt("VERIF_C19_FINDINGS", 2); r > 0 {
		verifSharedOpts(out, r)
	}
}

// TestVerifC19RaceQuick is what the quick tier runs with the -race binary: the schedules whose failure
// mode is a data race — many layers through ONE external-TOC converter instance lined up right before
// their write to the shared TOC map, and parallel conversions by one instance given an option slice with
// spare capacity — each in a child process; a race report, a fatal error or an oracle failure is reported
// under the scenario's signature.
func TestVerifC19RaceQuick(t *testing.T) {
	if os.Getenv("VERIF_C19_CHILD") != "" {
		t.Skip("child process")
	}
	out := verifutil.OpenOut()
	defer out.Close()
	out.Comment("race quick")
	for i, sc := range []string{"putstress", "putstress-lossless"} {
		verifRunChild(out, sc, "tocmap-concurrent-write", i)
	}
	verifSharedOpts(out, 1)
}
