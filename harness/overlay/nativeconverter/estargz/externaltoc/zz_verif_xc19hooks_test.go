//go:build verif

package externaltoc

// Optional part of the C19 harness: the only place that names UNEXPORTED identifiers of the package
// under test.  checks/C19.py compiles it in when it builds and silently leaves it out otherwise (the
// scenarios behind the hooks are then skipped and counted), so that renaming an internal function can
// never make the check fail.

import (
	"context"

	"github.com/containerd/containerd/v2/core/content"
	"github.com/containerd/containerd/v2/core/images"
	"github.com/containerd/containerd/v2/core/images/converter"
	"github.com/containerd/stargz-snapshotter/estargz"
	esgzexternaltoc "github.com/containerd/stargz-snapshotter/estargz/externaltoc"
	"github.com/opencontainers/go-digest"
	ocispec "github.com/opencontainers/image-spec/specs-go/v1"
)

func init() {
	verifHookFetch = func(ctx context.Context, cs content.Store, mf ocispec.Manifest, layer digest.Digest) ([]byte, error) {
		return fetchTOCBlobFromManifest(ctx, verifStoreFetcher{cs}, mf, layer)
	}
	verifHookLosslessWith = func(wrap func(*esgzexternaltoc.GzipCompression) estargz.Compressor, chunk, level int) (converter.ConvertFunc, func(context.Context, content.Store, string, *ocispec.Descriptor) (*images.Image, error)) {
		return layerConvert(func(c estargz.Compression) converter.ConvertFunc {
			return layerLossLessConvertFunc(wrap(c.(*esgzexternaltoc.GzipCompression)), chunk, 0)
		}, level)
	}
}
