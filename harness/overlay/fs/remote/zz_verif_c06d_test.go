//go:build verif

package remote

import (
	"bytes"
	"context"
	"encoding/hex"
	"fmt"
	"io"
	"mime"
	"net/http"
	"sort"
	"strings"
	"testing"
	"time"

	"github.com/containerd/log"
	"github.com/containerd/stargz-snapshotter/internal/verifutil"
)

// ---------------------------------------------------------------------------------------------
// C06d: the HTTP wire level of the blob fetcher (Range header, Content-Range / Content-Length
// parsing, reply classification, consumption of the parts) against SV/Model/HttpRange.lean.
// ---------------------------------------------------------------------------------------------

const verifD06Boundary = "VERIFBOUNDARY7d1c06d"

func verifD06Hex(b []byte) string {
	if len(b) == 0 {
		return "-"
	}
	return hex.EncodeToString(b)
}

// ---- independent specification code: no regexp, no strconv ----

func verifD06IsDigit(c byte) bool { return c >= '0' && c <= '9' }

// verifD06Dec parses a non-empty all-digit string; ok=false if the value exceeds max.
func verifD06Dec(s string, max uint64) (uint64, bool) {
	if s == "" {
		return 0, false
	}
	var v uint64
	for i := 0; i < len(s); i++ {
		if !verifD06IsDigit(s[i]) {
			return 0, false
		}
		d := uint64(s[i] - '0')
		if v > (max-d)/10 {
			return 0, false
		}
		v = v*10 + d
	}
	return v, true
}

// verifD06ScanContentRange: what a header must look like to be accepted and what is returned:
// the LEFTMOST occurrence of `bytes D+-D+/` decides; the size is the maximal digit run after the
// slash and must be non-empty; all three numbers must fit int64.
func verifD06ScanContentRange(h string) (b, e, size int64, ok bool) {
	const maxI = uint64(1)<<63 - 1
	for i := 0; i+6 <= len(h); i++ {
		if h[i:i+6] != "bytes " {
			continue
		}
		j := i + 6
		k := j
		for k < len(h) && verifD06IsDigit(h[k]) {
			k++
		}
		if k == j || k >= len(h) || h[k] != '-' {
			continue
		}
		d1 := h[j:k]
		j = k + 1
		k = j
		for k < len(h) && verifD06IsDigit(h[k]) {
			k++
		}
		if k == j || k >= len(h) || h[k] != '/' {
			continue
		}
		d2 := h[j:k]
		j = k + 1
		k = j
		for k < len(h) && verifD06IsDigit(h[k]) {
			k++
		}
		d3 := h[j:k]
		// leftmost match found: it alone decides
		vb, ok1 := verifD06Dec(d1, maxI)
		ve, ok2 := verifD06Dec(d2, maxI)
		vs, ok3 := verifD06Dec(d3, maxI)
		if !ok1 || !ok2 || !ok3 {
			return 0, 0, 0, false
		}
		return int64(vb), int64(ve), int64(vs), true
	}
	return 0, 0, 0, false
}

// verifD06Int64: decimal int64 with optional sign.
func verifD06Int64(s string) (int64, bool) {
	neg := false
	if s != "" && (s[0] == '+' || s[0] == '-') {
		neg = s[0] == '-'
		s = s[1:]
	}
	if neg {
		v, ok := verifD06Dec(s, uint64(1)<<63)
		if !ok {
			return 0, false
		}
		return int64(-v), true // two's complement: -(2^63) stays MinInt64
	}
	v, ok := verifD06Dec(s, uint64(1)<<63-1)
	return int64(v), ok
}

// verifD06RFCRanges: server-side parser of `bytes=first-last(,first-last)*`.
func verifD06RFCRanges(h string) ([][2]int64, bool) {
	if !strings.HasPrefix(h, "bytes=") {
		return nil, false
	}
	var res [][2]int64
	for _, spec := range strings.Split(h[6:], ",") {
		i := strings.IndexByte(spec, '-')
		if i <= 0 {
			return nil, false
		}
		a, ok1 := verifD06Dec(spec[:i], uint64(1)<<63-1)
		b, ok2 := verifD06Dec(spec[i+1:], uint64(1)<<63-1)
		if !ok1 || !ok2 {
			return nil, false
		}
		res = append(res, [2]int64{int64(a), int64(b)})
	}
	return res, true
}

// verifD06Squash: sort + merge overlapping or adjacent intervals (independent of regionSet).
func verifD06Squash(rs []region, single bool) [][2]int64 {
	tmp := append([]region(nil), rs...)
	sort.Slice(tmp, func(i, j int) bool { return tmp[i].b < tmp[j].b })
	var res [][2]int64
	for _, r := range tmp {
		if n := len(res); n > 0 && r.b-1 <= res[n-1][1] { // r.b-1: no overflow at MaxInt64
			if r.e > res[n-1][1] {
				res[n-1][1] = r.e
			}
			continue
		}
		res = append(res, [2]int64{r.b, r.e})
	}
	if single && len(res) > 0 {
		res = [][2]int64{{res[0][0], res[len(res)-1][1]}}
	}
	return res
}

func verifD06ShowPairs(ps [][2]int64) string {
	var sb []string
	for _, p := range ps {
		sb = append(sb, fmt.Sprintf("%d:%d", p[0], p[1]))
	}
	return strings.Join(sb, ",")
}

// ---- wire replies ----

type verifD06Item struct {
	broken bool
	cr     string
	body   []byte
}

type verifD06Wire struct {
	status int
	ctype  string // Content-Type header value
	class  string // b | m | o : expected verdict of mime.ParseMediaType + "multipart/" prefix
	cl     string
	cr     string
	body   []byte
	items  []verifD06Item
}

var verifD06CTypes = [][2]string{
	{"multipart/byteranges; boundary=" + verifD06Boundary, "m"},
	{"Multipart/Mixed; boundary=" + verifD06Boundary, "m"},
	{"application/octet-stream", "o"},
	{"text/plain; charset=utf-8", "o"},
	{"", "b"},
	{";;;", "b"},
}

func (w *verifD06Wire) opWords() string {
	ws := []string{fmt.Sprint(w.status), w.class, verifD06Hex([]byte(w.cl)), verifD06Hex([]byte(w.cr))}
	if w.class == "m" && w.status == 206 {
		ws = append(ws, "-")
		for _, it := range w.items {
			if it.broken {
				ws = append(ws, "x")
				break
			}
			ws = append(ws, "p:"+verifD06Hex([]byte(it.cr))+":"+verifD06Hex(it.body))
		}
	} else {
		ws = append(ws, verifD06Hex(w.body))
	}
	return strings.Join(ws, " ")
}

func (w *verifD06Wire) response(req *http.Request) *http.Response {
	hdr := http.Header{}
	hdr["Content-Type"] = []string{w.ctype}
	if w.cl != "\x00absent" {
		hdr["Content-Length"] = []string{w.cl}
	}
	hdr["Content-Range"] = []string{w.cr}
	body := w.body
	if w.class == "m" && w.status == 206 {
		var buf bytes.Buffer
		closed := true
		for i, it := range w.items {
			if i > 0 {
				buf.WriteString("\r\n")
			}
			buf.WriteString("--" + verifD06Boundary + "\r\n")
			if it.broken {
				buf.WriteString("this line has no colon\r\n\r\n")
				closed = false
				break
			}
			buf.WriteString("Content-Type: application/octet-stream\r\nContent-Range: " + it.cr + "\r\n\r\n")
			buf.Write(it.body)
		}
		if closed {
			if len(w.items) > 0 {
				buf.WriteString("\r\n")
			}
			buf.WriteString("--" + verifD06Boundary + "--\r\n")
		}
		body = buf.Bytes()
	}
	return &http.Response{
		Status:     fmt.Sprintf("%d status", w.status),
		StatusCode: w.status,
		Proto:      "HTTP/1.1", ProtoMajor: 1, ProtoMinor: 1,
		Header:  hdr,
		Body:    io.NopCloser(bytes.NewReader(body)),
		Request: req,
	}
}

// verifD06RT answers every request through `reply` and records the Range header it was sent.
type verifD06RT struct {
	ranges []string
	wires  []*verifD06Wire
	reply  func(rangeHdr string) *verifD06Wire
}

func (rt *verifD06RT) RoundTrip(req *http.Request) (*http.Response, error) {
	r := req.Header.Get("Range")
	rt.ranges = append(rt.ranges, r)
	w := rt.reply(r)
	rt.wires = append(rt.wires, w)
	return w.response(req), nil
}

func verifD06Fetcher(rt http.RoundTripper, single bool) *httpFetcher {
	return &httpFetcher{
		url:         "http://reg.test/v2/img/blobs/sha256:c06d",
		blobURL:     "http://reg.test/v2/img/blobs/sha256:c06d",
		tr:          rt,
		singleRange: single,
		timeout:     10 * time.Second,
	}
}

var verifD06Nums = []string{"0", "1", "9", "10", "99", "100", "255", "4095", "4096", "65536",
	"2147483647", "2147483648", "4294967296", "9223372036854775806", "9223372036854775807",
	"9223372036854775808", "18446744073709551615", "18446744073709551616",
	"99999999999999999999999999", "000", "007", "00000000000000000000000000012"}

func verifD06Num(rnd *verifutil.Rand) string {
	if rnd.Intn(3) == 0 {
		return verifD06Nums[rnd.Intn(len(verifD06Nums))]
	}
	return fmt.Sprint(rnd.Range(0, 5000))
}

// verifD06Header generates Content-Range values: well formed, decorated, and damaged.
func verifD06Header(rnd *verifutil.Rand) (h string, kind string) {
	b, e, s := verifD06Num(rnd), verifD06Num(rnd), verifD06Num(rnd)
	base := "bytes " + b + "-" + e + "/" + s
	junk := []string{"", " ", "x", "bytes ", "bytes 1-", "bytes 1-2", "bytes=", "Bytes 3-4/5 ", "\t", "/", "-", "7", "\\", "*", "\xff\xfe", "é", "bytes 5-6/\\\\ ", "bytes 8-9/* ", "bytes 1-2/3 "}
	switch rnd.Pick(6, 4, 2, 2, 6, 2) {
	case 0:
		return base, "plain"
	case 1:
		return junk[rnd.Intn(len(junk))] + base + junk[rnd.Intn(len(junk))], "decorated"
	case 2:
		sz := []string{"*", "", "\\", "\\\\\\", "\\*", "x", " 5", "-1", "+1"}[rnd.Intn(9)]
		return "bytes " + b + "-" + e + "/" + sz + junk[rnd.Intn(len(junk))], "oddsize"
	case 3:
		return base + junk[rnd.Intn(len(junk))] + "bytes " + verifD06Num(rnd) + "-" + verifD06Num(rnd) + "/" + verifD06Num(rnd), "double"
	case 4:
		// damage one byte of a well-formed header
		bs := []byte(base)
		i := rnd.Intn(len(bs))
		switch rnd.Intn(3) {
		case 0:
			bs = append(bs[:i:i], bs[i+1:]...)
		case 1:
			alt := []byte("0-/ b*\\x\x00")
			bs[i] = alt[rnd.Intn(len(alt))]
		default:
			bs = append(bs[:i:i], append([]byte{[]byte("0-/ b*\\9")[rnd.Intn(8)]}, bs[i:]...)...)
		}
		return string(bs), "damaged"
	default:
		return string(rnd.Bytes(rnd.Intn(12))), "random"
	}
}

func verifD06ParseRangeOps(rnd *verifutil.Rand, out *verifutil.Out, n int) {
	fixed := []string{"", "bytes 0-0/1", "bytes 0-5/*", "bytes 0-5/", "bytes 0-5/\\", "xbytes 1-2/3y",
		"bytes 1-2/x bytes 3-4/5", "bytes bytes 1-2/3", "bytes 1-2/3 bytes 4-5/99999999999999999999",
		"bytes 9223372036854775807-9223372036854775807/9223372036854775807",
		"bytes 9223372036854775808-1/2", "bytes 1-9223372036854775808/2", "bytes 1-2/9223372036854775808",
		"bytes  1-2/3", "bytes 1 -2/3", "bytes -1-2/3", "BYTES 1-2/3", "bytes\t1-2/3", "bytes 5-2/10", "bytes 1-2/34x"}
	for i := 0; i < n+len(fixed); i++ {
		var h, kind string
		if i < len(fixed) {
			h, kind = fixed[i], "fixed"
		} else {
			h, kind = verifD06Header(rnd)
		}
		reg, size, err := parseRange(h)
		res := "err"
		if err == nil {
			res = fmt.Sprintf("ok %d %d %d", reg.b, reg.e, size)
		}
		out.Emit("http-parserange "+verifD06Hex([]byte(h)), res)
		out.Count("parserange-" + kind)
		// ---- oracle: the regexp/strconv-free specification ----
		sb, se, ss, sok := verifD06ScanContentRange(h)
		want := "err"
		if sok {
			want = fmt.Sprintf("ok %d %d %d", sb, se, ss)
		}
		if res != want {
			out.Fail("parserange-differs-from-spec", fmt.Sprintf("parseRange(%q) = %s, specification says %s", h, res, want))
		}
		if err == nil && (reg.b < 0 || reg.e < 0 || size < 0) {
			out.Fail("parserange-negative", fmt.Sprintf("parseRange(%q) = %s", h, res))
		}
		out.Distinct("pr/" + kind + "/" + res[:2] + fmt.Sprint(len(h)))
	}
	// round trip of well-formed headers with known numbers
	edge := []int64{0, 1, 9, 10, 1 << 31, 1<<63 - 2, 1<<63 - 1}
	pick := func() int64 {
		if rnd.Intn(3) == 0 {
			return edge[rnd.Intn(len(edge))]
		}
		return rnd.Range(0, 1<<40)
	}
	for i := 0; i < n/4+1; i++ {
		b, e, s := pick(), pick(), pick()
		h := fmt.Sprintf("bytes %d-%d/%d", b, e, s)
		reg, size, err := parseRange(h)
		res := "err"
		if err == nil {
			res = fmt.Sprintf("ok %d %d %d", reg.b, reg.e, size)
		}
		out.Emit("http-parserange "+verifD06Hex([]byte(h)), res)
		out.Count("parserange-roundtrip")
		if err != nil || reg.b != b || reg.e != e || size != s {
			out.Fail("parserange-roundtrip", fmt.Sprintf("parseRange(%q) = %s", h, res))
		}
	}
}

func verifD06RangeOps(rnd *verifutil.Rand, out *verifutil.Out, n int) {
	ctx := context.Background()
	for i := 0; i < n; i++ {
		chunk := []int64{1, 3, 4, 7, 16, 64, 4096, 1 << 40}[rnd.Intn(8)]
		var rs []region
		k := rnd.Intn(7)
		if i == 0 {
			k = 0
		}
		neg := false
		for j := 0; j < k; j++ {
			ci := rnd.Range(0, 12)
			nn := rnd.Range(1, 3)
			r := region{ci * chunk, (ci+nn)*chunk - 1}
			switch rnd.Intn(12) {
			case 0: // arbitrary, not aligned
				r.b = rnd.Range(0, 100)
				r.e = r.b + rnd.Range(0, 50)
			case 1: // huge
				r.e = 1<<63 - 1 - rnd.Range(0, 1)
			case 2:
				if rnd.Intn(4) == 0 {
					r.b = -rnd.Range(1, 9)
					neg = true
				}
			}
			rs = append(rs, r)
		}
		single := rnd.Intn(3) == 0
		rt := &verifD06RT{reply: func(string) *verifD06Wire { return &verifD06Wire{status: 500, class: "o"} }}
		hf := verifD06Fetcher(rt, single)
		var ws []string
		for _, r := range rs {
			ws = append(ws, fmt.Sprintf("%d:%d", r.b, r.e))
		}
		sflag := "0"
		if single {
			sflag = "1"
		}
		mr, err := hf.fetch(ctx, rs, false)
		if err == nil {
			mr.Close()
			out.Fail("http-500-accepted", "fetch succeeded on status 500")
		}
		res := "norequest"
		if len(rt.ranges) == 1 {
			res = "hdr=" + verifD06Hex([]byte(rt.ranges[0]))
		} else if len(rt.ranges) > 1 {
			out.Fail("http-extra-request", fmt.Sprintf("%d requests with retry=false", len(rt.ranges)))
		}
		out.Emit(strings.TrimSpace("http-range "+sflag+" "+strings.Join(ws, " ")), res)
		out.Count("range")
		if len(rs) == 0 {
			if len(rt.ranges) != 0 {
				out.Fail("range-empty-request-sent", "fetch of an empty region list sent a request")
			}
			continue
		}
		if len(rt.ranges) != 1 {
			out.Fail("range-no-request", fmt.Sprintf("fetch(%v) sent %d requests", rs, len(rt.ranges)))
			continue
		}
		out.Distinct(fmt.Sprintf("rg/%s/%d/%d", sflag, k, len(rt.ranges[0])))
		if neg {
			continue
		}
		// ---- oracle: what a server reads from the header is exactly the squashed request ----
		got, ok := verifD06RFCRanges(rt.ranges[0])
		want := verifD06Squash(rs, single)
		if !ok || verifD06ShowPairs(got) != verifD06ShowPairs(want) {
			out.Fail("range-header-roundtrip", fmt.Sprintf("fetch(%v, single=%v) sent Range %q; a server reads %v (ok=%v), the request is %v", rs, single, rt.ranges[0], got, ok, want))
		}
		// the model's specification parser on the same header
		out.Emit("http-rfc "+verifD06Hex([]byte(rt.ranges[0])), "ok "+verifD06ShowPairs(got))
	}
}

// verifD06GenWire: a reply not tied to any request (classification stream).
func verifD06GenWire(rnd *verifutil.Rand) *verifD06Wire {
	w := &verifD06Wire{}
	w.status = []int{200, 200, 206, 206, 206, 206, 404, 500, 403, 400, 201, 304, 416}[rnd.Intn(13)]
	ct := verifD06CTypes[rnd.Intn(len(verifD06CTypes))]
	if w.status == 206 && rnd.Intn(2) == 0 {
		ct = verifD06CTypes[rnd.Intn(2)]
	}
	w.ctype, w.class = ct[0], ct[1]
	w.cl = []string{"0", "1", "5", "17", "-1", "-5", "+7", "", "x", "1x", " 4", "4 ", "0x10", "1_0", "-", "+",
		"9223372036854775807", "9223372036854775808", "-9223372036854775808", "-9223372036854775809", "007", "\x00absent"}[rnd.Intn(22)]
	w.cr, _ = verifD06Header(rnd)
	w.body = rnd.Bytes(rnd.Intn(20))
	if w.class == "m" {
		n := rnd.Intn(4)
		for i := 0; i < n; i++ {
			it := verifD06Item{body: rnd.Bytes(rnd.Intn(12))}
			switch rnd.Pick(6, 2, 1) {
			case 0:
				it.cr = fmt.Sprintf("bytes %s-%s/%s", verifD06Num(rnd), verifD06Num(rnd), verifD06Num(rnd))
			case 1:
				it.cr = []string{"", "bytes 0-5/*", "bytes 1-2", "x bytes 3-9/20 y", "bytes 1-2/\\", "bytes 4-1/9"}[rnd.Intn(6)]
			default:
				it.broken = true
			}
			w.items = append(w.items, it)
			if it.broken {
				break
			}
		}
	}
	return w
}

func verifD06FetchOps(rnd *verifutil.Rand, out *verifutil.Out, n int) {
	ctx := context.Background()
	for _, ct := range verifD06CTypes { // the harness' own assumption about the trusted mime library
		mt, _, err := mime.ParseMediaType(ct[0])
		cls := "o"
		if err != nil {
			cls = "b"
		} else if strings.HasPrefix(mt, "multipart/") {
			cls = "m"
		}
		if cls != ct[1] {
			panic(fmt.Sprintf("harness assumption broken: Content-Type %q is class %s, table says %s", ct[0], cls, ct[1]))
		}
	}
	for i := 0; i < n; i++ {
		w := verifD06GenWire(rnd)
		rt := &verifD06RT{reply: func(string) *verifD06Wire { return w }}
		hf := verifD06Fetcher(rt, false)
		mr, err := hf.fetch(ctx, []region{{0, 0}}, false)
		res := "err"
		if err == nil {
			var ps []string
			end := "eof"
			var first region
			for k := 0; ; k++ {
				reg, r, err := mr.Next()
				if err == io.EOF {
					break
				}
				if err != nil {
					end = "err"
					break
				}
				if k == 0 {
					first = reg
				}
				data, _ := io.ReadAll(r)
				ps = append(ps, fmt.Sprintf("%d:%d:%d:%d", reg.b, reg.e, len(data), verifFnv(data)))
				if k > 100 {
					out.Fail("http-parts-unbounded", "more than 100 parts from a reply with < 5")
					break
				}
			}
			mr.Close()
			body := "-"
			if len(ps) > 0 {
				body = strings.Join(ps, ",")
			}
			res = "parts " + body + " end=" + end
			// ---- oracle (5): 200 with Content-Length L is the single part [0, L-1] ----
			if w.status == 200 {
				cl := w.cl
				if cl == "\x00absent" {
					cl = ""
				}
				L, ok := verifD06Int64(cl)
				if !ok || len(ps) != 1 || first.b != 0 || first.e != L-1 {
					out.Fail("http-200-region", fmt.Sprintf("status 200 Content-Length %q gave %s", w.cl, res))
				}
			}
		} else if w.status == 200 {
			cl := w.cl
			if cl == "\x00absent" {
				cl = ""
			}
			if _, ok := verifD06Int64(cl); ok {
				out.Fail("http-200-rejected", fmt.Sprintf("status 200 with Content-Length %q rejected", w.cl))
			}
		}
		if err == nil && w.status != 200 && w.status != 206 {
			out.Fail("http-status-accepted", fmt.Sprintf("status %d produced a body", w.status))
		}
		if len(rt.ranges) != 1 {
			out.Fail("http-extra-request", fmt.Sprintf("%d requests with retry=false", len(rt.ranges)))
		}
		ww := *w
		if ww.cl == "\x00absent" {
			ww.cl = ""
		}
		out.Emit("http-fetch "+ww.opWords(), res)
		out.Count(fmt.Sprintf("fetch-%d-%s", w.status, w.class))
		out.Distinct(fmt.Sprintf("f/%d/%s/%s", w.status, w.class, res[:3]) + fmt.Sprint(len(w.items), len(res)))
	}
}

// verifD06Reply builds the reply of a server personality to the ranges it was asked for.
// honest: every part's Content-Range names the bytes the part carries.
func verifD06Reply(rnd *verifutil.Rand, content []byte, chunk int64, rangeHdr string, pers int) (w *verifD06Wire, honest bool, name string) {
	size := int64(len(content))
	rs, ok := verifD06RFCRanges(rangeHdr)
	if !ok || len(rs) == 0 {
		return &verifD06Wire{status: 500, class: "o"}, true, "unparsable-request"
	}
	clip := func(b, e int64) []byte {
		if b < 0 {
			b = 0
		}
		if e >= size {
			e = size - 1
		}
		if b > e {
			return nil
		}
		return content[b : e+1]
	}
	multi := func(parts [][3]int64) *verifD06Wire { // (announced b, announced e, real offset)
		w := &verifD06Wire{status: 206, ctype: verifD06CTypes[0][0], class: "m"}
		for _, p := range parts {
			e := p[1]
			if e >= size {
				e = size - 1
			}
			w.items = append(w.items, verifD06Item{cr: fmt.Sprintf("bytes %d-%d/%d", p[0], e, size), body: clip(p[2], p[2]+(e-p[0]))})
		}
		return w
	}
	var honestParts [][3]int64
	for _, r := range rs {
		honestParts = append(honestParts, [3]int64{r[0], r[1], r[0]})
	}
	lo, hi := rs[0][0], rs[len(rs)-1][1]
	if hi >= size {
		hi = size - 1
	}
	single := func(b, e, off int64) *verifD06Wire {
		return &verifD06Wire{status: 206, ctype: "application/octet-stream", class: "o",
			cr: fmt.Sprintf("bytes %d-%d/%d", b, e, size), cl: fmt.Sprint(e - b + 1), body: clip(off, off+(e-b))}
	}
	switch pers {
	case 0:
		return multi(honestParts), true, "multi"
	case 1:
		return single(lo, hi, lo), true, "squashed"
	case 2:
		return &verifD06Wire{status: 200, ctype: "application/octet-stream", class: "o", cl: fmt.Sprint(size), body: content}, true, "whole"
	case 3:
		return multi(honestParts[:1]), true, "firstonly"
	case 4: // short body of the last part
		w := multi(honestParts)
		it := &w.items[len(w.items)-1]
		if len(it.body) > 0 {
			it.body = it.body[:rnd.Intn(len(it.body))]
		}
		return w, true, "short"
	case 5: // reversed order + a duplicate + an unrequested (aligned) extra part, all honest
		ps := append([][3]int64(nil), honestParts...)
		for i, j := 0, len(ps)-1; i < j; i, j = i+1, j-1 {
			ps[i], ps[j] = ps[j], ps[i]
		}
		ps = append(ps, honestParts[0])
		if size > 0 {
			ps = append(ps, [3]int64{0, chunk - 1, 0})
		}
		return multi(ps), true, "reordered"
	case 6: // a part lies about its position by one chunk
		ps := append([][3]int64(nil), honestParts...)
		i := rnd.Intn(len(ps))
		ps[i][2] = ps[i][0] + chunk
		if ps[i][2] >= size {
			ps[i][2] = ps[i][0] - chunk
		}
		lying := ps[i][2] >= 0 && ps[i][2] != ps[i][0] && !bytes.Equal(clip(ps[i][2], ps[i][2]+ps[i][1]-ps[i][0]), clip(ps[i][0], ps[i][1]))
		return multi(ps), !lying, "lying-position"
	case 7: // misaligned announced start
		ps := append([][3]int64(nil), honestParts...)
		i := rnd.Intn(len(ps))
		ps[i][0]++
		ps[i][2]++
		return multi(ps), true, "misaligned"
	case 8: // one part's Content-Range is not parsable
		w := multi(honestParts)
		i := rnd.Intn(len(w.items))
		w.items[i].cr = []string{"", fmt.Sprintf("bytes %d-%d/*", rs[i][0], rs[i][1]), "bytes x-y/z", fmt.Sprintf("bytes %d-%d", rs[i][0], rs[i][1])}[rnd.Intn(4)]
		return w, true, "bad-content-range"
	case 9: // the multipart body breaks after k parts
		w := multi(honestParts)
		k := rnd.Intn(len(w.items) + 1)
		w.items = append(w.items[:k:k], verifD06Item{broken: true})
		return w, true, "broken-multipart"
	case 10: // 200 with a Content-Length that is not the blob size
		cl := []string{"0", "-1", "-7", fmt.Sprint(size - 1), fmt.Sprint(size + 1), fmt.Sprint(chunk), "x", "", "+" + fmt.Sprint(size), "-9223372036854775808"}[rnd.Intn(10)]
		return &verifD06Wire{status: 200, ctype: "text/plain; charset=utf-8", class: "o", cl: cl, body: content}, true, "odd-content-length"
	case 11: // single 206 that lies about its position / decorated but honest header
		if rnd.Bool() {
			w := single(lo, hi, lo)
			w.cr = "junk " + w.cr + " bytes 0-0/1"
			return w, true, "decorated-single"
		}
		off := lo + chunk
		if off >= size {
			off = lo - chunk
		}
		lying := off >= 0 && !bytes.Equal(clip(off, off+hi-lo), clip(lo, hi))
		return single(lo, hi, off), !lying, "lying-single"
	case 12: // parts with e < b, empty multipart, wrong media type
		switch rnd.Intn(3) {
		case 0:
			w := multi(honestParts)
			w.items = append([]verifD06Item{{cr: fmt.Sprintf("bytes %d-%d/%d", chunk*2, chunk, size), body: []byte("zz")}}, w.items...)
			return w, true, "reversed-part"
		case 1:
			return multi(nil), true, "empty-multipart"
		default:
			w := multi(honestParts)
			w.ctype, w.class = "", "b"
			w.items = nil
			return w, true, "bad-media-type"
		}
	default:
		st := []int{404, 500, 416, 201}[rnd.Intn(4)]
		return &verifD06Wire{status: st, class: "o", ctype: "application/octet-stream"}, true, "status"
	}
}

func verifD06ReadOps(rnd *verifutil.Rand, out *verifutil.Out, nhist int) {
	for h := 0; h < nhist; h++ {
		chunk := []int64{1, 3, 4, 7, 16}[rnd.Intn(5)]
		var size int64
		switch rnd.Intn(6) {
		case 0:
			size = chunk
		case 1:
			size = chunk*rnd.Range(2, 6) + rnd.Range(-1, 1)
		case 2:
			size = 1
		default:
			size = rnd.Range(1, 120)
		}
		if size < 1 {
			size = 1
		}
		salt := int64(rnd.Intn(1000))
		content := verifContent(size, salt)
		single := rnd.Intn(3) == 0
		var pers int
		var curHonest bool
		var curName string
		rt := &verifD06RT{}
		rt.reply = func(r string) *verifD06Wire {
			w, hon, name := verifD06Reply(rnd, content, chunk, r, pers)
			curHonest, curName = hon, name
			return w
		}
		hf := verifD06Fetcher(rt, single)
		mc := newVerifMapCache()
		bl := makeBlob(hf, size, chunk, 0, mc, time.Now(), time.Hour, nil, 10*time.Second)
		out.Emit(fmt.Sprintf("blob %d %d %d", size, chunk, salt), "ok")
		poisoned := false
		shape := ""
		nops := 2 + rnd.Intn(8)
		sflag := "0"
		if single {
			sflag = "1"
		}
		for i := 0; i < nops; i++ {
			var o, n int64
			switch rnd.Intn(5) {
			case 0:
				o, n = 0, size
			case 1:
				o, n = rnd.Range(0, size), size+rnd.Range(0, 5)
			default:
				o = rnd.Range(0, size)
				n = rnd.Range(1, size-o+1)
			}
			pers = rnd.Pick(6, 3, 3, 2, 2, 3, 4, 2, 3, 3, 4, 3, 3, 1)
			rt.ranges, rt.wires = nil, nil
			curHonest, curName = true, "nofetch"
			p := make([]byte, n)
			k, err := bl.ReadAt(p, o)
			if len(rt.ranges) > 1 {
				out.Fail("http-extra-request", fmt.Sprintf("ReadAt sent %d requests for one fetch", len(rt.ranges)))
			}
			hdr := "none"
			wire := "500 o - - -"
			if len(rt.ranges) >= 1 {
				hdr = "hdr=" + verifD06Hex([]byte(rt.ranges[0]))
				wire = rt.wires[0].opWords()
			}
			res := "err"
			if err == nil {
				res = fmt.Sprintf("ok k=%d sum=%d", k, verifFnv(p[:k]))
			}
			out.Emit(fmt.Sprintf("http-read %d %d %s %s", o, n, sflag, wire),
				fmt.Sprintf("%s %s fetched=%d", res, hdr, bl.FetchedSize()))
			out.Count("read-" + curName)
			if !curHonest {
				poisoned = true
			}
			// ---- oracle: bytes on the wire honest => ReadAt is byte-exact (or an error) ----
			if err == nil && !poisoned {
				want := size - o
				if n < want {
					want = n
				}
				if int64(k) != want || !bytes.Equal(p[:k], content[o:o+want]) {
					out.Fail("http-honest-read-bytes-differ", fmt.Sprintf("size=%d chunk=%d ReadAt(o=%d,n=%d) after wire-honest replies only (last: %s) returned k=%d, bytes equal=%v", size, chunk, o, n, curName, k, int64(k) == want && bytes.Equal(p[:k], content[o:o+want])))
				}
			}
			// the request must cover what is missing: an honest full answer never fails
			if err != nil && (curName == "multi" || curName == "squashed" || curName == "whole" || curName == "reordered" || curName == "decorated-single") {
				out.Fail("http-honest-full-answer-failed", fmt.Sprintf("size=%d chunk=%d single=%v ReadAt(o=%d,n=%d) failed on personality %s (Range %q)", size, chunk, single, o, n, curName, strings.Join(rt.ranges, " | ")))
			}
			if err == nil {
				shape += curName[:2]
			} else {
				shape += "E"
			}
		}
		out.Distinct(fmt.Sprintf("rd/%d/%d/%s/%s", size, chunk, sflag, shape))
	}
}

// TestVerifC06D: the HTTP wire level of the fetcher.
func TestVerifC06D(t *testing.T) {
	log.SetLevel("error")
	rnd := verifutil.NewRand(verifutil.Seed() + 4000)
	out := verifutil.OpenOut()
	defer out.Close()
	n := verifutil.EnvInt("VERIF_N", 200)
	out.Comment("parseRange")
	verifD06ParseRangeOps(rnd, out, 4*n)
	out.Comment("Range header")
	verifD06RangeOps(rnd, out, n)
	out.Comment("reply classification")
	verifD06FetchOps(rnd, out, 2*n)
	out.Comment("ReadAt over wire replies")
	verifD06ReadOps(rnd, out, n)
}
