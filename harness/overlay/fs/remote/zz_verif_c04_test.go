//go:build verif

package remote

// C04 for fs/remote: hostile HTTP range metadata.  parseRange on arbitrary Content-Range headers and
// blob.ReadAt / blob.Cache against a fetcher whose reply parts carry arbitrary regions (unaligned,
// reversed, beyond the blob, overlapping, huge) and arbitrary amounts of data.  Every input runs in a
// crash-isolated child (internal/verifc04); the byte-exactness of the replies is C06's business, here
// only "error, never a crash or a hang" is checked.

import (
	"bytes"
	"context"
	"fmt"
	"io"
	"net/http"
	"strconv"
	"strings"
	"sync"
	"testing"
	"time"

	"github.com/containerd/stargz-snapshotter/cache"
	"github.com/containerd/stargz-snapshotter/internal/verifc04"
	"github.com/containerd/stargz-snapshotter/internal/verifutil"
)

type verifC04Part struct {
	reg region
	n   int64
}

type verifC04Fetcher struct{ parts []verifC04Part }

type verifC04MR struct {
	parts []verifC04Part
	i     int
}

type verifC04Zero struct{ n int64 }

func (z *verifC04Zero) Read(p []byte) (int, error) {
	if z.n <= 0 {
		return 0, io.EOF
	}
	if int64(len(p)) > z.n {
		p = p[:z.n]
	}
	for i := range p {
		p[i] = 0
	}
	z.n -= int64(len(p))
	return len(p), nil
}

func (m *verifC04MR) Next() (region, io.Reader, error) {
	if m.i >= len(m.parts) {
		return region{}, nil, io.EOF
	}
	p := m.parts[m.i]
	m.i++
	n := p.n
	if n > 1<<20 {
		n = 1 << 20 // a server cannot be asked for more than it sends; keep the test cheap
	}
	return p.reg, &verifC04Zero{n}, nil
}
func (m *verifC04MR) Close() error { return nil }

func (f *verifC04Fetcher) fetch(ctx context.Context, rs []region, retry bool) (multipartReadCloser, error) {
	return &verifC04MR{parts: f.parts}, nil
}
func (f *verifC04Fetcher) check() error { return nil }
func (f *verifC04Fetcher) genID(reg region) string {
	return fmt.Sprintf("%d-%d", reg.b, reg.e)
}

// ---- registry personalities: a scripted http.RoundTripper under the REAL httpFetcher -------------

// verifC04Srv answers every request according to its personality, counts the requests and refuses to
// answer after verifC04ReqCap of them (so that a request storm ends quickly and is reported).
type verifC04Srv struct {
	pers   string
	size   int64
	mu     sync.Mutex
	nProbe int
	nRange int
	nOther int
	capped bool
}

const verifC04ReqCap = 200

// verifC04ReqBound: the code makes at most 2 ranged GETs + 1 location probe per fetch and 1 probe +
// 1 refresh per check; a ReadAt/Cache is one fetch (plus at most one retry of fetchRange).
const verifC04ReqBound = 8

func (s *verifC04Srv) total() int { return s.nProbe + s.nRange + s.nOther }

func verifC04Resp(req *http.Request, code int, hdr map[string]string, body []byte) *http.Response {
	h := http.Header{}
	for k, v := range hdr {
		h.Set(k, v)
	}
	return &http.Response{StatusCode: code, Status: fmt.Sprintf("%d %s", code, http.StatusText(code)), Header: h,
		Body: io.NopCloser(bytes.NewReader(body)), ContentLength: int64(len(body)), Request: req, Proto: "HTTP/1.1", ProtoMajor: 1, ProtoMinor: 1}
}

func (s *verifC04Srv) RoundTrip(req *http.Request) (*http.Response, error) {
	s.mu.Lock()
	defer s.mu.Unlock()
	if err := req.Context().Err(); err != nil {
		return nil, err
	}
	if s.total() >= verifC04ReqCap {
		s.capped = true
		return nil, fmt.Errorf("verif: request cap reached")
	}
	rng := req.Header.Get("Range")
	probe := rng == "bytes=0-1"
	switch {
	case req.Method != "GET":
		s.nOther++
	case probe:
		s.nProbe++
	default:
		s.nRange++
	}
	// a healthy answer to a ranged GET: the first range as a single part, or the whole blob
	healthy := func() *http.Response {
		var b, e int64
		if n, _ := fmt.Sscanf(strings.SplitN(strings.TrimPrefix(rng, "bytes="), ",", 2)[0], "%d-%d", &b, &e); n == 2 && !strings.Contains(rng, ",") && b >= 0 && e >= b && e < s.size {
			return verifC04Resp(req, 206, map[string]string{"Content-Range": fmt.Sprintf("bytes %d-%d/%d", b, e, s.size), "Content-Type": "application/octet-stream"}, make([]byte, e-b+1))
		}
		return verifC04Resp(req, 200, map[string]string{"Content-Length": fmt.Sprint(s.size)}, make([]byte, s.size))
	}
	okProbe := func() *http.Response {
		return verifC04Resp(req, 206, map[string]string{"Content-Range": fmt.Sprintf("bytes 0-1/%d", s.size)}, []byte{0, 0})
	}
	self := req.URL.String()
	switch s.pers {
	case "healthy":
		if probe {
			return okProbe(), nil
		}
		return healthy(), nil
	case "403-forever": // every ranged GET is refused, the location probe stays healthy
		if probe {
			return okProbe(), nil
		}
		return verifC04Resp(req, 403, nil, nil), nil
	case "403-once":
		if probe {
			return okProbe(), nil
		}
		if s.nRange == 1 {
			return verifC04Resp(req, 403, nil, nil), nil
		}
		return healthy(), nil
	case "400-forever":
		if probe {
			return okProbe(), nil
		}
		return verifC04Resp(req, 400, nil, nil), nil
	case "alt-403-400":
		if probe {
			return okProbe(), nil
		}
		if s.nRange%2 == 1 {
			return verifC04Resp(req, 403, nil, nil), nil
		}
		return verifC04Resp(req, 400, nil, nil), nil
	case "alt-400-403":
		if probe {
			return okProbe(), nil
		}
		if s.nRange%2 == 1 {
			return verifC04Resp(req, 400, nil, nil), nil
		}
		return verifC04Resp(req, 403, nil, nil), nil
	case "probe-redirect-self": // the probe is answered 307 to the very same URL, ranged GETs are refused
		if probe {
			return verifC04Resp(req, 307, map[string]string{"Location": self}, nil), nil
		}
		return verifC04Resp(req, 403, nil, nil), nil
	case "redirect-everything": // 307 to itself whatever is asked
		return verifC04Resp(req, 307, map[string]string{"Location": self}, nil), nil
	case "403-everything":
		return verifC04Resp(req, 403, nil, nil), nil
	case "probe-403": // ranged GETs are refused and so is the probe
		if probe {
			return verifC04Resp(req, 403, nil, nil), nil
		}
		return verifC04Resp(req, 403, nil, nil), nil
	case "500-forever":
		if probe {
			return okProbe(), nil
		}
		return verifC04Resp(req, 500, nil, nil), nil
	case "206-no-content-range":
		if probe {
			return okProbe(), nil
		}
		return verifC04Resp(req, 206, map[string]string{"Content-Type": "application/octet-stream"}, make([]byte, 4)), nil
	case "206-bad-multipart":
		if probe {
			return okProbe(), nil
		}
		return verifC04Resp(req, 206, map[string]string{"Content-Type": "multipart/byteranges; boundary=x"}, []byte("--x\r\nContent-Range: bytes 5-2/3\r\n\r\nabc\r\n--x--\r\n")), nil
	}
	return verifC04Resp(req, 404, nil, nil), nil
}

var verifC04Personalities = []string{"healthy", "403-forever", "403-once", "400-forever", "alt-403-400", "alt-400-403", "probe-redirect-self",
	"redirect-everything", "403-everything", "probe-403", "500-forever", "206-no-content-range", "206-bad-multipart"}

// verifC04Server: "srv <personality> <singleRange 0|1> <size> <chunk> <off> <len>": blob.ReadAt, blob.Cache and
// blob.Check through the real httpFetcher; the number of requests each of them causes is bounded.
func verifC04Server(w []string, in *verifc04.Input, rec *verifc04.Rec) {
	if len(w) != 7 {
		rec.Fail("harness-bad-op", in.Op)
		return
	}
	var v [4]int64
	for i := 0; i < 4; i++ {
		x, err := strconv.ParseInt(w[3+i], 10, 64)
		if err != nil {
			rec.Fail("harness-bad-op", in.Op)
			return
		}
		v[i] = x
	}
	run := func(target string, f func(bl *blob) error) {
		srv := &verifC04Srv{pers: w[1], size: v[0]}
		u := "https://reg.test/v2/img/blobs/sha256:0000"
		hf := &httpFetcher{url: u, blobURL: u, tr: srv, timeout: 3 * time.Second, singleRange: w[2] == "1"}
		bl := makeBlob(hf, v[0], v[1], v[1], cache.NewMemoryCache(), time.Now(), time.Hour, nil, 3*time.Second)
		rec.Try(target, func() error { return f(bl) })
		if n := srv.total(); n > verifC04ReqBound {
			rec.Fail("request-storm:"+w[1], fmt.Sprintf("%s caused %d requests (%d ranged GETs, %d probes, cap reached: %v); at most %d are expected",
				target, n, srv.nRange, srv.nProbe, srv.capped, verifC04ReqBound))
		}
	}
	if v[2] >= 0 && v[2] < v[0] && v[3] >= 0 && v[3] <= 1<<20 {
		run("srv.ReadAt", func(bl *blob) error {
			_, err := bl.ReadAt(make([]byte, v[3]), v[2])
			return err
		})
	}
	run("srv.Cache", func(bl *blob) error { return bl.Cache(0, v[3]) })
	run("srv.Check", func(bl *blob) error {
		bl.lastCheck = time.Time{} // force the check
		bl.checkInterval = 0
		return bl.Check()
	})
}

func verifC04Run(in *verifc04.Input, rec *verifc04.Rec) {
	if in.Kind != "range" {
		return
	}
	w := strings.Fields(in.Op)
	switch w[0] {
	case "srv":
		verifC04Server(w, in, rec)
	case "hdr":
		rec.Try("parseRange", func() error {
			_, _, err := parseRange(string(in.Data))
			return err
		})
	case "blob":
		// blob <size> <chunk> <off> <len> <b:e:n>...
		if len(w) < 5 {
			rec.Fail("harness-bad-op", in.Op)
			return
		}
		var v [4]int64
		for i := 0; i < 4; i++ {
			x, err := strconv.ParseInt(w[1+i], 10, 64)
			if err != nil {
				rec.Fail("harness-bad-op", in.Op)
				return
			}
			v[i] = x
		}
		f := &verifC04Fetcher{}
		for _, s := range w[5:] {
			q := strings.Split(s, ":")
			if len(q) != 3 {
				rec.Fail("harness-bad-op", in.Op)
				return
			}
			b, _ := strconv.ParseInt(q[0], 10, 64)
			e, _ := strconv.ParseInt(q[1], 10, 64)
			n, _ := strconv.ParseInt(q[2], 10, 64)
			f.parts = append(f.parts, verifC04Part{region{b, e}, n})
		}
		bl := makeBlob(f, v[0], v[1], v[1], cache.NewMemoryCache(), time.Now(), time.Hour, nil, 5*time.Second)
		// ReadAt is only reached through an io.SectionReader over the blob (fs/layer), which lets
		// offsets 0 <= off < size through; the length is the reader's.  Cache is called with offset 0
		// and a size that comes from the TOC (offset of the prefetch landmark): any int64.
		if v[2] >= 0 && v[2] < v[0] && v[3] >= 0 && v[3] <= 1<<20 {
			rec.Try("blob.ReadAt", func() error {
				_, err := bl.ReadAt(make([]byte, v[3]), v[2])
				return err
			})
		}
		rec.Try("blob.Cache", func() error { return bl.Cache(0, v[3]) })
	}
}

func TestVerifC04Child(t *testing.T) { verifc04.ChildMain(verifC04Run) }

func TestVerifC04(t *testing.T) {
	out := verifutil.OpenOut()
	defer out.Close()
	r := verifutil.NewRand(verifutil.Seed())
	n := verifutil.EnvInt("VERIF_N", 600)
	adv := func(bounds ...int64) int64 {
		c := []int64{-1, 0, 1, 2, 3, 7, 8, 9, 1 << 31, 1 << 40, 1<<62 - 1, 1 << 62, 1<<63 - 1, -1 << 63, -1 << 62}
		switch r.Pick(5, 3, 3) {
		case 0:
			return bounds[r.Intn(len(bounds))] + r.Range(-2, 2)
		case 1:
			return c[r.Intn(len(c))]
		}
		return r.Range(-3, 40)
	}
	var inputs []verifc04.Input
	// repaired by 26d4364: a reply that carries a chunk nobody asked for twice (overlapping parts)
	inputs = append(inputs,
		verifc04.Input{Class: "fixed:26d4364:reply-repeats-unrequested-chunk", Kind: "range", Op: "blob 100 1 37 14 7:7:1 5:7:3"},
		verifc04.Input{Class: "scenario:reply-exact", Kind: "range", Op: "blob 100 10 35 10 30:49:20"})
	// registry personalities under the real httpFetcher: every personality, both range modes, hand-written
	// (one child each, never skipped) and then with generated sizes
	for _, p := range verifC04Personalities {
		for _, sr := range []int{0, 1} {
			inputs = append(inputs, verifc04.Input{Class: fmt.Sprintf("scenario:registry:%s:single=%d", p, sr), Kind: "range",
				Op: fmt.Sprintf("srv %s %d 100 10 35 30", p, sr)})
		}
	}
	for i := 0; i < n/4; i++ {
		size := []int64{1, 7, 64, 100, 1000}[r.Intn(5)]
		inputs = append(inputs, verifc04.Input{Class: "range:registry", Kind: "range",
			Op: fmt.Sprintf("srv %s %d %d %d %d %d", verifC04Personalities[r.Intn(len(verifC04Personalities))], r.Intn(2), size,
				[]int64{1, 3, 8, 10}[r.Intn(4)], r.Range(0, size-1), r.Range(0, 64))})
	}
	hdrs := []string{"", "bytes", "bytes 0-0/1", "bytes 5-2/10", "bytes 10-20/5", "bytes 0-18446744073709551615/18446744073709551616",
		"bytes 99999999999999999999-1/2", "bytes 0-1/*", "bytes 0-1/99999999999999999999999", "bytes -1-2/3", "bytes 0--1/3", "BYTES 0-1/2",
		"bytes 0-1/2 bytes 3-4/5", "bytes 9223372036854775807-9223372036854775807/9223372036854775807", "bytes 00000000000000000001-2/3", "bytes 1-2/\\*"}
	for _, h := range hdrs {
		inputs = append(inputs, verifc04.Input{Class: "range:hdr-fixed", Kind: "range", Op: "hdr", Data: []byte(h)})
	}
	for i := 0; i < n/3; i++ {
		h := fmt.Sprintf("bytes %d-%d/%d", adv(0, 10), adv(0, 10), adv(10))
		if r.Intn(4) == 0 {
			h = string(r.Bytes(r.Intn(40)))
		}
		inputs = append(inputs, verifc04.Input{Class: "range:hdr", Kind: "range", Op: "hdr", Data: []byte(h)})
	}
	for i := 0; i < n; i++ {
		size := []int64{0, 1, 7, 8, 9, 64, 100}[r.Intn(7)]
		chunk := []int64{1, 3, 8, 10}[r.Intn(4)]
		off := r.Range(0, size)
		ln := r.Range(0, 40)
		if r.Intn(6) == 0 {
			ln = adv(size)
		}
		op := fmt.Sprintf("blob %d %d %d %d", size, chunk, off, ln)
		for k := 0; k < int(r.Range(0, 4)); k++ {
			var b, e, cnt int64
			if r.Intn(3) > 0 { // plausible: chunk aligned part
				b = r.Range(0, 12) * chunk
				e = b + r.Range(1, 3)*chunk - 1
				cnt = e - b + 1 - int64(r.Intn(3))*int64(r.Intn(2))
			} else {
				b, e, cnt = adv(0, size, chunk), adv(0, size, chunk), adv(0, chunk)
				// a region comes out of parseRange: the regexp admits digits only, so both ends are
				// within [0, 2^63-1] (anything else is a parse error, exercised by the hdr inputs)
				if b < 0 {
					b = -(b + 1)
				}
				if e < 0 {
					e = -(e + 1)
				}
			}
			op += fmt.Sprintf(" %d:%d:%d", b, e, cnt)
		}
		inputs = append(inputs, verifc04.Input{Class: "range:blob", Kind: "range", Op: op})
	}
	out.Comment(fmt.Sprintf("C04 remote binary: %d inputs", len(inputs)))
	sum := verifc04.Run(out, inputs, verifc04.DefaultConfig())
	out.Comment(fmt.Sprintf("inputs=%d crashes=%d hangs=%d", sum.Inputs, sum.Crashes, sum.Hangs))
	t.Logf("C04 remote: %d inputs, %d crashes, %d hangs", sum.Inputs, sum.Crashes, sum.Hangs)
}
