//go:build verif

package remote

// C04 for fs/remote: hostile registry replies.  A scripted http.RoundTripper plays the registry
// under the REAL resolver/fetcher/blob code, reached through the exported API only
// (NewResolver(...).Resolve -> Blob.ReadAt / Cache / Check), so that a refactoring of the package's
// internals cannot break the harness:
//   * reply parts with arbitrary Content-Range texts (unaligned, reversed, beyond the blob,
//     overlapping, repeated, huge, malformed) and arbitrary amounts of data, as multipart or single part;
//   * registry "personalities" that repeat one status for ever (403 on every ranged GET with a healthy
//     location probe, 400 for ever, alternating 403/400, redirect loops, ...), with an oracle bounding
//     the number of requests one ReadAt / Cache / Check may cause.
// Every input runs in a crash-isolated child (internal/verifc04); the byte-exactness of the replies is
// C06's business, here only "error, never a crash, a hang or a request storm" is checked.

import (
	"bytes"
	"context"
	"encoding/hex"
	"fmt"
	"io"
	"net/http"
	"strconv"
	"strings"
	"sync"
	"testing"

	"github.com/containerd/containerd/v2/core/remotes/docker"
	"github.com/containerd/containerd/v2/pkg/reference"
	"github.com/containerd/stargz-snapshotter/cache"
	"github.com/containerd/stargz-snapshotter/fs/config"
	"github.com/containerd/stargz-snapshotter/internal/verifc04"
	"github.com/containerd/stargz-snapshotter/internal/verifutil"
	digest "github.com/opencontainers/go-digest"
	ocispec "github.com/opencontainers/image-spec/specs-go/v1"
)

type verifC04Part struct {
	cr string // Content-Range text of the part
	n  int64  // bytes of body
}

// verifC04Srv answers healthily until it is armed (the blob has to be resolved first), then according
// to its personality or its scripted parts.  It counts the requests and refuses to answer after
// verifC04ReqCap of them (so that a request storm ends quickly and is reported).
type verifC04Srv struct {
	pers   string
	parts  []verifC04Part
	single bool // answer the parts as ONE single-part 206 (first part only)
	size   int64

	mu     sync.Mutex
	armed  bool
	nProbe int
	nRange int
	nOther int
	capped bool
}

const verifC04ReqCap = 200

// verifC04ReqBound: the code makes at most 2 ranged GETs + 1 location probe per fetch and 1 probe +
// 1 refresh per check; a ReadAt/Cache is one fetch (plus at most one retry of fetchRange).
const verifC04ReqBound = 8

func (s *verifC04Srv) arm() {
	s.mu.Lock()
	s.armed, s.nProbe, s.nRange, s.nOther, s.capped = true, 0, 0, 0, false
	s.mu.Unlock()
}

func (s *verifC04Srv) counts() (total, ranged, probes int, capped bool) {
	s.mu.Lock()
	defer s.mu.Unlock()
	return s.nProbe + s.nRange + s.nOther, s.nRange, s.nProbe, s.capped
}

func verifC04Resp(req *http.Request, code int, hdr map[string]string, body []byte) *http.Response {
	h := http.Header{}
	for k, v := range hdr {
		h.Set(k, v)
	}
	return &http.Response{StatusCode: code, Status: fmt.Sprintf("%d %s", code, http.StatusText(code)), Header: h,
		Body: io.NopCloser(bytes.NewReader(body)), ContentLength: int64(len(body)), Request: req, Proto: "HTTP/1.1", ProtoMajor: 1, ProtoMinor: 1}
}

func verifC04Zeros(n int64) []byte {
	if n < 0 {
		n = 0
	}
	if n > 1<<20 {
		n = 1 << 20 // a server cannot be asked for more than it sends; keep the test cheap
	}
	return make([]byte, n)
}

func (s *verifC04Srv) RoundTrip(req *http.Request) (*http.Response, error) {
	s.mu.Lock()
	defer s.mu.Unlock()
	if err := req.Context().Err(); err != nil {
		return nil, err
	}
	if s.nProbe+s.nRange+s.nOther >= verifC04ReqCap {
		s.capped = true
		return nil, fmt.Errorf("verif: request cap reached")
	}
	rng := req.Header.Get("Range")
	probe := rng == "bytes=0-1"
	switch {
	case req.Method != "GET":
		s.nOther++
	case probe:
		s.nProbe++
	default:
		s.nRange++
	}
	// a healthy answer to a ranged GET: the first range as a single part, or the whole blob
	healthy := func() *http.Response {
		var b, e int64
		if n, _ := fmt.Sscanf(strings.SplitN(strings.TrimPrefix(rng, "bytes="), ",", 2)[0], "%d-%d", &b, &e); n == 2 && !strings.Contains(rng, ",") && b >= 0 && e >= b && e < s.size {
			return verifC04Resp(req, 206, map[string]string{"Content-Range": fmt.Sprintf("bytes %d-%d/%d", b, e, s.size), "Content-Type": "application/octet-stream"}, verifC04Zeros(e-b+1))
		}
		return verifC04Resp(req, 200, map[string]string{"Content-Length": fmt.Sprint(s.size)}, verifC04Zeros(s.size))
	}
	okProbe := func() *http.Response {
		return verifC04Resp(req, 206, map[string]string{"Content-Range": fmt.Sprintf("bytes 0-1/%d", s.size)}, []byte{0, 0})
	}
	if req.Method == "HEAD" {
		return verifC04Resp(req, 200, map[string]string{"Content-Length": fmt.Sprint(s.size)}, nil), nil
	}
	if !s.armed {
		if probe {
			return okProbe(), nil
		}
		return healthy(), nil
	}
	self := req.URL.String()
	status := func(code int) (*http.Response, error) { return verifC04Resp(req, code, nil, nil), nil }
	switch s.pers {
	case "parts": // scripted reply parts
		if probe {
			return okProbe(), nil
		}
		if len(s.parts) == 0 {
			return verifC04Resp(req, 206, map[string]string{"Content-Type": "multipart/byteranges; boundary=vb"}, []byte("--vb--\r\n")), nil
		}
		if s.single {
			p := s.parts[0]
			return verifC04Resp(req, 206, map[string]string{"Content-Range": p.cr, "Content-Type": "application/octet-stream"}, verifC04Zeros(p.n)), nil
		}
		var body bytes.Buffer
		for _, p := range s.parts {
			fmt.Fprintf(&body, "--vb\r\nContent-Type: application/octet-stream\r\nContent-Range: %s\r\n\r\n", p.cr)
			body.Write(verifC04Zeros(p.n))
			body.WriteString("\r\n")
		}
		body.WriteString("--vb--\r\n")
		return verifC04Resp(req, 206, map[string]string{"Content-Type": "multipart/byteranges; boundary=vb"}, body.Bytes()), nil
	case "healthy":
		if probe {
			return okProbe(), nil
		}
		return healthy(), nil
	case "403-forever": // every ranged GET is refused, the location probe stays healthy
		if probe {
			return okProbe(), nil
		}
		return status(403)
	case "403-once":
		if probe {
			return okProbe(), nil
		}
		if s.nRange == 1 {
			return status(403)
		}
		return healthy(), nil
	case "400-forever":
		if probe {
			return okProbe(), nil
		}
		return status(400)
	case "alt-403-400":
		if probe {
			return okProbe(), nil
		}
		if s.nRange%2 == 1 {
			return status(403)
		}
		return status(400)
	case "alt-400-403":
		if probe {
			return okProbe(), nil
		}
		if s.nRange%2 == 1 {
			return status(400)
		}
		return status(403)
	case "probe-redirect-self": // the probe is answered 307 to the very same URL, ranged GETs are refused
		if probe {
			return verifC04Resp(req, 307, map[string]string{"Location": self}, nil), nil
		}
		return status(403)
	case "redirect-everything": // 307 to itself whatever is asked
		return verifC04Resp(req, 307, map[string]string{"Location": self}, nil), nil
	case "403-everything", "probe-403":
		return status(403)
	case "500-forever":
		if probe {
			return okProbe(), nil
		}
		return status(500)
	case "206-no-content-range":
		if probe {
			return okProbe(), nil
		}
		return verifC04Resp(req, 206, map[string]string{"Content-Type": "application/octet-stream"}, make([]byte, 4)), nil
	case "206-bad-multipart":
		if probe {
			return okProbe(), nil
		}
		return verifC04Resp(req, 206, map[string]string{"Content-Type": "multipart/byteranges; boundary=x"}, []byte("--x\r\nContent-Range: bytes 5-2/3\r\n\r\nabc\r\n--x--\r\n")), nil
	case "200-bad-length":
		if probe {
			return okProbe(), nil
		}
		return verifC04Resp(req, 200, map[string]string{"Content-Length": "-7"}, make([]byte, 4)), nil
	}
	return status(404)
}

var verifC04Personalities = []string{"healthy", "403-forever", "403-once", "400-forever", "alt-403-400", "alt-400-403", "probe-redirect-self",
	"redirect-everything", "403-everything", "probe-403", "500-forever", "206-no-content-range", "206-bad-multipart", "200-bad-length"}

// verifC04Blob resolves a blob of the given size against the (still healthy) server.
func verifC04Blob(srv *verifC04Srv, chunk int64, singleRange bool) (Blob, error) {
	hosts := func(ref reference.Spec) ([]docker.RegistryHost, error) {
		return []docker.RegistryHost{{Client: &http.Client{Transport: srv}, Host: "reg.test", Scheme: "https", Path: "/v2",
			Capabilities: docker.HostCapabilityPull | docker.HostCapabilityResolve}}, nil
	}
	refspec, err := reference.Parse("reg.test/img/test:latest")
	if err != nil {
		return nil, err
	}
	res := NewResolver(config.BlobConfig{ChunkSize: chunk, CheckAlways: true, FetchTimeoutSec: 3, ForceSingleRangeMode: singleRange,
		MaxRetries: 1, MinWaitMSec: 1, MaxWaitMSec: 2}, nil)
	return res.Resolve(context.Background(), hosts, refspec, ocispec.Descriptor{Digest: digest.FromString("blob"), Size: srv.size}, cache.NewMemoryCache())
}

// verifC04Drive: one fresh blob + server per target, so that the request count belongs to one call.
// ReadAt is only reached through an io.SectionReader over the blob (fs/layer), which lets offsets
// 0 <= off < size through; the length is the reader's.  Cache is called with offset 0 and a size that
// comes from the TOC (offset of the prefetch landmark): any int64.
func verifC04Drive(rec *verifc04.Rec, in *verifc04.Input, mk func() *verifC04Srv, chunk int64, singleRange bool, off, ln int64, tag string) {
	run := func(target string, f func(bl Blob) error) {
		srv := mk()
		bl, err := verifC04Blob(srv, chunk, singleRange)
		if err != nil {
			rec.Fail("harness-resolve", fmt.Sprintf("%s: %v", in.Op, err))
			return
		}
		srv.arm()
		rec.Try(target, func() error { return f(bl) })
		if n, ranged, probes, capped := srv.counts(); n > verifC04ReqBound {
			rec.Fail("request-storm:"+tag, fmt.Sprintf("%s caused %d requests (%d ranged GETs, %d probes, cap reached: %v); at most %d are expected",
				target, n, ranged, probes, capped, verifC04ReqBound))
		}
		bl.Close()
	}
	size := mk().size
	if off >= 0 && off < size && ln >= 0 && ln <= 1<<20 {
		run("blob.ReadAt", func(bl Blob) error {
			_, err := bl.ReadAt(make([]byte, ln), off)
			return err
		})
	}
	run("blob.Cache", func(bl Blob) error { return bl.Cache(0, ln) })
	run("blob.Check", func(bl Blob) error { return bl.Check() })
}

func verifC04Run(in *verifc04.Input, rec *verifc04.Rec) {
	if in.Kind != "range" {
		return
	}
	w := strings.Fields(in.Op)
	bad := func() { rec.Fail("harness-bad-op", in.Op) }
	nums := func(ws []string) ([]int64, bool) {
		var v []int64
		for _, s := range ws {
			x, err := strconv.ParseInt(s, 10, 64)
			if err != nil {
				return nil, false
			}
			v = append(v, x)
		}
		return v, true
	}
	switch w[0] {
	case "srv": // srv <personality> <singleRange 0|1> <size> <chunk> <off> <len>
		if len(w) != 7 {
			bad()
			return
		}
		v, ok := nums(w[3:])
		if !ok || v[0] <= 0 || v[1] <= 0 {
			bad()
			return
		}
		verifC04Drive(rec, in, func() *verifC04Srv { return &verifC04Srv{pers: w[1], size: v[0]} }, v[1], w[2] == "1", v[2], v[3], w[1])
	case "parts": // parts <single 0|1> <size> <chunk> <off> <len> <hex content-range>:<n> ...
		if len(w) < 6 {
			bad()
			return
		}
		v, ok := nums(w[2:6])
		if !ok || v[0] <= 0 || v[1] <= 0 {
			bad()
			return
		}
		var parts []verifC04Part
		for _, s := range w[6:] {
			q := strings.Split(s, ":")
			if len(q) != 2 {
				bad()
				return
			}
			cr, err1 := hex.DecodeString(q[0])
			n, err2 := strconv.ParseInt(q[1], 10, 64)
			if err1 != nil || err2 != nil {
				bad()
				return
			}
			parts = append(parts, verifC04Part{string(cr), n})
		}
		verifC04Drive(rec, in, func() *verifC04Srv {
			return &verifC04Srv{pers: "parts", parts: parts, single: w[1] == "1", size: v[0]}
		}, v[1], w[1] == "1", v[2], v[3], "parts")
	default:
		bad()
	}
}

func TestVerifC04Child(t *testing.T) { verifc04.ChildMain(verifC04Run) }

func TestVerifC04(t *testing.T) {
	out := verifutil.OpenOut()
	defer out.Close()
	r := verifutil.NewRand(verifutil.Seed())
	n := verifutil.EnvInt("VERIF_N", 600)
	adv := func(bounds ...int64) int64 {
		c := []int64{0, 1, 2, 3, 7, 8, 9, 1 << 31, 1 << 40, 1<<62 - 1, 1 << 62, 1<<63 - 1}
		switch r.Pick(5, 3, 3) {
		case 0:
			x := bounds[r.Intn(len(bounds))] + r.Range(-2, 2)
			if x < 0 {
				x = 0
			}
			return x
		case 1:
			return c[r.Intn(len(c))]
		}
		return r.Range(0, 40)
	}
	cr := func(b, e, size int64) string {
		return hex.EncodeToString([]byte(fmt.Sprintf("bytes %d-%d/%d", b, e, size)))
	}
	var inputs []verifc04.Input
	// repaired by 26d4364: a reply that carries a chunk nobody asked for twice (overlapping parts)
	inputs = append(inputs,
		verifc04.Input{Class: "fixed:26d4364:reply-repeats-unrequested-chunk", Kind: "range",
			Op: fmt.Sprintf("parts 0 100 1 37 14 %s:1 %s:3", cr(7, 7, 100), cr(5, 7, 100))},
		verifc04.Input{Class: "scenario:reply-exact", Kind: "range", Op: fmt.Sprintf("parts 1 100 10 35 10 %s:20", cr(30, 49, 100))})
	// registry personalities: every personality, both range modes, hand-written (one child each, never
	// skipped) and then with generated sizes
	for _, p := range verifC04Personalities {
		for _, sr := range []int{0, 1} {
			inputs = append(inputs, verifc04.Input{Class: fmt.Sprintf("scenario:registry:%s:single=%d", p, sr), Kind: "range",
				Op: fmt.Sprintf("srv %s %d 100 10 35 30", p, sr)})
		}
	}
	for i := 0; i < n/4; i++ {
		size := []int64{1, 7, 64, 100, 1000}[r.Intn(5)]
		inputs = append(inputs, verifc04.Input{Class: "range:registry", Kind: "range",
			Op: fmt.Sprintf("srv %s %d %d %d %d %d", verifC04Personalities[r.Intn(len(verifC04Personalities))], r.Intn(2), size,
				[]int64{1, 3, 8, 10}[r.Intn(4)], r.Range(0, size-1), r.Range(0, 64))})
	}
	// hostile Content-Range texts (parseRange through the real reply path) and reply parts
	texts := []string{"", "bytes", "bytes 0-0/1", "bytes 5-2/10", "bytes 10-20/5", "bytes 0-18446744073709551615/18446744073709551616",
		"bytes 99999999999999999999-1/2", "bytes 0-1/*", "bytes 0-1/99999999999999999999999", "bytes -1-2/3", "bytes 0--1/3", "BYTES 0-1/2",
		"bytes 0-1/2 bytes 3-4/5", "bytes 9223372036854775807-9223372036854775807/9223372036854775807", "bytes 00000000000000000001-2/3", "bytes 1-2/\\*",
		"bytes 0-9223372036854775807/10", "bytes 9223372036854775806-9223372036854775807/10"}
	for _, h := range texts {
		for _, single := range []int{0, 1} {
			inputs = append(inputs, verifc04.Input{Class: "range:hdr-fixed", Kind: "range",
				Op: fmt.Sprintf("parts %d 100 10 35 10 %s:10", single, hex.EncodeToString([]byte(h)))})
		}
	}
	for i := 0; i < n; i++ {
		size := []int64{1, 7, 8, 9, 64, 100}[r.Intn(6)]
		chunk := []int64{1, 3, 8, 10}[r.Intn(4)]
		off := r.Range(0, size-1)
		ln := r.Range(0, 40)
		if r.Intn(6) == 0 {
			ln = adv(size)
		}
		op := fmt.Sprintf("parts %d %d %d %d %d", r.Intn(4)/3, size, chunk, off, ln)
		for k := 0; k < int(r.Range(0, 4)); k++ {
			var b, e, cnt int64
			if r.Intn(3) > 0 { // plausible: chunk aligned part
				b = r.Range(0, 12) * chunk
				e = b + r.Range(1, 3)*chunk - 1
				cnt = e - b + 1 - int64(r.Intn(3))*int64(r.Intn(2))
			} else {
				b, e, cnt = adv(0, size, chunk), adv(0, size, chunk), adv(0, chunk)
			}
			txt := cr(b, e, adv(size))
			if r.Intn(12) == 0 {
				txt = hex.EncodeToString(r.Bytes(r.Intn(30)))
			}
			op += fmt.Sprintf(" %s:%d", txt, cnt)
		}
		inputs = append(inputs, verifc04.Input{Class: "range:parts", Kind: "range", Op: op})
	}
	out.Comment(fmt.Sprintf("C04 remote binary: %d inputs", len(inputs)))
	sum := verifc04.Run(out, inputs, verifc04.DefaultConfig())
	out.Comment(fmt.Sprintf("inputs=%d crashes=%d hangs=%d", sum.Inputs, sum.Crashes, sum.Hangs))
	t.Logf("C04 remote: %d inputs, %d crashes, %d hangs", sum.Inputs, sum.Crashes, sum.Hangs)
}
