//go:build verif

package remote

import (
	"fmt"
	"sort"
	"strings"
	"testing"

	"github.com/containerd/stargz-snapshotter/internal/verifutil"
)

// verifShowRs prints the canonical form of a region list: sorted, overlapping/adjacent merged.
func verifShowRs(in []region) string {
	var tmp []region
	for _, r := range in {
		if r.b <= r.e {
			tmp = append(tmp, r)
		}
	}
	sort.SliceStable(tmp, func(i, j int) bool { return tmp[i].b < tmp[j].b })
	var rs []region
	for _, r := range tmp {
		if n := len(rs); n > 0 && r.b <= rs[n-1].e+1 {
			if r.e > rs[n-1].e {
				rs[n-1].e = r.e
			}
			continue
		}
		rs = append(rs, r)
	}
	if len(rs) == 0 {
		return "-"
	}
	var sb []string
	for _, r := range rs {
		sb = append(sb, fmt.Sprintf("%d:%d", r.b, r.e))
	}
	return strings.Join(sb, ",")
}

// TestVerifC06A drives regionSet.add / totalSize / superRegion with generated histories and
// evaluates the C06 fetched-size predicate directly on the implementation's state.
func TestVerifC06A(t *testing.T) {
	rnd := verifutil.NewRand(verifutil.Seed())
	out := verifutil.OpenOut()
	defer out.Close()
	nhist := verifutil.EnvInt("VERIF_N", 300)
	for h := 0; h < nhist; h++ {
		// blob size and a chunk grid: commits are mostly chunk aligned (as in blob.go) with a
		// share of arbitrary sub-ranges.
		size := []int64{1, 2, 7, 64, 100, 1000, 4096}[rnd.Intn(7)]
		chunk := []int64{1, 3, 8, 10, 64}[rnd.Intn(5)]
		out.Emit("rs.reset", "ok")
		rs := &regionSet{}
		covered := make([]bool, size)
		prevTotal := int64(0)
		nops := 1 + rnd.Intn(25)
		shape := ""
		for i := 0; i < nops; i++ {
			var b, e int64
			switch rnd.Pick(5, 3, 1) {
			case 0: // chunk aligned region of 1..3 chunks
				ci := rnd.Range(0, (size-1)/chunk)
				n := rnd.Range(1, 3)
				b = ci * chunk
				e = b + n*chunk - 1
				if e > size-1 {
					e = size - 1
				}
			case 1: // arbitrary sub-range
				b = rnd.Range(0, size-1)
				e = rnd.Range(b, size-1)
			default: // whole blob
				b, e = 0, size-1
			}
			before := verifShowRs(rs.rs)
			rs.add(region{b, e})
			for x := b; x <= e; x++ {
				covered[x] = true
			}
			total := rs.totalSize()
			res := fmt.Sprintf("cov=%s total=%d", verifShowRs(rs.rs), total)
			out.Emit(fmt.Sprintf("rs.add %d %d", b, e), res)
			if before != verifShowRs(rs.rs) {
				shape += "c"
			} else {
				shape += "n"
			}
			// ---- property oracle on the implementation ----
			var cnt int64
			for _, c := range covered {
				if c {
					cnt++
				}
			}
			if total != cnt {
				out.Fail("fetchedsize-ne-distinct", fmt.Sprintf("totalSize=%d but %d distinct bytes committed (size=%d, add %d-%d to %s)", total, cnt, size, b, e, before))
			}
			if total > size {
				out.Fail("fetchedsize-gt-size", fmt.Sprintf("totalSize=%d > size=%d", total, size))
			}
			if total < prevTotal {
				out.Fail("fetchedsize-decreased", fmt.Sprintf("totalSize %d -> %d", prevTotal, total))
			}
			prevTotal = total
			for _, r := range rs.rs {
				for x := r.b; x <= r.e; x++ {
					if x < 0 || x >= size || !covered[x] {
						out.Fail("region-covers-uncommitted", fmt.Sprintf("%s covers %d", verifShowRs(rs.rs), x))
						break
					}
				}
			}
			out.Count("add")
		}
		out.Distinct(fmt.Sprintf("%d/%d/%s/%s", size, chunk, shape, verifShowRs(rs.rs)))
		// superRegion on a random non-empty list
		k := 1 + rnd.Intn(4)
		var regs []region
		var parts []string
		for i := 0; i < k; i++ {
			b := rnd.Range(0, size-1)
			e := rnd.Range(b, size-1)
			regs = append(regs, region{b, e})
			parts = append(parts, fmt.Sprintf("%d:%d", b, e))
		}
		s := superRegion(regs)
		out.Emit("rs.super "+strings.Join(parts, " "), fmt.Sprintf("%d:%d", s.b, s.e))
		out.Count("super")
	}
}
