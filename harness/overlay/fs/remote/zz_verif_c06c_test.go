//go:build verif

package remote

import (
	"bytes"
	"context"
	"fmt"
	"io"
	"net/http"
	"runtime/debug"
	"sync"
	"sync/atomic"
	"testing"

	"github.com/containerd/containerd/v2/pkg/reference"
	"github.com/containerd/log"
	"github.com/containerd/stargz-snapshotter/cache"
	"github.com/containerd/stargz-snapshotter/fs/config"
	"github.com/containerd/stargz-snapshotter/internal/verifreg"
	"github.com/containerd/stargz-snapshotter/internal/verifutil"
	digest "github.com/opencontainers/go-digest"
	ocispec "github.com/opencontainers/image-spec/specs-go/v1"
)

// TestVerifC06C is the oracle-only concurrent stress: many goroutines issue overlapping
// ReadAt / Cache calls (shared single-flight fetches) against real memory and directory caches
// with tiny capacities (cache loss between fetch and copy), while the server changes personality
// per request.  Every successful read must be byte exact; FetchedSize must be monotone and
// bounded.  No model correspondence here (the interleaving is not reproducible); the stream
// carries one summary line per scenario which the driver echoes.
func TestVerifC06C(t *testing.T) {
	log.SetLevel("error")
	debug.SetMaxThreads(200000) // asynchronous cache commits block in file syscalls; see below
	rnd := verifutil.NewRand(verifutil.Seed() + 2000)
	out := verifutil.OpenOut()
	defer out.Close()
	nscen := verifutil.EnvInt("VERIF_N", 20)
	for sidx := 0; sidx < nscen; sidx++ {
		chunk := []int64{1, 3, 8, 32}[rnd.Intn(4)]
		size := rnd.Range(1, 400)
		prefetchChunk := []int64{0, chunk * 2, chunk * 5}[rnd.Intn(3)]
		content := verifContent(size, int64(sidx))
		dgst := digest.FromBytes(content)
		reg := verifreg.New()
		reg.AddBlob(dgst.String(), content)
		modes := []verifreg.Mode{verifreg.Multi, verifreg.Multi, verifreg.Squash, verifreg.Whole, verifreg.BadReq, verifreg.ServerErr, verifreg.Short, verifreg.FirstOnly, verifreg.NetErr}
		var seq uint64
		salt := rnd.Uint64()
		reg.Script = func(req *http.Request, onCDN bool, _ int) verifreg.Mode {
			if req.Header.Get("Accept-Encoding") != "identity" {
				return verifreg.Multi
			}
			n := atomic.AddUint64(&seq, 1)
			x := (n*0x9E3779B97F4A7C15 + salt) >> 33
			return modes[x%uint64(len(modes))]
		}
		var bc cache.BlobCache
		var err error
		cacheKind := rnd.Intn(2)
		// drawn here because a lossy directory cache commits synchronously: with asynchronous commits
		// every re-fetch after a lost entry spawns a goroutine blocked in create/rename, and on a slow
		// disk tens of thousands of them hit the Go runtime's thread limit (a harness artefact)
		lossEvery := uint64([]int{0, 3, 7}[rnd.Intn(3)])
		if cacheKind == 0 {
			bc = cache.NewMemoryCache()
		} else {
			bc, err = cache.NewDirectoryCache(t.TempDir(), cache.DirectoryCacheConfig{MaxLRUCacheEntry: 1 + rnd.Intn(2), MaxCacheFds: 1 + rnd.Intn(2), SyncAdd: rnd.Bool() || lossEvery > 0})
			if err != nil {
				t.Fatal(err)
			}
		}
		// cache loss between fetch and copy: in two scenarios of three every Get fails with
		// probability 1/lossEvery, as if the entry had been evicted and deleted in between (real caches
		// of this size only move entries from memory to disk, they never lose them)
		if lossEvery > 0 {
			bc = &verifLossyCache{BlobCache: bc, every: lossEvery, salt: rnd.Uint64()}
		}
		res := NewResolver(config.BlobConfig{ChunkSize: chunk, PrefetchChunkSize: prefetchChunk, ValidInterval: 3600, FetchTimeoutSec: 10}, nil)
		refspec, _ := reference.Parse(reg.RegHost + "/img/test:latest")
		bl, err := res.Resolve(context.Background(), reg.Hosts(nil), refspec, ocispec.Descriptor{Digest: dgst, Size: size}, bc)
		if err != nil {
			out.Count("resolve-failed")
			continue
		}
		nworkers := 2 + rnd.Intn(6)
		var wg sync.WaitGroup
		var okReads, errReads, bad int64
		var lastFetched int64
		var fmu sync.Mutex
		for w := 0; w < nworkers; w++ {
			wr := verifutil.NewRand(rnd.Uint64())
			wg.Add(1)
			go func() {
				defer wg.Done()
				for i := 0; i < 40; i++ {
					o := wr.Range(0, size)
					n := wr.Range(0, size-o+3)
					if wr.Intn(5) == 0 {
						if n == 0 {
							n = 1
						}
						bl.Cache(o, n)
					} else {
						p := make([]byte, n)
						k, err := bl.ReadAt(p, o)
						if err != nil {
							atomic.AddInt64(&errReads, 1)
						} else {
							atomic.AddInt64(&okReads, 1)
							want := size - o
							if n < want {
								want = n
							}
							if int64(k) != want || (k > 0 && !bytes.Equal(p[:k], content[o:o+int64(k)])) {
								atomic.AddInt64(&bad, 1)
								out.Fail("concurrent-read-bytes-differ", fmt.Sprintf("ReadAt(o=%d,n=%d) size=%d chunk=%d cache=%d workers=%d returned k=%d / wrong bytes", o, n, size, chunk, cacheKind, nworkers, k))
							}
						}
					}
					fs := bl.FetchedSize()
					fmu.Lock()
					if fs > size {
						out.Fail("fetchedsize-gt-size", fmt.Sprintf("FetchedSize=%d > size=%d", fs, size))
					}
					// another goroutine may have recorded a newer (larger) value already: only a value
					// below one observed strictly earlier by THIS check sequence under the lock is a decrease
					if fs < lastFetched {
						// re-read under the lock to avoid reporting a stale sample
						if fs2 := bl.FetchedSize(); fs2 < lastFetched {
							out.Fail("fetchedsize-decreased", fmt.Sprintf("FetchedSize %d after %d", fs2, lastFetched))
						}
					} else {
						lastFetched = fs
					}
					fmu.Unlock()
				}
			}()
		}
		wg.Wait()
		out.Count("scenario")
		out.Stats["ok-reads"] += int(okReads)
		out.Stats["err-reads"] += int(errReads)
		if lossEvery > 0 {
			out.Count("scenario-lossy-cache")
		}
		out.Distinct(fmt.Sprintf("%d/%d/%d/%d/%d/%d", size, chunk, prefetchChunk, cacheKind, nworkers, lossEvery))
		out.Comment(fmt.Sprintf("scenario size=%d chunk=%d pchunk=%d cache=%d workers=%d loss=%d", size, chunk, prefetchChunk, cacheKind, nworkers, lossEvery))
		bl.Close()
	}
}

// verifLossyCache makes Get fail pseudo-randomly (deterministic in the call count), modelling an
// entry that disappeared between the fetch that stored it and the copy that wants it.
type verifLossyCache struct {
	cache.BlobCache
	every uint64
	salt  uint64
	n     uint64
}

func (c *verifLossyCache) Get(key string, opts ...cache.Option) (cache.Reader, error) {
	n := atomic.AddUint64(&c.n, 1)
	x := (n*0x9E3779B97F4A7C15 + c.salt) >> 33
	if x%c.every == 0 {
		return nil, fmt.Errorf("verif: cache entry %q lost", key)
	}
	r, err := c.BlobCache.Get(key, opts...)
	if err == nil && (x/c.every)%c.every == 0 {
		// the entry lost its tail: every read comes back short
		return &verifShortReader{Reader: r}, nil
	}
	return r, err
}

type verifShortReader struct{ cache.Reader }

func (r *verifShortReader) ReadAt(p []byte, off int64) (int, error) {
	if len(p) == 0 {
		return r.Reader.ReadAt(p, off)
	}
	n, err := r.Reader.ReadAt(p[:len(p)/2], off)
	if err == nil {
		err = io.EOF
	}
	return n, err
}
