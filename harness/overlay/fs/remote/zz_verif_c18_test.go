//go:build verif

package remote_test

import (
	"context"
	"errors"
	"fmt"
	"io"
	"net/http"
	"strconv"
	"strings"
	"sync"
	"testing"
	"time"

	"github.com/containerd/containerd/v2/core/remotes/docker"
	"github.com/containerd/containerd/v2/pkg/reference"
	"github.com/containerd/log"
	"github.com/containerd/stargz-snapshotter/cache"
	"github.com/containerd/stargz-snapshotter/fs/config"
	"github.com/containerd/stargz-snapshotter/fs/remote"
	"github.com/containerd/stargz-snapshotter/fs/source"
	"github.com/containerd/stargz-snapshotter/internal/verifreg"
	"github.com/containerd/stargz-snapshotter/internal/verifutil"
	digest "github.com/opencontainers/go-digest"
	ocispec "github.com/opencontainers/image-spec/specs-go/v1"
)

// ---- a cache that never hits: every ReadAt / Cache goes to the fetcher ----

type verifC18NullCache struct{}
type verifC18NullWriter struct{}

func (verifC18NullWriter) Write(p []byte) (int, error) { return len(p), nil }
func (verifC18NullWriter) Close() error                { return nil }
func (verifC18NullWriter) Commit() error               { return nil }
func (verifC18NullWriter) Abort() error                { return nil }

func (verifC18NullCache) Add(string, ...cache.Option) (cache.Writer, error) {
	return verifC18NullWriter{}, nil
}
func (verifC18NullCache) Get(string, ...cache.Option) (cache.Reader, error) {
	return nil, errors.New("verif: miss")
}
func (verifC18NullCache) Close() error { return nil }

// ---- stub docker.Authorizer: answers a 401 by remembering the host and sending a token ----

type verifC18Authorizer struct {
	mu      sync.Mutex
	tokens  map[string]bool
	failAdd bool
}

func (a *verifC18Authorizer) Authorize(_ context.Context, req *http.Request) error {
	a.mu.Lock()
	defer a.mu.Unlock()
	if a.tokens[req.URL.Host] {
		req.Header.Set("Authorization", "Bearer tok-"+req.URL.Host)
	}
	return nil
}

func (a *verifC18Authorizer) AddResponses(_ context.Context, rs []*http.Response) error {
	a.mu.Lock()
	defer a.mu.Unlock()
	if a.failAdd {
		return errors.New("verif: cannot authorize")
	}
	a.tokens[rs[len(rs)-1].Request.URL.Host] = true
	return nil
}

// ---- scripted transport in front of the in-memory registry; logs EVERY request ----

type verifC18Req struct {
	method string
	host   string
	header http.Header
	fetch  bool   // GET with Accept-Encoding: identity (httpFetcher.fetch)
	ans    string // what the server did, in the vocabulary of the model
}

type verifC18Transport struct {
	reg      *verifreg.Registry
	dgst     string
	names    []string // names[i] = host name of configured registry host i ("" = invalid entry)
	mu       sync.Mutex
	queue    []string          // answers forced on the next requests
	def      map[string]string // default answer per host
	needAuth map[string]bool   // host answers 401 unless the authorizer's token is presented
	log      []verifC18Req
	mode     verifreg.Mode
	gen    int    // generation of redirect URLs; URLs of an older generation are expired (403)
	locPad string // appended to the Location of redirects to the CDN host
	// gate, when set, is called with the index of the request in the log before it is answered
	gate func(n int, req *http.Request)
}

func verifC18Resp(req *http.Request, status int, hdr http.Header) *http.Response {
	if hdr == nil {
		hdr = http.Header{}
	}
	return &http.Response{StatusCode: status, Status: fmt.Sprintf("%d %s", status, http.StatusText(status)),
		Proto: "HTTP/1.1", ProtoMajor: 1, ProtoMinor: 1, Header: hdr, Body: io.NopCloser(strings.NewReader("")), Request: req}
}

func (t *verifC18Transport) RoundTrip(req *http.Request) (*http.Response, error) {
	if err := req.Context().Err(); err != nil {
		return nil, err
	}
	h := http.Header{}
	for k, v := range req.Header {
		h[k] = append([]string(nil), v...)
	}
	t.mu.Lock()
	n := len(t.log)
	t.log = append(t.log, verifC18Req{method: req.Method, host: req.URL.Host, header: h, fetch: req.Header.Get("Accept-Encoding") == "identity"})
	gate := t.gate
	t.mu.Unlock()
	if gate != nil {
		gate(n, req)
	}
	t.mu.Lock()
	defer t.mu.Unlock()
	host := req.URL.Host
	var a string
	switch {
	case len(t.queue) > 0:
		a, t.queue = t.queue[0], t.queue[1:]
	case t.needAuth[host] && req.Header.Get("Authorization") != "Bearer tok-"+host:
		a = "401"
	default:
		a = t.def[host]
		if a == "" {
			a = "pass"
		}
	}
	set := func(ans string) { t.log[n].ans = ans }
	if host == t.reg.CDNHost && (a == "pass" || a == "whole") && req.URL.Query().Get("gen") != strconv.Itoa(t.gen) {
		a = "403" // the redirect URL expired
	}
	switch {
	case a == "pass" || a == "whole":
		t.mode = verifreg.Multi
		if a == "whole" {
			t.mode = verifreg.Whole
		}
		res, err := t.reg.RoundTrip(req)
		switch {
		case err != nil:
			set("neterr")
		case res.StatusCode == 200 || res.StatusCode == 206 || res.StatusCode == 403:
			set(strconv.Itoa(res.StatusCode)) // 403: the CDN URL expired
		default:
			set("x")
		}
		return res, err
	case a == "neterr":
		set("neterr")
		return nil, errors.New("verif: injected transport error")
	case a == "403" || a == "400":
		code, _ := strconv.Atoi(a)
		set(a)
		return verifC18Resp(req, code, nil), nil
	case a == "401":
		set("401")
		return verifC18Resp(req, 401, http.Header{"Www-Authenticate": []string{`Bearer realm="https://auth.test/token",service="` + host + `"`}}), nil
	case a == "500" || a == "404":
		code, _ := strconv.Atoi(a)
		set("x")
		return verifC18Resp(req, code, nil), nil
	case a == "3-":
		set("3-")
		return verifC18Resp(req, 307, nil), nil
	case a == "3o":
		set("3o")
		loc := fmt.Sprintf("https://%s/cdn/blobs/%s?tok=0&gen=%d%s", t.reg.CDNHost, t.dgst, t.gen, t.locPad)
		return verifC18Resp(req, 307, http.Header{"Location": []string{loc}}), nil
	case strings.HasPrefix(a, "3r"):
		i, _ := strconv.Atoi(a[2:])
		set(a)
		loc := fmt.Sprintf("https://%s/v2/moved/blobs/%s", t.names[i], t.dgst)
		return verifC18Resp(req, 302, http.Header{"Location": []string{loc}}), nil
	}
	panic("verif: unknown scripted answer " + a)
}

// expire invalidates every redirect URL handed out so far.
func (t *verifC18Transport) expire() {
	t.mu.Lock()
	t.gen++
	t.mu.Unlock()
}

func (t *verifC18Transport) setDef(host, ans string) {
	t.mu.Lock()
	t.def[host] = ans
	t.mu.Unlock()
}

type verifC18HostCfg struct{ valid, hasHeader bool }

func verifC18HostName(i int) string { return fmt.Sprintf("r%d.test", i) }

func verifC18Header(i int) http.Header {
	return http.Header{"Authorization": []string{fmt.Sprintf("Bearer secret-r%d!", i)}, "X-Verif-Custom": []string{fmt.Sprintf("custom-r%d!", i)}}
}

// verifC18Carried lists the configured hosts one of whose header values occurs in h.
func verifC18Carried(h http.Header, nhosts int) []int {
	var out []int
	for j := 0; j < nhosts; j++ {
		hit := false
		for _, vs := range h {
			for _, v := range vs {
				if strings.Contains(v, fmt.Sprintf("secret-r%d!", j)) || strings.Contains(v, fmt.Sprintf("custom-r%d!", j)) {
					hit = true
				}
			}
		}
		if hit {
			out = append(out, j)
		}
	}
	return out
}

func verifC18ShowCarried(js []int) string {
	if len(js) == 0 {
		return "-"
	}
	var s []string
	for _, j := range js {
		s = append(s, fmt.Sprintf("h%d", j))
	}
	return strings.Join(s, "+")
}

// verifC18Env is one blob under test.
type verifC18Env struct {
	out     *verifutil.Out
	tr      *verifC18Transport
	cfgs    []verifC18HostCfg
	authz   *verifC18Authorizer // nil = no Authorizer configured
	azName  string
	force   bool
	hosts   source.RegistryHosts
	refspec reference.Spec
	desc    ocispec.Descriptor
	size    int64
	bl      remote.Blob
	shape   strings.Builder
}

func verifC18NewEnv(out *verifutil.Out, cfgs []verifC18HostCfg, azName string, force bool) *verifC18Env {
	content := make([]byte, 64)
	for i := range content {
		content[i] = byte(i*7 + 3)
	}
	dgst := digest.FromBytes(content)
	reg := verifreg.New()
	reg.AddBlob(dgst.String(), content)
	tr := &verifC18Transport{reg: reg, dgst: dgst.String(), def: map[string]string{}, needAuth: map[string]bool{}}
	reg.Script = func(*http.Request, bool, int) verifreg.Mode { return tr.mode }
	e := &verifC18Env{out: out, tr: tr, cfgs: cfgs, azName: azName, force: force, size: int64(len(content)),
		desc: ocispec.Descriptor{Digest: dgst, Size: int64(len(content))}}
	switch azName {
	case "retry":
		e.authz = &verifC18Authorizer{tokens: map[string]bool{}}
	case "fail":
		e.authz = &verifC18Authorizer{tokens: map[string]bool{}, failAdd: true}
	}
	var rhosts []docker.RegistryHost
	refHost := "up.test"
	for i, c := range cfgs {
		h := docker.RegistryHost{Client: &http.Client{Transport: tr}, Scheme: "https", Path: "/v2",
			Capabilities: docker.HostCapabilityPull | docker.HostCapabilityResolve}
		if c.valid {
			h.Host = verifC18HostName(i)
			refHost = h.Host
			tr.names = append(tr.names, h.Host)
		} else {
			h.Host = []string{"", "bad/host"}[i%2]
			tr.names = append(tr.names, "")
		}
		if c.hasHeader {
			h.Header = verifC18Header(i)
		}
		if e.authz != nil {
			h.Authorizer = e.authz
		}
		rhosts = append(rhosts, h)
	}
	e.hosts = func(reference.Spec) ([]docker.RegistryHost, error) { return rhosts, nil }
	var err error
	e.refspec, err = reference.Parse(refHost + "/img/test:latest")
	if err != nil {
		panic(err)
	}
	return e
}

func (e *verifC18Env) target(host string) string {
	for i, n := range e.tr.names {
		if n != "" && n == host {
			return fmt.Sprintf("r%d", i)
		}
	}
	return "o"
}

// drain returns the model's view of the requests logged since the last call and evaluates the
// confinement predicate on each of them.
func (e *verifC18Env) drain(op string) (answers, reqs string) {
	e.tr.mu.Lock()
	log := e.tr.log
	e.tr.log = nil
	left := len(e.tr.queue)
	e.tr.queue = nil
	e.tr.mu.Unlock()
	var as, rs []string
	for _, l := range log {
		kind := "P"
		switch {
		case l.method == "HEAD":
			kind = "H"
		case l.fetch:
			kind = "F"
		}
		carried := verifC18Carried(l.header, len(e.cfgs))
		as = append(as, l.ans)
		rs = append(rs, fmt.Sprintf("%s@%s/%s", kind, e.target(l.host), verifC18ShowCarried(carried)))
		e.out.Count("req-" + kind + "-" + l.ans)
		// ---- the property: a configured header set only goes to the host it was configured for ----
		for _, j := range carried {
			if l.host != verifC18HostName(j) {
				class := map[string]string{"H": "size-probe-head", "F": "range-fetch", "P": "probe-get"}[kind]
				e.out.Fail("configured-header-sent-to-other-host:"+class,
					fmt.Sprintf("during %s: %s request to %q carries the headers configured for %q (Authorization=%q X-Verif-Custom=%q)",
						op, l.method, l.host, verifC18HostName(j), l.header.Get("Authorization"), l.header.Get("X-Verif-Custom")))
			}
		}
	}
	_ = left
	if len(as) == 0 {
		return "-", "-"
	}
	return strings.Join(as, ","), strings.Join(rs, ";")
}

func (e *verifC18Env) setQueue(q []string) {
	e.tr.mu.Lock()
	e.tr.queue = append([]string(nil), q...)
	e.tr.mu.Unlock()
}

func verifC18OkErr(err error) string {
	if err != nil {
		return "err"
	}
	return "ok"
}

func (e *verifC18Env) resolve(q []string) bool {
	e.setQueue(q)
	res := remote.NewResolver(config.BlobConfig{ChunkSize: 16, CheckAlways: true, FetchTimeoutSec: 10, ForceSingleRangeMode: e.force}, nil)
	bl, err := res.Resolve(context.Background(), e.hosts, e.refspec, e.desc, verifC18NullCache{})
	if err == nil {
		e.bl = bl
	}
	var hs []string
	for _, c := range e.cfgs {
		b2 := func(b bool) string {
			if b {
				return "1"
			}
			return "0"
		}
		hs = append(hs, "v"+b2(c.valid)+"h"+b2(c.hasHeader))
	}
	f := "0"
	if e.force {
		f = "1"
	}
	ans, reqs := e.drain("Resolve")
	e.out.Emit(fmt.Sprintf("f.new %s %s %s %s", e.azName, f, strings.Join(hs, ","), ans),
		fmt.Sprintf("%s reqs=%s", verifC18OkErr(err), reqs))
	e.out.Count("op-resolve-" + verifC18OkErr(err))
	e.shape.WriteString("N" + ans + "|")
	return err == nil
}

func (e *verifC18Env) read(q []string, o, n int64, viaCache bool) {
	e.setQueue(q)
	name := "ReadAt"
	if viaCache {
		name = "Cache"
		e.bl.Cache(o, n)
	} else {
		e.bl.ReadAt(make([]byte, n), o)
	}
	ans, reqs := e.drain(name)
	e.out.Emit("f.read "+ans, fmt.Sprintf("- reqs=%s", reqs))
	e.out.Count("op-" + name)
	e.shape.WriteString("R" + ans + "|")
}

func (e *verifC18Env) check(q []string) {
	e.setQueue(q)
	err := e.bl.Check()
	ans, reqs := e.drain("Check")
	e.out.Emit("f.check "+ans, fmt.Sprintf("%s reqs=%s", verifC18OkErr(err), reqs))
	e.out.Count("op-Check")
	e.shape.WriteString("C" + ans + "|")
}

func (e *verifC18Env) refresh(q []string) {
	e.setQueue(q)
	err := e.bl.Refresh(context.Background(), e.hosts, e.refspec, e.desc)
	ans, reqs := e.drain("Refresh")
	e.out.Emit("f.refresh "+ans, fmt.Sprintf("%s reqs=%s", verifC18OkErr(err), reqs))
	e.out.Count("op-Refresh")
	e.shape.WriteString("X" + ans + "|")
}

func (e *verifC18Env) close() {
	if e.bl != nil {
		e.bl.Close()
	}
	e.out.Distinct(e.shape.String())
}

// TestVerifC18Headers drives remote.Resolver / Blob against scripted registries and logs the
// host and the headers of every request.
func TestVerifC18Headers(t *testing.T) {
	log.SetLevel("error")
	rnd := verifutil.NewRand(verifutil.Seed()*1000003 + 1802)
	out := verifutil.OpenOut()
	defer out.Close()
	one := []verifC18HostCfg{{true, true}}

	// ---- hand-written scenarios ----
	{ // direct registry; the URL later starts to redirect
		e := verifC18NewEnv(out, one, "absent", false)
		if e.resolve(nil) {
			e.read(nil, 0, 64, false)
			e.check(nil)
			e.read([]string{"403", "3o"}, 16, 16, false) // registry answers 403, the refresh is redirected
			e.read(nil, 0, 1, true)
			e.check([]string{"403", "pass"}) // the redirected URL expired, the registry serves directly again
			e.read(nil, 3, 40, false)
			e.check([]string{"403", "3r0"}) // redirected to another path on the registry host itself
			e.read(nil, 0, 16, false)
			e.check([]string{"403", "3-"})
			e.check([]string{"403", "neterr"})
			e.read([]string{"400", "pass"}, 0, 64, false)
			e.read([]string{"400"}, 0, 64, false)
			e.refresh(nil)
			e.refresh([]string{"3o", "500", "404"})
		}
		e.close()
	}
	{ // redirecting registry whose URLs expire
		e := verifC18NewEnv(out, one, "absent", true)
		e.tr.def[verifC18HostName(0)] = "3o"
		if e.resolve(nil) {
			e.read(nil, 0, 64, false)
			e.tr.expire()
			e.read(nil, 0, 64, false)
			e.tr.expire()
			e.check(nil)
			e.check(nil)
			e.refresh(nil)
			e.tr.expire()
			e.tr.def[verifC18HostName(0)] = "pass" // the registry stops redirecting
			e.read(nil, 5, 5, true)
			e.read(nil, 0, 64, false)
			e.tr.def[verifC18HostName(0)] = "3o"
			e.refresh(nil)
			e.read([]string{"403", "403"}, 0, 8, false)
			e.read([]string{"whole"}, 0, 8, false)
		}
		e.close()
	}
	{ // getSize falls back to GET on the redirect target
		e := verifC18NewEnv(out, one, "absent", false)
		e.tr.def[verifC18HostName(0)] = "3o"
		if e.resolve([]string{"3o", "403", "pass"}) {
			e.read(nil, 0, 64, false)
		}
		e.close()
	}
	{ // mirrors: the first fails, the second redirects to the third host, ...
		e := verifC18NewEnv(out, []verifC18HostCfg{{true, true}, {false, true}, {true, true}, {true, false}}, "absent", false)
		e.tr.def[verifC18HostName(0)] = "404"
		e.tr.def[verifC18HostName(2)] = "3r3"
		if e.resolve(nil) {
			e.read(nil, 0, 64, false)
			e.check([]string{"403"})
			e.tr.def[verifC18HostName(0)] = "pass"
			e.refresh(nil)
			e.read(nil, 0, 64, false)
			e.tr.def[verifC18HostName(0)] = "3r2"
			e.check([]string{"403"})
			e.read(nil, 0, 64, false)
		}
		e.close()
	}
	for _, az := range []string{"retry", "fail"} { // 401 challenges
		e := verifC18NewEnv(out, one, az, false)
		e.tr.needAuth[verifC18HostName(0)] = true
		e.tr.needAuth["cdn.test"] = true
		e.tr.def[verifC18HostName(0)] = "3o"
		if e.resolve(nil) {
			e.read(nil, 0, 64, false)
			e.read([]string{"401", "401"}, 0, 64, false)
			e.check([]string{"401", "403", "401", "pass"})
			e.read(nil, 0, 64, false)
		}
		e.close()
	}

	// ---- random personalities ----
	nhist := verifutil.EnvInt("VERIF_N", 300)
	all := []string{"pass", "pass", "whole", "403", "403", "400", "401", "500", "404", "neterr", "3o", "3o", "3-", "3r0"}
	for h := 0; h < nhist; h++ {
		var cfgs []verifC18HostCfg
		nh := 1 + rnd.Pick(6, 3, 1)
		for i := 0; i < nh; i++ {
			cfgs = append(cfgs, verifC18HostCfg{valid: rnd.Intn(7) != 0, hasHeader: rnd.Intn(5) != 0})
		}
		az := []string{"absent", "absent", "retry", "retry", "fail"}[rnd.Intn(5)]
		e := verifC18NewEnv(out, cfgs, az, rnd.Intn(5) == 0)
		var valid []int
		for i, c := range cfgs {
			if c.valid {
				valid = append(valid, i)
			}
		}
		persona := func() {
			for _, i := range valid {
				var d string
				switch rnd.Pick(8, 8, 2, 2, 1, 1, 1) {
				case 0:
					d = "pass"
				case 1:
					d = "3o"
				case 2:
					d = fmt.Sprintf("3r%d", i)
				case 3:
					d = fmt.Sprintf("3r%d", valid[rnd.Intn(len(valid))])
				case 4:
					d = "404"
				case 5:
					d = "neterr"
				default:
					d = "3-"
				}
				e.tr.def[verifC18HostName(i)] = d
				e.tr.needAuth[verifC18HostName(i)] = az != "absent" && rnd.Intn(3) == 0
			}
			e.tr.needAuth["cdn.test"] = az != "absent" && rnd.Intn(4) == 0
		}
		persona()
		randQueue := func() []string {
			switch rnd.Pick(10, 4, 3, 3, 2, 2, 2, 6) {
			case 0:
				return nil
			case 1:
				return []string{"403"}
			case 2:
				return []string{"403", "3o"}
			case 3:
				return []string{"403", "pass"}
			case 4:
				return []string{"400"}
			case 5:
				return []string{"401"}
			case 6:
				if len(valid) > 0 {
					return []string{"403", fmt.Sprintf("3r%d", valid[rnd.Intn(len(valid))])}
				}
				return nil
			default:
				n := 1 + rnd.Intn(4)
				q := make([]string, n)
				for i := range q {
					q[i] = all[rnd.Intn(len(all))]
					if q[i] == "3r0" {
						if len(valid) == 0 {
							q[i] = "3o"
						} else {
							q[i] = fmt.Sprintf("3r%d", valid[rnd.Intn(len(valid))])
						}
					}
				}
				return q
			}
		}
		var rq []string
		if rnd.Intn(5) < 2 {
			rq = randQueue()
		}
		if !e.resolve(rq) {
			e.close()
			continue
		}
		nops := 3 + rnd.Intn(12)
		for i := 0; i < nops; i++ {
			if rnd.Intn(5) == 0 {
				e.tr.expire()
				out.Count("act-expire")
			}
			if rnd.Intn(7) == 0 {
				persona()
				out.Count("act-persona-change")
			}
			switch rnd.Pick(8, 3, 5, 2) {
			case 0:
				o := rnd.Range(0, e.size-1)
				e.read(randQueue(), o, rnd.Range(1, e.size-o), false)
			case 1:
				o := rnd.Range(0, e.size-1)
				e.read(randQueue(), o, rnd.Range(1, e.size-o), true)
			case 2:
				e.check(randQueue())
			case 3:
				e.refresh(randQueue())
			}
		}
		e.close()
	}
}

// TestVerifC18Race is the labelled stream for the candidate finding "two goroutines sharing one
// fetcher": `fetch` reads f.url under urlMu and f.header outside it.  Goroutine A starts a fetch
// on a redirected fetcher (no stored headers) whose URL is very long, so that building the request
// takes a while; meanwhile goroutine B's Check gets a 403 from the redirect target and refreshes;
// the registry now serves the blob itself, so refreshURL stores the configured headers again.
// A then copies those headers into its request for the OLD URL on the foreign host.
func TestVerifC18Race(t *testing.T) {
	log.SetLevel("error")
	out := verifutil.OpenOut()
	defer out.Close()
	tries := verifutil.EnvInt("VERIF_N", 3)
	pad := verifutil.EnvInt("VERIF_C18_PAD", 48<<20)
	hits := 0
	for try := 0; try < tries && hits == 0; try++ {
		e := verifC18NewEnv(out, []verifC18HostCfg{{true, true}}, "absent", false)
		e.tr.def[verifC18HostName(0)] = "3o"
		// the redirect target hands out a very long (valid) URL
		e.tr.locPad = "&pad=" + strings.Repeat("x", pad)
		res := remote.NewResolver(config.BlobConfig{ChunkSize: 16, CheckAlways: true, FetchTimeoutSec: 60}, nil)
		bl, err := res.Resolve(context.Background(), e.hosts, e.refspec, e.desc, verifC18NullCache{})
		if err != nil {
			t.Fatal(err)
		}
		e.bl = bl
		e.drain("Resolve")
		e.tr.def[verifC18HostName(0)] = "pass" // from now on the registry serves the blob itself
		bAtCDN := make(chan struct{})
		release := make(chan struct{})
		var once sync.Once
		e.tr.gate = func(n int, req *http.Request) {
			if req.URL.Host != "cdn.test" {
				return
			}
			held := false
			once.Do(func() { held = true })
			if held {
				close(bAtCDN)
				<-release // B's request to the redirect target is held until A is under way
			}
		}
		var wg sync.WaitGroup
		wg.Add(2)
		go func() { // B
			defer wg.Done()
			e.setQueue([]string{"403"}) // the long URL is answered 403 once: B refreshes
			bl.Check()
		}()
		<-bAtCDN
		go func() { // A
			defer wg.Done()
			bl.ReadAt(make([]byte, 16), 0)
		}()
		time.Sleep(time.Duration(verifutil.EnvInt("VERIF_C18_DELAY_US", 3000)) * time.Microsecond)
		close(release)
		wg.Wait()
		before := len(out.OracleFailures)
		e.tr.mu.Lock()
		log := e.tr.log
		e.tr.mu.Unlock()
		for _, l := range log {
			for _, j := range verifC18Carried(l.header, 1) {
				if l.host != verifC18HostName(j) {
					out.Fail("configured-header-sent-to-other-host:concurrent-refresh",
						fmt.Sprintf("ReadAt concurrent with a Check that refreshed the URL: %s request to %q carries the headers configured for %q (Authorization=%q)",
							l.method, l.host, verifC18HostName(j), l.header.Get("Authorization")))
				}
			}
		}
		if len(out.OracleFailures) > before {
			hits++
		}
		out.Count("race-try")
		bl.Close()
	}
	out.Stats["race-hits"] = hits
}

// TestVerifC18HeadersConc (built with -race): several goroutines read, cache and check ONE blob
// while the redirect URLs keep expiring and the registry flips between redirecting and serving
// the blob itself, so fetches, checks and URL refreshes overlap.  The race detector observes any
// unsynchronised access to the fetcher's url/header pair; the oracle evaluates the confinement
// predicate on every request that reached the (mutex-protected) transport.
func TestVerifC18HeadersConc(t *testing.T) {
	log.SetLevel("error")
	out := verifutil.OpenOut()
	defer out.Close()
	rounds := verifutil.EnvInt("VERIF_N", 6)
	for round := 0; round < rounds; round++ {
		cfgs := []verifC18HostCfg{{true, true}}
		if round%2 == 1 {
			cfgs = []verifC18HostCfg{{true, true}, {true, true}}
		}
		e := verifC18NewEnv(out, cfgs, []string{"absent", "retry"}[round%2], false)
		e.tr.def[verifC18HostName(0)] = "3o"
		res := remote.NewResolver(config.BlobConfig{ChunkSize: 16, CheckAlways: true, FetchTimeoutSec: 30}, nil)
		bl, err := res.Resolve(context.Background(), e.hosts, e.refspec, e.desc, verifC18NullCache{})
		if err != nil {
			t.Fatal(err)
		}
		e.bl = bl
		stop := make(chan struct{})
		var wg, chaos sync.WaitGroup
		chaos.Add(1)
		go func() { // the server side changes its mind all the time
			defer chaos.Done()
			rnd := verifutil.NewRand(verifutil.Seed()*1000003 + 1804 + uint64(round))
			for {
				select {
				case <-stop:
					return
				default:
				}
				switch rnd.Intn(4) {
				case 0, 1:
					e.tr.expire()
				case 2:
					e.tr.setDef(verifC18HostName(0), "pass")
				default:
					e.tr.setDef(verifC18HostName(0), "3o")
				}
				time.Sleep(time.Duration(rnd.Intn(200)) * time.Microsecond)
			}
		}()
		for g := 0; g < 6; g++ {
			wg.Add(1)
			go func(g int) {
				defer wg.Done()
				rnd := verifutil.NewRand(verifutil.Seed()*1000003 + 1805 + uint64(round*16+g))
				for i := 0; i < 120; i++ {
					o := rnd.Range(0, e.size-1)
					switch {
					case g < 3:
						bl.ReadAt(make([]byte, rnd.Range(1, e.size-o)), o)
					case g < 4:
						bl.Cache(o, rnd.Range(1, e.size-o))
					case g < 5 || i%10 != 0:
						bl.Check()
					default:
						bl.Refresh(context.Background(), e.hosts, e.refspec, e.desc)
					}
					out.Count("conc-op")
				}
			}(g)
		}
		wg.Wait()
		close(stop)
		chaos.Wait()
		e.drain(fmt.Sprintf("concurrent ReadAt/Cache/Check/Refresh (round %d)", round))
		bl.Close()
		out.Distinct(fmt.Sprintf("conc-round-%d", round))
	}
}
