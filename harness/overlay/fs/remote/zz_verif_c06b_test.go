//go:build verif

package remote

import (
	"bytes"
	"context"
	"fmt"
	"io"
	"net/http"
	"sort"
	"strings"
	"sync"
	"testing"

	"github.com/containerd/containerd/v2/pkg/reference"
	"github.com/containerd/log"
	"github.com/containerd/stargz-snapshotter/cache"
	"github.com/containerd/stargz-snapshotter/fs/config"
	"github.com/containerd/stargz-snapshotter/internal/verifreg"
	"github.com/containerd/stargz-snapshotter/internal/verifutil"
	digest "github.com/opencontainers/go-digest"
	ocispec "github.com/opencontainers/image-spec/specs-go/v1"
)

// ---- a map-backed BlobCache whose entries the harness can drop (deterministic "eviction") ----

type verifMapCache struct {
	mu sync.Mutex
	m  map[string][]byte
	// commits counts every successful Commit per key
	commits map[string]int
}

func newVerifMapCache() *verifMapCache {
	return &verifMapCache{m: map[string][]byte{}, commits: map[string]int{}}
}

type verifMapWriter struct {
	c   *verifMapCache
	key string
	buf bytes.Buffer
	end bool
}

func (w *verifMapWriter) Write(p []byte) (int, error) { return w.buf.Write(p) }
func (w *verifMapWriter) Close() error                { return nil }
func (w *verifMapWriter) Abort() error                { w.end = true; return nil }
func (w *verifMapWriter) Commit() error {
	if w.end {
		return fmt.Errorf("already finished")
	}
	w.end = true
	w.c.mu.Lock()
	defer w.c.mu.Unlock()
	if _, ok := w.c.m[w.key]; !ok {
		w.c.m[w.key] = append([]byte(nil), w.buf.Bytes()...)
	}
	w.c.commits[w.key]++
	return nil
}

type verifMapReader struct{ *bytes.Reader }

func (r verifMapReader) Close() error              { return nil }
func (r verifMapReader) GetReaderAt() io.ReaderAt { return r.Reader }

func (c *verifMapCache) Add(key string, _ ...cache.Option) (cache.Writer, error) {
	return &verifMapWriter{c: c, key: key}, nil
}
func (c *verifMapCache) Get(key string, _ ...cache.Option) (cache.Reader, error) {
	c.mu.Lock()
	defer c.mu.Unlock()
	d, ok := c.m[key]
	if !ok {
		return nil, fmt.Errorf("miss")
	}
	return verifMapReader{bytes.NewReader(d)}, nil
}
func (c *verifMapCache) Close() error { return nil }
func (c *verifMapCache) truncate(key string, n int) bool {
	c.mu.Lock()
	defer c.mu.Unlock()
	d, ok := c.m[key]
	if !ok || n >= len(d) {
		return false
	}
	c.m[key] = d[:n]
	return true
}
func (c *verifMapCache) drop(key string) {
	c.mu.Lock()
	delete(c.m, key)
	c.mu.Unlock()
}

// verifContent is the blob content formula shared with the Lean driver.
func verifContent(size int64, salt int64) []byte {
	b := make([]byte, size)
	for i := int64(0); i < size; i++ {
		b[i] = byte((i*131 + salt*17 + i/251) % 251)
	}
	return b
}

func verifFnv(b []byte) uint32 {
	h := uint32(2166136261)
	for _, x := range b {
		h = (h ^ uint32(x)) * 16777619
	}
	return h
}

// verifScriptedRegistry wraps verifreg with a per-op queue of modes for chunk fetches and a
// fixed mode for control requests (redirect / size probe / check: Range "bytes=0-1" without
// Accept-Encoding, or HEAD).
type verifScripted struct {
	reg      *verifreg.Registry
	mu       sync.Mutex
	queue    []verifreg.Mode // modes for the next fetch requests; empty => Multi
	redirect bool            // registry host redirects blob requests to the CDN
}

func (s *verifScripted) script(req *http.Request, onCDN bool, _ int) verifreg.Mode {
	s.mu.Lock()
	defer s.mu.Unlock()
	isFetch := req.Header.Get("Accept-Encoding") == "identity"
	if !isFetch {
		if !onCDN && s.redirect {
			return verifreg.Redirect
		}
		return verifreg.Multi
	}
	if !onCDN && s.redirect {
		// a fetch never goes to the registry host when it redirects; answer as the registry would
		return verifreg.Redirect
	}
	if len(s.queue) == 0 {
		return verifreg.Multi
	}
	m := s.queue[0]
	s.queue = s.queue[1:]
	return m
}

func verifStatusName(l verifreg.ReqLog) string {
	if l.Mode == verifreg.NetErr {
		return "neterr"
	}
	return fmt.Sprintf("%d", l.Status)
}

// TestVerifC06B drives remote.Resolver / Blob.ReadAt / Cache / FetchedSize against the scripted
// in-memory registry and evaluates byte-exactness and the fetched-size predicate on the
// implementation's own answers.
func TestVerifC06B(t *testing.T) {
	log.SetLevel("error")
	rnd := verifutil.NewRand(verifutil.Seed() + 1000)
	out := verifutil.OpenOut()
	defer out.Close()
	nhist := verifutil.EnvInt("VERIF_N", 150)
	secret := "Bearer verif-secret"
	for h := 0; h < nhist; h++ {
		chunk := []int64{1, 3, 4, 7, 16, 64}[rnd.Intn(6)]
		var size int64
		switch rnd.Intn(8) {
		case 0:
			size = 0
		case 1:
			size = 1
		case 2:
			size = chunk
		case 3:
			size = chunk - 1
		case 4:
			size = chunk + 1
		case 5:
			size = chunk*rnd.Range(2, 6) + rnd.Range(-1, 1)
		default:
			size = rnd.Range(1, 300)
		}
		if size < 0 {
			size = 0
		}
		salt := int64(rnd.Intn(1000))
		content := verifContent(size, salt)
		dgst := digest.FromBytes(content)
		reg := verifreg.New()
		reg.AddBlob(dgst.String(), content)
		sc := &verifScripted{reg: reg, redirect: rnd.Intn(3) == 0}
		reg.Script = sc.script
		hdr := http.Header{"Authorization": []string{secret}}
		mc := newVerifMapCache()
		res := NewResolver(config.BlobConfig{ChunkSize: chunk, ValidInterval: 3600, FetchTimeoutSec: 10}, nil)
		refspec, err := reference.Parse(reg.RegHost + "/img/test:latest")
		if err != nil {
			t.Fatal(err)
		}
		bl, err := res.Resolve(context.Background(), reg.Hosts(hdr), refspec, ocispec.Descriptor{Digest: dgst, Size: size}, mc)
		if err != nil {
			// size 0 blobs etc. may legitimately fail to resolve; nothing to compare then
			out.Count("resolve-failed")
			continue
		}
		b := bl.(*blob)
		fr := b.getFetcher().(*httpFetcher)
		out.Emit(fmt.Sprintf("blob %d %d %d", size, chunk, salt), "ok")
		// id -> chunk region, to interpret cache keys
		id2chunk := map[string]region{}
		for i := int64(0); i < size; i += chunk {
			e := i + chunk - 1
			if e >= size {
				e = size - 1
			}
			id2chunk[fr.genID(region{i, e})] = region{i, e}
		}
		prevFetched := int64(0)
		nops := 2 + rnd.Intn(14)
		shape := ""
		for i := 0; i < nops; i++ {
			kind := rnd.Pick(10, 3, 3, 1, 2)
			switch kind {
			case 0, 1: // read / cache
				var o, n int64
				switch rnd.Intn(6) {
				case 0:
					o, n = 0, size
				case 1:
					o, n = rnd.Range(0, size+3), rnd.Range(0, 5)
				case 2:
					o, n = rnd.Range(0, size), size+rnd.Range(0, 9) // beyond EOF
				default:
					o = rnd.Range(0, size)
					n = rnd.Range(0, size-o+2)
				}
				// server behaviour for this op
				var q []verifreg.Mode
				switch rnd.Pick(8, 3, 3, 2, 2, 1, 1, 1, 1, 2) {
				case 0:
					q = nil
				case 1:
					q = []verifreg.Mode{verifreg.Squash}
				case 2:
					q = []verifreg.Mode{verifreg.Whole}
				case 3:
					q = []verifreg.Mode{verifreg.BadReq, verifreg.Squash}
				case 4:
					q = []verifreg.Mode{verifreg.Forbidden, verifreg.Multi}
				case 5:
					q = []verifreg.Mode{verifreg.ServerErr}
				case 6:
					q = []verifreg.Mode{verifreg.NetErr}
				case 7:
					q = []verifreg.Mode{verifreg.Short}
				case 8:
					q = []verifreg.Mode{verifreg.Forbidden, verifreg.Forbidden, verifreg.Forbidden, verifreg.Forbidden, verifreg.Forbidden, verifreg.Forbidden}
				case 9:
					q = []verifreg.Mode{verifreg.FirstOnly}
				}
				sc.mu.Lock()
				sc.queue = q
				sc.mu.Unlock()
				if sc.redirect && rnd.Intn(6) == 0 {
					reg.ExpireCDN() // the redirected URL expires: CDN answers 403 until refreshed
				}
				reg.ResetLog()
				single := fr.isSingleRangeMode()
				redirectedBefore := strings.Contains(fr.url, reg.CDNHost)
				var (
					k   int
					err error
					p   []byte
				)
				if kind == 0 {
					p = make([]byte, n)
					k, err = b.ReadAt(p, o)
				} else {
					if n == 0 {
						n = 1
					}
					err = b.Cache(o, n)
				}
				// reconstruct what the server answered to the fetch
				var fetchLogs []verifreg.ReqLog
				for _, l := range reg.Log() {
					if l.Header.Get("Accept-Encoding") == "identity" {
						fetchLogs = append(fetchLogs, l)
					}
				}
				reply := "none"
				reqStr := "-"
				var statuses []string
				if len(fetchLogs) > 0 {
					reply = "fail"
					reqStr = verifRangeHeader(fetchLogs[0].Range)
					for _, l := range fetchLogs {
						statuses = append(statuses, verifStatusName(l))
						if l.Status == 200 || l.Status == 206 {
							var ps []string
							for _, pt := range l.Parts {
								ps = append(ps, fmt.Sprintf("%d-%d-%d", pt[0], pt[1], pt[2]))
							}
							reply = "parts:" + strings.Join(ps, ",")
						}
					}
				}
				fetched := b.FetchedSize()
				singleStr := "0"
				if single {
					singleStr = "1"
				}
				if kind == 0 {
					resLine := "err"
					if err == nil {
						resLine = fmt.Sprintf("ok k=%d sum=%d", k, verifFnv(p[:k]))
					}
					// when single-range mode was entered inside this op the first request was multi-range
					out.Emit(fmt.Sprintf("read %d %d %s %s", o, n, singleStr, reply),
						fmt.Sprintf("%s req=%s fetched=%d", resLine, reqStr, fetched))
					// ---- oracle: byte exactness ----
					if err == nil {
						want := int64(0)
						if o <= size {
							want = size - o
							if n < want {
								want = n
							}
						}
						if k > len(p) || (k > 0 && o+int64(k) > int64(len(content))) {
							out.Fail("read-length", fmt.Sprintf("ReadAt(o=%d,n=%d) size=%d chunk=%d returned k=%d beyond buffer/blob (len(p)=%d len(content)=%d)", o, n, size, chunk, k, len(p), len(content)))
						} else if int64(k) != want {
							out.Fail("read-length", fmt.Sprintf("ReadAt(o=%d,n=%d) size=%d chunk=%d returned k=%d want %d", o, n, size, chunk, k, want))
						} else if k > 0 && !bytes.Equal(p[:k], content[o:o+int64(k)]) {
							out.Fail("read-bytes-differ", fmt.Sprintf("ReadAt(o=%d,n=%d) size=%d chunk=%d reply=%s returned bytes that differ from the blob", o, n, size, chunk, reply))
						}
					}
					shape += "r"
				} else {
					resLine := "err"
					if err == nil {
						resLine = "ok"
					}
					out.Emit(fmt.Sprintf("cache %d %d %s %s", o, n, singleStr, reply),
						fmt.Sprintf("%s req=%s fetched=%d", resLine, reqStr, fetched))
					shape += "c"
				}
				// ---- retry state machine ----
				if len(fetchLogs) > 0 {
					refresh := "none"
					for _, l := range reg.Log() {
						if l.Header.Get("Accept-Encoding") != "identity" && l.Method == "GET" {
							if l.Status == 307 {
								refresh = "1"
							} else if l.Status/100 == 2 {
								refresh = "0"
							}
						}
					}
					outcome := "error"
					for _, l := range fetchLogs {
						if l.Status == 200 || l.Status == 206 {
							outcome = "body"
						}
					}
					rb := "0"
					if redirectedBefore {
						rb = "1"
					}
					ra := "0"
					if strings.Contains(fr.url, reg.CDNHost) {
						ra = "1"
					}
					sa := "0"
					if fr.isSingleRangeMode() {
						sa = "1"
					}
					out.Emit(fmt.Sprintf("fsm %s %s 1 %s %s", singleStr, rb, strings.Join(statuses, ","), refresh),
						fmt.Sprintf("%s reqs=%d single=%s redirected=%s", outcome, len(fetchLogs), sa, ra))
					// oracle: configured headers never reach the CDN host
					for _, l := range reg.Log() {
						if l.Host == reg.CDNHost && l.Header.Get("Authorization") != "" {
							out.Fail("header-forwarded-to-redirect-target", fmt.Sprintf("%s %s carried the configured Authorization header", l.Method, l.Host))
						}
					}
					if len(fetchLogs) > 2 {
						out.Fail("too-many-retries", fmt.Sprintf("%d fetch requests for one fetch", len(fetchLogs)))
					}
					if single && !fr.isSingleRangeMode() {
						out.Fail("single-range-mode-left", "single range mode was switched off")
					}
				}
				// ---- oracle: fetched size ----
				mc.mu.Lock()
				covered := make([]bool, size)
				for id, cnt := range mc.commits {
					if cnt > 0 {
						if reg, ok := id2chunk[id]; ok {
							for x := reg.b; x <= reg.e; x++ {
								covered[x] = true
							}
						}
					}
				}
				mc.mu.Unlock()
				var cnt int64
				for _, c := range covered {
					if c {
						cnt++
					}
				}
				if fetched != cnt {
					out.Fail("fetchedsize-ne-distinct", fmt.Sprintf("FetchedSize=%d but %d distinct bytes were committed to the cache (size=%d chunk=%d)", fetched, cnt, size, chunk))
				}
				if fetched > size {
					out.Fail("fetchedsize-gt-size", fmt.Sprintf("FetchedSize=%d > size=%d", fetched, size))
				}
				if fetched < prevFetched {
					out.Fail("fetchedsize-decreased", fmt.Sprintf("FetchedSize %d -> %d", prevFetched, fetched))
				}
				prevFetched = fetched
				out.Count("op-" + map[int]string{0: "read", 1: "cache"}[kind])
				if len(q) > 0 {
					out.Count("srv-" + q[0].String())
				} else {
					out.Count("srv-multi")
				}
				if err != nil {
					out.Count("result-err")
				} else {
					out.Count("result-ok")
				}
			case 2: // drop a cache entry (eviction / cache loss)
				if size == 0 {
					continue
				}
				ci := rnd.Range(0, (size-1)/chunk) * chunk
				e := ci + chunk - 1
				if e >= size {
					e = size - 1
				}
				mc.drop(fr.genID(region{ci, e}))
				out.Emit(fmt.Sprintf("drop %d %d", ci, e), "ok")
				out.Count("op-drop")
				shape += "d"
			case 4: // a cache entry loses its tail (partial cache content must be treated as a miss)
				if size == 0 {
					continue
				}
				ci := rnd.Range(0, (size-1)/chunk) * chunk
				e := ci + chunk - 1
				if e >= size {
					e = size - 1
				}
				keep := rnd.Range(0, e-ci)
				if mc.truncate(fr.genID(region{ci, e}), int(keep)) {
					out.Emit(fmt.Sprintf("trunc %d %d %d", ci, e, keep), "ok")
					out.Count("op-trunc")
					shape += "t"
				}
			case 3: // connectivity check (not modelled; must not disturb anything)
				sc.mu.Lock()
				sc.queue = nil
				sc.mu.Unlock()
				fr.check()
				out.Count("op-check")
			}
		}
		out.Distinct(fmt.Sprintf("%d/%d/%v/%s", size, chunk, sc.redirect, shape))
		bl.Close()
	}
}

// verifRangeHeader canonicalises "bytes=a-b,c-d" into the region notation of the driver.
func verifRangeHeader(h string) string {
	h = strings.TrimPrefix(h, "bytes=")
	var rs []region
	for _, part := range strings.Split(h, ",") {
		var b, e int64
		if _, err := fmt.Sscanf(part, "%d-%d", &b, &e); err == nil {
			rs = append(rs, region{b, e})
		}
	}
	sort.Slice(rs, func(i, j int) bool { return rs[i].b < rs[j].b })
	return verifShowRs(rs)
}
