//go:build verif

package layer

import (
	"bytes"
	"fmt"
	"os"
	"path/filepath"
	"runtime"
	"runtime/debug"
	"syscall"
	"testing"
	"time"

	"github.com/containerd/stargz-snapshotter/fs/reader"
	"github.com/containerd/stargz-snapshotter/internal/verifc02"
	"github.com/containerd/stargz-snapshotter/internal/verifutil"
)

// =============================================================================================
// C02x — histories with a STORAGE FAULT OF THE LOCAL CACHES (the class no other stream generates: so
// far only the registry failed, the two directory caches always accepted what was stored into them).
//
// The cache directory of the uncompressed chunk cache ("fscache") and/or of the compressed-blob cache
// ("httpcache") is damaged for a while: the shard directory <dir>/<key[:2]> of every key whose shard
// does not exist yet (variant "wipe": of every key, the files stored so far are lost) is occupied by a
// regular file, so the file part of every cache commit fails (stands for ENOSPC / EIO / a damaged
// cache directory) while the on-memory part of the commit has already happened.  No hook, no change of
// the code under test: the real directory caches of the real layer.Resolver stack are used.
//
// History shape: [healthy reads] -> damage -> reads / prefetch-stores of the chunks A while every
// commit fails (best-effort: a read may succeed or fail, but bytes it returns must be the tar's) ->
// heal -> reads of OTHER chunks B (they are stored normally and recycle whatever the failed commits
// released) -> every chunk of A and B is read again, whole and in parts.  After the heal every read
// must succeed and equal the tar.  Sites of the same shape: reader.cacheData (on-demand read),
// VerifiableReader.readAndCache (prefetch-store), blob.cacheChunkData (compressed cache), each alone
// and together, first store of a key and re-store of a key that is still in the on-memory LRU.
//
// The buffers of the directory cache travel through a sync.Pool: the harness runs this test with one
// P and the collector switched off so that what is put into the pool is what the next Get returns
// (otherwise machine load decides whether an ownership error of a pooled buffer shows).

type verifSFScenario struct {
	name     string
	chunk    int64
	files    [][3]int64 // (number of chunks, extra tail bytes, payload kind) per file
	nA       int        // the first nA files are read under the fault
	level    string     // "fs" | "http" | "both"
	prefetch bool       // chunks of A are stored through VerifiableReader.Cache instead of reads
	wipe     bool       // keys stored before are lost and blocked too (re-store of a key still in the LRU)
	pre      bool       // healthy reads of A before the damage
	lru      int
	regChunk int64
	verify   bool
	direct   bool
	zstd     bool
	minChunk int
}

// verifDamage occupies the shard directories of the caches below sub ("fscache"/"httpcache").
func (s *verifStack) verifDamage(sub string, wipe bool) (blockers []string) {
	dirs, _ := filepath.Glob(filepath.Join(s.root, sub, "*"))
	for _, d := range dirs {
		if fi, err := os.Stat(d); err != nil || !fi.IsDir() {
			continue
		}
		// one regular file, hard-linked under every free shard name (one syscall per name)
		seed := filepath.Join(d, "wip", "verif-blocker")
		if err := os.WriteFile(seed, []byte("verif: not a directory"), 0600); err != nil {
			continue
		}
		have := map[string]bool{}
		if des, err := os.ReadDir(d); err == nil {
			for _, de := range des {
				have[de.Name()] = de.IsDir()
			}
		}
		for x := 0; x < 256; x++ {
			name := fmt.Sprintf("%02x", x)
			p := filepath.Join(d, name)
			if isDir, ok := have[name]; ok {
				if !wipe || !isDir {
					continue
				}
				os.RemoveAll(p)
			}
			if err := os.Link(seed, p); err == nil {
				blockers = append(blockers, p)
			}
		}
		os.Remove(seed)
	}
	return blockers
}

type verifSFRead struct {
	p      string
	fi     int
	off, n int64
}

func (s *verifStack) verifSFCheck(out *verifutil.Out, phase string, r verifSFRead, got []byte, errno syscall.Errno, faultActive bool, ctx string) {
	f := s.files[r.fi]
	var want []byte
	if r.off < int64(len(f.data)) {
		e := r.off + r.n
		if e > int64(len(f.data)) {
			e = int64(len(f.data))
		}
		want = f.data[r.off:e]
	}
	what := fmt.Sprintf("%s: %s: file %q (size %d, %d chunks) off=%d n=%d", ctx, phase, r.p, f.size, len(f.chunks), r.off, r.n)
	if errno != 0 {
		if faultActive {
			out.Count("storefault-read-err-under-fault") // best-effort caching: tolerated, never wrong bytes
			return
		}
		out.Fail("read-failed-after-cache-store-fault", what+fmt.Sprintf(": errno %v although the cache directory is healthy again and the registry never failed", errno))
		return
	}
	if len(got) != len(want) {
		out.Fail("read-length-after-cache-store-fault", what+fmt.Sprintf(": got %d bytes, the tar has %d", len(got), len(want)))
	} else if !bytes.Equal(got, want) {
		first := 0
		for first < len(got) && got[first] == want[first] {
			first++
		}
		sig := "read-bytes-differ-after-cache-store-fault"
		if faultActive {
			sig = "read-bytes-differ-under-cache-store-fault"
		}
		out.Fail(sig, what+fmt.Sprintf(": bytes differ from the tar payload from byte %d of the range on", first))
	}
	out.Count("storefault-read-ok")
}

func verifRunStoreFault(t *testing.T, out *verifutil.Out, rnd *verifutil.Rand, sc verifSFScenario) {
	var ents []verifc02.Ent
	for i, f := range sc.files {
		e := verifReg(fmt.Sprintf("d%d/f%d", i%2, i), f[0]*sc.chunk+f[1], int64(100+7*i))
		e.Kind = int(f[2])
		ents = append(ents, e)
	}
	opts := verifc02.BuildOpts{ChunkSize: int(sc.chunk), Zstd: sc.zstd, MinChunkSize: sc.minChunk}
	cfg := verifGenStackCfg(rnd)
	cfg.fsCache, cfg.httpCache, cfg.direct, cfg.syncAdd = "dir", "dir", sc.direct, true
	cfg.lru, cfg.fds, cfg.regChunk, cfg.verify, cfg.prefetchChunk = sc.lru, 2, sc.regChunk, sc.verify, 0
	s, err := verifNewStack(t, ents, opts, cfg)
	if err != nil {
		out.Fail("scenario-setup-failed", fmt.Sprintf("store fault %s: %v", sc.name, err))
		return
	}
	defer s.close()
	ctx := fmt.Sprintf("cache store fault %q level=%s prefetch=%v wipe=%v pre=%v [%s | %s]", sc.name, sc.level, sc.prefetch, sc.wipe, sc.pre, s.opts, s.cfg)
	out.Comment(ctx)

	var A, B []verifSFRead
	for i := range sc.files {
		p := ents[i].Name
		fi, ok := s.fileOf(p)
		if !ok {
			out.Fail("scenario-setup-failed", fmt.Sprintf("store fault %s: %q is not served as a regular file", sc.name, p))
			return
		}
		for _, c := range s.files[fi].chunks {
			r := verifSFRead{p, fi, c.ChunkOffset, c.ChunkSize}
			if i < sc.nA {
				A = append(A, r)
			} else {
				B = append(B, r)
			}
		}
	}
	shuffle := func(l []verifSFRead) {
		for i := len(l) - 1; i > 0; i-- {
			j := rnd.Intn(i + 1)
			l[i], l[j] = l[j], l[i]
		}
	}
	do := func(phase string, r verifSFRead, faultActive bool) {
		var got []byte
		var errno syscall.Errno
		verifWatch(out, "read-"+phase, 60*time.Second, func() { got, errno = s.tree.Read(r.p, r.off, int(r.n)) })
		s.verifSFCheck(out, phase, r, got, errno, faultActive, ctx)
	}

	if sc.pre {
		// some chunks of A are stored normally first, then dropped from the harness's view of the chunk
		// cache (they stay in the real on-memory LRU): they are stored AGAIN under the fault
		for i, r := range A {
			if i%2 == 0 {
				do("healthy read before the damage", r, false)
				s.wc.evict(reader.VerifC02GenID(s.files[r.fi].id, r.off, r.n))
			}
		}
	}

	// ---- damage
	var blockers []string
	if sc.level == "fs" || sc.level == "both" {
		blockers = append(blockers, s.verifDamage("fscache", sc.wipe)...)
	}
	if sc.level == "http" || sc.level == "both" {
		blockers = append(blockers, s.verifDamage("httpcache", sc.wipe)...)
	}
	if len(blockers) == 0 {
		out.Fail("scenario-setup-failed", "store fault "+sc.name+": no cache directory found to damage below "+s.root)
		return
	}
	shuffle(A)
	if sc.prefetch && s.vr != nil {
		for i := 0; i < sc.nA; i++ {
			first := s.files[s.byName[verifc02.Clean(ents[i].Name)]].first
			verifWatch(out, "cache-under-store-fault", 60*time.Second, func() {
				if err := s.vr.Cache(reader.WithFilter(func(o int64) bool { return o == first })); err != nil {
					out.Count("storefault-cache-err-under-fault")
				}
			})
		}
		// and single reads of half of them, still under the fault
		for i, r := range A {
			if i%2 == 1 {
				do("read while every cache commit fails", r, true)
			}
		}
	} else {
		for _, r := range A {
			do("read while every cache commit fails", r, true)
		}
	}

	// ---- heal
	for _, p := range blockers {
		os.Remove(p)
	}
	shuffle(B)
	for _, r := range B {
		do("read of another chunk after the cache directory was repaired", r, false)
	}
	// ---- every chunk again, whole and in parts
	all := append(append([]verifSFRead(nil), A...), B...)
	shuffle(all)
	for _, r := range all {
		do("re-read after the cache directory was repaired", r, false)
		if r.n > 2 {
			o := rnd.Range(1, r.n-1)
			do("partial re-read after the cache directory was repaired", verifSFRead{r.p, r.fi, r.off + o, rnd.Range(1, r.n-o)}, false)
		}
	}
	// whole files (several chunks per read)
	for i := range sc.files {
		fi, _ := s.fileOf(ents[i].Name)
		do("whole-file read at the end", verifSFRead{ents[i].Name, fi, 0, s.files[fi].size + 3}, false)
	}
	out.Distinct(fmt.Sprintf("storefault/%s/%v/%v/%v/%d/%d/%d/%v/%v/%d", sc.level, sc.prefetch, sc.wipe, sc.pre, sc.chunk, sc.lru, sc.regChunk, sc.verify, sc.direct, len(sc.files)))
	out.Count("storefault-scenario")
}

// TestVerifC02StoreFault — served bytes equal the tar whatever was cached before, also when storing
// into the local caches failed for a while.  Oracle only (the model's cache is a finite map; what a
// failed commit may leave behind is the subject of SV.Props.C02x).
func TestVerifC02StoreFault(t *testing.T) {
	// deterministic sync.Pool: one P, no GC (restored at the end; this binary runs one test per process)
	defer runtime.GOMAXPROCS(runtime.GOMAXPROCS(1))
	defer debug.SetGCPercent(debug.SetGCPercent(-1))

	rnd := verifutil.NewRand(verifc02.MixSeed(verifutil.Seed(), 21))
	out := verifutil.OpenOut()
	defer out.Close()

	eq := func(n ...int64) [][3]int64 {
		var fs [][3]int64
		for i, k := range n {
			fs = append(fs, [3]int64{k, 0, int64(i % 2)})
		}
		return fs
	}
	hand := []verifSFScenario{
		// the three store sites, each alone
		{name: "chunk-cache/on-demand", chunk: 64, files: eq(4, 4, 3), nA: 1, level: "fs", lru: 64, regChunk: 4096, verify: true},
		{name: "chunk-cache/on-demand/unverified", chunk: 500, files: eq(1, 1, 1, 1), nA: 2, level: "fs", lru: 10, regChunk: 512, verify: false},
		{name: "chunk-cache/prefetch-store", chunk: 64, files: eq(3, 3, 4), nA: 2, level: "fs", prefetch: true, lru: 64, regChunk: 4096, verify: true},
		{name: "blob-cache/on-demand", chunk: 64, files: [][3]int64{{6, 0, 1}, {6, 0, 1}, {4, 0, 1}}, nA: 1, level: "http", lru: 64, regChunk: 64, verify: true},
		{name: "blob-cache/on-demand/unverified", chunk: 33, files: [][3]int64{{8, 0, 1}, {8, 5, 1}}, nA: 1, level: "http", lru: 64, regChunk: 16, verify: false},
		{name: "both-caches", chunk: 64, files: [][3]int64{{5, 0, 1}, {5, 0, 0}, {5, 7, 1}}, nA: 1, level: "both", lru: 64, regChunk: 64, verify: true},
		// a key that is still in the on-memory LRU is stored again while the commit fails
		{name: "chunk-cache/re-store", chunk: 64, files: eq(4, 3, 3, 2), nA: 1, level: "fs", wipe: true, pre: true, lru: 64, regChunk: 4096, verify: true},
		{name: "chunk-cache/re-store/prefetch", chunk: 16, files: eq(6, 6, 6), nA: 2, level: "fs", wipe: true, pre: true, prefetch: true, lru: 64, regChunk: 512, verify: true},
		{name: "blob-cache/wiped", chunk: 64, files: [][3]int64{{6, 0, 1}, {6, 0, 1}}, nA: 1, level: "both", wipe: true, pre: true, lru: 64, regChunk: 64, verify: true},
		// tiny LRU, several chunks per compressed stream, zstd, direct mode (no on-memory part)
		{name: "tiny-lru", chunk: 64, files: eq(4, 4, 4), nA: 1, level: "fs", lru: 2, regChunk: 4096, verify: true},
		{name: "shared-stream/zstd", chunk: 16, files: eq(5, 5, 5), nA: 2, level: "both", lru: 16, regChunk: 64, verify: true, zstd: true, minChunk: 100},
		{name: "direct", chunk: 64, files: eq(3, 3), nA: 1, level: "both", lru: 8, regChunk: 64, verify: true, direct: true},
	}
	for _, sc := range hand {
		verifRunStoreFault(t, out, rnd, sc)
	}
	n := verifutil.EnvInt("VERIF_N", 8)
	for h := 0; h < n; h++ {
		nf := 2 + rnd.Intn(4)
		sc := verifSFScenario{
			name:     fmt.Sprintf("random %d", h),
			chunk:    []int64{16, 33, 64, 500}[rnd.Intn(4)],
			nA:       1 + rnd.Intn(nf-1),
			level:    []string{"fs", "fs", "http", "both"}[rnd.Intn(4)],
			prefetch: rnd.Intn(3) == 0,
			wipe:     rnd.Intn(3) == 0,
			pre:      rnd.Bool(),
			lru:      []int{1, 2, 3, 8, 64}[rnd.Intn(5)],
			regChunk: []int64{16, 64, 512, 4096}[rnd.Intn(4)],
			verify:   rnd.Intn(4) != 0,
			direct:   rnd.Intn(8) == 0,
			zstd:     rnd.Intn(4) == 0,
			minChunk: []int{0, 0, 100, 100000}[rnd.Intn(4)],
		}
		for i := 0; i < nf; i++ {
			tail := int64(0)
			if rnd.Intn(3) == 0 {
				tail = rnd.Range(1, sc.chunk-1)
			}
			sc.files = append(sc.files, [3]int64{rnd.Range(1, 6), tail, int64(rnd.Intn(2))})
		}
		verifRunStoreFault(t, out, rnd, sc)
	}
}
