//go:build verif

package layer

// C12 harness: the REAL layer.Resolver (two TTL caches, OnEvicted callbacks, Resolve/resolveBlob,
// layerRef.Done/Close, layer.close) driven against the scripted in-memory registry serving real
// eStargz blobs.  Timer expiry is driven through cacheutil's VerifC12Expire shim (lock +
// evictLocked, the body of the timer function); the configured TTL is so long that real timers
// never fire.  Connectivity checks really probe the registry (CheckAlways).
//
// Robustness against harmless rewrites: everything is driven and observed through the EXPORTED API
// (NewResolver, Resolver.Resolve, the Layer interface, go-fuse's node interfaces, the directories
// under the resolver root).  The two things that have no exported access are found by TYPE, not by
// name, with reflection (verifC12Caches: the *cacheutil.TTLCache fields of Resolver;
// verifC12Identity: the shared object behind a returned Layer handle); cache keys are learnt from
// the caches themselves, never computed.

import (
	"context"
	"fmt"
	"io"
	"net/http"
	"os"
	"path/filepath"
	"reflect"
	"sort"
	"strings"
	"sync"
	"sync/atomic"
	"testing"
	"time"
	"unsafe"

	"github.com/containerd/containerd/v2/pkg/reference"
	"github.com/containerd/log"
	"github.com/containerd/stargz-snapshotter/estargz"
	"github.com/containerd/stargz-snapshotter/fs/config"
	"github.com/containerd/stargz-snapshotter/fs/remote"
	"github.com/containerd/stargz-snapshotter/fs/source"
	"github.com/containerd/stargz-snapshotter/internal/verifreg"
	"github.com/containerd/stargz-snapshotter/internal/verifutil"
	"github.com/containerd/stargz-snapshotter/metadata"
	memorymetadata "github.com/containerd/stargz-snapshotter/metadata/memory"
	"github.com/containerd/stargz-snapshotter/task"
	"github.com/containerd/stargz-snapshotter/util/cacheutil"
	tutil "github.com/containerd/stargz-snapshotter/util/testutil"
	fusefs "github.com/hanwen/go-fuse/v2/fs"
	"github.com/hanwen/go-fuse/v2/fuse"
	digest "github.com/opencontainers/go-digest"
	ocispec "github.com/opencontainers/image-spec/specs-go/v1"
)

const verifC12NumNames = 3

// ---------------------------------------------------------------- sources (real eStargz blobs)

type verifC12Src struct {
	desc  ocispec.Descriptor
	toc   digest.Digest
	files map[string]string
	paths []string
}

func verifC12Content(seed, n int) string {
	b := make([]byte, n)
	x := uint32(seed)*2654435761 + 12345
	for i := range b {
		x = x*1664525 + 1013904223
		b[i] = byte(x >> 24)
	}
	return string(b)
}

func verifC12Sources(t *testing.T, reg *verifreg.Registry) []verifC12Src {
	var out []verifC12Src
	for k := 0; k < verifC12NumNames; k++ {
		files := map[string]string{
			"a.txt": verifC12Content(k*7+1, 3000+500*k),
			"b.bin": verifC12Content(k*7+2, 60000+3000*k), // incompressible: spans many 8 KiB blob chunks
			"c":     verifC12Content(k*7+3, 100),
		}
		ents := []tutil.TarEntry{
			tutil.File("a.txt", files["a.txt"]),
			tutil.Dir("d/"),
			tutil.File("b.bin", files["b.bin"]),
			tutil.File("c", files["c"]),
		}
		sr, toc, err := tutil.BuildEStargz(ents, tutil.WithEStargzOptions(estargz.WithChunkSize(4096)))
		if err != nil {
			t.Fatalf("build estargz: %v", err)
		}
		data, err := io.ReadAll(sr)
		if err != nil {
			t.Fatalf("read estargz: %v", err)
		}
		dg := digest.FromBytes(data)
		reg.AddBlob(dg.String(), data)
		out = append(out, verifC12Src{
			desc:  ocispec.Descriptor{Digest: dg, Size: int64(len(data)), MediaType: ocispec.MediaTypeImageLayerGzip},
			toc:   toc,
			files: files,
			paths: []string{"a.txt", "b.bin", "c"},
		})
	}
	return out
}

// ---------------------------------------------------------------- metadata wrapper (observes Close)

type verifC12Meta struct {
	metadata.Reader
	closed atomic.Int32
}

func (m *verifC12Meta) Close() error {
	m.closed.Add(1)
	return m.Reader.Close()
}

// ---------------------------------------------------------------- access without exported API (by type)

// verifC12Caches returns the *cacheutil.TTLCache fields of the Resolver, in declaration order.
func verifC12Caches(r *Resolver) []*cacheutil.TTLCache {
	var out []*cacheutil.TTLCache
	want := reflect.TypeOf((*cacheutil.TTLCache)(nil))
	v := reflect.ValueOf(r).Elem()
	for i := 0; i < v.NumField(); i++ {
		if f := v.Field(i); f.Type() == want && !f.IsNil() {
			out = append(out, (*cacheutil.TTLCache)(unsafe.Pointer(f.Pointer())))
		}
	}
	return out
}

// verifC12Identity identifies the shared layer object behind a handle returned by Resolve: the
// first pointer (or interface holding a pointer) to a struct inside the handle; handles of one
// cached layer carry the same one.  Falls back to the handle itself.
func verifC12Identity(l Layer) uintptr {
	v := reflect.ValueOf(l)
	if v.Kind() == reflect.Ptr && !v.IsNil() {
		if s := v.Elem(); s.Kind() == reflect.Struct {
			for i := 0; i < s.NumField(); i++ {
				f := s.Field(i)
				if f.Kind() == reflect.Interface && !f.IsNil() {
					f = f.Elem()
				}
				if f.Kind() == reflect.Ptr && !f.IsNil() && f.Elem().Kind() == reflect.Struct {
					return f.Pointer()
				}
			}
		}
		return v.Pointer()
	}
	return 0
}

// ---------------------------------------------------------------- environment

type verifC12Plan struct {
	kind                   int // 0: registry up; 1: Resolve with oracle; 2: Refresh
	name                   int
	lchk, bchk, bres, mres bool // true = that step succeeds
	reg                    bool
	mode                   verifreg.Mode
	lUsed, bUsed           bool
}

type verifC12Inst struct {
	id      int
	name    int
	h0      Layer               // the first handle handed out for this instance (kept for observation)
	root    fusefs.InodeEmbedder // a root node obtained while the first holder held it
	meta    *verifC12Meta
	fsDir   string
	httpDir string // directory of the blob this layer uses = the blob's identity
	holders int    // live holders (oracle's own count)
	evicted bool   // an eviction event happened for this instance (oracle's own knowledge)
	status  string
}

type verifC12Holder struct {
	inst *verifC12Inst
	ref  Layer
	root fusefs.InodeEmbedder
	live bool
}

type verifC12Env struct {
	t     *testing.T
	out   *verifutil.Out
	reg   *verifreg.Registry
	srcs  []verifC12Src
	ref   reference.Spec
	hosts source.RegistryHosts
	tm    *task.BackgroundTaskManager
	work  string

	root     string
	r        *Resolver
	caches   []*cacheutil.TTLCache
	isBlob   map[*cacheutil.TTLCache]bool           // classified once a value has been seen in it
	known    map[*cacheutil.TTLCache]bool
	keys     map[*cacheutil.TTLCache]map[int][]string // cache keys learnt per name
	insts    map[uintptr]*verifC12Inst
	order    []*verifC12Inst
	lastHTTP map[int]string // newest httpcache directory created by a Resolve of that name
	holders  []*verifC12Holder
	cur      map[int]*verifC12Inst

	mu        sync.Mutex
	plan      verifC12Plan
	lastMeta  *verifC12Meta
	metaCalls atomic.Int64
}

func verifC12NewEnv(t *testing.T, out *verifutil.Out) *verifC12Env {
	log.SetLevel("fatal")
	reg := verifreg.New()
	e := &verifC12Env{t: t, out: out, reg: reg}
	e.srcs = verifC12Sources(t, reg)
	ref, err := reference.Parse("reg.test/verif/c12:latest")
	if err != nil {
		t.Fatal(err)
	}
	e.ref = ref
	e.hosts = reg.Hosts(nil)
	e.tm = task.NewBackgroundTaskManager(2, 5*time.Second)
	reg.Script = e.script
	work := os.Getenv("VERIF_WORK")
	if work == "" {
		work = os.TempDir()
	}
	e.work = work
	return e
}

// ---- cache keys and cache roles are learnt from the caches themselves

func (e *verifC12Env) snapshotKeys() map[*cacheutil.TTLCache][]string {
	out := map[*cacheutil.TTLCache][]string{}
	for _, c := range e.caches {
		out[c] = c.VerifC12Keys()
	}
	return out
}

// learn records the keys that appeared in each cache during a Resolve of name k and classifies a
// cache as the blob cache as soon as a value in it is a remote.Blob (the other one holds layers).
func (e *verifC12Env) learn(k int, before map[*cacheutil.TTLCache][]string) {
	e.mu.Lock()
	defer e.mu.Unlock()
	for _, c := range e.caches {
		after := c.VerifC12Keys()
		for _, key := range verifC12New(before[c], after) {
			dup := false
			for _, x := range e.keys[c][k] {
				dup = dup || x == key
			}
			if !dup {
				e.keys[c][k] = append(e.keys[c][k], key)
			}
		}
		if !e.known[c] {
			for _, key := range after {
				if v, ok := c.VerifC12Peek(key); ok {
					_, e.isBlob[c] = v.(remote.Blob)
					e.known[c] = true
					break
				}
			}
		}
	}
}

// cachedLocked: is anything cached for name k in a cache of the given role?  (e.mu held)
func (e *verifC12Env) cachedLocked(k int, blob bool) bool {
	for _, c := range e.caches {
		if !e.known[c] || e.isBlob[c] != blob {
			continue
		}
		for _, key := range e.keys[c][k] {
			if c.VerifC12Has(key) {
				return true
			}
		}
	}
	return false
}

// expire fires the timer path for name k in the cache(s) of the given role.
func (e *verifC12Env) expire(k int, blob bool) {
	e.mu.Lock()
	type ck struct {
		c   *cacheutil.TTLCache
		key string
	}
	var todo []ck
	for _, c := range e.caches {
		if e.known[c] && e.isBlob[c] == blob {
			for _, key := range e.keys[c][k] {
				todo = append(todo, ck{c, key})
			}
		}
	}
	e.mu.Unlock()
	for _, x := range todo {
		x.c.VerifC12Expire(x.key)
	}
}

// script answers one registry request.  Data fetches carry "Accept-Encoding: identity"; all other
// requests are control requests: the probe of a connectivity check, or redirect/size of the blob
// resolution.  Which step of Resolve a control request belongs to is read off the implementation's
// own cache state at request time: during the cached layer's check the layer is still cached,
// during the cached blob's check the blob is, during a fresh blob resolution neither is.
func (e *verifC12Env) script(req *http.Request, onCDN bool, seq int) verifreg.Mode {
	e.mu.Lock()
	defer e.mu.Unlock()
	p := &e.plan
	fetch := req.Header.Get("Accept-Encoding") == "identity"
	switch p.kind {
	case 1:
		if fetch {
			if !p.mres {
				return p.mode
			}
			return verifreg.Multi
		}
		ok := p.bres
		if !p.lUsed && e.cachedLocked(p.name, false) {
			p.lUsed = true
			ok = p.lchk
		} else if !p.bUsed && e.cachedLocked(p.name, true) {
			p.lUsed, p.bUsed = true, true
			ok = p.bchk
		} else {
			p.lUsed, p.bUsed = true, true
		}
		if !ok {
			return p.mode
		}
		return verifreg.Multi
	case 2:
		if !fetch && !p.reg {
			return p.mode
		}
	}
	return verifreg.Multi
}

func (e *verifC12Env) setPlan(p verifC12Plan) {
	e.mu.Lock()
	e.plan = p
	e.mu.Unlock()
}

// store is the metadata.Store handed to NewResolver: the real in-memory store; when the oracle
// says the metadata read fails, the registry fails every data request meanwhile and the result is
// an error in any case (also when every needed chunk was served from the blob's http cache).
func (e *verifC12Env) store(sr *io.SectionReader, opts ...metadata.Option) (metadata.Reader, error) {
	e.metaCalls.Add(1)
	e.mu.Lock()
	fail := e.plan.kind == 1 && !e.plan.mres
	e.mu.Unlock()
	mr, err := memorymetadata.NewReader(sr, opts...)
	if fail {
		if err == nil {
			mr.Close()
			err = fmt.Errorf("verif: injected metadata failure")
		}
		return nil, err
	}
	if err != nil {
		return nil, err
	}
	w := &verifC12Meta{Reader: mr}
	e.mu.Lock()
	e.lastMeta = w
	e.mu.Unlock()
	return w, nil
}

func (e *verifC12Env) newResolver() {
	root, err := os.MkdirTemp(e.work, "c12root-")
	if err != nil {
		e.t.Fatal(err)
	}
	e.root = root
	cfg := config.Config{
		ResolveResultEntryTTLSec: 1000000, // real timers never fire; expiry is driven by the harness
		BlobConfig: config.BlobConfig{
			CheckAlways:     true, // every Check() really probes the registry
			ChunkSize:       8192,
			FetchTimeoutSec: 30,
			MaxRetries:      1,
			MinWaitMSec:     1,
			MaxWaitMSec:     2,
		},
		DirectoryCacheConfig: config.DirectoryCacheConfig{SyncAdd: true, MaxLRUCacheEntry: 4, MaxCacheFds: 4},
	}
	r, err := NewResolver(root, e.tm, cfg, nil, e.store, OverlayOpaqueAll, nil)
	if err != nil {
		e.t.Fatal(err)
	}
	e.r = r
	e.caches = verifC12Caches(r)
	if len(e.caches) != 2 {
		e.t.Fatalf("harness: expected the resolver to own 2 TTL caches (layers, blobs), found %d", len(e.caches))
	}
	e.isBlob = map[*cacheutil.TTLCache]bool{}
	e.known = map[*cacheutil.TTLCache]bool{}
	e.keys = map[*cacheutil.TTLCache]map[int][]string{}
	for _, c := range e.caches {
		e.keys[c] = map[int][]string{}
	}
	e.insts = map[uintptr]*verifC12Inst{}
	e.order = nil
	e.lastHTTP = map[int]string{}
	e.holders = nil
	e.cur = map[int]*verifC12Inst{}
	e.setPlan(verifC12Plan{})
}

func (e *verifC12Env) dropResolver() {
	os.RemoveAll(e.root)
}

func verifC12List(dir string) []string {
	ents, err := os.ReadDir(dir)
	if err != nil {
		return nil
	}
	var out []string
	for _, x := range ents {
		out = append(out, filepath.Join(dir, x.Name()))
	}
	sort.Strings(out)
	return out
}

func verifC12New(before, after []string) []string {
	m := map[string]bool{}
	for _, x := range before {
		m[x] = true
	}
	var out []string
	for _, x := range after {
		if !m[x] {
			out = append(out, x)
		}
	}
	return out
}

func (e *verifC12Env) dirs() (fsd, httpd []string) {
	return verifC12List(filepath.Join(e.root, "fscache")), verifC12List(filepath.Join(e.root, "httpcache"))
}

func verifC12Exists(p string) bool {
	if p == "" {
		return false
	}
	_, err := os.Stat(p)
	return err == nil
}

func verifC12B(b bool) string {
	if b {
		return "1"
	}
	return "0"
}

// ---- reads through go-fuse's exported node interfaces

func verifC12Open(root fusefs.InodeEmbedder, path string) (fusefs.FileHandle, error) {
	lk, ok := root.(fusefs.NodeLookuper)
	if !ok {
		return nil, fmt.Errorf("root node cannot Lookup")
	}
	var eo fuse.EntryOut
	ino, errno := lk.Lookup(context.Background(), path, &eo)
	if errno != 0 {
		return nil, fmt.Errorf("lookup %q: %v", path, errno)
	}
	op, ok := ino.Operations().(fusefs.NodeOpener)
	if !ok {
		return nil, fmt.Errorf("%q cannot be opened", path)
	}
	fh, _, errno := op.Open(context.Background(), 0)
	if errno != 0 {
		return nil, fmt.Errorf("open %q: %v", path, errno)
	}
	return fh, nil
}

func verifC12Read(root fusefs.InodeEmbedder, path, want string) error {
	fh, err := verifC12Open(root, path)
	if err != nil {
		return err
	}
	rd, ok := fh.(fusefs.FileReader)
	if !ok {
		return fmt.Errorf("%q cannot be read", path)
	}
	rr, errno := rd.Read(context.Background(), make([]byte, len(want)), 0)
	if errno != 0 {
		return fmt.Errorf("read %q: %v", path, errno)
	}
	buf, st := rr.Bytes(make([]byte, len(want)))
	if st != fuse.OK {
		return fmt.Errorf("read result %q: %v", path, st)
	}
	if string(buf) != want {
		return fmt.Errorf("content of %q differs (%d bytes, want %d)", path, len(buf), len(want))
	}
	return nil
}

func verifC12RootOf(l Layer) (fusefs.InodeEmbedder, error) {
	rn, err := l.RootNode(0)
	if err != nil {
		return nil, err
	}
	fusefs.NewNodeFS(rn, &fusefs.Options{}) // initialises the root inode
	return rn, nil
}

// observe returns the status vector cRMFBH of one instance, read off the real objects through the
// exported API: c RootNode refuses; R a file cannot be opened through a root node obtained earlier;
// M the metadata reader was closed; F the fscache directory is gone; B a (zero-length) blob read
// through the layer refuses; H the blob's httpcache directory is gone.
func (e *verifC12Env) observe(in *verifC12Inst) string {
	_, cErr := in.h0.RootNode(0)
	r := "?"
	if in.root != nil {
		_, rErr := verifC12Open(in.root, "c")
		r = verifC12B(rErr != nil)
	}
	m := "0"
	if n := in.meta.closed.Load(); n == 1 {
		m = "1"
	} else if n > 1 {
		m = "2"
	}
	f := !verifC12Exists(in.fsDir)
	_, bErr := in.h0.ReadAt(nil, 0)
	h := !verifC12Exists(in.httpDir)
	return verifC12B(cErr != nil) + r + m + verifC12B(f) + verifC12B(bErr != nil) + verifC12B(h)
}

// tail = directory counts + status changes, and the per-op oracle.
func (e *verifC12Env) tail(what string) string {
	fsd, httpd := e.dirs()
	var evs []string
	for _, in := range e.order {
		st := e.observe(in)
		if st != in.status {
			evs = append(evs, fmt.Sprintf("%d:%s", in.id, st))
			in.status = st
		}
	}
	ev := "-"
	if len(evs) > 0 {
		ev = strings.Join(evs, ",")
	}
	e.oracle(what)
	return fmt.Sprintf(" fs=%d http=%d ev=%s", len(fsd), len(httpd), ev)
}

// oracle: the property's predicate on the real objects, from the harness's own book-keeping
// (who holds what, which eviction events it caused) — no model involved.
func (e *verifC12Env) oracle(what string) {
	for _, in := range e.order {
		st := in.status
		if in.holders > 0 && st != "000000" {
			e.out.Fail("held-layer-closed", fmt.Sprintf("%s: layer %d has %d holder(s) but status cRMFBH=%s", what, in.id, in.holders, st))
		}
		if in.holders == 0 && in.evicted {
			if st[:4] != "1111" {
				e.out.Fail("leak-after-release", fmt.Sprintf("%s: layer %d released by all holders and evicted but status cRMFBH=%s", what, in.id, st))
			}
			// the blob goes once every layer instance using it is reclaimed
			all := true
			for _, o := range e.order {
				if o.httpDir == in.httpDir && !(o.holders == 0 && o.evicted) {
					all = false
				}
			}
			if all && st[4:] != "11" {
				e.out.Fail("leak-after-release", fmt.Sprintf("%s: every layer on the blob of layer %d is reclaimed but blob status BH=%s", what, in.id, st[4:]))
			}
		}
	}
}

func (e *verifC12Env) evict(in *verifC12Inst) {
	if in == nil {
		return
	}
	in.evicted = true
	if e.cur[in.name] == in {
		delete(e.cur, in.name)
	}
}

var verifC12FailModes = []verifreg.Mode{verifreg.ServerErr, verifreg.NetErr, verifreg.NotFound}

func (e *verifC12Env) opResolve(k int, o [4]bool, mode verifreg.Mode) {
	op := fmt.Sprintf("resolve %d %s %s %s %s", k, verifC12B(o[0]), verifC12B(o[1]), verifC12B(o[2]), verifC12B(o[3]))
	fs0, http0 := e.dirs()
	keys0 := e.snapshotKeys()
	prev := e.cur[k]
	mc0 := e.metaCalls.Load()
	e.setPlan(verifC12Plan{kind: 1, name: k, lchk: o[0], bchk: o[1], bres: o[2], mres: o[3], mode: mode})
	l, err := e.r.Resolve(context.Background(), e.hosts, e.ref, e.srcs[k].desc)
	e.setPlan(verifC12Plan{})
	e.learn(k, keys0)
	metaCalled := e.metaCalls.Load() != mc0
	fs1, http1 := e.dirs()
	if nh := verifC12New(http0, http1); len(nh) > 0 {
		e.lastHTTP[k] = nh[len(nh)-1]
	}
	allOK := o[0] && o[1] && o[2] && o[3]
	if prev != nil && !o[0] {
		e.evict(prev) // the harness made the cached layer's connectivity check fail
	}
	if err != nil {
		e.out.Count("resolve-err")
		cls := "blob"
		if metaCalled {
			cls = "meta"
		}
		if nf, nh := verifC12New(fs0, fs1), verifC12New(http0, http1); len(nf) > 0 || len(nh) > 0 {
			e.out.Fail("failed-resolve-leaks", fmt.Sprintf("%s failed (%s) but left directories %v %v", op, cls, nf, nh))
		}
		if allOK {
			e.out.Fail("reresolve-failed", fmt.Sprintf("%s: nothing was made to fail but Resolve returned %v", op, err))
		}
		e.out.Distinct(fmt.Sprintf("resolve-err-%s-prev%v", cls, prev != nil))
		e.out.Emit(op, "err "+cls+e.tail(op))
		return
	}
	id := verifC12Identity(l)
	in, seen := e.insts[id]
	kind := "hit"
	closedBefore := seen && in.status != "" && in.status[0] == '1'
	if !seen {
		kind = "fresh"
		in = &verifC12Inst{id: len(e.order), name: k, h0: l}
		e.mu.Lock()
		in.meta = e.lastMeta
		e.mu.Unlock()
		if in.meta == nil || !metaCalled {
			in.meta = &verifC12Meta{}
			e.out.Fail("harness-meta-wrapper-missing", op)
		}
		if nf := verifC12New(fs0, fs1); len(nf) == 1 {
			in.fsDir = nf[0]
		} else {
			e.out.Fail("fscache-dir-count", fmt.Sprintf("%s: fresh layer but %d new fscache directories", op, len(nf)))
		}
		// the blob of a fresh layer: the one resolved during this call, else the one cached for the name
		if nh := verifC12New(http0, http1); len(nh) > 1 {
			e.out.Fail("httpcache-dir-count", fmt.Sprintf("%s: %d new httpcache directories", op, len(nh)))
		}
		in.httpDir = e.lastHTTP[k]
		in.status = "" // so that the new layer shows up in ev
		e.insts[id] = in
		e.order = append(e.order, in)
	} else if metaCalled {
		kind = "existing"
	}
	// ---- oracle on the returned instance
	if closedBefore {
		e.out.Fail("stale-instance-reused", fmt.Sprintf("%s returned layer %d which was already closed", op, in.id))
	}
	if prev != nil && !prev.evicted && o[0] && in != prev {
		e.out.Fail("two-instances", fmt.Sprintf("%s returned layer %d although layer %d was resolved before and never evicted", op, in.id, prev.id))
	}
	if prev != nil && !o[0] && in == prev {
		e.out.Fail("stale-instance-reused", fmt.Sprintf("%s: connectivity check of cached layer %d failed but it was returned again", op, in.id))
	}
	if in.name != k {
		e.out.Fail("two-instances", fmt.Sprintf("%s returned layer %d of another name", op, in.id))
	}
	in.holders++
	h := &verifC12Holder{inst: in, ref: l, live: true}
	e.cur[k] = in
	e.holders = append(e.holders, h)
	if err := l.Verify(e.srcs[k].toc); err != nil {
		e.out.Fail("held-layer-closed", fmt.Sprintf("%s: Verify on the returned layer %d: %v", op, in.id, err))
	} else if root, err := verifC12RootOf(l); err != nil {
		e.out.Fail("held-layer-closed", fmt.Sprintf("%s: RootNode on the returned layer %d: %v", op, in.id, err))
	} else {
		h.root = root
		if in.root == nil {
			in.root = root
		}
		if err := verifC12Read(root, "a.txt", e.srcs[k].files["a.txt"]); err != nil {
			sig := "held-layer-closed"
			if !seen {
				sig = "reresolve-failed"
			}
			e.out.Fail(sig, fmt.Sprintf("%s: read through the returned layer %d: %v", op, in.id, err))
		}
	}
	e.out.Count("resolve-" + kind)
	e.out.Distinct(fmt.Sprintf("resolve-%s-%v-prev%v-holders%d", kind, o, prev != nil, min(in.holders, 3)))
	e.out.Emit(op, fmt.Sprintf("ok %s l=%d h=%d", kind, in.id, len(e.holders)-1)+e.tail(op))
}

func (e *verifC12Env) opDone(hi int, evict bool) {
	op := fmt.Sprintf("done %d %s", hi, verifC12B(evict))
	if hi >= len(e.holders) {
		return
	}
	h := e.holders[hi]
	if h.live {
		h.live = false
		h.inst.holders--
	}
	if evict {
		h.ref.Close()
		e.evict(h.inst)
	} else {
		h.ref.Done()
	}
	e.out.Count("done")
	e.out.Emit(op, "unit"+e.tail(op))
}

func (e *verifC12Env) opExpire(which string, k int) {
	op := fmt.Sprintf("expire %s %d", which, k)
	if which == "l" {
		e.expire(k, false)
		e.evict(e.cur[k])
	} else {
		e.expire(k, true)
	}
	e.out.Count("expire-" + which)
	e.out.Emit(op, "unit"+e.tail(op))
}

// opRefresh: how = 1 the registry answers; 0 it does not; 2 it answers but the refreshed source is a
// blob of another size (Refresh must reject it and leave the mounted layer as it was).
func (e *verifC12Env) opRefresh(hi int, how int, mode verifreg.Mode) {
	op := fmt.Sprintf("refresh %d %d", hi, how)
	h := e.holders[hi]
	k := h.inst.name
	desc := e.srcs[k].desc
	if how == 2 {
		desc = e.srcs[(k+1)%verifC12NumNames].desc
	}
	e.setPlan(verifC12Plan{kind: 2, reg: how != 0, mode: mode})
	err := h.ref.Refresh(context.Background(), e.hosts, e.ref, desc)
	e.setPlan(verifC12Plan{})
	res := "ok"
	if err != nil {
		res = "err"
		if h.live && how == 1 {
			e.out.Fail("held-layer-closed", fmt.Sprintf("%s: Refresh by a holder of layer %d with the registry up: %v", op, h.inst.id, err))
		}
	}
	e.out.Count(fmt.Sprintf("refresh-%d", how))
	e.out.Emit(op, res+e.tail(op))
}

func (e *verifC12Env) opRead(hi int, old bool, pi int) {
	h := e.holders[hi]
	k := h.inst.name
	path := e.srcs[k].paths[pi%len(e.srcs[k].paths)]
	var err error
	op := fmt.Sprintf("read %d", hi)
	if old {
		op = fmt.Sprintf("readold %d", hi)
		if h.root == nil {
			return
		}
		err = verifC12Read(h.root, path, e.srcs[k].files[path])
	} else {
		var root fusefs.InodeEmbedder
		if root, err = verifC12RootOf(h.ref); err == nil {
			err = verifC12Read(root, path, e.srcs[k].files[path])
		}
	}
	res := "ok"
	if err != nil {
		res = "err"
		if h.live {
			e.out.Fail("held-layer-closed", fmt.Sprintf("%s (%s): a holder of layer %d cannot read: %v", op, path, h.inst.id, err))
		}
	}
	e.out.Count("read")
	e.out.Emit(op, res+e.tail(op))
}

// drain: everybody releases, both caches expire every name; afterwards nothing may be left.
func (e *verifC12Env) drain() {
	for hi, h := range e.holders {
		if h.live {
			e.opDone(hi, false)
		}
	}
	for k := 0; k < verifC12NumNames; k++ {
		e.opExpire("l", k)
		e.opExpire("b", k)
	}
	fsd, httpd := e.dirs()
	if len(fsd) != 0 || len(httpd) != 0 {
		e.out.Fail("leak-after-release", fmt.Sprintf("after drain: directories left: %v %v", fsd, httpd))
	}
	for _, c := range e.caches {
		if ks := c.VerifC12Keys(); len(ks) != 0 {
			e.out.Fail("leak-after-release", fmt.Sprintf("after drain: %d entries left in a cache", len(ks)))
		}
	}
	for _, in := range e.order {
		if in.status != "111111" {
			e.out.Fail("leak-after-release", fmt.Sprintf("after drain: layer %d has status cRMFBH=%s", in.id, in.status))
		}
	}
	// and the names resolve afresh and work
	k := len(e.order) % verifC12NumNames
	n0 := len(e.order)
	e.opResolve(k, [4]bool{true, true, true, true}, verifreg.ServerErr)
	if len(e.order) != n0+1 {
		e.out.Fail("stale-instance-reused", "after drain: Resolve did not create a new instance")
	}
	e.opDone(len(e.holders)-1, true)
}

// ---------------------------------------------------------------- scripted edge histories

// Tiny op language: "R<k> <lchk><bchk><bres><meta>", "D<h>", "C<h>", "EL<k>", "EB<k>", "F<h> <0|1|2>",
// "r<h>", "o<h>".
func (e *verifC12Env) runScript(name string, ops []string) {
	e.newResolver()
	defer e.dropResolver()
	e.out.Comment("scenario " + name)
	e.out.Emit("new", "ok")
	for _, s := range ops {
		var a, b int
		var w string
		switch {
		case strings.HasPrefix(s, "R"):
			fmt.Sscanf(s, "R%d %s", &a, &w)
			e.opResolve(a, [4]bool{w[0] == '1', w[1] == '1', w[2] == '1', w[3] == '1'}, verifreg.ServerErr)
		case strings.HasPrefix(s, "D"):
			fmt.Sscanf(s, "D%d", &a)
			e.opDone(a, false)
		case strings.HasPrefix(s, "C"):
			fmt.Sscanf(s, "C%d", &a)
			e.opDone(a, true)
		case strings.HasPrefix(s, "EL"):
			fmt.Sscanf(s, "EL%d", &a)
			e.opExpire("l", a)
		case strings.HasPrefix(s, "EB"):
			fmt.Sscanf(s, "EB%d", &a)
			e.opExpire("b", a)
		case strings.HasPrefix(s, "F"):
			fmt.Sscanf(s, "F%d %d", &a, &b)
			e.opRefresh(a, b, verifreg.NetErr)
		case strings.HasPrefix(s, "r"):
			fmt.Sscanf(s, "r%d", &a)
			e.opRead(a, false, 1)
		case strings.HasPrefix(s, "o"):
			fmt.Sscanf(s, "o%d", &a)
			e.opRead(a, true, 1)
		default:
			e.t.Fatalf("bad scripted op %q", s)
		}
	}
	e.drain()
	e.out.Distinct("scenario-" + name)
}

var verifC12Scenarios = []struct {
	name string
	ops  []string
}{
	{"share-expire-release-reresolve", []string{"R0 1111", "R0 1111", "r0", "r1", "D0", "EL0", "r1", "o0", "D1", "o1", "R0 1111", "r2"}},
	{"failed-blob-resolve-on-empty", []string{"R0 1101", "R0 1111", "R1 1101", "D0"}},
	{"failed-metadata-on-empty", []string{"R0 1110", "R0 1110", "R0 1111", "r0", "C0"}},
	{"failed-metadata-evicts-shared-blob-under-holder", []string{"R0 1111", "EL0", "R0 1110", "r0", "R0 1111", "r0", "r1", "D0", "r1", "D1"}},
	{"check-failure-under-holder", []string{"R0 1111", "R0 0111", "r0", "r1", "R0 1111", "D0", "r1", "D1", "EL0", "r2", "D2"}},
	{"check-failure-no-holder", []string{"R0 1111", "D0", "R0 0111", "r1", "C1"}},
	{"check-failure-then-resolve-fails", []string{"R0 1111", "R0 0001", "r0", "R0 0010", "r0", "D0", "R0 1111", "D1"}},
	{"blob-check-failure", []string{"R0 1111", "EL0", "R0 1011", "r0", "r1", "D0", "D1", "EL0"}},
	{"blob-check-failure-then-resolve-fails", []string{"R0 1111", "EL0", "R0 1001", "r0", "D0", "R0 1111"}},
	{"blob-expired-layer-cached", []string{"R0 1111", "EB0", "R0 1111", "r0", "D0", "D1", "EL0"}},
	{"blob-expired-layer-expired", []string{"R0 1111", "EB0", "EL0", "R0 1111", "r0", "r1", "D0", "r1", "D1"}},
	{"close-while-others-hold", []string{"R0 1111", "R0 1111", "C0", "r1", "R0 1111", "r1", "r2", "D1", "D2"}},
	{"double-done-and-close-after-done", []string{"R0 1111", "R0 1111", "D0", "D0", "r1", "C0", "r1", "D1", "D1"}},
	{"refresh", []string{"R0 1111", "F0 1", "F0 0", "r0", "EL0", "F0 1", "r0", "D0", "F0 1", "o0"}},
	{"refresh-rejected-other-source", []string{"R0 1111", "F0 2", "r0", "R0 1111", "r1", "D0", "F1 2", "F1 1", "o1", "D1"}},
	{"old-holder-closes-after-replacement", []string{"R0 1111", "R0 0111", "C0", "R0 1111", "r1", "r2", "D1", "D2", "EL0"}},
	{"two-names", []string{"R0 1111", "R1 1111", "EL0", "R1 0111", "r0", "r1", "r2", "D0", "C1", "D2"}},
	{"release-then-expire-vs-expire-then-release", []string{"R0 1111", "D0", "EL0", "R1 1111", "EL1", "D1"}},
}

// ---------------------------------------------------------------- random histories

func (e *verifC12Env) randomHistory(rnd *verifutil.Rand, idx int) {
	e.newResolver()
	defer e.dropResolver()
	e.out.Comment(fmt.Sprintf("history %d", idx))
	e.out.Emit("new", "ok")
	n := int(rnd.Range(8, 48))
	names := 1 + rnd.Intn(verifC12NumNames)
	failPct := []int{0, 10, 25, 50}[rnd.Intn(4)]
	wResolve, wDone, wClose, wEL, wEB, wRefresh, wRead, wOld := 30, 14+rnd.Intn(12), rnd.Intn(10), rnd.Intn(14), rnd.Intn(10), 5, 12, 5
	bit := func() bool { return rnd.Intn(100) >= failPct }
	shape := ""
	for i := 0; i < n; i++ {
		mode := verifC12FailModes[rnd.Intn(len(verifC12FailModes))]
		c := rnd.Pick(wResolve, wDone, wClose, wEL, wEB, wRefresh, wRead, wOld)
		if len(e.holders) == 0 && c != 3 && c != 4 {
			c = 0
		}
		// prefer live holders for done / refresh / read, but sometimes take a released one
		pick := func() int {
			if rnd.Intn(6) != 0 {
				var live []int
				for i, h := range e.holders {
					if h.live {
						live = append(live, i)
					}
				}
				if len(live) > 0 {
					return live[rnd.Intn(len(live))]
				}
			}
			return rnd.Intn(len(e.holders))
		}
		switch c {
		case 0:
			e.opResolve(rnd.Intn(names), [4]bool{bit(), bit(), bit(), bit()}, mode)
		case 1:
			e.opDone(pick(), false)
		case 2:
			e.opDone(pick(), true)
		case 3:
			e.opExpire("l", rnd.Intn(names))
		case 4:
			e.opExpire("b", rnd.Intn(names))
		case 5:
			how := 1
			if !bit() {
				how = 0
			} else if rnd.Intn(3) == 0 {
				how = 2
			}
			e.opRefresh(pick(), how, mode)
		case 6:
			e.opRead(pick(), false, rnd.Intn(3))
		case 7:
			e.opRead(pick(), true, rnd.Intn(3))
		}
		shape += string(rune('a' + c))
	}
	e.drain()
	e.out.Distinct(fmt.Sprintf("hist-%d-%d-%s", names, failPct, shape))
}

func TestVerifC12(t *testing.T) {
	out := verifutil.OpenOut()
	defer out.Close()
	e := verifC12NewEnv(t, out)
	for _, sc := range verifC12Scenarios {
		e.runScript(sc.name, sc.ops)
	}
	rnd := verifutil.NewRand(verifutil.Seed())
	n := verifutil.EnvInt("VERIF_N", 40)
	for i := 0; i < n; i++ {
		e.randomHistory(rnd, i)
	}
}

// ---------------------------------------------------------------- concurrent stress (oracle only)

// Several goroutines resolve ONE name at the same time.
// Phase A: cold cache, no eviction, registry up: everybody must get the same instance, exactly one
//   layer is built (the others wait for it and take it from the cache), everybody reads.
// Phase A2: the cached layer's connectivity check fails for everybody (registry answers checks
//   with an error, everything else normally): the stale layer is replaced ONCE; all resolvers end
//   up with one and the same new instance, one layer is built.
// Phase B: holders read while others release / expire / resolve.
// Phase C: everybody releases, everything expires: nothing may be left, the name resolves afresh.
func TestVerifC12Conc(t *testing.T) {
	out := verifutil.OpenOut()
	defer out.Close()
	out.Comment("oracle-only concurrent stress; nothing to compare with the model")
	out.Emit("new", "ok")
	e := verifC12NewEnv(t, out)
	rounds := verifutil.EnvInt("VERIF_N", 10)
	for round := 0; round < rounds; round++ {
		e.newResolver()
		verifC12ConcRound(e, uint64(round))
		e.dropResolver()
	}
}

func (e *verifC12Env) expireAll() {
	for _, c := range e.caches {
		for _, key := range c.VerifC12Keys() {
			c.VerifC12Expire(key)
		}
	}
}

func verifC12ConcRound(e *verifC12Env, round uint64) {
	const G = 6
	k := int(round) % verifC12NumNames
	src := e.srcs[k]
	ctx := context.Background()
	var seenMu sync.Mutex
	seen := map[uintptr]Layer{} // instance -> one handle of it
	var verifyMu sync.Mutex
	verified := map[uintptr]bool{}
	closedNow := func(l Layer) bool { // RootNode refuses once the layer is closed
		verifyMu.Lock()
		defer verifyMu.Unlock()
		_, err := l.RootNode(0)
		return err != nil
	}
	resolveRead := func(tag string) Layer {
		l, err := e.r.Resolve(ctx, e.hosts, e.ref, src.desc)
		if err != nil {
			e.out.Fail("reresolve-failed", fmt.Sprintf("concurrent %s: Resolve with the registry up: %v", tag, err))
			return nil
		}
		id := verifC12Identity(l)
		seenMu.Lock()
		if _, ok := seen[id]; !ok {
			seen[id] = l
		}
		seenMu.Unlock()
		// layer.Verify writes l.r / l.verified and reader.verify without synchronisation while
		// RootNode reads l.r and every file read reads reader.verify: a second Verify of a shared
		// layer races with the first holder's reads (a data race of the unchanged tree that is not
		// part of this property; reported to the lead).  So each instance is verified once, by the
		// first goroutine that sees it, before anybody reads through it.
		verifyMu.Lock()
		if !verified[id] {
			err = l.Verify(src.toc)
			verified[id] = err == nil
		}
		var root fusefs.InodeEmbedder
		if err == nil {
			root, err = verifC12RootOf(l)
		}
		verifyMu.Unlock()
		if err != nil {
			e.out.Fail("held-layer-closed", fmt.Sprintf("concurrent %s: Verify/RootNode: %v", tag, err))
			return l
		}
		err = verifC12Read(root, "b.bin", src.files["b.bin"])
		if err != nil {
			e.out.Fail("held-layer-closed", fmt.Sprintf("concurrent %s: holder cannot read: %v", tag, err))
		}
		return l
	}
	together := func(tag string) []Layer {
		refs := make([]Layer, G)
		var wg sync.WaitGroup
		start := make(chan struct{})
		for g := 0; g < G; g++ {
			wg.Add(1)
			go func(g int) {
				defer wg.Done()
				<-start
				refs[g] = resolveRead(tag)
			}(g)
		}
		mc0 := e.metaCalls.Load()
		close(start)
		wg.Wait()
		if n := e.metaCalls.Load() - mc0; n != 1 {
			// "share a single resolved instance": the first resolver resolves, the others wait for it
			// and take its layer from the cache; nobody builds a second layer
			e.out.Fail("two-instances", fmt.Sprintf("concurrent %s: %d layer instances were built for one name by concurrent resolvers", tag, n))
		}
		for g := 1; g < G; g++ {
			if refs[g] != nil && refs[0] != nil && verifC12Identity(refs[g]) != verifC12Identity(refs[0]) {
				e.out.Fail("two-instances", fmt.Sprintf("concurrent %s: concurrent resolvers of one name got different instances", tag))
				break
			}
		}
		return refs
	}
	// ---- phase A
	refs := together("phase A")
	e.out.Count("conc-phaseA")
	// ---- phase A2: the cached layer turns stale for everybody at once.  Every connectivity probe of
	// a cached object fails until one fresh blob resolution has completed (that resolution issues
	// the only HEAD request), then the registry is fine again.
	old := uintptr(0)
	if refs[0] != nil {
		old = verifC12Identity(refs[0])
	}
	var healed atomic.Bool
	e.reg.Script = func(req *http.Request, onCDN bool, seq int) verifreg.Mode {
		if req.Method == "HEAD" {
			healed.Store(true)
			return verifreg.Multi
		}
		if req.Header.Get("Accept-Encoding") != "identity" && !healed.Load() {
			// a probe (GET bytes=0-1): check of a cached layer/blob, or the redirect probe of a resolution
			e.mu.Lock()
			stale := e.cachedLocked(k, false) || e.cachedLocked(k, true)
			e.mu.Unlock()
			if stale {
				return verifreg.ServerErr
			}
		}
		return verifreg.Multi
	}
	e.learn(k, map[*cacheutil.TTLCache][]string{})
	refs2 := together("phase A2 (stale cached layer)")
	e.reg.Script = e.script
	for _, l := range refs2 {
		if l != nil && old != 0 && verifC12Identity(l) == old {
			e.out.Fail("stale-instance-reused", "concurrent phase A2: the layer whose connectivity check failed was returned again")
			break
		}
	}
	for _, l := range refs { // the first generation of holders still reads
		if l != nil && closedNow(l) {
			e.out.Fail("held-layer-closed", "concurrent phase A2: the replaced layer was closed under its holders")
			break
		}
	}
	e.out.Count("conc-phaseA2")
	// ---- phase B
	var stop atomic.Bool
	var wg sync.WaitGroup
	wg.Add(1)
	go func() { // the timers
		defer wg.Done()
		rnd := verifutil.NewRand(verifutil.Seed()*7919 + round)
		for !stop.Load() {
			c := e.caches[rnd.Intn(len(e.caches))]
			for _, key := range c.VerifC12Keys() {
				c.VerifC12Expire(key)
			}
			time.Sleep(time.Duration(rnd.Intn(300)) * time.Microsecond)
		}
	}()
	var wg2 sync.WaitGroup
	for g := 0; g < G; g++ {
		wg2.Add(1)
		go func(g int) {
			defer wg2.Done()
			rnd := verifutil.NewRand(verifutil.Seed()*104729 + round*131 + uint64(g))
			held := []Layer{}
			for _, l := range []Layer{refs[g], refs2[g]} {
				if l != nil {
					held = append(held, l)
				}
			}
			for i := 0; i < 25; i++ {
				switch rnd.Pick(4, 3, 1, 4) {
				case 0:
					if l := resolveRead("phase B"); l != nil {
						held = append(held, l)
					}
				case 1, 2:
					if len(held) > 0 {
						j := rnd.Intn(len(held))
						if closedNow(held[j]) {
							e.out.Fail("held-layer-closed", "concurrent phase B: layer closed under its holder")
						}
						if rnd.Intn(3) == 0 {
							held[j].Close()
						} else {
							held[j].Done()
						}
						held = append(held[:j], held[j+1:]...)
					}
				case 3:
					if len(held) > 0 {
						l := held[rnd.Intn(len(held))]
						verifyMu.Lock()
						root, err := verifC12RootOf(l)
						verifyMu.Unlock()
						if err == nil {
							err = verifC12Read(root, "a.txt", src.files["a.txt"])
						}
						if err != nil {
							e.out.Fail("held-layer-closed", fmt.Sprintf("concurrent phase B: holder cannot read: %v", err))
						}
					}
				}
			}
			for _, l := range held {
				if closedNow(l) {
					e.out.Fail("held-layer-closed", "concurrent phase B: layer closed under its holder (final)")
				}
				l.Done()
			}
		}(g)
	}
	wg2.Wait()
	stop.Store(true)
	wg.Wait()
	e.out.Count("conc-phaseB")
	// ---- phase C
	e.expireAll()
	n := 0
	for _, l := range seen {
		n++
		if !closedNow(l) {
			e.out.Fail("leak-after-release", "concurrent phase C: a layer instance is not closed after every holder released it and it expired")
		}
	}
	if fsd, httpd := e.dirs(); len(fsd) != 0 || len(httpd) != 0 {
		e.out.Fail("leak-after-release", fmt.Sprintf("concurrent phase C: directories left: %d fscache, %d httpcache", len(fsd), len(httpd)))
	}
	if l := resolveRead("phase C"); l != nil {
		l.Close()
	}
	e.out.Distinct(fmt.Sprintf("conc-round-%d-instances-%d", round, min(n, 8)))
}
