//go:build verif

package layer

import (
	"fmt"
	"strings"
	"sync"
	"testing"
	"time"

	"github.com/containerd/stargz-snapshotter/internal/verifc02"
	"github.com/containerd/stargz-snapshotter/internal/verifutil"
)

// C15 — "waiting for prefetch returns after the configured timeout and never blocks forever", with
// SEVERAL callers entering WaitForPrefetchCompletion at staggered instants while the prefetch is
// stalled. Timed model: lean/SV/Model/Waiter.lean (`returnTime`), theorems: SV.Props.C15b
// (wait_bounded_by_own_timeout, more_waiters_never_delay).
//
// Time unit = 1 s (the configuration takes whole seconds). Callers enter at k seconds after the
// origin; what the real code did is reported as floor(seconds since the origin) of each return, which
// equals the model's instant as long as the machine's scheduling delay stays below one unit. A
// control goroutine measures that delay: if it was unreliable the schedule is replayed (3 attempts),
// and finally reported as a comment instead of being compared (evidence note, never an alarm).
//
// Oracle (independent of the model): every caller returns no later than its OWN entry + timeout
// (+ slack), whatever the other callers do.

type verifStaggerRun struct {
	ret      []time.Duration // return instant of each caller, since the origin
	entered  []time.Duration // actual entry instant of each caller, since the origin
	errs     []error
	lateness time.Duration // worst wake-up delay of the control goroutine
	stalled  bool
}

func verifStaggerOnce(t *testing.T, out *verifutil.Out, rnd *verifutil.Rand, timeoutSec int, arrivals []int, attempt int) (*verifStaggerRun, error) {
	ents := []verifc02.Ent{verifReg("p", 3000, int64(21+attempt)), verifReg("d/q", 700, 22), verifReg("r", 40, 23)}
	ents[1].Kind = 1
	opts := verifc02.BuildOpts{ChunkSize: 64, Plain: true}
	cfg := verifGenStackCfg(rnd)
	cfg.regChunk, cfg.verify, cfg.syncAdd, cfg.passThrough = 64, true, true, false
	cfg.asyncSize = 0
	cfg.timeout = time.Duration(timeoutSec) * time.Second
	s, err := verifNewStack(t, ents, opts, cfg)
	if err != nil {
		return nil, err
	}
	defer s.close()
	s.meta.Out = out
	gate := make(chan struct{})
	s.rt.SetStall(gate)
	pdone := make(chan struct{})
	go func() {
		_ = s.lref.Prefetch(int64(len(s.blob)))
		close(pdone)
	}()
	r := &verifStaggerRun{ret: make([]time.Duration, len(arrivals)), entered: make([]time.Duration, len(arrivals)), errs: make([]error, len(arrivals))}
	for i := 0; i < 4000 && !r.stalled; i++ {
		if s.rt.StalledCount() > 0 {
			r.stalled = true
			break
		}
		select {
		case <-pdone:
			i = 4000
		default:
			time.Sleep(time.Millisecond)
		}
	}
	if r.stalled {
		origin := time.Now()
		last := 0
		for _, a := range arrivals {
			if a > last {
				last = a
			}
		}
		var wg sync.WaitGroup
		// control goroutine: how late do sleeps wake up on this machine right now?
		stop := make(chan struct{})
		var lmu sync.Mutex
		wg.Add(1)
		go func() {
			defer wg.Done()
			for {
				t0 := time.Now()
				select {
				case <-stop:
					return
				case <-time.After(50 * time.Millisecond):
				}
				if d := time.Since(t0) - 50*time.Millisecond; d > 0 {
					lmu.Lock()
					if d > r.lateness {
						r.lateness = d
					}
					lmu.Unlock()
				}
			}
		}()
		var cw sync.WaitGroup
		for i, a := range arrivals {
			i, a := i, a
			cw.Add(1)
			go func() {
				defer cw.Done()
				// 100 ms past the grid point: keeps floor() away from the boundary
				time.Sleep(time.Until(origin.Add(time.Duration(a)*time.Second + 100*time.Millisecond)))
				r.entered[i] = time.Since(origin)
				r.errs[i] = s.lref.WaitForPrefetchCompletion()
				r.ret[i] = time.Since(origin)
			}()
		}
		ok := verifWatch(out, "staggered-wait", time.Duration(last+4*timeoutSec+60)*time.Second, cw.Wait)
		close(stop)
		wg.Wait()
		_ = ok
	}
	close(gate)
	s.rt.SetStall(nil)
	verifWatch(out, "prefetch-after-stall", 120*time.Second, func() { <-pdone })
	return r, nil
}

func TestVerifC15Stagger(t *testing.T) {
	rnd := verifutil.NewRand(verifc02.MixSeed(verifutil.Seed(), 1515))
	out := verifutil.OpenOut()
	defer out.Close()
	type sched struct {
		T        int
		arrivals []int
	}
	scheds := []sched{{2, []int{0, 1, 2, 3, 4}}}
	if verifutil.EnvInt("VERIF_N", 1) > 1 {
		scheds = append(scheds, sched{1, []int{0, 0, 1, 2}}, sched{3, []int{0, 2, 4, 6, 8}}, sched{2, []int{1, 0, 2, 2, 5}})
	}
	const slack = 900 * time.Millisecond
	for si, sc := range scheds {
		var strs []string
		for _, a := range sc.arrivals {
			strs = append(strs, fmt.Sprint(a))
		}
		op := fmt.Sprintf("waitstag %d - %s", sc.T, strings.Join(strs, " "))
		var run *verifStaggerRun
		reliable := false
		for attempt := 0; attempt < 3 && !reliable; attempt++ {
			r, err := verifStaggerOnce(t, out, rnd, sc.T, sc.arrivals, attempt)
			if err != nil {
				out.Fail("scenario-setup-failed", fmt.Sprintf("stagger %d: %v", si, err))
				break
			}
			run = r
			if !r.stalled {
				out.Comment(fmt.Sprintf("stagger %d: prefetch did not stall (nothing to fetch); skipped", si))
				break
			}
			// ---- oracle: bounded by the caller's own timeout, independent of the other callers ----
			worstEntry := time.Duration(0)
			for i := range sc.arrivals {
				if d := r.entered[i] - (time.Duration(sc.arrivals[i])*time.Second + 100*time.Millisecond); d > worstEntry {
					worstEntry = d
				}
			}
			reliable = r.lateness < 300*time.Millisecond && worstEntry < 300*time.Millisecond
			for i := range sc.arrivals {
				took := r.ret[i] - r.entered[i]
				if took > time.Duration(sc.T)*time.Second+slack+r.lateness {
					out.Fail("wait-exceeded-own-timeout", fmt.Sprintf("WaitForPrefetchCompletion entered %v after the origin returned only after %v (configured timeout %ds, measured scheduling delay %v) while the prefetch was stalled and other callers entered at %v s: a caller must return after its own timeout whatever the others do", r.entered[i].Round(time.Millisecond), took.Round(time.Millisecond), sc.T, r.lateness.Round(time.Millisecond), sc.arrivals))
					reliable = true // a real excess is reported, not retried away
					break
				}
			}
			if r.errs[0] == nil && sc.arrivals[0] == 0 {
				// the first caller's own timer is the first thing that can release the waiter
				first := true
				for _, a := range sc.arrivals[1:] {
					if a == 0 {
						first = false
					}
				}
				if first {
					out.Fail("wait-nil-while-prefetch-stalled", "the first of the staggered WaitForPrefetchCompletion calls returned nil although the prefetch is stalled and nobody else could have timed out before it")
				}
			}
		}
		if run == nil || !run.stalled {
			continue
		}
		var got []string
		for i := range sc.arrivals {
			got = append(got, fmt.Sprint(int(run.ret[i]/time.Second)))
		}
		res := "ret " + strings.Join(got, " ")
		out.Count("waitstag")
		out.Distinct(op)
		if reliable {
			out.Emit(op, res)
		} else {
			out.Comment(fmt.Sprintf("timing-unreliable (scheduling delay %v): %s -> %s not compared", run.lateness, op, res))
			out.Count("waitstag-timing-unreliable")
		}
	}
}
