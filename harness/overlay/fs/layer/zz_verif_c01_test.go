//go:build verif

package layer

// C01 harness, layer level: orders of Verify / SkipVerify requests reaching ONE real layer object
// (newLayer over the real reader.VerifiableReader, memory metadata store, memory and directory chunk
// caches, blobs built by the real builder and served through a corrupting blob source).  Files are
// read through the node API (RootNode -> Lookup -> Open -> Read), i.e. through the reader the layer
// hands out.  Scenario generation, op lines and the property oracle live in internal/verifc01.

import (
	"context"
	"crypto/sha256"
	"fmt"
	"io"
	"os"
	"path"
	"strings"
	"syscall"
	"testing"

	"github.com/containerd/stargz-snapshotter/cache"
	"github.com/containerd/stargz-snapshotter/fs/reader"
	"github.com/containerd/stargz-snapshotter/internal/verifc01"
	"github.com/containerd/stargz-snapshotter/internal/verifutil"
	"github.com/containerd/stargz-snapshotter/metadata"
	memorymetadata "github.com/containerd/stargz-snapshotter/metadata/memory"
	fusefs "github.com/hanwen/go-fuse/v2/fs"
	"github.com/hanwen/go-fuse/v2/fuse"
	digest "github.com/opencontainers/go-digest"
	ocispec "github.com/opencontainers/image-spec/specs-go/v1"
)

type verifC01LayerVR struct {
	l     *layer
	paths map[uint32]string
}

func (a *verifC01LayerVR) VerifyTOC(d digest.Digest) error { return a.l.Verify(d) }
func (a *verifC01LayerVR) Skip()                          { a.l.SkipVerify() }
func (a *verifC01LayerVR) Cache(filter func(int64) bool) error {
	// what layer.prefetch does after the download
	return a.l.verifiableReader.Cache(reader.WithFilter(filter))
}
func (a *verifC01LayerVR) CacheReader(sr *io.SectionReader) error {
	// what layer.backgroundFetch does
	return a.l.verifiableReader.Cache(reader.WithReader(sr), reader.WithCacheOpts(cache.Direct()))
}
func (a *verifC01LayerVR) ReadAndCache(id uint32, r io.Reader, off, size int64, dgst string) (error, bool) {
	return nil, false
}

func (a *verifC01LayerVR) pathOf(id uint32) (string, bool) {
	if a.paths == nil {
		a.paths = map[uint32]string{}
		mr := a.l.verifiableReader.Metadata()
		var walk func(id uint32, p string, depth int)
		walk = func(id uint32, p string, depth int) {
			if depth > 64 {
				return
			}
			type kid struct {
				name string
				id   uint32
				dir  bool
			}
			var kids []kid
			mr.ForeachChild(id, func(name string, cid uint32, mode os.FileMode) bool {
				kids = append(kids, kid{name, cid, mode.IsDir()})
				return true
			})
			for _, k := range kids {
				if k.name == "" || k.name == "." {
					continue
				}
				a.paths[k.id] = path.Join(p, k.name)
				if k.dir {
					walk(k.id, path.Join(p, k.name), depth+1)
				}
			}
		}
		walk(mr.RootID(), "", 0)
	}
	p, ok := a.paths[id]
	return p, ok
}

// verifC01NodeRA reads a file through the FUSE file handle the node API returns.
type verifC01NodeRA struct{ f *file }

func (r *verifC01NodeRA) ReadAt(p []byte, off int64) (int, error) {
	rr, errno := r.f.Read(context.Background(), p, off)
	if errno != 0 {
		return 0, errno
	}
	buf, st := rr.Bytes(make([]byte, len(p)))
	if st != fuse.OK {
		return 0, syscall.EIO
	}
	n := copy(p, buf)
	if n < len(p) {
		return n, io.EOF
	}
	return n, nil
}

func (a *verifC01LayerVR) OpenFile(id uint32) (io.ReaderAt, error) {
	root, err := a.l.RootNode(0) // needs l.r
	if err != nil {
		return nil, err
	}
	fusefs.NewNodeFS(root, &fusefs.Options{}) // initializes the root node
	cur, ok := root.(*node)
	if !ok {
		return nil, fmt.Errorf("root is not a node")
	}
	p, ok := a.pathOf(id)
	if !ok {
		return nil, fmt.Errorf("no path for id %d", id)
	}
	for _, comp := range strings.Split(p, "/") {
		var eo fuse.EntryOut
		in, errno := cur.Lookup(context.Background(), comp, &eo)
		if errno != 0 {
			return nil, fmt.Errorf("lookup %q: %v", comp, errno)
		}
		if cur, ok = in.Operations().(*node); !ok {
			return nil, fmt.Errorf("%q is not a normal node", comp)
		}
	}
	fh, _, errno := cur.Open(context.Background(), 0)
	if errno != 0 {
		return nil, fmt.Errorf("open %q: %v", p, errno)
	}
	f, ok := fh.(*file)
	if !ok {
		return nil, fmt.Errorf("not a file handle")
	}
	return &verifC01NodeRA{f}, nil
}

func (a *verifC01LayerVR) Passthrough(ra io.ReaderAt, mergeBuf int64, workers int) (uintptr, cache.Reader, error) {
	// what node.Open does when passthrough is enabled
	g, ok := ra.(*verifC01NodeRA).f.ra.(reader.PassthroughFdGetter)
	if !ok {
		return 0, nil, fmt.Errorf("not a PassthroughFdGetter")
	}
	return g.GetPassthroughFd(mergeBuf, workers)
}

// the cache key of fs/reader (genID), replicated: sha256 of "<id>-<offset>-<size>"
func (a *verifC01LayerVR) GenID(id uint32, off, size int64) string {
	sum := sha256.Sum256(fmt.Appendf(nil, "%d-%d-%d", id, off, size))
	return fmt.Sprintf("%x", sum)
}
func (a *verifC01LayerVR) Close() error { return a.l.close() }

func TestVerifC01Layer(t *testing.T) {
	rnd := verifutil.NewRand(verifutil.Seed() + 7777)
	out := verifutil.OpenOut()
	defer out.Close()
	cfg := verifc01.Config{
		Stack: verifc01.Stack{
			Name:  "mem",
			Store: memorymetadata.NewReader,
			NewReader: func(mr metadata.Reader, c cache.BlobCache) (verifc01.VR, error) {
				vr, err := reader.NewReader(mr, c, testStateLayerDigest)
				if err != nil {
					return nil, err
				}
				l := newLayer(
					&Resolver{overlayOpaqueType: OverlayOpaqueAll},
					ocispec.Descriptor{Digest: testStateLayerDigest},
					&blobRef{&testBlobState{10, 5}, func(bool) {}},
					vr,
					passThroughConfig{}, // node.Open must not merge on its own: Pass is an explicit op
					false,
				)
				return &verifC01LayerVR{l: l}, nil
			},
		},
		N:        verifutil.EnvInt("VERIF_N", 60),
		Thorough: os.Getenv("VERIF_TIER") == "thorough",
		Caches:   []string{"mem", "dirdirect", "dir"},
	}
	if err := verifc01.RunLayer(out, rnd, cfg); err != nil {
		t.Fatalf("harness: %v", err)
	}
}
