//go:build verif

package layer

// C04 — untrusted layer bytes cause errors, never a crash or a hang.
// TestVerifC04 generates hostile inputs and runs them in crash-isolated child processes
// (TestVerifC04Child); see internal/verifc04 for the executor, the generators and the walkers.
// This file adds the targets that need package layer (the FUSE node walk) and wires everything.

import (
	"context"
	"fmt"
	"os"
	"sort"
	"syscall"
	"testing"

	"github.com/containerd/stargz-snapshotter/cache"
	"github.com/containerd/stargz-snapshotter/fs/reader"
	"github.com/containerd/stargz-snapshotter/internal/verifc04"
	"github.com/containerd/stargz-snapshotter/internal/verifutil"
	"github.com/containerd/stargz-snapshotter/metadata"
	fusefs "github.com/hanwen/go-fuse/v2/fs"
	"github.com/hanwen/go-fuse/v2/fuse"
	digest "github.com/opencontainers/go-digest"
)

// verifC04Nodes walks the FUSE node tree of a layer in-process: Readdir + Lookup on every
// directory, Getattr/Getxattr/Listxattr/Readlink on every node, Open + page-sized Read on files.
func verifC04Nodes(mr metadata.Reader, rec *verifc04.Rec) error {
	vr, err := reader.NewReader(mr, cache.NewMemoryCache(), digest.FromString("layer"))
	if err != nil {
		return err
	}
	var rr reader.Reader
	if r2, err := vr.VerifyTOC(mr.TOCDigest()); err == nil {
		rr = r2
	} else {
		rr = vr.SkipVerify()
	}
	rootE, err := newNode(digest.FromString("layer"), rr, &testBlobState{10, 5}, 100, OverlayOpaqueAll, passThroughConfig{}, false)
	if err != nil {
		return err
	}
	fusefs.NewNodeFS(rootE, &fusefs.Options{}) // initializes the root inode
	root := rootE.(*node)
	ctx := context.Background()
	budget := 30000
	onPath := map[uint32]bool{}
	var lastErr error
	// scratch structures live on the heap and the walk uses an explicit stack: the harness itself
	// must not be the one that overflows on a deep tree
	ao, eo, so := new(fuse.AttrOut), new(fuse.EntryOut), new(fuse.StatfsOut)
	type frame struct {
		n     *node
		p     string
		names []string
		i     int
	}
	enter := func(n *node, p string) *frame {
		onPath[n.id] = true
		fr := &frame{n: n, p: p}
		n.Getattr(ctx, nil, ao)
		n.Listxattr(ctx, make([]byte, 1))
		n.Listxattr(ctx, make([]byte, 4096))
		n.Getxattr(ctx, "trusted.overlay.opaque", make([]byte, 1))
		n.Getxattr(ctx, "user.k", make([]byte, 0))
		n.Statfs(ctx, so)
		ds, errno := n.Readdir(ctx)
		if errno != 0 {
			lastErr = errno
			return fr
		}
		for ds.HasNext() {
			e, errno := ds.Next()
			if errno != 0 {
				break
			}
			if e.Name != "." && e.Name != ".." {
				fr.names = append(fr.names, e.Name)
			}
		}
		sort.Strings(fr.names)
		fr.names = append(fr.names, "no-such-entry", ".wh.x", verifC04LandmarkProbe)
		return fr
	}
	stack := []*frame{enter(root, "")}
	for len(stack) > 0 {
		fr := stack[len(stack)-1]
		if fr.i >= len(fr.names) || budget <= 0 {
			delete(onPath, fr.n.id)
			stack = stack[:len(stack)-1]
			continue
		}
		name := fr.names[fr.i]
		fr.i++
		budget--
		rec.Beat()
		in, errno := fr.n.Lookup(ctx, name, eo)
		if errno != 0 || in == nil {
			continue
		}
		switch c := in.Operations().(type) {
		case *node:
			mode := c.attr.Mode
			c.Getattr(ctx, nil, ao)
			c.Listxattr(ctx, make([]byte, 4096))
			switch {
			case mode.IsDir():
				cp := fr.p
				if len(fr.p) < 2048 {
					cp = fr.p + "/" + name
				}
				if onPath[c.id] {
					rec.Fail("cyclic-tree:node", fmt.Sprintf("directory node %d is its own descendant at %q", c.id, cp))
					continue
				}
				stack = append(stack, enter(c, cp))
			case mode.IsRegular():
				fh, _, errno := c.Open(ctx, 0)
				if errno != 0 {
					lastErr = errno
					continue
				}
				f := fh.(*file)
				for _, lo := range [][2]int64{{4096, 0}, {131072, 0}, {1, 0}, {16, 3}, {4096, 4096}} {
					if _, errno := f.Read(ctx, make([]byte, lo[0]), lo[1]); errno != 0 {
						lastErr = errno
					}
				}
				f.Getattr(ctx, ao)
				f.Release(ctx)
			case mode&os.ModeSymlink != 0:
				c.Readlink(ctx)
			}
		case *whiteout:
			c.Getattr(ctx, nil, ao)
		case *state:
			c.Readdir(ctx)
		}
	}
	if lastErr == syscall.Errno(0) {
		lastErr = nil
	}
	return lastErr
}

const verifC04LandmarkProbe = ".prefetch.landmark"

var verifC04Bases []*verifc04.Base

func verifC04Run(in *verifc04.Input, rec *verifc04.Rec) {
	switch in.Kind {
	case "footer":
		verifc04.TargetFooters(in, rec)
	case "blob":
		verifc04.TargetOpen(in, rec)
		if mr := verifc04.TargetMem(in, rec); mr != nil {
			var regs []uint32
			rec.Try("mem.walk", func() error { regs = verifc04.WalkMetadata("mem", mr, rec); return nil })
			dir, _ := os.MkdirTemp("", "verifc04p")
			verifc04.ExerciseReader("mem", mr, regs, rec, dir)
			os.RemoveAll(dir)
			rec.Try("node.walk", func() error { return verifC04Nodes(mr, rec) })
		}
		verifc04.TargetUnpack(in, rec)
	case "tar":
		verifc04.TargetBuild(in, rec)
	case "arith":
		if verifC04Bases == nil {
			bs, err := verifc04.BuildBases()
			if err != nil {
				rec.Fail("harness-base-build", err.Error())
				return
			}
			verifC04Bases = bs
		}
		dir, _ := os.MkdirTemp("", "verifc04a")
		verifc04.TargetArith(in, rec, verifC04Bases[0], dir)
		os.RemoveAll(dir)
	}
}

// TestVerifC04Child is the crash-isolated executor; it does nothing unless started by TestVerifC04.
func TestVerifC04Child(t *testing.T) { verifc04.ChildMain(verifC04Run) }

func TestVerifC04(t *testing.T) {
	out := verifutil.OpenOut()
	defer out.Close()
	rnd := verifutil.NewRand(verifutil.Seed())
	bases, err := verifc04.BuildBases()
	if err != nil {
		t.Fatalf("cannot build the valid base blobs: %v", err)
	}
	g := &verifc04.Gen{R: rnd, Bases: bases}
	inputs := verifc04.Plan(g, false)
	out.Comment(fmt.Sprintf("C04 layer binary: %d inputs", len(inputs)))
	sum := verifc04.Run(out, inputs, verifc04.DefaultConfig())
	out.Comment(fmt.Sprintf("inputs=%d crashes=%d hangs=%d", sum.Inputs, sum.Crashes, sum.Hangs))
	t.Logf("C04: %d inputs, %d crashes, %d hangs", sum.Inputs, sum.Crashes, sum.Hangs)
}
