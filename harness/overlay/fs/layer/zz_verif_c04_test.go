//go:build verif

package layer

// C04 — untrusted layer bytes cause errors, never a crash or a hang.
// TestVerifC04 generates hostile inputs and runs them in crash-isolated child processes
// (TestVerifC04Child); see internal/verifc04 for the executor, the generators and the walkers.
// This file adds the target that goes through this package: the blob is served by an in-memory
// registry, resolved with the exported Resolver (as the snapshotter does), verified, prefetched, and
// its FUSE node tree is walked in-process.  Only exported identifiers of the package and the
// go-fuse node interfaces are used, so that a refactoring of the package's internals cannot break
// the harness.

import (
	"context"
	"fmt"
	"os"
	"sort"
	"syscall"
	"testing"
	"time"

	"github.com/containerd/containerd/v2/pkg/reference"
	"github.com/containerd/stargz-snapshotter/estargz/externaltoc"
	"github.com/containerd/stargz-snapshotter/fs/config"
	"github.com/containerd/stargz-snapshotter/fs/source"
	"github.com/containerd/stargz-snapshotter/internal/verifc04"
	"github.com/containerd/stargz-snapshotter/internal/verifreg"
	"github.com/containerd/stargz-snapshotter/internal/verifutil"
	"github.com/containerd/stargz-snapshotter/metadata"
	"github.com/containerd/stargz-snapshotter/metadata/memory"
	"github.com/containerd/stargz-snapshotter/task"
	fusefs "github.com/hanwen/go-fuse/v2/fs"
	"github.com/hanwen/go-fuse/v2/fuse"
	digest "github.com/opencontainers/go-digest"
	ocispec "github.com/opencontainers/image-spec/specs-go/v1"
)

// verifC04Walk walks the FUSE node tree below root through the go-fuse node interfaces: Readdir +
// Lookup on every directory, Getattr/Getxattr/Listxattr/Readlink/Statfs on every node, Open +
// page-sized Read on regular files.
func verifC04Walk(root fusefs.InodeEmbedder, rec *verifc04.Rec) error {
	ctx := context.Background()
	budget := 30000
	onPath := map[uint64]bool{}
	var lastErr error
	ao, eo, so := new(fuse.AttrOut), new(fuse.EntryOut), new(fuse.StatfsOut)
	type frame struct {
		n     fusefs.InodeEmbedder
		ino   uint64
		p     string
		names []string
		i     int
	}
	probe := func(n fusefs.InodeEmbedder) {
		if g, ok := n.(fusefs.NodeGetattrer); ok {
			g.Getattr(ctx, nil, ao)
		}
		if l, ok := n.(fusefs.NodeListxattrer); ok {
			l.Listxattr(ctx, make([]byte, 1))
			l.Listxattr(ctx, make([]byte, 4096))
		}
		if g, ok := n.(fusefs.NodeGetxattrer); ok {
			g.Getxattr(ctx, "trusted.overlay.opaque", make([]byte, 1))
			g.Getxattr(ctx, "user.k", make([]byte, 0))
		}
		if s, ok := n.(fusefs.NodeStatfser); ok {
			s.Statfs(ctx, so)
		}
	}
	enter := func(n fusefs.InodeEmbedder, ino uint64, p string) *frame {
		onPath[ino] = true
		fr := &frame{n: n, ino: ino, p: p}
		probe(n)
		rd, ok := n.(fusefs.NodeReaddirer)
		if !ok {
			return fr
		}
		ds, errno := rd.Readdir(ctx)
		if errno != 0 {
			lastErr = errno
			return fr
		}
		for ds.HasNext() {
			e, errno := ds.Next()
			if errno != 0 {
				break
			}
			if e.Name != "." && e.Name != ".." {
				fr.names = append(fr.names, e.Name)
			}
		}
		sort.Strings(fr.names)
		fr.names = append(fr.names, "no-such-entry", ".wh.x", ".prefetch.landmark")
		return fr
	}
	stack := []*frame{enter(root, 1, "")}
	for len(stack) > 0 {
		fr := stack[len(stack)-1]
		if fr.i >= len(fr.names) || budget <= 0 {
			delete(onPath, fr.ino)
			stack = stack[:len(stack)-1]
			continue
		}
		name := fr.names[fr.i]
		fr.i++
		budget--
		rec.Beat()
		lk, ok := fr.n.(fusefs.NodeLookuper)
		if !ok {
			continue
		}
		*eo = fuse.EntryOut{}
		in, errno := lk.Lookup(ctx, name, eo)
		if errno != 0 || in == nil {
			continue
		}
		c := in.Operations()
		ino := in.StableAttr().Ino
		probe(c)
		switch in.StableAttr().Mode & syscall.S_IFMT {
		case syscall.S_IFDIR:
			cp := fr.p
			if len(fr.p) < 2048 {
				cp = fr.p + "/" + name
			}
			if onPath[ino] {
				rec.Fail("cyclic-tree:node", fmt.Sprintf("directory inode %d is its own descendant at %q", ino, cp))
				continue
			}
			stack = append(stack, enter(c, ino, cp))
		case syscall.S_IFREG:
			op, ok := c.(fusefs.NodeOpener)
			if !ok {
				continue
			}
			fh, _, errno := op.Open(ctx, 0)
			if errno != 0 {
				lastErr = errno
				continue
			}
			if fr, ok := fh.(fusefs.FileReader); ok {
				for _, lo := range [][2]int64{{4096, 0}, {131072, 0}, {1, 0}, {16, 3}, {4096, 4096}} {
					if _, errno := fr.Read(ctx, make([]byte, lo[0]), lo[1]); errno != 0 {
						lastErr = errno
					}
				}
			}
			if g, ok := fh.(fusefs.FileGetattrer); ok {
				g.Getattr(ctx, ao)
			}
			if r, ok := fh.(fusefs.FileReleaser); ok {
				r.Release(ctx)
			}
		case syscall.S_IFLNK:
			if r, ok := c.(fusefs.NodeReadlinker); ok {
				r.Readlink(ctx)
			}
		}
	}
	if lastErr == syscall.Errno(0) {
		lastErr = nil
	}
	return lastErr
}

// verifC04Layer serves the blob from an in-memory registry and takes it through the exported life
// cycle of a layer: Resolve, Verify (or SkipVerify), Prefetch, RootNode + node walk, ReadAt, Close.
func verifC04Layer(in *verifc04.Input, rec *verifc04.Rec) {
	if len(in.Data) == 0 {
		return
	}
	dir, err := os.MkdirTemp("", "verifc04l")
	if err != nil {
		rec.Fail("harness-tempdir", err.Error())
		return
	}
	defer os.RemoveAll(dir)
	reg := verifreg.New()
	dg := digest.FromBytes(in.Data)
	reg.AddBlob(dg.String(), in.Data)
	ext := in.ExtTOC
	decs := func(context.Context, source.RegistryHosts, reference.Spec, ocispec.Descriptor) []metadata.Decompressor {
		return []metadata.Decompressor{externaltoc.NewGzipDecompressor(func() ([]byte, error) {
			if ext == nil {
				return nil, fmt.Errorf("no external TOC")
			}
			return ext, nil
		})}
	}
	cfg := config.Config{HTTPCacheType: "memory", FSCacheType: "memory", PrefetchTimeoutSec: 5,
		BlobConfig: config.BlobConfig{ChunkSize: 64, ValidInterval: 3600, FetchTimeoutSec: 5, MaxRetries: 1, MinWaitMSec: 1, MaxWaitMSec: 2}}
	r, err := NewResolver(dir, task.NewBackgroundTaskManager(2, time.Millisecond), cfg, nil, memory.NewReader, OverlayOpaqueAll, decs)
	if err != nil {
		rec.Fail("harness-resolver", err.Error())
		return
	}
	refspec, err := reference.Parse(reg.RegHost + "/img/test:latest")
	if err != nil {
		rec.Fail("harness-refspec", err.Error())
		return
	}
	var l Layer
	cl := rec.Try("layer.resolve", func() (err error) {
		l, err = r.Resolve(context.Background(), reg.Hosts(nil), refspec, ocispec.Descriptor{Digest: dg, Size: int64(len(in.Data))})
		return err
	})
	if cl != "ok" {
		return
	}
	if toc := l.Info().TOCDigest; toc != "" && l.Verify(toc) == nil {
		// verified mode
	} else {
		l.SkipVerify()
	}
	rec.Try("layer.prefetch", func() error {
		if err := l.Prefetch(int64(len(in.Data))); err != nil {
			return err
		}
		return l.WaitForPrefetchCompletion()
	})
	rec.Settle()
	rec.Try("node.walk", func() error {
		root, err := l.RootNode(100)
		if err != nil {
			return err
		}
		fusefs.NewNodeFS(root, &fusefs.Options{}) // initializes the root inode
		return verifC04Walk(root, rec)
	})
	rec.Try("layer.read", func() error {
		_, err := l.ReadAt(make([]byte, 64), 0)
		l.Info()
		l.Check()
		return err
	})
	rec.Try("layer.close", func() error { return l.Close() })
}

var verifC04Bases []*verifc04.Base

func verifC04Run(in *verifc04.Input, rec *verifc04.Rec) {
	switch in.Kind {
	case "footer":
		verifc04.TargetFooters(in, rec)
	case "blob":
		verifc04.TargetOpen(in, rec)
		if mr := verifc04.TargetMem(in, rec); mr != nil {
			var regs []uint32
			rec.Try("mem.walk", func() error { regs = verifc04.WalkMetadata("mem", mr, rec); return nil })
			dir, _ := os.MkdirTemp("", "verifc04p")
			verifc04.ExerciseReader("mem", mr, regs, rec, dir)
			os.RemoveAll(dir)
		}
		verifC04Layer(in, rec)
		verifc04.TargetUnpack(in, rec)
	case "tar":
		verifc04.TargetBuild(in, rec)
	case "arith":
		if verifC04Bases == nil {
			bs, err := verifc04.BuildBases()
			if err != nil {
				rec.Fail("harness-base-build", err.Error())
				return
			}
			verifC04Bases = bs
		}
		dir, _ := os.MkdirTemp("", "verifc04a")
		verifc04.TargetArith(in, rec, verifC04Bases[0], dir)
		os.RemoveAll(dir)
	}
}

// TestVerifC04Child is the crash-isolated executor; it does nothing unless started by TestVerifC04.
func TestVerifC04Child(t *testing.T) { verifc04.ChildMain(verifC04Run) }

func TestVerifC04(t *testing.T) {
	out := verifutil.OpenOut()
	defer out.Close()
	rnd := verifutil.NewRand(verifutil.Seed())
	bases, err := verifc04.BuildBases()
	if err != nil {
		t.Fatalf("cannot build the valid base blobs: %v", err)
	}
	g := &verifc04.Gen{R: rnd, Bases: bases}
	inputs := verifc04.Plan(g, false)
	out.Comment(fmt.Sprintf("C04 layer binary: %d inputs", len(inputs)))
	sum := verifc04.Run(out, inputs, verifc04.DefaultConfig())
	out.Comment(fmt.Sprintf("inputs=%d crashes=%d hangs=%d", sum.Inputs, sum.Crashes, sum.Hangs))
	t.Logf("C04: %d inputs, %d crashes, %d hangs", sum.Inputs, sum.Crashes, sum.Hangs)
}
