//go:build verif

package layer

import (
	"archive/tar"
	"bytes"
	"context"
	"fmt"
	"io"
	"os"
	"path/filepath"
	"reflect"
	"sort"
	"strings"
	"sync"
	"syscall"
	"testing"
	"time"

	"github.com/containerd/containerd/v2/pkg/reference"
	"github.com/containerd/stargz-snapshotter/cache"
	"github.com/containerd/stargz-snapshotter/estargz"
	"github.com/containerd/stargz-snapshotter/fs/config"
	"github.com/containerd/stargz-snapshotter/fs/reader"
	"github.com/containerd/stargz-snapshotter/internal/verifc02"
	"github.com/containerd/stargz-snapshotter/internal/verifreg"
	"github.com/containerd/stargz-snapshotter/internal/verifutil"
	"github.com/containerd/stargz-snapshotter/metadata"
	memorymetadata "github.com/containerd/stargz-snapshotter/metadata/memory"
	"github.com/containerd/stargz-snapshotter/task"
	digest "github.com/opencontainers/go-digest"
	ocispec "github.com/opencontainers/image-spec/specs-go/v1"
)

// =============================================================================================
// Shared full-stack fixture of the C02 and C15 harnesses: a layer built by the real builder, served
// by the scripted in-memory registry, resolved by the real layer.Resolver (remote blob with a tiny
// registry chunk size, real http/fs caches), read through the layer's go-fuse nodes without a mount.

// ---- recording / evicting wrapper around the real uncompressed chunk cache -------------------

type verifEv struct {
	kind byte // 'h' get hit, 'm' get miss, 'c' commit
	key  string
}

type verifCache struct {
	inner   cache.BlobCache
	mu      sync.Mutex
	tomb    map[string]bool // evicted by the harness until re-added
	trunc   map[string]int  // entry lost its tail: only the first k bytes are served
	present map[string]bool // committed and not evicted
	events  []verifEv
	// afterHit, when set, runs once right after the next cache hit was handed out by the real
	// cache and before the caller uses the reader: the place where a concurrent reader may run
	// (schedule exploration without threads)
	afterHit func()
}

func newVerifCache(inner cache.BlobCache) *verifCache {
	return &verifCache{inner: inner, tomb: map[string]bool{}, trunc: map[string]int{}, present: map[string]bool{}}
}

type verifMemReader struct{ *bytes.Reader }

func (r verifMemReader) Close() error             { return nil }
func (r verifMemReader) GetReaderAt() io.ReaderAt { return r.Reader }

func (c *verifCache) Get(key string, opts ...cache.Option) (cache.Reader, error) {
	c.mu.Lock()
	if c.tomb[key] {
		c.events = append(c.events, verifEv{'m', key})
		c.mu.Unlock()
		return nil, fmt.Errorf("verif: evicted")
	}
	k, isTrunc := c.trunc[key]
	c.mu.Unlock()
	r, err := c.inner.Get(key, opts...)
	c.mu.Lock()
	defer c.mu.Unlock()
	if err != nil {
		c.events = append(c.events, verifEv{'m', key})
		return nil, err
	}
	c.events = append(c.events, verifEv{'h', key})
	if h := c.afterHit; h != nil && !isTrunc {
		c.afterHit = nil
		c.mu.Unlock()
		h()
		c.mu.Lock()
	}
	if isTrunc {
		all, _ := io.ReadAll(io.NewSectionReader(r, 0, 1<<40))
		r.Close()
		if k > len(all) {
			k = len(all)
		}
		return verifMemReader{bytes.NewReader(all[:k])}, nil
	}
	return r, nil
}

type verifCacheWriter struct {
	cache.Writer
	c   *verifCache
	key string
}

func (w *verifCacheWriter) Commit() error {
	err := w.Writer.Commit()
	if err == nil {
		w.c.mu.Lock()
		delete(w.c.tomb, w.key)
		delete(w.c.trunc, w.key)
		w.c.present[w.key] = true
		w.c.events = append(w.c.events, verifEv{'c', w.key})
		w.c.mu.Unlock()
	}
	return err
}

func (c *verifCache) Add(key string, opts ...cache.Option) (cache.Writer, error) {
	w, err := c.inner.Add(key, opts...)
	if err != nil {
		return nil, err
	}
	return &verifCacheWriter{Writer: w, c: c, key: key}, nil
}

func (c *verifCache) Close() error { return c.inner.Close() }

func (c *verifCache) reset() {
	c.mu.Lock()
	c.events = nil
	c.mu.Unlock()
}

func (c *verifCache) evict(key string) {
	c.mu.Lock()
	c.tomb[key] = true
	delete(c.present, key)
	delete(c.trunc, key)
	c.mu.Unlock()
}

func (c *verifCache) truncate(key string, k int) {
	c.mu.Lock()
	// an entry that already lost its tail does not grow back
	if old, ok := c.trunc[key]; !ok || k < old {
		c.trunc[key] = k
	}
	c.mu.Unlock()
}

func (c *verifCache) committed() []string {
	c.mu.Lock()
	defer c.mu.Unlock()
	var out []string
	for _, e := range c.events {
		if e.kind == 'c' {
			out = append(out, e.key)
		}
	}
	return out
}

func (c *verifCache) presentKeys() []string {
	c.mu.Lock()
	defer c.mu.Unlock()
	var out []string
	for k := range c.present {
		out = append(out, k)
	}
	return out
}

// verifTimeoutSec is the prefetch timeout as the configuration takes it (whole seconds, at least one).
func verifTimeoutSec(d time.Duration) int64 {
	if d < time.Second {
		return 1
	}
	return int64(d / time.Second)
}

// verifLookupID walks a clean name through the exported metadata API.
func verifLookupID(md metadata.Reader, name string) (uint32, error) {
	id := md.RootID()
	if name == "" {
		return id, nil
	}
	for _, c := range strings.Split(name, "/") {
		cid, _, err := md.GetChild(id, c)
		if err != nil {
			return 0, err
		}
		id = cid
	}
	return id, nil
}

// ---- the fixture --------------------------------------------------------------------------

type verifFile struct {
	name   string // clean path of the real entry
	id     uint32
	size   int64
	kind   int
	salt   int64
	chunks []verifc02.TocChunk
	first  int64 // GetOffset
	end    int64 // end of the compressed extent
	data   []byte
}

type verifStackCfg struct {
	regChunk      int64
	prefetchChunk int64
	fsCache       string // "memory" | "dir"
	httpCache     string
	lru           int
	fds           int
	direct        bool
	syncAdd       bool
	verify        bool
	passThrough   bool
	mergeBuf      int64
	mergeWorkers  int
	asyncSize     int64
	timeout       time.Duration
	store         metadata.Store
	variant       string
}

func (c verifStackCfg) String() string {
	return fmt.Sprintf("regchunk=%d pchunk=%d fs=%s http=%s lru=%d fds=%d direct=%v sync=%v verify=%v pt=%v",
		c.regChunk, c.prefetchChunk, c.fsCache, c.httpCache, c.lru, c.fds, c.direct, c.syncAdd, c.verify, c.passThrough)
}

type verifStack struct {
	cfg         verifStackCfg
	ents        []verifc02.Ent
	view        map[string]*verifc02.Node
	opts        verifc02.BuildOpts
	blob        []byte
	toc         *estargz.JTOC
	lines       []verifc02.TocLine
	noPrefetch  bool
	prefetchOff int64

	reg  *verifreg.Registry
	rt   *verifc02.RT
	root string
	res  *Resolver
	lref Layer
	// vr is found by its (exported) type below the resolved layer, not by field names; nil = not found,
	// then the harness runs degraded (oracle only, no instrumented chunk cache)
	vr       *reader.VerifiableReader
	degraded bool
	tree     *verifc02.Tree
	meta     *verifc02.Meta
	wc       *verifCache

	files   []*verifFile
	byName  map[string]int      // clean real path -> index into files
	keyInfo map[string][3]int64 // cache key -> (fi, off, size)
	// faulted: a registry fault was injected at some point; a failing Open switches passthrough off for
	// the whole mount (by design), so a missing fd is only a finding while this is false
	faulted bool
}

func verifGenStackCfg(rnd *verifutil.Rand) verifStackCfg {
	c := verifStackCfg{
		regChunk:      []int64{16, 64, 100, 512, 4096, 50000}[rnd.Intn(6)],
		prefetchChunk: []int64{0, 0, 128, 1024}[rnd.Intn(4)],
		fsCache:       []string{"memory", "dir", "dir"}[rnd.Intn(3)],
		httpCache:     []string{"memory", "dir", "dir"}[rnd.Intn(3)],
		lru:           1 + rnd.Intn(3),
		fds:           1 + rnd.Intn(3),
		direct:        rnd.Intn(3) == 0,
		syncAdd:       true,
		verify:        rnd.Intn(5) != 0,
		timeout:       2 * time.Second,
		store:         memorymetadata.NewReader,
		variant:       "m",
	}
	return c
}

// verifNewStack builds the blob and brings up the full stack. It returns nil (with a reason) when
// the real builder rejects the archive.
func verifNewStack(t *testing.T, ents []verifc02.Ent, opts verifc02.BuildOpts, cfg verifStackCfg) (*verifStack, error) {
	if opts.Plain {
		// the bare Writer does not drop duplicate names (Build does); feed it what Build would keep
		ents = verifc02.DedupLast(ents)
	}
	tarBytes, err := verifc02.WriteTar(ents)
	if err != nil {
		return nil, fmt.Errorf("tar: %w", err)
	}
	blob, tocDgst, err := verifc02.Build(tarBytes, opts)
	if err != nil {
		return nil, fmt.Errorf("build: %w", err)
	}
	toc, err := verifc02.ParseTOC(blob, opts.Zstd)
	if err != nil {
		return nil, fmt.Errorf("toc: %w", err)
	}
	s := &verifStack{cfg: cfg, ents: ents, view: verifc02.View(ents), opts: opts, blob: blob, toc: toc,
		byName: map[string]int{}, keyInfo: map[string][3]int64{}}
	tfiles, lines, nop, poff := verifc02.TocLayout(toc, int64(len(blob)))
	s.lines, s.noPrefetch, s.prefetchOff = lines, nop, poff

	s.reg = verifreg.New()
	dgst := digest.FromBytes(blob)
	s.reg.AddBlob(dgst.String(), blob)
	s.rt = &verifc02.RT{Reg: s.reg}
	s.root, err = os.MkdirTemp(os.Getenv("VERIF_WORK"), "c02-")
	if err != nil {
		return nil, err
	}
	fcfg := config.Config{
		BlobConfig: config.BlobConfig{ChunkSize: cfg.regChunk, PrefetchChunkSize: cfg.prefetchChunk,
			ValidInterval: 3600, FetchTimeoutSec: 20, MaxRetries: 1, MinWaitMSec: 1, MaxWaitMSec: 2},
		DirectoryCacheConfig: config.DirectoryCacheConfig{MaxLRUCacheEntry: cfg.lru, MaxCacheFds: cfg.fds,
			SyncAdd: cfg.syncAdd, Direct: cfg.direct},
		PrefetchAsyncSize:  cfg.asyncSize,
		PrefetchTimeoutSec: verifTimeoutSec(cfg.timeout),
	}
	if cfg.fsCache == "memory" {
		fcfg.FSCacheType = "memory"
	}
	if cfg.httpCache == "memory" {
		fcfg.HTTPCacheType = "memory"
	}
	fcfg.PassThrough = cfg.passThrough
	fcfg.MergeBufferSize = cfg.mergeBuf
	fcfg.MergeWorkerCount = 3
	if cfg.mergeWorkers > 0 {
		fcfg.MergeWorkerCount = cfg.mergeWorkers
	}
	s.res, err = NewResolver(s.root, task.NewBackgroundTaskManager(2, time.Millisecond), fcfg, nil, cfg.store, OverlayOpaqueAll, nil)
	if err != nil {
		s.close()
		return nil, err
	}
	refspec, err := reference.Parse(s.reg.RegHost + "/img/test:latest")
	if err != nil {
		s.close()
		return nil, err
	}
	lr, err := s.res.Resolve(context.Background(), s.rt.Hosts(), refspec, ocispec.Descriptor{Digest: dgst, Size: int64(len(blob))})
	if err != nil {
		s.close()
		return nil, fmt.Errorf("resolve: %w", err)
	}
	s.lref = lr
	if v := verifc02.FindOfType(lr, reflect.TypeOf((*reader.VerifiableReader)(nil)), 6); v.IsValid() && !v.IsNil() {
		s.vr = v.Interface().(*reader.VerifiableReader)
	}
	s.wc = newVerifCache(cache.NewMemoryCache()) // placeholder until (unless) the real cache is wrapped
	wrapped := false
	if s.vr != nil {
		wrapped = reader.VerifC02WrapCache(s.vr, func(in cache.BlobCache) cache.BlobCache {
			s.wc = newVerifCache(in)
			return s.wc
		})
	}
	s.degraded = !wrapped
	if cfg.verify {
		if err := lr.Verify(tocDgst); err != nil {
			s.close()
			return nil, fmt.Errorf("verify: %w", err)
		}
	} else {
		lr.SkipVerify()
	}
	rootNode, err := lr.RootNode(7)
	if err != nil {
		s.close()
		return nil, fmt.Errorf("rootnode: %w", err)
	}
	s.tree = verifc02.NewTree(rootNode)
	s.meta = &verifc02.Meta{T: s.tree, View: s.view, Ctx: opts.String()}

	// regular files by node id (hardlinks share the id); landmarks are regular files of the TOC too
	var names []string
	for n := range tfiles {
		names = append(names, n)
	}
	sort.Strings(names)
	var md metadata.Reader
	if s.vr != nil {
		md = s.vr.Metadata()
	} else {
		s.degraded = true
	}
	for _, n := range names {
		tf := tfiles[n]
		if n == estargz.TOCTarName {
			continue
		}
		var id uint32
		if md != nil {
			id, err = verifLookupID(md, n)
			if err != nil {
				s.close()
				return nil, fmt.Errorf("metadata lookup of %q: %w", n, err)
			}
		}
		f := &verifFile{name: n, id: id, size: tf.Size, chunks: tf.Chunks, end: tf.End}
		if len(tf.Chunks) > 0 {
			f.first = tf.Chunks[0].Offset
		}
		if md != nil {
			if off, err := md.GetOffset(id); err == nil {
				f.first = off
			}
		}
		if vn, ok := s.view[n]; ok && vn.Type == tar.TypeReg && vn.Path == n {
			f.data = vn.Content
		} else if n == estargz.PrefetchLandmark || n == estargz.NoPrefetchLandmark {
			f.data = []byte{0xf}
		}
		// payload formula of this file (landmarks: kind 2 = the constant landmark byte)
		f.kind, f.salt = 2, 0
		for _, e := range ents {
			if verifc02.Clean(e.Name) == n && e.Type == tar.TypeReg {
				f.kind, f.salt = e.Kind, e.Salt // the last definition wins
			}
		}
		fi := len(s.files)
		s.files = append(s.files, f)
		s.byName[n] = fi
		for _, c := range f.chunks {
			s.keyInfo[reader.VerifC02GenID(id, c.ChunkOffset, c.ChunkSize)] = [3]int64{int64(fi), c.ChunkOffset, c.ChunkSize}
		}
	}
	return s, nil
}

func (s *verifStack) close() {
	if s.lref != nil {
		s.lref.Close()
	}
	if s.root != "" {
		os.RemoveAll(s.root)
	}
}

// fileOf maps a path of the view (possibly a hardlink name) to the regular file index.
func (s *verifStack) fileOf(p string) (int, bool) {
	n, ok := s.view[p]
	if !ok || n.Type != tar.TypeReg {
		return 0, false
	}
	fi, ok := s.byName[n.Path]
	return fi, ok
}

func (s *verifStack) showKeys(keys []string) string {
	var ids []string
	seen := map[string]bool{}
	for _, k := range keys {
		info, ok := s.keyInfo[k]
		str := "?"
		if ok {
			str = fmt.Sprintf("%d:%d:%d", info[0], info[1], info[2])
		}
		if !seen[str] {
			seen[str] = true
			ids = append(ids, str)
		}
	}
	sort.Slice(ids, func(i, j int) bool {
		var a, b [3]int64
		fmt.Sscanf(ids[i], "%d:%d:%d", &a[0], &a[1], &a[2])
		fmt.Sscanf(ids[j], "%d:%d:%d", &b[0], &b[1], &b[2])
		if a[0] != b[0] {
			return a[0] < b[0]
		}
		return a[1] < b[1]
	})
	if len(ids) == 0 {
		return "-"
	}
	return strings.Join(ids, ",")
}

// emitLayout sends the layer's layout to the model: TOC entries in order, then the regular files.
func (s *verifStack) emitLayout(out *verifutil.Out) {
	v := 0
	if s.cfg.verify {
		v = 1
	}
	np, po := 0, "-"
	if s.noPrefetch {
		np = 1
	}
	if s.prefetchOff >= 0 {
		po = fmt.Sprint(s.prefetchOff)
	}
	out.Emit(fmt.Sprintf("layer %s %d %d %d %s", s.cfg.variant, v, len(s.blob), np, po), "ok")
	for _, l := range s.lines {
		d, fi := 0, 0
		if l.Data {
			d = 1
			fi = s.byName[l.File]
		}
		out.Emit(fmt.Sprintf("toc %d %d %d %d %d %d", d, fi, l.ChunkOffset, l.ChunkSize, l.Offset, l.InnerOffset), "ok")
	}
	for fi, f := range s.files {
		var cs []string
		for _, c := range f.chunks {
			cs = append(cs, fmt.Sprintf("%d:%d", c.ChunkOffset, c.ChunkSize))
		}
		tbl := "-"
		if len(cs) > 0 {
			tbl = strings.Join(cs, ",")
		}
		out.Emit(fmt.Sprintf("file %d %d %d %d %d %s", fi, f.size, f.kind, f.salt, f.first, tbl), "ok")
	}
}

// ---- single operations: impl + model line + oracle --------------------------------------------

type verifFault int

const (
	verifNoFault verifFault = iota
	verifFailFetch
)

// opRead reads path p (a regular file of the view) through the nodes and checks it against the tar.
// modelled=false: only the oracle is evaluated (the op goes out as a comment).
func (s *verifStack) opRead(out *verifutil.Out, p string, off int64, n int, fault verifFault, modelled bool) {
	fi, ok := s.fileOf(p)
	if !ok {
		return
	}
	f := s.files[fi]
	s.wc.reset()
	if fault != verifNoFault {
		s.faulted = true
	}
	s.rt.Set(fault == verifFailFetch)
	got, errno := s.tree.Read(p, off, n)
	s.rt.Set(false)
	stored := s.showKeys(s.wc.committed())
	u := "ok"
	if errno != 0 && fault != verifNoFault {
		u = "fail"
	}
	res := "err"
	if errno == 0 {
		res = fmt.Sprintf("ok k=%d sum=%d stored=%s", len(got), verifc02.Fnv(got), stored)
	}
	if modelled {
		out.Emit(fmt.Sprintf("read %d %d %d %s", fi, off, n, u), res)
	} else {
		out.Comment(fmt.Sprintf("read %d %d %d %s -> %s", fi, off, n, u, res))
	}
	// ---- oracle: bytes == tar content slice, short at EOF ----
	ctx := fmt.Sprintf("file %q (size %d, %d chunks) off=%d n=%d [%s | %s]", p, f.size, len(f.chunks), off, n, s.opts, s.cfg)
	if errno != 0 {
		if fault == verifNoFault {
			out.Fail("read-failed-without-fault", fmt.Sprintf("%s: errno %v with a healthy registry", ctx, errno))
		}
		out.Count("read-err")
		if modelled {
			s.resync(out)
		}
		return
	}
	var want []byte
	if off < int64(len(f.data)) {
		e := off + int64(n)
		if e > int64(len(f.data)) {
			e = int64(len(f.data))
		}
		want = f.data[off:e]
	}
	if len(got) != len(want) {
		out.Fail("read-length", fmt.Sprintf("%s: got %d bytes, the tar has %d", ctx, len(got), len(want)))
	} else if !bytes.Equal(got, want) {
		out.Fail("read-bytes-differ", fmt.Sprintf("%s: bytes differ from the tar payload", ctx))
	}
	out.Count("read-ok")
	if len(got) < n {
		out.Count("read-short")
	}
	if stored == "-" {
		out.Count("read-all-hits")
	}
}

// resync tells the model which chunks the implementation's cache holds (after an operation whose
// partial effects the model does not predict: failures, concurrency).
func (s *verifStack) resync(out *verifutil.Out) {
	keys := s.wc.presentKeys()
	// drop truncated entries: resync establishes exact entries only
	s.wc.mu.Lock()
	for k := range s.wc.trunc {
		delete(s.wc.trunc, k)
		s.wc.tomb[k] = true
		delete(s.wc.present, k)
	}
	s.wc.mu.Unlock()
	keys = s.wc.presentKeys()
	out.Emit("setcache "+s.showKeys(keys), "ok")
}

// opLookup compares ChunkEntryForOffset of the real metadata file with the model.
func (s *verifStack) opLookup(out *verifutil.Out, fi int, x int64) {
	f := s.files[fi]
	if s.vr == nil {
		return
	}
	mf, err := s.vr.Metadata().OpenFile(f.id)
	if err != nil {
		out.Fail("metadata-openfile-failed", fmt.Sprintf("OpenFile(%q): %v", f.name, err))
		return
	}
	off, size, _, ok := mf.ChunkEntryForOffset(x)
	res := "none"
	if ok {
		res = fmt.Sprintf("%d:%d", off, size)
	}
	out.Emit(fmt.Sprintf("lookup %d %d", fi, x), res)
	// oracle: the unique chunk containing x, none at/after EOF
	if x >= f.size {
		if ok {
			out.Fail("chunk-lookup-past-eof", fmt.Sprintf("%q size %d: offset %d -> chunk (%d,%d)", f.name, f.size, x, off, size))
		}
	} else if !ok || !(off <= x && x < off+size) {
		out.Fail("chunk-lookup-wrong", fmt.Sprintf("%q size %d: offset %d -> ok=%v chunk (%d,%d)", f.name, f.size, x, ok, off, size))
	}
	out.Count("lookup")
}

// opCacheFiles: VerifiableReader.Cache with the offset filter `offset < limit` (limit < 0: all files,
// through BackgroundFetch when bg is set).
func (s *verifStack) opCacheFiles(out *verifutil.Out, limit int64, bg bool, fault verifFault) bool {
	s.wc.reset()
	if fault != verifNoFault {
		s.faulted = true
	}
	s.rt.Set(fault == verifFailFetch)
	var err error
	if bg {
		err = s.lref.BackgroundFetch()
	} else if limit < 0 {
		err = s.vr.Cache()
	} else {
		err = s.vr.Cache(reader.WithFilter(func(o int64) bool { return o < limit }))
	}
	s.rt.Set(false)
	stored := s.showKeys(s.wc.committed())
	u := "ok"
	if err != nil && fault != verifNoFault {
		u = "fail"
	}
	res := "err"
	if err == nil {
		res = "ok stored=" + stored
	}
	lim := "all"
	if limit >= 0 {
		lim = fmt.Sprint(limit)
	}
	out.Emit(fmt.Sprintf("cachefiles %s %s", lim, u), res)
	out.Count("cachefiles")
	if err != nil {
		if fault == verifNoFault {
			out.Fail("cache-failed-without-fault", fmt.Sprintf("Cache(limit=%s,bg=%v) failed with a healthy registry: %v [%s | %s]", lim, bg, err, s.opts, s.cfg))
		}
		s.resync(out)
		return false
	}
	return true
}

func (s *verifStack) opEvict(out *verifutil.Out, rnd *verifutil.Rand) {
	var cands [][3]int64
	for fi, f := range s.files {
		for _, c := range f.chunks {
			cands = append(cands, [3]int64{int64(fi), c.ChunkOffset, c.ChunkSize})
		}
	}
	if len(cands) == 0 {
		return
	}
	var victims [][3]int64
	switch rnd.Intn(4) {
	case 0: // everything
		victims = cands
	case 1: // every chunk of one file
		fi := cands[rnd.Intn(len(cands))][0]
		for _, c := range cands {
			if c[0] == fi {
				victims = append(victims, c)
			}
		}
	default:
		victims = [][3]int64{cands[rnd.Intn(len(cands))]}
	}
	for _, c := range victims {
		s.wc.evict(reader.VerifC02GenID(s.files[c[0]].id, c[1], c[2]))
		out.Emit(fmt.Sprintf("evict %d %d %d", c[0], c[1], c[2]), "ok")
		out.Count("evict")
	}
}

// presentSorted lists the cached chunks in (file, offset) order (cache keys depend on the node ids,
// which the memory store assigns in map-iteration order, so they are no stable order).
func (s *verifStack) presentSorted() []string {
	keys := s.wc.presentKeys()
	var known []string
	for _, k := range keys {
		if _, ok := s.keyInfo[k]; ok {
			known = append(known, k)
		}
	}
	sort.Slice(known, func(i, j int) bool {
		a, b := s.keyInfo[known[i]], s.keyInfo[known[j]]
		if a[0] != b[0] {
			return a[0] < b[0]
		}
		return a[1] < b[1]
	})
	return known
}

func (s *verifStack) opTrunc(out *verifutil.Out, rnd *verifutil.Rand) {
	keys := s.presentSorted()
	if len(keys) == 0 {
		return
	}
	k := keys[rnd.Intn(len(keys))]
	info := s.keyInfo[k]
	cut := rnd.Range(0, info[2]-1)
	s.wc.truncate(k, int(cut))
	out.Emit(fmt.Sprintf("trunc %d %d %d %d", info[0], info[1], info[2], cut), "ok")
	out.Count("trunc")
}

// opInterleave explores the schedule "another reader runs between a reader's cache hit and its use of
// the entry": chunk c of a file is made the most recent entry of the cache, then it is read again and,
// right after the cache handed out the hit, other chunks are read (and added to the cache, evicting
// c from a small LRU) before the first reader copies its bytes. Oracle only; the model is resynced.
func (s *verifStack) opInterleave(out *verifutil.Out, rnd *verifutil.Rand, regs []string) {
	var withChunks []string
	for _, p := range regs {
		if fi, _ := s.fileOf(p); len(s.files[fi].chunks) > 0 {
			withChunks = append(withChunks, p)
		}
	}
	if len(withChunks) == 0 {
		return
	}
	p := withChunks[rnd.Intn(len(withChunks))]
	fi, _ := s.fileOf(p)
	f := s.files[fi]
	c := f.chunks[rnd.Intn(len(f.chunks))]
	// victims: other chunks, read through their own paths
	type victim struct {
		p   string
		fi  int
		off int64
		n   int64
	}
	var victims []victim
	for _, q := range withChunks {
		qi, _ := s.fileOf(q)
		if qi == fi && q != p {
			continue // another name of the same file
		}
		for _, qc := range s.files[qi].chunks {
			if qi == fi && qc.ChunkOffset == c.ChunkOffset {
				continue
			}
			victims = append(victims, victim{q, qi, qc.ChunkOffset, qc.ChunkSize})
		}
	}
	if len(victims) == 0 {
		return
	}
	for i := len(victims) - 1; i > 0; i-- {
		j := rnd.Intn(i + 1)
		victims[i], victims[j] = victims[j], victims[i]
	}
	if len(victims) > s.cfg.lru+12 {
		victims = victims[:s.cfg.lru+12]
	}
	evict := func(fi int, off, size int64) {
		s.wc.evict(reader.VerifC02GenID(s.files[fi].id, off, size))
		out.Emit(fmt.Sprintf("evict %d %d %d", fi, off, size), "ok")
	}
	// make c the freshest entry
	evict(fi, c.ChunkOffset, c.ChunkSize)
	s.opRead(out, p, c.ChunkOffset, int(c.ChunkSize), verifNoFault, true)
	for _, v := range victims {
		evict(v.fi, v.off, v.n)
	}
	check := func(q string, qi int, off int64, n int, got []byte, errno syscall.Errno, who string) {
		data := s.files[qi].data
		var want []byte
		if off < int64(len(data)) {
			e := off + int64(n)
			if e > int64(len(data)) {
				e = int64(len(data))
			}
			want = data[off:e]
		}
		if errno != 0 {
			out.Fail("interleaved-read-failed", fmt.Sprintf("%s: %q off=%d n=%d: %v [%s | %s]", who, q, off, n, errno, s.opts, s.cfg))
		} else if !bytes.Equal(got, want) {
			out.Fail("interleaved-read-bytes-differ", fmt.Sprintf("%s: %q off=%d n=%d returned bytes that differ from the tar, after another reader stored %d other chunks "+
				"between this reader's cache hit and its use of the entry [%s | %s]", who, q, off, n, len(victims), s.opts, s.cfg))
		}
	}
	s.wc.mu.Lock()
	s.wc.afterHit = func() {
		for _, v := range victims {
			got, errno := s.tree.Read(v.p, v.off, int(v.n))
			check(v.p, v.fi, v.off, int(v.n), got, errno, "reader #2")
		}
	}
	s.wc.mu.Unlock()
	got, errno := s.tree.Read(p, c.ChunkOffset, int(c.ChunkSize))
	s.wc.mu.Lock()
	s.wc.afterHit = nil
	s.wc.mu.Unlock()
	check(p, fi, c.ChunkOffset, int(c.ChunkSize), got, errno, "reader #1")
	out.Comment(fmt.Sprintf("interleave %d %d %d with %d others", fi, c.ChunkOffset, c.ChunkSize, len(victims)))
	out.Count("interleave")
	s.resync(out)
}

// opPassthrough opens path p the way FUSE passthrough does — node.Open merges the file's chunks into
// ONE backing file of the chunk cache (GetPassthroughFd: batches of merge_buffer_size, several
// workers, chunks taken from the chunk cache where present) and hands its fd to the kernel — and
// compares the WHOLE content of that fd with the tar.  Oracle only.
func (s *verifStack) opPassthrough(out *verifutil.Out, p string, dropMerged bool) {
	fi, ok := s.fileOf(p)
	if !ok {
		return
	}
	f := s.files[fi]
	if dropMerged {
		// the merged backing file is cached under (id, 0, total size): drop it so that it is rebuilt
		s.wc.evict(reader.VerifC02GenID(f.id, 0, f.size))
	}
	// breadcrumb: a panic inside a merge worker goroutine cannot be recovered, the crash report of
	// the check then ends with the input that caused it
	fmt.Fprintf(os.Stderr, "verif-c02: passthrough open of %q (size %d, chunks of the file: %d) build[%s] stack[%s] merge_buffer_size=%d merge_worker_count=%d\n",
		p, f.size, len(f.chunks), s.opts, s.cfg, s.cfg.mergeBuf, s.cfg.mergeWorkers)
	fh, errno := s.tree.Open(p)
	if errno != 0 {
		out.Fail("open-failed", fmt.Sprintf("open %q: %v", p, errno))
		return
	}
	defer verifc02.ReleaseFH(fh)
	ctx := fmt.Sprintf("file %q (size %d, %d chunks) [%s | %s mergebuf=%d workers=%d]", p, f.size, len(f.chunks), s.opts, s.cfg, s.cfg.mergeBuf, s.cfg.mergeWorkers)
	got, has := verifc02.PassthroughContent(fh, f.size+16)
	out.Comment(fmt.Sprintf("passthrough %d fd=%v drop=%v", fi, has, dropMerged))
	if !has {
		// passthrough needs a direct-mode directory cache; with it and a healthy registry the fd must be there
		if s.cfg.passThrough && s.cfg.fsCache == "dir" && s.cfg.direct && f.size > 0 && !s.faulted {
			out.Fail("passthrough-fd-missing", ctx+": node.Open did not provide a passthrough fd")
		}
		out.Count("passthrough-nofd")
		return
	}
	total := len(got)
	if int64(total) != f.size {
		out.Fail("passthrough-length-differs", fmt.Sprintf("%s: the passthrough file holds %d bytes, the tar %d", ctx, total, f.size))
	} else if !bytes.Equal(got, f.data) {
		first := 0
		for first < total && got[first] == f.data[first] {
			first++
		}
		out.Fail("passthrough-bytes-differ", fmt.Sprintf("%s: the passthrough file differs from the tar payload from byte %d on", ctx, first))
	}
	out.Count("passthrough-fd")
}

// dropHTTPCache removes every file of the compressed-blob directory cache (cache loss below the
// chunk cache; oracle only).
func (s *verifStack) dropHTTPCache(out *verifutil.Out) {
	filepath.Walk(filepath.Join(s.root, "httpcache"), func(p string, info os.FileInfo, err error) error {
		if err == nil && !info.IsDir() && !strings.Contains(p, "/wip/") {
			os.Remove(p)
		}
		return nil
	})
	out.Comment("drop-httpcache")
	out.Count("drop-httpcache")
}

// verifWatch runs f with a watchdog: a hang of the code under test is a violation, not a stuck check.
func verifWatch(out *verifutil.Out, what string, d time.Duration, f func()) bool {
	done := make(chan struct{})
	go func() {
		defer close(done)
		f()
	}()
	select {
	case <-done:
		return true
	case <-time.After(d):
		out.Fail("hang-"+what, fmt.Sprintf("%s did not return within %v", what, d))
		out.Close()
		os.Exit(0)
		return false
	}
}

// =============================================================================================

func verifRegularPaths(s *verifStack) []string {
	var ps []string
	for _, p := range verifc02.Paths(s.view) {
		if _, ok := s.fileOf(p); ok {
			ps = append(ps, p)
		}
	}
	return ps
}

func verifPickRead(rnd *verifutil.Rand, size int64, chunks []verifc02.TocChunk) (int64, int) {
	var off, n int64
	switch rnd.Intn(9) {
	case 0:
		off, n = 0, size
	case 1:
		off, n = 0, size+rnd.Range(1, 9)
	case 2:
		off, n = rnd.Range(0, size+3), rnd.Range(0, 5)
	case 3:
		off, n = size, rnd.Range(1, 4)
	case 4, 5:
		// around a chunk boundary
		if len(chunks) > 0 {
			c := chunks[rnd.Intn(len(chunks))]
			off = c.ChunkOffset + rnd.Range(-2, 2)
			n = rnd.Range(1, c.ChunkSize+3)
		}
	case 6:
		if len(chunks) > 0 {
			c := chunks[rnd.Intn(len(chunks))]
			off, n = c.ChunkOffset, c.ChunkSize
		}
	default:
		off = rnd.Range(0, size)
		n = rnd.Range(0, size-off+2)
	}
	if off < 0 {
		off = 0
	}
	if n < 0 {
		n = 0
	}
	if n > 1<<16 {
		n = 1 << 16
	}
	return off, int(n)
}

// verifHistory drives one layer through a random access history.
func verifHistory(t *testing.T, out *verifutil.Out, rnd *verifutil.Rand, s *verifStack, nops int, label string) {
	modelled := !s.cfg.passThrough && s.cfg.syncAdd && !s.degraded
	out.Comment(fmt.Sprintf("%s: %d tar entries, %s, %s", label, len(s.ents), s.opts, s.cfg))
	s.meta.Out = out
	s.emitLayout(out)
	verifc02.EmitTar(out, s.ents)
	paths := verifc02.Paths(s.view)
	regs := verifRegularPaths(s)
	shape := ""
	bgDone := false
	// every path once, at random times, plus names that do not exist
	pending := append([]string(nil), paths...)
	for i := len(pending) - 1; i > 0; i-- {
		j := rnd.Intn(i + 1)
		pending[i], pending[j] = pending[j], pending[i]
	}
	missing := []string{"nope", "a/nope", "a/c/d/e/f", "f/x", ".prefetch.landmark", ".no.prefetch.landmark", "stargz.index.json"}
	for i := 0; i < nops || len(pending) > 0; i++ {
		ptw := 0
		if s.cfg.passThrough {
			ptw = 6
		}
		kind := rnd.Pick(14, 3, 5, 2, 4, 2, 1, 2, 1, 1, 1, 2, ptw)
		if i >= nops {
			kind = 2
		}
		switch kind {
		case 0: // read
			if len(regs) == 0 {
				continue
			}
			p := regs[rnd.Intn(len(regs))]
			fi, _ := s.fileOf(p)
			off, n := verifPickRead(rnd, s.files[fi].size, s.files[fi].chunks)
			fault := verifNoFault
			if rnd.Intn(8) == 0 {
				fault = verifFailFetch
			}
			verifWatch(out, "read", 60*time.Second, func() { s.opRead(out, p, off, n, fault, modelled) })
			shape += "r"
		case 1: // chunk lookup
			if len(s.files) == 0 {
				continue
			}
			fi := rnd.Intn(len(s.files))
			f := s.files[fi]
			x := rnd.Range(0, f.size+2)
			if len(f.chunks) > 0 && rnd.Bool() {
				c := f.chunks[rnd.Intn(len(f.chunks))]
				x = c.ChunkOffset + []int64{-1, 0, 1, c.ChunkSize - 1, c.ChunkSize}[rnd.Intn(5)]
				if x < 0 {
					x = 0
				}
			}
			s.opLookup(out, fi, x)
		case 2: // stat
			var p string
			if len(pending) > 0 {
				p, pending = pending[0], pending[1:]
			} else if rnd.Intn(4) == 0 {
				p = missing[rnd.Intn(len(missing))]
				if _, ok := s.view[p]; ok {
					continue
				}
			} else {
				p = paths[rnd.Intn(len(paths))]
			}
			s.meta.Stat(p, true)
			if n, ok := s.view[p]; ok && n.Type == tar.TypeDir {
				s.meta.Ls(p, true)
			}
			if n, ok := s.view[p]; ok {
				names := []string{"user.foo", "user.none", "user.empty"}
				for k := range n.Xattrs {
					names = append(names, k)
				}
				sort.Strings(names)
				s.meta.Xattr(p, names[rnd.Intn(len(names))], true)
			}
		case 3: // ls of a directory (the kernel never asks a non-directory)
			p := paths[rnd.Intn(len(paths))]
			if n := s.view[p]; n.Type != tar.TypeDir {
				continue
			}
			s.meta.Ls(p, true)
		case 4: // evict
			s.opEvict(out, rnd)
			shape += "e"
		case 5: // prefetch-store with an offset filter
			if !modelled {
				continue
			}
			lim := rnd.Range(0, int64(len(s.blob)))
			if len(s.files) > 0 && rnd.Bool() {
				f := s.files[rnd.Intn(len(s.files))]
				lim = f.first + rnd.Range(0, 1)
			}
			fault := verifNoFault
			if rnd.Intn(6) == 0 {
				fault = verifFailFetch
			}
			verifWatch(out, "cache", 120*time.Second, func() { s.opCacheFiles(out, lim, false, fault) })
			shape += "p"
		case 6: // background fetch (once per layer object) or an unfiltered Cache
			if !modelled {
				continue
			}
			bg := rnd.Bool() && !bgDone // BackgroundFetch runs once per layer object (C15: once_idempotent)
			if bg {
				bgDone = true
			}
			verifWatch(out, "bgfetch", 120*time.Second, func() { s.opCacheFiles(out, -1, bg, verifNoFault) })
			shape += "b"
		case 7: // truncated cache entry
			if !modelled {
				continue
			}
			s.opTrunc(out, rnd)
			shape += "t"
		case 8: // loss of the compressed cache
			if s.cfg.httpCache == "dir" {
				s.dropHTTPCache(out)
				shape += "h"
			}
		case 9: // concurrent readers (oracle only), then resync
			if len(regs) == 0 {
				continue
			}
			verifWatch(out, "concurrent-read", 120*time.Second, func() { verifConcurrentReads(out, rnd, s, regs) })
			if modelled {
				s.resync(out)
			}
			shape += "c"
		case 12: // FUSE passthrough: the merged backing file against the tar
			if len(regs) == 0 {
				continue
			}
			p := regs[rnd.Intn(len(regs))]
			verifWatch(out, "passthrough", 120*time.Second, func() { s.opPassthrough(out, p, rnd.Intn(3) != 0) })
			shape += "P"
		case 11: // a second reader between a cache hit and its use
			if !modelled || len(regs) == 0 {
				continue
			}
			verifWatch(out, "interleave", 120*time.Second, func() { s.opInterleave(out, rnd, regs) })
			shape += "i"
		case 10: // read a whole file sequentially in small pieces through ONE handle
			if len(regs) == 0 {
				continue
			}
			p := regs[rnd.Intn(len(regs))]
			fi, _ := s.fileOf(p)
			step := int(rnd.Range(1, 40))
			for off := int64(0); off <= s.files[fi].size && off < 400; off += int64(step) {
				s.opRead(out, p, off, step, verifNoFault, modelled)
			}
			shape += "s"
		}
	}
	nch := 0
	for _, f := range s.files {
		nch += len(f.chunks)
	}
	out.Distinct(fmt.Sprintf("%s/%s/%d/%d/%s", s.opts, s.cfg, len(s.ents), nch, shape))
}

func verifConcurrentReads(out *verifutil.Out, rnd *verifutil.Rand, s *verifStack, regs []string) {
	type job struct {
		p   string
		off int64
		n   int
	}
	var jobs []job
	for i := 0; i < 24; i++ {
		p := regs[rnd.Intn(len(regs))]
		fi, _ := s.fileOf(p)
		off, n := verifPickRead(rnd, s.files[fi].size, s.files[fi].chunks)
		jobs = append(jobs, job{p, off, n})
	}
	// resolve every path first (the tree helper is not concurrency safe), then read concurrently
	type opened struct {
		j  job
		fi int
	}
	var wg sync.WaitGroup
	var mu sync.Mutex
	for w := 0; w < 4; w++ {
		w := w
		handles := map[string]interface{}{}
		for i := w; i < len(jobs); i += 4 {
			if _, ok := handles[jobs[i].p]; !ok {
				fh, errno := s.tree.Open(jobs[i].p)
				if errno != 0 {
					out.Fail("open-failed", fmt.Sprintf("open %q: %v", jobs[i].p, errno))
					continue
				}
				handles[jobs[i].p] = fh
			}
		}
		wg.Add(1)
		go func() {
			defer wg.Done()
			for i := w; i < len(jobs); i += 4 {
				j := jobs[i]
				fh, ok := handles[j.p]
				if !ok {
					continue
				}
				got, errno := verifc02.ReadFH(fh, j.off, j.n)
				fi, _ := s.fileOf(j.p)
				f := s.files[fi]
				var want []byte
				if j.off < int64(len(f.data)) {
					e := j.off + int64(j.n)
					if e > int64(len(f.data)) {
						e = int64(len(f.data))
					}
					want = f.data[j.off:e]
				}
				mu.Lock()
				if errno != 0 {
					out.Fail("concurrent-read-failed", fmt.Sprintf("%q off=%d n=%d: %v", j.p, j.off, j.n, errno))
				} else if !bytes.Equal(got, want) {
					out.Fail("concurrent-read-bytes-differ", fmt.Sprintf("%q off=%d n=%d size=%d: got %d bytes want %d", j.p, j.off, j.n, f.size, len(got), len(want)))
				}
				out.Count("concurrent-read")
				mu.Unlock()
			}
		}()
		// an eviction racing with the readers
		if w == 1 {
			// (which chunks are present now depends on the schedule: draw first, then pick)
			x := rnd.Intn(1 << 20)
			if keys := s.presentSorted(); len(keys) > 0 {
				s.wc.evict(keys[x%len(keys)])
			}
		}
	}
	wg.Wait()
}

// ---- hand-written scenarios ----------------------------------------------------------------

func verifReg(name string, size int64, salt int64) verifc02.Ent {
	return verifc02.Ent{Name: name, Type: tar.TypeReg, Mode: 0o644, Size: size, Kind: 0, Salt: salt, MTime: 1700000000}
}

type verifScenario struct {
	name string
	ents []verifc02.Ent
	opts verifc02.BuildOpts
}

func verifScenarios() []verifScenario {
	return []verifScenario{
		{"multi-chunk", []verifc02.Ent{verifReg("big", 100, 1), verifReg("small", 3, 2), verifReg("empty", 0, 3)},
			verifc02.BuildOpts{ChunkSize: 7}},
		{"hardlink-chain-dups", []verifc02.Ent{
			verifReg("./a/f", 40, 1),
			{Name: "a/l1", Type: tar.TypeLink, Link: "./a/f"},
			{Name: "/b/l2", Type: tar.TypeLink, Link: "a/../a/l1"},
			verifReg("a/g", 10, 2),
			{Name: "a/g", Type: tar.TypeSymlink, Link: "../target", Mode: 0o777},
			{Name: "../c", Type: tar.TypeChar, Maj: 5, Min: 300, Mode: 0o2660, UID: 1000, GID: 3000000},
			{Name: "a/", Type: tar.TypeDir, Mode: 0o1777, Xattrs: [][2]string{{"user.k", "v"}, {"user.e", ""}}},
		}, verifc02.BuildOpts{ChunkSize: 16, Prioritized: []string{"a/l1"}}},
		{"root-entry", []verifc02.Ent{{Name: "./", Type: tar.TypeDir, Mode: 0o700, UID: 5, GID: 6, MTime: 86400},
			verifReg("./x", 20, 4), {Name: "./d/", Type: tar.TypeDir, Mode: 0o755}}, verifc02.BuildOpts{ChunkSize: 8, Zstd: true}},
		{"shared-member", []verifc02.Ent{verifReg("p", 30, 5), verifReg("q", 50, 6), verifReg("r", 5, 7)},
			verifc02.BuildOpts{ChunkSize: 16, MinChunkSize: 100000}},
		{"plain-writer", []verifc02.Ent{verifReg("p", 30, 5), {Name: "d/e/f", Type: tar.TypeFifo, Mode: 0o600}},
			verifc02.BuildOpts{ChunkSize: 9, Plain: true}},
		// regression (repaired by 8686934): an empty regular file among the files that share the
		// stream at blob offset 0 — after a non-empty file, and as the first entry
		{"empty-file-in-first-stream", []verifc02.Ent{verifReg("a", 10, 1), verifReg("e", 0, 2), verifReg("b", 12, 3)},
			verifc02.BuildOpts{ChunkSize: 4, MinChunkSize: 100000, Prioritized: []string{"a", "e", "b"}}},
		{"empty-file-first-in-first-stream", []verifc02.Ent{verifReg("e", 0, 2), verifReg("a", 10, 1), verifReg("b", 12, 3)},
			verifc02.BuildOpts{ChunkSize: 4, MinChunkSize: 100000, Plain: true}},
		{"empty-file-inside-later-stream", []verifc02.Ent{verifReg("a", 10, 1), verifReg("e", 0, 2), verifReg("b", 12, 3)},
			verifc02.BuildOpts{ChunkSize: 4, MinChunkSize: 100000}},
	}
}

// TestVerifC02 — lazily served files and metadata equal the source tar under any access history.
func TestVerifC02(t *testing.T) {
	rnd := verifutil.NewRand(verifc02.MixSeed(verifutil.Seed(), 2))
	out := verifutil.OpenOut()
	defer out.Close()
	nhist := verifutil.EnvInt("VERIF_N", 40)
	nops := verifutil.EnvInt("VERIF_OPS", 40)

	for _, sc := range verifScenarios() {
		cfg := verifGenStackCfg(rnd)
		cfg.regChunk, cfg.verify = 16, true
		if sc.name == "multi-chunk" || sc.name == "shared-member" {
			// small on-memory LRU in front of the directory cache
			cfg.fsCache, cfg.direct, cfg.lru = "dir", false, 1
		}
		s, err := verifNewStack(t, sc.ents, sc.opts, cfg)
		if err != nil {
			out.Fail("scenario-setup-failed", fmt.Sprintf("%s: %v", sc.name, err))
			continue
		}
		verifHistory(t, out, rnd, s, nops, "scenario "+sc.name)
		s.close()
	}

	verifPassthroughScenarios(t, out, rnd)

	for h := 0; h < nhist; h++ {
		chunkHint := []int64{7, 33, 64, 500}[rnd.Intn(4)]
		ents := verifc02.GenTar(rnd, verifc02.GenParams{MaxEntries: 12, ChunkHint: chunkHint, MaxFile: 3000})
		opts := verifc02.GenBuildOpts(rnd, ents)
		if rnd.Intn(6) == 0 {
			opts.Plain = true
			opts.Prioritized = nil
		}
		cfg := verifGenStackCfg(rnd)
		if rnd.Intn(6) == 0 {
			// passthrough needs a direct-mode directory cache (otherwise it switches itself off)
			cfg.passThrough = true
			cfg.fsCache = "dir"
			cfg.direct = rnd.Intn(5) != 0
			cfg.mergeWorkers = 1 + rnd.Intn(4)
			// files of equal chunks, merge buffer of 2-4 chunks (batched path) or odd sizes (sequential fallback)
			opts.ChunkSize = int(chunkHint)
			opts.MinChunkSize = []int{0, 0, 100}[rnd.Intn(3)]
			// merge buffers that the chunk size divides (batched path), and — more often — ones it does
			// not divide but that are larger than chunk+1 (a chunk then straddles a batch boundary and the
			// file must take the sequential path), plus degenerate sizes
			cfg.mergeBuf = []int64{2 * chunkHint, 3 * chunkHint, 2*chunkHint + 1, 2*chunkHint + chunkHint/2 + 1, chunkHint + 2,
				3*chunkHint - 1, 4*chunkHint + 3, 1, 10, 419430400}[rnd.Intn(10)]
		}
		if rnd.Intn(10) == 0 {
			cfg.syncAdd = false
		}
		s, err := verifNewStack(t, ents, opts, cfg)
		if err != nil {
			out.Fail("stack-setup-failed", fmt.Sprintf("history %d: %v [%s | %s]", h, err, opts, cfg))
			continue
		}
		verifHistory(t, out, rnd, s, nops, fmt.Sprintf("history %d", h))
		s.close()
	}
}

// verifPassthroughScenarios: files of 4-12 equal chunks, merge buffers of 2-4 chunks, 1-4 workers; some
// chunks get into the chunk cache first (partial reads through a first handle, or a prefetch-store),
// then the merged backing file is dropped and rebuilt, and its whole content is compared with the tar;
// repeated after evictions.
func verifPassthroughScenarios(t *testing.T, out *verifutil.Out, rnd *verifutil.Rand) {
	for k := 0; k < 8; k++ {
		chunk := []int64{16, 7, 64, 33}[k%4]
		nchunks := []int64{4, 8, 12, 6, 9, 5, 10, 7}[k]
		size := chunk * nchunks
		if k%3 == 2 {
			size += chunk / 2 // a short last chunk
		}
		ents := []verifc02.Ent{verifReg("big", size, int64(20+k)), verifReg("d/other", chunk*3, int64(40+k)), verifReg("small", 3, 60)}
		ents[0].Kind = k % 2
		opts := verifc02.BuildOpts{ChunkSize: int(chunk), Zstd: k%4 == 3}
		cfg := verifGenStackCfg(rnd)
		cfg.passThrough, cfg.fsCache, cfg.direct, cfg.syncAdd, cfg.verify = true, "dir", true, true, k%5 != 4
		cfg.regChunk = []int64{16, 64, 512}[k%3]
		cfg.mergeBuf = chunk * []int64{2, 3, 4}[k%3]
		cfg.mergeWorkers = 1 + k%4
		s, err := verifNewStack(t, ents, opts, cfg)
		if err != nil {
			out.Fail("scenario-setup-failed", fmt.Sprintf("passthrough %d: %v", k, err))
			continue
		}
		out.Comment(fmt.Sprintf("passthrough scenario %d: %d chunks of %d, mergebuf %d, %d workers, %s", k, nchunks, chunk, cfg.mergeBuf, cfg.mergeWorkers, s.cfg))
		s.meta.Out = out
		if k%2 == 1 {
			// chunks cached by a prefetch-store before the first open
			if s.vr != nil {
				s.vr.Cache(reader.WithFilter(func(int64) bool { return true }))
			}
			for i := int64(0); i < nchunks; i += 2 {
				s.wc.evict(reader.VerifC02GenID(s.files[s.byName["big"]].id, i*chunk, chunk))
			}
		}
		s.opPassthrough(out, "big", false)
		// partial on-demand reads put single chunks into the chunk cache
		for _, c := range []int64{0, 1, nchunks / 2, nchunks - 1} {
			s.opRead(out, "big", c*chunk+1, int(chunk/2+1), verifNoFault, false)
		}
		s.opPassthrough(out, "big", true)
		// evict some chunks, read others, rebuild again
		for i := int64(1); i < nchunks; i += 3 {
			s.wc.evict(reader.VerifC02GenID(s.files[s.byName["big"]].id, i*chunk, chunk))
		}
		s.opRead(out, "big", 0, int(2*chunk), verifNoFault, false)
		s.opPassthrough(out, "big", true)
		s.opPassthrough(out, "d/other", true)
		s.opPassthrough(out, "small", false)
		s.opPassthrough(out, "big", false)
		out.Distinct(fmt.Sprintf("passthrough/%d/%d/%d/%d/%s", chunk, nchunks, cfg.mergeBuf, cfg.mergeWorkers, s.cfg))
		s.close()
	}
	// chunk size NOT dividing the merge buffer, file longer than the buffer: a chunk straddles a batch
	// boundary, which the batched merge cannot hold (6332cf7: such files take the sequential path)
	// (short files matter: there only ONE chunk straddles, nothing else can send the file down the sequential path)
	geo := [][3]int64{{3, 8, 20}, {5, 12, 40}, {4, 6, 10}, {7, 16, 50}, {3, 8, 9}, {6, 16, 64}, {5, 7, 23}, {9, 20, 100},
		{5, 12, 15}, {4, 6, 8}, {7, 16, 21}, {3, 8, 9}}
	for k, g := range geo {
		chunk, mbs, size := g[0], g[1], g[2]
		ents := []verifc02.Ent{verifReg("g/big", size, int64(70+k)), verifReg("tail", chunk+1, int64(90+k))}
		ents[0].Kind = k % 2
		opts := verifc02.BuildOpts{ChunkSize: int(chunk), Zstd: k%3 == 2}
		if k%2 == 1 {
			opts.MinChunkSize = 100 // several chunks per compressed stream
		}
		cfg := verifGenStackCfg(rnd)
		cfg.passThrough, cfg.fsCache, cfg.direct, cfg.syncAdd, cfg.verify = true, "dir", true, true, true
		cfg.regChunk = []int64{16, 64}[k%2]
		cfg.mergeBuf = mbs
		cfg.mergeWorkers = 1 + k%3
		s, err := verifNewStack(t, ents, opts, cfg)
		if err != nil {
			out.Fail("scenario-setup-failed", fmt.Sprintf("passthrough geometry %d: %v", k, err))
			continue
		}
		out.Comment(fmt.Sprintf("passthrough geometry %d: chunk %d, merge buffer %d, file %d, %s", k, chunk, mbs, size, s.cfg))
		s.meta.Out = out
		s.opPassthrough(out, "g/big", false)
		s.opRead(out, "g/big", chunk+1, int(chunk), verifNoFault, false)
		s.opPassthrough(out, "g/big", true)
		s.opPassthrough(out, "tail", false)
		out.Distinct(fmt.Sprintf("passthrough-geo/%d/%d/%d/%s", chunk, mbs, size, s.cfg))
		s.close()
	}
}
