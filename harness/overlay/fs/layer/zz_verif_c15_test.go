//go:build verif

package layer

import (
	"archive/tar"
	"bytes"
	"fmt"
	"reflect"
	"sort"
	"strings"
	"sync"
	"testing"
	"time"

	"github.com/containerd/stargz-snapshotter/fs/remote"
	"github.com/containerd/stargz-snapshotter/internal/verifc02"
	"github.com/containerd/stargz-snapshotter/internal/verifutil"
)

// C15 — prefetch and background fetch make later reads local; waiting is bounded.
// Uses the full-stack fixture of zz_verif_c02_test.go (real Build, real layer.Resolver over the
// scripted registry, instrumented chunk cache).

// verifBlob records the calls layer.prefetch makes on the blob and can pretend that the range
// fetch succeeded without fetching (so that the decompression walk is the part that fails).
type verifBlob struct {
	remote.Blob
	mu    sync.Mutex
	calls [][2]int64
	errs  []error
	skip  bool
}

func (b *verifBlob) Cache(offset int64, size int64, opts ...remote.Option) error {
	b.mu.Lock()
	b.calls = append(b.calls, [2]int64{offset, size})
	skip := b.skip
	b.mu.Unlock()
	var err error
	if !skip {
		err = b.Blob.Cache(offset, size, opts...)
	}
	b.mu.Lock()
	b.errs = append(b.errs, err)
	b.mu.Unlock()
	return err
}

func (b *verifBlob) snapshot() ([][2]int64, []error) {
	b.mu.Lock()
	defer b.mu.Unlock()
	return append([][2]int64(nil), b.calls...), append([]error(nil), b.errs...)
}

// verifInstallBlob puts the recording blob in front of the layer's remote.Blob.  The slot is found by
// its TYPE (the shallowest settable value of interface type remote.Blob below the resolved layer), not
// by field names; nil = not found, the harness then runs without the recorder (degraded: the blob.Cache
// arguments are taken from Layer.Info().PrefetchSize, prefetch/wait ops are not sent to the model).
func verifInstallBlob(lr Layer) *verifBlob {
	want := reflect.TypeOf((*remote.Blob)(nil)).Elem()
	v := verifc02.FindValue(lr, func(v reflect.Value) bool { return v.Type() == want && v.CanSet() && !v.IsNil() }, 5)
	if !v.IsValid() {
		return nil
	}
	vb := &verifBlob{Blob: v.Interface().(remote.Blob)}
	v.Set(reflect.ValueOf(vb))
	return vb
}

// regularNames returns every path of the view that is a regular file, with the index of its file.
func (s *verifStack) regularNames() []string { return verifRegularPaths(s) }

// readWholeOffline reads path p completely in pieces with the registry unreachable; it reports
// whether everything succeeded without a single blob fetch.
func (s *verifStack) readWholeOffline(out *verifutil.Out, rnd *verifutil.Rand, p string, sig string, why string) {
	fi, _ := s.fileOf(p)
	f := s.files[fi]
	s.rt.ResetLog()
	step := int(rnd.Range(1, f.size+3))
	if rnd.Bool() {
		step = int(f.size + 5)
	}
	for off := int64(0); ; off += int64(step) {
		s.wc.reset()
		s.rt.Set(true)
		got, errno := s.tree.Read(p, off, step)
		s.rt.Set(false)
		res := "err"
		if errno == 0 {
			res = fmt.Sprintf("ok k=%d sum=%d stored=%s", len(got), verifc02.Fnv(got), s.showKeys(s.wc.committed()))
		}
		out.Emit(fmt.Sprintf("read %d %d %d fail", fi, off, step), res)
		out.Count("offline-read")
		var want []byte
		if off < int64(len(f.data)) {
			e := off + int64(step)
			if e > int64(len(f.data)) {
				e = int64(len(f.data))
			}
			want = f.data[off:e]
		}
		if errno != 0 {
			out.Fail(sig, fmt.Sprintf("%s: reading %q (size %d, first chunk at blob offset %d) at %d+%d with the registry unreachable failed: %v [%s | %s]",
				why, p, f.size, f.first, off, step, errno, s.opts, s.cfg))
			s.resync(out)
			return
		}
		if !bytes.Equal(got, want) {
			out.Fail(sig+"-bytes", fmt.Sprintf("%s: offline read of %q at %d+%d returned bytes that differ from the tar", why, p, off, step))
		}
		if off >= f.size {
			break
		}
	}
	if n, _ := s.rt.Snapshot(); n != 0 {
		out.Fail(sig+"-fetched", fmt.Sprintf("%s: reading %q completely issued %d blob fetch request(s) [%s | %s]", why, p, n, s.opts, s.cfg))
	}
}

// allowedAfterPrefetch is the set of blob bytes a prefetch of range r may ask the registry for: the
// range itself rounded to registry chunks, plus the compressed extents of the files whose first
// chunk lies in the range (the decompression walk reads them to their end), rounded likewise.
func (s *verifStack) allowedAfterPrefetch(r int64) []bool {
	size := int64(len(s.blob))
	ok := make([]bool, size)
	mark := func(b, e int64) { // [b,e) rounded out to chunks
		c := s.cfg.regChunk
		b = b / c * c
		e = (e + c - 1) / c * c
		for i := b; i < e && i < size; i++ {
			ok[i] = true
		}
	}
	if r > 0 {
		mark(0, r)
	} else if s.cfg.prefetchChunk <= s.cfg.regChunk {
		mark(0, 1) // blob.Cache(0,0) still asks for the first chunk (Go's ceil(-1) is one chunk)
	}
	for _, f := range s.files {
		if len(f.chunks) > 0 && f.first < r {
			mark(f.first, f.end)
		}
	}
	return ok
}

type verifC15Case struct {
	kind      string // normal | fail-blob | fail-decompress | stall-timeout | stall-release | async
	cfgSize   int64
	threshold int64
}

// expectedRange mirrors what the property says about the range (oracle, independent of the model).
func (s *verifStack) expectedRange(cfg int64) (int64, bool) {
	if s.noPrefetch {
		return 0, false
	}
	if s.prefetchOff >= 0 {
		return s.prefetchOff, true
	}
	if cfg > int64(len(s.blob)) {
		return int64(len(s.blob)), true
	}
	return cfg, true
}

// emitPrefetch sends one Prefetch call to the model. closed = the prefetch waiter was released when the
// call returned (observed through the exported API: a WaitForPrefetchCompletion issued right after
// returns nil exactly then; nothing but its own timeout releases the waiter afterwards).
func (s *verifStack) emitPrefetch(out *verifutil.Out, c verifC15Case, vb *verifBlob, ncallsBefore int, err error, u string, closed bool) {
	call, blobok := "none", 1
	if vb != nil {
		calls, errs := vb.snapshot()
		if len(calls) > ncallsBefore {
			call = fmt.Sprintf("%d:%d", calls[ncallsBefore][0], calls[ncallsBefore][1])
			if errs[ncallsBefore] != nil {
				blobok = 0
			}
		}
	}
	w := 0
	if closed {
		w = 1
	}
	res := fmt.Sprintf("failed waiter=%d call=%s", w, call)
	if err == nil {
		res = fmt.Sprintf("ok waiter=%d call=%s stored=%s", w, call, s.showKeys(s.wc.committed()))
	}
	op := fmt.Sprintf("prefetch %d %d %d %d %d %s", c.cfgSize, c.threshold, s.cfg.regChunk, s.cfg.prefetchChunk, blobok, u)
	if vb == nil || s.degraded {
		out.Comment(op + " -> " + res)
		out.Count("degraded-prefetch-not-modelled")
		s.resync(out)
		return
	}
	out.Emit(op, res)
	if err != nil {
		s.resync(out)
	}
}

func verifRunC15(t *testing.T, out *verifutil.Out, rnd *verifutil.Rand, s *verifStack, c verifC15Case, label string) {
	out.Comment(fmt.Sprintf("%s: %s cfg=%d threshold=%d landmark(noprefetch=%v prefetch=%d) blob=%d, %s, %s",
		label, c.kind, c.cfgSize, c.threshold, s.noPrefetch, s.prefetchOff, len(s.blob), s.opts, s.cfg))
	s.meta.Out = out
	s.emitLayout(out)
	vb := verifInstallBlob(s.lref)
	modelWaits := vb != nil && !s.degraded
	r, doPrefetch := s.expectedRange(c.cfgSize)
	regs := s.regularNames()

	s.wc.reset()
	s.rt.ResetLog()
	var perr error
	pu := "ok" // what the lower layers did during the decompression walk, as far as it is observable
	switch c.kind {
	case "normal":
		verifWatch(out, "prefetch", 120*time.Second, func() { perr = s.lref.Prefetch(c.cfgSize) })
		if perr != nil {
			out.Fail("prefetch-failed-without-fault", fmt.Sprintf("Prefetch(%d) failed with a healthy registry: %v [%s | %s]", c.cfgSize, perr, s.opts, s.cfg))
		}
	case "fail-blob":
		s.rt.Set(true)
		verifWatch(out, "prefetch", 120*time.Second, func() { perr = s.lref.Prefetch(c.cfgSize) })
		s.rt.Set(false)
		if vb != nil {
			if _, errs := vb.snapshot(); perr != nil && len(errs) > 0 && errs[0] == nil {
				pu = "fail"
			}
		}
	case "fail-decompress":
		if vb != nil {
			vb.mu.Lock()
			vb.skip = true
			vb.mu.Unlock()
		}
		s.rt.Set(true)
		verifWatch(out, "prefetch", 120*time.Second, func() { perr = s.lref.Prefetch(c.cfgSize) })
		s.rt.Set(false)
		if perr != nil && vb != nil {
			pu = "fail"
		}
	case "stall-timeout", "stall-release", "async":
		gate := make(chan struct{})
		s.rt.SetStall(gate)
		pdone := make(chan struct{})
		go func() {
			perr = s.lref.Prefetch(c.cfgSize)
			close(pdone)
		}()
		// a second, concurrent Prefetch: sync.Once makes it wait for the first and do nothing
		p2done := make(chan error, 1)
		go func() { p2done <- s.lref.Prefetch(c.cfgSize) }()
		// wait until the prefetch sits in the stalled fetch (or has finished because nothing had to
		// be fetched)
		reached := false
		for i := 0; i < 4000; i++ {
			if s.rt.StalledCount() > 0 {
				reached = true
				break
			}
			select {
			case <-pdone:
				i = 4000
			default:
				time.Sleep(time.Millisecond)
			}
		}
		stalled := reached
		select {
		case <-pdone:
			stalled = false
		default:
		}
		// waiters
		nw := 1 + rnd.Intn(3)
		werrs := make([]error, nw)
		var wg sync.WaitGroup
		launch := func() {
			for i := 0; i < nw; i++ {
				i := i
				wg.Add(1)
				go func() {
					defer wg.Done()
					werrs[i] = s.lref.WaitForPrefetchCompletion()
				}()
			}
		}
		asyncExpected := doPrefetch && c.threshold > 0 && r > c.threshold
		var waitLine [2]string // op / impl line of the modelled wait, emitted before the prefetch line
		waitAfter := false
		switch {
		case !stalled:
			// prefetch already over: every wait returns nil at once (checked again below)
			launch()
			verifWatch(out, "wait", 60*time.Second, wg.Wait)
			waitAfter = true
		case c.kind == "stall-timeout" && !asyncExpected:
			launch()
			verifWatch(out, "wait", 60*time.Second, wg.Wait)
			// every waiter returns; the first timer that fires releases the waiter, so the others
			// may see either the timeout or the release
			ntimeout := 0
			for _, e := range werrs {
				if e != nil {
					ntimeout++
				}
			}
			if ntimeout == 0 {
				out.Fail("wait-nil-while-prefetch-stalled", fmt.Sprintf("%d WaitForPrefetchCompletion call(s) returned nil although the prefetch is stalled, below the async threshold, and nobody timed out [%s]", nw, s.cfg))
			}
			waitLine = [2]string{"wait t", fmt.Sprintf("%s closed=1", map[bool]string{true: "timedOut", false: "nil"}[ntimeout > 0])}
			out.Count("wait-timeout")
		case asyncExpected:
			// the waiter was released before the download started: the waits return nil although
			// the download is still stalled
			launch()
			verifWatch(out, "wait", 60*time.Second, wg.Wait)
			for _, e := range werrs {
				if e != nil {
					out.Fail("wait-error-above-async-threshold", fmt.Sprintf("WaitForPrefetchCompletion: %v although prefetch size %d > async threshold %d", e, r, c.threshold))
				}
			}
			out.Count("wait-async")
		default: // stall-release: waiters block until the prefetch ends
			launch()
			time.Sleep(20 * time.Millisecond)
			close(gate)
			gate = nil
			verifWatch(out, "wait", 60*time.Second, wg.Wait)
			allNil := true
			for _, e := range werrs {
				if e != nil {
					allNil = false
					out.Fail("wait-error-after-prefetch-ended", fmt.Sprintf("WaitForPrefetchCompletion: %v although the prefetch ended within the timeout", e))
				}
			}
			waitLine = [2]string{"wait d", fmt.Sprintf("%s closed=1", map[bool]string{true: "nil", false: "timedOut"}[allNil])}
			out.Count("wait-done")
		}
		_ = waitAfter
		if waitLine[0] != "" {
			if modelWaits {
				out.Emit(waitLine[0], waitLine[1])
			} else {
				out.Comment(waitLine[0] + " -> " + waitLine[1])
			}
		}
		if gate != nil {
			close(gate)
		}
		s.rt.SetStall(nil)
		verifWatch(out, "prefetch-after-stall", 120*time.Second, func() { <-pdone })
		var p2 error
		verifWatch(out, "concurrent-prefetch", 60*time.Second, func() { p2 = <-p2done })
		if p2 != nil {
			out.Fail("second-prefetch-error", fmt.Sprintf("a concurrent second Prefetch returned %v", p2))
		}
		if perr != nil {
			out.Fail("prefetch-failed-without-fault", fmt.Sprintf("Prefetch(%d) failed after a stall with a healthy registry: %v [%s | %s]", c.cfgSize, perr, s.opts, s.cfg))
		}
	}
	nfetch, ranges := s.rt.Snapshot()
	var calls [][2]int64
	if vb != nil {
		calls, _ = vb.snapshot()
	} else if doPrefetch && perr == nil {
		// degraded: the range as the layer itself reports it
		calls = [][2]int64{{0, s.lref.Info().PrefetchSize}}
	}

	// ---- oracle: the waiter is released once Prefetch has returned, whatever the outcome: a wait
	// issued now returns nil at once (only its own timeout could release the waiter from here on) ----
	var werr error
	t0 := time.Now()
	verifWatch(out, "wait", 120*time.Second, func() { werr = s.lref.WaitForPrefetchCompletion() })
	if werr != nil {
		out.Fail("waiter-not-released-after-prefetch-returned", fmt.Sprintf("Prefetch returned (err=%v) but the prefetch waiter was still open: WaitForPrefetchCompletion gave %v after %v [%s, %s]", perr, werr, time.Since(t0), c.kind, s.cfg))
	}
	s.emitPrefetch(out, c, vb, 0, perr, pu, werr == nil)
	waitRes := fmt.Sprintf("%s closed=1", map[bool]string{true: "nil", false: "timedOut"}[werr == nil])
	if modelWaits {
		if werr == nil {
			out.Emit("wait -", waitRes)
		} else {
			out.Emit("wait t", waitRes)
		}
	} else {
		out.Comment("wait -> " + waitRes)
	}

	// ---- oracle: traffic ----
	if !doPrefetch {
		if nfetch != 0 || len(calls) != 0 {
			out.Fail("noprefetch-traffic", fmt.Sprintf("layer with a no-prefetch landmark: Prefetch made %d blob.Cache call(s) and %d registry fetch(es)", len(calls), nfetch))
		}
		if perr != nil {
			out.Fail("noprefetch-error", fmt.Sprintf("Prefetch of a no-prefetch layer: %v", perr))
		}
		out.Count("case-noprefetch")
	} else {
		if (vb != nil || perr == nil) && (len(calls) != 1 || calls[0] != [2]int64{0, r}) {
			out.Fail("prefetch-range-differs", fmt.Sprintf("blob.Cache calls %v, want one call (0,%d) [landmark=%d cfg=%d blob=%d]", calls, r, s.prefetchOff, c.cfgSize, len(s.blob)))
		}
		allowed := s.allowedAfterPrefetch(r)
		var total int64
		for _, rg := range ranges {
			for i := rg[0]; i <= rg[1] && i < int64(len(allowed)); i++ {
				if !allowed[i] {
					out.Fail("prefetch-traffic-beyond-range", fmt.Sprintf("a fetch during Prefetch asked for blob bytes %d-%d; byte %d is outside the prefetch range [0,%d) (registry chunk %d) and outside the files that start in it [%s]",
						rg[0], rg[1], i, r, s.cfg.regChunk, s.opts))
					break
				}
			}
			total += rg[1] - rg[0] + 1
		}
		if s.prefetchOff >= 0 {
			out.Count("case-landmark")
		} else {
			out.Count("case-plain")
		}
	}

	// ---- oracle: after a completed prefetch the files in the range are local ----
	if doPrefetch && perr == nil {
		var stored []string
		for _, p := range regs {
			fi, _ := s.fileOf(p)
			if s.files[fi].first < r || len(s.files[fi].chunks) == 0 {
				stored = append(stored, p)
			}
		}
		for _, p := range stored {
			why := fmt.Sprintf("after Prefetch (range [0,%d), landmark at %d)", r, s.prefetchOff)
			s.readWholeOffline(out, rnd, p, "prioritized-read-not-local", why)
		}
	}

	// ---- repeated Prefetch: nothing happens ----
	s.wc.reset()
	s.rt.ResetLog()
	var perr2 error
	verifWatch(out, "prefetch-again", 60*time.Second, func() { perr2 = s.lref.Prefetch(c.cfgSize + 7) })
	n2, _ := s.rt.Snapshot()
	calls2 := calls
	if vb != nil {
		calls2, _ = vb.snapshot()
	}
	if perr2 != nil || n2 != 0 || len(calls2) != len(calls) || len(s.wc.committed()) != 0 {
		out.Fail("second-prefetch-not-a-noop", fmt.Sprintf("second Prefetch: err=%v, %d fetches, %d new blob.Cache calls, %d chunks stored", perr2, n2, len(calls2)-len(calls), len(s.wc.committed())))
	}
	cOnce := c
	cOnce.cfgSize += 7
	s.emitPrefetch(out, cOnce, vb, len(calls2), perr2, "ok", true)

	// ---- background fetch (with prioritized work arriving meanwhile), then everything is local ----
	s.wc.reset()
	var bgerr error
	stop := make(chan struct{})
	var rwg sync.WaitGroup
	if len(regs) > 0 && rnd.Bool() {
		// reads are prioritized tasks: they cancel and delay the background fetch
		p := regs[rnd.Intn(len(regs))]
		fh, errno := s.tree.Open(p)
		if errno == 0 {
			rwg.Add(1)
			go func() {
				defer rwg.Done()
				for i := 0; i < 20; i++ {
					select {
					case <-stop:
						return
					default:
					}
					verifc02.ReadFH(fh, int64(i), 5)
					time.Sleep(time.Millisecond)
				}
			}()
		}
	}
	bgFault := c.kind == "fail-blob" && rnd.Bool()
	if bgFault {
		s.rt.Set(true)
	}
	verifWatch(out, "bgfetch", 180*time.Second, func() { bgerr = s.lref.BackgroundFetch() })
	s.rt.Set(false)
	close(stop)
	rwg.Wait()
	if bgerr != nil {
		if !bgFault {
			out.Fail("bgfetch-failed-without-fault", fmt.Sprintf("BackgroundFetch failed with a healthy registry: %v [%s | %s]", bgerr, s.opts, s.cfg))
		}
		out.Emit("bgfetch fail", "failed")
		s.resync(out)
		out.Count("bgfetch-failed")
	} else {
		// concurrent reads may have stored chunks themselves: the set stored by the walk alone is
		// not observable, so the model is resynced instead of compared chunk by chunk
		out.Comment("bgfetch ok")
		s.resync(out)
		for _, p := range regs {
			s.readWholeOffline(out, rnd, p, "offline-read-failed-after-bgfetch", "after a successful BackgroundFetch")
		}
		out.Count("bgfetch-ok")
	}
	// repeated / concurrent BackgroundFetch
	s.wc.reset()
	s.rt.ResetLog()
	var wg2 sync.WaitGroup
	errs2 := make([]error, 2)
	for i := range errs2 {
		i := i
		wg2.Add(1)
		go func() { defer wg2.Done(); errs2[i] = s.lref.BackgroundFetch() }()
	}
	verifWatch(out, "bgfetch-again", 60*time.Second, wg2.Wait)
	if n3, _ := s.rt.Snapshot(); errs2[0] != nil || errs2[1] != nil || n3 != 0 || len(s.wc.committed()) != 0 {
		out.Fail("second-bgfetch-not-a-noop", fmt.Sprintf("repeated BackgroundFetch: errs=%v, %d fetches, %d chunks stored", errs2, n3, len(s.wc.committed())))
	}
	out.Emit("bgfetch ok", "ok stored=-")
	nch := 0
	for _, f := range s.files {
		nch += len(f.chunks)
	}
	out.Distinct(fmt.Sprintf("%s/%d/%d/%v/%d/%s/%s/%d", c.kind, c.cfgSize, c.threshold, s.noPrefetch, s.prefetchOff, s.opts, s.cfg, nch))
}

func verifC15Tar(rnd *verifutil.Rand) []verifc02.Ent {
	ents := verifc02.GenTar(rnd, verifc02.GenParams{MaxEntries: 10, ChunkHint: []int64{33, 64, 500}[rnd.Intn(3)], MaxFile: 4000})
	// make sure there are a few regular files of some size
	for i := 0; i < 3; i++ {
		ents = append(ents, verifc02.Ent{Name: fmt.Sprintf("data%d", i), Type: tar.TypeReg, Mode: 0o644,
			Size: rnd.Range(1, 1500), Kind: rnd.Intn(2), Salt: int64(900 + i), MTime: 1700000000})
	}
	return ents
}

// TestVerifC15 — prefetch and background fetch make later reads local; waiting is bounded.
func TestVerifC15(t *testing.T) {
	rnd := verifutil.NewRand(verifc02.MixSeed(verifutil.Seed(), 15))
	out := verifutil.OpenOut()
	defer out.Close()
	nhist := verifutil.EnvInt("VERIF_N", 40)
	kinds := []string{"normal", "normal", "normal", "fail-blob", "fail-decompress", "stall-timeout", "stall-release", "async"}
	// hand-written boundary cases first: no landmark, configured size exactly at / one past / one
	// before the first-chunk offset of each file (the filter is `offset < size`)
	for k := 0; k < 11; k++ {
		ents := []verifc02.Ent{verifReg("p", 300, 11), verifReg("d/q", 700, 12), verifReg("r", 40, 13), verifReg("s", 0, 14)}
		ents[1].Kind = 1
		opts := verifc02.BuildOpts{ChunkSize: []int{64, 0, 500}[k%3], Plain: true, Zstd: k%2 == 1}
		cfg := verifGenStackCfg(rnd)
		cfg.regChunk, cfg.verify, cfg.syncAdd, cfg.passThrough = []int64{16, 100, 4096}[k%3], true, true, false
		s, err := verifNewStack(t, ents, opts, cfg)
		if err != nil {
			out.Fail("scenario-setup-failed", fmt.Sprintf("boundary %d: %v", k, err))
			continue
		}
		var firsts []int64
		for _, f := range s.files {
			if len(f.chunks) > 0 {
				firsts = append(firsts, f.first)
			}
		}
		sort.Slice(firsts, func(i, j int) bool { return firsts[i] < firsts[j] })
		c := verifC15Case{kind: "normal", cfgSize: firsts[(k/3)%len(firsts)] + int64(k%3) - 0}
		if k%3 == 2 {
			c.cfgSize = firsts[(k/3)%len(firsts)] + 1
		} else if k%3 == 1 {
			c.cfgSize = firsts[(k/3)%len(firsts)]
		} else {
			c.cfgSize = firsts[(k/3)%len(firsts)] + 2
		}
		if k >= 9 {
			// beyond the blob: capped at the blob size
			c.cfgSize = int64(len(s.blob)) + int64(1+49*(k-9))
		}
		verifRunC15(t, out, rnd, s, c, fmt.Sprintf("boundary %d", k))
		s.close()
	}
	for h := 0; h < nhist; h++ {
		ents := verifC15Tar(rnd)
		opts := verifc02.GenBuildOpts(rnd, ents)
		switch h % 4 {
		case 0: // prefetch landmark: some prioritized files are needed
			if len(opts.Prioritized) == 0 {
				opts.Prioritized = []string{"data0", "./data2"}
			}
		case 1: // no-prefetch landmark
			opts.Prioritized = nil
		case 2: // no landmark at all
			opts.Plain, opts.Prioritized = true, nil
		}
		cfg := verifGenStackCfg(rnd)
		cfg.regChunk = []int64{16, 64, 100, 512, 4096}[rnd.Intn(5)]
		c := verifC15Case{kind: kinds[h%len(kinds)]}
		if h < len(kinds)*2 {
			// the first rounds pair every kind with every landmark situation deterministically
			c.kind = kinds[(h/4+h)%len(kinds)]
		}
		s, err := verifNewStack(t, ents, opts, cfg)
		if err != nil {
			out.Fail("stack-setup-failed", fmt.Sprintf("history %d: %v [%s | %s] prioritized=%q", h, err, opts, cfg, opts.Prioritized))
			continue
		}
		// configured prefetch size: around interesting offsets
		size := int64(len(s.blob))
		var firsts []int64
		for _, f := range s.files {
			if len(f.chunks) > 0 {
				firsts = append(firsts, f.first)
			}
		}
		sort.Slice(firsts, func(i, j int) bool { return firsts[i] < firsts[j] })
		pick := rnd.Intn(6)
		if opts.Plain {
			// without a landmark the configured size decides: favour its boundary values
			pick = []int{2, 2, 2, 2, 1, 1, 0, 4, 4, 4}[rnd.Intn(10)]
		}
		switch pick {
		case 0:
			c.cfgSize = 0
		case 1:
			c.cfgSize = size + rnd.Range(0, 100)
		case 2, 3:
			if len(firsts) > 0 {
				c.cfgSize = firsts[rnd.Intn(len(firsts))] + rnd.Range(0, 2)
			}
		default:
			c.cfgSize = rnd.Range(0, size)
		}
		if c.kind == "async" {
			r, ok := s.expectedRange(c.cfgSize)
			if ok && r > 1 {
				c.threshold = rnd.Range(1, r-1)
			} else {
				c.threshold = 1
			}
		} else if rnd.Intn(4) == 0 {
			c.threshold = rnd.Range(1, size)
		}
		s.close()
		// the threshold is part of the resolver's configuration: bring the stack up again with it
		cfg.asyncSize = c.threshold
		// prefetch_timeout_sec (whole seconds): short where a wait is meant to time out, long where
		// waiters are meant to block until the prefetch ends
		switch c.kind {
		case "stall-timeout":
			cfg.timeout = time.Second
		case "stall-release", "async":
			cfg.timeout = 30 * time.Second
		default:
			cfg.timeout = 2 * time.Second
		}
		s, err = verifNewStack(t, ents, opts, cfg)
		if err != nil {
			out.Fail("stack-setup-failed", fmt.Sprintf("history %d: %v", h, err))
			continue
		}
		verifRunC15(t, out, rnd, s, c, fmt.Sprintf("history %d", h))
		s.close()
	}
	_ = strings.Join
}
