//go:build verif

package layer

// C07 — each layer is served as a correct overlayfs lower directory of the OCI layer.
// Memory metadata store, in-package: the layer is served by newNode (exactly what layer.RootNode does)
// with a blob whose size / fetched size the harness controls.  Generator, schedule and oracle live in
// internal/verifc07 (shared with the db-store harness in the cmd module).

import (
	"fmt"
	"io"
	"syscall"
	"testing"

	"github.com/containerd/stargz-snapshotter/cache"
	"github.com/containerd/stargz-snapshotter/estargz"
	"github.com/containerd/stargz-snapshotter/fs/reader"
	"github.com/containerd/stargz-snapshotter/internal/verifc07"
	memorymetadata "github.com/containerd/stargz-snapshotter/metadata/memory"
	fusefs "github.com/hanwen/go-fuse/v2/fs"
	digest "github.com/opencontainers/go-digest"
)

type verifC07Mem struct{}

func (verifC07Mem) Name() string { return "memory" }

func (verifC07Mem) Consts() string {
	return fmt.Sprintf("wh=%s opq=%s state=%s pl=%s npl=%s toc=%s xall=%s xtrusted=%s xuser=%s val=%s ifchr=%d sfmode=%d sdmode=%d",
		verifc07.Hex(whiteoutPrefix), verifc07.Hex(whiteoutOpaqueDir), verifc07.Hex(stateDirName), verifc07.Hex(estargz.PrefetchLandmark),
		verifc07.Hex(estargz.NoPrefetchLandmark), verifc07.Hex(estargz.TOCTarName), verifc07.HexList(opaqueXattrs[OverlayOpaqueAll]),
		verifc07.HexList(opaqueXattrs[OverlayOpaqueTrusted]), verifc07.HexList(opaqueXattrs[OverlayOpaqueUser]), verifc07.Hex(opaqueXattrValue),
		syscall.S_IFCHR, statFileMode, stateDirMode)
}

func (verifC07Mem) Serve(t verifc07.T, sgz *io.SectionReader, tocDgst digest.Digest, base uint32, om string, size, fetched int64) *verifc07.Served {
	md, err := memorymetadata.NewReader(io.NewSectionReader(sgz, 0, sgz.Size()))
	if err != nil {
		t.Fatalf("memory metadata store: %v", err)
	}
	vr, err := reader.NewReader(md, cache.NewMemoryCache(), digest.FromString(""))
	if err != nil {
		t.Fatalf("reader.NewReader: %v", err)
	}
	rr, err := vr.VerifyTOC(tocDgst)
	if err != nil {
		t.Fatalf("VerifyTOC: %v", err)
	}
	opq := map[string]OverlayOpaqueType{"all": OverlayOpaqueAll, "trusted": OverlayOpaqueTrusted, "user": OverlayOpaqueUser}[om]
	blob := &testBlobState{size, fetched}
	dgst := digest.FromString(fmt.Sprintf("layer-%d-%d", base, sgz.Size()))
	mk := func() *node {
		// exactly what (*layer).RootNode does
		rn, err := newNode(dgst, rr, blob, base, opq, passThroughConfig{}, false)
		if err != nil {
			t.Fatalf("newNode: %v", err)
		}
		fusefs.NewNodeFS(rn, &fusefs.Options{}) // initializes the root inode
		return rn.(*node)
	}
	root := mk()
	return &verifc07.Served{
		Root:       root,
		FreshRoot:  func() fusefs.InodeEmbedder { return mk() },
		Meta:       rr.Metadata(),
		Digest:     dgst.String(),
		Size:       size,
		Fetched:    func() int64 { return blob.fetchedSize },
		SetFetched: func(n int64) { blob.fetchedSize = n },
		Report:     func(err error) { root.fs.s.report(err) },
		Close:      func() { md.Close() },
	}
}

// TestVerifC07 — main stream (memory metadata store).
func TestVerifC07(t *testing.T) { verifc07.Run(t, verifC07Mem{}, false) }

// TestVerifC07Findings — regression stream for the defects repaired by 545b9cc: whiteouts whose target
// begins with ".wh.", is a landmark name in the root, or is "", "." or "..".  The same oracle runs: such
// whiteouts must not be listed, and listed <=> lookupable must hold.
func TestVerifC07Findings(t *testing.T) { verifc07.Run(t, verifC07Mem{}, true) }
