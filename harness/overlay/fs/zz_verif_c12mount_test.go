//go:build verif

package fs_test

// TestVerifC12Mount: the HOLDER side of C12 (fs/fs.go) with a real kernel FUSE mount.
// Only exported API is used (fs.NewFilesystem, Mount, Check, Unmount); the layers are real eStargz
// blobs served by the in-memory registry; labels are the ones fs/source writes.  The resolver's TTL is
// 1 s (the minimum) and REAL timers fire.  Everything is read THROUGH THE KERNEL (os.ReadFile on the
// mountpoint), every kernel access is bounded by a timeout, and every mountpoint created here is
// lazily unmounted on exit, whatever happens.  Oracle only (no model stream): a mounted layer serves
// byte-exact reads — also of data never fetched before — after the cache entry expired and while other
// layers come and go; Unmount / a failed Mount give everything back after the TTL; a remount works.

import (
	"bufio"
	"context"
	"errors"
	"fmt"
	"io"
	"os"
	"path/filepath"
	"sort"
	"strings"
	"syscall"
	"testing"
	"time"

	"github.com/containerd/stargz-snapshotter/estargz"
	stargzfs "github.com/containerd/stargz-snapshotter/fs"
	fsconfig "github.com/containerd/stargz-snapshotter/fs/config"
	"github.com/containerd/stargz-snapshotter/fs/source"
	"github.com/containerd/stargz-snapshotter/internal/verifreg"
	"github.com/containerd/stargz-snapshotter/internal/verifutil"
	"github.com/containerd/stargz-snapshotter/snapshot"
	tutil "github.com/containerd/stargz-snapshotter/util/testutil"
	digest "github.com/opencontainers/go-digest"
)

const (
	verifC12MTmpPrefix = "verif-c12mnt-"
	verifC12MRef       = "reg.test/verif/c12mount:latest"
	verifC12MTTL       = 1300 * time.Millisecond // a bit more than ResolveResultEntryTTLSec = 1
	verifC12MIOTimeout = 10 * time.Second
)

type verifC12MLayer struct {
	dgst  digest.Digest
	toc   digest.Digest
	files map[string]string
	names []string // sorted
}

func verifC12MBuild(t *testing.T, rnd *verifutil.Rand, reg *verifreg.Registry, nfiles int) *verifC12MLayer {
	l := &verifC12MLayer{files: map[string]string{}}
	var ents []tutil.TarEntry
	ents = append(ents, tutil.Dir("d/"))
	for i := 0; i < nfiles; i++ {
		name := fmt.Sprintf("f%02d", i)
		if i%3 == 2 {
			name = "d/" + name
		}
		data := string(rnd.Bytes(9000 + rnd.Intn(9000))) // incompressible: every file spans its own blob chunks
		l.files[name] = data
		ents = append(ents, tutil.File(name, data))
	}
	sr, toc, err := tutil.BuildEStargz(ents, tutil.WithEStargzOptions(estargz.WithChunkSize(4096)))
	if err != nil {
		t.Fatalf("build estargz: %v", err)
	}
	data, err := io.ReadAll(sr)
	if err != nil {
		t.Fatal(err)
	}
	l.dgst, l.toc = digest.FromBytes(data), toc
	reg.AddBlob(l.dgst.String(), data)
	for n := range l.files {
		l.names = append(l.names, n)
	}
	sort.Strings(l.names)
	return l
}

func (l *verifC12MLayer) labels() map[string]string {
	return map[string]string{
		"containerd.io/snapshot/remote/stargz.reference": verifC12MRef,
		"containerd.io/snapshot/remote/stargz.digest":    l.dgst.String(),
		estargz.TOCJSONDigestAnnotation:                  l.toc.String(),
	}
}

// ---- safety: bounded kernel accesses, lazy unmounts

func verifC12MBounded[T any](f func() (T, error)) (T, error) {
	type res struct {
		v   T
		err error
	}
	ch := make(chan res, 1)
	go func() {
		v, err := f()
		ch <- res{v, err}
	}()
	select {
	case r := <-ch:
		return r.v, r.err
	case <-time.After(verifC12MIOTimeout):
		var z T
		return z, fmt.Errorf("kernel access did not return within %v", verifC12MIOTimeout)
	}
}

func verifC12MReadFile(p string) ([]byte, error) {
	return verifC12MBounded(func() ([]byte, error) { return os.ReadFile(p) })
}

func verifC12MLazyUnmount(mp string) { syscall.Unmount(mp, syscall.MNT_DETACH) }

func verifC12MMounted(prefix string) []string {
	f, err := os.Open("/proc/self/mountinfo")
	if err != nil {
		return nil
	}
	defer f.Close()
	var out []string
	sc := bufio.NewScanner(f)
	for sc.Scan() {
		fs := strings.Fields(sc.Text())
		if len(fs) > 4 && strings.Contains(fs[4], prefix) {
			out = append(out, fs[4])
		}
	}
	return out
}

func verifC12MIsMounted(mp string) bool {
	for _, m := range verifC12MMounted(verifC12MTmpPrefix) {
		if m == mp {
			return true
		}
	}
	return false
}

func verifC12MDirs(root string) []string {
	var out []string
	for _, sub := range []string{"fscache", "httpcache"} {
		ents, _ := os.ReadDir(filepath.Join(root, sub))
		for _, e := range ents {
			out = append(out, sub+"/"+e.Name())
		}
	}
	return out
}

var errVerifC12MNoFuse = errors.New("fuse unavailable")

type verifC12MEnv struct {
	t    *testing.T
	out  *verifutil.Out
	rnd  *verifutil.Rand
	reg  *verifreg.Registry
	base string
	mps  []string
	n    int
}

func (e *verifC12MEnv) mountpoint() string {
	e.n++
	mp := filepath.Join(e.base, fmt.Sprintf("mp%d", e.n))
	os.MkdirAll(mp, 0755)
	e.mps = append(e.mps, mp)
	return mp
}

func (e *verifC12MEnv) newFS() (snapshot.FileSystem, string) {
	e.n++
	root := filepath.Join(e.base, fmt.Sprintf("root%d", e.n))
	cfg := fsconfig.Config{
		ResolveResultEntryTTLSec: 1,
		NoPrefetch:               true,
		NoBackgroundFetch:        true,
		NoPrometheus:             true,
		BlobConfig: fsconfig.BlobConfig{
			CheckAlways: true, ChunkSize: 8192, FetchTimeoutSec: 10, MaxRetries: 1, MinWaitMSec: 1, MaxWaitMSec: 5,
		},
		DirectoryCacheConfig: fsconfig.DirectoryCacheConfig{SyncAdd: true},
	}
	fsys, err := stargzfs.NewFilesystem(root, cfg, stargzfs.WithGetSources(source.FromDefaultLabels(e.reg.Hosts(nil))))
	if err != nil {
		e.t.Fatalf("NewFilesystem: %v", err)
	}
	return fsys, root
}

// readAll compares one file read through the kernel with the tar.
func (e *verifC12MEnv) check(sig, what, mp string, l *verifC12MLayer, name string) {
	got, err := verifC12MReadFile(filepath.Join(mp, name))
	if err != nil {
		e.out.Fail(sig, fmt.Sprintf("%s: reading %s through the mount: %v", what, name, err))
		return
	}
	if string(got) != l.files[name] {
		s := sig
		if sig == "mounted-layer-stopped-serving" {
			s = "mounted-bytes-differ"
		}
		e.out.Fail(s, fmt.Sprintf("%s: %s through the mount has %d bytes, differs from the tar (%d bytes)", what, name, len(got), len(l.files[name])))
	}
}

func (e *verifC12MEnv) listing(what, mp string, l *verifC12MLayer) {
	ents, err := verifC12MBounded(func() ([]os.DirEntry, error) { return os.ReadDir(mp) })
	if err != nil {
		e.out.Fail("mounted-layer-stopped-serving", fmt.Sprintf("%s: ReadDir of the mountpoint: %v", what, err))
		return
	}
	have := map[string]bool{}
	for _, x := range ents {
		have[x.Name()] = true
	}
	for _, n := range l.names {
		top := strings.SplitN(n, "/", 2)[0]
		if !have[top] {
			e.out.Fail("mounted-bytes-differ", fmt.Sprintf("%s: %s missing in the listing of the mountpoint", what, top))
			return
		}
	}
}

// scenario: the whole life of one mounted layer A, with another layer B coming and going.
func (e *verifC12MEnv) scenario(idx int, a, b *verifC12MLayer) error {
	ctx := context.Background()
	tag := fmt.Sprintf("scenario %d", idx)
	e.out.Comment(tag)
	fsys, root := e.newFS()
	mpA := e.mountpoint()
	if err := fsys.Mount(ctx, mpA, a.labels()); err != nil {
		msg := strings.ToLower(err.Error())
		if idx == 0 && (errors.Is(err, syscall.EPERM) || errors.Is(err, syscall.ENODEV) ||
			strings.Contains(msg, "operation not permitted") || strings.Contains(msg, "no such device") ||
			strings.Contains(msg, "fusermount")) {
			return errVerifC12MNoFuse
		}
		e.out.Fail("remount-failed", fmt.Sprintf("%s: Mount of a good layer: %v", tag, err))
		return nil
	}
	e.out.Count("mount")
	if !verifC12MIsMounted(mpA) {
		e.out.Fail("mounted-layer-stopped-serving", tag+": Mount returned nil but the mountpoint is not in /proc/self/mountinfo")
		return nil
	}
	// split A's files: some are read now, the rest stay unfetched until after the TTL
	perm := append([]string(nil), a.names...)
	for i := len(perm) - 1; i > 0; i-- {
		j := e.rnd.Intn(i + 1)
		perm[i], perm[j] = perm[j], perm[i]
	}
	early, late := perm[:len(perm)/3], perm[len(perm)/3:]
	e.listing(tag+" after mount", mpA, a)
	for _, n := range early {
		e.check("mounted-bytes-differ", tag+" after mount", mpA, a, n)
	}
	// a second Mount on the mountpoint in use / Unmount of an unknown mountpoint: errors, no state change
	if e.rnd.Intn(2) == 0 {
		if err := fsys.Unmount(ctx, filepath.Join(e.base, "never-mounted")); err == nil {
			e.out.Fail("unknown-unmount-accepted", tag+": Unmount of a path that was never mounted returned nil")
		}
	}
	// meanwhile another layer is mounted and unmounted (cache bookkeeping runs), and the TTL passes
	mpB := e.mountpoint()
	if err := fsys.Mount(ctx, mpB, b.labels()); err != nil {
		e.out.Fail("remount-failed", fmt.Sprintf("%s: Mount of a second layer: %v", tag, err))
	} else {
		e.check("mounted-bytes-differ", tag+" second layer", mpB, b, b.names[e.rnd.Intn(len(b.names))])
		if e.rnd.Intn(2) == 0 {
			time.Sleep(verifC12MTTL / 2)
		}
		if err := fsys.Unmount(ctx, mpB); err != nil {
			e.out.Fail("leak-after-unmount", fmt.Sprintf("%s: Unmount of the second layer: %v", tag, err))
		}
		verifC12MLazyUnmount(mpB)
	}
	// failed mounts: wrong TOC digest (fails after the layer was resolved), unknown blob (404)
	bad := a.labels()
	if e.rnd.Intn(2) == 0 {
		bad = b.labels()
	}
	bad[estargz.TOCJSONDigestAnnotation] = digest.FromString(fmt.Sprintf("not the toc %d", idx)).String()
	mpBad := e.mountpoint()
	if err := fsys.Mount(ctx, mpBad, bad); err == nil {
		e.out.Fail("bad-mount-accepted", tag+": Mount with a wrong TOC digest returned nil")
		fsys.Unmount(ctx, mpBad)
		verifC12MLazyUnmount(mpBad)
	}
	e.out.Count("mount-bad-toc")
	nf := a.labels()
	nf["containerd.io/snapshot/remote/stargz.digest"] = digest.FromString(fmt.Sprintf("no such blob %d", idx)).String()
	if err := fsys.Mount(ctx, e.mountpoint(), nf); err == nil {
		e.out.Fail("bad-mount-accepted", tag+": Mount of a blob the registry does not have returned nil")
	}
	e.out.Count("mount-404")
	time.Sleep(verifC12MTTL)
	// ---- the cache entry of A has expired; A is still mounted: it must serve, also what was never fetched
	e.listing(tag+" after the TTL", mpA, a)
	for _, n := range late {
		e.check("mounted-layer-stopped-serving", tag+" after the TTL", mpA, a, n)
	}
	e.check("mounted-layer-stopped-serving", tag+" after the TTL (re-read)", mpA, a, early[0])
	if err := fsys.Check(ctx, mpA, a.labels()); err != nil {
		e.out.Fail("mounted-layer-stopped-serving", fmt.Sprintf("%s: Check of the mounted layer after the TTL: %v", tag, err))
	}
	// everything that is on disk now belongs to A (B unmounted, failed mounts expired)
	if d := verifC12MDirsAtMost(root, 2); len(d) > 2 {
		e.out.Fail("leak-after-failed-mount", fmt.Sprintf("%s: one layer is mounted but the resolver root holds %v", tag, d))
	}
	// ---- release
	if err := fsys.Unmount(ctx, mpA); err != nil {
		e.out.Fail("leak-after-unmount", fmt.Sprintf("%s: Unmount: %v", tag, err))
	}
	verifC12MLazyUnmount(mpA)
	if err := fsys.Check(ctx, mpA, a.labels()); err == nil {
		e.out.Fail("leak-after-unmount", tag+": Check still succeeds after Unmount (the layer is still registered)")
	}
	if err := fsys.Unmount(ctx, mpA); err == nil {
		e.out.Fail("leak-after-unmount", tag+": a second Unmount of the same mountpoint returned nil")
	}
	time.Sleep(verifC12MTTL)
	if d := verifC12MDirsAtMost(root, 0); len(d) != 0 {
		e.out.Fail("leak-after-unmount", fmt.Sprintf("%s: everything is unmounted and expired but the resolver root holds %v", tag, d))
	}
	// ---- and it mounts afresh
	mpA2 := e.mountpoint()
	if err := fsys.Mount(ctx, mpA2, a.labels()); err != nil {
		e.out.Fail("remount-failed", fmt.Sprintf("%s: Mount of the same layer after Unmount: %v", tag, err))
	} else {
		e.check("remount-failed", tag+" remount", mpA2, a, late[len(late)-1])
		if err := fsys.Unmount(ctx, mpA2); err != nil {
			e.out.Fail("leak-after-unmount", fmt.Sprintf("%s: Unmount of the remount: %v", tag, err))
		}
		verifC12MLazyUnmount(mpA2)
	}
	e.out.Count("scenario")
	e.out.Distinct(fmt.Sprintf("mount-scenario-%d-%d-%d", idx, len(early), len(late)))
	return nil
}

// twice: a second Mount on a mountpoint that is in use.  CANDIDATE FINDING of the unchanged tree, kept
// in its own test (own filesystem, own stream) so that it cannot mask or cause any other verdict:
// fs.Mount does not look at fs.layer[mountpoint]; the second Mount succeeds, stacks a second FUSE
// mount on the directory and overwrites the registered layer, whose reference is then never released
// (Unmount closes only the second one): the first layer and its two cache directories stay for ever.
func (e *verifC12MEnv) twice(a *verifC12MLayer) {
	ctx := context.Background()
	e.out.Comment("second Mount on a mountpoint in use")
	fsys, root := e.newFS()
	mp := e.mountpoint()
	if err := fsys.Mount(ctx, mp, a.labels()); err != nil {
		e.out.Fail("remount-failed", fmt.Sprintf("twice: first Mount: %v", err))
		return
	}
	e.check("mounted-bytes-differ", "twice: first mount", mp, a, a.names[0])
	time.Sleep(verifC12MTTL) // the second Mount resolves a new instance
	err2 := fsys.Mount(ctx, mp, a.labels())
	e.check("mounted-layer-stopped-serving", "twice: after the second Mount", mp, a, a.names[1])
	// release whatever is mounted there, as often as something is
	for i := 0; i < 3; i++ {
		fsys.Unmount(ctx, mp)
		verifC12MLazyUnmount(mp)
	}
	time.Sleep(verifC12MTTL)
	if d := verifC12MDirsAtMost(root, 0); len(d) != 0 {
		e.out.Fail("double-mount-leaks-layer", fmt.Sprintf("second Mount on a mountpoint in use returned %v; after unmounting everything and the TTL the resolver root still holds %v", err2, d))
	}
	e.out.Count("twice")
}

// verifC12MDirsAtMost polls the resolver root until it holds at most n directories or 5 s have passed:
// the TTL timers are real, and under machine load an expiry or a directory removal can be late by far
// more than the sleep above; only what is still there afterwards is a leak.
func verifC12MDirsAtMost(root string, n int) []string {
	var d []string
	for i := 0; i < 50; i++ {
		d = verifC12MDirs(root)
		if len(d) <= n {
			return d
		}
		time.Sleep(100 * time.Millisecond)
	}
	return d
}

func TestVerifC12MountTwice(t *testing.T) {
	verifC12MRun(t, func(e *verifC12MEnv) error {
		e.twice(verifC12MBuild(t, e.rnd, e.reg, 4))
		return nil
	})
}

func TestVerifC12Mount(t *testing.T) {
	verifC12MRun(t, func(e *verifC12MEnv) error {
		n := verifutil.EnvInt("VERIF_N", 2)
		for i := 0; i < n; i++ {
			a := verifC12MBuild(t, e.rnd, e.reg, 6+e.rnd.Intn(4))
			b := verifC12MBuild(t, e.rnd, e.reg, 3)
			if err := e.scenario(i, a, b); err != nil {
				return err
			}
		}
		return nil
	})
}

func verifC12MRun(t *testing.T, body func(e *verifC12MEnv) error) {
	out := verifutil.OpenOut()
	defer out.Close()
	out.Comment("oracle-only pass over fs.Mount/Check/Unmount with a real FUSE mount; nothing to compare with the model")
	out.Emit("new", "ok")
	// leftovers of an earlier, killed run
	for _, m := range verifC12MMounted(verifC12MTmpPrefix) {
		verifC12MLazyUnmount(m)
	}
	if f, err := os.OpenFile("/dev/fuse", os.O_RDWR, 0); err != nil {
		out.Count("fuse-unavailable")
		out.Comment("fuse-unavailable: " + err.Error())
		return
	} else {
		f.Close()
	}
	work := os.Getenv("VERIF_WORK")
	if work == "" {
		work = os.TempDir()
	}
	base, err := os.MkdirTemp(work, verifC12MTmpPrefix)
	if err != nil {
		t.Fatal(err)
	}
	e := &verifC12MEnv{t: t, out: out, rnd: verifutil.NewRand(verifutil.Seed()), reg: verifreg.New(), base: base}
	t.Cleanup(func() {
		for _, mp := range e.mps {
			verifC12MLazyUnmount(mp)
		}
		for _, m := range verifC12MMounted(filepath.Base(base)) {
			verifC12MLazyUnmount(m)
		}
		os.RemoveAll(base)
	})
	if err := body(e); errors.Is(err, errVerifC12MNoFuse) {
		out.Count("fuse-unavailable")
		out.Comment("fuse-unavailable: the first Mount was refused by the kernel")
		return
	}
	if left := verifC12MMounted(filepath.Base(base)); len(left) != 0 {
		out.Fail("leak-after-unmount", fmt.Sprintf("mountpoints still mounted at the end: %v", left))
	}
}
