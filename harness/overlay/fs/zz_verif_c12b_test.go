//go:build verif

package fs

// TestVerifC12b: the HOLDER side of C12 (fs/fs.go Mount / Check / Unmount and fs.layer) compared op by
// op with the Lean model SV.Model.FsMount (driver ops `fsm-…`), plus an independent oracle.
//
// The REAL filesystem object (NewFilesystem) is driven: real layer.Resolver with real cache
// directories, real eStargz blobs served by the scripted in-memory registry, a real kernel FUSE mount
// per successful Mount.  The resolver's TTL is huge: expiry is an operation of the history (the timer
// function is run through the cacheutil shim).  Failure oracles are injected per layer digest through
// the registry script (connectivity check of the cached layer / cached blob, blob resolution, data
// fetches) and the metadata store (TOC read); the verify decision through the labels and the two
// config flags; a failing FUSE mount by a mountpoint directory that does not exist.
//
// This is the ONE file of C12 that names unexported identifiers of package fs (filesystem.layer,
// layerMu, resolver, disableVerification, allowNoVerification); checks/C12.py falls back to a build
// without it (evidence note) when a refactor renames them.
//
// Oracle (model-free): the harness keeps its own set `live` (Mount returned nil, not unmounted since)
// and evaluates on the implementation after every operation
//   held => open          every live mountpoint is in fs.layer, its layer passes Check() and (after
//                         expiry ops) serves a byte-exact read through the kernel;
//   failed Mount          leaves fs.layer as it was — also when the failing step is the FUSE mount, after the
//                         entry was registered (sig failed-fuse-mount-leaves-stale-entry: the defect repaired
//                         by 62b0917; regression scenario TestVerifC12bStaleEntry);
//   Unmount / Check       of an unknown mountpoint: error, nothing changes; Unmount of a known one
//                         removes exactly that entry; Check changes nothing;
//   accounting            for every cached layer: unreleased references (refCounts-1, through the shim)
//                         == number of live mountpoints holding that instance; #fscache directories ==
//                         |cached instances ∪ instances of live mountpoints|; after the final drain
//                         (unmount all, expire all) both directories are empty.
// Histories with a second Mount on a mountpoint in use (known leak, DESIGN 11.7) are generated in a
// labelled class ("remount"); there equality is weakened to >= and the leak is counted, not failed.

import (
	"bufio"
	"context"
	"errors"
	"fmt"
	"io"
	"net/http"
	"os"
	"path/filepath"
	"reflect"
	"sort"
	"strings"
	"sync"
	"syscall"
	"testing"
	"time"
	"unsafe"

	"github.com/containerd/stargz-snapshotter/estargz"
	fsconfig "github.com/containerd/stargz-snapshotter/fs/config"
	"github.com/containerd/stargz-snapshotter/fs/layer"
	"github.com/containerd/stargz-snapshotter/fs/remote"
	"github.com/containerd/stargz-snapshotter/fs/source"
	"github.com/containerd/stargz-snapshotter/internal/verifreg"
	"github.com/containerd/stargz-snapshotter/internal/verifutil"
	"github.com/containerd/stargz-snapshotter/metadata"
	memorymetadata "github.com/containerd/stargz-snapshotter/metadata/memory"
	"github.com/containerd/stargz-snapshotter/util/cacheutil"
	"github.com/containerd/stargz-snapshotter/util/namedmutex"
	tutil "github.com/containerd/stargz-snapshotter/util/testutil"
	digest "github.com/opencontainers/go-digest"
)

const (
	verifC12bTmpPrefix = "verif-c12b-"
	verifC12bRef       = "reg.test/verif/c12b:latest"
	verifC12bNLayers   = 3
	verifC12bNMps      = 4
)

type verifC12bLayer struct {
	dgst, toc digest.Digest
	file      string
	content   string
}

type verifC12bPlan struct {
	kind         int // 1: Resolve with oracle o; 2: Check with probe/reg
	o            [4]bool
	lUsed, bUsed bool
	probe, reg   bool
	probeUsed    bool
}

type verifC12bNeigh struct {
	name int
	o    [4]bool
}

type verifC12bEnv struct {
	t      *testing.T
	out    *verifutil.Out
	rnd    *verifutil.Rand
	reg    *verifreg.Registry
	base   string
	layers []*verifC12bLayer
	byToc  map[digest.Digest]*verifC12bLayer

	fs     *filesystem
	root   string
	fsN    int
	caches []*cacheutil.TTLCache
	rlock  *namedmutex.NamedMutex

	mu    sync.Mutex
	plans map[string]*verifC12bPlan // by layer digest

	live    map[int]bool // Mount returned nil and no Unmount since
	remount bool         // this history contains a Mount on a mountpoint in use (labelled class)
	nofuse  bool
}

// ---------------------------------------------------------------- set-up

func verifC12bBuild(t *testing.T, rnd *verifutil.Rand, reg *verifreg.Registry, idx int) *verifC12bLayer {
	var ents []tutil.TarEntry
	l := &verifC12bLayer{file: fmt.Sprintf("probe%d", idx)}
	for i := 0; i < 5; i++ {
		data := string(rnd.Bytes(9000 + rnd.Intn(6000))) // incompressible: the layer is never fully fetched
		name := fmt.Sprintf("f%d-%d", idx, i)
		if i == 2 {
			name, l.content = l.file, data
		}
		ents = append(ents, tutil.File(name, data))
	}
	sr, toc, err := tutil.BuildEStargz(ents, tutil.WithEStargzOptions(estargz.WithChunkSize(4096)))
	if err != nil {
		t.Fatalf("build estargz: %v", err)
	}
	data, err := io.ReadAll(sr)
	if err != nil {
		t.Fatal(err)
	}
	l.dgst, l.toc = digest.FromBytes(data), toc
	reg.AddBlob(l.dgst.String(), data)
	return l
}

func (e *verifC12bEnv) mpPath(mp int) string { return filepath.Join(e.base, fmt.Sprintf("fs%d-mp%d", e.fsN, mp)) }

func (e *verifC12bEnv) mpOf(path string) int {
	var a, b int
	if _, err := fmt.Sscanf(filepath.Base(path), "fs%d-mp%d", &a, &b); err != nil {
		return -1
	}
	return b
}

// store: the real in-memory metadata store; fails when the oracle of that layer says the TOC read fails.
func (e *verifC12bEnv) store(sr *io.SectionReader, opts ...metadata.Option) (metadata.Reader, error) {
	mr, err := memorymetadata.NewReader(sr, opts...)
	if err != nil {
		return nil, err
	}
	if l := e.byToc[mr.TOCDigest()]; l != nil {
		e.mu.Lock()
		p := e.plans[l.dgst.String()]
		fail := p != nil && p.kind == 1 && !p.o[3]
		e.mu.Unlock()
		if fail {
			mr.Close()
			return nil, fmt.Errorf("verif: injected metadata failure")
		}
	}
	return mr, nil
}

func (e *verifC12bEnv) newFS() {
	e.fsN++
	e.root = filepath.Join(e.base, fmt.Sprintf("root%d", e.fsN))
	cfg := fsconfig.Config{
		ResolveResultEntryTTLSec: 1000000, // real timers never fire; expiry is an operation of the history
		NoPrefetch:               true,
		NoBackgroundFetch:        true,
		NoPrometheus:             true,
		BlobConfig: fsconfig.BlobConfig{
			CheckAlways: true, ChunkSize: 8192, FetchTimeoutSec: 10, MaxRetries: 1, MinWaitMSec: 1, MaxWaitMSec: 2,
		},
		DirectoryCacheConfig: fsconfig.DirectoryCacheConfig{SyncAdd: true},
	}
	fsys, err := NewFilesystem(e.root, cfg, WithGetSources(source.FromDefaultLabels(e.reg.Hosts(nil))), WithMetadataStore(e.store))
	if err != nil {
		e.t.Fatalf("NewFilesystem: %v", err)
	}
	e.fs = fsys.(*filesystem)
	e.caches, e.rlock = nil, nil
	wantC := reflect.TypeOf((*cacheutil.TTLCache)(nil))
	wantL := reflect.TypeOf((*namedmutex.NamedMutex)(nil))
	v := reflect.ValueOf(e.fs.resolver).Elem()
	for i := 0; i < v.NumField(); i++ {
		f := v.Field(i)
		if f.Kind() != reflect.Ptr || f.IsNil() {
			continue
		}
		switch f.Type() {
		case wantC:
			e.caches = append(e.caches, (*cacheutil.TTLCache)(unsafe.Pointer(f.Pointer())))
		case wantL:
			e.rlock = (*namedmutex.NamedMutex)(unsafe.Pointer(f.Pointer()))
		}
	}
	if len(e.caches) != 2 || e.rlock == nil {
		e.t.Fatalf("harness: expected the resolver to own 2 TTL caches and a named mutex, found %d / %v", len(e.caches), e.rlock != nil)
	}
	e.mu.Lock()
	e.plans = map[string]*verifC12bPlan{}
	e.mu.Unlock()
	e.live = map[int]bool{}
	e.remount = false
}

// role of a cache, read off a cached value: the blob cache stores remote.Blob values.
func verifC12bIsBlobCache(c *cacheutil.TTLCache) (isBlob, known bool) {
	for _, k := range c.VerifC12Keys() {
		if v, ok := c.VerifC12Peek(k); ok {
			_, isBlob = v.(remote.Blob)
			return isBlob, true
		}
	}
	return false, false
}

// keys cached for a layer digest in the cache of the given role.
func (e *verifC12bEnv) keys(dgst string, blob bool) (c *cacheutil.TTLCache, keys []string) {
	for _, x := range e.caches {
		if isBlob, known := verifC12bIsBlobCache(x); known && isBlob == blob {
			for _, k := range x.VerifC12Keys() {
				if strings.HasSuffix(k, dgst) {
					keys = append(keys, k)
				}
			}
			return x, keys
		}
	}
	return nil, nil
}

func (e *verifC12bEnv) cached(dgst string, blob bool) bool {
	_, k := e.keys(dgst, blob)
	return len(k) > 0
}

// script answers one registry request according to the plan of the request's layer digest.
func (e *verifC12bEnv) script(req *http.Request, onCDN bool, seq int) verifreg.Mode {
	idx := strings.LastIndex(req.URL.Path, "/blobs/")
	if idx < 0 {
		return verifreg.Multi
	}
	dg := req.URL.Path[idx+len("/blobs/"):]
	e.mu.Lock()
	defer e.mu.Unlock()
	p := e.plans[dg]
	if p == nil {
		return verifreg.Multi
	}
	fetch := req.Header.Get("Accept-Encoding") == "identity"
	switch p.kind {
	case 1:
		if fetch {
			if !p.o[3] {
				return verifreg.ServerErr
			}
			return verifreg.Multi
		}
		ok := p.o[2]
		if !p.lUsed && e.cached(dg, false) {
			p.lUsed = true
			ok = p.o[0]
		} else if !p.bUsed && e.cached(dg, true) {
			p.lUsed, p.bUsed = true, true
			ok = p.o[1]
		} else {
			p.lUsed, p.bUsed = true, true
		}
		if !ok {
			return verifreg.ServerErr
		}
	case 2:
		if fetch {
			return verifreg.Multi
		}
		if !p.probeUsed {
			p.probeUsed = true
			if !p.probe {
				return verifreg.ServerErr
			}
			return verifreg.Multi
		}
		if !p.reg {
			return verifreg.ServerErr
		}
	}
	return verifreg.Multi
}

func (e *verifC12bEnv) setPlans(m map[string]*verifC12bPlan) {
	e.mu.Lock()
	e.plans = m
	e.mu.Unlock()
}

// ---------------------------------------------------------------- observation

func verifC12bIdentity(l layer.Layer) uintptr {
	v := reflect.ValueOf(l)
	if v.Kind() == reflect.Ptr && !v.IsNil() {
		if s := v.Elem(); s.Kind() == reflect.Struct {
			for i := 0; i < s.NumField(); i++ {
				f := s.Field(i)
				if f.Kind() == reflect.Interface && !f.IsNil() {
					f = f.Elem()
				}
				if f.Kind() == reflect.Ptr && !f.IsNil() && f.Elem().Kind() == reflect.Struct {
					return f.Pointer()
				}
			}
		}
		return v.Pointer()
	}
	return 0
}

type verifC12bEntry struct {
	mp int
	l  layer.Layer
	id uintptr
}

// snapshot of fs.layer, sorted by mountpoint.
func (e *verifC12bEnv) snapshot() []verifC12bEntry {
	e.fs.layerMu.Lock()
	var out []verifC12bEntry
	for p, l := range e.fs.layer {
		out = append(out, verifC12bEntry{mp: e.mpOf(p), l: l, id: verifC12bIdentity(l)})
	}
	e.fs.layerMu.Unlock()
	sort.Slice(out, func(i, j int) bool { return out[i].mp < out[j].mp })
	return out
}

func verifC12bSnapStr(s []verifC12bEntry) string {
	var w []string
	for _, x := range s {
		w = append(w, fmt.Sprintf("%d:%x", x.mp, x.id))
	}
	return strings.Join(w, ",")
}

func (e *verifC12bEnv) inMap(mp int) bool {
	for _, x := range e.snapshot() {
		if x.mp == mp {
			return true
		}
	}
	return false
}

func (e *verifC12bEnv) dirs(sub string) int {
	ents, _ := os.ReadDir(filepath.Join(e.root, sub))
	return len(ents)
}

func (e *verifC12bEnv) kernelMounts() map[int]int {
	out := map[int]int{}
	f, err := os.Open("/proc/self/mountinfo")
	if err != nil {
		return out
	}
	defer f.Close()
	sc := bufio.NewScanner(f)
	pre := filepath.Join(e.base, fmt.Sprintf("fs%d-mp", e.fsN))
	for sc.Scan() {
		w := strings.Fields(sc.Text())
		if len(w) > 4 && strings.HasPrefix(w[4], pre) {
			out[e.mpOf(w[4])]++
		}
	}
	return out
}

func (e *verifC12bEnv) kernelTotal() int {
	n := 0
	for _, c := range e.kernelMounts() {
		n += c
	}
	return n
}

func verifC12bB(b bool) string {
	if b {
		return "1"
	}
	return "0"
}

func verifC12bBits(o [4]bool) string {
	return verifC12bB(o[0]) + verifC12bB(o[1]) + verifC12bB(o[2]) + verifC12bB(o[3])
}

// tail: the state as the driver prints it (registry up while the entries are probed).
func (e *verifC12bEnv) tail() string {
	snap := e.snapshot()
	var groups []uintptr
	var w []string
	for _, x := range snap {
		g := -1
		for i, id := range groups {
			if id == x.id {
				g = i
			}
		}
		if g < 0 {
			groups = append(groups, x.id)
			g = len(groups) - 1
		}
		w = append(w, fmt.Sprintf("%d:%d:%s", x.mp, g, verifC12bB(x.l.Check() == nil)))
	}
	m := "-"
	if len(w) > 0 {
		m = strings.Join(w, ",")
	}
	return fmt.Sprintf(" m=%s fs=%d http=%d k=%d", m, e.dirs("fscache"), e.dirs("httpcache"), e.kernelTotal())
}

// refsOK: for every cached layer, unreleased references == live mountpoints holding that instance
// (>= in the remount class); returns a description of the first difference.
func (e *verifC12bEnv) refsOK() (bool, string) {
	snap := e.snapshot()
	for _, c := range e.caches {
		if isBlob, known := verifC12bIsBlobCache(c); !known || isBlob {
			continue
		}
		for _, k := range c.VerifC12Keys() {
			v, ok := c.VerifC12Peek(k)
			if !ok {
				continue
			}
			h, ok := c.VerifC12bHolders(k)
			if !ok {
				continue
			}
			id := reflect.ValueOf(v).Pointer()
			want := 0
			for _, x := range snap {
				if x.id == id && e.live[x.mp] {
					want++
				}
			}
			if h != want && !(e.remount && h > want) {
				return false, fmt.Sprintf("cached layer %s has %d unreleased references, %d live mountpoints hold it", k[len(k)-12:], h, want)
			}
		}
	}
	return true, ""
}

// settle waits for the pre-resolution goroutines of the Mount just made: each neighbour's Resolve must
// have reached the registry (CheckAlways: every Resolve, hit or miss, asks the registry), no Resolve is in
// flight any more, and the reference accounting has come to rest.
func (e *verifC12bEnv) settle(what string, logFrom int, neigh []string) {
	deadline := time.Now().Add(20 * time.Second)
	for _, dg := range neigh {
		for {
			seen := false
			lg := e.reg.Log()
			for _, r := range lg[logFrom:] {
				if strings.HasSuffix(r.Path, dg) {
					seen = true
					break
				}
			}
			if seen {
				break
			}
			if time.Now().After(deadline) {
				e.out.Fail("preresolve-missing", what+": a neighbouring layer of the manifest was never resolved: "+dg)
				break
			}
			time.Sleep(200 * time.Microsecond)
		}
	}
	for !e.rlock.VerifC12bIdle() && time.Now().Before(deadline) {
		time.Sleep(200 * time.Microsecond)
	}
	limit := time.Now().Add(3 * time.Second)
	for {
		if ok, _ := e.refsOK(); ok || time.Now().After(limit) {
			break
		}
		time.Sleep(200 * time.Microsecond)
	}
	e.setPlans(map[string]*verifC12bPlan{})
}

// oracle evaluated after every operation (registry up).
func (e *verifC12bEnv) oracle(what string, readThrough bool) {
	snap := e.snapshot()
	ids := map[uintptr]bool{}
	for mp := range e.live {
		var ent *verifC12bEntry
		for i := range snap {
			if snap[i].mp == mp {
				ent = &snap[i]
			}
		}
		if ent == nil {
			e.out.Fail("mounted-entry-lost", fmt.Sprintf("%s: mountpoint %d is mounted but fs.layer has no entry for it", what, mp))
			continue
		}
		ids[ent.id] = true
		if err := ent.l.Check(); err != nil {
			e.out.Fail("mounted-layer-not-open", fmt.Sprintf("%s: the layer of mounted mountpoint %d fails Check() with the registry up: %v", what, mp, err))
		}
		if readThrough && e.kernelMounts()[mp] == 1 {
			lay := e.layerOfEntry(ent)
			if lay != nil {
				got, err := verifC12bReadFile(filepath.Join(e.mpPath(mp), lay.file))
				if err != nil {
					e.out.Fail("mounted-layer-stopped-serving", fmt.Sprintf("%s: reading through mountpoint %d: %v", what, mp, err))
				} else if string(got) != lay.content {
					e.out.Fail("mounted-bytes-differ", fmt.Sprintf("%s: %s through mountpoint %d differs from the tar", what, lay.file, mp))
				}
			}
		}
	}
	if ok, why := e.refsOK(); !ok {
		e.out.Fail("holder-refs-mismatch", what+": "+why)
	}
	// directories: one fscache directory per open layer = cached or held by a live mountpoint
	for _, c := range e.caches {
		if isBlob, known := verifC12bIsBlobCache(c); known && !isBlob {
			for _, k := range c.VerifC12Keys() {
				if v, ok := c.VerifC12Peek(k); ok {
					ids[reflect.ValueOf(v).Pointer()] = true
				}
			}
		}
	}
	if n := e.dirs("fscache"); n != len(ids) && !(e.remount && n > len(ids)) {
		sig := "layer-leak"
		if n < len(ids) {
			sig = "held-layer-closed"
		}
		e.out.Fail(sig, fmt.Sprintf("%s: %d fscache directories but %d layer instances are cached or held by a mounted mountpoint", what, n, len(ids)))
	}
}

func (e *verifC12bEnv) layerOfEntry(ent *verifC12bEntry) *verifC12bLayer {
	d := ent.l.Info().Digest
	for _, l := range e.layers {
		if l.dgst == d {
			return l
		}
	}
	return nil
}

func verifC12bReadFile(p string) ([]byte, error) {
	type res struct {
		b   []byte
		err error
	}
	ch := make(chan res, 1)
	go func() {
		b, err := os.ReadFile(p)
		ch <- res{b, err}
	}()
	select {
	case r := <-ch:
		return r.b, r.err
	case <-time.After(10 * time.Second):
		return nil, fmt.Errorf("kernel access did not return within 10s")
	}
}

func verifC12bRes(err error) string {
	if err == nil {
		return "ok"
	}
	return "err"
}

// ---------------------------------------------------------------- operations

var errVerifC12bNoFuse = errors.New("fuse unavailable")

func (e *verifC12bEnv) opMount(mp, name int, o [4]bool, dis, allow bool, toc byte, skip, fuse bool, neigh []verifC12bNeigh) error {
	tgt := e.layers[name]
	labels := map[string]string{
		"containerd.io/snapshot/remote/stargz.reference": verifC12bRef,
		"containerd.io/snapshot/remote/stargz.digest":    tgt.dgst.String(),
	}
	plans := map[string]*verifC12bPlan{tgt.dgst.String(): {kind: 1, o: o}}
	var ns, ls, waitFor []string
	for _, n := range neigh {
		ns = append(ns, fmt.Sprintf("%d:%s", n.name, verifC12bBits(n.o)))
		d := e.layers[n.name].dgst.String()
		ls = append(ls, d)
		if n.name != name {
			plans[d] = &verifC12bPlan{kind: 1, o: n.o}
			waitFor = append(waitFor, d)
		}
	}
	if len(ls) > 0 {
		labels["containerd.io/snapshot/remote/stargz.layers"] = strings.Join(ls, ",")
	}
	switch toc {
	case 'g':
		labels[estargz.TOCJSONDigestAnnotation] = tgt.toc.String()
	case 'w':
		labels[estargz.TOCJSONDigestAnnotation] = digest.FromString("not the toc of this layer").String()
	case 'u':
		labels[estargz.TOCJSONDigestAnnotation] = "this is not a digest"
	}
	if skip {
		labels[fsconfig.TargetSkipVerifyLabel] = "true"
	}
	e.fs.disableVerification, e.fs.allowNoVerification = dis, allow
	path := e.mpPath(mp)
	if fuse {
		os.MkdirAll(path, 0755)
	} else {
		os.Remove(path) // the FUSE mount step must fail: no such directory
	}
	nstr := "-"
	if len(ns) > 0 {
		nstr = strings.Join(ns, ",")
	}
	op := fmt.Sprintf("fsm-mount %d %d %s %s%s %c %s %s %s", mp, name, verifC12bBits(o), verifC12bB(dis), verifC12bB(allow), toc, verifC12bB(skip), verifC12bB(fuse), nstr)
	what := op
	before := e.snapshot()
	wasInMap := e.inMap(mp)
	kBefore := e.kernelMounts()[mp]
	e.setPlans(plans)
	logFrom := len(e.reg.Log())
	t0 := time.Now()
	err := e.fs.Mount(context.Background(), path, labels)
	if d := time.Since(t0); d > 200*time.Millisecond && os.Getenv("VERIF_C12B_TIMING") != "" {
		fmt.Fprintf(os.Stderr, "SLOW mount %v: %s -> %v\n", d, op, err)
	}
	if err != nil && !e.nofuse && e.fsN == 1 && len(e.live) == 0 && fuse {
		msg := strings.ToLower(err.Error())
		if errors.Is(err, syscall.EPERM) || errors.Is(err, syscall.ENODEV) || strings.Contains(msg, "operation not permitted") ||
			strings.Contains(msg, "no such device") || strings.Contains(msg, "fusermount") {
			e.setPlans(map[string]*verifC12bPlan{})
			return errVerifC12bNoFuse
		}
	}
	if err == nil {
		e.live[mp] = true
	}
	t1 := time.Now()
	e.settle(what, logFrom, waitFor)
	if d := time.Since(t1); d > 200*time.Millisecond && os.Getenv("VERIF_C12B_TIMING") != "" {
		fmt.Fprintf(os.Stderr, "SLOW settle %v: %s\n", d, op)
	}
	after := e.snapshot()
	if err == nil {
		e.live[mp] = true
		e.out.Count("mount-ok")
		if !e.inMap(mp) {
			e.out.Fail("mounted-entry-lost", what+": Mount returned nil but fs.layer has no entry for the mountpoint")
		}
		if k := e.kernelMounts()[mp]; k != kBefore+1 {
			e.out.Fail("mount-not-in-kernel", fmt.Sprintf("%s: Mount returned nil; the kernel has %d mounts on the mountpoint, %d before", what, k, kBefore))
		}
		if !fuse {
			e.out.Fail("bad-mount-accepted", what+": Mount on a mountpoint directory that does not exist returned nil")
		}
		if toc == 'w' && !dis || toc == 'u' && !dis || toc == 'a' && !dis && !(skip && allow) {
			e.out.Fail("bad-mount-accepted", what+": Mount without a valid verification decision returned nil")
		}
		if wasInMap {
			e.out.Count("remount-accepted")
		}
	} else {
		e.out.Count("mount-err")
		if wasInMap {
			// a failed Mount over an entry in use: whatever was there must still be held by its holder
			e.out.Count("remount-failed")
		}
		if verifC12bSnapStr(before) != verifC12bSnapStr(after) {
			sig := "failed-mount-changed-map"
			if !fuse && e.inMap(mp) {
				// the defect repaired by 62b0917: the entry registered before the failing FUSE step stayed
				sig = "failed-fuse-mount-leaves-stale-entry"
			}
			e.out.Fail(sig, fmt.Sprintf("%s: Mount failed (%v) but fs.layer changed: %s -> %s", what, err, verifC12bSnapStr(before), verifC12bSnapStr(after)))
		}
		if !fuse {
			e.out.Count("mount-fuse-failed")
		}
		if k := e.kernelMounts()[mp]; k != kBefore {
			e.out.Fail("failed-mount-left-kernel-mount", fmt.Sprintf("%s: Mount failed but the kernel has %d mounts on the mountpoint, %d before", what, k, kBefore))
		}
	}
	e.oracle(what, false)
	e.out.Emit(op, verifC12bRes(err)+e.tail())
	return nil
}

func (e *verifC12bEnv) opMountNoSrc(mp int) {
	before := e.snapshot()
	err := e.fs.Mount(context.Background(), e.mpPath(mp), map[string]string{"containerd.io/snapshot/remote/stargz.digest": e.layers[0].dgst.String()})
	if err == nil {
		e.out.Fail("bad-mount-accepted", "Mount without a reference label returned nil")
	}
	if verifC12bSnapStr(before) != verifC12bSnapStr(e.snapshot()) {
		e.out.Fail("failed-mount-changed-map", "Mount without sources changed fs.layer")
	}
	e.oracle("mount-nosrc", false)
	r := "err-src"
	if err == nil {
		r = "ok"
	}
	e.out.Emit(fmt.Sprintf("fsm-mount-nosrc %d", mp), r+e.tail())
}

func (e *verifC12bEnv) opCheck(mp int, probe, reg bool) {
	op := fmt.Sprintf("fsm-check %d %s %s", mp, verifC12bB(probe), verifC12bB(reg))
	before := e.snapshot()
	labels := map[string]string{"containerd.io/snapshot/remote/stargz.reference": verifC12bRef}
	plans := map[string]*verifC12bPlan{}
	for _, x := range before {
		if x.mp == mp {
			d := x.l.Info().Digest.String()
			labels["containerd.io/snapshot/remote/stargz.digest"] = d
			plans[d] = &verifC12bPlan{kind: 2, probe: probe, reg: reg}
		}
	}
	if _, ok := labels["containerd.io/snapshot/remote/stargz.digest"]; !ok {
		labels["containerd.io/snapshot/remote/stargz.digest"] = e.layers[0].dgst.String()
	}
	e.setPlans(plans)
	t0 := time.Now()
	err := e.fs.Check(context.Background(), e.mpPath(mp), labels)
	if d := time.Since(t0); d > 200*time.Millisecond && os.Getenv("VERIF_C12B_TIMING") != "" {
		fmt.Fprintf(os.Stderr, "SLOW check %v: %s\n", d, op)
	}
	e.setPlans(map[string]*verifC12bPlan{})
	if verifC12bSnapStr(before) != verifC12bSnapStr(e.snapshot()) {
		e.out.Fail("check-changed-map", op+": Check changed fs.layer")
	}
	if len(plans) == 0 && err == nil {
		e.out.Fail("unknown-check-accepted", op+": Check of a mountpoint that is not registered returned nil")
	}
	if e.live[mp] && (probe || reg) && err != nil {
		e.out.Fail("mounted-layer-not-open", fmt.Sprintf("%s: Check of a mounted layer failed although the registry answered: %v", op, err))
	}
	e.out.Count("check")
	e.oracle(op, false)
	e.out.Emit(op, verifC12bRes(err)+e.tail())
}

func (e *verifC12bEnv) opUnmount(mp int) {
	op := fmt.Sprintf("fsm-unmount %d", mp)
	before := e.snapshot()
	known := e.inMap(mp)
	kBefore := e.kernelMounts()[mp]
	t0 := time.Now()
	err := e.fs.Unmount(context.Background(), e.mpPath(mp))
	if d := time.Since(t0); d > 200*time.Millisecond && os.Getenv("VERIF_C12B_TIMING") != "" {
		fmt.Fprintf(os.Stderr, "SLOW unmount %v: %s\n", d, op)
	}
	after := e.snapshot()
	var want []verifC12bEntry
	for _, x := range before {
		if x.mp != mp {
			want = append(want, x)
		}
	}
	if !known {
		if err == nil {
			e.out.Fail("unknown-unmount-accepted", op+": Unmount of a mountpoint that is not registered returned nil")
		}
		if verifC12bSnapStr(before) != verifC12bSnapStr(after) || e.kernelMounts()[mp] != kBefore {
			e.out.Fail("unknown-unmount-changed-state", op+": Unmount of an unknown mountpoint changed fs.layer or the mount table")
		}
	} else {
		if verifC12bSnapStr(want) != verifC12bSnapStr(after) {
			e.out.Fail("unmount-wrong-entries", fmt.Sprintf("%s: fs.layer %s -> %s", op, verifC12bSnapStr(before), verifC12bSnapStr(after)))
		}
		// Unmount releases WITH eviction (layerRef.Close): the instance must have left the layer cache
		for _, x := range before {
			if x.mp != mp {
				continue
			}
			for _, c := range e.caches {
				if isBlob, known := verifC12bIsBlobCache(c); known && !isBlob {
					for _, k := range c.VerifC12Keys() {
						if v, ok := c.VerifC12Peek(k); ok && reflect.ValueOf(v).Pointer() == x.id {
							e.out.Fail("unmount-kept-layer-cached", op+": the unmounted layer instance is still in the resolver's layer cache (released without eviction)")
						}
					}
				}
			}
		}
		if e.live[mp] {
			if err != nil {
				e.out.Fail("leak-after-unmount", fmt.Sprintf("%s: Unmount of a mounted mountpoint: %v", op, err))
			}
			if k := e.kernelMounts()[mp]; k != kBefore-1 {
				e.out.Fail("leak-after-unmount", fmt.Sprintf("%s: the kernel has %d mounts on the mountpoint, %d before", op, k, kBefore))
			}
		}
		delete(e.live, mp)
	}
	e.out.Count("unmount")
	e.oracle(op, false)
	e.out.Emit(op, verifC12bRes(err)+e.tail())
}

func (e *verifC12bEnv) opUnmountEmpty() {
	before := e.snapshot()
	err := e.fs.Unmount(context.Background(), "")
	if err == nil || verifC12bSnapStr(before) != verifC12bSnapStr(e.snapshot()) {
		e.out.Fail("unknown-unmount-accepted", "Unmount(\"\") returned nil or changed fs.layer")
	}
	r := "err-empty"
	if err == nil {
		r = "ok"
	}
	e.out.Emit("fsm-unmount-empty", r+e.tail())
}

func (e *verifC12bEnv) opExpire(blob bool, name int) {
	c, keys := e.keys(e.layers[name].dgst.String(), blob)
	for _, k := range keys {
		c.VerifC12Expire(k)
	}
	which := "l"
	if blob {
		which = "b"
	}
	op := fmt.Sprintf("fsm-expire %s %d", which, name)
	e.out.Count("expire")
	e.oracle(op, true)
	e.out.Emit(op, "unit"+e.tail())
}

// drain: unmount everything registered, expire everything; nothing may be left (outside the remount class).
func (e *verifC12bEnv) drain(tag string) {
	for _, x := range e.snapshot() {
		e.opUnmount(x.mp)
	}
	for n := range e.layers {
		e.opExpire(false, n)
		e.opExpire(true, n)
	}
	if fsd, hd := e.dirs("fscache"), e.dirs("httpcache"); (fsd != 0 || hd != 0) && !e.remount {
		e.out.Fail("leak-after-drain", fmt.Sprintf("%s: everything unmounted and expired, %d fscache / %d httpcache directories left", tag, fsd, hd))
	} else if fsd != 0 || hd != 0 {
		e.out.Count("remount-leak-observed")
	}
	for mp, c := range e.kernelMounts() {
		for i := 0; i < c; i++ {
			syscall.Unmount(e.mpPath(mp), syscall.MNT_DETACH)
		}
		if !e.remount {
			e.out.Fail("leak-after-unmount", fmt.Sprintf("%s: mountpoint %d still mounted after the drain", tag, mp))
		}
	}
}

// ---------------------------------------------------------------- histories

var verifC12bOK = [4]bool{true, true, true, true}

func (e *verifC12bEnv) begin(tag string) {
	e.newFS()
	e.out.Comment(tag)
	e.out.Emit("fsm-new", "ok")
}

func (e *verifC12bEnv) good(mp, name int, neigh ...verifC12bNeigh) error {
	return e.opMount(mp, name, verifC12bOK, false, false, 'g', false, true, neigh)
}

func (e *verifC12bEnv) scripted() error {
	// 1: life of two mountpoints sharing one layer, neighbours pre-resolved, expiry under the holders
	e.begin("scripted 1: shared instance, pre-resolution, expiry under holders")
	if err := e.good(1, 0, verifC12bNeigh{1, verifC12bOK}, verifC12bNeigh{2, [4]bool{true, true, false, true}}, verifC12bNeigh{0, verifC12bOK}); err != nil {
		return err
	}
	e.good(2, 0)
	e.good(3, 1)
	e.opExpire(false, 0)
	e.opExpire(true, 0)
	e.opExpire(false, 1)
	e.opCheck(1, true, true)
	e.opCheck(1, false, true)
	e.opCheck(2, false, false)
	e.opCheck(4, true, true)
	e.opUnmount(1)
	e.opUnmount(1)
	e.opUnmount(4)
	e.opUnmountEmpty()
	e.opMountNoSrc(4)
	e.good(1, 0)
	e.drain("scripted 1")
	e.out.Distinct("scripted-1")
	// 2: every way a Mount fails, each followed by a good one
	e.begin("scripted 2: failing mounts")
	e.opMount(1, 0, [4]bool{true, true, false, true}, false, false, 'g', false, true, nil)
	e.opMount(1, 0, [4]bool{true, true, true, false}, false, false, 'g', false, true, []verifC12bNeigh{{1, verifC12bOK}})
	e.opMount(1, 0, verifC12bOK, false, false, 'w', false, true, nil)
	e.opMount(1, 0, verifC12bOK, false, false, 'u', false, true, nil)
	e.opMount(1, 0, verifC12bOK, false, false, 'a', false, true, nil)
	e.opMount(1, 0, verifC12bOK, false, false, 'a', true, true, nil)
	e.good(1, 0)
	e.opMount(2, 0, [4]bool{false, true, true, true}, false, false, 'g', false, true, nil)  // cached layer fails its check: new instance
	e.opMount(3, 0, [4]bool{false, false, false, true}, false, false, 'g', false, true, nil) // … and nothing resolves
	e.opMount(3, 1, verifC12bOK, false, true, 'a', true, true, nil)                          // skip-verify allowed
	e.opMount(4, 1, verifC12bOK, false, false, 'g', false, true, nil)                        // verify refused: used without verification
	e.opMount(4, 2, verifC12bOK, true, false, 'w', false, true, nil)                         // verification disabled
	e.opExpire(false, 0)
	e.opExpire(false, 1)
	e.opExpire(false, 2)
	e.drain("scripted 2")
	e.out.Distinct("scripted-2")
	// 3: the FUSE mount step fails: reference released, the mountpoint is NOT registered (fix 62b0917):
	// Check / Unmount of it answer "unknown mountpoint"
	e.begin("scripted 3: failing FUSE mount")
	e.opMount(1, 0, verifC12bOK, false, false, 'g', false, false, nil)
	e.opCheck(1, true, true)
	e.opExpire(false, 0)
	e.opCheck(1, true, true)
	e.opUnmount(1)
	e.good(2, 0)
	e.opMount(3, 0, verifC12bOK, false, false, 'g', false, false, nil)
	e.opExpire(false, 0)
	e.drain("scripted 3")
	e.out.Distinct("scripted-3")
	// 4 (labelled class): a second Mount on a mountpoint in use
	e.begin("scripted 4 (remount class): second Mount on a mountpoint in use")
	e.remount = true
	e.good(1, 0)
	e.good(1, 1)
	e.opUnmount(1)
	e.opUnmount(1)
	e.drain("scripted 4")
	e.out.Distinct("scripted-4")
	return nil
}

func (e *verifC12bEnv) randOracle(failOneIn int) [4]bool {
	var o [4]bool
	for i := range o {
		o[i] = e.rnd.Intn(failOneIn) != 0
	}
	return o
}

func (e *verifC12bEnv) random(idx int) {
	remount := idx%4 == 3
	tag := fmt.Sprintf("random %d", idx)
	if remount {
		tag += " (remount class)"
	}
	e.begin(tag)
	e.remount = remount
	n := 8 + e.rnd.Intn(18)
	var kinds []string
	for i := 0; i < n; i++ {
		switch e.rnd.Pick(40, 22, 14, 18, 3, 3) {
		case 0:
			var free, used []int
			for mp := 1; mp <= verifC12bNMps; mp++ {
				if e.inMap(mp) {
					used = append(used, mp)
				} else {
					free = append(free, mp)
				}
			}
			var mp int
			if remount && len(used) > 0 && e.rnd.Intn(3) == 0 {
				mp = used[e.rnd.Intn(len(used))]
			} else if len(free) > 0 {
				mp = free[e.rnd.Intn(len(free))]
			} else {
				e.opUnmount(used[e.rnd.Intn(len(used))])
				kinds = append(kinds, "U")
				continue
			}
			name := e.rnd.Intn(verifC12bNLayers)
			o := e.randOracle(7)
			toc := "ggggggwua"[e.rnd.Intn(9)]
			dis, allow, skip := e.rnd.Intn(8) == 0, e.rnd.Intn(3) == 0, e.rnd.Intn(3) == 0
			fuse := true
			if e.kernelMounts()[mp] == 0 && e.rnd.Intn(7) == 0 {
				fuse = false
			}
			var neigh []verifC12bNeigh
			if e.rnd.Intn(2) == 0 {
				for k := 0; k < verifC12bNLayers; k++ {
					if e.rnd.Intn(3) != 0 {
						neigh = append(neigh, verifC12bNeigh{k, e.randOracle(6)})
					}
				}
			}
			e.opMount(mp, name, o, dis, allow, toc, skip, fuse, neigh)
			kinds = append(kinds, fmt.Sprintf("M%c%s%d", toc, verifC12bB(fuse), len(neigh)))
		case 1:
			e.opUnmount(1 + e.rnd.Intn(verifC12bNMps))
			kinds = append(kinds, "U")
		case 2:
			e.opCheck(1+e.rnd.Intn(verifC12bNMps), e.rnd.Intn(3) != 0, e.rnd.Intn(2) == 0)
			kinds = append(kinds, "C")
		case 3:
			e.opExpire(e.rnd.Intn(3) == 0, e.rnd.Intn(verifC12bNLayers))
			kinds = append(kinds, "E")
		case 4:
			e.opMountNoSrc(1 + e.rnd.Intn(verifC12bNMps))
			kinds = append(kinds, "N")
		case 5:
			e.opUnmountEmpty()
			kinds = append(kinds, "Z")
		}
	}
	e.drain(tag)
	e.out.Distinct("hist-" + strings.Join(kinds, ""))
}

func verifC12bCleanup(prefix string) {
	f, err := os.Open("/proc/self/mountinfo")
	if err != nil {
		return
	}
	defer f.Close()
	var mps []string
	sc := bufio.NewScanner(f)
	for sc.Scan() {
		w := strings.Fields(sc.Text())
		if len(w) > 4 && strings.Contains(w[4], prefix) {
			mps = append(mps, w[4])
		}
	}
	for _, m := range mps {
		syscall.Unmount(m, syscall.MNT_DETACH)
	}
}

func TestVerifC12b(t *testing.T) {
	out := verifutil.OpenOut()
	defer out.Close()
	out.Comment("holder side of C12: fs.Mount / Check / Unmount on the real filesystem object vs SV.Model.FsMount")
	out.Emit("fsm-new", "ok")
	verifC12bCleanup(verifC12bTmpPrefix)
	if f, err := os.OpenFile("/dev/fuse", os.O_RDWR, 0); err != nil {
		out.Count("fuse-unavailable")
		out.Comment("fuse-unavailable: " + err.Error())
		return
	} else {
		f.Close()
	}
	work := os.Getenv("VERIF_WORK")
	if work == "" {
		work = os.TempDir()
	}
	base, err := os.MkdirTemp(work, verifC12bTmpPrefix)
	if err != nil {
		t.Fatal(err)
	}
	e := &verifC12bEnv{t: t, out: out, rnd: verifutil.NewRand(verifutil.Seed()), reg: verifreg.New(), base: base, byToc: map[digest.Digest]*verifC12bLayer{}}
	t.Cleanup(func() {
		verifC12bCleanup(filepath.Base(base))
		os.RemoveAll(base)
	})
	for i := 0; i < verifC12bNLayers; i++ {
		l := verifC12bBuild(t, e.rnd, e.reg, i)
		e.layers = append(e.layers, l)
		e.byToc[l.toc] = l
	}
	e.reg.Script = e.script
	if err := e.scripted(); errors.Is(err, errVerifC12bNoFuse) {
		out.Count("fuse-unavailable")
		out.Comment("fuse-unavailable: the first Mount was refused by the kernel")
		return
	}
	n := verifutil.EnvInt("VERIF_N", 12)
	for i := 0; i < n; i++ {
		e.random(i)
	}
}

// TestVerifC12bStaleEntry: regression scenario for the defect repaired by 62b0917 (found by this stream):
// fs.Mount registers fs.layer[mountpoint] BEFORE the FUSE mount step; when that step failed, the deferred
// Done() released the layer but the entry stayed — fs.layer named a mountpoint that is not mounted with a
// layer nobody holds, Check answered for the dead layer, and only a failing Unmount dropped it.  Now the
// entry must be gone: after a failed FUSE mount the mountpoint is unknown to Check and Unmount, with and
// without another holder of the same layer, before and after the cache entry expired; and a later good
// Mount on the same mountpoint works.  Every op is also compared with the model.
func TestVerifC12bStaleEntry(t *testing.T) {
	out := verifutil.OpenOut()
	defer out.Close()
	out.Comment("regression: a Mount whose FUSE step fails leaves fs.layer unchanged (fix 62b0917)")
	out.Emit("fsm-new", "ok")
	verifC12bCleanup(verifC12bTmpPrefix)
	if f, err := os.OpenFile("/dev/fuse", os.O_RDWR, 0); err != nil {
		out.Count("fuse-unavailable")
		out.Comment("fuse-unavailable: " + err.Error())
		return
	} else {
		f.Close()
	}
	work := os.Getenv("VERIF_WORK")
	if work == "" {
		work = os.TempDir()
	}
	base, err := os.MkdirTemp(work, verifC12bTmpPrefix)
	if err != nil {
		t.Fatal(err)
	}
	e := &verifC12bEnv{t: t, out: out, rnd: verifutil.NewRand(verifutil.Seed()), reg: verifreg.New(), base: base, byToc: map[digest.Digest]*verifC12bLayer{}}
	t.Cleanup(func() {
		verifC12bCleanup(filepath.Base(base))
		os.RemoveAll(base)
	})
	for i := 0; i < verifC12bNLayers; i++ {
		l := verifC12bBuild(t, e.rnd, e.reg, i)
		e.layers = append(e.layers, l)
		e.byToc[l.toc] = l
	}
	e.reg.Script = e.script
	strict := func(what string, mp int) {
		if e.inMap(mp) {
			out.Fail("failed-fuse-mount-leaves-stale-entry", what+": the mountpoint of a Mount that failed at the FUSE step is still registered in fs.layer")
		}
		labels := map[string]string{
			"containerd.io/snapshot/remote/stargz.reference": verifC12bRef,
			"containerd.io/snapshot/remote/stargz.digest":    e.layers[0].dgst.String(),
		}
		if err := e.fs.Check(context.Background(), e.mpPath(mp), labels); err == nil {
			out.Fail("failed-fuse-mount-leaves-stale-entry", what+": Check of the mountpoint of a failed Mount returned nil")
		}
	}
	// alone: nothing else holds the layer
	e.begin("stale-entry regression A: failed FUSE mount, nobody else holds the layer")
	e.opMount(1, 0, verifC12bOK, false, false, 'g', false, false, nil)
	strict("A after the failed Mount", 1)
	e.opCheck(1, true, true)
	e.opExpire(false, 0)
	strict("A after expiry", 1)
	e.opCheck(1, true, true)
	e.opUnmount(1)
	e.good(1, 0) // the same mountpoint mounts fine afterwards
	e.opCheck(1, true, true)
	e.drain("regression A")
	out.Distinct("stale-regression-A")
	// with another holder of the same instance, neighbours pre-resolved, skip-verify flavour
	e.begin("stale-entry regression B: failed FUSE mount while another mountpoint holds the layer")
	if err := e.good(2, 0, verifC12bNeigh{1, verifC12bOK}); errors.Is(err, errVerifC12bNoFuse) {
		out.Count("fuse-unavailable")
		out.Comment("fuse-unavailable: the first Mount was refused by the kernel")
		return
	}
	e.opMount(3, 0, verifC12bOK, false, false, 'g', false, false, []verifC12bNeigh{{1, verifC12bOK}})
	strict("B after the failed Mount", 3)
	e.opMount(4, 1, verifC12bOK, true, false, 'a', false, false, nil)
	strict("B second failed Mount", 4)
	e.opUnmount(3)
	e.opUnmount(4)
	e.opExpire(false, 0)
	e.opExpire(false, 1)
	e.opCheck(2, true, true)
	e.opUnmount(2)
	strict("B after unmounting the holder", 3)
	e.drain("regression B")
	out.Distinct("stale-regression-B")
	out.Count("stale-regression")
}
