//go:build verif

package fs

// C01 harness, filesystem level: the verification ladder of the REAL filesystem.Mount over the REAL
// layer.Resolver (resolver cache: several mounts with different label sets reach ONE layer object)
// and a scripted in-memory registry serving blobs built by the real builder.  The mountpoint does
// not exist, so Mount stops at the FUSE server (no mount is ever made); the outcome of the ladder is
// read off fs.layer (registered after Verify/SkipVerify and RootNode succeeded).  Files are read
// through the node API of the registered layer.

import (
	"context"
	"fmt"
	"io"
	"os"
	"path/filepath"
	"strings"
	"syscall"
	"testing"
	"time"

	"github.com/containerd/containerd/v2/pkg/reference"
	"github.com/containerd/stargz-snapshotter/cache"
	"github.com/containerd/stargz-snapshotter/estargz"
	"github.com/containerd/stargz-snapshotter/fs/config"
	"github.com/containerd/stargz-snapshotter/fs/layer"
	"github.com/containerd/stargz-snapshotter/fs/source"
	"github.com/containerd/stargz-snapshotter/internal/verifc01"
	"github.com/containerd/stargz-snapshotter/internal/verifreg"
	"github.com/containerd/stargz-snapshotter/internal/verifutil"
	"github.com/containerd/stargz-snapshotter/metadata"
	memorymetadata "github.com/containerd/stargz-snapshotter/metadata/memory"
	fusefs "github.com/hanwen/go-fuse/v2/fs"
	"github.com/hanwen/go-fuse/v2/fuse"
	digest "github.com/opencontainers/go-digest"
	ocispec "github.com/opencontainers/image-spec/specs-go/v1"
)

// verifC01NopVR lets verifc01 enumerate files and chunks of a blob (no reader is driven through it).
type verifC01NopVR struct{ mr metadata.Reader }

func (verifC01NopVR) VerifyTOC(digest.Digest) error          { return nil }
func (verifC01NopVR) Skip()                                  {}
func (verifC01NopVR) Cache(func(int64) bool) error           { return nil }
func (verifC01NopVR) CacheReader(*io.SectionReader) error    { return nil }
func (verifC01NopVR) OpenFile(uint32) (io.ReaderAt, error)   { return nil, fmt.Errorf("unused") }
func (verifC01NopVR) GenID(uint32, int64, int64) string      { return "" }
func (a verifC01NopVR) Close() error                         { return a.mr.Close() }
func (verifC01NopVR) ReadAndCache(uint32, io.Reader, int64, int64, string) (error, bool) {
	return nil, false
}
func (verifC01NopVR) Passthrough(io.ReaderAt, int64, int) (uintptr, cache.Reader, error) {
	return 0, nil, fmt.Errorf("unused")
}

func verifC01ReadNode(l layer.Layer, name string, size int64) ([]byte, error) {
	root, err := l.RootNode(0)
	if err != nil {
		return nil, err
	}
	fusefs.NewNodeFS(root, &fusefs.Options{})
	var cur fusefs.InodeEmbedder = root
	for _, comp := range strings.Split(name, "/") {
		lk, ok := cur.(fusefs.NodeLookuper)
		if !ok {
			return nil, fmt.Errorf("%q: not a directory node", comp)
		}
		var eo fuse.EntryOut
		in, errno := lk.Lookup(context.Background(), comp, &eo)
		if errno != 0 {
			return nil, fmt.Errorf("lookup %q: %v", comp, errno)
		}
		cur = in.Operations()
	}
	op, ok := cur.(fusefs.NodeOpener)
	if !ok {
		return nil, fmt.Errorf("not openable")
	}
	fh, _, errno := op.Open(context.Background(), 0)
	if errno != 0 {
		return nil, fmt.Errorf("open: %v", errno)
	}
	rd, ok := fh.(fusefs.FileReader)
	if !ok {
		return nil, fmt.Errorf("not readable")
	}
	buf := make([]byte, size+8)
	rr, errno := rd.Read(context.Background(), buf, 0)
	if errno != 0 {
		return nil, errno
	}
	data, st := rr.Bytes(make([]byte, len(buf)))
	if st != fuse.OK {
		return nil, syscall.EIO
	}
	return data, nil
}

func TestVerifC01Mount(t *testing.T) {
	rnd := verifutil.NewRand(verifutil.Seed() + 99)
	out := verifutil.OpenOut()
	defer out.Close()
	n := verifutil.EnvInt("VERIF_N", 8)
	ctx := context.Background()
	// the ladder is observed through real FUSE mounts; where the kernel refuses, the stream
	// degrades to a note (never an alarm)
	if fd, err := os.OpenFile("/dev/fuse", os.O_RDWR, 0); err != nil || os.Geteuid() != 0 {
		out.Comment(fmt.Sprintf("fuse-unavailable (euid=%d, /dev/fuse: %v): mount-level stream skipped", os.Geteuid(), err))
		return
	} else {
		fd.Close()
	}
	// every filesystem root lives under one scratch directory; the blob caches commit
	// asynchronously, so it is removed (repeatedly) at the very end
	parent, err := os.MkdirTemp("", "verifc01fs")
	if err != nil {
		t.Fatal(err)
	}
	defer func() {
		for i := 0; i < 20; i++ {
			time.Sleep(100 * time.Millisecond)
			os.RemoveAll(parent)
			if _, err := os.Stat(parent); os.IsNotExist(err) && i >= 3 {
				break
			}
		}
	}()
	type labelSet struct {
		toc  string // none | bad | good | wrong
		skip bool
	}
	wrongDigest := func(d digest.Digest) string {
		h := []byte(d.Encoded())
		i := rnd.Intn(len(h))
		if h[i] == '0' {
			h[i] = '1'
		} else {
			h[i] = '0'
		}
		return "sha256:" + string(h)
	}
	scripted := [][]labelSet{
		{{"none", true}, {"good", false}, {"wrong", false}},  // skip -> mount(D) -> mount(wrong)
		{{"good", false}, {"wrong", false}, {"none", true}},  // mount(D1) -> mount(D2 wrong) -> skip
		{{"wrong", false}, {"good", false}, {"wrong", true}}, // refused -> mount(D)
		{{"none", false}, {"bad", true}, {"none", true}, {"good", true}},
	}
	layerNo := 0
	for i := 0; i < n+4*len(scripted); i++ {
		disable, allow := rnd.Intn(4) == 0, rnd.Bool()
		var seq []labelSet
		if i < 4*len(scripted) {
			seq = scripted[i%len(scripted)]
			disable, allow = (i/len(scripted))&2 != 0, (i/len(scripted))&1 != 0
		} else {
			for k, m := 0, 2+rnd.Intn(4); k < m; k++ {
				seq = append(seq, labelSet{[]string{"none", "bad", "good", "wrong", "good"}[rnd.Intn(5)], rnd.Bool()})
			}
		}
		comp := []string{"gzip", "zstd", "gzip"}[rnd.Intn(3)]
		chunk := []int{7, 64, 1000}[rnd.Intn(3)]
		files := []verifc01.FileSpec{
			{Name: "a", Data: []byte(strings.Repeat(fmt.Sprintf("layer%d-", layerNo), 3+rnd.Intn(30)))},
			{Name: "d/b", Data: rnd.Bytes(1 + rnd.Intn(40))},
			{Name: "e", Data: nil},
		}
		layerNo++
		b, err := verifc01.BuildBlob(comp, chunk, 0, files)
		if err != nil {
			t.Fatalf("build: %v", err)
		}
		// the chunk table for the model, from an independent open of the same blob
		sess, err := verifc01.OpenSession(out, rnd, verifc01.Stack{Name: "mem", Store: memorymetadata.NewReader,
			NewReader: func(mr metadata.Reader, c cache.BlobCache) (verifc01.VR, error) { return verifC01NopVR{mr}, nil }},
			b, b.Pristine(), "mem")
		if err != nil || sess == nil {
			t.Fatalf("enumerate: %v", err)
		}
		reg := verifreg.New()
		dg := digest.FromBytes(b.B0)
		reg.AddBlob(dg.String(), b.B0)
		ref, err := reference.Parse(fmt.Sprintf("reg.test/verif/c01-%d:latest", layerNo))
		if err != nil {
			t.Fatal(err)
		}
		desc := ocispec.Descriptor{Digest: dg, Size: int64(len(b.B0)), MediaType: ocispec.MediaTypeImageLayerGzip}
		root, err := os.MkdirTemp(parent, "fs")
		if err != nil {
			t.Fatal(err)
		}
		fsi, err := NewFilesystem(root, config.Config{
			NoPrefetch: true, NoBackgroundFetch: true,
			AllowNoVerification: allow, DisableVerification: disable,
		}, WithGetSources(func(labels map[string]string) ([]source.Source, error) {
			return []source.Source{{Hosts: reg.Hosts(nil), Name: ref, Target: desc}}, nil
		}))
		if err != nil {
			t.Fatalf("NewFilesystem: %v", err)
		}
		f := fsi.(*filesystem)
		out.Comment(fmt.Sprintf("filesystem disable=%v allow=%v %s chunk=%d", disable, allow, comp, chunk))
		out.Emit(sess.NewLine(disable, allow), "ok")
		shape := []string{"mount", comp, fmt.Sprint(disable), fmt.Sprint(allow)}
		verifiedBy := "" // the ladder's own account, for the oracle
		var mounted []string
		skipped := false
		for k, ls := range seq {
			labels := map[string]string{}
			var presented digest.Digest
			switch ls.toc {
			case "good":
				presented = b.D0
				labels[estargz.TOCJSONDigestAnnotation] = b.D0.String()
			case "wrong":
				presented = digest.Digest(wrongDigest(b.D0))
				labels[estargz.TOCJSONDigestAnnotation] = presented.String()
			case "bad":
				labels[estargz.TOCJSONDigestAnnotation] = "sha256:not-a-digest"
			}
			if ls.skip {
				labels[config.TargetSkipVerifyLabel] = "true"
			}
			// a real FUSE mount: since /repo 62b0917 a Mount that fails at the FUSE step no longer leaves
			// its layer registered, so the ladder's outcome is the outcome of Mount itself
			mp := filepath.Join(root, fmt.Sprintf("mnt-%d", k))
			if err := os.MkdirAll(mp, 0755); err != nil {
				t.Fatal(err)
			}
			merr := f.Mount(ctx, mp, labels)
			f.layerMu.Lock()
			l := f.layer[mp]
			f.layerMu.Unlock()
			res := "err"
			if merr == nil && l != nil {
				res = "ok"
				mounted = append(mounted, mp)
			} else if l != nil {
				out.Fail("failed-mount-left-registered", fmt.Sprintf("Mount returned %v but the mountpoint stayed registered", merr))
				l = nil
			}
			skipv := "0"
			if ls.skip {
				skipv = "1"
			}
			out.Emit(fmt.Sprintf("l.mount %s %s", ls.toc, skipv), res)
			out.Count("mount-" + ls.toc + "-" + skipv + "-" + res)
			shape = append(shape, ls.toc+skipv+res)
			// oracle (independent of the model)
			if l != nil {
				own := verifc01.OwnTOCDigests(comp, b.B0, nil)
				switch {
				case disable:
				case presented != "":
					okd := false
					for _, d := range own {
						okd = okd || d == presented
					}
					if !okd {
						out.Fail("verify-wrong-digest-accepted", fmt.Sprintf("Mount with TOC digest %s succeeded, the TOC hashes to %v (mount %d of %v)", presented, own, k, seq))
					}
					if skipped {
						out.Fail("verify-after-skip-accepted", fmt.Sprintf("Mount with a TOC digest succeeded on a layer object already mounted without verification (mount %d of %v)", k, seq))
					}
					verifiedBy = presented.String()
				case ls.toc == "none" && !(allow && ls.skip):
					out.Fail("unverified-mount-without-config", fmt.Sprintf("Mount without TOC digest succeeded with disable=%v allow=%v skiplabel=%v", disable, allow, ls.skip))
				case ls.toc == "bad":
					out.Fail("unverified-mount-without-config", "Mount with an unparsable TOC digest succeeded")
				default:
					if verifiedBy == "" {
						skipped = true
					}
				}
				if disable && verifiedBy == "" {
					skipped = true
				}
				// read everything through the registered layer: pristine source, so clean bytes
				for _, fl := range sess.Files {
					if fl.Name == estargz.NoPrefetchLandmark || fl.Name == estargz.PrefetchLandmark {
						continue
					}
					var steps []string
					for _, c := range fl.Chunks {
						steps = append(steps, fmt.Sprintf("%d:g", c.Gid))
					}
					st := strings.Join(steps, ";")
					if st == "" {
						st = "-"
					}
					data, err := verifC01ReadNode(l, fl.Name, fl.Size)
					r := "err"
					if err == nil {
						r = "ok clean"
						if string(data) != string(fl.Want) {
							r = "ok dirty"
							out.Fail("altered-bytes-returned", fmt.Sprintf("mounted layer returned %d bytes of %q differing from the source tar", len(data), fl.Name))
						}
					}
					out.Emit("l.read "+st, r)
				}
			}
		}
		out.Distinct(strings.Join(shape, "/"))
		sess.Close()
		for _, mp := range mounted {
			if err := f.Unmount(ctx, mp); err != nil {
				syscall.Unmount(mp, syscall.MNT_DETACH)
			}
		}
		os.RemoveAll(root)
	}
}
