//go:build verif

package reader

// C01 harness, reader level: the real NewReader / VerifiableReader / reader over the memory
// metadata store, memory and directory chunk caches, blobs built by the real builder and served
// through a corrupting blob source.  Scenario generation, op lines and the property oracle live in
// internal/verifc01 (shared with the db metadata store harness); this file is the adapter that
// reaches the unexported parts (readAndCache of one chunk, the cache key).

import (
	"fmt"
	"io"
	"os"
	"testing"

	"github.com/containerd/stargz-snapshotter/cache"
	"github.com/containerd/stargz-snapshotter/internal/verifc01"
	"github.com/containerd/stargz-snapshotter/internal/verifutil"
	"github.com/containerd/stargz-snapshotter/metadata"
	memorymetadata "github.com/containerd/stargz-snapshotter/metadata/memory"
	digest "github.com/opencontainers/go-digest"
)

type verifC01VR struct{ vr *VerifiableReader }

func (a *verifC01VR) VerifyTOC(d digest.Digest) error { _, err := a.vr.VerifyTOC(d); return err }
func (a *verifC01VR) Skip()                          { a.vr.SkipVerify() }
func (a *verifC01VR) Cache(filter func(int64) bool) error {
	return a.vr.Cache(WithFilter(filter))
}
func (a *verifC01VR) CacheReader(sr *io.SectionReader) error { return a.vr.Cache(WithReader(sr)) }
func (a *verifC01VR) ReadAndCache(id uint32, r io.Reader, off, size int64, dgst string) (error, bool) {
	return a.vr.readAndCache(id, r, off, size, dgst), true
}
func (a *verifC01VR) OpenFile(id uint32) (io.ReaderAt, error) { return a.vr.SkipVerify().OpenFile(id) }
func (a *verifC01VR) Passthrough(ra io.ReaderAt, mergeBuf int64, workers int) (uintptr, cache.Reader, error) {
	g, ok := ra.(PassthroughFdGetter)
	if !ok {
		return 0, nil, fmt.Errorf("not a PassthroughFdGetter")
	}
	return g.GetPassthroughFd(mergeBuf, workers)
}
func (a *verifC01VR) GenID(id uint32, off, size int64) string { return genID(id, off, size) }
func (a *verifC01VR) Close() error                            { return a.vr.Close() }

func TestVerifC01(t *testing.T) {
	rnd := verifutil.NewRand(verifutil.Seed())
	out := verifutil.OpenOut()
	defer out.Close()
	cfg := verifc01.Config{
		Stack: verifc01.Stack{
			Name:  "mem",
			Store: memorymetadata.NewReader,
			NewReader: func(mr metadata.Reader, c cache.BlobCache) (verifc01.VR, error) {
				vr, err := NewReader(mr, c, digest.FromString("verif-c01"))
				if err != nil {
					return nil, err
				}
				return &verifC01VR{vr}, nil
			},
		},
		N:        verifutil.EnvInt("VERIF_N", 120),
		Races:    verifutil.EnvInt("VERIF_RACES", 40),
		Thorough: os.Getenv("VERIF_TIER") == "thorough",
		Caches:   []string{"mem", "dirdirect", "dir"},
		Single:   true,
	}
	if err := verifc01.Run(out, rnd, cfg); err != nil {
		t.Fatalf("harness: %v", err)
	}
}

// TestVerifC01Window: verified reads through the REAL directory cache with a small memory LRU /
// descriptor LRU while a second file handle caches more chunks than the LRU holds inside the window
// between cache.Get / cache.Add and the use of what they returned (internal/verifc01/window.go).
func TestVerifC01Window(t *testing.T) {
	rnd := verifutil.NewRand(verifutil.Seed())
	out := verifutil.OpenOut()
	defer out.Close()
	cfg := verifc01.Config{
		Stack: verifc01.Stack{
			Name:  "mem",
			Store: memorymetadata.NewReader,
			NewReader: func(mr metadata.Reader, c cache.BlobCache) (verifc01.VR, error) {
				vr, err := NewReader(mr, c, digest.FromString("verif-c01"))
				if err != nil {
					return nil, err
				}
				return &verifC01VR{vr}, nil
			},
		},
		N:        verifutil.EnvInt("VERIF_N", 30),
		Thorough: os.Getenv("VERIF_TIER") == "thorough",
		Single:   true,
	}
	if err := verifc01.RunWindow(out, rnd, cfg); err != nil {
		t.Fatalf("harness: %v", err)
	}
}
