//go:build verif

package reader

import "github.com/containerd/stargz-snapshotter/cache"

// Export shim for the C02/C15 harnesses (injected with `go build -overlay`, never committed).
// It only ADDS code: access to the chunk cache of a VerifiableReader and to the cache key.

// VerifC02WrapCache replaces the uncompressed chunk cache of vr by wrap(current cache).
func VerifC02WrapCache(vr *VerifiableReader, wrap func(cache.BlobCache) cache.BlobCache) {
	vr.r.cache = wrap(vr.r.cache)
}

// VerifC02GenID is the key under which chunk (offset,size) of node id is cached.
func VerifC02GenID(id uint32, offset, size int64) string { return genID(id, offset, size) }
