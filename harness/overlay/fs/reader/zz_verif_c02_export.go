//go:build verif

package reader

import (
	"reflect"
	"unsafe"

	"github.com/containerd/stargz-snapshotter/cache"
)

// Export shim for the C02/C15 harnesses (injected with `go build -overlay`, never committed).
// It only ADDS code.  The chunk cache of a VerifiableReader is located by its TYPE (the first field
// of interface type cache.BlobCache reachable from vr), not by field names, so a rename inside the
// reader does not break the build of every harness that links this package; genID is the one
// unexported identifier used by name.

// VerifC02WrapCache replaces the uncompressed chunk cache of vr by wrap(current cache); it reports
// whether the cache field was found.
func VerifC02WrapCache(vr *VerifiableReader, wrap func(cache.BlobCache) cache.BlobCache) bool {
	want := reflect.TypeOf((*cache.BlobCache)(nil)).Elem()
	type item struct {
		v reflect.Value
		d int
	}
	seen := map[uintptr]bool{}
	queue := []item{{reflect.ValueOf(vr), 0}}
	for len(queue) > 0 {
		it := queue[0]
		queue = queue[1:]
		v := it.v
		if !v.IsValid() || it.d > 4 {
			continue
		}
		if v.Type() == want && v.CanSet() && !v.IsNil() {
			v.Set(reflect.ValueOf(wrap(v.Interface().(cache.BlobCache))))
			return true
		}
		switch v.Kind() {
		case reflect.Ptr:
			if v.IsNil() || seen[v.Pointer()] {
				continue
			}
			seen[v.Pointer()] = true
			queue = append(queue, item{v.Elem(), it.d})
		case reflect.Struct:
			for i := 0; i < v.NumField(); i++ {
				f := v.Field(i)
				if f.CanAddr() {
					f = reflect.NewAt(f.Type(), unsafe.Pointer(f.UnsafeAddr())).Elem()
				}
				queue = append(queue, item{f, it.d + 1})
			}
		}
	}
	return false
}

// VerifC02GenID is the key under which chunk (offset,size) of node id is cached.
func VerifC02GenID(id uint32, offset, size int64) string { return genID(id, offset, size) }
