//go:build verif

package source

import (
	"testing"

	"github.com/containerd/containerd/v2/core/remotes/docker"
	"github.com/containerd/containerd/v2/pkg/reference"
	"github.com/containerd/stargz-snapshotter/internal/verifc20"
)

// verifC20Adapt turns a GetSources into the harness' reader type: exactly one source whose
// Manifest.Layers starts with the target.
func verifC20Adapt(gs GetSources) verifc20.ReadFn {
	return func(l map[string]string) (*verifc20.Src, error) {
		srcs, err := gs(l)
		if err != nil {
			return nil, err
		}
		if len(srcs) != 1 || len(srcs[0].Manifest.Layers) == 0 ||
			srcs[0].Manifest.Layers[0].Digest != srcs[0].Target.Digest {
			panic("verif: reader returned an unexpected source shape")
		}
		s := srcs[0]
		out := &verifc20.Src{Name: s.Name, Target: s.Target.Digest.String(), URLs: s.Target.URLs}
		for _, n := range s.Manifest.Layers[1:] {
			out.Neighbours = append(out.Neighbours, verifc20.Neighbour{Digest: n.Digest.String(), URLs: n.URLs})
		}
		return out, nil
	}
}

// TestVerifC20 runs the REAL pull-side handlers (AppendDefaultLabelsHandlerWrapper,
// AppendExtraLabelsHandler on containerd's AppendInfoHandlerWrapper) on generated manifests,
// validates every emitted label with containerd's labels.Validate, feeds the labels to the REAL
// reader FromDefaultLabels (unmodified, and with subsets removed / corrupted) and emits canonical
// lines for the Lean model; generator, encoding and oracle live in internal/verifc20.  Only EXPORTED
// identifiers of the package are used, so that a rename of an internal helper or constant cannot break
// the harness (appendWithValidation is exercised through the writers' urls / urls.<i> labels).
// The CRI-label reader (package service) is covered by TestVerifC20CRI.
func TestVerifC20(t *testing.T) {
	hosts := func(reference.Spec) ([]docker.RegistryHost, error) { return nil, nil }
	verifc20.Run(verifc20.Impl{
		DefaultWrapper: AppendDefaultLabelsHandlerWrapper,
		ExtraHandler:   AppendExtraLabelsHandler,
		ReadDefault:    verifC20Adapt(FromDefaultLabels(hosts)),
	})
}
