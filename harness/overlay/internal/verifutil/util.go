// Package verifutil holds helpers shared by the verification harnesses.  It is injected into
// the repository at build time with `go build -overlay` and never committed there.
package verifutil

import (
	"bufio"
	"encoding/json"
	"fmt"
	"os"
	"strconv"
	"sync"
)

// Rand is a small deterministic PRNG (splitmix64) so that every harness run is a pure
// function of VERIF_SEED.
type Rand struct{ s uint64 }

func NewRand(seed uint64) *Rand {
	// scramble the seed first so that consecutive seeds give unrelated streams
	z := seed*0xD1342543DE82EF95 + 0x2545F4914F6CDD1D
	z = (z ^ (z >> 32)) * 0xBF58476D1CE4E5B9
	z = (z ^ (z >> 29)) * 0x94D049BB133111EB
	return &Rand{s: z ^ (z >> 32)}
}

func (r *Rand) Uint64() uint64 {
	r.s += 0x9E3779B97F4A7C15
	z := r.s
	z = (z ^ (z >> 30)) * 0xBF58476D1CE4E5B9
	z = (z ^ (z >> 27)) * 0x94D049BB133111EB
	return z ^ (z >> 31)
}

// Intn returns a value in [0,n). n must be > 0.
func (r *Rand) Intn(n int) int { return int(r.Uint64() % uint64(n)) }

// Range returns a value in [lo,hi].
func (r *Rand) Range(lo, hi int64) int64 {
	if hi <= lo {
		return lo
	}
	return lo + int64(r.Uint64()%uint64(hi-lo+1))
}

func (r *Rand) Bool() bool { return r.Uint64()&1 == 1 }

// Pick returns one of the weights' indices with probability proportional to its weight.
func (r *Rand) Pick(weights ...int) int {
	t := 0
	for _, w := range weights {
		t += w
	}
	x := r.Intn(t)
	for i, w := range weights {
		if x < w {
			return i
		}
		x -= w
	}
	return len(weights) - 1
}

func (r *Rand) Bytes(n int) []byte {
	b := make([]byte, n)
	for i := range b {
		b[i] = byte(r.Uint64())
	}
	return b
}

// Seed reads VERIF_SEED (default 1).
func Seed() uint64 {
	if s := os.Getenv("VERIF_SEED"); s != "" {
		if v, err := strconv.ParseUint(s, 10, 64); err == nil {
			return v
		}
	}
	return 1
}

// EnvInt reads an integer parameter from the environment.
func EnvInt(name string, def int) int {
	if s := os.Getenv(name); s != "" {
		if v, err := strconv.Atoi(s); err == nil {
			return v
		}
	}
	return def
}

// Out writes the three streams every harness produces: the op lines (input of the Lean
// driver), the implementation's canonical result lines, and a JSON stats/oracle report.
type Out struct {
	mu    sync.Mutex
	ops   *bufio.Writer
	impl  *bufio.Writer
	fo    *os.File
	fi    *os.File
	Stats map[string]int
	// Oracle failures: each is a human-readable description with the op index.
	OracleFailures []OracleFailure
	Samples        []string
	nops           int
	distinct       map[string]struct{}
}

type OracleFailure struct {
	Op   int    `json:"op"`
	Sig  string `json:"sig"`
	What string `json:"what"`
}

// OpenOut opens $VERIF_OUT.ops and $VERIF_OUT.impl ; the report goes to $VERIF_OUT.json.
func OpenOut() *Out {
	base := os.Getenv("VERIF_OUT")
	if base == "" {
		base = "/tmp/verif_out"
	}
	fo, err := os.Create(base + ".ops")
	if err != nil {
		panic(err)
	}
	fi, err := os.Create(base + ".impl")
	if err != nil {
		panic(err)
	}
	return &Out{ops: bufio.NewWriter(fo), impl: bufio.NewWriter(fi), fo: fo, fi: fi,
		Stats: map[string]int{}, distinct: map[string]struct{}{}}
}

// Emit records one operation and the implementation's canonical answer.
func (o *Out) Emit(op, result string) int {
	o.mu.Lock()
	defer o.mu.Unlock()
	fmt.Fprintln(o.ops, op)
	fmt.Fprintln(o.impl, result)
	o.nops++
	if len(o.Samples) < 8 {
		o.Samples = append(o.Samples, op+" -> "+result)
	}
	return o.nops
}

// Comment writes a comment line to both streams (the driver echoes comments).
func (o *Out) Comment(c string) {
	o.mu.Lock()
	defer o.mu.Unlock()
	fmt.Fprintln(o.ops, "# "+c)
	fmt.Fprintln(o.impl, "# "+c)
	o.nops++
}

func (o *Out) Count(k string) {
	o.mu.Lock()
	o.Stats[k]++
	o.mu.Unlock()
}

// Distinct registers a canonical description of a non-trivial case.
func (o *Out) Distinct(k string) {
	o.mu.Lock()
	o.distinct[k] = struct{}{}
	o.mu.Unlock()
}

func (o *Out) Fail(sig, what string) {
	o.mu.Lock()
	o.OracleFailures = append(o.OracleFailures, OracleFailure{Op: o.nops, Sig: sig, What: what})
	o.mu.Unlock()
}

func (o *Out) Close() {
	o.mu.Lock()
	defer o.mu.Unlock()
	o.ops.Flush()
	o.impl.Flush()
	o.fo.Close()
	o.fi.Close()
	base := os.Getenv("VERIF_OUT")
	if base == "" {
		base = "/tmp/verif_out"
	}
	rep := map[string]any{
		"ops":                 o.nops,
		"stats":               o.Stats,
		"oracle_failures":     o.OracleFailures,
		"samples":             o.Samples,
		"distinct_nontrivial": len(o.distinct),
	}
	b, _ := json.MarshalIndent(rep, "", " ")
	os.WriteFile(base+".json", b, 0o644)
}
