package verifc02

import (
	"reflect"
	"unsafe"
)

// FindValue searches the object graph below root breadth-first (through pointers, interfaces and
// struct fields, exported or not; never into maps, slices or channels) for the shallowest value for
// which match returns true, and returns it addressable and settable (unexported fields are reached
// through their address).  The harnesses use it instead of naming unexported struct fields of /repo
// types, so that renaming a field or an unexported type does not break their build; callers must
// handle the zero Value ("not found") gracefully.
func FindValue(root any, match func(reflect.Value) bool, maxDepth int) reflect.Value {
	type item struct {
		v reflect.Value
		d int
	}
	seen := map[uintptr]bool{}
	queue := []item{{reflect.ValueOf(root), 0}}
	for len(queue) > 0 {
		it := queue[0]
		queue = queue[1:]
		v := it.v
		if !v.IsValid() {
			continue
		}
		if it.d > 0 && match(v) {
			return v
		}
		if it.d >= maxDepth {
			continue
		}
		switch v.Kind() {
		case reflect.Interface:
			if !v.IsNil() {
				queue = append(queue, item{v.Elem(), it.d})
			}
		case reflect.Ptr:
			if v.IsNil() || seen[v.Pointer()] {
				continue
			}
			seen[v.Pointer()] = true
			queue = append(queue, item{v.Elem(), it.d})
		case reflect.Struct:
			for i := 0; i < v.NumField(); i++ {
				f := v.Field(i)
				if f.CanAddr() {
					f = reflect.NewAt(f.Type(), unsafe.Pointer(f.UnsafeAddr())).Elem()
				}
				queue = append(queue, item{f, it.d + 1})
			}
		}
	}
	return reflect.Value{}
}

// FindOfType is FindValue for an exact type.
func FindOfType(root any, want reflect.Type, maxDepth int) reflect.Value {
	return FindValue(root, func(v reflect.Value) bool { return v.Type() == want }, maxDepth)
}

// ChanClosed reports, without blocking, whether a `chan struct{}` value is closed (or has a value
// ready); ok=false when v is not a usable channel.
func ChanClosed(v reflect.Value) (closed bool, ok bool) {
	if !v.IsValid() || v.Kind() != reflect.Chan || v.IsNil() {
		return false, false
	}
	chosen, _, recvOK := reflect.Select([]reflect.SelectCase{
		{Dir: reflect.SelectRecv, Chan: v}, {Dir: reflect.SelectDefault}})
	if chosen == 1 {
		return false, true
	}
	_ = recvOK // closed, or a value was ready: either way a receiver does not block
	return true, true
}
