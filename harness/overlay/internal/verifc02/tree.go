package verifc02

import (
	"bytes"
	"context"
	"fmt"
	"sort"
	"strings"
	"syscall"
	"time"

	fusefs "github.com/hanwen/go-fuse/v2/fs"
	"github.com/hanwen/go-fuse/v2/fuse"
)

// Tree drives a layer's root node through the go-fuse node API only (no mount), the way the
// go-fuse bridge would: Lookup component by component, Readdir, Getattr, Readlink, Getxattr,
// Open + Read.
type Tree struct {
	Root   fusefs.InodeEmbedder
	inodes map[string]*fusefs.Inode
	// Link decides whether a looked-up child is attached to its parent like the bridge does
	// (later lookups then take the in-memory-child path of node.Lookup).
	Link func() bool
}

func NewTree(root fusefs.InodeEmbedder) *Tree {
	fusefs.NewNodeFS(root, &fusefs.Options{}) // initialises the root inode
	return &Tree{Root: root, inodes: map[string]*fusefs.Inode{}, Link: func() bool { return true }}
}

func (t *Tree) ops(p string) (fusefs.InodeEmbedder, syscall.Errno) {
	if p == "" {
		return t.Root, 0
	}
	in, _, errno := t.Lookup(p)
	if errno != 0 {
		return nil, errno
	}
	return in.Operations(), 0
}

// Lookup resolves a clean path from the root; the EntryOut of the last component is returned.
func (t *Tree) Lookup(p string) (*fusefs.Inode, fuse.EntryOut, syscall.Errno) {
	var eo fuse.EntryOut
	if p == "" {
		return nil, eo, syscall.EINVAL
	}
	comps := strings.Split(p, "/")
	cur := t.Root
	curPath := ""
	var in *fusefs.Inode
	for i, c := range comps {
		lk, ok := cur.(fusefs.NodeLookuper)
		if !ok {
			return nil, eo, syscall.ENOTDIR
		}
		eo = fuse.EntryOut{}
		child, errno := lk.Lookup(context.Background(), c, &eo)
		if errno != 0 {
			return nil, eo, errno
		}
		np := c
		if curPath != "" {
			np = curPath + "/" + c
		}
		if t.Link() {
			var parent *fusefs.Inode
			if curPath == "" {
				parent = t.Root.EmbeddedInode()
			} else {
				parent = t.inodes[curPath]
			}
			if parent != nil && parent.GetChild(c) == nil {
				parent.AddChild(c, child, false)
			}
		}
		t.inodes[np] = child
		in = child
		cur = child.Operations()
		curPath = np
		_ = i
	}
	return in, eo, 0
}

func (t *Tree) Getattr(p string) (fuse.Attr, syscall.Errno) {
	o, errno := t.ops(p)
	if errno != 0 {
		return fuse.Attr{}, errno
	}
	ga, ok := o.(fusefs.NodeGetattrer)
	if !ok {
		return fuse.Attr{}, syscall.ENOSYS
	}
	var ao fuse.AttrOut
	errno = ga.Getattr(context.Background(), nil, &ao)
	return ao.Attr, errno
}

func (t *Tree) Readdir(p string) ([]fuse.DirEntry, syscall.Errno) {
	o, errno := t.ops(p)
	if errno != 0 {
		return nil, errno
	}
	rd, ok := o.(fusefs.NodeReaddirer)
	if !ok {
		return nil, syscall.ENOTDIR
	}
	ds, errno := rd.Readdir(context.Background())
	if errno != 0 {
		return nil, errno
	}
	var out []fuse.DirEntry
	for ds.HasNext() {
		de, errno := ds.Next()
		if errno != 0 {
			return nil, errno
		}
		out = append(out, de)
	}
	return out, 0
}

func (t *Tree) Readlink(p string) (string, syscall.Errno) {
	o, errno := t.ops(p)
	if errno != 0 {
		return "", errno
	}
	rl, ok := o.(fusefs.NodeReadlinker)
	if !ok {
		return "", syscall.ENOSYS
	}
	b, errno := rl.Readlink(context.Background())
	return string(b), errno
}

// Getxattr returns (value, size reported, errno) for a destination buffer of the given size.
func (t *Tree) Getxattr(p, name string, bufSize int) ([]byte, uint32, syscall.Errno) {
	o, errno := t.ops(p)
	if errno != 0 {
		return nil, 0, errno
	}
	gx, ok := o.(fusefs.NodeGetxattrer)
	if !ok {
		return nil, 0, syscall.ENOSYS
	}
	buf := make([]byte, bufSize)
	n, errno := gx.Getxattr(context.Background(), name, buf)
	if errno != 0 {
		return nil, n, errno
	}
	return buf[:n], n, 0
}

func (t *Tree) Listxattr(p string) ([]string, syscall.Errno) {
	o, errno := t.ops(p)
	if errno != 0 {
		return nil, errno
	}
	lx, ok := o.(fusefs.NodeListxattrer)
	if !ok {
		return nil, syscall.ENOSYS
	}
	buf := make([]byte, 4096)
	n, errno := lx.Listxattr(context.Background(), buf)
	if errno != 0 {
		return nil, errno
	}
	var out []string
	for _, s := range strings.Split(string(buf[:n]), "\x00") {
		if s != "" {
			out = append(out, s)
		}
	}
	sort.Strings(out)
	return out, 0
}

// Open opens the node and returns its file handle.
func (t *Tree) Open(p string) (fusefs.FileHandle, syscall.Errno) {
	o, errno := t.ops(p)
	if errno != 0 {
		return nil, errno
	}
	op, ok := o.(fusefs.NodeOpener)
	if !ok {
		return nil, syscall.ENOSYS
	}
	fh, _, errno := op.Open(context.Background(), 0)
	return fh, errno
}

// ReadFH reads through an open handle; dest is pre-filled with a pattern so that stale bytes show.
func ReadFH(fh fusefs.FileHandle, off int64, n int) ([]byte, syscall.Errno) {
	fr, ok := fh.(fusefs.FileReader)
	if !ok {
		return nil, syscall.ENOSYS
	}
	dest := bytes.Repeat([]byte{0xa5}, n)
	rr, errno := fr.Read(context.Background(), dest, off)
	if errno != 0 {
		return nil, errno
	}
	out, st := rr.Bytes(make([]byte, n))
	if st != fuse.OK {
		return nil, syscall.Errno(st)
	}
	return append([]byte(nil), out...), 0
}

func ReleaseFH(fh fusefs.FileHandle) {
	if r, ok := fh.(fusefs.FileReleaser); ok {
		r.Release(context.Background())
	}
}

// PassthroughContent returns the whole content of the backing file a handle offers for FUSE
// passthrough (at most limit bytes), or ok=false when the handle offers none.
func PassthroughContent(fh fusefs.FileHandle, limit int64) (content []byte, ok bool) {
	pf, isPF := fh.(fusefs.FilePassthroughFder)
	if !isPF {
		return nil, false
	}
	fd, has := pf.PassthroughFd()
	if !has {
		return nil, false
	}
	buf := make([]byte, limit)
	total := 0
	for total < len(buf) {
		n, err := syscall.Pread(fd, buf[total:], int64(total))
		if n <= 0 || err != nil {
			break
		}
		total += n
	}
	return buf[:total], true
}

// Read = Open + Read + Release.
func (t *Tree) Read(p string, off int64, n int) ([]byte, syscall.Errno) {
	fh, errno := t.Open(p)
	if errno != 0 {
		return nil, errno
	}
	defer ReleaseFH(fh)
	return ReadFH(fh, off, n)
}

// ExpectedMtime is the normalisation the format applies to a header's mtime: whole seconds; an unset
// time or the epoch is not recorded and shows as Go's zero time.
func ExpectedMtime(sec int64) (uint64, uint32) {
	if sec == 0 {
		z := time.Time{}
		return uint64(z.Unix()), uint32(z.Nanosecond())
	}
	return uint64(sec), 0
}

// CheckAttr compares a FUSE attribute block with a node of the view; it returns a list of
// "field: got want" differences (empty = equal).
func CheckAttr(a fuse.Attr, n *Node) []string {
	var d []string
	add := func(f string, got, want any) {
		if fmt.Sprint(got) != fmt.Sprint(want) {
			d = append(d, fmt.Sprintf("%s: got %v want %v", f, got, want))
		}
	}
	add("mode", fmt.Sprintf("%o", a.Mode), fmt.Sprintf("%o", n.SysMode))
	add("size", a.Size, n.Size)
	add("blocks", a.Blocks, (n.Size+4095)/4096*8)
	add("blksize", a.Blksize, 4096)
	wantNlink := n.Nlink
	if n.RootExplicit {
		// documented normalisation: a root directory with its own tar entry is reported with one
		// link less by the memory store (its "parent" link is not counted); both values accepted.
		if a.Nlink == wantNlink-1 {
			wantNlink = a.Nlink
		}
	}
	add("nlink", a.Nlink, wantNlink)
	add("uid", a.Uid, n.UID)
	add("gid", a.Gid, n.GID)
	add("rdev", a.Rdev, n.Rdev)
	ms, mns := ExpectedMtime(n.MTime)
	add("mtime", a.Mtime, ms)
	add("mtimensec", a.Mtimensec, mns)
	return d
}
