package verifc02

import (
	"fmt"
	"net/http"
	"strings"
	"sync"

	"github.com/containerd/containerd/v2/core/remotes/docker"
	"github.com/containerd/containerd/v2/pkg/reference"
	"github.com/containerd/stargz-snapshotter/fs/source"
	"github.com/containerd/stargz-snapshotter/internal/verifreg"
)

// ---- transport in front of the registry: faults and stalls for blob fetches -------------------

type RT struct {
	Reg *verifreg.Registry
	mu  sync.Mutex
	// failFetch: every blob fetch (Range GET with Accept-Encoding: identity) fails
	failFetch bool
	// stall: blob fetches block until the channel is closed (or the request is cancelled)
	Stall chan struct{}
	// fetches counts blob fetch requests that reached the transport; ranges collects what they asked
	fetches int
	ranges  [][2]int64
	Stalled int
}

func IsFetch(req *http.Request) bool {
	return req.Method == "GET" && req.Header.Get("Accept-Encoding") == "identity"
}

func ParseRanges(h string) [][2]int64 {
	var out [][2]int64
	for _, part := range strings.Split(strings.TrimPrefix(h, "bytes="), ",") {
		var b, e int64
		if _, err := fmt.Sscanf(strings.TrimSpace(part), "%d-%d", &b, &e); err == nil {
			out = append(out, [2]int64{b, e})
		}
	}
	return out
}

func (rt *RT) RoundTrip(req *http.Request) (*http.Response, error) {
	if IsFetch(req) {
		rt.mu.Lock()
		rt.fetches++
		rt.ranges = append(rt.ranges, ParseRanges(req.Header.Get("Range"))...)
		fail := rt.failFetch
		st := rt.Stall
		if st != nil {
			rt.Stalled++
		}
		rt.mu.Unlock()
		if st != nil {
			select {
			case <-st:
			case <-req.Context().Done():
				return nil, req.Context().Err()
			}
		}
		if fail {
			return nil, fmt.Errorf("verif: registry unreachable")
		}
	}
	return rt.Reg.RoundTrip(req)
}

func (rt *RT) Set(fail bool) {
	rt.mu.Lock()
	rt.failFetch = fail
	rt.mu.Unlock()
}

func (rt *RT) ResetLog() {
	rt.mu.Lock()
	rt.fetches = 0
	rt.ranges = nil
	rt.mu.Unlock()
}

func (rt *RT) Snapshot() (int, [][2]int64) {
	rt.mu.Lock()
	defer rt.mu.Unlock()
	return rt.fetches, append([][2]int64(nil), rt.ranges...)
}

func (rt *RT) Hosts() source.RegistryHosts {
	return func(ref reference.Spec) ([]docker.RegistryHost, error) {
		return []docker.RegistryHost{{
			Client:       &http.Client{Transport: rt},
			Host:         rt.Reg.RegHost,
			Scheme:       "https",
			Path:         "/v2",
			Capabilities: docker.HostCapabilityPull | docker.HostCapabilityResolve,
		}}, nil
	}
}

// SetStall installs (or, with nil, removes) the gate blob fetches wait on.
func (rt *RT) SetStall(ch chan struct{}) {
	rt.mu.Lock()
	rt.Stall = ch
	rt.mu.Unlock()
}

// StalledCount is the number of blob fetches that reached the gate so far.
func (rt *RT) StalledCount() int {
	rt.mu.Lock()
	defer rt.mu.Unlock()
	return rt.Stalled
}
