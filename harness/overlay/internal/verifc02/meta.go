package verifc02

import (
	"archive/tar"
	"encoding/hex"
	"fmt"
	"sort"
	"strings"
	"syscall"

	"github.com/containerd/stargz-snapshotter/internal/verifutil"
	"github.com/hanwen/go-fuse/v2/fuse"
)

// Meta compares what the nodes serve with the archive: every answer goes to the model (ops
// `stat` / `ls` / `xattr`, model = tarView + entryToAttr) and to the Go oracle (View).
type Meta struct {
	T    *Tree
	View map[string]*Node
	Out  *verifutil.Out
	Ctx  string // build options, for messages
	// RootSig, when set, is the signature under which every difference found at the root directory
	// itself is reported (labelled stream of a candidate finding about the root's attributes).
	RootSig string
	// SkipRootAttr leaves the ROOT directory's own attribute block and xattrs out of the oracle (db
	// store only, known finding SigDBRootAttr; the root's listing and every other node are checked).
	SkipRootAttr bool
}

// sig picks the failure signature for path p.
func (s *Meta) sig(p, sig string) string {
	if p == "" && s.RootSig != "" {
		return s.RootSig
	}
	return sig
}

func Hex(s string) string {
	if s == "" {
		return "-"
	}
	return hex.EncodeToString([]byte(s))
}

// emitTar sends the archive (the SPEC input) to the model.
func EmitTar(out *verifutil.Out, ents []Ent) {
	out.Emit("tar.reset", "ok")
	for i, e := range ents {
		var xs []string
		for _, kv := range e.Xattrs {
			xs = append(xs, Hex(kv[0])+"="+Hex(kv[1]))
		}
		x := "-"
		if len(xs) > 0 {
			x = strings.Join(xs, ";")
		}
		out.Emit(fmt.Sprintf("tent %c %s %d %d %d %d %s %d %d %d %s", e.Type, Hex(e.Name), e.Mode, e.UID, e.GID, e.Size,
			Hex(e.Link), e.Maj, e.Min, i, x), "ok")
	}
}

func TypeChar(mode uint32) byte {
	switch mode & syscall.S_IFMT {
	case syscall.S_IFDIR:
		return 'd'
	case syscall.S_IFLNK:
		return 'l'
	case syscall.S_IFCHR:
		return 'c'
	case syscall.S_IFBLK:
		return 'b'
	case syscall.S_IFIFO:
		return 'p'
	case syscall.S_IFSOCK:
		return 's'
	}
	return 'f'
}

// opStat: Lookup + Getattr (+ Readlink) of a path; compared with the model's tarView and with the
// Go oracle.
func (s *Meta) Stat(p string, modelled bool) {
	out := s.Out
	var a fuse.Attr
	var errno syscall.Errno
	var la fuse.Attr
	if p == "" {
		a, errno = s.T.Getattr("")
		la = a
	} else {
		var eo fuse.EntryOut
		_, eo, errno = s.T.Lookup(p)
		la = eo.Attr
		if errno == 0 {
			a, errno = s.T.Getattr(p)
		}
	}
	n, exists := s.View[p]
	res := "noent"
	link := ""
	if errno == 0 {
		if a.Mode&syscall.S_IFMT == syscall.S_IFLNK {
			link, _ = s.T.Readlink(p)
		}
		res = fmt.Sprintf("%o %d %d %d %d %d %d %s", a.Mode, a.Size, a.Nlink, a.Uid, a.Gid, a.Rdev, a.Blocks, Hex(link))
	} else if errno != syscall.ENOENT {
		res = fmt.Sprintf("errno-%d", int(errno))
	}
	if modelled {
		out.Emit("stat "+Hex(p), res)
	}
	out.Count("stat")
	// ---- oracle ----
	if !exists {
		if errno != syscall.ENOENT {
			out.Fail(s.sig(p, "lookup-of-missing-name-succeeded"), fmt.Sprintf("%q is not in the tar but lookup gave errno=%v", p, errno))
		}
		return
	}
	if errno != 0 {
		out.Fail(s.sig(p, "lookup-failed"), fmt.Sprintf("%q is in the tar but lookup/getattr gave %v [%s]", p, errno, s.Ctx))
		return
	}
	if p == "" && s.SkipRootAttr {
		// known finding SigDBRootAttr: only "the root is a directory" is checked here
		if a.Mode&syscall.S_IFMT != syscall.S_IFDIR {
			out.Fail("root-not-a-directory", fmt.Sprintf("getattr of the root: mode %o", a.Mode))
		}
		return
	}
	if d := CheckAttr(a, n); len(d) > 0 {
		out.Fail(s.sig(p, "attr-differs-"+strings.SplitN(d[0], ":", 2)[0]), fmt.Sprintf("getattr %q (entry %q): %s", p, n.Path, strings.Join(d, "; ")))
	}
	if p != "" {
		if d := CheckAttr(la, n); len(d) > 0 {
			out.Fail(s.sig(p, "lookup-attr-differs-"+strings.SplitN(d[0], ":", 2)[0]), fmt.Sprintf("lookup %q (entry %q): %s", p, n.Path, strings.Join(d, "; ")))
		}
		if la.Ino != a.Ino {
			out.Fail(s.sig(p, "ino-differs-lookup-getattr"), fmt.Sprintf("%q: lookup ino %d getattr ino %d", p, la.Ino, a.Ino))
		}
	}
	if n.Type == tar.TypeSymlink && link != n.Link {
		out.Fail(s.sig(p, "readlink-differs"), fmt.Sprintf("%q: %q want %q", p, link, n.Link))
	}
}

// opLs: Readdir of a directory; names and types against the tar.
func (s *Meta) Ls(p string, modelled bool) {
	out := s.Out
	ents, errno := s.T.Readdir(p)
	res := "noent"
	var names []string
	gotType := map[string]byte{}
	gotIno := map[string]uint64{}
	dots := 0
	if errno == 0 {
		for _, e := range ents {
			if e.Name == "." || e.Name == ".." {
				dots++
				continue
			}
			names = append(names, e.Name)
			gotType[e.Name] = TypeChar(e.Mode)
			gotIno[e.Name] = e.Ino
		}
		sort.Strings(names)
		var xs []string
		for _, n := range names {
			xs = append(xs, Hex(n)+":"+string(gotType[n]))
		}
		res = "-"
		if len(xs) > 0 {
			res = strings.Join(xs, ",")
		}
	}
	if modelled {
		out.Emit("ls "+Hex(p), res)
	}
	out.Count("ls")
	n, exists := s.View[p]
	if !exists || n.Type != tar.TypeDir {
		return
	}
	if errno != 0 {
		out.Fail("readdir-failed", fmt.Sprintf("readdir %q: %v", p, errno))
		return
	}
	want := Children(s.View, p)
	if strings.Join(names, "\x00") != strings.Join(want, "\x00") {
		out.Fail("listing-differs", fmt.Sprintf("readdir %q: got %q, the tar has %q [%s]", p, names, want, s.Ctx))
		return
	}
	if dots != 2 {
		out.Fail("listing-dot-entries", fmt.Sprintf("readdir %q: %d of '.' '..'", p, dots))
	}
	for _, c := range want {
		cp := c
		if p != "" {
			cp = p + "/" + c
		}
		cn := s.View[cp]
		if TypeChar(cn.SysMode) != gotType[c] {
			out.Fail("dirent-type-differs", fmt.Sprintf("readdir %q: %q has type %c want %c", p, c, gotType[c], TypeChar(cn.SysMode)))
		}
		if a, errno := s.T.Getattr(cp); errno == 0 && a.Ino != gotIno[c] {
			out.Fail("dirent-ino-differs", fmt.Sprintf("readdir %q: %q ino %d, getattr ino %d", p, c, gotIno[c], a.Ino))
		}
	}
}

// opXattr: Getxattr / Listxattr against the PAX records.
func (s *Meta) Xattr(p, name string, modelled bool) {
	out := s.Out
	n, exists := s.View[p]
	if !exists {
		return
	}
	v, sz, errno := s.T.Getxattr(p, name, 256)
	res := "nodata"
	if errno == 0 {
		res = "v=" + Hex(string(v))
	} else if errno != syscall.ENODATA {
		res = fmt.Sprintf("errno-%d", int(errno))
	}
	if modelled {
		out.Emit(fmt.Sprintf("xattr %s %s", Hex(p), Hex(name)), res)
	}
	out.Count("xattr")
	if p == "" && s.SkipRootAttr {
		return
	}
	want, has := n.Xattrs[name]
	if has {
		if errno != 0 || string(v) != want {
			out.Fail(s.sig(p, "xattr-differs"), fmt.Sprintf("getxattr %q %q: %q errno=%v want %q", p, name, v, errno, want))
		}
		// a too small buffer reports the size with ERANGE
		if len(want) > 0 {
			_, sz2, e2 := s.T.Getxattr(p, name, len(want)-1)
			if e2 != syscall.ERANGE || int(sz2) != len(want) {
				out.Fail(s.sig(p, "xattr-erange"), fmt.Sprintf("getxattr %q %q with a short buffer: size=%d errno=%v", p, name, sz2, e2))
			}
		}
		_ = sz
	} else if errno != syscall.ENODATA {
		out.Fail(s.sig(p, "xattr-unexpected"), fmt.Sprintf("getxattr %q %q: errno=%v value %q, the tar has none", p, name, errno, v))
	}
	lst, errno := s.T.Listxattr(p)
	var wl []string
	for k := range n.Xattrs {
		wl = append(wl, k)
	}
	sort.Strings(wl)
	if errno != 0 || strings.Join(lst, "\x00") != strings.Join(wl, "\x00") {
		out.Fail(s.sig(p, "listxattr-differs"), fmt.Sprintf("listxattr %q: %q errno=%v want %q", p, lst, errno, wl))
	}
}
