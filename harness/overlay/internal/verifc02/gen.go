// Package verifc02 holds what the C02/C15 harnesses of fs/layer (memory metadata store, in-package)
// and of cmd/containerd-stargz-grpc/db (db metadata store) share: the random tar generator, the
// payload formula known to the Lean driver, the real Build under random options, a TOC reader, and
// an independent Go implementation of "what the tar archive describes" used as the property oracle.
// It uses exported API only and is injected with `go test -overlay` like every harness file.
package verifc02

import (
	"archive/tar"
	"bytes"
	"compress/gzip"
	"fmt"
	"io"
	"path"
	"sort"
	"strings"
	"time"

	"github.com/containerd/stargz-snapshotter/estargz"
	"github.com/containerd/stargz-snapshotter/estargz/zstdchunked"
	"github.com/containerd/stargz-snapshotter/internal/verifutil"
	"github.com/klauspost/compress/zstd"
	digest "github.com/opencontainers/go-digest"
)

// Signatures of the KNOWN findings of the db store (findings/known_findings.txt); their witnesses run
// in a pass of their own (TestVerifC02DBKnown).  The other three findings of the first round are
// repaired in /repo (8686934, 46fe897, eb6fe18); their witnesses are regression scenarios of the main
// streams now and fail under the ordinary signatures.
const (
	// db store: GetAttr(rootID) does not wait for the asynchronous TOC import, so the root node is
	// created with the placeholder attributes (0755, nlink 2, no owner/mtime/xattrs) instead of the
	// ones of the archive's root entry / its subdirectory count.
	SigDBRootAttr = "db-root-attr-read-before-init"
	// db store: a directory entry that comes after an entry below it (the directory was created
	// implicitly first) registers the directory as a child of its parent a second time, and the
	// parent's link count is incremented twice.
	SigDBLateDir = "db-dir-nlink-double-counted-late-dir-entry"
)

// Ent is one tar header to be written (+ the formula of its payload).
type Ent struct {
	Name   string // as written into the header
	Type   byte   // tar.TypeReg, TypeDir, TypeSymlink, TypeLink, TypeChar, TypeBlock, TypeFifo
	Mode   int64  // permission bits | 04000 | 02000 | 01000
	UID    int
	GID    int
	Size   int64
	Kind   int // payload formula
	Salt   int64
	Link   string // symlink target / hardlink name (as written)
	Maj    int64
	Min    int64
	Xattrs [][2]string
	MTime  int64 // unix seconds; 0 = unset
}

// Content is the payload formula shared with the Lean driver (SV.Driver.LazyRead.content).
// kind 0: periodic (compressible); kind 1: LCG (incompressible).
func Content(size int64, kind int, salt int64) []byte {
	b := make([]byte, size)
	if kind == 0 {
		for i := int64(0); i < size; i++ {
			b[i] = byte((i*131 + salt*17 + i/251) % 251)
		}
		return b
	}
	x := uint32((uint64(salt)*2654435761 + 12345) % 4294967296)
	for i := int64(0); i < size; i++ {
		x = x*1664525 + 1013904223
		b[i] = byte(x >> 24)
	}
	return b
}

// MixSeed scatters VERIF_SEED before it is handed to verifutil.NewRand: NewRand(k+1) is the stream
// of NewRand(k) advanced by one draw (the generator's state is seed*golden and each draw adds
// golden), so neighbouring seeds would replay almost the same histories.
func MixSeed(seed uint64, salt uint64) uint64 {
	z := seed*0xD6E8FEB86659FD93 + salt*0x9E3779B97F4A7C15 + 0x632BE59BD9B4E019
	z = (z ^ (z >> 30)) * 0xBF58476D1CE4E5B9
	z = (z ^ (z >> 27)) * 0x94D049BB133111EB
	return z ^ (z >> 31)
}

func Fnv(b []byte) uint32 {
	h := uint32(2166136261)
	for _, x := range b {
		h = (h ^ uint32(x)) * 16777619
	}
	return h
}

// Clean is the name normalisation of the format: path.Clean("/"+name) minus the leading slash.
func Clean(name string) string { return strings.TrimPrefix(path.Clean("/"+name), "/") }

// GenParams sizes the generator.
type GenParams struct {
	MaxEntries int
	ChunkHint  int64 // file sizes are chosen around multiples of this
	MaxFile    int64
	// NoLateDirs: never emit a directory entry after an entry below that directory (labelled
	// candidate finding SigDBLateDir of the db store).
	NoLateDirs bool
}

var verifDirPool = []string{"a", "b", "a/c", "a/c/d", "usr/bin", "b/e"}
var verifBasePool = []string{"f", "g", "h.txt", "x y", "lib.so.1", "é", "k", "m", "n", ".hidden", "zz"}
var verifPrefixes = []string{"", "", "", "./", "/", "../", "./../", "a/../", "//", "./."}

func rawName(rnd *verifutil.Rand, clean string, dir bool) string {
	p := verifPrefixes[rnd.Intn(len(verifPrefixes))]
	if strings.HasSuffix(p, ".") && p != "./." {
		p += "/"
	}
	n := p + clean
	if p == "./." {
		n = "././" + clean
	}
	if dir && rnd.Intn(3) != 0 {
		n += "/"
	}
	return n
}

func genMode(rnd *verifutil.Rand) int64 {
	m := []int64{0, 0o644, 0o755, 0o777, 0o400, 0o600, 0o111, 0o750}[rnd.Intn(8)]
	if rnd.Intn(4) == 0 {
		m |= []int64{0o4000, 0o2000, 0o1000, 0o6000, 0o7000, 0o3000}[rnd.Intn(6)]
	}
	return m
}

func genOwner(rnd *verifutil.Rand) int {
	return []int{0, 0, 1000, 65534, 1, 3000000}[rnd.Intn(6)]
}

func genSize(rnd *verifutil.Rand, p GenParams) int64 {
	c := p.ChunkHint
	if c <= 0 {
		c = 64
	}
	var s int64
	switch rnd.Intn(10) {
	case 0:
		s = 0
	case 1:
		s = 1
	case 2:
		s = c
	case 3:
		s = c - 1
	case 4:
		s = c + 1
	case 5:
		s = c*rnd.Range(2, 4) + rnd.Range(-1, 1)
	case 6:
		s = c * rnd.Range(2, 5)
	default:
		s = rnd.Range(1, 3*c)
	}
	if s < 0 {
		s = 0
	}
	if p.MaxFile > 0 && s > p.MaxFile {
		s = p.MaxFile
	}
	return s
}

func genXattrs(rnd *verifutil.Rand) [][2]string {
	if rnd.Intn(3) != 0 {
		return nil
	}
	var xs [][2]string
	n := 1 + rnd.Intn(3)
	names := []string{"user.foo", "user.bar", "security.capability", "trusted.x", "user.empty"}
	used := map[string]bool{}
	for i := 0; i < n; i++ {
		k := names[rnd.Intn(len(names))]
		if used[k] {
			continue
		}
		used[k] = true
		v := []string{"v", "", "a longer value with spaces", "\x01\x02binary\x7f", "y"}[rnd.Intn(5)]
		if k == "user.empty" {
			v = ""
		}
		xs = append(xs, [2]string{k, v})
	}
	return xs
}

func genMTime(rnd *verifutil.Rand) int64 {
	return []int64{0, 1, 1000000000, 1700000000, 86400, 4102444800}[rnd.Intn(6)]
}

// GenTar produces a random archive over the supported entry types: names with ./ ../ / prefixes,
// implicit parents, hardlink chains, duplicates, empty and multi-chunk files, symlinks, devices,
// fifos, PAX xattrs, an optional entry for the root itself.
// Not generated (documented): a non-directory used as a parent; a hardlink whose target is
// (re)defined later in the archive (sequential extraction and the by-name resolution of the format
// disagree about that archive, so "what the tar describes" is ambiguous); whiteouts (C07).
func GenTar(rnd *verifutil.Rand, p GenParams) []Ent {
	if p.MaxEntries <= 0 {
		p.MaxEntries = 10
	}
	var ents []Ent
	kind := map[string]byte{} // clean name -> type of the last definition
	linkTarget := map[string]bool{}
	var nondirs []string
	salt := int64(rnd.Intn(1000))
	if rnd.Intn(4) == 0 {
		// the root itself
		ents = append(ents, Ent{Name: []string{"./", "/", ".", "./."}[rnd.Intn(4)], Type: tar.TypeDir,
			Mode: genMode(rnd), UID: genOwner(rnd), GID: genOwner(rnd), MTime: genMTime(rnd), Xattrs: genXattrs(rnd)})
		kind[""] = tar.TypeDir
	}
	n := 1 + rnd.Intn(p.MaxEntries)
	newName := func(dirOK bool) (string, bool) {
		for try := 0; try < 20; try++ {
			d := ""
			if rnd.Intn(3) != 0 {
				d = verifDirPool[rnd.Intn(len(verifDirPool))]
			}
			// no non-directory may be an ancestor
			bad := false
			for q := d; q != ""; q = path.Dir(q) {
				if t, ok := kind[q]; ok && t != tar.TypeDir {
					bad = true
				}
				if !strings.Contains(q, "/") {
					break
				}
			}
			if bad {
				continue
			}
			if dirOK && rnd.Intn(3) == 0 && d != "" {
				if _, ok := kind[d]; !ok {
					late := false
					for k := range kind {
						if strings.HasPrefix(k, d+"/") {
							late = true
						}
					}
					if !(late && p.NoLateDirs) {
						return d, true
					}
				}
			}
			b := verifBasePool[rnd.Intn(len(verifBasePool))]
			c := b
			if d != "" {
				c = d + "/" + b
			}
			if _, ok := kind[c]; ok {
				continue
			}
			// c must not be a used directory prefix
			isPrefix := false
			for k := range kind {
				if strings.HasPrefix(k, c+"/") {
					isPrefix = true
				}
			}
			for _, dp := range verifDirPool {
				if dp == c || strings.HasPrefix(dp, c+"/") {
					isPrefix = true
				}
			}
			if isPrefix {
				continue
			}
			return c, false
		}
		return "", false
	}
	addNonDir := func(c string) {
		typ := rnd.Pick(10, 2, 2, 1, 1, 1)
		e := Ent{Name: rawName(rnd, c, false), Mode: genMode(rnd), UID: genOwner(rnd), GID: genOwner(rnd),
			MTime: genMTime(rnd), Xattrs: genXattrs(rnd)}
		switch typ {
		case 0:
			e.Type = tar.TypeReg
			e.Size = genSize(rnd, p)
			e.Kind = rnd.Intn(2)
			salt++
			e.Salt = salt
		case 1:
			e.Type = tar.TypeSymlink
			e.Link = []string{"f", "../x", "/abs/olute", "a/very/long/relative/target/name", "."}[rnd.Intn(5)]
		case 2:
			if len(nondirs) == 0 {
				e.Type = tar.TypeReg
				break
			}
			e.Type = tar.TypeLink
			t := nondirs[rnd.Intn(len(nondirs))]
			e.Link = rawName(rnd, t, false)
			e.Xattrs = nil
			linkTarget[t] = true
		case 3:
			e.Type = tar.TypeChar
			e.Maj, e.Min = []int64{0, 1, 5, 255, 4095, 4096, 70000}[rnd.Intn(7)], []int64{0, 3, 255, 256, 1048575, 5}[rnd.Intn(6)]
		case 4:
			e.Type = tar.TypeBlock
			e.Maj, e.Min = []int64{8, 259, 4097}[rnd.Intn(3)], []int64{0, 1, 300, 65536}[rnd.Intn(4)]
		case 5:
			e.Type = tar.TypeFifo
		}
		ents = append(ents, e)
		kind[c] = e.Type
		nondirs = append(nondirs, c)
	}
	for i := 0; i < n; i++ {
		c, isDir := newName(true)
		if c == "" {
			continue
		}
		if isDir {
			ents = append(ents, Ent{Name: rawName(rnd, c, true), Type: tar.TypeDir, Mode: genMode(rnd),
				UID: genOwner(rnd), GID: genOwner(rnd), MTime: genMTime(rnd), Xattrs: genXattrs(rnd)})
			kind[c] = tar.TypeDir
			continue
		}
		addNonDir(c)
	}
	// explicit directory entries for implicit parents that come AFTER their children
	if rnd.Intn(3) == 0 && !p.NoLateDirs {
		for _, d := range verifDirPool {
			if _, ok := kind[d]; ok {
				continue
			}
			used := false
			for k := range kind {
				if strings.HasPrefix(k, d+"/") {
					used = true
				}
			}
			if used && rnd.Bool() {
				ents = append(ents, Ent{Name: rawName(rnd, d, true), Type: tar.TypeDir, Mode: genMode(rnd),
					UID: genOwner(rnd), GID: genOwner(rnd), MTime: genMTime(rnd)})
				kind[d] = tar.TypeDir
			}
		}
	}
	// duplicates: redefine names that are not hardlink targets; directories stay directories
	ndup := rnd.Pick(3, 2, 1)
	for i := 0; i < ndup && len(kind) > 0; i++ {
		var names []string
		for k := range kind {
			names = append(names, k)
		}
		sort.Strings(names)
		c := names[rnd.Intn(len(names))]
		if linkTarget[c] {
			continue
		}
		if kind[c] == tar.TypeDir {
			if p.NoLateDirs {
				continue
			}
			ents = append(ents, Ent{Name: rawName(rnd, c, true), Type: tar.TypeDir, Mode: genMode(rnd),
				UID: genOwner(rnd), GID: genOwner(rnd), MTime: genMTime(rnd), Xattrs: genXattrs(rnd)})
			continue
		}
		// drop it from the hardlink candidates under its old meaning, then redefine
		for j, x := range nondirs {
			if x == c {
				nondirs = append(nondirs[:j], nondirs[j+1:]...)
				break
			}
		}
		addNonDir(c)
	}
	return ents
}

// DedupLast keeps the last definition of every clean name (what Build does with duplicates).
func DedupLast(ents []Ent) []Ent {
	last := map[string]int{}
	for i, e := range ents {
		last[Clean(e.Name)] = i
	}
	var out []Ent
	for i, e := range ents {
		if last[Clean(e.Name)] == i {
			out = append(out, e)
		}
	}
	return out
}

// WriteTar serialises the entries.
func WriteTar(ents []Ent) ([]byte, error) {
	var buf bytes.Buffer
	tw := tar.NewWriter(&buf)
	for _, e := range ents {
		h := &tar.Header{Name: e.Name, Typeflag: e.Type, Mode: e.Mode, Uid: e.UID, Gid: e.GID,
			Linkname: e.Link, Devmajor: e.Maj, Devminor: e.Min}
		if e.MTime != 0 {
			h.ModTime = time.Unix(e.MTime, 0)
		}
		if e.Type == tar.TypeReg {
			h.Size = e.Size
		}
		if len(e.Xattrs) > 0 {
			h.Format = tar.FormatPAX
			h.PAXRecords = map[string]string{}
			for _, kv := range e.Xattrs {
				h.PAXRecords["SCHILY.xattr."+kv[0]] = kv[1]
			}
		}
		if err := tw.WriteHeader(h); err != nil {
			return nil, fmt.Errorf("tar header %q: %w", e.Name, err)
		}
		if e.Type == tar.TypeReg {
			if _, err := tw.Write(Content(e.Size, e.Kind, e.Salt)); err != nil {
				return nil, err
			}
		}
	}
	if err := tw.Close(); err != nil {
		return nil, err
	}
	return buf.Bytes(), nil
}

// BuildOpts are the options of the real Build.
type BuildOpts struct {
	ChunkSize    int
	MinChunkSize int
	Zstd         bool
	Prioritized  []string
	Plain        bool // estargz.Writer without Build: no landmark at all
}

func (o BuildOpts) String() string {
	return fmt.Sprintf("chunk=%d min=%d zstd=%v prio=%d plain=%v", o.ChunkSize, o.MinChunkSize, o.Zstd, len(o.Prioritized), o.Plain)
}

// GenBuildOpts picks random build options; prioritized files are existing names in random raw forms.
func GenBuildOpts(rnd *verifutil.Rand, ents []Ent) BuildOpts {
	o := BuildOpts{
		ChunkSize:    []int{0, 7, 33, 64, 500, 4096}[rnd.Intn(6)],
		MinChunkSize: []int{0, 0, 0, 100, 2000, 100000}[rnd.Intn(6)],
		Zstd:         rnd.Intn(3) == 0,
	}
	if rnd.Intn(2) == 0 {
		seen := map[string]bool{}
		explicit := map[string]bool{}
		for _, e := range ents {
			explicit[Clean(e.Name)] = true
		}
		for _, e := range ents {
			c := Clean(e.Name)
			if c == "" || seen[c] || rnd.Intn(3) != 0 {
				continue
			}
			// the builder refuses a prioritized name below a directory that has no tar entry
			// ("file: ... not found"); that is the builder's contract (C14), not a subject of C02
			okParents := true
			// ... and it moves a hardlink's target (chain) first, with the same demand on its parents
			cur, curE := c, e
			for i := len(ents) - 1; i >= 0; i-- {
				if Clean(ents[i].Name) == c {
					curE = ents[i] // the last definition is the one that counts
					break
				}
			}
			selfE := curE
			for hop := 0; hop <= len(ents) && okParents; hop++ {
				for d := path.Dir(cur); d != "." && d != "/" && d != ""; d = path.Dir(d) {
					if !explicit[d] {
						okParents = false
					}
				}
				if curE.Type != tar.TypeLink {
					break
				}
				cur = Clean(curE.Link)
				found := false
				for i := len(ents) - 1; i >= 0; i-- {
					if Clean(ents[i].Name) == cur {
						curE, found = ents[i], true
						break
					}
				}
				if !found {
					okParents = false
				}
			}
			if !okParents {
				continue
			}
			seen[c] = true
			o.Prioritized = append(o.Prioritized, rawName(rnd, c, selfE.Type == tar.TypeDir))
		}
		// shuffle
		for i := len(o.Prioritized) - 1; i > 0; i-- {
			j := rnd.Intn(i + 1)
			o.Prioritized[i], o.Prioritized[j] = o.Prioritized[j], o.Prioritized[i]
		}
	}
	return o
}

// Build runs the REAL builder.
func Build(tarBytes []byte, o BuildOpts) (blob []byte, tocDigest digest.Digest, err error) {
	var comp estargz.Compression
	if o.Zstd {
		comp = zstdCompression{&zstdchunked.Compressor{CompressionLevel: zstd.SpeedFastest}, &zstdchunked.Decompressor{}}
	} else {
		comp = gzipCompression{estargz.NewGzipCompressorWithLevel(gzip.BestSpeed), &estargz.GzipDecompressor{}}
	}
	if o.Plain {
		var buf bytes.Buffer
		w := estargz.NewWriterWithCompressor(&buf, comp)
		w.ChunkSize = o.ChunkSize
		w.MinChunkSize = o.MinChunkSize
		if err := w.AppendTar(bytes.NewReader(tarBytes)); err != nil {
			return nil, "", err
		}
		d, err := w.Close()
		if err != nil {
			return nil, "", err
		}
		return buf.Bytes(), d, nil
	}
	opts := []estargz.Option{estargz.WithChunkSize(o.ChunkSize), estargz.WithMinChunkSize(o.MinChunkSize),
		estargz.WithPrioritizedFiles(o.Prioritized), estargz.WithCompression(comp)}
	rc, err := estargz.Build(io.NewSectionReader(bytes.NewReader(tarBytes), 0, int64(len(tarBytes))), opts...)
	if err != nil {
		return nil, "", err
	}
	defer rc.Close()
	b, err := io.ReadAll(rc)
	if err != nil {
		return nil, "", err
	}
	return b, rc.TOCDigest(), nil
}

type zstdCompression struct {
	*zstdchunked.Compressor
	*zstdchunked.Decompressor
}
type gzipCompression struct {
	*estargz.GzipCompressor
	*estargz.GzipDecompressor
}

// ParseTOC reads the TOC of a blob independently of the metadata stores.
func ParseTOC(blob []byte, isZstd bool) (*estargz.JTOC, error) {
	var d estargz.Decompressor = &estargz.GzipDecompressor{}
	if isZstd {
		d = &zstdchunked.Decompressor{}
	}
	fs := d.FooterSize()
	if int64(len(blob)) < fs {
		return nil, fmt.Errorf("blob too small")
	}
	_, tocOff, tocSize, err := d.ParseFooter(blob[int64(len(blob))-fs:])
	if err != nil {
		return nil, err
	}
	if tocSize <= 0 {
		tocSize = int64(len(blob)) - tocOff - fs
	}
	toc, _, err := d.ParseTOC(bytes.NewReader(blob[tocOff : tocOff+tocSize]))
	return toc, err
}

// TocChunk is one chunk of a regular file as recorded in the TOC.
type TocChunk struct {
	ChunkOffset, ChunkSize, Offset, InnerOffset int64
}

// TocFile is a regular file of the TOC.
type TocFile struct {
	Name   string // clean
	Size   int64
	Chunks []TocChunk
	// End of the compressed extent [Chunks[0].Offset, End) a reader of this file may touch.
	End int64
}

// TocLine is one TOC entry in order, for the model of the pre-read loop.
type TocLine struct {
	Data                                        bool
	File                                        string
	ChunkOffset, ChunkSize, Offset, InnerOffset int64
}

// TocLayout extracts regular files (clean name -> chunks), the ordered entry list and the landmark
// facts from a TOC.
func TocLayout(toc *estargz.JTOC, blobSize int64) (files map[string]*TocFile, lines []TocLine, noPrefetch bool, prefetchOff int64) {
	files = map[string]*TocFile{}
	prefetchOff = -1
	var last *TocFile
	for _, e := range toc.Entries {
		switch e.Type {
		case "reg":
			name := Clean(e.Name)
			f := &TocFile{Name: name, Size: e.Size}
			files[name] = f
			last = f
			cs := e.ChunkSize
			if cs == 0 {
				cs = e.Size
			}
			if e.Size > 0 {
				f.Chunks = append(f.Chunks, TocChunk{0, cs, e.Offset, e.InnerOffset})
			}
			lines = append(lines, TocLine{true, name, 0, cs, e.Offset, e.InnerOffset})
			if name == estargz.NoPrefetchLandmark {
				noPrefetch = true
			}
			if name == estargz.PrefetchLandmark {
				prefetchOff = e.Offset
			}
		case "chunk":
			if last == nil {
				continue
			}
			cs := e.ChunkSize
			if cs == 0 {
				cs = last.Size - e.ChunkOffset
			}
			last.Chunks = append(last.Chunks, TocChunk{e.ChunkOffset, cs, e.Offset, e.InnerOffset})
			lines = append(lines, TocLine{true, last.Name, e.ChunkOffset, cs, e.Offset, e.InnerOffset})
		default:
			lines = append(lines, TocLine{false, Clean(e.Name), 0, 0, e.Offset, e.InnerOffset})
		}
	}
	// nextOffset as initFields computes it
	lastOffset := blobSize
	// the TOC itself starts where the payload ends; the real code uses the section size, which is
	// the whole blob, so keep that.
	var curFile *TocFile
	ends := map[*TocFile]int64{}
	// walk backwards over entries, tracking the file each data entry belongs to
	owner := make([]*TocFile, len(toc.Entries))
	{
		var l *TocFile
		for i, e := range toc.Entries {
			if e.Type == "reg" {
				l = files[Clean(e.Name)]
				// duplicates never occur after Build; keep the entry's own file
				owner[i] = l
			} else if e.Type == "chunk" {
				owner[i] = l
			}
		}
	}
	for i := len(toc.Entries) - 1; i >= 0; i-- {
		e := toc.Entries[i]
		if e.Type == "reg" || e.Type == "chunk" {
			if owner[i] != nil && owner[i] != curFile {
				curFile = owner[i]
				ends[curFile] = lastOffset // nextOffset of the file's final entry
			}
		}
		if e.Offset != 0 && e.InnerOffset == 0 {
			lastOffset = e.Offset
		}
	}
	for f, end := range ends {
		f.End = end
	}
	return
}

// ---------------------------------------------------------------------------------------------
// The oracle: what the archive describes.

// Node is one node of the described filesystem.
type Node struct {
	Path    string // clean path of the real entry (hardlinks resolved); identity of the inode
	Type    byte
	SysMode uint32 // expected st_mode
	Size    uint64
	Nlink   uint32
	UID     uint32
	GID     uint32
	Rdev    uint32
	Link    string
	Xattrs  map[string]string
	MTime   int64 // unix seconds, 0 = unset
	Content []byte
	// RootExplicit marks the root directory that has its own tar entry (see View).
	RootExplicit bool
}

func Mkdev(major, minor uint32) uint64 {
	dev := (uint64(major) & 0x00000fff) << 8
	dev |= (uint64(major) & 0xfffff000) << 32
	dev |= (uint64(minor) & 0x000000ff) << 0
	dev |= (uint64(minor) & 0xffffff00) << 12
	return dev
}

func sysMode(typ byte, mode int64) uint32 {
	m := uint32(mode & 0o777)
	switch typ {
	case tar.TypeDir:
		m |= 0o040000
	case tar.TypeSymlink:
		m |= 0o120000
	case tar.TypeChar:
		m |= 0o020000
	case tar.TypeBlock:
		m |= 0o060000
	case tar.TypeFifo:
		m |= 0o010000
	default:
		m |= 0o100000
	}
	m |= uint32(mode & 0o7000)
	return m
}

// View computes the filesystem an archive describes (independently of the Lean `tarView`):
// last duplicate wins; implicit parents are 0755 root:root directories; a hardlink is another name of
// its target; nlink = 1 + #hardlinks for non-directories, 2 + #subdirectories for directories.
// The result maps clean paths ("" = root) to nodes; names that are hardlinks map to the node of their
// target (same *Node).
func View(ents []Ent) map[string]*Node {
	// last duplicate wins
	last := map[string]int{}
	for i, e := range ents {
		last[Clean(e.Name)] = i
	}
	live := map[string]Ent{}
	var order []string
	for i, e := range ents {
		c := Clean(e.Name)
		if last[c] == i {
			live[c] = e
			order = append(order, c)
		}
	}
	v := map[string]*Node{}
	for _, c := range order {
		e := live[c]
		if e.Type == tar.TypeLink {
			continue
		}
		n := &Node{Path: c, Type: e.Type, SysMode: sysMode(e.Type, e.Mode), UID: uint32(e.UID), GID: uint32(e.GID),
			MTime: e.MTime, Xattrs: map[string]string{}, Nlink: 1}
		for _, kv := range e.Xattrs {
			n.Xattrs[kv[0]] = kv[1]
		}
		switch e.Type {
		case tar.TypeReg:
			n.Size = uint64(e.Size)
			n.Content = Content(e.Size, e.Kind, e.Salt)
		case tar.TypeSymlink:
			n.Link = e.Link
			n.Size = uint64(len(e.Link))
		case tar.TypeChar, tar.TypeBlock:
			n.Rdev = uint32(Mkdev(uint32(e.Maj), uint32(e.Min)))
		case tar.TypeDir:
			n.Nlink = 2
			if c == "" {
				n.RootExplicit = true
			}
		}
		v[c] = n
	}
	// hardlinks (chains resolve by name)
	for _, c := range order {
		e := live[c]
		if e.Type != tar.TypeLink {
			continue
		}
		t := Clean(e.Link)
		for i := 0; i <= len(order); i++ {
			le, ok := live[t]
			if !ok || le.Type != tar.TypeLink {
				break
			}
			t = Clean(le.Link)
		}
		if n, ok := v[t]; ok {
			n.Nlink++
			v[c] = n
		}
	}
	// implicit parents
	if _, ok := v[""]; !ok {
		v[""] = &Node{Path: "", Type: tar.TypeDir, SysMode: 0o040755, Nlink: 2, Xattrs: map[string]string{}}
	}
	for _, c := range order {
		for d := path.Dir(c); d != "." && d != "/" && d != ""; d = path.Dir(d) {
			if _, ok := v[d]; !ok {
				v[d] = &Node{Path: d, Type: tar.TypeDir, SysMode: 0o040755, Nlink: 2, Xattrs: map[string]string{}}
			}
		}
	}
	// subdirectories
	for c, n := range v {
		if c == "" || n.Type != tar.TypeDir || n.Path != c {
			continue
		}
		p := path.Dir(c)
		if p == "." {
			p = ""
		}
		v[p].Nlink++
	}
	return v
}

// Children lists the base names directly below dir in the view, sorted.
func Children(v map[string]*Node, dir string) []string {
	var out []string
	for c := range v {
		if c == "" {
			continue
		}
		p := path.Dir(c)
		if p == "." {
			p = ""
		}
		if p == dir {
			out = append(out, path.Base(c))
		}
	}
	sort.Strings(out)
	return out
}

// Paths returns every path of the view, sorted.
func Paths(v map[string]*Node) []string {
	var out []string
	for c := range v {
		out = append(out, c)
	}
	sort.Strings(out)
	return out
}
