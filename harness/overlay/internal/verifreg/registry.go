// Package verifreg is an in-memory OCI registry (an http.RoundTripper) whose answer to every
// request is chosen by a script, used by the verification harnesses to play "server
// personalities" (multipart, single range, squashed range, whole body, redirect, expiring URL,
// 400 on multi-range, failures).  Injected with `go build -overlay`; never committed to the repo.
package verifreg

import (
	"bytes"
	"fmt"
	"io"
	"mime/multipart"
	"net/http"
	"net/textproto"
	"sort"
	"strconv"
	"strings"
	"sync"

	"github.com/containerd/containerd/v2/core/remotes/docker"
	"github.com/containerd/containerd/v2/pkg/reference"
	"github.com/containerd/stargz-snapshotter/fs/source"
)

// Mode is how the server answers one blob request.
type Mode int

const (
	Multi     Mode = iota // 206 multipart/byteranges with exactly the requested ranges (single range: plain 206)
	Squash                // 206 with ONE part covering the super-range of the requested ranges
	Whole                 // 200 with the whole blob
	Redirect              // 307 to the CDN host (only meaningful on the registry host)
	Forbidden             // 403 (expired URL)
	BadReq                // 400 if more than one range was requested, otherwise like Multi
	ServerErr             // 500
	NetErr                // transport error
	Short                 // like Multi but every part body is truncated by one byte
	NotFound              // 404
	Unauth                // 401 with a Www-Authenticate challenge
	FirstOnly             // 206 with only the FIRST requested range (an honest but partial answer)
)

var ModeNames = []string{"multi", "squash", "whole", "redirect", "forbidden", "badreq", "servererr", "neterr", "short", "notfound", "unauth", "firstonly"}

func (m Mode) String() string { return ModeNames[m] }

// ReqLog is one request as seen by the server.
type ReqLog struct {
	Method string
	Host   string
	Path   string
	Range  string
	Header http.Header
	Mode   Mode
	Status int
	// Parts served in a 200/206 answer to a blob GET: {begin, end (as announced), body length}.
	Parts [][3]int64
}

// Registry serves blobs by digest on two hosts: RegHost (the registry) and CDNHost (where
// redirects point).  Script picks the Mode of each request; nil means Multi.
type Registry struct {
	RegHost string
	CDNHost string

	mu     sync.Mutex
	blobs  map[string][]byte // digest -> content
	log    []ReqLog
	Script func(req *http.Request, onCDN bool, seq int) Mode
	// Extra, when set, may answer requests for paths other than blobs (manifests, tokens...).
	Extra func(req *http.Request) *http.Response
	seq   int
	// CDNToken is the query token currently accepted by the CDN; a CDN URL carrying an older
	// token is answered 403 ("expired").  Redirects hand out the current token.
	CDNToken int
}

func New() *Registry {
	return &Registry{RegHost: "reg.test", CDNHost: "cdn.test", blobs: map[string][]byte{}}
}

func (r *Registry) AddBlob(dgst string, data []byte) {
	r.mu.Lock()
	r.blobs[dgst] = data
	r.mu.Unlock()
}

// ExpireCDN invalidates every redirect URL handed out so far.
func (r *Registry) ExpireCDN() {
	r.mu.Lock()
	r.CDNToken++
	r.mu.Unlock()
}

func (r *Registry) Log() []ReqLog {
	r.mu.Lock()
	defer r.mu.Unlock()
	out := make([]ReqLog, len(r.log))
	copy(out, r.log)
	return out
}

func (r *Registry) ResetLog() {
	r.mu.Lock()
	r.log = nil
	r.mu.Unlock()
}

// Hosts returns a source.RegistryHosts resolving every reference to RegHost over this transport,
// sending the given configured headers.
func (r *Registry) Hosts(header http.Header) source.RegistryHosts {
	return func(ref reference.Spec) ([]docker.RegistryHost, error) {
		return []docker.RegistryHost{{
			Client:       &http.Client{Transport: r},
			Host:         r.RegHost,
			Scheme:       "https",
			Path:         "/v2",
			Capabilities: docker.HostCapabilityPull | docker.HostCapabilityResolve,
			Header:       header,
		}}, nil
	}
}

type rng struct{ b, e int64 }

func parseRanges(h string, size int64) ([]rng, bool) {
	if h == "" {
		return nil, true
	}
	if !strings.HasPrefix(h, "bytes=") {
		return nil, false
	}
	var out []rng
	for _, part := range strings.Split(strings.TrimPrefix(h, "bytes="), ",") {
		be := strings.SplitN(strings.TrimSpace(part), "-", 2)
		if len(be) != 2 {
			return nil, false
		}
		b, err1 := strconv.ParseInt(be[0], 10, 64)
		e, err2 := strconv.ParseInt(be[1], 10, 64)
		if err1 != nil || err2 != nil || b > e {
			return nil, false
		}
		if b >= size {
			continue
		}
		if e >= size {
			e = size - 1
		}
		out = append(out, rng{b, e})
	}
	return out, true
}

func resp(req *http.Request, status int, hdr http.Header, body []byte) *http.Response {
	if hdr == nil {
		hdr = http.Header{}
	}
	return &http.Response{
		StatusCode:    status,
		Status:        fmt.Sprintf("%d %s", status, http.StatusText(status)),
		Proto:         "HTTP/1.1",
		ProtoMajor:    1,
		ProtoMinor:    1,
		Header:        hdr,
		Body:          io.NopCloser(bytes.NewReader(body)),
		ContentLength: int64(len(body)),
		Request:       req,
	}
}

func (r *Registry) record(req *http.Request, m Mode, status int, parts ...[3]int64) {
	h := http.Header{}
	for k, v := range req.Header {
		h[k] = append([]string(nil), v...)
	}
	r.mu.Lock()
	r.log = append(r.log, ReqLog{Method: req.Method, Host: req.URL.Host, Path: req.URL.Path, Range: req.Header.Get("Range"), Header: h, Mode: m, Status: status, Parts: parts})
	r.mu.Unlock()
}

func (r *Registry) RoundTrip(req *http.Request) (*http.Response, error) {
	if err := req.Context().Err(); err != nil {
		return nil, err
	}
	onCDN := req.URL.Host == r.CDNHost
	idx := strings.LastIndex(req.URL.Path, "/blobs/")
	if idx < 0 {
		if r.Extra != nil {
			if res := r.Extra(req); res != nil {
				r.record(req, Multi, res.StatusCode)
				return res, nil
			}
		}
		r.record(req, NotFound, 404)
		return resp(req, 404, nil, nil), nil
	}
	dgst := req.URL.Path[idx+len("/blobs/"):]
	r.mu.Lock()
	data, ok := r.blobs[dgst]
	seq := r.seq
	r.seq++
	token := r.CDNToken
	script := r.Script
	r.mu.Unlock()
	mode := Multi
	if script != nil {
		mode = script(req, onCDN, seq)
	}
	if !ok {
		mode = NotFound
	}
	if onCDN && req.URL.Query().Get("tok") != strconv.Itoa(token) && mode != NetErr {
		mode = Forbidden
	}
	if onCDN && mode == Redirect {
		mode = Multi
	}
	size := int64(len(data))
	fail := func(m Mode, code int) (*http.Response, error) {
		r.record(req, m, code)
		return resp(req, code, nil, nil), nil
	}
	switch mode {
	case NetErr:
		r.record(req, mode, 0)
		return nil, fmt.Errorf("verifreg: injected transport error")
	case NotFound:
		return fail(mode, 404)
	case Forbidden:
		return fail(mode, 403)
	case ServerErr:
		return fail(mode, 500)
	case Unauth:
		r.record(req, mode, 401)
		return resp(req, 401, http.Header{"Www-Authenticate": []string{`Bearer realm="https://auth.test/token",service="reg.test"`}}, nil), nil
	case Redirect:
		r.record(req, mode, 307)
		loc := fmt.Sprintf("https://%s/cdn/blobs/%s?tok=%d", r.CDNHost, dgst, token)
		return resp(req, 307, http.Header{"Location": []string{loc}}, nil), nil
	}
	if req.Method == "HEAD" {
		r.record(req, mode, 200)
		res := resp(req, 200, http.Header{"Content-Length": []string{strconv.FormatInt(size, 10)}}, nil)
		res.ContentLength = size
		return res, nil
	}
	ranges, okr := parseRanges(req.Header.Get("Range"), size)
	if !okr {
		return fail(mode, 416)
	}
	if mode == BadReq {
		if len(ranges) > 1 {
			return fail(mode, 400)
		}
		mode = Multi
	}
	if mode == Whole || req.Header.Get("Range") == "" {
		r.record(req, mode, 200, [3]int64{0, size - 1, size})
		return resp(req, 200, http.Header{"Content-Length": []string{strconv.FormatInt(size, 10)}}, data), nil
	}
	if len(ranges) == 0 {
		return fail(mode, 416)
	}
	if mode == FirstOnly {
		ranges = ranges[:1]
	}
	if mode == Squash {
		s := ranges[0]
		for _, x := range ranges {
			if x.b < s.b {
				s.b = x.b
			}
			if x.e > s.e {
				s.e = x.e
			}
		}
		ranges = []rng{s}
	}
	cut := int64(0)
	if mode == Short {
		cut = 1
	}
	if len(ranges) == 1 {
		x := ranges[0]
		body := data[x.b : x.e+1-cut]
		r.record(req, mode, 206, [3]int64{x.b, x.e, int64(len(body))})
		return resp(req, 206, http.Header{
			"Content-Type":  []string{"application/octet-stream"},
			"Content-Range": []string{fmt.Sprintf("bytes %d-%d/%d", x.b, x.e, size)},
		}, body), nil
	}
	sort.SliceStable(ranges, func(i, j int) bool { return ranges[i].b < ranges[j].b })
	var buf bytes.Buffer
	mw := multipart.NewWriter(&buf)
	var served [][3]int64
	for _, x := range ranges {
		served = append(served, [3]int64{x.b, x.e, x.e + 1 - cut - x.b})
		pw, _ := mw.CreatePart(textproto.MIMEHeader{
			"Content-Type":  []string{"application/octet-stream"},
			"Content-Range": []string{fmt.Sprintf("bytes %d-%d/%d", x.b, x.e, size)},
		})
		pw.Write(data[x.b : x.e+1-cut])
	}
	mw.Close()
	r.record(req, mode, 206, served...)
	return resp(req, 206, http.Header{"Content-Type": []string{"multipart/byteranges; boundary=" + mw.Boundary()}}, buf.Bytes()), nil
}
