// Package verifc20 holds the generator, the canonical encoding and the property oracle of the C20
// harnesses (snapshot-label protocol).  It is shared by the in-package harnesses of fs/source
// (writers, FromDefaultLabels, appendWithValidation) and service (sourceFromCRILabels, sources),
// must not import either of them, and is injected with `go test -overlay` like every harness file.
package verifc20

import (
	"context"
	"encoding/hex"
	"fmt"
	"math"
	"sort"
	"strconv"
	"strings"

	"github.com/containerd/containerd/v2/core/images"
	"github.com/containerd/containerd/v2/pkg/reference"
	"github.com/containerd/containerd/v2/pkg/snapshotters"
	"github.com/containerd/stargz-snapshotter/internal/verifutil"
	digest "github.com/opencontainers/go-digest"
	ocispec "github.com/opencontainers/image-spec/specs-go/v1"
)

// Label keys as literals of the protocol (the harness of fs/source compares them with the
// package's constants through the `keys` op).
const (
	KRef      = "containerd.io/snapshot/remote/stargz.reference"
	KDigest   = "containerd.io/snapshot/remote/stargz.digest"
	KLayers   = "containerd.io/snapshot/remote/stargz.layers"
	KURLsPfx  = "containerd.io/snapshot/remote/urls."
	KURLs     = "containerd.io/snapshot/remote/urls"
	KPrefetch = "containerd.io/snapshot/remote/stargz.prefetch"
)

// Candidate-finding signatures: failures of the hypothesis-violating streams.
const (
	SigComma    = "url-comma-split"
	SigDupURLs  = "extra-dup-digest-foreign-urls"
	SigPreset   = "extra-preset-annotation-kept"
)

// Neighbour is one entry of Source.Manifest.Layers[1:].
type Neighbour struct {
	Digest string
	URLs   []string
}

// Src is what a reader reconstructed (adapter output, independent of the source package types).
type Src struct {
	Name       reference.Spec
	Target     string
	URLs       []string
	Neighbours []Neighbour
}

// ReadFn adapts source.GetSources: exactly one source or an error.
type ReadFn func(labels map[string]string) (*Src, error)

// Impl is the real code under test, supplied by the in-package harness.
type Impl struct {
	DefaultWrapper func(ref string, prefetch int64) func(images.Handler) images.Handler
	ExtraHandler   func(prefetch int64, wrapper func(images.Handler) images.Handler) func(images.Handler) images.Handler
	ReadDefault    ReadFn                                   // source.FromDefaultLabels
	ReadCRI        ReadFn                                   // service.sourceFromCRILabels           (nil outside package service)
	ReadBoth       ReadFn                                   // service.sources(cri, default)         (nil outside package service)
	AWV            func(key string, values []string) string // source.appendWithValidation (nil outside package source)
	Keys           []string                                 // the ten key constants as the package sees them (nil if unreachable)
	KeyPairs       [][2]string                              // package constant vs protocol literal, compared on the Go side
}

type gen struct {
	impl     Impl
	rnd      *verifutil.Rand
	out      *verifutil.Out
	stream   string // "clean" or "hyp"
	hypSig   string // signature used for pairing failures while a hypothesis-violating case runs
	noteOnly bool   // stream "outside": oracle verdicts are counted, never reported
	serial   int
}

// ---------------------------------------------------------------- encoding

func hx(s string) string {
	if s == "" {
		return "-"
	}
	return hex.EncodeToString([]byte(s))
}

func encList(l []string) string {
	if len(l) == 0 {
		return "~"
	}
	p := make([]string, len(l))
	for i, s := range l {
		p[i] = hx(s)
	}
	return strings.Join(p, ",")
}

func encMap(m map[string]string) string {
	if m == nil {
		return "nil"
	}
	if len(m) == 0 {
		return "~"
	}
	ks := make([]string, 0, len(m))
	for k := range m {
		ks = append(ks, k)
	}
	sort.Strings(ks)
	p := make([]string, len(ks))
	for i, k := range ks {
		p[i] = hx(k) + "=" + hx(m[k])
	}
	return strings.Join(p, ",")
}

func encChild(d ocispec.Descriptor) string {
	t := "N"
	if images.IsLayerType(d.MediaType) {
		t = "L"
	}
	return t + "/" + hx(d.Digest.String()) + "/" + encList(d.URLs) + "/" + encMap(d.Annotations)
}

func encNb(nb []Neighbour) string {
	if len(nb) == 0 {
		return "~"
	}
	p := make([]string, len(nb))
	for i, n := range nb {
		p[i] = hx(n.Digest) + ":" + encList(n.URLs)
	}
	return strings.Join(p, ";")
}

func copyChildren(in []ocispec.Descriptor) []ocispec.Descriptor {
	out := make([]ocispec.Descriptor, len(in))
	for i, d := range in {
		out[i] = d
		if d.URLs != nil {
			out[i].URLs = append([]string{}, d.URLs...)
		}
		if d.Annotations != nil {
			m := make(map[string]string, len(d.Annotations))
			for k, v := range d.Annotations {
				m[k] = v
			}
			out[i].Annotations = m
		}
	}
	return out
}

// ---------------------------------------------------------------- manifest generation

type manifest struct {
	parent   ocispec.Descriptor
	children []ocispec.Descriptor
	ref      string
	prefetch int64
	tag      string // shape description for the distinct-case key
}

var layerTypes = []string{
	ocispec.MediaTypeImageLayerGzip, ocispec.MediaTypeImageLayer, ocispec.MediaTypeImageLayerZstd,
	images.MediaTypeDockerSchema2LayerGzip, images.MediaTypeDockerSchema2Layer,
	images.MediaTypeDockerSchema2LayerForeignGzip, images.MediaTypeDockerSchema2LayerForeign,
	"application/vnd.oci.image.layer.nondistributable.v1.tar+gzip",
	images.MediaTypeImageLayerGzipEncrypted, images.MediaTypeDockerSchema2LayerZstd,
}

var nonLayerTypes = []string{
	ocispec.MediaTypeImageConfig, images.MediaTypeDockerSchema2Config, images.MediaTypeInToto,
	"application/vnd.example.attestation+json", "",
}

var goodRefs = []string{
	"ghcr.io/stargz-containers/ubuntu:22.04-esgz",
	"docker.io/library/alpine:3.19",
	"localhost:5000/a/b:tag",
	"registry.example.com/x//y:z",
	"registry.example.com/team/app@sha256:9f86d081884c7d659a2feaa0c55ad015a3bf4f1b2b0b822cd15d6c15b0f00a08",
	"registry.example.com/team/app:v1@sha256:9f86d081884c7d659a2feaa0c55ad015a3bf4f1b2b0b822cd15d6c15b0f00a08",
	"10.0.0.1:5000/img",
	"example.com/with%20escape:tag",
	"example.com/a,b:c",
	"h/ünï:cödé",
}

var badRefs = []string{"", "/nohost:tag", "http://example.com/a:b", "exa mple.com/a b:%zz", ":5000", "%"}

func (g *gen) hexString(n int) string {
	const digits = "0123456789abcdef"
	b := make([]byte, n)
	for i := range b {
		b[i] = digits[g.rnd.Intn(16)]
	}
	return string(b)
}

func (g *gen) digest() digest.Digest {
	switch g.rnd.Pick(8, 1, 1) {
	case 0:
		return digest.Digest("sha256:" + g.hexString(64))
	case 1:
		return digest.Digest("sha512:" + g.hexString(128))
	default:
		return digest.Digest("sha384:" + g.hexString(96))
	}
}

func (g *gen) ref() string {
	switch g.rnd.Pick(10, 2, 2, 1) {
	case 0:
		return goodRefs[g.rnd.Intn(len(goodRefs))]
	case 3: // OUTSIDE the hypothesis of labels_valid: the reference label itself cannot be valid
		return "registry.example.com/" + strings.Repeat("R", int(g.rnd.Range(4025, 4100))) + ":tag"
	case 1: // long but inside the hypothesis: len(ref) <= 4096 - len(KRef)
		n := int(g.rnd.Range(3000, int64(4096-len(KRef))))
		if g.rnd.Intn(3) == 0 {
			n = 4096 - len(KRef)
		}
		base := "registry.example.com/"
		return base + strings.Repeat("r", n-len(base)-4) + ":tag"
	default:
		return badRefs[g.rnd.Intn(len(badRefs))]
	}
}

func (g *gen) prefetch() int64 {
	switch g.rnd.Intn(8) {
	case 0:
		return 0
	case 1:
		return -1
	case 2:
		return math.MaxInt64
	case 3:
		return math.MinInt64
	case 4:
		return 10 * 1024 * 1024
	default:
		return int64(g.rnd.Uint64())
	}
}

// urls generates the URL list of the layer with manifest position `pos`; every URL names the
// position so that a neighbour paired with another layer's URLs is recognisable.
func (g *gen) urls(pos int, kind int) []string {
	g.serial++
	u := func(k int) string { return fmt.Sprintf("https://m%d.example.com/p%d/s%d/blob", k, pos, g.serial) }
	switch kind {
	case 0:
		return nil
	case 1:
		n := 1 + g.rnd.Intn(3)
		var l []string
		for k := 0; k < n; k++ {
			l = append(l, u(k))
		}
		return l
	case 2: // many medium URLs: the list is cut at the size limit
		n := 30 + g.rnd.Intn(60)
		var l []string
		for k := 0; k < n; k++ {
			l = append(l, u(k)+"?"+strings.Repeat("q", g.rnd.Intn(120)))
		}
		return l
	case 3: // few huge URLs, possibly one that cannot fit at all
		n := 1 + g.rnd.Intn(4)
		var l []string
		for k := 0; k < n; k++ {
			l = append(l, u(k)+"?"+strings.Repeat("z", int(g.rnd.Range(900, 4200))))
		}
		return l
	case 4: // boundary: total length lands within a few bytes of the limit
		var l []string
		first := u(0)
		room := 4096 - len(KURLsPfx) - 2 - (len(first) + 1) - 1
		l = append(l, first, strings.Repeat("b", room+int(g.rnd.Range(-3, 3))))
		if g.rnd.Bool() {
			l = append(l, "x")
		}
		return l
	case 7: // equal URLs whose total fits without the separators but not with them
		n := 20 + g.rnd.Intn(70)
		l0 := (4096 - len(KURLsPfx) - 1 - g.rnd.Intn(3)) / n
		var l []string
		for k := 0; k < n+3; k++ {
			s := u(k)
			if len(s) < l0 {
				s += strings.Repeat("e", l0-len(s))
			}
			l = append(l, s[:l0])
		}
		return l
	case 5: // empty-string elements
		return [][]string{{""}, {"", u(1)}, {u(0), ""}, {u(0), "", u(2)}, {"", ""}}[g.rnd.Intn(5)]
	default: // non-ASCII bytes (lengths are byte lengths)
		return []string{u(0) + "/ü/日本", string([]byte{0xff, 0xfe, 'x'})}
	}
}

func (g *gen) urlKind() int {
	return g.rnd.Pick(60, 20, 4, 3, 4, 5, 4, 3)
}

var otherAnn = [][2]string{
	{"org.opencontainers.image.title", "layer.tar"},
	{"containerd.io/snapshot/other", "x"},
	{"containerd.io/uncompressed", "sha256:e3b0c44298fc1c149afbf4c8996fb92427ae41e4649b934ca495991b7852b855"},
	{"", ""},
	{"k,=/:", "v,=/:"},
}

func (g *gen) annotations(presetDefaultKeys bool) map[string]string {
	switch g.rnd.Pick(5, 2, 3) {
	case 0:
		return nil
	case 1:
		return map[string]string{}
	}
	m := map[string]string{}
	for n := g.rnd.Intn(3) + 1; n > 0; n-- {
		a := otherAnn[g.rnd.Intn(len(otherAnn))]
		m[a[0]] = a[1]
	}
	if presetDefaultKeys && g.rnd.Intn(2) == 0 {
		// keys of the default protocol already present in the manifest: the default writer
		// overwrites what it uses and never reads the rest.
		pre := [][2]string{{KRef, "stale.example.com/x:y"}, {KDigest, "sha256:" + strings.Repeat("0", 64)},
			{KLayers, "garbage"}, {KURLs, "https://stale.example.com/"}, {KPrefetch, "12345"},
			{KURLsPfx + strconv.Itoa(g.rnd.Intn(70)), "https://stale.example.com/n"}, {KURLsPfx + "00", "x"}}
		for n := g.rnd.Intn(3) + 1; n > 0; n-- {
			a := pre[g.rnd.Intn(len(pre))]
			m[a[0]] = a[1]
		}
	}
	return m
}

// manifest builds "config first, then nLayers layers".  dup: probability (percent) that a layer repeats
// an earlier digest; dupSameURLs: a repeated digest repeats the URL list too.
func (g *gen) manifest(nLayers int, dup int, dupSameURLs bool, presetDefaultKeys bool, longURLs bool) manifest {
	m := manifest{ref: g.ref(), prefetch: g.prefetch()}
	mt := ocispec.MediaTypeImageManifest
	switch g.rnd.Pick(8, 3, 1, 1) {
	case 1:
		mt = images.MediaTypeDockerSchema2Manifest
	case 2:
		mt = ocispec.MediaTypeImageIndex
	case 3:
		mt = ocispec.MediaTypeImageConfig
	}
	m.parent = ocispec.Descriptor{MediaType: mt, Digest: g.digest(), Size: 1234}
	cfgType := nonLayerTypes[g.rnd.Intn(2)]
	m.children = append(m.children, ocispec.Descriptor{MediaType: cfgType, Digest: g.digest(), Size: 99,
		Annotations: g.annotations(false)})
	dig := g.rnd.Pick(8, 1, 1) // digest algorithm mix of this manifest: mostly sha256 / all sha512 / mixed
	for i := 0; i < nLayers; i++ {
		d := ocispec.Descriptor{MediaType: layerTypes[g.rnd.Pick(10, 3, 3, 4, 2, 3, 2, 2, 1, 1)], Size: int64(1000 + i)}
		if i > 0 && g.rnd.Intn(100) < dup {
			prev := m.children[1+g.rnd.Intn(i)]
			d.Digest = prev.Digest
			if dupSameURLs {
				d.URLs = append([]string(nil), prev.URLs...)
			} else {
				d.URLs = g.urls(i+1, g.urlKind())
			}
		} else {
			switch dig {
			case 0:
				d.Digest = digest.Digest("sha256:" + g.hexString(64))
			case 1:
				d.Digest = digest.Digest("sha512:" + g.hexString(128))
			default:
				d.Digest = g.digest()
			}
			k := g.urlKind()
			if !longURLs && (k == 2 || k == 3 || k == 7) {
				k = 1
			}
			d.URLs = g.urls(i+1, k)
		}
		d.Annotations = g.annotations(presetDefaultKeys)
		m.children = append(m.children, d)
	}
	m.tag = fmt.Sprintf("n%d/dup%d/%s", nLayers, dup, mt)
	return m
}

// ---------------------------------------------------------------- running the real handlers

func (g *gen) handle(h images.Handler, parent ocispec.Descriptor) (out []ocispec.Descriptor, status string) {
	defer func() {
		if r := recover(); r != nil {
			out, status = nil, "panic"
		}
	}()
	o, err := h.Handle(context.Background(), parent)
	if err != nil {
		return nil, "err"
	}
	return o, "ok"
}

func (g *gen) base(children []ocispec.Descriptor) images.Handler {
	return images.HandlerFunc(func(ctx context.Context, desc ocispec.Descriptor) ([]ocispec.Descriptor, error) {
		return copyChildren(children), nil
	})
}

func isManifest(mt string) bool {
	return mt == ocispec.MediaTypeImageManifest || mt == images.MediaTypeDockerSchema2Manifest
}

func (g *gen) emitMan(m manifest) {
	parts := make([]string, 0, len(m.children)+2)
	b := "0"
	if isManifest(m.parent.MediaType) {
		b = "1"
	}
	parts = append(parts, "man", b)
	for _, c := range m.children {
		parts = append(parts, encChild(c))
	}
	g.out.Emit(strings.Join(parts, " "), fmt.Sprintf("ok %d", len(m.children)))
}

// ---------------------------------------------------------------- oracle helpers (independent of the model)

func canonURLs(u []string) []string {
	if len(u) == 1 && u[0] == "" {
		return nil
	}
	return u
}

func isPrefix(p, l []string) bool {
	if len(p) > len(l) {
		return false
	}
	for i := range p {
		if p[i] != l[i] {
			return false
		}
	}
	return true
}

// fitsAll: the whole list fits under the key even when every element is charged a separator.
func fitsAll(keyLen int, u []string) bool {
	t := keyLen
	for _, s := range u {
		t += len(s) + 1
	}
	return t <= 4096
}

// checkURLs: `got` must be the layer's own URLs — a prefix of them, and all of them when they fit.
func checkURLs(got, own []string, keyLen int) string {
	g, o := canonURLs(got), canonURLs(own)
	if !isPrefix(g, o) {
		return fmt.Sprintf("URLs %q are not a prefix of the layer's own URLs %q", trunc(g), trunc(o))
	}
	if fitsAll(keyLen, own) && len(g) != len(o) {
		return fmt.Sprintf("URLs %q fit the label but only %q came back", trunc(o), trunc(g))
	}
	return ""
}

func trunc(l []string) []string {
	var o []string
	for i, s := range l {
		if i == 4 {
			o = append(o, "…")
			break
		}
		if len(s) > 60 {
			s = s[:60] + "…"
		}
		o = append(o, s)
	}
	return o
}

func (g *gen) fail(sig, what string) {
	if g.noteOnly {
		g.out.Count("outside-domain:" + sig)
		return
	}
	g.out.Fail(sig, what)
}

// pairFail reports a URL / neighbour pairing failure: inside a hypothesis-violating case it
// carries that case's dedicated signature.
func (g *gen) pairFail(sig, what string) {
	if g.noteOnly {
		g.out.Count("outside-domain:" + sig)
		return
	}
	if g.hypSig != "" {
		g.out.Fail(g.hypSig, "["+sig+"] "+what)
		return
	}
	g.out.Fail(sig, what)
}

type keyset struct{ ref, digest, layers string }

var defaultKS = keyset{KRef, KDigest, KLayers}
var criKS = keyset{snapshotters.TargetRefLabel, snapshotters.TargetLayerDigestLabel, snapshotters.TargetImageLayersLabel}

func mandatoryOK(l map[string]string, ks keyset) (reference.Spec, string, bool) {
	r, ok := l[ks.ref]
	if !ok {
		return reference.Spec{}, "", false
	}
	spec, err := reference.Parse(r)
	if err != nil {
		return reference.Spec{}, "", false
	}
	d, ok := l[ks.digest]
	if !ok {
		return reference.Spec{}, "", false
	}
	if _, err := digest.Parse(d); err != nil {
		return reference.Spec{}, "", false
	}
	return spec, d, true
}

// identityOracle: whatever the label map, an accepted source is the one named by the mandatory
// labels of one of the readers' key sets; nothing else is ever resolved.
func (g *gen) identityOracle(which string, l map[string]string, src *Src, err error, ctxs string) {
	var sets []keyset
	switch which {
	case "default":
		sets = []keyset{defaultKS}
	case "cri":
		sets = []keyset{criKS}
	default:
		sets = []keyset{criKS, defaultKS}
	}
	anyOK := false
	match := false
	for _, ks := range sets {
		spec, d, ok := mandatoryOK(l, ks)
		if ok {
			anyOK = true
			if err == nil && src.Name == spec && src.Target == d {
				match = true
			}
		}
	}
	if err == nil && !anyOK {
		g.fail("malformed-mandatory-accepted", fmt.Sprintf("%s reader accepted labels without valid mandatory labels (%s): name=%q target=%q", which, ctxs, src.Name.String(), src.Target))
	} else if err == nil && !match {
		g.fail("resolved-to-different-source", fmt.Sprintf("%s reader returned name=%q target=%q which no mandatory label names (%s)", which, src.Name.String(), src.Target, ctxs))
	}
}

func refTable(l map[string]string) string {
	seen := map[string]bool{}
	var parts []string
	for _, k := range []string{KRef, snapshotters.TargetRefLabel} {
		v, ok := l[k]
		if !ok || seen[v] {
			continue
		}
		seen[v] = true
		spec, err := reference.Parse(v)
		if err != nil {
			parts = append(parts, hx(v)+"=err")
		} else {
			parts = append(parts, hx(v)+"=ok:"+hx(spec.String()))
		}
	}
	if len(parts) == 0 {
		return "~"
	}
	return strings.Join(parts, ",")
}

func mountPrefetch(l map[string]string, dflt int64) int64 {
	// what the prefetch label means to a consumer that parses it with strconv.ParseInt(s, 10, 64) and
	// falls back to its default; this ties the model's parseInt64 to the real strconv.  How fs.Mount
	// itself consumes the label is observed dynamically by service_test.TestVerifC20Mount.
	if s, ok := l[KPrefetch]; ok {
		if ps, err := strconv.ParseInt(s, 10, 64); err == nil {
			return ps
		}
	}
	return dflt
}

// read runs one reader on the labels of child i with modifications and emits the op.
func (g *gen) read(which string, fn ReadFn, i int, base map[string]string, dels []string, sets map[string]string, ctxs string) (*Src, error, map[string]string) {
	l := map[string]string{}
	for k, v := range base {
		l[k] = v
	}
	for _, k := range dels {
		delete(l, k)
	}
	for k, v := range sets {
		l[k] = v
	}
	const dflt = -7777
	src, err := fn(l)
	pf := mountPrefetch(l, dflt)
	var res string
	if err != nil {
		res = fmt.Sprintf("err pf=%d", pf)
	} else {
		res = fmt.Sprintf("ok name=%s target=%s urls=%s nb=%s pf=%d", hx(src.Name.String()), hx(src.Target),
			encList(src.URLs), encNb(src.Neighbours), pf)
	}
	setsEnc := "~"
	if len(sets) > 0 {
		setsEnc = encMap(sets)
	}
	g.out.Emit(fmt.Sprintf("read %s %d %s %s %s %d", which, i, encList(dels), setsEnc, refTable(l), dflt), res)
	g.out.Count("read-" + which)
	g.identityOracle(which, l, src, err, ctxs)
	return src, err, l
}

// roundTripOracle: the unmodified labels of layer child i reproduce the layer's source.
func (g *gen) roundTripOracle(which string, m manifest, i int, src *Src, err error) {
	c := m.children[i]
	_, perr := reference.Parse(m.ref)
	_, derr := digest.Parse(c.Digest.String())
	where := fmt.Sprintf("%s reader, child %d of %s", which, i, m.tag)
	if perr != nil || derr != nil {
		if err == nil {
			g.fail("malformed-mandatory-accepted", where+": unparsable reference/digest accepted")
		}
		return
	}
	if err != nil {
		// a following layer with an unparsable digest makes the reader reject the whole label set
		for _, l := range m.children[i:] {
			if images.IsLayerType(l.MediaType) {
				if _, e := digest.Parse(l.Digest.String()); e != nil {
					g.out.Count("rejected-bad-neighbour-digest")
					return
				}
			}
		}
		g.fail("valid-labels-rejected", where+": "+err.Error())
		return
	}
	want, _ := reference.Parse(m.ref)
	if src.Name != want {
		g.fail("reference-mismatch", fmt.Sprintf("%s: got %q want %q", where, src.Name.String(), want.String()))
	}
	if src.Target != c.Digest.String() {
		g.fail("digest-mismatch", fmt.Sprintf("%s: got %q want %q", where, src.Target, c.Digest))
	}
	if msg := checkURLs(src.URLs, c.URLs, len(KURLs)); msg != "" {
		g.pairFail("target-urls-mismatch", where+": "+msg)
	}
	// neighbours: prefix, in manifest order, of the following layers minus copies of the target
	var following []ocispec.Descriptor
	for _, l := range m.children[i+1:] {
		if images.IsLayerType(l.MediaType) && l.Digest != c.Digest {
			following = append(following, l)
		}
	}
	if len(src.Neighbours) > len(following) {
		g.pairFail("neighbours-not-prefix", fmt.Sprintf("%s: %d neighbours but only %d layers follow", where, len(src.Neighbours), len(following)))
		return
	}
	for n, nb := range src.Neighbours {
		if nb.Digest == c.Digest.String() {
			g.pairFail("neighbour-is-target", fmt.Sprintf("%s: neighbour %d is the target itself", where, n))
			return
		}
		if nb.Digest != following[n].Digest.String() {
			g.pairFail("neighbours-not-prefix", fmt.Sprintf("%s: neighbour %d is %s, manifest order says %s", where, n, nb.Digest, following[n].Digest))
			return
		}
		if msg := checkURLs(nb.URLs, following[n].URLs, len(KURLsPfx)+4); msg != "" {
			g.pairFail("neighbour-urls-not-own", fmt.Sprintf("%s: neighbour %d (%s): %s", where, n, nb.Digest, msg))
			return
		}
	}
	if len(src.Neighbours) > 0 {
		g.out.Count("neighbours-checked")
	}
	if len(src.Neighbours) < len(following) {
		g.out.Count("neighbours-truncated")
	}
}

func (g *gen) sample(m manifest) []int {
	n := len(m.children)
	if n <= 14 {
		idx := make([]int, n)
		for i := range idx {
			idx[i] = i
		}
		return idx
	}
	set := map[int]bool{0: true, 1: true, 2: true, n - 1: true, n - 2: true, n - 3: true}
	for k := 0; k < 6; k++ {
		set[g.rnd.Intn(n)] = true
	}
	// the children around which the layers label starts to fit completely
	for _, back := range []int{28, 29, 30, 55, 56, 57, 58} {
		if n-back > 0 {
			set[n-back] = true
		}
	}
	var idx []int
	for i := range set {
		idx = append(idx, i)
	}
	sort.Ints(idx)
	return idx
}

var badDigests = []string{"", "sha256:", "sha256", ":abcd", "sha256:ABCDEF", "md5:d41d8cd98f00b204e9800998ecf8427e",
	"sha256:" + "0123456789abcdef0123456789abcdef0123456789abcdef0123456789abcde",
	"sha256:" + "0123456789abcdef0123456789abcdef0123456789abcdef0123456789abcdeg",
	"sha256:" + "0123456789ABCDEF0123456789abcdef0123456789abcdef0123456789abcdef",
	"sha256:0123456789abcdef0123456789abcdef0123456789abcdef0123456789abcdef0",
	"sha256:0123456789abcdef0123456789abcdef0123456789abcdef0123456789abcdef,",
	"sha256:0123456789abcdef0123456789abcdef0123456789abcdef0123456789abcdef\n",
	"sha512:0123456789abcdef0123456789abcdef0123456789abcdef0123456789abcdef",
	"sha384:0123456789abcdef0123456789abcdef0123456789abcdef0123456789abcdef",
	"SHA256:0123456789abcdef0123456789abcdef0123456789abcdef0123456789abcdef",
	"sha256+b64:0123456789abcdef0123456789abcdef0123456789abcdef0123456789abcdef",
	"sha256:0123456789abcdef:0123456789abcdef0123456789abcdef0123456789abcdef01234567"}

var prefetchStrings = []string{"", "abc", "+5", "-0", "0", "007", "9223372036854775807", "9223372036854775808",
	"-9223372036854775808", "-9223372036854775809", "1_000", " 5", "5 ", "0x10", "1e3", "+", "-", "+-1", "--1",
	"99999999999999999999999999", "１２"}
