package verifc20

import (
	"fmt"
	"strings"

	"github.com/containerd/stargz-snapshotter/internal/verifutil"
	digest "github.com/opencontainers/go-digest"
	ocispec "github.com/opencontainers/image-spec/specs-go/v1"
)

// Exported pieces for the mount-consumption harness (service_test.TestVerifC20Mount), which drives
// the snapshotter's real Mount through exported API only and therefore lives outside this package.

// MountCase is one small manifest (no truncation: every following layer fits the layers label)
// whose labels are fed to Mount.
type MountCase struct {
	Parent   ocispec.Descriptor
	Children []ocispec.Descriptor
	Ref      string
	Prefetch int64
	Tag      string
}

var mountRefs = []string{
	"ghcr.io/stargz-containers/ubuntu:22.04-esgz",
	"docker.io/library/alpine:3.19",
	"localhost:5000/a/b:tag",
	"registry.example.com/team/app@sha256:9f86d081884c7d659a2feaa0c55ad015a3bf4f1b2b0b822cd15d6c15b0f00a08",
	"10.0.0.1:5000/img",
}

// MountCases: config first, then 1..6 layers, repeated digests (with equal URL lists), short
// comma-free URL lists, unrelated annotations; prefetch sizes drawn from `sizes`.
func MountCases(rnd *verifutil.Rand, n int, sizes []int64) []MountCase {
	g := &gen{rnd: rnd}
	var out []MountCase
	hand := []manifest{
		mk("one-layer", mountRefs[0], sizes[0], config, layer(dg('a'))),
		mk("A-B-A", mountRefs[0], sizes[1%len(sizes)], config, layer(dg('a'), "https://a1/"), layer(dg('b'), "https://b/1", "https://b/2"), layer(dg('a'), "https://a1/")),
		mk("base-empty-empty-c-d-top", mountRefs[1], sizes[2%len(sizes)], config, layer(dg('5')), layer(dg('0')), layer(dg('0')),
			layer(dg('6'), "https://c.example.com/blob-c", "https://c2.example.com/blob-c"), layer(dg('7'), "https://d.example.com/blob-d"), layer(dg('8'))),
	}
	for _, m := range hand {
		out = append(out, MountCase{m.parent, m.children, m.ref, m.prefetch, m.tag})
	}
	for k := 0; k < n; k++ {
		m := g.manifest(1+rnd.Intn(6), []int{0, 0, 30, 60}[rnd.Intn(4)], true, false, false)
		m.parent.MediaType = ocispec.MediaTypeImageManifest
		for i := range m.children {
			// short URL lists only: nothing is cut at the size limit in this pass
			if len(m.children[i].URLs) > 3 {
				m.children[i].URLs = m.children[i].URLs[:3]
			}
			for j, u := range m.children[i].URLs {
				if len(u) > 200 || u == "" || strings.ContainsAny(u, ",\xff") {
					m.children[i].URLs[j] = fmt.Sprintf("https://u%d.example.com/p%d", j, i)
				}
			}
		}
		// equal digests carry equal URL lists (the first occurrence wins)
		first := map[digest.Digest][]string{}
		for i := 1; i < len(m.children); i++ {
			if u, ok := first[m.children[i].Digest]; ok {
				m.children[i].URLs = append([]string(nil), u...)
			} else {
				first[m.children[i].Digest] = m.children[i].URLs
			}
		}
		out = append(out, MountCase{m.parent, m.children, mountRefs[rnd.Intn(len(mountRefs))], sizes[rnd.Intn(len(sizes))], "mount/" + m.tag})
	}
	return out
}

// ManOp is the `man` op line (and its result) of a case.
func ManOp(c MountCase) (string, string) {
	parts := []string{"man", "1"}
	for _, ch := range c.Children {
		parts = append(parts, encChild(ch))
	}
	return strings.Join(parts, " "), fmt.Sprintf("ok %d", len(c.Children))
}

func Hx(s string) string                                        { return hx(s) }
func EncList(l []string) string                                 { return encList(l) }
func EncMap(m map[string]string) string                         { return encMap(m) }
func EncNb(nb []Neighbour) string                               { return encNb(nb) }
func RefTable(l map[string]string) string                       { return refTable(l) }
func CanonURLs(u []string) []string                             { return canonURLs(u) }
func CopyChildren(in []ocispec.Descriptor) []ocispec.Descriptor { return copyChildren(in) }
