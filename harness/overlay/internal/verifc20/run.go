package verifc20

import (
	"fmt"
	"os"
	"sort"
	"strconv"
	"strings"

	"github.com/containerd/containerd/v2/core/images"
	"github.com/containerd/containerd/v2/pkg/labels"
	"github.com/containerd/containerd/v2/pkg/reference"
	"github.com/containerd/containerd/v2/pkg/snapshotters"
	"github.com/containerd/stargz-snapshotter/internal/verifutil"
	digest "github.com/opencontainers/go-digest"
	ocispec "github.com/opencontainers/image-spec/specs-go/v1"
)

type reader struct {
	name string
	fn   ReadFn
	ks   keyset
}

// readersFor: the readers whose mandatory labels the flavour writes (round trip expected), and the others.
func (g *gen) readersFor(flavour string) (match, other []reader) {
	d := reader{"default", g.impl.ReadDefault, defaultKS}
	c := reader{"cri", g.impl.ReadCRI, criKS}
	b := reader{"both", g.impl.ReadBoth, keyset{}}
	add := func(l []reader, r reader) []reader {
		if r.fn != nil {
			return append(l, r)
		}
		return l
	}
	switch flavour {
	case "default":
		match = add(add(match, d), b)
		other = add(other, c)
	case "extra":
		match = add(add(match, c), b)
		other = add(other, d)
	default:
		other = add(add(add(other, d), c), b)
	}
	return
}

func allLayerDigestsValid(m manifest) bool {
	for _, c := range m.children {
		if images.IsLayerType(c.MediaType) {
			if _, err := digest.Parse(c.Digest.String()); err != nil {
				return false
			}
		}
	}
	return true
}

func sameDesc(a, b ocispec.Descriptor) bool {
	return a.MediaType == b.MediaType && a.Digest == b.Digest && a.Size == b.Size && strings.Join(a.URLs, "\x00") == strings.Join(b.URLs, "\x00") && len(a.URLs) == len(b.URLs)
}

// runManifest: one manifest through one writer flavour; sampled children through the readers and,
// when mods is set, through the removal / corruption cases.
func (g *gen) runManifest(m manifest, flavour string, mods bool) {
	g.emitMan(m)
	base := g.base(m.children)
	var h images.Handler
	var op string
	switch flavour {
	case "default":
		h = g.impl.DefaultWrapper(m.ref, m.prefetch)(base)
		op = fmt.Sprintf("wdefault %s %d", hx(m.ref), m.prefetch)
	case "extra":
		h = g.impl.ExtraHandler(m.prefetch, snapshotters.AppendInfoHandlerWrapper(m.ref))(base)
		op = fmt.Sprintf("wextra cri %s %s %d", hx(m.ref), hx(m.parent.Digest.String()), m.prefetch)
	default: // "extra-id": extra handler on top of the identity wrapper (not a supported configuration)
		h = g.impl.ExtraHandler(m.prefetch, func(f images.Handler) images.Handler { return f })(base)
		op = fmt.Sprintf("wextra id %s %s %d", hx(m.ref), hx(m.parent.Digest.String()), m.prefetch)
	}
	outc, status := g.handle(h, m.parent)
	g.out.Emit(op, status)
	g.out.Count("write-" + flavour)
	if status != "ok" {
		if flavour == "default" || (flavour == "extra" && allLayerDigestsValid(m)) {
			g.fail("handler-failed", fmt.Sprintf("%s handler returned %s on %s", flavour, status, m.tag))
		}
		return
	}
	if len(outc) != len(m.children) {
		g.fail("children-changed", fmt.Sprintf("%s handler returned %d children for %d", flavour, len(outc), len(m.children)))
		return
	}
	man := isManifest(m.parent.MediaType)
	match, other := g.readersFor(flavour)
	nmods := 0
	truncated := false
	for _, i := range g.sample(m) {
		in, c := m.children[i], outc[i]
		if !sameDesc(in, c) {
			g.fail("children-changed", fmt.Sprintf("%s handler changed descriptor %d", flavour, i))
		}
		// ---- labels of child i
		var res string
		inv := 0
		if c.Annotations == nil {
			res = "nil"
		} else {
			for k, v := range c.Annotations {
				if labels.Validate(k, v) != nil {
					inv++
				}
			}
			res = fmt.Sprintf("%d inv=%d %s", len(c.Annotations), inv, encMap(c.Annotations))
		}
		g.out.Emit(fmt.Sprintf("labels %d", i), res)
		g.out.Count("labels")
		isLayer := images.IsLayerType(c.MediaType)
		if !isLayer || !man {
			if encMap(in.Annotations) != encMap(c.Annotations) {
				g.fail("unexpected-annotation", fmt.Sprintf("%s handler annotated child %d (layer=%v, parent manifest=%v)", flavour, i, isLayer, man))
			}
			if !isLayer {
				continue
			}
		}
		// ---- O1: every label the handlers emitted passes containerd's validation
		for k, v := range c.Annotations {
			if pv, ok := in.Annotations[k]; ok && pv == v {
				continue // not emitted by the handlers
			}
			if err := labels.Validate(k, v); err != nil {
				if (k == KRef && len(m.ref) > 4096-len(KRef)) || (k == snapshotters.TargetRefLabel && len(m.ref) > 4096-len(k)) {
					g.out.Count("hyp-ref-too-long")
					continue // hypothesis of labels_valid not met: reference longer than the label can carry
				}
				g.fail("label-invalid", fmt.Sprintf("%s handler emitted invalid label %q (%d+%d bytes) on child %d of %s", flavour, k, len(k), len(v), i, m.tag))
			}
		}
		if !man {
			g.read("default", g.impl.ReadDefault, i, c.Annotations, nil, nil, "parent not a manifest")
			continue
		}
		if s, ok := c.Annotations[KLayers]; ok && len(strings.Split(s, ",")) < len(m.children)-i {
			truncated = true
		}
		// ---- round trip through the matching readers
		for _, r := range match {
			src, err, l := g.read(r.name, r.fn, i, c.Annotations, nil, nil, "unmodified")
			g.roundTripOracle(r.name, m, i, src, err)
			if _, perr := reference.Parse(m.ref); perr == nil && err == nil {
				if pf := mountPrefetch(l, -7777); pf != m.prefetch {
					g.pairFail("prefetch-mismatch", fmt.Sprintf("%s flavour, child %d: prefetch label gives %d, pulled with %d", flavour, i, pf, m.prefetch))
				}
			}
		}
		for _, r := range other {
			if g.rnd.Intn(4) == 0 {
				g.read(r.name, r.fn, i, c.Annotations, nil, nil, "reader of the other flavour")
			}
		}
		// ---- removal / corruption
		if mods && nmods < 3 && (len(m.children) <= 6 || g.rnd.Intn(4) == 0) {
			nmods++
			for _, r := range match {
				g.mods(r, m, i, c.Annotations)
			}
		}
	}
	g.out.Distinct(fmt.Sprintf("%s/%s/%s/trunc=%v/ref%d/pf%d", g.stream, flavour, m.tag, truncated, len(m.ref), m.prefetch))
}

// mods: subsets of labels removed or corrupted.
func (g *gen) mods(r reader, m manifest, i int, base map[string]string) {
	ks := r.ks
	if r.name == "both" {
		if _, ok := base[criKS.ref]; ok {
			ks = criKS
		} else {
			ks = defaultKS
		}
	}
	_, _, baseOK := mandatoryOK(base, ks)
	// a following layer with an unparsable digest makes the reader reject every variant
	for _, l := range m.children[i:] {
		if images.IsLayerType(l.MediaType) {
			if _, e := digest.Parse(l.Digest.String()); e != nil {
				baseOK = false
			}
		}
	}
	expectReject := func(what string, src *Src, err error) {
		// identityOracle already flags an accepted map without valid mandatory labels
		if err != nil {
			g.out.Count("rejected-" + what)
		}
	}
	expectSame := func(what string, src *Src, err error) {
		if baseOK && err != nil {
			g.fail("optional-label-removal-rejected", fmt.Sprintf("%s reader rejected labels after %s: %v", r.name, what, err))
		}
	}
	// mandatory labels missing
	for _, k := range []string{ks.ref, ks.digest} {
		src, err, _ := g.read(r.name, r.fn, i, base, []string{k}, nil, "removed "+k)
		expectReject("missing", src, err)
	}
	// malformed digest / reference
	for n := 0; n < 3; n++ {
		bd := badDigests[g.rnd.Intn(len(badDigests))]
		src, err, _ := g.read(r.name, r.fn, i, base, nil, map[string]string{ks.digest: bd}, "digest := "+strconv.Quote(bd))
		expectReject("bad-digest", src, err)
	}
	br := badRefs[g.rnd.Intn(len(badRefs))]
	src, err, _ := g.read(r.name, r.fn, i, base, nil, map[string]string{ks.ref: br}, "ref := "+strconv.Quote(br))
	expectReject("bad-ref", src, err)
	// optional labels removed
	for _, k := range []string{ks.layers, KURLs, KPrefetch, KURLsPfx + "0", KURLsPfx + "1"} {
		src, err, _ := g.read(r.name, r.fn, i, base, []string{k}, nil, "removed "+k)
		expectSame("removing "+k, src, err)
		if err == nil && k == ks.layers && len(src.Neighbours) != 0 {
			g.fail("neighbours-without-label", "neighbours returned although the layers label was removed")
		}
		if err == nil && k == KURLs && len(src.URLs) != 0 {
			g.fail("urls-without-label", "URLs returned although the urls label was removed")
		}
	}
	// layers label corrupted
	if lv, ok := base[ks.layers]; ok {
		ents := strings.Split(lv, ",")
		bad := badDigests[g.rnd.Intn(len(badDigests))]
		mut := append([]string{}, ents...)
		mut[g.rnd.Intn(len(mut))] = bad
		for _, v := range []string{"", lv + ",", "," + lv, strings.Join(mut, ",")} {
			g.read(r.name, r.fn, i, base, nil, map[string]string{ks.layers: v}, "layers label corrupted")
		}
	}
	// prefetch label corrupted
	for n := 0; n < 2; n++ {
		ps := prefetchStrings[g.rnd.Intn(len(prefetchStrings))]
		g.read(r.name, r.fn, i, base, nil, map[string]string{KPrefetch: ps}, "prefetch := "+strconv.Quote(ps))
	}
	// random subsets removed
	keys := make([]string, 0, len(base))
	for k := range base {
		keys = append(keys, k)
	}
	sort.Strings(keys)
	for n := 0; n < 2; n++ {
		var dels []string
		for _, k := range keys {
			if g.rnd.Intn(3) == 0 {
				dels = append(dels, k)
			}
		}
		g.read(r.name, r.fn, i, base, dels, nil, "random subset removed")
	}
	// reader alone on a hand-made layers label with copies of the target: index alignment
	tgt := m.children[i].Digest.String()
	if _, err := digest.Parse(tgt); err == nil && baseOK {
		x := "sha256:" + strings.Repeat("1", 64)
		y := "sha256:" + strings.Repeat("2", 64)
		sets := map[string]string{ks.layers: strings.Join([]string{tgt, x, tgt, y}, ","),
			KURLsPfx + "0": "https://t/0", KURLsPfx + "1": "https://x/1,https://x/2", KURLsPfx + "2": "https://t/2", KURLsPfx + "3": "https://y/3"}
		src, err, _ := g.read(r.name, r.fn, i, base, []string{KURLsPfx + "4"}, sets, "hand-made layers label")
		if err != nil {
			g.fail("valid-labels-rejected", "hand-made layers label rejected: "+err.Error())
		} else if encNb(src.Neighbours) != encNb([]Neighbour{{x, []string{"https://x/1", "https://x/2"}}, {y, []string{"https://y/3"}}}) {
			g.fail("reader-index-misaligned", fmt.Sprintf("layers [T,X,T,Y] with urls.1=X's, urls.3=Y's read back as %v", src.Neighbours))
		}
	}
}

// ---------------------------------------------------------------- direct ops on the small functions

func (g *gen) direct(n int) {
	for k := 0; k < n; k++ {
		// appendWithValidation
		if g.impl.AWV != nil {
			key := KURLsPfx + strconv.Itoa(g.rnd.Intn(300))
			if g.rnd.Intn(6) == 0 {
				key = strings.Repeat("k", int(g.rnd.Range(4000, 4200)))
			}
			vals := g.urls(k, g.rnd.Pick(1, 3, 3, 3, 3, 3, 1, 4))
			if g.rnd.Intn(5) == 0 {
				vals = append(vals, "with,comma")
			}
			v := g.impl.AWV(key, vals)
			valid := 0
			if labels.Validate(key, v) == nil {
				valid = 1
			}
			g.out.Emit(fmt.Sprintf("awv %s %s", hx(key), encList(vals)), fmt.Sprintf("%s valid=%d", hx(v), valid))
			g.out.Count("awv")
			if valid == 0 && len(key) <= 4096 {
				g.fail("label-invalid", fmt.Sprintf("appendWithValidation(%d-byte key) returned %d bytes", len(key), len(v)))
			}
		}
		// prefetch label parsing
		ps := prefetchStrings[g.rnd.Intn(len(prefetchStrings))]
		if g.rnd.Bool() {
			ps = strconv.FormatInt(g.prefetch(), 10)
		}
		g.out.Emit(fmt.Sprintf("pf %s %d", hx(ps), -3), strconv.FormatInt(mountPrefetch(map[string]string{KPrefetch: ps}, -3), 10))
		// digest.Parse
		ds := badDigests[g.rnd.Intn(len(badDigests))]
		if g.rnd.Bool() {
			ds = g.digest().String()
		}
		dr := "ok"
		if _, err := digest.Parse(ds); err != nil {
			dr = "err"
		}
		g.out.Emit("dig "+hx(ds), dr)
		// strings.Split
		ss := []string{"", ",", "a", "a,", ",a", "a,b", "a,,b", ",,", "ü,ü"}[g.rnd.Intn(9)]
		g.out.Emit("split "+hx(ss), encList(strings.Split(ss, ",")))
		g.out.Count("direct")
	}
}

// ---------------------------------------------------------------- scenarios

func layer(d string, urls ...string) ocispec.Descriptor {
	return ocispec.Descriptor{MediaType: ocispec.MediaTypeImageLayerGzip, Digest: digest.Digest(d), Size: 10, URLs: urls}
}

func dg(c byte) string { return "sha256:" + strings.Repeat(string([]byte{c}), 64) }

func mk(tag, ref string, pf int64, children ...ocispec.Descriptor) manifest {
	return manifest{parent: ocispec.Descriptor{MediaType: ocispec.MediaTypeImageManifest, Digest: digest.Digest(dg('f')), Size: 1},
		children: children, ref: ref, prefetch: pf, tag: tag}
}

var config = ocispec.Descriptor{MediaType: ocispec.MediaTypeImageConfig, Digest: digest.Digest(dg('c')), Size: 5}

func (g *gen) flavours() []string { return []string{"default", "extra"} }

func (g *gen) handWritten() {
	ref := "ghcr.io/stargz-containers/ubuntu:22.04-esgz"
	var many []ocispec.Descriptor
	many = append(many, config)
	for i := 0; i < 70; i++ {
		many = append(many, layer("sha256:"+fmt.Sprintf("%064x", i+1), fmt.Sprintf("https://m.example.com/p%d", i+1)))
	}
	var many512 []ocispec.Descriptor
	many512 = append(many512, config)
	for i := 0; i < 200; i++ {
		many512 = append(many512, layer("sha512:"+fmt.Sprintf("%0128x", i+1)))
	}
	var big []string
	for i := 0; i < 60; i++ {
		big = append(big, fmt.Sprintf("https://mirror-%02d.example.com/%s", i, strings.Repeat("p", 80)))
	}
	idx := mk("index-parent", ref, 3, config, layer(dg('a')))
	idx.parent.MediaType = ocispec.MediaTypeImageIndex
	scen := []manifest{
		mk("no-layers", ref, 0, config),
		mk("one-layer", ref, 1, config, layer(dg('a'))),
		mk("A-B-A", ref, 10485760, config, layer(dg('a'), "https://a1/"), layer(dg('b'), "https://b/1", "https://b/2"), layer(dg('a'), "https://a1/")),
		mk("base-empty-empty-c-d-top", ref, 7, config, layer(dg('5')), layer(dg('0')), layer(dg('0')),
			layer(dg('6'), "https://c.example.com/blob-c", "https://c2.example.com/blob-c"), layer(dg('7'), "https://d.example.com/blob-d"), layer(dg('8'))),
		mk("A-A-A", ref, -1, config, layer(dg('a')), layer(dg('a')), layer(dg('a'))),
		mk("70-sha256", ref, 5, many...),
		mk("200-sha512", ref, 5, many512...),
		mk("urls-over-limit", ref, 5, config, layer(dg('a'), big...), layer(dg('b'), big[:20]...), layer(dg('d'), strings.Repeat("u", 5000))),
		mk("bad-ref", "/nohost", 5, config, layer(dg('a')), layer(dg('b'))),
		mk("bad-layer-digest", ref, 5, config, layer(dg('a')), layer("sha256:xyz"), layer(dg('b'))),
		idx,
	}
	// URL lists whose length WITHOUT separators still fits but WITH separators does not (60 equal URLs)
	for _, ul := range []int{64, 65, 66, 67, 68, 70, 80} {
		var us []string
		for i := 0; i < 60; i++ {
			us = append(us, fmt.Sprintf("https://m%02d.example.com/", i)+strings.Repeat("w", ul-24))
		}
		scen = append(scen, mk(fmt.Sprintf("60-urls-of-%d", ul), ref, 5, config, layer(dg('a'), us...), layer(dg('b')), layer(dg('d'), us[:30]...)))
	}
	for _, m := range scen {
		for _, f := range g.flavours() {
			g.runManifest(m, f, true)
		}
	}
	// the extra handler on top of a wrapper that does not create the annotation maps (nil map write)
	g.out.Comment("extra handler on the identity wrapper: nil annotation map => panic, non-nil => only urls+prefetch")
	g.runManifest(mk("id-nil", ref, 5, config, layer(dg('a'))), "extra-id", false)
	l := layer(dg('a'), "https://a/")
	l.Annotations = map[string]string{}
	g.runManifest(mk("id-empty", ref, 5, config, l, layer(dg('b'))), "extra-id", false)
}

var sizes = []int{0, 1, 2, 3, 3, 4, 5, 8, 13, 20, 40, 56, 57, 58, 70, 120, 200}

func (g *gen) random(n int) {
	for k := 0; k < n; k++ {
		nl := sizes[g.rnd.Intn(len(sizes))]
		if g.rnd.Intn(3) > 0 {
			nl = sizes[g.rnd.Intn(9)]
		}
		dup := []int{0, 0, 15, 50, 100}[g.rnd.Intn(5)]
		same := g.rnd.Bool()
		m := g.manifest(nl, dup, same, true, nl <= 20)
		g.runManifest(m, "default", true)
		// the extra flavour keeps pre-set keys and looks URLs up by digest: its hypotheses are
		// "no protocol keys in the manifest's annotations" and "equal digests carry equal URLs"
		m2 := g.manifest(nl, dup, true, false, nl <= 20)
		g.runManifest(m2, "extra", true)
	}
}

// ---------------------------------------------------------------- hypothesis-violating streams

func (g *gen) hyp(n int) {
	ref := "ghcr.io/stargz-containers/ubuntu:22.04-esgz"
	// H1: a URL containing a comma is split by the reader (both flavours)
	g.hypSig = SigComma
	g.out.Comment("stream hyp " + SigComma + ": URLs containing ',' (hypothesis of roundtrip_target_urls / neighbours_own_urls violated)")
	h1 := mk("comma", ref, 5, config, layer(dg('a'), "https://a/x,y"), layer(dg('b'), "https://b/1,2", "https://b/3"))
	for _, f := range g.flavours() {
		g.runManifest(h1, f, false)
	}
	for k := 0; k < n; k++ {
		m := g.manifest(1+g.rnd.Intn(6), 0, true, false, false)
		for i := 1; i < len(m.children); i++ {
			if g.rnd.Intn(2) == 0 {
				m.children[i].URLs = append(m.children[i].URLs, fmt.Sprintf("https://c.example.com/p%d?a=1,b=2", i))
			}
		}
		m.tag = "comma/" + m.tag
		g.runManifest(m, g.flavours()[k%2], false)
	}
	// H3: equal digests with different URL lists (or a config sharing a layer's digest): the extra
	// flavour looks URLs up by digest and takes the first child carrying it
	g.hypSig = SigDupURLs
	g.out.Comment("stream hyp " + SigDupURLs + ": repeated digest with different URL lists, extra flavour")
	h3 := mk("dup-digest-urls", ref, 5, config, layer(dg('a'), "https://first/"), layer(dg('b'), "https://b/"), layer(dg('a'), "https://third/"))
	g.runManifest(h3, "extra", false)
	cfgA := config
	cfgA.Digest = digest.Digest(dg('a'))
	g.runManifest(mk("config-shares-digest", ref, 5, cfgA, layer(dg('b'), "https://b/"), layer(dg('a'), "https://a/")), "extra", false)
	for k := 0; k < n; k++ {
		m := g.manifest(3+g.rnd.Intn(6), 60, false, false, false)
		m.tag = "dupurls/" + m.tag
		g.runManifest(m, "extra", false)
	}
	// H4: protocol keys already present in the manifest's layer annotations; the extra flavour keeps them
	g.hypSig = SigPreset
	g.out.Comment("stream hyp " + SigPreset + ": urls / prefetch / urls.<i> keys pre-set in the manifest, extra flavour")
	pa := layer(dg('a'), "https://a/")
	pa.Annotations = map[string]string{KURLs: "https://preset/", KPrefetch: "1", KURLsPfx + "1": "https://preset/n"}
	g.runManifest(mk("preset", ref, 5, config, pa, layer(dg('b'), "https://b/")), "extra", false)
	for k := 0; k < n; k++ {
		m := g.manifest(2+g.rnd.Intn(5), 0, true, false, false)
		for i := 1; i < len(m.children); i++ {
			if m.children[i].Annotations == nil {
				m.children[i].Annotations = map[string]string{}
			}
			switch g.rnd.Intn(3) {
			case 0:
				m.children[i].Annotations[KURLs] = "https://preset.example.com/t"
			case 1:
				m.children[i].Annotations[KPrefetch] = "4242"
			default:
				m.children[i].Annotations[KURLsPfx+strconv.Itoa(g.rnd.Intn(3))] = "https://preset.example.com/n"
			}
		}
		m.tag = "preset/" + m.tag
		g.runManifest(m, "extra", false)
	}
	g.hypSig = ""
}

// outside: inputs OUTSIDE the property's domain, replayed for documentation only (the Lean file proves
// nonlayer_between_layers_counterexample): a non-layer child between layers shifts the default writer's
// urls.<i> indices against the layers label.  Every oracle verdict here is counted, never reported.
func (g *gen) outside(n int) {
	ref := "ghcr.io/stargz-containers/ubuntu:22.04-esgz"
	// H2: a non-layer child between layers shifts the default writer's URL indices
	g.noteOnly = true
	g.out.Comment("stream outside: non-layer child between layers (outside the property's domain 'config first, then layers'); nothing in this stream can fail the check")
	att := ocispec.Descriptor{MediaType: images.MediaTypeInToto, Digest: digest.Digest(dg('e')), Size: 7}
	h2 := mk("nonlayer-between", ref, 5, config, layer(dg('a'), "https://a/"), att, layer(dg('b'), "https://b/"), layer(dg('d'), "https://d/"))
	for _, f := range g.flavours() {
		g.runManifest(h2, f, false)
	}
	for k := 0; k < n; k++ {
		m := g.manifest(2+g.rnd.Intn(6), 0, true, false, false)
		pos := 2 + g.rnd.Intn(len(m.children)-2)
		x := ocispec.Descriptor{MediaType: nonLayerTypes[2+g.rnd.Intn(3)], Digest: g.digest(), Size: 7}
		m.children = append(m.children[:pos], append([]ocispec.Descriptor{x}, m.children[pos:]...)...)
		m.tag = "nonlayer/" + m.tag
		g.runManifest(m, g.flavours()[k%2], false)
	}
	g.noteOnly = false
}

// Run is the body of TestVerifC20 / TestVerifC20CRI.
func Run(impl Impl) {
	out := verifutil.OpenOut()
	defer out.Close()
	g := &gen{impl: impl, rnd: verifutil.NewRand(verifutil.Seed()), out: out, stream: os.Getenv("VERIF_C20_STREAM")}
	if g.stream == "" {
		g.stream = "clean"
	}
	n := verifutil.EnvInt("VERIF_N", 40)
	{
		// the model's key constants against the protocol literals (the literals themselves are tied to
		// the real code by the label maps compared after every writer run)
		keys := []string{KRef, KDigest, KLayers, KURLsPfx, KURLs, KPrefetch, snapshotters.TargetRefLabel,
			snapshotters.TargetLayerDigestLabel, snapshotters.TargetImageLayersLabel, snapshotters.TargetManifestDigestLabel}
		p := make([]string, len(keys))
		for i, k := range keys {
			p[i] = hx(k)
		}
		out.Emit("keys", strings.Join(p, " "))
	}
	for _, kp := range impl.KeyPairs {
		if kp[0] != kp[1] {
			g.fail("key-constant-mismatch", fmt.Sprintf("package constant %q, protocol key %q", kp[0], kp[1]))
		}
	}
	if g.stream == "hyp" {
		g.hyp(n)
		return
	}
	if g.stream == "outside" {
		g.outside(n)
		return
	}
	g.handWritten()
	g.random(n)
	g.direct(n * 10)
}
