package verifc07

// Exported pieces for the end-to-end pass (TestVerifC07Service): generated layer stacks as eStargz blobs
// together with what the property says about them — per layer the opaque directories, the whiteouts that
// must show up as 0/0 character devices and the expected listing of every directory; per stack the OCI
// application of the source tars (names, types, file bytes, symlink targets).

import (
	"fmt"
	"io"
	"sort"
	"strings"
	"syscall"

	"github.com/containerd/stargz-snapshotter/internal/verifutil"
	tutil "github.com/containerd/stargz-snapshotter/util/testutil"
)

// SvcNode is one path of a root filesystem (or of one served layer).
type SvcNode struct {
	Type   uint32 // S_IFMT bits
	Data   string // regular files
	Target string // symlinks
	Wh     bool   // served layer only: a whiteout (0/0 character device)
}

type SvcLayer struct {
	Blob   []byte
	Spec   string
	Opaque []string           // directories ("" = root) that carry the opaque marker
	Served map[string]SvcNode // every path the layer must serve (the overlayfs translation of the tar)
}

type SvcStack struct {
	Layers []SvcLayer         // bottom first
	Merged map[string]SvcNode // OCI application of the source tars in order
	Desc   string
}

func svcNodeOf(spec []verifEnt, e *verifEnt) SvcNode {
	n := SvcNode{Type: verifTypeOf(e.kind)}
	switch e.kind {
	case 'f':
		n.Data = e.data
	case 'l':
		n.Target = e.target
	case 'h':
		for i := range spec {
			if spec[i].path == strings.TrimPrefix(e.target, "/") && spec[i].kind == 'f' {
				n.Data = spec[i].data
			}
		}
	}
	return n
}

// svcApply: OCI application of one source tar (same rules as verifApply, with contents).
func svcApply(fs map[string]SvcNode, spec []verifEnt) {
	rmTree := func(p string) {
		delete(fs, p)
		for q := range fs {
			if strings.HasPrefix(q, p+"/") {
				delete(fs, q)
			}
		}
	}
	for _, e := range spec {
		d, n := verifParent(e.path)
		if n == verifMarker {
			for q := range fs {
				if d == "" || strings.HasPrefix(q, d+"/") {
					delete(fs, q)
				}
			}
		}
	}
	for _, e := range spec {
		d, n := verifParent(e.path)
		if n != verifMarker && strings.HasPrefix(n, verifWh) {
			rmTree(verifJoin(d, n[len(verifWh):]))
		}
	}
	for i := range spec {
		e := &spec[i]
		d, n := verifParent(e.path)
		if strings.HasPrefix(n, verifWh) || (d == "" && verifHiddenRoot(n)) {
			continue
		}
		if e.kind == 'd' {
			if old, ok := fs[e.path]; ok && old.Type != syscall.S_IFDIR {
				rmTree(e.path)
			}
			fs[e.path] = SvcNode{Type: syscall.S_IFDIR}
			continue
		}
		rmTree(e.path)
		fs[e.path] = svcNodeOf(spec, e)
	}
}

func svcLayer(t T, spec []verifEnt) SvcLayer {
	sgz, _, err := tutil.BuildEStargz(verifTarEntries(spec))
	if err != nil {
		t.Fatalf("BuildEStargz: %v (spec %v)", err, verifSpecString(spec))
	}
	blob, err := io.ReadAll(io.NewSectionReader(sgz, 0, sgz.Size()))
	if err != nil {
		t.Fatalf("read blob: %v", err)
	}
	l := SvcLayer{Blob: blob, Spec: verifSpecString(spec), Served: map[string]SvcNode{}}
	st := verifSpecTreeOf(spec)
	var dirs []string
	for d := range st.kids {
		dirs = append(dirs, d)
	}
	sort.Strings(dirs)
	for _, d := range dirs {
		exp, opq := st.expected(d)
		if opq {
			l.Opaque = append(l.Opaque, d)
		}
		for name, x := range exp {
			n := SvcNode{Type: x.typ, Wh: x.wh}
			if nd := st.kids[d][name]; !x.wh && nd != nil && nd.ent != nil {
				n = svcNodeOf(spec, nd.ent)
			}
			l.Served[verifJoin(d, name)] = n
		}
	}
	return l
}

// SvcStacks generates n stacks of 2-3 layers (explicit directories, whiteouts, opaque directories in the
// marker form — some of them with an overlay xattr != "y" in their own tar header —, replaced entries,
// whiteout + real file of one name, names that look like whiteouts); the first stack is hand-written.
func SvcStacks(t T, rnd *verifutil.Rand, n int) []SvcStack {
	h := &verifC07{t: t, rnd: rnd}
	var out []SvcStack
	mk := func(specs [][]verifEnt, desc string) {
		s := SvcStack{Merged: map[string]SvcNode{}, Desc: desc}
		for _, spec := range specs {
			s.Layers = append(s.Layers, svcLayer(t, spec))
			svcApply(s.Merged, spec)
		}
		out = append(out, s)
	}
	sym := verifEnt{path: "d/link", kind: 'l', target: "../keep"}
	mk([][]verifEnt{
		{verifD("d"), verifF("d/a"), verifF("d/b"), verifD("d/sub"), verifF("d/sub/x"), verifD("o"), verifF("o/old1"), verifD("o/deep"),
			verifF("o/deep/old2"), verifF("keep"), verifF("repl"), verifD("x"), verifF("x/old"), verifF("wh.plain"), verifF(".whx"), sym},
		{verifD("d"), verifF("d/.wh.a"), {path: "d/b", kind: 'f', data: "replaced", mode: 0600}, verifF("d/.wh.sub"), verifF("d/.wh.nothing"),
			verifD("o"), verifF("o/" + verifMarker), verifF("o/new"),
			{path: "x", kind: 'd', mode: 0755, xattrs: map[string]string{"trusted.overlay.opaque": "x", "user.overlay.opaque": "n"}},
			verifF("x/" + verifMarker), verifF("x/fresh"), {path: "repl", kind: 'l', target: "keep"}, verifF(".wh.wh.plain"),
			verifF("both"), verifF(".wh.both"), verifF(".wh..wh.odd")},
		{verifD("d"), verifF("d/c"), verifD("o"), verifF("o/top"), verifF(".wh.keep")},
	}, "hand-written")
	for i := 0; i < n; i++ {
		applied := map[string]verifRef{}
		var specs [][]verifEnt
		for l, nl := 1, 2+rnd.Intn(2); l <= nl; l++ {
			spec := h.genLayer(applied, verifGenOpts{stack: true})
			// device nodes with arbitrary numbers are left to the node-API harness
			var keep []verifEnt
			for _, e := range spec {
				if e.kind != 'c' && e.kind != 'b' {
					keep = append(keep, e)
				}
			}
			specs = append(specs, keep)
			verifApply(applied, l, keep)
		}
		mk(specs, fmt.Sprintf("random %d", i))
	}
	return out
}
