// Package verifc07 is the generator / schedule / oracle core of the C07 harnesses (each layer is served as
// a correct overlayfs lower directory of the OCI layer).  It only uses exported API: the layer under test is
// handed in by a Backend (in-package newNode over the memory store; layer.Resolver over the db store) and is
// driven through the go-fuse node interfaces.
//
// Layers are built by the REAL builder (util/testutil.BuildEStargz -> estargz.Build) from generated tars.
// The node API (Readdir, Lookup, Getattr, Getxattr, Listxattr) is called in-process in random orders for
// every directory; every call is emitted for the Lean model (SV.Overlay via svdriver_c07) and,
// independently of that model, the property's predicate is evaluated on the answers by an oracle that only
// knows the source tar (spec) of the layer.
package verifc07

import (
	"context"
	"encoding/hex"
	"encoding/json"
	"errors"
	"fmt"
	"io"
	"os"
	"sort"
	"strings"
	"syscall"

	"github.com/containerd/log"
	"github.com/containerd/stargz-snapshotter/estargz"
	"github.com/containerd/stargz-snapshotter/internal/verifutil"
	"github.com/containerd/stargz-snapshotter/metadata"
	tutil "github.com/containerd/stargz-snapshotter/util/testutil"
	fusefs "github.com/hanwen/go-fuse/v2/fs"
	"github.com/hanwen/go-fuse/v2/fuse"
	digest "github.com/opencontainers/go-digest"
	"golang.org/x/sys/unix"
)

// T is what the core needs from *testing.T.
type T interface {
	Fatalf(format string, args ...any)
}

// Node is a go-fuse node (an alias, so that harnesses in modules that do not require go-fuse directly need
// not import it: importing it there would make `go test -mod=mod` rewrite that module's go.mod).
type Node = fusefs.InodeEmbedder

// InitRoot makes rn the initialised root of a go-fuse node tree (fusefs.NewNodeFS) and returns it.
func InitRoot(rn Node) Node {
	fusefs.NewNodeFS(rn, &fusefs.Options{})
	return rn
}

// Served is one layer served by the real node code.
type Served struct {
	Root       fusefs.InodeEmbedder        // root node, initialised with fusefs.NewNodeFS
	FreshRoot  func() fusefs.InodeEmbedder // another, un-memoised (initialised) root node of the same layer
	Meta       metadata.Reader             // what node.go reads: ids, children, attributes
	Digest     string                      // layer digest shown by the stat file
	Size       int64                       // blob size shown by the stat file
	Fetched    func() int64                // blob fetched size right now
	SetFetched func(int64)                 // nil when the harness cannot control it
	Report     func(error)                 // statFile.report; nil when not reachable
	Close      func()
	// RootAttrUnreliable: the db store reads the root attribute block before it is initialised
	// (recorded under C02/C05 as db-root-attr-read-before-init); the root's own Getattr is not compared.
	RootAttrUnreliable bool
}

// Backend serves a built eStargz blob through the real code.
type Backend interface {
	Name() string
	// Serve: om is "all" | "trusted" | "user"; size/fetched are honoured when the backend controls the blob.
	Serve(t T, sgz *io.SectionReader, tocDgst digest.Digest, base uint32, om string, size, fetched int64) *Served
	// Consts is the `consts` result line built from node.go's unexported constants ("" when unreachable).
	Consts() string
}

const stateDirName = ".stargz-snapshotter"

var opaqueXattrs = map[string][]string{
	"all":     {"trusted.overlay.opaque", "user.overlay.opaque"},
	"trusted": {"trusted.overlay.opaque"},
	"user":    {"user.overlay.opaque"},
}

// fileModeToSystemMode renders an os.FileMode as st_mode (type, permission, suid/sgid/sticky bits).
func fileModeToSystemMode(m os.FileMode) uint32 {
	res := uint32(m & os.ModePerm)
	switch m & os.ModeType {
	case os.ModeDevice:
		res |= syscall.S_IFBLK
	case os.ModeDevice | os.ModeCharDevice:
		res |= syscall.S_IFCHR
	case os.ModeDir:
		res |= syscall.S_IFDIR
	case os.ModeNamedPipe:
		res |= syscall.S_IFIFO
	case os.ModeSymlink:
		res |= syscall.S_IFLNK
	case os.ModeSocket:
		res |= syscall.S_IFSOCK
	default:
		res |= syscall.S_IFREG
	}
	if m&os.ModeSetuid != 0 {
		res |= syscall.S_ISUID
	}
	if m&os.ModeSetgid != 0 {
		res |= syscall.S_ISGID
	}
	if m&os.ModeSticky != 0 {
		res |= syscall.S_ISVTX
	}
	return res
}

const (
	verifWh     = ".wh."
	verifMarker = ".wh..wh..opq"
	verifIFMT   = uint32(syscall.S_IFMT)
)

// verifEnt is one entry of a generated source tar.
type verifEnt struct {
	path   string // clean, relative, no trailing slash
	kind   byte   // d f l(symlink) c b p(fifo) h(hardlink)
	data   string
	target string
	mode   os.FileMode
	major  int64
	minor  int64
	xattrs map[string]string
}

func verifTypeOf(k byte) uint32 {
	switch k {
	case 'd':
		return syscall.S_IFDIR
	case 'l':
		return syscall.S_IFLNK
	case 'c':
		return syscall.S_IFCHR
	case 'b':
		return syscall.S_IFBLK
	case 'p':
		return syscall.S_IFIFO
	}
	return syscall.S_IFREG
}

func verifHex(s string) string {
	if s == "" {
		return "-"
	}
	return hex.EncodeToString([]byte(s))
}

func verifParent(p string) (string, string) {
	if i := strings.LastIndex(p, "/"); i >= 0 {
		return p[:i], p[i+1:]
	}
	return "", p
}

func verifJoin(dir, name string) string {
	if dir == "" {
		return name
	}
	return dir + "/" + name
}

// ---------------------------------------------------------------------------------------------
// The layer as the source tar describes it (what the oracle knows).

type verifSpecNode struct {
	typ uint32
	ent *verifEnt // nil for implicit directories
}

type verifSpecTree struct {
	kids map[string]map[string]*verifSpecNode // dir path -> name -> node
}

func verifSpecTreeOf(spec []verifEnt) *verifSpecTree {
	st := &verifSpecTree{kids: map[string]map[string]*verifSpecNode{"": {}}}
	var mk func(dir string)
	mk = func(dir string) {
		if _, ok := st.kids[dir]; ok {
			return
		}
		st.kids[dir] = map[string]*verifSpecNode{}
		p, n := verifParent(dir)
		mk(p)
		if _, ok := st.kids[p][n]; !ok {
			st.kids[p][n] = &verifSpecNode{typ: syscall.S_IFDIR}
		}
	}
	for i := range spec {
		e := &spec[i]
		p, n := verifParent(e.path)
		mk(p)
		st.kids[p][n] = &verifSpecNode{typ: verifTypeOf(e.kind), ent: e}
		if e.kind == 'd' {
			mk(e.path)
		}
	}
	return st
}

func verifIsLandmark(n string) bool {
	return n == estargz.PrefetchLandmark || n == estargz.NoPrefetchLandmark
}

// verifHiddenRoot: names of the source tar's root that are not content (the builder drops them).
func verifHiddenRoot(n string) bool { return verifIsLandmark(n) || n == estargz.TOCTarName }

type verifExp struct {
	typ uint32
	wh  bool
}

// expected is the property's translation of one directory of the source tar: a whiteout .wh.X is a
// character device X unless a real X exists; the opaque marker, root landmarks and the root TOC
// entry never appear.
func (st *verifSpecTree) expected(dir string) (map[string]verifExp, bool) {
	raw := st.kids[dir]
	exp := map[string]verifExp{}
	opaque := false
	real := func(n string) bool {
		if strings.HasPrefix(n, verifWh) {
			return false
		}
		if dir == "" && verifHiddenRoot(n) {
			return false
		}
		_, ok := raw[n]
		return ok
	}
	for name, nd := range raw {
		if name == verifMarker {
			opaque = true
			continue
		}
		if strings.HasPrefix(name, verifWh) {
			tgt := name[len(verifWh):]
			if tgt == "" || tgt == "." || tgt == ".." || strings.HasPrefix(tgt, verifWh) || (dir == "" && verifHiddenRoot(tgt)) {
				// not the name of anything a lower layer can hold, and a name Lookup never resolves:
				// such a whiteout must not be listed (hidden names never appear, listing and lookup agree)
				continue
			}
			if !real(tgt) {
				exp[tgt] = verifExp{typ: syscall.S_IFCHR, wh: true}
			}
			continue
		}
		if !real(name) {
			continue
		}
		exp[name] = verifExp{typ: nd.typ}
	}
	return exp, opaque
}

// ---------------------------------------------------------------------------------------------
// Building and serving a layer with the real code.

type verifBuilt struct {
	spec []verifEnt
	st   *verifSpecTree
	sv   *Served
	base uint32
	om   string
}

func verifTarEntries(spec []verifEnt) []tutil.TarEntry {
	var in []tutil.TarEntry
	for _, e := range spec {
		switch e.kind {
		case 'd':
			opts := []tutil.DirectoryBuildTarOption{tutil.WithDirMode(e.mode)}
			if len(e.xattrs) > 0 {
				opts = append(opts, tutil.WithDirXattrs(e.xattrs))
			}
			in = append(in, tutil.Dir(e.path+"/", opts...))
		case 'f':
			opts := []tutil.FileBuildTarOption{tutil.WithFileMode(e.mode)}
			if len(e.xattrs) > 0 {
				opts = append(opts, tutil.WithFileXattrs(e.xattrs))
			}
			in = append(in, tutil.File(e.path, e.data, opts...))
		case 'l':
			in = append(in, tutil.Symlink(e.path, e.target))
		case 'h':
			in = append(in, tutil.Link(e.path, e.target))
		case 'c':
			in = append(in, tutil.Chardev(e.path, e.major, e.minor))
		case 'b':
			in = append(in, tutil.Blockdev(e.path, e.major, e.minor))
		case 'p':
			in = append(in, tutil.Fifo(e.path))
		}
	}
	return in
}

type verifC07 struct {
	t        T
	out      *verifutil.Out
	rnd      *verifutil.Rand
	be       Backend
	sname    string
	nkey     int
	findings bool
}

func (h *verifC07) build(spec []verifEnt, base uint32, om string, size, fetched int64, prioritized []string) *verifBuilt {
	var opts []tutil.BuildEStargzOption
	if len(prioritized) > 0 {
		opts = append(opts, tutil.WithEStargzOptions(estargz.WithPrioritizedFiles(prioritized)))
	}
	sgz, tocDgst, err := tutil.BuildEStargz(verifTarEntries(spec), opts...)
	if err != nil {
		h.t.Fatalf("BuildEStargz: %v (spec %v)", err, verifSpecString(spec))
	}
	sv := h.be.Serve(h.t, sgz, tocDgst, base, om, size, fetched)
	return &verifBuilt{spec: spec, st: verifSpecTreeOf(spec), sv: sv, base: base, om: om}
}

func verifSpecString(spec []verifEnt) string {
	var sb []string
	for _, e := range spec {
		s := fmt.Sprintf("%c:%s", e.kind, e.path)
		if e.kind == 'c' || e.kind == 'b' {
			s += fmt.Sprintf("(%d/%d)", e.major, e.minor)
		}
		if len(e.xattrs) > 0 {
			var ks []string
			for k, v := range e.xattrs {
				ks = append(ks, k+"="+v)
			}
			sort.Strings(ks)
			s += "{" + strings.Join(ks, ",") + "}"
		}
		sb = append(sb, s)
	}
	return strings.Join(sb, " ")
}

// ---------------------------------------------------------------------------------------------
// What the layer serves (collected through the node API), for the stack merge.

type verifServed struct {
	typ    uint32
	mode   uint32
	rdev   uint32
	ino    uint64
	layer  int
	opaque map[string]bool // xattr name -> answered "y"
	kids   map[string]*verifServed
}

type verifDirJob struct {
	n    fusefs.InodeEmbedder
	id   uint32 // metadata id of the directory
	path string
	sv   *verifServed
}

type verifEntOut struct {
	name string
	mode uint32
	ino  uint64
}

func verifEntsString(es []verifEntOut) string {
	sort.Slice(es, func(i, j int) bool {
		if es[i].name != es[j].name {
			return es[i].name < es[j].name
		}
		if es[i].mode != es[j].mode {
			return es[i].mode < es[j].mode
		}
		return es[i].ino < es[j].ino
	})
	if len(es) == 0 {
		return "-"
	}
	var sb []string
	for _, e := range es {
		sb = append(sb, fmt.Sprintf("%s:%d:%d", verifHex(e.name), e.mode, e.ino))
	}
	return strings.Join(sb, ",")
}

func verifXattrsString(x map[string][]byte) string {
	if len(x) == 0 {
		return "-"
	}
	var ks []string
	for k := range x {
		ks = append(ks, k)
	}
	sort.Strings(ks)
	var sb []string
	for _, k := range ks {
		sb = append(sb, verifHex(k)+"="+verifHex(string(x[k])))
	}
	return strings.Join(sb, ",")
}

type verifLookupOut struct {
	ok    bool
	errno syscall.Errno
	kind  string
	stype uint32
	amode uint32
	ino   uint64
	sino  uint64
	rdev  uint32
	ga    string
	gaIno uint64
	gaMod uint32
	gaDev uint32
	in    *fusefs.Inode
}

func (r *verifLookupOut) line() string {
	if !r.ok {
		if r.errno == syscall.ENOENT {
			return "enoent"
		}
		if r.errno == syscall.EIO {
			return "eio"
		}
		return fmt.Sprintf("errno-%d", int(r.errno))
	}
	return fmt.Sprintf("%s stype=%d amode=%d ino=%d rdev=%d ga=%s", r.kind, r.stype, r.amode, r.ino, r.rdev, r.ga)
}

// stable is the part of a lookup answer that must not depend on the call history.
func (r *verifLookupOut) stable() string {
	if !r.ok {
		return "fail"
	}
	return fmt.Sprintf("%s/%o/%d/%d", r.kind, r.stype, r.ino, r.rdev)
}

func verifKind(ops fusefs.InodeEmbedder) string {
	t := fmt.Sprintf("%T", ops)
	switch {
	case strings.HasSuffix(t, ".node"):
		return "node"
	case strings.HasSuffix(t, ".whiteout"):
		return "wh"
	case strings.HasSuffix(t, ".state"):
		return "state"
	}
	return t
}

func verifLookup(n fusefs.InodeEmbedder, name string) *verifLookupOut {
	var eo fuse.EntryOut
	in, errno := n.(fusefs.NodeLookuper).Lookup(context.Background(), name, &eo)
	r := &verifLookupOut{errno: errno}
	if errno != 0 {
		return r
	}
	r.ok = true
	r.in = in
	r.kind = verifKind(in.Operations())
	r.stype = in.StableAttr().Mode
	r.sino = in.StableAttr().Ino
	r.amode = eo.Attr.Mode
	r.ino = eo.Attr.Ino
	r.rdev = eo.Attr.Rdev
	r.ga = "none"
	if ga, ok := in.Operations().(fusefs.NodeGetattrer); ok {
		var ao fuse.AttrOut
		if e := ga.Getattr(context.Background(), nil, &ao); e != 0 {
			r.ga = "eio"
		} else {
			r.ga = fmt.Sprintf("%d:%d:%d", ao.Attr.Mode, ao.Attr.Ino, ao.Attr.Rdev)
			r.gaIno, r.gaMod, r.gaDev = ao.Attr.Ino, ao.Attr.Mode, ao.Attr.Rdev
		}
	}
	return r
}

func verifReaddir(n fusefs.InodeEmbedder) ([]verifEntOut, syscall.Errno) {
	ds, errno := n.(fusefs.NodeReaddirer).Readdir(context.Background())
	if errno != 0 {
		return nil, errno
	}
	var es []verifEntOut
	for ds.HasNext() {
		e, en := ds.Next()
		if en != 0 {
			return nil, en
		}
		es = append(es, verifEntOut{e.Name, e.Mode, e.Ino})
	}
	return es, 0
}

// layerRun is the per-layer bookkeeping of the oracle.
type verifLayerRun struct {
	b       *verifBuilt
	idx     int
	inoOf   map[string]uint64 // canonical object -> inode (stability)
	objOf   map[uint64]string // inode -> canonical object (uniqueness)
	kxNames []string
}

// canon names the object behind a served path: hard links share one object, a whiteout is the
// object of its .wh. entry.
func (lr *verifLayerRun) canon(dir, name string, wh bool) string {
	if wh {
		return "wh:" + verifJoin(dir, verifWh+name)
	}
	p := verifJoin(dir, name)
	if k := lr.b.st.kids[dir]; k != nil {
		if nd := k[name]; nd != nil && nd.ent != nil && nd.ent.kind == 'h' {
			return "obj:" + strings.TrimPrefix(nd.ent.target, "/")
		}
	}
	return "obj:" + p
}

func (h *verifC07) noteIno(lr *verifLayerRun, obj string, ino uint64, where string) {
	if ino>>32 != uint64(lr.b.base) {
		h.fail("inode-outside-layer-range", fmt.Sprintf("%s: inode %#x of %s is not in the range of base %d", where, ino, obj, lr.b.base))
	}
	low := ino & 0xffffffff
	if low == 1 || low == 2 {
		if obj != "state" && obj != "statfile" {
			h.fail("inode-collides-with-state", fmt.Sprintf("%s: %s has reserved inode %#x", where, obj, ino))
		}
	}
	if old, ok := lr.inoOf[obj]; ok && old != ino {
		h.fail("inode-unstable", fmt.Sprintf("%s: %s had inode %#x, now %#x", where, obj, old, ino))
	}
	lr.inoOf[obj] = ino
	if o, ok := lr.objOf[ino]; ok && o != obj {
		h.fail("inode-not-unique", fmt.Sprintf("%s: inode %#x is used by %s and %s", where, ino, o, obj))
	}
	lr.objOf[ino] = obj
}

func (h *verifC07) emitNode(lr *verifLayerRun, key string, nid uint32, isRoot bool) map[string]uint32 {
	md := lr.b.sv.Meta
	attr, err := md.GetAttr(nid)
	if err != nil {
		h.t.Fatalf("GetAttr(%d): %v", nid, err)
	}
	kids := map[string]uint32{}
	var cs []string
	err = md.ForeachChild(nid, func(name string, id uint32, mode os.FileMode) bool {
		kids[name] = id
		ca, e := md.GetAttr(id)
		if e != nil {
			h.t.Fatalf("GetAttr(%d): %v", id, e)
		}
		cs = append(cs, fmt.Sprintf("%s:%d:%d:%d", verifHex(name), id, fileModeToSystemMode(mode), uint32(unix.Mkdev(uint32(ca.DevMajor), uint32(ca.DevMinor)))))
		return true
	})
	if err != nil {
		cs = nil // not a directory
	}
	sort.Strings(cs)
	csS := "-"
	if len(cs) > 0 {
		csS = strings.Join(cs, ",")
	}
	r := 0
	if isRoot {
		r = 1
	}
	h.out.Emit(fmt.Sprintf("node %s %d %d %d %d %s %s", key, r, nid, fileModeToSystemMode(attr.Mode),
		uint32(unix.Mkdev(uint32(attr.DevMajor), uint32(attr.DevMinor))), verifXattrsString(attr.Xattrs), csS), "ok")
	return kids
}

func (h *verifC07) fail(sig, what string) {
	h.out.Fail(sig, what)
}

func (h *verifC07) newKey() string {
	h.nkey++
	return fmt.Sprintf("k%d", h.nkey)
}

// exploreDir drives one directory node with a random op sequence, checks the oracle, and returns the
// served children.
func (h *verifC07) exploreDir(lr *verifLayerRun, job verifDirJob) []verifDirJob {
	out, rnd := h.out, h.rnd
	n, dir := job.n, job.path
	isRoot := dir == ""
	key := h.newKey()
	kidIDs := h.emitNode(lr, key, job.id, isRoot)
	exp, expOpaque := lr.b.st.expected(dir)
	raw := lr.b.st.kids[dir]
	where := func(op string) string {
		return fmt.Sprintf("layer#%d[%s] %s dir=%q spec=[%s]", lr.idx, lr.b.om, op, dir, verifSpecString(lr.b.spec))
	}

	// names to probe
	probeSet := map[string]bool{}
	for nme := range exp {
		probeSet[nme] = true
		if rnd.Intn(3) == 0 {
			probeSet[verifWh+nme] = true
		}
	}
	for nme := range raw {
		probeSet[nme] = true
	}
	for _, s := range []string{estargz.PrefetchLandmark, estargz.NoPrefetchLandmark, estargz.TOCTarName, verifMarker, stateDirName, "nonexistent", ".wh.nonexistent", ".", ".."} {
		if rnd.Intn(2) == 0 || isRoot {
			probeSet[s] = true
		}
	}
	if raw[verifWh] != nil {
		probeSet[""] = true // never sent by the kernel; compared with the model only
	}
	var probes []string
	for p := range probeSet {
		probes = append(probes, p)
	}
	sort.Strings(probes)
	for i := len(probes) - 1; i > 0; i-- {
		j := rnd.Intn(i + 1)
		probes[i], probes[j] = probes[j], probes[i]
	}

	var lastList []verifEntOut
	haveList := false
	lastLookup := map[string]*verifLookupOut{}
	adopted := map[string]bool{}

	// doReaddir lists through node nn (the directory's primary node, or a fresh un-memoised node of the
	// same directory: ForeachChild's order differs from call to call).
	doReaddir := func(nn fusefs.InodeEmbedder, key string, primary bool) {
		es, errno := verifReaddir(nn)
		out.Count("readdir")
		if !primary {
			out.Count("readdir-fresh-node")
		}
		if errno != 0 {
			out.Emit("readdir "+key, "eio")
			h.fail("readdir-failed", where("Readdir")+fmt.Sprintf(": errno %d", int(errno)))
			return
		}
		out.Emit("readdir "+key, "ok "+verifEntsString(append([]verifEntOut(nil), es...)))
		if haveList && verifEntsString(append([]verifEntOut(nil), lastList...)) != verifEntsString(append([]verifEntOut(nil), es...)) {
			h.fail("listing-unstable", where("Readdir")+": two calls (same or fresh node of this directory) returned different listings")
		}
		if primary {
			lastList, haveList = es, true
		}
		// ---- oracle: the listing is the overlayfs translation of the source directory ----
		seen := map[string]verifEntOut{}
		ndot, ndotdot := 0, 0
		for _, e := range es {
			typ := e.mode & verifIFMT
			if e.name == "." && typ == syscall.S_IFDIR && e.ino == 0 {
				ndot++
				continue
			}
			if e.name == ".." && typ == syscall.S_IFDIR && e.ino == 0 {
				ndotdot++
				continue
			}
			if e.name == "" || e.name == "." || e.name == ".." || strings.Contains(e.name, "/") {
				h.fail("whiteout-with-empty-or-dot-target-listed", where("Readdir")+fmt.Sprintf(": invalid entry name %q (mode %o) listed", e.name, e.mode))
				continue
			}
			if _, dup := seen[e.name]; dup {
				h.fail("listing-duplicate-name", where("Readdir")+fmt.Sprintf(": %q listed twice", e.name))
			}
			seen[e.name] = e
			switch {
			case e.name == verifMarker && raw[verifWh+e.name] == nil:
				h.fail("opaque-marker-listed", where("Readdir")+": the opaque marker is listed")
			case strings.HasPrefix(e.name, verifWh) && verifWh+e.name == verifMarker:
				h.fail("opaque-marker-listed-as-whiteout", where("Readdir")+fmt.Sprintf(": the opaque marker is translated like a whiteout, %q is listed", e.name))
			case strings.HasPrefix(e.name, verifWh):
				if tgt := verifWh + e.name; raw[tgt] != nil {
					h.fail("whiteout-of-dotwh-name-listed-not-lookupable", where("Readdir")+fmt.Sprintf(": %q is listed (whiteout of a name that begins with .wh.)", e.name))
				} else {
					h.fail("dotwh-name-listed", where("Readdir")+fmt.Sprintf(": whiteout file %q is listed", e.name))
				}
			case isRoot && verifIsLandmark(e.name):
				if raw[verifWh+e.name] != nil {
					h.fail("whiteout-of-landmark-listed-in-root-not-lookupable", where("Readdir")+fmt.Sprintf(": %q is listed in the root (whiteout of a landmark name)", e.name))
				} else {
					h.fail("landmark-listed-in-root", where("Readdir")+fmt.Sprintf(": %q is listed in the root", e.name))
				}
			case isRoot && e.name == estargz.TOCTarName:
				h.fail("toc-listed-in-root", where("Readdir")+": the TOC entry is listed in the root")
			case isRoot && e.name == stateDirName:
				h.fail("state-dir-listed", where("Readdir")+": the state directory is listed")
			}
			x, ok := exp[e.name]
			if !ok {
				if raw[e.name] != nil || raw[verifWh+e.name] != nil {
					continue // reported above (hidden name) or below (shadowed whiteout)
				}
				h.fail("listing-extra-name", where("Readdir")+fmt.Sprintf(": %q is listed but the layer has no such entry", e.name))
				continue
			}
			if x.wh {
				if e.mode != syscall.S_IFCHR {
					h.fail("whiteout-not-chr00", where("Readdir")+fmt.Sprintf(": whiteout %q listed with mode %o", e.name, e.mode))
				}
			} else if typ != x.typ {
				if typ == syscall.S_IFCHR && raw[verifWh+e.name] != nil {
					h.fail("whiteout-shadows-real-entry", where("Readdir")+fmt.Sprintf(": %q exists as a real entry (type %o) but is listed as a whiteout", e.name, x.typ))
				} else {
					h.fail("listing-type-mismatch", where("Readdir")+fmt.Sprintf(": %q listed with type %o, the layer says %o", e.name, typ, x.typ))
				}
			}
			h.noteIno(lr, lr.canon(dir, e.name, x.wh), e.ino, where("Readdir"))
		}
		if ndot != 1 || ndotdot != 1 {
			h.fail("dot-entries-missing", where("Readdir")+fmt.Sprintf(": %d '.' and %d '..' entries", ndot, ndotdot))
		}
		for nme, x := range exp {
			if _, ok := seen[nme]; !ok {
				if x.wh {
					h.fail("whiteout-not-listed", where("Readdir")+fmt.Sprintf(": whiteout of %q is not listed as a character device", nme))
				} else {
					h.fail("listing-missing-name", where("Readdir")+fmt.Sprintf(": %q is not listed", nme))
				}
			}
		}
	}

	doLookup := func(name string) {
		adopt := 0
		r := verifLookup(n, name)
		out.Count("lookup")
		// the hidden state directory is adopted after its first successful lookup in every layer (the bridge
		// registers every inode a Lookup returns); ordinary children at random
		if r.ok && name != "" && name != "." && name != ".." && (rnd.Intn(3) == 0 || (r.kind == "state" && !adopted[name])) {
			// what go-fuse's bridge does after a successful Lookup (rawBridge.addNewChild)
			if n.EmbeddedInode().AddChild(name, r.in, true) {
				adopt = 1
				adopted[name] = true
				out.Count("adopt")
			}
		}
		memo := "fresh"
		if haveList {
			memo = "memoised"
		}
		if adopted[name] && adopt == 0 {
			memo = "child-cached"
		}
		out.Count("lookup-" + memo)
		out.Emit(fmt.Sprintf("lookup %s %s %d", key, verifHex(name), adopt), r.line())
		w := where(fmt.Sprintf("Lookup(%q) [%s]", name, memo))
		if !r.ok && r.errno != syscall.ENOENT {
			h.fail("lookup-errno", w+fmt.Sprintf(": errno %d", int(r.errno)))
		}
		if prev, ok := lastLookup[name]; ok && name != "" && prev.stable() != r.stable() {
			h.fail("lookup-unstable", w+fmt.Sprintf(": answered %s, earlier %s", r.stable(), prev.stable()))
		}
		lastLookup[name] = r
		if name == "." || name == ".." || name == "" {
			return
		}
		if isRoot && name == stateDirName {
			if !r.ok || r.kind != "state" || r.stype != syscall.S_IFDIR || r.gaMod != syscall.S_IFDIR|0500 {
				h.fail("state-dir-not-served", w+": "+r.line())
			} else {
				h.noteIno(lr, "state", r.ino, w)
			}
			return
		}
		// ---- oracle: hidden names are not reachable ----
		if r.ok && (strings.HasPrefix(name, verifWh) || (isRoot && verifHiddenRoot(name))) {
			h.fail("hidden-name-lookupable", w+": "+r.line())
		}
		// ---- oracle: listing and lookup agree (against the source tar and against the real listing) ----
		x, want := exp[name]
		if want != r.ok {
			if want {
				h.fail("listed-not-lookupable", w+": the layer's translation has this name, Lookup failed")
			} else if !strings.HasPrefix(name, verifWh) && !(isRoot && verifHiddenRoot(name)) {
				h.fail("lookupable-not-listed", w+": "+r.line()+" but the layer's translation has no such name")
			}
		}
		if haveList {
			var le *verifEntOut
			for i := range lastList {
				if lastList[i].name == name {
					le = &lastList[i]
				}
			}
			if (le != nil) != r.ok {
				sig := "listing-lookup-disagree"
				if le != nil && strings.HasPrefix(name, verifWh) {
					sig = "whiteout-of-dotwh-name-listed-not-lookupable"
				} else if le != nil && isRoot && verifIsLandmark(name) {
					sig = "whiteout-of-landmark-listed-in-root-not-lookupable"
				}
				h.fail(sig, w+fmt.Sprintf(": listed=%v lookup-ok=%v", le != nil, r.ok))
			} else if le != nil {
				if le.ino != r.ino {
					h.fail("lookup-listing-inode-mismatch", w+fmt.Sprintf(": dirent inode %#x, lookup inode %#x", le.ino, r.ino))
				}
				if le.mode&verifIFMT != r.stype&verifIFMT {
					h.fail("lookup-listing-type-mismatch", w+fmt.Sprintf(": dirent type %o, lookup type %o", le.mode&verifIFMT, r.stype&verifIFMT))
				}
			}
		}
		if !r.ok {
			return
		}
		if r.ino != r.sino || (r.ga != "none" && r.gaIno != r.ino) {
			h.fail("inode-unstable", w+fmt.Sprintf(": attr inode %#x, stable inode %#x, getattr inode %#x", r.ino, r.sino, r.gaIno))
		}
		if want {
			h.noteIno(lr, lr.canon(dir, name, x.wh), r.ino, w)
			// ---- oracle: whiteout <-> character device 0/0 ----
			isChr00 := r.stype&verifIFMT == syscall.S_IFCHR && r.rdev == 0 && r.gaMod&verifIFMT == syscall.S_IFCHR && r.gaDev == 0
			if x.wh && (!isChr00 || r.kind != "wh") {
				h.fail("whiteout-not-chr00", w+": "+r.line())
			}
			if !x.wh && r.stype&verifIFMT != x.typ {
				if r.kind == "wh" {
					h.fail("whiteout-shadows-real-entry", w+": "+r.line())
				} else {
					h.fail("lookup-type-mismatch", w+fmt.Sprintf(": type %o, the layer says %o", r.stype&verifIFMT, x.typ))
				}
			}
		}
	}

	xattrsOfDir := map[string]string{}
	if p, nme := verifParent(dir); dir != "" {
		if nd := lr.b.st.kids[p][nme]; nd != nil && nd.ent != nil {
			xattrsOfDir = nd.ent.xattrs
		}
	}
	opq := map[string]bool{}
	doGetxattr := func(name string, dl int) {
		dest := make([]byte, dl)
		nb, errno := n.(fusefs.NodeGetxattrer).Getxattr(context.Background(), name, dest)
		out.Count("getxattr")
		var res string
		switch errno {
		case 0:
			res = fmt.Sprintf("ok %d %s", nb, verifHex(string(dest[:nb])))
		case syscall.ERANGE:
			res = fmt.Sprintf("erange %d", nb)
		case syscall.ENODATA:
			res = "enodata"
		default:
			res = fmt.Sprintf("errno-%d", int(errno))
		}
		out.Emit(fmt.Sprintf("getxattr %s %s %d", key, verifHex(name), dl), res)
		// ---- oracle: opaque xattr per mode ----
		w := where(fmt.Sprintf("Getxattr(%q,%d)", name, dl))
		inMode := false
		for _, o := range opaqueXattrs[lr.b.om] {
			if o == name {
				inMode = true
			}
		}
		isOvl := name == "trusted.overlay.opaque" || name == "user.overlay.opaque"
		ownVal, own := xattrsOfDir[name]
		if isOvl && errno == 0 {
			opq[name] = string(dest[:nb]) == "y"
		}
		if isOvl && own {
			// the entry's own header carries an overlay xattr: an opaque directory still answers exactly "y"
			// for the configured names; otherwise the header's value shows through
			want := ownVal
			if inMode && expOpaque {
				want = "y"
			}
			switch {
			case errno == 0 && string(dest[:nb]) != want:
				sig := "xattr-value-wrong"
				if inMode && expOpaque {
					sig = "opaque-xattr-not-y"
				}
				h.fail(sig, w+fmt.Sprintf(": %s, want value %q (entry's own header says %q, opaque=%v, mode=%s)", res, want, ownVal, expOpaque, lr.b.om))
			case errno == syscall.ERANGE && (dl >= len(want) || int(nb) != len(want)):
				h.fail("opaque-xattr-not-y", w+fmt.Sprintf(": %s, want value %q", res, want))
			case errno != 0 && errno != syscall.ERANGE:
				h.fail("xattr-lost", w+": "+res)
			}
		}
		if isOvl && !own {
			answered := errno == 0 || errno == syscall.ERANGE
			switch {
			case inMode && expOpaque && !answered:
				h.fail("opaque-xattr-missing", w+": "+res)
			case inMode && expOpaque && errno == 0 && string(dest[:nb]) != "y":
				h.fail("opaque-xattr-missing", w+": value "+res)
			case inMode && expOpaque && errno == syscall.ERANGE && (dl >= 1 || nb != 1):
				h.fail("opaque-xattr-missing", w+": "+res)
			case !expOpaque && answered:
				h.fail("opaque-xattr-on-non-opaque-dir", w+": "+res)
			case !inMode && answered:
				h.fail("opaque-xattr-outside-configured-mode", w+": "+res)
			}
		}
	}
	doListxattr := func(dl int) {
		dest := make([]byte, dl)
		nb, errno := n.(fusefs.NodeListxattrer).Listxattr(context.Background(), dest)
		out.Count("listxattr")
		var res string
		var names []string
		switch errno {
		case 0:
			if nb > 0 {
				names = strings.Split(strings.TrimSuffix(string(dest[:nb]), "\x00"), "\x00")
			}
			sort.Strings(names)
			hs := make([]string, len(names))
			for i, s := range names {
				hs[i] = verifHex(s)
			}
			ns := "-"
			if len(hs) > 0 {
				ns = strings.Join(hs, ",")
			}
			res = fmt.Sprintf("ok %d %s", nb, ns)
		case syscall.ERANGE:
			res = fmt.Sprintf("erange %d", nb)
		default:
			res = fmt.Sprintf("errno-%d", int(errno))
		}
		out.Emit(fmt.Sprintf("listxattr %s %d", key, dl), res)
		if errno != 0 {
			return
		}
		w := where("Listxattr")
		for _, o := range []string{"trusted.overlay.opaque", "user.overlay.opaque"} {
			if _, own := xattrsOfDir[o]; own {
				continue
			}
			inMode := false
			for _, m := range opaqueXattrs[lr.b.om] {
				if m == o {
					inMode = true
				}
			}
			cnt := 0
			for _, s := range names {
				if s == o {
					cnt++
				}
			}
			if want := expOpaque && inMode; want && cnt != 1 || !want && cnt != 0 {
				sig := "opaque-xattr-missing"
				if !expOpaque {
					sig = "opaque-xattr-on-non-opaque-dir"
				} else if !inMode {
					sig = "opaque-xattr-outside-configured-mode"
				}
				h.fail(sig, w+fmt.Sprintf(": %q listed %d times (opaque=%v, mode=%s)", o, cnt, expOpaque, lr.b.om))
			}
		}
		for k := range xattrsOfDir {
			found := false
			for _, s := range names {
				if s == k {
					found = true
				}
			}
			if !found {
				h.fail("xattr-lost", w+fmt.Sprintf(": xattr %q of the entry is not listed", k))
			}
		}
	}
	doGetattr := func() {
		if isRoot && lr.b.sv.RootAttrUnreliable {
			out.Count("getattr-root-skipped")
			return
		}
		var ao fuse.AttrOut
		errno := n.(fusefs.NodeGetattrer).Getattr(context.Background(), nil, &ao)
		out.Count("getattr")
		if errno != 0 {
			out.Emit("getattr "+key, "eio")
			h.fail("getattr-failed", where("Getattr"))
			return
		}
		out.Emit("getattr "+key, fmt.Sprintf("ok %d %d %d", ao.Attr.Mode, ao.Attr.Ino, ao.Attr.Rdev))
		obj := "obj:" + dir
		if isRoot {
			obj = "root"
		}
		h.noteIno(lr, obj, ao.Attr.Ino, where("Getattr"))
		if ao.Attr.Mode&verifIFMT != syscall.S_IFDIR {
			h.fail("dir-type-mismatch", where("Getattr")+fmt.Sprintf(": mode %o", ao.Attr.Mode))
		}
	}

	// the op schedule: lookups before and after the listing is memoised, repeated lookups
	type op struct {
		k    int
		name string
		dl   int
	}
	var ops []op
	nBefore := 0
	switch rnd.Intn(3) {
	case 0:
		nBefore = 0
	case 1:
		nBefore = rnd.Intn(len(probes) + 1)
	default:
		nBefore = len(probes)
	}
	for i, p := range probes {
		if i == nBefore {
			ops = append(ops, op{k: 0})
		}
		ops = append(ops, op{k: 1, name: p})
		if rnd.Intn(4) == 0 {
			ops = append(ops, op{k: 1, name: probes[rnd.Intn(i+1)]})
		}
	}
	ops = append(ops, op{k: 0})
	for _, p := range probes { // every name once more after memoisation / adoption
		if rnd.Intn(2) == 0 {
			ops = append(ops, op{k: 1, name: p})
		}
	}
	xn := []string{"trusted.overlay.opaque", "user.overlay.opaque", "user.foo", "security.capability", "trusted.overlay.redirect"}
	for k := range xattrsOfDir {
		xn = append(xn, k)
	}
	sort.Strings(xn)
	for _, x := range xn {
		for _, dl := range []int{64, 0, 1} {
			if dl == 64 || rnd.Intn(2) == 0 {
				ops = append(ops, op{k: 2, name: x, dl: dl})
			}
		}
	}
	ops = append(ops, op{k: 3, dl: 4096}, op{k: 4})
	if rnd.Intn(2) == 0 {
		ops = append(ops, op{k: 3, dl: rnd.Intn(40)})
	}
	// xattr / getattr ops are interleaved at random positions
	nl := 0
	for _, o := range ops {
		if o.k <= 1 {
			nl++
		}
	}
	var sched []op
	var tail []op
	for _, o := range ops {
		if o.k <= 1 {
			sched = append(sched, o)
		} else {
			tail = append(tail, o)
		}
	}
	for _, o := range tail {
		i := rnd.Intn(len(sched) + 1)
		sched = append(sched[:i], append([]op{o}, sched[i:]...)...)
	}
	for _, o := range sched {
		switch o.k {
		case 0:
			doReaddir(n, key, true)
		case 1:
			doLookup(o.name)
		case 2:
			doGetxattr(o.name, o.dl)
		case 3:
			doListxattr(o.dl)
		case 4:
			doGetattr()
		}
	}
	if isRoot {
		// the state directory resolves on EVERY lookup, also once go-fuse holds it as a child of the root
		doLookup(stateDirName)
		doLookup(stateDirName)
		doLookup(stateDirName)
	}
	if len(raw) > 12 {
		// big directory: several fresh, un-memoised nodes of the same directory
		out.Count("big-dir")
		for i := 0; i < 6; i++ {
			// a fresh root and un-adopted lookups down the path give fresh nodes all the way
			fresh := lr.b.sv.FreshRoot()
			for _, c := range strings.Split(dir, "/") {
				if c == "" || fresh == nil {
					continue
				}
				var eo fuse.EntryOut
				in, errno := fresh.(fusefs.NodeLookuper).Lookup(context.Background(), c, &eo)
				if errno != 0 {
					h.fail("lookup-unstable", where("fresh Lookup "+c)+fmt.Sprintf(": errno %d", int(errno)))
					fresh = nil
					break
				}
				fresh = in.Operations()
			}
			if fresh == nil {
				continue
			}
			fk := h.newKey()
			h.emitNode(lr, fk, job.id, isRoot)
			doReaddir(fresh, fk, false)
		}
	}
	for _, kn := range lr.kxNames {
		if _, seen := opq[kn]; !seen {
			doGetxattr(kn, 8)
		}
	}
	job.sv.opaque = opq

	// served children (for the stack merge) and the directories to descend into
	var next []verifDirJob
	if !haveList {
		return nil
	}
	names := []string{}
	for _, e := range lastList {
		if e.name == "." || e.name == ".." || e.name == "" {
			continue
		}
		names = append(names, e.name)
	}
	sort.Strings(names)
	for _, nme := range names {
		r := lastLookup[nme]
		if r == nil {
			doLookup(nme)
			r = lastLookup[nme]
		}
		if r == nil || !r.ok {
			continue // reported by the agreement oracle
		}
		c := &verifServed{typ: r.stype & verifIFMT, mode: r.amode, rdev: r.rdev, ino: r.ino, layer: lr.idx, kids: map[string]*verifServed{}}
		job.sv.kids[nme] = c
		cn, ok := r.in.Operations(), r.kind == "node"
		if ok && c.typ == syscall.S_IFDIR {
			next = append(next, verifDirJob{n: cn, id: kidIDs[nme], path: verifJoin(dir, nme), sv: c})
		} else if ok && rnd.Intn(4) == 0 {
			// xattr calls on a non-directory node
			fk := h.newKey()
			h.emitNode(lr, fk, kidIDs[nme], false)
			for _, x := range []string{"trusted.overlay.opaque", "user.overlay.opaque", "user.foo"} {
				dest := make([]byte, 16)
				nb, errno := cn.(fusefs.NodeGetxattrer).Getxattr(context.Background(), x, dest)
				res := "enodata"
				if errno == 0 {
					res = fmt.Sprintf("ok %d %s", nb, verifHex(string(dest[:nb])))
				} else if errno != syscall.ENODATA {
					res = fmt.Sprintf("errno-%d", int(errno))
				}
				out.Emit(fmt.Sprintf("getxattr %s %s 16", fk, verifHex(x)), res)
				own := false
				if nd := raw[nme]; nd != nil && nd.ent != nil {
					_, own = nd.ent.xattrs[x]
				}
				if errno == 0 && !own && x != "user.foo" {
					h.fail("opaque-xattr-on-non-opaque-dir", where("Getxattr on non-directory "+nme)+": "+res)
				}
			}
		}
	}
	return next
}

// exploreLayer walks every directory of the layer through the node API.
func (h *verifC07) exploreLayer(b *verifBuilt, idx int, kxNames []string) *verifServed {
	lr := &verifLayerRun{b: b, idx: idx, inoOf: map[string]uint64{}, objOf: map[uint64]string{}, kxNames: kxNames}
	h.out.Emit(fmt.Sprintf("layer %d %s %s %d %d", b.base, b.om, verifHex(b.sv.Digest), b.sv.Size, b.sv.Fetched()), "ok")
	rootSv := &verifServed{typ: syscall.S_IFDIR, layer: idx, kids: map[string]*verifServed{}}
	queue := []verifDirJob{{n: b.sv.Root, id: b.sv.Meta.RootID(), path: "", sv: rootSv}}
	for len(queue) > 0 {
		// random order over the pending directories
		i := h.rnd.Intn(len(queue))
		job := queue[i]
		queue = append(queue[:i], queue[i+1:]...)
		queue = append(queue, h.exploreDir(lr, job)...)
	}
	h.exploreState(lr)
	return rootSv
}

// exploreState checks the hidden state directory and the stat file.
func (h *verifC07) exploreState(lr *verifLayerRun) {
	out, rnd, b := h.out, h.rnd, lr.b
	sv := b.sv
	var eo fuse.EntryOut
	sti, errno := sv.Root.(fusefs.NodeLookuper).Lookup(context.Background(), stateDirName, &eo)
	if errno != 0 {
		h.fail("state-dir-not-served", fmt.Sprintf("Lookup(%q) errno %d", stateDirName, int(errno)))
		return
	}
	st := sti.Operations()
	if verifKind(st) != "state" {
		h.fail("state-dir-not-served", "not a state node")
		return
	}
	wantName := sv.Digest + ".json"
	var sf fusefs.InodeEmbedder // the stat file node, once a Lookup returned it
	reported := false
	stLookup := func(name string) {
		var eo2 fuse.EntryOut
		in, errno := st.(fusefs.NodeLookuper).Lookup(context.Background(), name, &eo2)
		res := ""
		switch errno {
		case 0:
			res = fmt.Sprintf("ok %d %d", eo2.Attr.Mode, eo2.Attr.Ino)
		case syscall.ENOENT:
			res = "enoent"
		default:
			res = "eio"
		}
		out.Emit("st.lookup "+verifHex(name), res)
		if sv.Size > 0 {
			if (name == wantName) != (errno == 0) {
				h.fail("statfile-listing-lookup-disagree", fmt.Sprintf("state.Lookup(%q): %s", name, res))
			}
			if errno == 0 {
				h.noteIno(lr, "statfile", eo2.Attr.Ino, "state.Lookup")
				if !strings.HasSuffix(fmt.Sprintf("%T", in.Operations()), ".statFile") || eo2.Attr.Mode != syscall.S_IFREG|0400 {
					h.fail("statfile-not-listed", "state.Lookup: "+res)
				}
			}
		}
		if errno == 0 && name == wantName {
			if sf == nil {
				// what the bridge does with the inode a Lookup returned
				st.EmbeddedInode().AddChild(wantName, in, true)
			}
			sf = in.Operations()
		}
	}
	stRead := func() {
		if sf == nil {
			stLookup(wantName)
		}
		if sf == nil {
			return // size 0: the stat file cannot even be looked up (EIO, compared above)
		}
		if sv.SetFetched == nil {
			out.Emit(fmt.Sprintf("st.fetched %d", sv.Fetched()), "ok") // tell the model the blob's current value
		}
		want := sv.Fetched()
		buf := make([]byte, 8192)
		rres, errno := sf.(fusefs.NodeReader).Read(context.Background(), nil, buf, 0)
		if errno != 0 {
			out.Emit("st.read", "eio")
			if sv.Size > 0 {
				h.fail("statfile-unreadable", fmt.Sprintf("statFile.Read errno %d", int(errno)))
			}
			return
		}
		data, _ := rres.Bytes(nil)
		var m map[string]json.RawMessage
		dec := json.NewDecoder(strings.NewReader(string(data)))
		if err := dec.Decode(&m); err != nil {
			out.Emit("st.read", "invalid-json")
			h.fail("statfile-invalid-json", fmt.Sprintf("%q: %v", data, err))
			return
		}
		var keys []string
		for k := range m {
			keys = append(keys, k)
		}
		sort.Strings(keys)
		get := func(k string, str bool) string {
			v, ok := m[k]
			if !ok {
				return "missing"
			}
			if str {
				var s string
				if json.Unmarshal(v, &s) != nil {
					return "notstring"
				}
				return verifHex(s)
			}
			return string(v)
		}
		out.Emit("st.read", fmt.Sprintf("keys=%s digest=%s size=%s fetchedSize=%s error=%s", strings.Join(keys, ","),
			get("digest", true), get("size", false), get("fetchedSize", false), get("error", true)))
		// ---- oracle: valid JSON reporting digest, size and fetched size, and no error nobody reported ----
		var sj struct {
			Digest      *string `json:"digest"`
			Size        *int64  `json:"size"`
			FetchedSize *int64  `json:"fetchedSize"`
			Error       *string `json:"error"`
		}
		if err := json.Unmarshal(data, &sj); err != nil || sj.Digest == nil || sj.Size == nil || sj.FetchedSize == nil {
			h.fail("statfile-field-missing", fmt.Sprintf("%q", data))
		} else if *sj.Digest != sv.Digest || *sj.Size != sv.Size || *sj.FetchedSize != want {
			h.fail("statfile-wrong-values", fmt.Sprintf("%q, want digest=%s size=%d fetchedSize=%d", data, sv.Digest, sv.Size, want))
		}
		if sj.Error != nil && !reported {
			h.fail("statfile-spurious-error", fmt.Sprintf("the layer reports an error although every call succeeded: %q", data))
		}
	}
	nsteps := 2 + rnd.Intn(4)
	for i := 0; i < nsteps; i++ {
		switch rnd.Pick(3, 3, 3, 1, 1) {
		case 0:
			ds, errno := st.(fusefs.NodeReaddirer).Readdir(context.Background())
			if errno != 0 {
				out.Emit("st.readdir", "eio")
				h.fail("statfile-not-listed", "state.Readdir failed")
				continue
			}
			var es []verifEntOut
			for ds.HasNext() {
				e, _ := ds.Next()
				es = append(es, verifEntOut{e.Name, e.Mode, e.Ino})
			}
			out.Emit("st.readdir", "ok "+verifEntsString(append([]verifEntOut(nil), es...)))
			if len(es) != 1 || es[0].name != wantName || es[0].mode != syscall.S_IFREG|0400 {
				h.fail("statfile-not-listed", fmt.Sprintf("state dir lists %v, want only %q", es, wantName))
			} else {
				h.noteIno(lr, "statfile", es[0].ino, "state.Readdir")
			}
		case 1:
			name := wantName
			if rnd.Intn(3) == 0 {
				name = []string{"x.json", sv.Digest, "", ".", wantName + "x"}[rnd.Intn(5)]
			}
			stLookup(name)
		case 2:
			stRead()
		case 3:
			if sv.SetFetched == nil {
				continue
			}
			nf := int64(rnd.Intn(int(sv.Size) + 2))
			sv.SetFetched(nf)
			out.Emit(fmt.Sprintf("st.fetched %d", nf), "ok")
		case 4:
			if sv.Report == nil {
				continue
			}
			msg := fmt.Sprintf("verif-%d \"quoted\" \\ <é>", rnd.Intn(1000))
			sv.Report(errors.New(msg))
			reported = true
			out.Emit("st.report "+verifHex(msg), "ok")
		}
	}
	// in every layer: the stat file is looked up twice more (by now it is a child of the state inode, as the
	// bridge would have made it) and read
	stLookup(wantName)
	stLookup(wantName)
	stRead()
}

// ---------------------------------------------------------------------------------------------
// Generators.

type verifRef struct {
	typ   uint32
	layer int
}

var verifNames = []string{"a", "b", "c", "d", "e", "f", "g", ".hid", "wh.x", "x.wh.y", ".whx", "café", "A", "z9", ".w"}

func (h *verifC07) genXattrs() map[string]string {
	if h.rnd.Intn(4) != 0 {
		return nil
	}
	x := map[string]string{}
	for i, n := 0, 1+h.rnd.Intn(2); i < n; i++ {
		k := []string{"user.foo", "user.bar", "security.capability", "trusted.x", "user.overlay.origin"}[h.rnd.Intn(5)]
		x[k] = []string{"", "v", "value-1", "y"}[h.rnd.Intn(4)]
	}
	return x
}

type verifGenOpts struct {
	stack    bool // explicit parent directories only, domain of the composition oracle
	big      bool // always add a big directory
	findings bool // always add a whiteout of a .wh. name / of a landmark name in the root / of "", ".", ".."
}

// genLayer generates one source tar.  `lower` is the root filesystem below (nil for a single layer).
func (h *verifC07) genLayer(lower map[string]verifRef, o verifGenOpts) []verifEnt {
	rnd := h.rnd
	var spec []verifEnt
	typ := map[string]byte{} // path -> kind in this layer (explicit or 'D' implicit dir)
	dirs := []string{""}
	lowerDirs := []string{}
	var lowerPaths []string
	for p, r := range lower {
		lowerPaths = append(lowerPaths, p)
		if r.typ == syscall.S_IFDIR {
			lowerDirs = append(lowerDirs, p)
		}
	}
	sort.Strings(lowerPaths)
	sort.Strings(lowerDirs)
	hasWhFor := func(p string) bool {
		d, n := verifParent(p)
		_, ok := typ[verifJoin(d, verifWh+n)]
		return ok
	}
	var ensureDir func(p string) bool
	ensureDir = func(p string) bool {
		if p == "" {
			return true
		}
		if k, ok := typ[p]; ok {
			return k == 'd' || k == 'D'
		}
		if hasWhFor(p) {
			return false // excluded domain: whiteout and directory of the same name
		}
		par, _ := verifParent(p)
		if !ensureDir(par) {
			return false
		}
		if o.stack || rnd.Intn(4) != 0 {
			spec = append(spec, verifEnt{path: p, kind: 'd', mode: []os.FileMode{0755, 0700, 0755 | os.ModeSetgid, 0777 | os.ModeSticky}[rnd.Intn(4)], xattrs: h.genXattrs()})
			typ[p] = 'd'
		} else {
			typ[p] = 'D'
		}
		dirs = append(dirs, p)
		return true
	}
	pickDir := func() string {
		if len(lowerDirs) > 0 && rnd.Intn(3) == 0 {
			return lowerDirs[rnd.Intn(len(lowerDirs))]
		}
		return dirs[rnd.Intn(len(dirs))]
	}
	pickName := func(dir string) string {
		if len(lowerPaths) > 0 && rnd.Intn(3) == 0 { // hit a name of the lower filesystem
			var c []string
			for _, p := range lowerPaths {
				if d, n := verifParent(p); d == dir {
					c = append(c, n)
				}
			}
			if len(c) > 0 {
				return c[rnd.Intn(len(c))]
			}
		}
		return verifNames[rnd.Intn(len(verifNames))]
	}
	add := func(e verifEnt) bool {
		if _, dup := typ[e.path]; dup {
			return false
		}
		par, name := verifParent(e.path)
		if !ensureDir(par) {
			return false
		}
		if _, dup := typ[e.path]; dup {
			return false
		}
		if e.kind == 'd' && hasWhFor(e.path) {
			return false
		}
		if strings.HasPrefix(name, verifWh) && name != verifMarker {
			if k := typ[verifJoin(par, name[len(verifWh):])]; k == 'd' || k == 'D' {
				return false
			}
		}
		spec = append(spec, e)
		typ[e.path] = e.kind
		if e.kind == 'd' {
			dirs = append(dirs, e.path)
		}
		return true
	}
	nops := 2 + rnd.Intn(12)
	var regs []string
	for i := 0; i < nops; i++ {
		dir := pickDir()
		switch rnd.Pick(6, 4, 4, 3, 2, 2, 2, 1, 1, 1, 1) {
		case 0: // regular file (new or replacing)
			p := verifJoin(dir, pickName(dir))
			if add(verifEnt{path: p, kind: 'f', data: fmt.Sprintf("data-%d", rnd.Intn(100)), mode: []os.FileMode{0644, 0600, 0755, 0644 | os.ModeSetuid}[rnd.Intn(4)], xattrs: h.genXattrs()}) {
				regs = append(regs, p)
			}
		case 1: // directory
			add(verifEnt{path: verifJoin(dir, pickName(dir)), kind: 'd', mode: 0755, xattrs: h.genXattrs()})
		case 2: // whiteout of a lower name or of nothing
			add(verifEnt{path: verifJoin(dir, verifWh+pickName(dir)), kind: 'f', mode: 0644})
		case 3: // opaque directory, sometimes one whose own tar header carries an overlay opaque xattr != "y"
			if add(verifEnt{path: verifJoin(dir, verifMarker), kind: 'f', mode: 0644}) && rnd.Intn(2) == 0 {
				for i := range spec {
					if spec[i].path == dir && spec[i].kind == 'd' {
						x := map[string]string{}
						for k, v := range spec[i].xattrs {
							x[k] = v
						}
						x[[]string{"trusted.overlay.opaque", "user.overlay.opaque"}[rnd.Intn(2)]] = []string{"x", "n", "", "yy"}[rnd.Intn(4)]
						spec[i].xattrs = x
					}
				}
			}
		case 4: // whiteout and a real non-directory of the same name
			nme := pickName(dir)
			if add(verifEnt{path: verifJoin(dir, nme), kind: 'f', data: "both", mode: 0644}) {
				add(verifEnt{path: verifJoin(dir, verifWh+nme), kind: 'f', mode: 0644})
			}
		case 5: // landmarks and the TOC name, in the root and in subdirectories
			nme := []string{estargz.PrefetchLandmark, estargz.NoPrefetchLandmark, estargz.TOCTarName}[rnd.Intn(3)]
			add(verifEnt{path: verifJoin(dir, nme), kind: 'f', data: "lm", mode: 0644})
		case 6:
			add(verifEnt{path: verifJoin(dir, pickName(dir)), kind: 'l', target: "../t"})
		case 7:
			mj, mn := int64(1+rnd.Intn(5)), int64(rnd.Intn(9))
			add(verifEnt{path: verifJoin(dir, pickName(dir)), kind: 'c', major: mj, minor: mn})
		case 8:
			add(verifEnt{path: verifJoin(dir, pickName(dir)), kind: 'b', major: int64(rnd.Intn(3)), minor: int64(rnd.Intn(3))})
		case 9:
			add(verifEnt{path: verifJoin(dir, pickName(dir)), kind: 'p'})
		case 10:
			if len(regs) > 0 {
				add(verifEnt{path: verifJoin(dir, pickName(dir)), kind: 'h', target: regs[rnd.Intn(len(regs))]})
			}
		}
	}
	if o.big || rnd.Intn(4) == 0 {
		// a big directory (13-80 entries): names that have both a real entry and a whiteout, lone
		// whiteouts, plain entries (Go's sort.Slice is an insertion sort only up to 12 elements)
		dir := pickDir()
		if rnd.Intn(3) != 0 {
			dir = verifJoin(dir, []string{"big", "B", "m"}[rnd.Intn(3)])
			add(verifEnt{path: dir, kind: 'd', mode: 0755, xattrs: h.genXattrs()})
		}
		if k, ok := typ[dir]; dir == "" || (ok && (k == 'd' || k == 'D')) {
			total := 13 + rnd.Intn(68)
			npairs := 3 + rnd.Intn(12)
			for i := 0; i < total; i++ {
				nme := fmt.Sprintf("%c%02d", "pqrs"[rnd.Intn(4)], i)
				switch {
				case i < npairs: // real X and .wh.X
					kind := byte('f')
					if rnd.Intn(4) == 0 {
						kind = 'l'
					}
					if add(verifEnt{path: verifJoin(dir, nme), kind: kind, data: "pair", target: "t", mode: 0644}) {
						add(verifEnt{path: verifJoin(dir, verifWh+nme), kind: 'f', mode: 0644})
						i++
					}
				case i%7 == 0:
					add(verifEnt{path: verifJoin(dir, verifWh+nme), kind: 'f', mode: 0644})
				default:
					add(verifEnt{path: verifJoin(dir, nme), kind: 'f', data: "x", mode: 0644})
				}
			}
		}
	}
	if o.findings || rnd.Intn(8) == 0 { // whiteouts whose target can never be looked up (repaired by 545b9cc)
		dir := pickDir()
		switch rnd.Intn(4) {
		case 0:
			add(verifEnt{path: verifJoin(dir, verifWh+verifWh+pickName(dir)), kind: 'f', mode: 0644})
		case 1:
			add(verifEnt{path: verifJoin(dir, verifWh+verifMarker), kind: 'f', mode: 0644})
		case 2:
			add(verifEnt{path: verifWh + []string{estargz.PrefetchLandmark, estargz.NoPrefetchLandmark}[rnd.Intn(2)], kind: 'f', mode: 0644})
		case 3:
			add(verifEnt{path: verifJoin(dir, verifWh+[]string{"", ".", ".."}[rnd.Intn(3)]), kind: 'f', mode: 0644})
		}
	}
	return spec
}

// ---------------------------------------------------------------------------------------------
// The two sides of the composition oracle (independent of the Lean model).

// verifApply applies one source tar to a root filesystem with the OCI image-spec rules.
func verifApply(fs map[string]verifRef, idx int, spec []verifEnt) {
	rmTree := func(p string) {
		delete(fs, p)
		for q := range fs {
			if strings.HasPrefix(q, p+"/") {
				delete(fs, q)
			}
		}
	}
	// whiteouts and opaque markers act on the lower layers only
	for _, e := range spec {
		d, n := verifParent(e.path)
		if n == verifMarker {
			for q := range fs {
				if d == "" || strings.HasPrefix(q, d+"/") {
					delete(fs, q)
				}
			}
		}
	}
	for _, e := range spec {
		d, n := verifParent(e.path)
		if n != verifMarker && strings.HasPrefix(n, verifWh) {
			rmTree(verifJoin(d, n[len(verifWh):]))
		}
	}
	for _, e := range spec {
		d, n := verifParent(e.path)
		if strings.HasPrefix(n, verifWh) || (d == "" && verifHiddenRoot(n)) {
			continue
		}
		if e.kind == 'd' {
			if old, ok := fs[e.path]; ok && old.typ != syscall.S_IFDIR {
				rmTree(e.path)
			}
			fs[e.path] = verifRef{typ: syscall.S_IFDIR, layer: idx}
			continue
		}
		rmTree(e.path)
		fs[e.path] = verifRef{typ: verifTypeOf(e.kind), layer: idx}
	}
}

// verifMerge merges the served lower directories (top first) with the overlayfs rules of the kernel
// documentation: upper hides lower, chr 0/0 hides and is not shown, an opaque directory does not
// merge with the directories below it, directories merge, a non-directory ends the search.
func verifMerge(stack []*verifServed, prefix, kx string, res map[string]verifRef) {
	names := map[string]bool{}
	for _, d := range stack {
		for n := range d.kids {
			names[n] = true
		}
	}
	for name := range names {
		var sub []*verifServed
		for _, d := range stack {
			k := d.kids[name]
			if k == nil {
				continue
			}
			if k.typ == syscall.S_IFCHR && k.rdev == 0 {
				break // whiteout
			}
			if k.typ != syscall.S_IFDIR {
				if len(sub) == 0 {
					res[verifJoin(prefix, name)] = verifRef{typ: k.typ, layer: k.layer}
				}
				break
			}
			sub = append(sub, k)
			if k.opaque[kx] {
				break
			}
		}
		if len(sub) > 0 {
			res[verifJoin(prefix, name)] = verifRef{typ: syscall.S_IFDIR, layer: sub[0].layer}
			verifMerge(sub, verifJoin(prefix, name), kx, res)
		}
	}
}

func verifRefString(r verifRef, ok bool) string {
	if !ok {
		return "none"
	}
	if r.typ == syscall.S_IFDIR {
		return fmt.Sprintf("dir L%d", r.layer)
	}
	return fmt.Sprintf("file L%d", r.layer)
}

// stackLayerLine dumps the layer as the metadata reader shows it (the input of the model's `serve`
// and `ociApply`).
func (h *verifC07) stackLayerLine(b *verifBuilt) string {
	var sb []string
	var walk func(id uint32, p string)
	walk = func(id uint32, p string) {
		a, err := b.sv.Meta.GetAttr(id)
		if err != nil {
			h.t.Fatalf("GetAttr: %v", err)
		}
		kind := "f"
		if a.Mode.IsDir() {
			kind = "d"
		}
		sb = append(sb, fmt.Sprintf("%s:%s:%d:%d:%d:%s", verifHex(p), kind, id, fileModeToSystemMode(a.Mode),
			uint32(unix.Mkdev(uint32(a.DevMajor), uint32(a.DevMinor))), verifXattrsString(a.Xattrs)))
		if kind != "d" {
			return
		}
		type kid struct {
			name string
			id   uint32
		}
		var ks []kid
		b.sv.Meta.ForeachChild(id, func(name string, cid uint32, mode os.FileMode) bool {
			ks = append(ks, kid{name, cid})
			return true
		})
		sort.Slice(ks, func(i, j int) bool { return ks[i].name < ks[j].name })
		for _, k := range ks {
			walk(k.id, verifJoin(p, k.name))
		}
	}
	walk(b.sv.Meta.RootID(), "")
	return strings.Join(sb, ";")
}

func (h *verifC07) runStack(nlayers int) {
	out, rnd := h.out, h.rnd
	kx := []string{"trusted", "user"}[rnd.Intn(2)]
	kxName := kx + ".overlay.opaque"
	om := "all"
	if rnd.Intn(2) != 0 {
		om = kx // trusted / user: what service.NewFileSystem picks from the kernel's userxattr need
	}
	out.Comment(fmt.Sprintf("stack of %d layers, kernel reads %s, served mode %s", nlayers, kxName, om))
	applied := map[string]verifRef{}
	var served []*verifServed // bottom first
	var builts []*verifBuilt
	shape := ""
	for i := 1; i <= nlayers; i++ {
		spec := h.genLayer(applied, verifGenOpts{stack: true})
		b := h.build(spec, uint32(i), om, int64(100+rnd.Intn(1000)), int64(rnd.Intn(100)), nil)
		builts = append(builts, b)
		served = append(served, h.exploreLayer(b, i, []string{kxName}))
		verifApply(applied, i, spec)
		for _, e := range spec {
			_, n := verifParent(e.path)
			switch {
			case n == verifMarker:
				shape += "o"
			case strings.HasPrefix(n, verifWh):
				shape += "w"
			}
		}
		shape += fmt.Sprintf("%d/", len(spec))
	}
	out.Emit(fmt.Sprintf("stk.begin %s %s", kx, om), "ok")
	for _, b := range builts {
		out.Emit("stk.layer "+h.stackLayerLine(b), "ok")
	}
	merged := map[string]verifRef{}
	var stack []*verifServed
	for i := len(served) - 1; i >= 0; i-- {
		stack = append(stack, served[i])
		if served[i].opaque[kxName] {
			break
		}
	}
	verifMerge(stack, "", kxName, merged)
	// ---- oracle: merged view == applied tars ----
	paths := map[string]bool{}
	for p := range merged {
		paths[p] = true
	}
	for p := range applied {
		paths[p] = true
	}
	var ps []string
	for p := range paths {
		ps = append(ps, p)
	}
	sort.Strings(ps)
	specs := ""
	for i, b := range builts {
		specs += fmt.Sprintf(" L%d=[%s]", i+1, verifSpecString(b.spec))
	}
	for _, p := range ps {
		m, mok := merged[p]
		a, aok := applied[p]
		if mok != aok || m != a {
			h.fail("merged-ne-applied", fmt.Sprintf("path %q: overlay of the served layers gives %s, applying the tars gives %s; kernel xattr %s mode %s;%s",
				p, verifRefString(m, mok), verifRefString(a, aok), kxName, om, specs))
			break
		}
	}
	// correspondence with the model's overlayMerge / ociApply on existing and non-existing paths
	extra := []string{"nonexistent", ".wh.a", "a/" + verifMarker, estargz.NoPrefetchLandmark, estargz.TOCTarName}
	for _, p := range ps {
		if rnd.Intn(4) == 0 {
			extra = append(extra, p+"/zz", verifJoin(p, verifWh+"a"))
		}
	}
	for _, p := range append(ps, extra...) {
		m, mok := merged[p]
		a, aok := applied[p]
		ms, as := verifRefString(m, mok), verifRefString(a, aok)
		out.Emit("stk.merged "+verifHex(p), ms)
		out.Emit("stk.applied "+verifHex(p), as)
		out.Count("stack-path")
	}
	out.Count(fmt.Sprintf("stack-%d", nlayers))
	out.Distinct("stack/" + kx + "/" + om + "/" + shape)
	for _, b := range builts {
		b.sv.Close()
	}
}

func (h *verifC07) runSingle(spec []verifEnt, label string) {
	rnd := h.rnd
	om := []string{"all", "trusted", "user"}[rnd.Intn(3)]
	base := []uint32{0, 1, 100, 7, 0xffffffff, uint32(rnd.Uint64())}[rnd.Intn(6)]
	size := int64(1 + rnd.Intn(5000))
	if rnd.Intn(25) == 0 {
		size = 0
	}
	var prio []string
	explicit := map[string]bool{"": true}
	for _, e := range spec {
		if e.kind == 'd' {
			explicit[e.path] = true
		}
	}
	for _, e := range spec {
		d, n := verifParent(e.path)
		ok := e.kind == 'f' && !strings.HasPrefix(n, verifWh) && !(d == "" && verifHiddenRoot(n))
		for a := d; ok && a != ""; a, _ = verifParent(a) {
			ok = explicit[a] // the builder's prioritized-file sort needs every parent directory as a tar entry
		}
		if ok && rnd.Intn(6) == 0 {
			prio = append(prio, e.path)
		}
	}
	h.out.Comment(fmt.Sprintf("%s store=%s mode=%s base=%d prioritized=%d spec=[%s]", label, h.sname, om, base, len(prio), verifSpecString(spec)))
	b := h.build(spec, base, om, size, int64(rnd.Intn(int(size)+1)), prio)
	h.exploreLayer(b, 0, nil)
	b.sv.Close()
	nwh, nopq := 0, 0
	for _, e := range spec {
		_, n := verifParent(e.path)
		if n == verifMarker {
			nopq++
		} else if strings.HasPrefix(n, verifWh) {
			nwh++
		}
	}
	h.out.Distinct(fmt.Sprintf("single/%s/%d/%d/%d/%s", om, len(spec), nwh, nopq, verifSpecString(spec)))
	h.out.Count("layer")
}

func verifF(p string) verifEnt { return verifEnt{path: p, kind: 'f', data: "x", mode: 0644} }
func verifD(p string) verifEnt { return verifEnt{path: p, kind: 'd', mode: 0755} }

// hand-written scenarios (run before the random ones)
func verifScenarios() [][]verifEnt {
	return [][]verifEnt{
		{verifD("foo"), verifF("foo/bar.txt"), verifF("foo/.wh.foo.txt")},
		{verifD("foo"), verifF("foo/bar.txt"), verifF("foo/.wh.bar.txt")},
		{verifD("foo"), verifF("foo/" + verifMarker)},
		{verifD("foo"), verifF("foo/" + verifMarker), verifF("foo/bar.txt"), verifF("foo/.wh.gone")},
		{verifF(verifMarker), verifF("a"), verifF(".wh.b")},
		{{path: "foo", kind: 'd', mode: 0755, xattrs: map[string]string{"user.foo": "bar", "trusted.overlay.opaque": "n"}}, verifF("foo/" + verifMarker)},
		{{path: "foo", kind: 'd', mode: 0755, xattrs: map[string]string{"user.overlay.opaque": "y"}}, verifF("foo/a")},
		{{path: "foo", kind: 'd', mode: 0755, xattrs: map[string]string{"trusted.overlay.opaque": "x", "user.overlay.opaque": ""}}, verifF("foo/" + verifMarker), verifF("foo/a")},
		{{path: "foo", kind: 'd', mode: 0755, xattrs: map[string]string{"user.overlay.opaque": "n"}}, verifF("foo/a")},
		{verifF(estargz.PrefetchLandmark), verifF(estargz.NoPrefetchLandmark), verifF(estargz.TOCTarName), verifD("foo"),
			verifF("foo/" + estargz.PrefetchLandmark), verifF("foo/" + estargz.NoPrefetchLandmark), verifF("foo/" + estargz.TOCTarName)},
		{verifF("a/b/c/d"), verifF("a/b/.wh.c2"), verifF("a/" + verifMarker)},
		{verifF("h1"), {path: "h2", kind: 'h', target: "h1"}, verifD("d"), {path: "d/h3", kind: 'h', target: "h1"}, verifF("d/.wh.h1")},
		{{path: "c00", kind: 'c', major: 0, minor: 0}, {path: "c15", kind: 'c', major: 1, minor: 5}, verifF(".wh.c15"), verifF(".wh.zz")},
		{verifD("both"), verifF("both/a"), verifF(".wh.both")}, // outside the composition domain, still served consistently
		{verifF(".wh..wh"), verifF(".wh.wh."), verifF("..wh.a"), verifF(".wh"), verifF("x.wh.y")},
		{},
		verifBigScenario("big"),
		verifBigScenario(""),
		verifBigScenario("a/b"),
	}
}

// verifBigScenario: a directory with 51 children: 30 plain files, 10 names that have both a real entry
// and a whiteout, and a lone whiteout.
func verifBigScenario(dir string) []verifEnt {
	var spec []verifEnt
	for a := dir; a != ""; a, _ = verifParent(a) {
		spec = append([]verifEnt{verifD(a)}, spec...)
	}
	for i := 0; i < 30; i++ {
		spec = append(spec, verifF(verifJoin(dir, fmt.Sprintf("p%02d", i))))
	}
	for i := 0; i < 10; i++ {
		// whiteout before or after the real entry in the tar, names spread over the sort order
		x := fmt.Sprintf("%c-both%d", "amz"[i%3], i)
		if i%2 == 0 {
			spec = append(spec, verifF(verifJoin(dir, x)), verifF(verifJoin(dir, verifWh+x)))
		} else {
			spec = append(spec, verifF(verifJoin(dir, verifWh+x)), verifF(verifJoin(dir, x)))
		}
	}
	return append(spec, verifF(verifJoin(dir, ".wh.gone")))
}

func verifFindingScenarios() [][]verifEnt {
	return [][]verifEnt{
		{verifD("foo"), verifF("foo/.wh..wh.foo")},
		{verifD("foo"), verifF("foo/.wh..wh.foo"), verifF("foo/.wh.foo")},
		{verifD("foo"), verifF("foo/.wh." + verifMarker)},
		{verifF(".wh." + estargz.PrefetchLandmark)},
		{verifF(".wh." + estargz.NoPrefetchLandmark), verifF("a")},
		{verifD("foo"), verifF("foo/.wh.")},
		{verifD("foo"), verifF("foo/.wh..")},
		{verifD("foo"), verifF("foo/.wh...")},
	}
}

// Run generates layers, serves them through the backend, drives the node API and evaluates the oracle.
// findings selects the regression stream (whiteouts whose target can never be looked up).
func Run(t T, be Backend, findings bool) {
	log.L.Logger.SetOutput(io.Discard)
	h := &verifC07{t: t, out: verifutil.OpenOut(), rnd: verifutil.NewRand(verifutil.Seed()), be: be, sname: be.Name(), findings: findings}
	defer h.out.Close()
	n := verifutil.EnvInt("VERIF_N", 60)
	if c := be.Consts(); c != "" {
		h.out.Emit("consts", c)
	}
	if findings {
		for i, s := range verifFindingScenarios() {
			h.runSingle(s, fmt.Sprintf("finding-scenario %d", i))
		}
		for i := 0; i < n; i++ {
			h.runSingle(h.genLayer(nil, verifGenOpts{findings: true}), fmt.Sprintf("finding-random %d", i))
		}
		return
	}
	for i, s := range verifScenarios() {
		h.runSingle(s, fmt.Sprintf("scenario %d", i))
	}
	for i := 0; i < n; i++ {
		h.runSingle(h.genLayer(nil, verifGenOpts{}), fmt.Sprintf("random %d", i))
	}
	for i := 0; i < n/3+1; i++ {
		h.runStack(2 + h.rnd.Intn(3))
	}
}

// Hex is the line protocol's string encoding.
func Hex(s string) string { return verifHex(s) }

// HexList joins hex-encoded strings with commas.
func HexList(l []string) string {
	var s []string
	for _, x := range l {
		s = append(s, verifHex(x))
	}
	return strings.Join(s, ",")
}
