package verifc04

import (
	"bytes"
	"compress/gzip"
	"encoding/hex"
	"errors"
	"fmt"
	"io"
	"math"
	"os"
	"sort"

	"github.com/containerd/stargz-snapshotter/cache"
	"github.com/containerd/stargz-snapshotter/estargz"
	"github.com/containerd/stargz-snapshotter/estargz/externaltoc"
	"github.com/containerd/stargz-snapshotter/estargz/zstdchunked"
	"github.com/containerd/stargz-snapshotter/fs/reader"
	"github.com/containerd/stargz-snapshotter/metadata"
	"github.com/containerd/stargz-snapshotter/metadata/memory"
	digest "github.com/opencontainers/go-digest"
)

// Decompressors returns the additional decompressors exactly as fs/layer Resolve registers them
// (zstd:chunked always, external TOC when the image carries one).
func Decompressors(in *Input) []metadata.Decompressor {
	ext := in.ExtTOC
	return []metadata.Decompressor{
		new(zstdchunked.Decompressor),
		externaltoc.NewGzipDecompressor(func() ([]byte, error) {
			if ext == nil {
				return nil, errors.New("no external TOC")
			}
			return ext, nil
		}),
	}
}

func hexOrDash(b []byte) string {
	if len(b) == 0 {
		return "-"
	}
	return hex.EncodeToString(b)
}

// TargetFooters runs the four ParseFooter functions on raw bytes and emits one correspondence
// line per parser.  The gzip header parse (stdlib) is evaluated here and handed to the model as a
// parameter.
func TargetFooters(in *Input, rec *Rec) {
	p := in.Data
	hdr := "none"
	if zr, err := gzip.NewReader(bytes.NewReader(p)); err == nil {
		hdr = hexOrDash(zr.Extra)
		zr.Close()
	}
	type pf struct {
		name string
		f    func([]byte) (int64, int64, int64, error)
		arg  string
	}
	for _, d := range []pf{
		{"gz", new(estargz.GzipDecompressor).ParseFooter, hdr},
		{"legacy", new(estargz.LegacyGzipDecompressor).ParseFooter, hdr},
		{"ext", externaltoc.NewGzipDecompressor(nil).ParseFooter, hdr},
		{"zstd", new(zstdchunked.Decompressor).ParseFooter, hexOrDash(p)},
	} {
		res := "panic"
		rec.Try("footer."+d.name, func() error {
			a, b, c, err := d.f(p)
			if err != nil {
				res = "err"
				return err
			}
			res = fmt.Sprintf("ok %d %d %d", a, b, c)
			return nil
		})
		rec.Line(fmt.Sprintf("footer %s %d %s", d.name, len(p), d.arg), res)
	}
}

func boundaryOffsets(size, chunkSize int64, chunkOffs []int64) []int64 {
	set := map[int64]bool{}
	add := func(v int64) {
		set[v-1], set[v], set[v+1] = true, true, true
	}
	for _, v := range []int64{0, size, chunkSize} {
		add(v)
	}
	for _, v := range chunkOffs {
		add(v)
	}
	set[math.MaxInt64], set[math.MinInt64], set[math.MaxInt64-1], set[1<<62] = true, true, true, true
	var out []int64
	for v := range set {
		out = append(out, v)
	}
	sort.Slice(out, func(i, j int) bool { return out[i] < out[j] })
	return out
}

const walkBudget = 60000

// TargetOpen opens the blob with the estargz library and walks the whole Reader API.
func TargetOpen(in *Input, rec *Rec) {
	var r *estargz.Reader
	sr := io.NewSectionReader(bytes.NewReader(in.Data), 0, int64(len(in.Data)))
	cl := rec.Try("open", func() (err error) {
		var ds []estargz.Decompressor
		for _, d := range Decompressors(in) {
			ds = append(ds, d)
		}
		r, err = estargz.Open(sr, estargz.WithDecompressors(ds...))
		return err
	})
	if cl != "ok" {
		return
	}
	rec.Try("open.walk", func() error {
		root, ok := r.Lookup("")
		if !ok {
			return errors.New("no root")
		}
		budget := walkBudget
		onPath := map[*estargz.TOCEntry]bool{}
		var all []*estargz.TOCEntry
		type kid struct {
			n string
			e *estargz.TOCEntry
		}
		type frame struct {
			p    string
			e    *estargz.TOCEntry
			kids []kid
			i    int
		}
		// enter runs the per-entry API calls and returns the frame of e (explicit stack: the
		// harness itself must not be the one that overflows on a deep tree)
		enter := func(p string, e *estargz.TOCEntry) *frame {
			rec.Beat()
			onPath[e] = true
			all = append(all, e)
			byName := len(p) < 2048 // path based calls are quadratic on very deep trees
			if byName {
				r.Lookup(p)
				r.Lookup("/" + p + "/.")
			}
			fi := e.Stat()
			fi.Mode()
			fi.ModTime()
			fi.Size()
			if e.Type == "reg" && byName {
				var cos []int64
				off := int64(0)
				for k := 0; k < 32; k++ {
					ce, ok := r.ChunkEntryForOffset(p, off)
					if !ok {
						break
					}
					cos = append(cos, ce.ChunkOffset, ce.ChunkOffset+ce.ChunkSize)
					if ce.ChunkSize <= 0 {
						break
					}
					off = ce.ChunkOffset + ce.ChunkSize
				}
				for _, o := range boundaryOffsets(e.Size, e.ChunkSize, cos) {
					r.ChunkEntryForOffset(p, o)
				}
				if f, err := r.OpenFile(p); err == nil {
					for _, o := range []int64{0, 1, e.Size - 1, e.Size, 5, -1} {
						buf := make([]byte, 8)
						f.ReadAt(buf, o)
						rec.Beat()
					}
					f.ReadAt(make([]byte, 4096), 0)
				}
				if f, err := r.OpenFileWithPreReader(p, func(e *estargz.TOCEntry, cr io.Reader) error {
					_, err := io.Copy(io.Discard, io.LimitReader(cr, 1<<20))
					return err
				}); err == nil {
					f.ReadAt(make([]byte, 64), 0)
					f.ReadAt(make([]byte, 3), 5)
				}
			} else if byName {
				r.OpenFile(p)
				r.ChunkEntryForOffset(p, 0)
			}
			fr := &frame{p: p, e: e}
			e.ForeachChild(func(base string, c *estargz.TOCEntry) bool {
				fr.kids = append(fr.kids, kid{base, c})
				return true
			})
			sort.Slice(fr.kids, func(i, j int) bool { return fr.kids[i].n < fr.kids[j].n })
			return fr
		}
		stack := []*frame{enter("", root)}
		for len(stack) > 0 {
			fr := stack[len(stack)-1]
			if fr.i >= len(fr.kids) || budget <= 0 {
				delete(onPath, fr.e)
				stack = stack[:len(stack)-1]
				continue
			}
			k := fr.kids[fr.i]
			fr.i++
			budget--
			fr.e.LookupChild(k.n)
			cp := fr.p
			if len(fr.p) < 2048 {
				cp = k.n
				if fr.p != "" {
					cp = fr.p + "/" + k.n
				}
			}
			if onPath[k.e] {
				rec.Fail("cyclic-tree:estargz", fmt.Sprintf("entry %q (type %s) is its own descendant at path %q", k.e.Name, k.e.Type, cp))
				continue
			}
			stack = append(stack, enter(cp, k.e))
		}
		if v, err := r.Verifiers(); err == nil {
			for _, e := range all {
				v.Verifier(e)
			}
		}
		if v, err := r.VerifyTOC(r.TOCDigest()); err == nil {
			for _, e := range all {
				if vv, err := v.Verifier(e); err == nil {
					vv.Write([]byte("x"))
					vv.Verified()
				}
			}
		}
		r.VerifyTOC(digest.FromString("other"))
		return nil
	})
}

// WalkMetadata walks every node reachable through a metadata.Reader and returns the ids of the
// regular files.  It descends into every node that has children, whatever its mode (that is what
// memory.assignIDs does), and reports a node that is its own descendant.
func WalkMetadata(tag string, mr metadata.Reader, rec *Rec) (regs []uint32) {
	budget := walkBudget
	onPath := map[uint32]bool{}
	seenReg := map[uint32]bool{}
	type kid struct {
		n    string
		id   uint32
		mode os.FileMode
	}
	type frame struct {
		id   uint32
		p    string
		kids []kid
		i    int
	}
	enter := func(id uint32, p string) *frame {
		onPath[id] = true
		mr.GetAttr(id)
		fr := &frame{id: id, p: p}
		mr.ForeachChild(id, func(name string, cid uint32, mode os.FileMode) bool {
			fr.kids = append(fr.kids, kid{name, cid, mode})
			return len(fr.kids) < walkBudget
		})
		sort.Slice(fr.kids, func(i, j int) bool { return fr.kids[i].n < fr.kids[j].n })
		mr.GetChild(id, "no-such-child")
		return fr
	}
	stack := []*frame{enter(mr.RootID(), "")}
	for len(stack) > 0 {
		fr := stack[len(stack)-1]
		if fr.i >= len(fr.kids) || budget <= 0 {
			delete(onPath, fr.id)
			stack = stack[:len(stack)-1]
			continue
		}
		k := fr.kids[fr.i]
		fr.i++
		budget--
		rec.Beat()
		mr.GetChild(fr.id, k.n)
		attr, err := mr.GetAttr(k.id)
		if err == nil && attr.Mode.IsRegular() && !seenReg[k.id] {
			seenReg[k.id] = true
			regs = append(regs, k.id)
			mr.GetOffset(k.id)
			if f, err := mr.OpenFile(k.id); err == nil {
				var cos []int64
				off := int64(0)
				for j := 0; j < 32; j++ {
					co, cs, _, ok := f.ChunkEntryForOffset(off)
					if !ok {
						break
					}
					cos = append(cos, co, co+cs)
					if cs <= 0 {
						break
					}
					off = co + cs
				}
				for _, o := range boundaryOffsets(attr.Size, 0, cos) {
					f.ChunkEntryForOffset(o)
				}
				for _, o := range []int64{0, 1, attr.Size - 1, attr.Size, 5, -1} {
					f.ReadAt(make([]byte, 8), o)
					rec.Beat()
				}
				f.ReadAt(make([]byte, 4096), 0)
			}
		} else {
			mr.OpenFile(k.id)
		}
		cp := fr.p
		if len(fr.p) < 2048 {
			cp = fr.p + "/" + k.n
		}
		if onPath[k.id] {
			rec.Fail("cyclic-tree:"+tag, fmt.Sprintf("node %d is its own descendant at path %q", k.id, cp))
			continue
		}
		stack = append(stack, enter(k.id, cp))
	}
	mr.GetAttr(0)
	mr.GetAttr(math.MaxUint32)
	mr.GetOffset(math.MaxUint32)
	mr.OpenFile(math.MaxUint32)
	mr.TOCDigest()
	return regs
}

// TargetMem opens the blob with the in-memory metadata store and walks it.
func TargetMem(in *Input, rec *Rec) metadata.Reader {
	var mr metadata.Reader
	sr := io.NewSectionReader(bytes.NewReader(in.Data), 0, int64(len(in.Data)))
	cl := rec.Try("mem", func() (err error) {
		mr, err = memory.NewReader(sr, metadata.WithDecompressors(Decompressors(in)...))
		return err
	})
	if cl != "ok" {
		return nil
	}
	return mr
}

// readPlan lists the (len, off) pairs used against every regular file: a FUSE read is page
// sized whatever the file size is, so lengths beyond the file size are the normal case.
func readPlan(size int64) [][2]int64 {
	plan := [][2]int64{{4096, 0}, {1, 0}, {3, 1}, {8, 4}, {131072, 0}, {4096, 4096}, {0, 0}, {5, -1}, {4, 1 << 62}, {4, math.MaxInt64 - 2}}
	if size > 0 && size < 1<<20 {
		plan = append(plan, [2]int64{size, 0}, [2]int64{size + 1, 0}, [2]int64{2, size - 1}, [2]int64{2, size})
	}
	return plan
}

// ExerciseReader drives fs/reader on top of a metadata reader: prefetch walk (Cache), every
// regular file through file.ReadAt with page-sized and boundary reads, and FUSE passthrough.
func ExerciseReader(tag string, mr metadata.Reader, regs []uint32, rec *Rec, passDir string) {
	vr, err := reader.NewReader(mr, cache.NewMemoryCache(), digest.FromString("layer"))
	if err != nil {
		return
	}
	rec.Try(tag+".cache", func() error { return vr.Cache() })
	rec.Settle()
	if len(regs) > 40 {
		regs = regs[:40]
	}
	// both service modes: verification disabled (config) and TOC-verified
	readers := map[string]reader.Reader{".read": vr.SkipVerify()}
	if vr2, err := reader.NewReader(mr, cache.NewMemoryCache(), digest.FromString("layer")); err == nil {
		if r2, err := vr2.VerifyTOC(mr.TOCDigest()); err == nil {
			readers[".vread"] = r2
		}
	}
	for _, sfx := range []string{".read", ".vread"} {
		rr, ok := readers[sfx]
		if !ok {
			continue
		}
		rec.Try(tag+sfx, func() error {
			var last error
			for _, id := range regs {
				ra, err := rr.OpenFile(id)
				if err != nil {
					last = err
					continue
				}
				attr, _ := mr.GetAttr(id)
				for _, lo := range readPlan(attr.Size) {
					rec.Beat()
					if _, err := ra.ReadAt(make([]byte, lo[0]), lo[1]); err != nil {
						last = err
						if os.Getenv("VERIF_C04_DEBUG") != "" {
							fmt.Fprintf(os.Stderr, "DEBUG %s id=%d read(%d@%d): %v\n", tag+sfx, id, lo[0], lo[1], err)
						}
					}
				}
			}
			return last
		})
	}
	if passDir == "" {
		return
	}
	// passthrough needs a file-backed cache
	for _, mb := range [][2]int64{{6, 2}, {1 << 20, 4}, {1, 1}, {7, 3}} {
		dc, err := cache.NewDirectoryCache(fmt.Sprintf("%s/p%d", passDir, mb[0]), cache.DirectoryCacheConfig{Direct: true, SyncAdd: true})
		if err != nil {
			continue
		}
		vr2, err := reader.NewReader(mr, dc, digest.FromString("layer"))
		if err != nil {
			continue
		}
		r2 := vr2.SkipVerify()
		rec.Try(fmt.Sprintf("%s.passthrough", tag), func() error {
			var last error
			for _, id := range regs {
				rec.Beat()
				ra, err := r2.OpenFile(id)
				if err != nil {
					continue
				}
				g, ok := ra.(reader.PassthroughFdGetter)
				if !ok {
					continue
				}
				_, cr, err := g.GetPassthroughFd(mb[0], int(mb[1]))
				if err != nil {
					last = err
					continue
				}
				cr.Close()
			}
			return last
		})
		dc.Close()
		os.RemoveAll(fmt.Sprintf("%s/p%d", passDir, mb[0]))
	}
	rec.Settle()
}

// TargetUnpack runs estargz.Unpack with every decompressor and drains (a bounded part of) it.
func TargetUnpack(in *Input, rec *Rec) {
	sr := io.NewSectionReader(bytes.NewReader(in.Data), 0, int64(len(in.Data)))
	ds := []estargz.Decompressor{new(estargz.GzipDecompressor), new(estargz.LegacyGzipDecompressor)}
	for _, d := range Decompressors(in) {
		ds = append(ds, d)
	}
	rec.Try("unpack", func() error {
		var last error
		for _, d := range ds {
			rc, err := estargz.Unpack(sr, d)
			if err != nil {
				last = err
				continue
			}
			_, err = io.Copy(io.Discard, io.LimitReader(rc, 4<<20))
			if err != nil {
				last = err
			}
			rc.Close()
		}
		return last
	})
}

// TargetBuild hands a hostile tar to the builder (with prioritized files) and drains the result.
func TargetBuild(in *Input, rec *Rec) {
	sr := io.NewSectionReader(bytes.NewReader(in.Data), 0, int64(len(in.Data)))
	for _, variant := range []string{"build", "build.prio"} {
		opts := []estargz.Option{estargz.WithChunkSize(4)}
		if variant == "build.prio" {
			if len(in.Prio) == 0 {
				continue
			}
			opts = append(opts, estargz.WithPrioritizedFiles(in.Prio))
		}
		rec.Try(variant, func() error {
			b, err := estargz.Build(sr, opts...)
			if err != nil {
				return err
			}
			defer b.Close()
			_, err = io.Copy(io.Discard, io.LimitReader(b, 16<<20))
			return err
		})
	}
}
