package verifc04

// Arithmetic ops: the real Open / file.ReadAt / GetPassthroughFd / initFields run against scripted
// collaborators so that exactly the attacker-facing arithmetic is exercised, with the same numeric
// parameters the Lean model (SV.Model.Hostile) receives.

import (
	"bytes"
	"encoding/hex"
	"errors"
	"fmt"
	"io"
	"os"
	"sort"
	"strconv"
	"strings"
	"sync"

	"github.com/containerd/stargz-snapshotter/cache"
	"github.com/containerd/stargz-snapshotter/estargz"
	"github.com/containerd/stargz-snapshotter/estargz/externaltoc"
	"github.com/containerd/stargz-snapshotter/estargz/zstdchunked"
	"github.com/containerd/stargz-snapshotter/fs/reader"
	"github.com/containerd/stargz-snapshotter/metadata"
	digest "github.com/opencontainers/go-digest"
)

type evlog struct {
	mu sync.Mutex
	ev []string
}

func (l *evlog) add(s string) { l.mu.Lock(); l.ev = append(l.ev, s); l.mu.Unlock() }
func (l *evlog) str(sorted bool) string {
	l.mu.Lock()
	defer l.mu.Unlock()
	if len(l.ev) == 0 {
		return "-"
	}
	e := append([]string{}, l.ev...)
	if sorted {
		sort.Strings(e)
	}
	return strings.Join(e, ",")
}

// ---- open ------------------------------------------------------------------------------------

type scriptDec struct {
	fSize   int64
	pfErr   bool
	tocOff  int64
	tocSize int64
	toc     []bool
	ncall   int
	log     *evlog
}

func (d *scriptDec) Reader(r io.Reader) (io.ReadCloser, error) { return io.NopCloser(r), nil }
func (d *scriptDec) FooterSize() int64                         { return d.fSize }
func (d *scriptDec) ParseFooter(p []byte) (int64, int64, int64, error) {
	if d.pfErr {
		return 0, 0, 0, errors.New("scripted footer error")
	}
	return d.tocOff, d.tocOff, d.tocSize, nil
}
func (d *scriptDec) ParseTOC(r io.Reader) (*estargz.JTOC, digest.Digest, error) {
	if r == nil {
		d.log.add("Tnil")
	} else {
		b, _ := io.ReadAll(r)
		d.log.add(fmt.Sprintf("T%d", len(b)))
	}
	ok := false
	if d.ncall < len(d.toc) {
		ok = d.toc[d.ncall]
	}
	d.ncall++
	if !ok {
		return nil, "", errors.New("scripted TOC error")
	}
	return &estargz.JTOC{Version: 1}, digest.FromString("t"), nil
}

type recReaderAt struct {
	b   []byte
	log *evlog
}

func (r *recReaderAt) ReadAt(p []byte, off int64) (int, error) {
	r.log.add(fmt.Sprintf("R%d+%d", off, len(p)))
	return bytes.NewReader(r.b).ReadAt(p, off)
}

// ArithOpen: "open <size> <optTocOff> <fSize>,<e|off:size>,<t1>,<t2> ..."; the two built-in gzip
// parsers come first in the real code and reject the 0xAA filled blob.
func ArithOpen(w []string) (string, error) {
	if len(w) < 3 {
		return "", errors.New("bad open op")
	}
	size, err1 := strconv.ParseInt(w[1], 10, 64)
	opt, err2 := strconv.ParseInt(w[2], 10, 64)
	if err1 != nil || err2 != nil || size < 0 || size > 1<<20 {
		return "", errors.New("bad open op")
	}
	log := &evlog{}
	var ds []estargz.Decompressor
	for i, s := range w[3:] {
		f := strings.Split(s, ",")
		if len(f) != 4 {
			return "", errors.New("bad dec")
		}
		fs, err := strconv.ParseInt(f[0], 10, 64)
		if err != nil {
			return "", err
		}
		if i < 2 { // built-ins, described for the model only
			continue
		}
		d := &scriptDec{fSize: fs, log: log, toc: []bool{f[2] == "1", f[3] == "1"}}
		if f[1] == "e" {
			d.pfErr = true
		} else {
			pr := strings.Split(f[1], ":")
			if len(pr) != 2 {
				return "", errors.New("bad dec")
			}
			if d.tocOff, err = strconv.ParseInt(pr[0], 10, 64); err != nil {
				return "", err
			}
			if d.tocSize, err = strconv.ParseInt(pr[1], 10, 64); err != nil {
				return "", err
			}
		}
		ds = append(ds, d)
	}
	blob := bytes.Repeat([]byte{0xAA}, int(size))
	sr := io.NewSectionReader(&recReaderAt{blob, log}, 0, size)
	_, err := estargz.Open(sr, estargz.WithDecompressors(ds...), estargz.WithTOCOffset(opt))
	if err != nil {
		return log.str(false) + " err", nil
	}
	return log.str(false) + " ok", nil
}

// ---- file.ReadAt ------------------------------------------------------------------------------

type step struct{ co, cs, n, h int64 }

type scriptFile struct {
	steps []step
	k     int
	log   *evlog
}

func (f *scriptFile) ChunkEntryForOffset(offset int64) (int64, int64, string, bool) {
	f.log.add(fmt.Sprintf("C%d", offset))
	if f.k >= len(f.steps) {
		return 0, 0, "", false
	}
	s := f.steps[f.k]
	f.k++
	return s.co, s.cs, "", true
}

func (f *scriptFile) ReadAt(p []byte, off int64) (int, error) {
	f.log.add(fmt.Sprintf("A%d@%d", len(p), off))
	n := int64(len(p))
	if f.k > 0 && f.steps[f.k-1].n < n {
		n = f.steps[f.k-1].n
	}
	if n < 0 {
		n = 0
	}
	if n < int64(len(p)) {
		return int(n), io.EOF
	}
	return int(n), nil
}

type scriptMeta struct{ f *scriptFile }

func (m *scriptMeta) RootID() uint32                           { return 1 }
func (m *scriptMeta) TOCDigest() digest.Digest                 { return digest.FromString("t") }
func (m *scriptMeta) GetOffset(id uint32) (int64, error)       { return 0, nil }
func (m *scriptMeta) GetAttr(id uint32) (metadata.Attr, error) { return metadata.Attr{}, nil }
func (m *scriptMeta) GetChild(pid uint32, base string) (uint32, metadata.Attr, error) {
	return 0, metadata.Attr{}, errors.New("none")
}
func (m *scriptMeta) ForeachChild(id uint32, f func(name string, id uint32, mode os.FileMode) bool) error {
	return nil
}
func (m *scriptMeta) OpenFile(id uint32) (metadata.File, error) { return m.f, nil }
func (m *scriptMeta) OpenFileWithPreReader(id uint32, preRead func(id uint32, chunkOffset, chunkSize int64, chunkDigest string, r io.Reader) error) (metadata.File, error) {
	return m.f, nil
}
func (m *scriptMeta) Clone(sr *io.SectionReader) (metadata.Reader, error) { return m, nil }
func (m *scriptMeta) Close() error                                        { return nil }

// scriptCache answers a hit of h bytes for the chunk of the current step when h >= 0.
type scriptCache struct{ f *scriptFile }

type hitReader struct{ h int64 }

func (r hitReader) ReadAt(p []byte, off int64) (int, error) {
	if r.h < int64(len(p)) {
		return int(r.h), io.EOF
	}
	return len(p), nil
}
func (r hitReader) Close() error             { return nil }
func (r hitReader) GetReaderAt() io.ReaderAt { return r }

func (c scriptCache) Add(key string, opts ...cache.Option) (cache.Writer, error) {
	return nil, errors.New("no space")
}
func (c scriptCache) Get(key string, opts ...cache.Option) (cache.Reader, error) {
	if c.f.k > 0 && c.f.steps[c.f.k-1].h >= 0 {
		return hitReader{c.f.steps[c.f.k-1].h}, nil
	}
	return nil, errors.New("miss")
}
func (c scriptCache) Close() error { return nil }

func parseSteps(ws []string, three bool) ([]step, error) {
	var out []step
	for _, s := range ws {
		f := strings.Split(s, ":")
		if (three && len(f) != 3 && len(f) != 4) || (!three && len(f) != 2) {
			return nil, errors.New("bad step")
		}
		st := step{h: -1}
		var err error
		if st.co, err = strconv.ParseInt(f[0], 10, 64); err != nil {
			return nil, err
		}
		if st.cs, err = strconv.ParseInt(f[1], 10, 64); err != nil {
			return nil, err
		}
		if three {
			if st.n, err = strconv.ParseInt(f[2], 10, 64); err != nil {
				return nil, err
			}
			if len(f) == 4 {
				if st.h, err = strconv.ParseInt(f[3], 10, 64); err != nil {
					return nil, err
				}
			}
		}
		out = append(out, st)
	}
	return out, nil
}

// ArithRead: "rd <lenP> <off> <co>:<cs>:<n> ..."
func ArithRead(w []string) (string, error) {
	if len(w) < 3 {
		return "", errors.New("bad rd op")
	}
	lenP, err1 := strconv.ParseInt(w[1], 10, 64)
	off, err2 := strconv.ParseInt(w[2], 10, 64)
	steps, err3 := parseSteps(w[3:], true)
	if err1 != nil || err2 != nil || err3 != nil || lenP < 0 || lenP > 1<<16 {
		return "", errors.New("bad rd op")
	}
	log := &evlog{}
	sf := &scriptFile{steps: steps, log: log}
	vr, err := reader.NewReader(&scriptMeta{sf}, scriptCache{sf}, digest.FromString("l"))
	if err != nil {
		return "", err
	}
	ra, err := vr.SkipVerify().OpenFile(7)
	if err != nil {
		return "", err
	}
	n, err := ra.ReadAt(make([]byte, lenP), off)
	if err != nil {
		return log.str(false) + " err", nil
	}
	return fmt.Sprintf("%s ok %d", log.str(false), n), nil
}

// ArithPass: "pt <mergeBufferSize> <workers> <co>:<cs> ..." (needs a file-backed cache in dir).
func ArithPass(w []string, dir string) (string, error) {
	if len(w) < 3 {
		return "", errors.New("bad pt op")
	}
	mb, err1 := strconv.ParseInt(w[1], 10, 64)
	wk, err2 := strconv.ParseInt(w[2], 10, 64)
	steps, err3 := parseSteps(w[3:], false)
	if err1 != nil || err2 != nil || err3 != nil || mb <= 0 || wk <= 0 {
		return "", errors.New("bad pt op")
	}
	for i := range steps {
		steps[i].n = 1 << 62
	}
	log := &evlog{}
	dc, err := cache.NewDirectoryCache(dir, cache.DirectoryCacheConfig{Direct: true, SyncAdd: true})
	if err != nil {
		return "", err
	}
	defer dc.Close()
	vr, err := reader.NewReader(&scriptMeta{&scriptFile{steps: steps, log: log}}, dc, digest.FromString("l"))
	if err != nil {
		return "", err
	}
	ra, err := vr.SkipVerify().OpenFile(7)
	if err != nil {
		return "", err
	}
	_, cr, err := ra.(reader.PassthroughFdGetter).GetPassthroughFd(mb, int(wk))
	// only the store reads (A events) are compared; their order depends on the workers
	var a evlog
	for _, e := range log.ev {
		if strings.HasPrefix(e, "A") {
			a.add(e)
		}
	}
	if err != nil {
		return a.str(true) + " err", nil
	}
	cr.Close()
	return a.str(true) + " ok", nil
}

// ---- initFields / getSource --------------------------------------------------------------------

// ArithTree: "tree <hexname>:<type>:<hexlink> ..." with names that are already clean.
// Answer: "err" or "ok <parent>/<base>><target>:<type>,..." over the nodes reachable from the root.
func ArithTree(w []string, gz *Base) (string, error) {
	var ents []Ent
	for _, s := range w[1:] {
		f := strings.Split(s, ":")
		if len(f) != 3 {
			return "", errors.New("bad ent")
		}
		name, link := unhexDash(f[0]), unhexDash(f[2])
		e := E(name, f[1])
		if link != "" {
			e["linkName"] = link
		}
		ents = append(ents, e)
	}
	blob, _ := gz.Assemble(tocText(1, ents))
	r, err := estargz.Open(io.NewSectionReader(bytes.NewReader(blob), 0, int64(len(blob))))
	if err != nil {
		return "err", nil
	}
	root, ok := r.Lookup("")
	if !ok {
		return "err", nil
	}
	var edges []string
	seen := map[*estargz.TOCEntry]bool{}
	var visit func(e *estargz.TOCEntry)
	visit = func(e *estargz.TOCEntry) {
		if seen[e] {
			return
		}
		seen[e] = true
		e.ForeachChild(func(base string, c *estargz.TOCEntry) bool {
			ty := c.Type
			switch ty {
			case "dir", "reg", "symlink", "hardlink", "chunk":
			default:
				ty = "other"
			}
			edges = append(edges, fmt.Sprintf("%s/%s>%s:%s", hexDash(e.Name), hexDash(base), hexDash(c.Name), ty))
			return true
		})
		e.ForeachChild(func(base string, c *estargz.TOCEntry) bool {
			visit(c)
			return true
		})
	}
	visit(root)
	sort.Strings(edges)
	if len(edges) == 0 {
		return "ok -", nil
	}
	return "ok " + strings.Join(edges, ","), nil
}

func hexDash(s string) string {
	if s == "" {
		return "-"
	}
	return hex.EncodeToString([]byte(s))
}

func unhexDash(s string) string {
	if s == "-" {
		return ""
	}
	b, _ := hex.DecodeString(s)
	return string(b)
}

// TargetArith dispatches one arithmetic op and records (op, answer); a panic is recorded as the
// answer "panic" and is a property violation whatever the model says.
func TargetArith(in *Input, rec *Rec, gz *Base, dir string) {
	w := strings.Fields(in.Op)
	res := "panic"
	cl := rec.Try("arith."+w[0], func() error {
		var err error
		switch w[0] {
		case "open":
			res, err = ArithOpen(w)
		case "rd":
			res, err = ArithRead(w)
		case "pt":
			res, err = ArithPass(w, dir)
		case "tree":
			res, err = ArithTree(w, gz)
		case "consts":
			// the footer sizes the model hard-codes, read from the implementation (value, not source text)
			res = fmt.Sprintf("%d %d %d %d", new(estargz.GzipDecompressor).FooterSize(), new(estargz.LegacyGzipDecompressor).FooterSize(),
				new(zstdchunked.Decompressor).FooterSize(), externaltoc.NewGzipDecompressor(nil).FooterSize())
		default:
			err = errors.New("unknown op")
		}
		if err != nil {
			res = "harness-error"
			rec.Fail("harness-bad-op", in.Op+": "+err.Error())
		}
		return nil
	})
	if cl == "skipped" {
		return
	}
	if w[0] == "pt" {
		rec.Settle()
	}
	rec.Line(in.Op, res)
}

// ---- generators of arithmetic ops -----------------------------------------------------------------

func (g *Gen) advInt(bounds ...int64) int64 {
	r := g.R
	consts := []int64{-1, 0, 1, 2, -2, 3, 4, 5, 7, 8, 1 << 31, 1 << 32, 1 << 40, 1<<62 - 1, 1 << 62, 1<<62 + 1, 1<<63 - 1, 1<<63 - 2, -1 << 63, -1<<63 + 1, -1 << 62}
	switch r.Pick(6, 3, 3) {
	case 0:
		if len(bounds) > 0 {
			return bounds[r.Intn(len(bounds))] + r.Range(-2, 2)
		}
		fallthrough
	case 1:
		return consts[r.Intn(len(consts))]
	default:
		return r.Range(-4, 40)
	}
}

func (g *Gen) ArithOp() Input {
	r := g.R
	switch r.Pick(4, 5, 3, 4) {
	case 0:
		size := []int64{0, 1, 39, 40, 41, 46, 47, 50, 51, 52, 100, 200, 1000}[r.Intn(13)]
		opt := g.advInt(size, 0, 51)
		op := fmt.Sprintf("open %d %d 51,e,0,0 47,e,0,0", size, opt)
		for k := 0; k < int(r.Range(1, 3)); k++ {
			fs := []int64{0, 1, 40, 46, 51, size, size + 1, 60}[r.Intn(8)]
			pf := "e"
			if r.Intn(5) > 0 {
				to := g.advInt(size, size-fs, 0)
				ts := g.advInt(size, size-fs, 0, size-to, size-to-fs)
				if r.Intn(3) == 0 {
					ts = 0
				}
				pf = fmt.Sprintf("%d:%d", to, ts)
			}
			op += fmt.Sprintf(" %d,%s,%d,%d", fs, pf, r.Intn(2), r.Intn(2))
		}
		return Input{Class: "arith:open", Kind: "arith", Op: op}
	case 1:
		lenP := []int64{0, 1, 2, 3, 4, 8, 16, 64, 4096}[r.Intn(9)]
		off := g.advInt(0, 4, 10)
		if r.Intn(3) > 0 {
			off = r.Range(0, 12)
		}
		op := fmt.Sprintf("rd %d %d", lenP, off)
		cur := off
		for k := 0; k < int(r.Range(0, 5)); k++ {
			var co, cs, n int64
			if r.Intn(3) > 0 { // mostly plausible: a chunk around the current position
				co = cur - r.Range(0, 3)
				cs = r.Range(1, 8)
				n = cs
				if r.Intn(4) == 0 {
					n = r.Range(0, cs)
				}
			} else {
				co, cs, n = g.advInt(cur, off, lenP), g.advInt(lenP, 4, cur), g.advInt(0, 4)
			}
			if cs > 1<<20 && cs < 1<<62 {
				// would be a real multi-gigabyte allocation (slow, machine dependent): either a
				// plausible size or one no machine can serve
				cs = []int64{1 << 20, 1 << 62, 1<<62 + 1, 1<<63 - 1}[r.Intn(4)]
			}
			op += fmt.Sprintf(" %d:%d:%d", co, cs, n)
			if r.Intn(5) == 0 {
				op += fmt.Sprintf(":%d", []int64{0, 1, cs - 1, cs, cs + 1, 1 << 40}[r.Intn(6)])
			}
			if cs > 0 && cs < 1<<20 {
				cur = co + cs
			}
		}
		return Input{Class: "arith:read", Kind: "arith", Op: op}
	case 2:
		mb := []int64{1, 2, 4, 6, 7, 8, 16}[r.Intn(7)]
		op := fmt.Sprintf("pt %d %d", mb, r.Range(1, 3))
		cur := int64(0)
		for k := 0; k < int(r.Range(0, 6)); k++ {
			var co, cs int64
			if r.Intn(4) > 0 {
				co, cs = cur, r.Range(1, mb+1)
			} else {
				co, cs = g.advInt(cur, mb), g.advInt(mb, 4)
				if cs > 1<<20 || cs < -(1<<20) || co > 1<<20 || co < -(1<<20) {
					cs = r.Range(-3, 9)
					co = r.Range(-3, 20)
				}
			}
			op += fmt.Sprintf(" %d:%d", co, cs)
			cur = co + cs
		}
		return Input{Class: "arith:passthrough", Kind: "arith", Op: op}
	default:
		names := []string{"a", "b", "d", "d/x", "d/y", "d/e", "d/e/f", "a/b", "a/b/c", "b/a", "d/x/z", ""}
		types := []string{"dir", "reg", "symlink", "hardlink", "hardlink", "hardlink", "other"}
		op := "tree"
		for k := 0; k < int(r.Range(0, 7)); k++ {
			n := names[r.Intn(len(names))]
			t := types[r.Intn(len(types))]
			if n == "" && t == "hardlink" {
				t = "dir" // a root entry that is a hardlink makes Lookup("") answer another entry: not modelled
			}
			l := ""
			if t == "hardlink" || r.Intn(6) == 0 {
				l = names[r.Intn(len(names))]
				if r.Intn(8) == 0 {
					l = "missing"
				}
			}
			op += fmt.Sprintf(" %s:%s:%s", hexDash(n), t, hexDash(l))
		}
		return Input{Class: "arith:tree", Kind: "arith", Op: op}
	}
}
