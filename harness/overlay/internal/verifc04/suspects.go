package verifc04

import (
	"fmt"
	"os"
)

// Suspects is the clearly labelled stream of hand-written hostile inputs for the sites named in
// DESIGN.md (C04).  Class "suspect:<name>": a finding that is still open (see
// findings/known_findings.txt).  Class "fixed:<commit>:<name>": a finding that was repaired by that
// commit; the input stays as a regression scenario and must end in an error — a crash or hang of it
// carries its own signature and can never be covered by a known finding of the same site.
func Suspects(g *Gen) (early, lateIn []Input) {
	gz := g.Bases[0]
	body := gz.Blob[:len(gz.Blob)-51]
	var out, late []Input
	cls := func(name string) string {
		if len(name) > 6 && name[:6] == "fixed:" {
			return name
		}
		return "suspect:" + name
	}
	add := func(name string, in Input) {
		in.Suspect = name
		in.Class = cls(name)
		out = append(out, in)
	}
	// inputs expected to end in a loop go last: after a few hangs of one target the executor stops
	// running that target, which must not mask the crash-type suspects
	addLate := func(name string, in Input) {
		in.Suspect = name
		in.Class = cls(name)
		late = append(late, in)
	}
	mustDB := func(in Input) Input { in.MustErr, in.MustErrDB = true, true; return in }
	toc := func(ents ...Ent) []byte { return tocText(1, ents) }
	reg := func() Ent { return cloneEnts(gz.Entries)[entIdx(gz.Entries, "d/a.txt")] }

	// TOC JSON documents the decoder turns into nil pointers
	add("fixed:18babb7:toc-json-null", markMust(g.blobInput(gz, "", []byte(`null`))))
	add("fixed:18babb7:toc-entries-null-element", markMust(g.blobInput(gz, "", []byte(`{"version":1,"entries":[null]}`))))
	// gzip footer whose 16 hex characters carry a sign: negative TOC offset = "external TOC"
	add("fixed:18babb7:gz-footer-negative-offset", mustDB(Input{Kind: "blob", Data: append(append([]byte{}, body...), GzipFooter(StargzExtra("-000000000000001"))...)}))
	// hardlink to an ancestor that is not of type dir (but gets children): cyclic tree
	add("hardlink-to-nondir-ancestor", markMust(g.blobInput(gz, "", toc(E("p", "reg"), E("p/x", "hardlink", "linkName", "p")))))
	// sizes: reg entry whose size/chunkSize make initFields allocate Size/ChunkSize+1 slots
	add("fixed:18babb7:huge-size-small-chunksize", g.blobInput(gz, "", toc(E("f", "reg", "size", num("4611686018427387904"), "chunkSize", 1, "offset", 10))))
	// huge chunk size reaching b.Grow / bufio.NewReaderSize / make in fs/reader
	r1 := reg()
	r1["size"], r1["chunkSize"] = num("4611686018427387904"), num("4611686018427387904")
	add("huge-chunksize-2^62", g.blobInput(gz, "", toc(E("d/", "dir"), r1)))
	r2 := reg()
	r2["size"], r2["chunkSize"] = num("1099511627776"), num("1099511627776")
	add("huge-chunksize-2^40", g.blobInput(gz, "", toc(E("d/", "dir"), r2)))
	// negative chunkOffset on a single-chunk file: file.ReadAt's expectedSize wraps around to exactly
	// len(p), the validation of 42545b8 passes and ip[lower:chunkSize-upper] has bounds near +-2^63
	// (Lean: SV.Props.C04.read_arith_total_full_fails)
	zeros100 := "sha256:cd00e292c5970d3c5e2f0ffa5171e555bc46bfc4faddfb4a418b6840b86e79a3"
	add("fixed:95288ee:negative-chunkoffset-wrap", g.blobInput(gz, "", toc(E("d/", "dir"),
		E("d/w", "reg", "size", 100, "offset", reg()["offset"], "chunkOffset", num("-9223372036854775798"), "digest", zeros100, "chunkDigest", zeros100))))
	// chunkOffset+chunkSize overflow
	r3 := reg()
	addLate("fixed:95288ee:chunk-offset-plus-size-overflow", g.blobInput(gz, "", toc(E("d/", "dir"), r3,
		E("d/a.txt", "chunk", "offset", r3["offset"], "chunkOffset", num("9223372036854775800"), "chunkSize", 100))))
	// chunk beyond the file size: the store's ReadAt returns 0 bytes, file.ReadAt does not advance
	r4 := reg()
	zeros5 := "sha256:8855508aade16ec573d21e6a485dfd0a7624085c1a14b5ecdd6485de0c6839a4" // sha256 of 5 zero bytes
	addLate("fixed:95288ee:chunk-beyond-file-size", g.blobInput(gz, "", toc(E("d/", "dir"), r4,
		E("d/a.txt", "chunk", "offset", r4["offset"], "chunkOffset", 4, "chunkSize", 4, "chunkDigest", r4["chunkDigest"]),
		E("d/a.txt", "chunk", "offset", r4["offset"], "chunkOffset", 20, "chunkSize", 5, "chunkDigest", zeros5))))
	// single-chunk file whose chunkOffset lies behind its end: the store's ReadAt delivers 0 bytes with
	// io.EOF, file.ReadAt accepts that and asks for the same chunk again, for ever
	// (Lean: SV.Props.C04.read_progress_full_fails)
	addLate("fixed:95288ee:nonadvancing-read", g.blobInput(gz, "", toc(E("d/", "dir"),
		E("d/w", "reg", "size", 1, "offset", reg()["offset"], "chunkOffset", 50))))
	// zero-sized chunk at EOF (implicit chunk size = size - chunkOffset = 0): passthrough collection loop
	r5 := reg()
	addLate("fixed:95288ee:zero-chunk-at-eof", g.blobInput(gz, "", toc(E("d/", "dir"), r5,
		E("d/a.txt", "chunk", "offset", r5["offset"], "chunkOffset", 4, "chunkSize", 6),
		E("d/a.txt", "chunk", "offset", r5["offset"], "chunkOffset", 10))))
	// overlapping chunk table + passthrough batches
	r6 := reg()
	r6["size"] = 6
	add("overlapping-chunks-passthrough", g.blobInput(gz, "", toc(E("d/", "dir"), r6,
		E("d/a.txt", "chunk", "offset", r6["offset"], "chunkOffset", 2, "chunkSize", 4))))
	// negative chunk sizes walking backwards in the prefetch loop
	r7 := reg()
	r7["chunkSize"] = 5
	addLate("fixed:95288ee:chunk-size-walks-back", g.blobInput(gz, "", toc(E("d/", "dir"), r7,
		E("d/a.txt", "chunk", "offset", r7["offset"], "chunkOffset", 5, "chunkSize", -5))))
	// TOC offset beyond the blob (the db store has its own copy of Open's arithmetic)
	add("fixed:61ee3c1:toc-offset-beyond-blob", mustDB(Input{Kind: "blob", Data: append(append([]byte{}, body...), GzipFooter(StargzExtra(fmt.Sprintf("%016x", int64(1)<<40)))...)}))
	// zstd footer with a huge compressed length (allocation before the read fails)
	zb := g.Bases[1]
	zbody := zb.Blob[:len(zb.Blob)-48]
	for _, cl := range []uint64{1 << 40, 1 << 62, 1<<63 + 5} {
		in := Input{Kind: "blob", Note: "zstd",
			Data: append(append([]byte{}, zbody...), skippable(ZstdFooter(uint64(len(zb.Payload))+8, cl, 10, true))...)}
		if cl < 1<<63 {
			in = mustDB(in) // as int64 it is positive and larger than the blob; 2^63+5 is negative = "use the default size"
		}
		add(fmt.Sprintf("fixed:61ee3c1:zstd-compressed-length-%d", cl), in)
	}
	// deep trees
	// deep trees: around the depth bound of the prefetch walk (maxWalkDepth = 10000).  Generated inputs
	// stay below 1000 levels: the bolt store is cubic in the depth (known finding), every deep input
	// costs it a hang.
	addLate("deep-path-10001", g.blobInput(gz, "", toc(E(deepName(10001, "f"), "reg"))))
	if os.Getenv("VERIF_TIER") == "thorough" {
		addLate("deep-path-9999", g.blobInput(gz, "", toc(E(deepName(9999, "f"), "reg"))))
		addLate("deep-path-20000", g.blobInput(gz, "", toc(E(deepName(20000, "f"), "reg"))))
	}
	// hardlinks in the db store: cycles and links to directories
	add("fixed:588493d:hardlink-cycle2", mustDB(g.blobInput(gz, "", toc(E("a", "hardlink", "linkName", "b"), E("b", "hardlink", "linkName", "a")))))
	add("fixed:a0e1c6d:hardlink-to-parent-dir", mustDB(g.blobInput(gz, "", toc(E("d/", "dir"), E("d/x", "hardlink", "linkName", "d")))))
	add("fixed:a0e1c6d:hardlink-to-root", mustDB(g.blobInput(gz, "", toc(E("d/", "dir"), E("d/x", "hardlink", "linkName", "")))))
	// a link to a directory is refused whatever the directory is (588493d), also an empty, unrelated one
	add("fixed:588493d:hardlink-to-empty-unrelated-dir", mustDB(g.blobInput(gz, "", toc(E("e/", "dir"), E("x", "hardlink", "linkName", "e")))))
	// two cooperating links to directories that are not ancestors of the links
	add("fixed:588493d:hardlinks-to-each-others-parent", mustDB(g.blobInput(gz, "", toc(E("a/", "dir"), E("b/", "dir"),
		E("a/l", "hardlink", "linkName", "b"), E("b/m", "hardlink", "linkName", "a")))))
	return out, late
}
