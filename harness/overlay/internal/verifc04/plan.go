package verifc04

import (
	"os"
	"strings"

	"github.com/containerd/stargz-snapshotter/internal/verifutil"
)

// Plan assembles the inputs of one run.  blobOnly: only inputs of kind blob (the db binary).
func Plan(g *Gen, blobOnly bool) []Input {
	// replay aid: VERIF_C04_OPS="op;op;..." runs exactly these arithmetic ops
	if ops := os.Getenv("VERIF_C04_OPS"); ops != "" {
		var ins []Input
		for _, op := range strings.Split(ops, ";") {
			ins = append(ins, Input{Class: "arith:replay", Kind: "arith", Op: strings.TrimSpace(op)})
		}
		return ins
	}
	n := verifutil.EnvInt("VERIF_N", 300)
	fixed, fixedLate := g.Fixed()
	sus, susLate := Suspects(g)
	inputs := append(fixed, sus...)
	inputs = append(inputs, fixedLate...)
	inputs = append(inputs, susLate...)
	for i := 0; i < n; i++ {
		inputs = append(inputs, g.Structured())
	}
	for i := 0; i < n/3; i++ {
		inputs = append(inputs, g.Footer())
	}
	for i := 0; i < n/4; i++ {
		inputs = append(inputs, g.Raw())
	}
	for i := 0; i < verifutil.EnvInt("VERIF_N_PF", n/2); i++ {
		inputs = append(inputs, g.FooterBytes())
	}
	stride := 1
	if os.Getenv("VERIF_TIER") != "thorough" {
		stride = 3
	}
	inputs = append(inputs, g.Truncations(g.Bases[0], stride)...)
	inputs = append(inputs, g.Truncations(g.Bases[1], stride*3)...)
	inputs = append(inputs, g.Truncations(g.Bases[2], stride*3)...)
	for i := 0; i < n/8; i++ {
		inputs = append(inputs, g.BitFlip())
	}
	for i := 0; i < n/8; i++ {
		inputs = append(inputs, g.Tar())
	}
	inputs = append(inputs, Input{Class: "arith:consts", Kind: "arith", Op: "consts"})
	for i := 0; i < verifutil.EnvInt("VERIF_N_ARITH", n); i++ {
		inputs = append(inputs, g.ArithOp())
	}
	if blobOnly {
		var keep []Input
		for _, in := range inputs {
			if in.Kind == "blob" {
				keep = append(keep, in)
			}
		}
		inputs = keep
	}
	return inputs
}
