package verifc04

import (
	"archive/tar"
	"bytes"
	"compress/gzip"
	"encoding/binary"
	"encoding/json"
	"fmt"
	"io"
	"strings"

	"github.com/containerd/stargz-snapshotter/estargz"
	"github.com/containerd/stargz-snapshotter/estargz/externaltoc"
	"github.com/containerd/stargz-snapshotter/estargz/zstdchunked"
	"github.com/containerd/stargz-snapshotter/internal/verifutil"
	"github.com/klauspost/compress/zstd"
)

// ---------------------------------------------------------------------------------------------
// a valid small blob, built with the real builder, and taken apart again

type Ent = map[string]any

// Base is a valid blob of one compression flavour split into payload and TOC.
type Base struct {
	Comp    string // gz | zstd | ext
	Blob    []byte
	Payload []byte // blob bytes in front of the TOC
	TOCJSON []byte
	ExtTOC  []byte // ext only: the externally stored TOC (gzip'ed tar)
	Entries []Ent
}

type tarEnt struct {
	name, link string
	typ        byte
	body       string
	xattrs     map[string]string
	major      int64
}

func baseTar() []tarEnt {
	return []tarEnt{
		{name: "d/", typ: tar.TypeDir},
		{name: "d/a.txt", typ: tar.TypeReg, body: "0123456789", xattrs: map[string]string{"user.k": "v"}},
		{name: "d/b", typ: tar.TypeSymlink, link: "a.txt"},
		{name: "e", typ: tar.TypeLink, link: "d/a.txt"},
		{name: "f/g/h", typ: tar.TypeReg, body: "x"},
		{name: "empty", typ: tar.TypeReg},
		{name: "d/.wh.gone", typ: tar.TypeReg},
		{name: "x.dev", typ: tar.TypeChar, major: 1},
		{name: "big", typ: tar.TypeReg, body: strings.Repeat("abcdefghij", 3)},
	}
}

// MakeTar serialises entries with archive/tar (errors of the writer are ignored on purpose:
// hostile headers are part of the game).
func MakeTar(ents []tarEnt) []byte {
	var buf bytes.Buffer
	tw := tar.NewWriter(&buf)
	for _, e := range ents {
		h := &tar.Header{Name: e.name, Typeflag: e.typ, Linkname: e.link, Mode: 0o644, Devmajor: e.major, Format: tar.FormatPAX}
		if e.typ == tar.TypeDir {
			h.Mode = 0o755
		}
		if e.typ == tar.TypeReg {
			h.Size = int64(len(e.body))
		}
		if len(e.xattrs) > 0 {
			h.PAXRecords = map[string]string{}
			for k, v := range e.xattrs {
				h.PAXRecords["SCHILY.xattr."+k] = v
			}
		}
		if err := tw.WriteHeader(h); err != nil {
			continue
		}
		if e.typ == tar.TypeReg {
			tw.Write([]byte(e.body))
		}
	}
	tw.Close()
	return buf.Bytes()
}

func gzipTarMember(tocJSON []byte) []byte {
	var buf bytes.Buffer
	gz, _ := gzip.NewWriterLevel(&buf, gzip.BestCompression)
	tw := tar.NewWriter(gz)
	tw.WriteHeader(&tar.Header{Typeflag: tar.TypeReg, Name: estargz.TOCTarName, Size: int64(len(tocJSON))})
	tw.Write(tocJSON)
	tw.Close()
	gz.Close()
	return buf.Bytes()
}

// GzipFooter builds a 51-byte footer around an arbitrary FEXTRA payload.
func GzipFooter(extra []byte) []byte { return estargz.CreateGzipFooter(extra) }

// StargzExtra is the FEXTRA payload of a regular eStargz footer with the given 16 characters.
func StargzExtra(off16 string) []byte {
	sub := off16 + "STARGZ"
	h := []byte{'S', 'G', 0, 0}
	binary.LittleEndian.PutUint16(h[2:], uint16(len(sub)))
	return append(h, sub...)
}

func skippable(b []byte) []byte {
	h := []byte{0x50, 0x2a, 0x4d, 0x18, 0, 0, 0, 0}
	binary.LittleEndian.PutUint32(h[4:], uint32(len(b)))
	return append(h, b...)
}

// ZstdFooter is the 40-byte zstd:chunked footer.
func ZstdFooter(off, comp, raw uint64, magicOK bool) []byte {
	f := make([]byte, 40)
	binary.LittleEndian.PutUint64(f, off)
	binary.LittleEndian.PutUint64(f[8:], comp)
	binary.LittleEndian.PutUint64(f[16:], raw)
	binary.LittleEndian.PutUint64(f[24:], 1)
	copy(f[32:], []byte{0x47, 0x6e, 0x55, 0x6c, 0x49, 0x6e, 0x55, 0x78})
	if !magicOK {
		f[39] ^= 1
	}
	return f
}

func zstdOf(b []byte) []byte {
	var buf bytes.Buffer
	w, _ := zstd.NewWriter(&buf)
	w.Write(b)
	w.Close()
	return buf.Bytes()
}

// Assemble re-wraps a TOC JSON text as a proper TOC member + valid footer behind the payload.
func (b *Base) Assemble(tocJSON []byte) (blob, ext []byte) {
	switch b.Comp {
	case "gz":
		blob = append(append([]byte{}, b.Payload...), gzipTarMember(tocJSON)...)
		blob = append(blob, GzipFooter(StargzExtra(fmt.Sprintf("%016x", len(b.Payload))))...)
	case "zstd":
		c := zstdOf(tocJSON)
		blob = append(append([]byte{}, b.Payload...), skippable(c)...)
		blob = append(blob, skippable(ZstdFooter(uint64(len(b.Payload))+8, uint64(len(c)), uint64(len(tocJSON)), true))...)
	case "ext":
		blob = append(append([]byte{}, b.Payload...), b.Blob[len(b.Blob)-46:]...)
		ext = gzipTarMember(tocJSON)
	}
	return
}

// BuildBases builds the three valid blobs.
func BuildBases() ([]*Base, error) {
	t := MakeTar(baseTar())
	var res []*Base
	for _, comp := range []string{"gz", "zstd", "ext"} {
		opts := []estargz.Option{estargz.WithChunkSize(4), estargz.WithPrioritizedFiles([]string{"d/a.txt"})}
		var ec *externaltoc.GzipCompressor
		switch comp {
		case "zstd":
			opts = append(opts, estargz.WithCompression(&zstdCompression{&zstdchunked.Compressor{CompressionLevel: zstd.SpeedDefault}, &zstdchunked.Decompressor{}}))
		case "ext":
			ec = externaltoc.NewGzipCompressor()
			opts = append(opts, estargz.WithCompression(&extCompression{ec, externaltoc.NewGzipDecompressor(nil)}))
		}
		rc, err := estargz.Build(io.NewSectionReader(bytes.NewReader(t), 0, int64(len(t))), opts...)
		if err != nil {
			return nil, fmt.Errorf("build %s: %w", comp, err)
		}
		blob, err := io.ReadAll(rc)
		rc.Close()
		if err != nil {
			return nil, err
		}
		b := &Base{Comp: comp, Blob: blob}
		switch comp {
		case "gz":
			off, _, err := estargz.OpenFooter(io.NewSectionReader(bytes.NewReader(blob), 0, int64(len(blob))))
			if err != nil {
				return nil, err
			}
			b.Payload = blob[:off]
			zr, err := gzip.NewReader(bytes.NewReader(blob[off : len(blob)-51]))
			if err != nil {
				return nil, err
			}
			tr := tar.NewReader(zr)
			if _, err := tr.Next(); err != nil {
				return nil, err
			}
			if b.TOCJSON, err = io.ReadAll(tr); err != nil {
				return nil, err
			}
		case "zstd":
			f := blob[len(blob)-40:]
			off := binary.LittleEndian.Uint64(f)
			cl := binary.LittleEndian.Uint64(f[8:])
			b.Payload = blob[:off-8]
			dr, err := zstd.NewReader(bytes.NewReader(blob[off : off+cl]))
			if err != nil {
				return nil, err
			}
			b.TOCJSON, err = io.ReadAll(dr)
			dr.Close()
			if err != nil {
				return nil, err
			}
		case "ext":
			b.Payload = blob[:len(blob)-46]
			var tb bytes.Buffer
			if _, err := ec.WriteTOCTo(&tb); err != nil {
				return nil, err
			}
			b.ExtTOC = tb.Bytes()
			zr, err := gzip.NewReader(bytes.NewReader(b.ExtTOC))
			if err != nil {
				return nil, err
			}
			tr := tar.NewReader(zr)
			if _, err := tr.Next(); err != nil {
				return nil, err
			}
			if b.TOCJSON, err = io.ReadAll(tr); err != nil {
				return nil, err
			}
		}
		var doc struct {
			Entries []Ent `json:"entries"`
		}
		dec := json.NewDecoder(bytes.NewReader(b.TOCJSON))
		dec.UseNumber()
		if err := dec.Decode(&doc); err != nil {
			return nil, err
		}
		b.Entries = doc.Entries
		res = append(res, b)
	}
	return res, nil
}

type zstdCompression struct {
	*zstdchunked.Compressor
	*zstdchunked.Decompressor
}

type extCompression struct {
	*externaltoc.GzipCompressor
	*externaltoc.GzipDecompressor
}

// ---------------------------------------------------------------------------------------------
// generator

type Gen struct {
	R     *verifutil.Rand
	Bases []*Base
}

func cloneEnts(in []Ent) []Ent {
	out := make([]Ent, len(in))
	for i, e := range in {
		c := Ent{}
		for k, v := range e {
			c[k] = v
		}
		out[i] = c
	}
	return out
}

func tocText(version any, ents []Ent) []byte {
	b, _ := json.Marshal(map[string]any{"version": version, "entries": ents})
	return b
}

func num(s string) json.Number { return json.Number(s) }

// E builds a TOC entry.
func E(name, typ string, kv ...any) Ent {
	e := Ent{"name": name, "type": typ}
	for i := 0; i+1 < len(kv); i += 2 {
		e[kv[i].(string)] = kv[i+1]
	}
	return e
}

// deepChoices: trees of 10000 and more levels cost seconds per input (and the bolt store is cubic in
// the depth: known finding); they are met in the hand-written stream only.
func (g *Gen) deepChoices() int {
	return 2
}

func (g *Gen) base() *Base { return g.Bases[g.R.Pick(8, 1, 1)] }

func (g *Gen) blobInput(b *Base, class string, toc []byte) Input {
	blob, ext := b.Assemble(toc)
	return Input{Class: class, Kind: "blob", Data: blob, ExtTOC: ext, Note: b.Comp, TOC: compactTOC(toc, b)}
}

// compactTOC: the TOC text for reports, without the untouched entries of the base blob when the
// text is long (entries that differ from the base are what matters).
func compactTOC(toc []byte, b *Base) string {
	if len(toc) <= 1600 {
		return string(toc)
	}
	var doc struct {
		Entries []json.RawMessage `json:"entries"`
	}
	if json.Unmarshal(toc, &doc) != nil {
		return string(toc)
	}
	base := map[string]bool{}
	for _, e := range b.Entries {
		j, _ := json.Marshal(e)
		base[string(j)] = true
	}
	var diff []string
	for _, e := range doc.Entries {
		var v any
		dec := json.NewDecoder(bytes.NewReader(e))
		dec.UseNumber()
		if dec.Decode(&v) != nil {
			diff = append(diff, string(e))
			continue
		}
		j, _ := json.Marshal(v)
		if !base[string(j)] {
			diff = append(diff, string(j))
		}
	}
	return "(entries differing from the valid base blob) [" + strings.Join(diff, ",") + "]"
}

// advNumbers: adversarial numbers around the given bounds and the int64 limits.
func (g *Gen) advNumber(bounds ...int64) any {
	// Sizes between 2^27 and 2^62 are left out on purpose: they end in a real multi-gigabyte allocation
	// whose outcome (slow success, out of memory) depends on the machine.  The same code paths are
	// reached deterministically by 2^62.. ("makeslice: len out of range", "bytes.Buffer: too large")
	// and by the 2^40 suspects.
	consts := []string{"-1", "0", "1", "2", "3", "-2", "-3", "65535", "65536", "1048576", "-65536",
		"4611686018427387903", "4611686018427387904", "4611686018427387905", "9223372036854775806", "9223372036854775807",
		"-9223372036854775808", "-9223372036854775807", "-4611686018427387904", "9223372036854775808", "18446744073709551615",
		"1e30", "1.5", "-0", "1e3"}
	switch g.R.Pick(5, 5, 1) {
	case 0:
		if len(bounds) > 0 {
			b := bounds[g.R.Intn(len(bounds))]
			return num(fmt.Sprint(b + g.R.Range(-2, 2)))
		}
		fallthrough
	case 1:
		return num(consts[g.R.Intn(len(consts))])
	default:
		return []any{"str", nil, true, []any{}, map[string]any{}, ""}[g.R.Intn(6)]
	}
}

func entIdx(ents []Ent, name string) int {
	for i, e := range ents {
		if e["name"] == name {
			return i
		}
	}
	return -1
}

func deepName(n int, leaf string) string { return strings.Repeat("a/", n) + leaf }

// Structured returns one valid-blob-with-one-hostile-TOC-field input.
func (g *Gen) Structured() Input {
	b := g.base()
	ents := cloneEnts(b.Entries)
	r := g.R
	size := int64(len(b.Blob))
	ia := entIdx(ents, "d/a.txt")
	pick := func(xs ...string) string { return xs[r.Intn(len(xs))] }
	switch r.Pick(10, 10, 14, 12, 10, 4, 5, 4, 3, 2, 4) {
	case 0: // hardlink graphs
		switch r.Intn(7) {
		case 0:
			ents = append(ents, E("h1", "hardlink", "linkName", "h2"), E("h2", "hardlink", "linkName", "h1"))
			return g.blobInput(b, "toc:hardlink-cycle2", tocText(1, ents))
		case 1:
			ents = append(ents, E("h1", "hardlink", "linkName", "h1"))
			return g.blobInput(b, "toc:hardlink-self", tocText(1, ents))
		case 2:
			n := int(r.Range(2, 40))
			for i := 0; i < n; i++ {
				ents = append(ents, E(fmt.Sprintf("c%d", i), "hardlink", "linkName", fmt.Sprintf("c%d", (i+1)%n)))
			}
			return g.blobInput(b, "toc:hardlink-cycleN", tocText(1, ents))
		case 3:
			n := int(r.Range(2, 600)) // walking a chain is quadratic in its length (Lookup resolves it each time)
			for i := 0; i < n; i++ {
				tgt := fmt.Sprintf("c%d", i+1)
				if i == n-1 {
					tgt = pick("d/a.txt", "missing", "d", "empty")
				}
				ents = append(ents, E(fmt.Sprintf("c%d", i), "hardlink", "linkName", tgt))
			}
			if r.Bool() { // chain declared in reverse order
				for i, j := len(b.Entries), len(ents)-1; i < j; i, j = i+1, j-1 {
					ents[i], ents[j] = ents[j], ents[i]
				}
			}
			return g.blobInput(b, "toc:hardlink-chain", tocText(1, ents))
		case 4:
			ents = append(ents, E("hm", "hardlink", "linkName", pick("missing", "", "d/b", "x.dev", "d/a.txt/..", "big", ".prefetch.landmark")))
			return g.blobInput(b, "toc:hardlink-misc-target", tocText(1, ents))
		case 5:
			ents = append(ents, E("e", "hardlink", "linkName", "e"))
			return g.blobInput(b, "toc:hardlink-replaces-itself", tocText(1, ents))
		default:
			ents = append([]Ent{E("first", "hardlink", "linkName", "d/a.txt")}, ents...)
			return g.blobInput(b, "toc:hardlink-before-target", tocText(1, ents))
		}
	case 1: // hardlink to a directory / ancestor
		switch r.Intn(6) {
		case 0:
			ents = append(ents, E("d/x", "hardlink", "linkName", "d"))
			return g.blobInput(b, "toc:hardlink-to-parent-dir", tocText(1, ents))
		case 1:
			ents = append(ents, E("f/g/x", "hardlink", "linkName", pick("f", "f/g", "", "/", ".", "./", "f/g/..")))
			return g.blobInput(b, "toc:hardlink-to-ancestor-dir", tocText(1, ents))
		case 2:
			ents = append(ents, E("x", "hardlink", "linkName", pick("d", "f/g", "f")))
			return g.blobInput(b, "toc:hardlink-to-other-dir", tocText(1, ents))
		case 3: // ancestor that is NOT of type dir but has children
			ents = append(ents, E("p", pick("reg", "symlink", "char", "fifo", "weird"), "linkName", "q"), E("p/x", "hardlink", "linkName", "p"))
			return g.blobInput(b, "toc:hardlink-to-nondir-ancestor", tocText(1, ents))
		case 4: // implicit directory as target
			ents = append(ents, E("i/j/k", "hardlink", "linkName", pick("i", "i/j")))
			return g.blobInput(b, "toc:hardlink-to-implicit-dir", tocText(1, ents))
		default: // via a chain
			ents = append(ents, E("d/y", "hardlink", "linkName", "d/z"), E("d/z", "hardlink", "linkName", "d"))
			return g.blobInput(b, "toc:hardlink-chain-to-dir", tocText(1, ents))
		}
	case 2: // one numeric field of one entry
		i := r.Intn(len(ents))
		if r.Intn(3) > 0 && ia >= 0 {
			i = ia + r.Intn(3) // the chunked file and its chunks
			if i >= len(ents) {
				i = ia
			}
		}
		f := pick("size", "offset", "chunkOffset", "chunkSize", "innerOffset", "mode", "uid", "gid", "devMajor", "devMinor", "size", "chunkSize", "chunkOffset", "offset")
		ents[i][f] = g.advNumber(size, 10, 4, size-51, int64(len(b.Payload)))
		return g.blobInput(b, "toc:num:"+f, tocText(1, ents))
	case 3: // chunk tables
		if ia < 0 {
			break
		}
		reg := ents[ia]
		mk := func(co, cs any) Ent {
			return E("d/a.txt", "chunk", "offset", reg["offset"], "chunkOffset", co, "chunkSize", cs, "chunkDigest", reg["chunkDigest"])
		}
		var extra []Ent
		class := ""
		switch r.Intn(10) {
		case 0:
			class = "chunks:unsorted"
			extra = []Ent{mk(8, 2), mk(4, 4)}
		case 1:
			class = "chunks:overlap"
			extra = []Ent{mk(r.Range(0, 6), r.Range(1, 8)), mk(r.Range(0, 9), r.Range(1, 8))}
		case 2:
			class = "chunks:duplicate-offset"
			extra = []Ent{mk(4, 4), mk(4, 4), mk(8, 2)}
		case 3:
			class = "chunks:beyond-size"
			extra = []Ent{mk(4, 4), mk(r.Range(10, 40), r.Range(1, 9))}
		case 4:
			class = "chunks:at-size-implicit"
			extra = []Ent{mk(4, 4), mk(8, 2), mk(10, nil)}
			delete(extra[2], "chunkSize")
		case 5:
			class = "chunks:negative-size"
			extra = []Ent{mk(4, -r.Range(1, 9)), mk(8, 2)}
		case 6:
			class = "chunks:huge-size"
			extra = []Ent{mk(4, g.advNumber()), mk(8, 2)}
		case 7:
			class = "chunks:gap"
			extra = []Ent{mk(r.Range(5, 9), r.Range(1, 3))}
		case 8:
			class = "chunks:implicit-size-beyond"
			e := mk(r.Range(11, 30), nil)
			delete(e, "chunkSize")
			extra = []Ent{mk(4, 4), e}
		default:
			class = "chunks:random"
			for k := 0; k < int(r.Range(1, 5)); k++ {
				extra = append(extra, mk(g.advNumber(10, 4), g.advNumber(10, 4)))
			}
		}
		// replace the original chunk entries of d/a.txt
		var out []Ent
		for i, e := range ents {
			if e["type"] == "chunk" && i > ia && i <= ia+2 {
				continue
			}
			out = append(out, e)
			if i == ia {
				out = append(out, extra...)
			}
		}
		return g.blobInput(b, "toc:"+class, tocText(1, out))
	case 4: // names
		switch r.Intn(8) {
		case 0:
			n := pick("", ".", "..", "/", "./", "../x", "a//b", "a/./b", "a/../..", "d/a.txt/", "//", "d/../d/a.txt", "\x00", "a\x00b", "\xff\xfe")
			ents = append(ents, E(n, pick("reg", "dir", "symlink", "hardlink"), "linkName", pick("d/a.txt", "", "..")))
			return g.blobInput(b, "toc:name-odd", tocText(1, ents))
		case 1:
			ents = append(ents, E("d", "reg", "size", 0), E("d/a.txt", "dir"))
			return g.blobInput(b, "toc:name-dup-type-swap", tocText(1, ents))
		case 2:
			ents = append(ents, cloneEnts(ents)...)
			return g.blobInput(b, "toc:name-dup-all", tocText(1, ents))
		case 3:
			n := []int{50, 300, 9999, 10000, 10001, 10002, 20000}[r.Intn(g.deepChoices())] // the db store is cubic in the depth (known finding): keep generated trees shallow
			ents = append(ents, E(deepName(n, "f"), pick("reg", "dir", "symlink"), "size", 0))
			return g.blobInput(b, fmt.Sprintf("toc:deep-path-%d", n), tocText(1, ents))
		case 4:
			ents = append(ents, E("d/a.txt/child", "reg", "size", 0), E("d/b/child", "reg", "size", 0))
			return g.blobInput(b, "toc:child-of-nondir", tocText(1, ents))
		case 5:
			ents[r.Intn(len(ents))]["name"] = g.advNumber()
			return g.blobInput(b, "toc:name-not-string", tocText(1, ents))
		case 6:
			for _, e := range ents {
				if s, ok := e["name"].(string); ok {
					e["name"] = pick("./", "/", "././", "x/../") + s
				}
			}
			return g.blobInput(b, "toc:name-prefixed", tocText(1, ents))
		default:
			ents = append(ents, E(".wh..wh..opq", "reg"), E(".wh.", "reg"), E("d/.wh..wh..opq", "dir"), E(".wh.d", "hardlink", "linkName", "d/a.txt"),
				E(".prefetch.landmark", "dir"), E(".no.prefetch.landmark", "symlink", "linkName", "x"), E("stargz.index.json", "reg", "size", num("4611686018427387904")))
			return g.blobInput(b, "toc:name-special", tocText(1, ents))
		}
	case 5: // digests
		i := r.Intn(len(ents))
		f := pick("digest", "chunkDigest")
		switch r.Intn(4) {
		case 0:
			delete(ents[i], f)
		case 1:
			ents[i][f] = pick("", "sha256:", "sha256:zz", "md5:d41d8cd98f00b204e9800998ecf8427e", "sha256:"+strings.Repeat("0", 63), "sha512:"+strings.Repeat("a", 128), ":", "x")
		case 2:
			for _, e := range ents {
				delete(e, "digest")
				delete(e, "chunkDigest")
			}
		default:
			ents[i][f] = g.advNumber()
		}
		return g.blobInput(b, "toc:digest", tocText(1, ents))
	case 6: // types
		switch r.Intn(5) {
		case 0:
			ents[r.Intn(len(ents))]["type"] = pick("foo", "", "Hardlink", "REG", "chunk", "dir", "reg", "hardlink", "symlink", "block", "fifo", "char")
			return g.blobInput(b, "toc:type-changed", tocText(1, ents))
		case 1:
			ents = append([]Ent{E("c0", "chunk", "offset", 10, "chunkOffset", 4, "chunkSize", 4)}, ents...)
			return g.blobInput(b, "toc:chunk-first", tocText(1, ents))
		case 2:
			ents = append(ents, E("dd", "dir"), E("dd", "chunk", "chunkOffset", 1, "chunkSize", g.advNumber()))
			return g.blobInput(b, "toc:chunk-after-dir", tocText(1, ents))
		case 3:
			ents[r.Intn(len(ents))]["type"] = g.advNumber()
			return g.blobInput(b, "toc:type-not-string", tocText(1, ents))
		default:
			ents = []Ent{E("only", "chunk", "chunkOffset", 0, "chunkSize", 1)}
			return g.blobInput(b, "toc:only-chunk", tocText(1, ents))
		}
	case 7: // JSON level
		raw := []string{`null`, `{}`, `[]`, `{"version":1,"entries":null}`, `{"version":1,"entries":[null]}`, `{"version":1,"entries":[null,{"name":"a","type":"reg"}]}`,
			`{"version":1,"entries":{}}`, `{"version":1,"entries":[[]]}`, `{"version":1,"entries":[1]}`, `{"version":"x","entries":[]}`, `{"version":1e99,"entries":[]}`,
			`{"entries":[{"name":"a","type":"reg","xattrs":null}]}`, `{"entries":[{"name":"a","type":"reg","xattrs":{"k":"!!"}}]}`, `{"entries":[{"name":"a","type":"reg","xattrs":{"k":null,"":""}}]}`,
			`{"entries":[{"name":"a","type":"reg","size":1,"size":-1}]}`, `{"version":1,"entries":[{"name":"a","type":"reg"}]} trailing`, `{"version":1,"entries":[{"name":"a","type":"reg"}]}{"version":1,"entries":[null]}`,
			``, ` `, `{`, `{"version":1,"entries":[`, `{"version":1,"entries":[{"name":"a"`, `"entries"`, `true`, `0`,
			strings.Repeat("[", 20000), `{"version":1,"entries":` + strings.Repeat("[", 12000) + strings.Repeat("]", 12000) + `}`,
			`{"version":1,"entries":[{"name":"a","type":"reg","modtime":"not-a-time"}]}`, `{"version":1,"entries":[{"name":"a","type":"reg","modtime":"9999-99-99T99:99:99Z","mode":-1}]}`,
			`{"entries":[{"name":"` + strings.Repeat("a", 70000) + `","type":"reg"}]}`}
		return g.blobInput(b, "toc:json-level", []byte(raw[r.Intn(len(raw))]))
	case 8: // many entries
		n := int(r.Range(500, 4000))
		for i := 0; i < n; i++ {
			ents = append(ents, E(fmt.Sprintf("m/%d/%d", i%37, i), pick("reg", "dir", "symlink"), "size", 0))
		}
		return g.blobInput(b, "toc:many-entries", tocText(1, ents))
	case 9: // everything at once: several random numeric fields
		for k := 0; k < 6; k++ {
			ents[r.Intn(len(ents))][pick("size", "offset", "chunkOffset", "chunkSize", "innerOffset")] = g.advNumber(size, 10, 4)
		}
		return g.blobInput(b, "toc:num-multi", tocText(1, ents))
	default: // valid, untouched (control)
		return g.blobInput(b, "toc:valid", tocText(1, ents))
	}
	return g.blobInput(b, "toc:valid", tocText(1, ents))
}

// Footer returns a valid blob whose footer (only) is hostile.
func (g *Gen) Footer() Input {
	r := g.R
	switch r.Pick(6, 3, 1) {
	case 0: // gzip footer of a gz blob
		b := g.Bases[0]
		body := b.Blob[:len(b.Blob)-51]
		size := int64(len(b.Blob))
		tocOff := int64(len(b.Payload))
		var off16, class string
		switch r.Intn(9) {
		case 0:
			v := []int64{0, 1, tocOff - 1, tocOff + 1, size - 52, size - 51, size - 50, size - 1, size, size + 1, size + 51, 1 << 40, 1 << 62, 1<<63 - 1}[r.Intn(14)]
			off16, class = fmt.Sprintf("%016x", v), "footer:gz-offset"
		case 1:
			off16, class = []string{"-000000000000001", "-7fffffffffffffff", "-000000000000033", "+000000000000010", "-0000000000000000"[:16], "ffffffffffffffff", "8000000000000000", "000000000000000g", "0x00000000000010", "                ", "0000_00000000010"}[r.Intn(11)], "footer:gz-offset-syntax"
		default:
			off16, class = fmt.Sprintf("%016x", tocOff+r.Range(-3, 3)), "footer:gz-offset-near"
		}
		extra := StargzExtra(off16)
		switch r.Intn(8) {
		case 0: // FEXTRA shorter than announced
			extra = append([]byte{'S', 'G', 22, 0}, []byte("0000000")[:r.Intn(8)]...)
			class = "footer:gz-short-subfield"
		case 1:
			extra[0] = 'X'
			class = "footer:gz-bad-si"
		case 2:
			extra = extra[:r.Intn(5)]
			class = "footer:gz-tiny-extra"
		case 3:
			binary.LittleEndian.PutUint16(extra[2:], uint16(r.Intn(40)))
			class = "footer:gz-slen"
		}
		f := GzipFooter(extra)
		// keep the footer at 51 bytes so that parsing proceeds: pad/cut in front
		blob := append(append([]byte{}, body...), f...)
		return Input{Class: class, Kind: "blob", Data: blob, Note: "gz"}
	case 1: // zstd footer
		b := g.Bases[1]
		body := b.Blob[:len(b.Blob)-48]
		size := uint64(len(b.Blob))
		f := b.Blob[len(b.Blob)-40:]
		off, cl, raw := binary.LittleEndian.Uint64(f), binary.LittleEndian.Uint64(f[8:]), binary.LittleEndian.Uint64(f[16:])
		huge := []uint64{0, 1, 7, 8, 9, size - 48, size - 40, size - 1, size, size + 1, 1 << 31, 1 << 32, 1 << 40, 1 << 62, 1<<63 - 1, 1 << 63, 1<<64 - 1}
		class := ""
		switch r.Intn(4) {
		case 0:
			off, class = huge[r.Intn(len(huge))], "footer:zstd-offset"
		case 1:
			cl, class = huge[r.Intn(len(huge))], "footer:zstd-compressed-length"
		case 2:
			raw, class = huge[r.Intn(len(huge))], "footer:zstd-uncompressed-length"
		default:
			off, cl, class = off+uint64(r.Range(-9, 9)), cl+uint64(r.Range(-9, 9)), "footer:zstd-near"
		}
		blob := append(append([]byte{}, body...), skippable(ZstdFooter(off, cl, raw, r.Intn(10) > 0))...)
		return Input{Class: class, Kind: "blob", Data: blob, Note: "zstd"}
	default: // external TOC: hostile TOC provider replies
		b := g.Bases[2]
		in := Input{Class: "footer:ext-toc-reply", Kind: "blob", Data: b.Blob, Note: "ext"}
		switch r.Intn(4) {
		case 0:
			in.ExtTOC = nil
		case 1:
			in.ExtTOC = r.Bytes(r.Intn(80))
		case 2:
			in.ExtTOC = b.ExtTOC[:r.Intn(len(b.ExtTOC))]
		default:
			in.ExtTOC = gzipTarMember([]byte(`{"version":1,"entries":[null]}`))
		}
		return in
	}
}

// Raw returns a blob of 0-200 arbitrary bytes (some with gzip / zstd magic in the right place).
func (g *Gen) Raw() Input {
	r := g.R
	n := r.Intn(201)
	p := r.Bytes(n)
	class := "raw:random"
	switch r.Intn(5) {
	case 0:
		if n >= 51 {
			copy(p[n-51:], []byte{0x1f, 0x8b, 8, 4})
			class = "raw:gzip-magic-51"
		}
	case 1:
		if n >= 47 {
			copy(p[n-47:], []byte{0x1f, 0x8b, 8, 4})
			class = "raw:gzip-magic-47"
		}
	case 2:
		if n >= 40 {
			copy(p[n-8:], []byte{0x47, 0x6e, 0x55, 0x6c, 0x49, 0x6e, 0x55, 0x78})
			class = "raw:zstd-magic"
		}
	case 3:
		if n >= 46 {
			copy(p[n-46:], []byte{0x1f, 0x8b, 8, 4})
			class = "raw:gzip-magic-46"
		}
	}
	return Input{Class: class, Kind: "blob", Data: p}
}

// FooterBytes returns raw bytes handed directly to the four ParseFooter functions.
func (g *Gen) FooterBytes() Input {
	r := g.R
	var p []byte
	class := "pf:random"
	switch r.Pick(3, 4, 2, 2) {
	case 0:
		p = r.Bytes([]int{0, 1, 39, 40, 41, 45, 46, 47, 50, 51, 52, 100}[r.Intn(12)])
	case 1: // gzip header with FEXTRA of every small length, total forced to a footer size
		xl := r.Intn(40)
		extra := r.Bytes(xl)
		if xl >= 4 && r.Bool() {
			copy(extra, []byte{'S', 'G'})
			binary.LittleEndian.PutUint16(extra[2:], uint16([]int{22, 17, xl - 4, r.Intn(30)}[r.Intn(4)]))
		}
		if xl >= 10 && r.Bool() {
			copy(extra[xl-6:], "STARGZ")
		}
		p = GzipFooter(extra)
		want := []int{51, 47, 46}[r.Intn(3)]
		for len(p) < want {
			p = append(p, 0)
		}
		p = p[:want]
		class = "pf:gzip-fextra"
	case 2: // well-formed footers with odd offsets
		s := []string{"0000000000000000", "7fffffffffffffff", "8000000000000000", "-000000000000001", "+000000000000001", "00000000000000zz", "ffffffffffffffff"}[r.Intn(7)]
		switch r.Intn(3) {
		case 0:
			p = GzipFooter(StargzExtra(s))
		case 1:
			p = GzipFooter(append([]byte(s), "STARGZ"...)) // legacy layout
		default:
			x := []byte{'S', 'G', 17, 0}
			p = GzipFooter(append(x, "STARGZEXTERNALTOC"...))
		}
		class = "pf:wellformed"
	default:
		p = ZstdFooter(r.Uint64(), r.Uint64(), r.Uint64(), r.Intn(4) > 0)
		if r.Intn(4) == 0 {
			p = ZstdFooter([]uint64{0, 7, 8, 1 << 63, 1<<64 - 1}[r.Intn(5)], []uint64{0, 1 << 63, 1<<64 - 1}[r.Intn(3)], 0, true)
		}
		class = "pf:zstd"
	}
	return Input{Class: class, Kind: "footer", Data: p}
}

// Truncations returns the blob cut at every length (stride > 1 for the long ones).
func (g *Gen) Truncations(b *Base, stride int) []Input {
	var out []Input
	for n := 0; n <= len(b.Blob); n += stride {
		out = append(out, Input{Class: "trunc:" + b.Comp, Kind: "blob", Data: append([]byte{}, b.Blob[:n]...), ExtTOC: b.ExtTOC, Note: b.Comp})
	}
	return out
}

// BitFlip corrupts one byte of a valid blob (decoder exploration).
func (g *Gen) BitFlip() Input {
	b := g.base()
	p := append([]byte{}, b.Blob...)
	for k := 0; k < 1+g.R.Intn(3); k++ {
		p[g.R.Intn(len(p))] ^= byte(1 << g.R.Intn(8))
	}
	return Input{Class: "flip:" + b.Comp, Kind: "blob", Data: p, ExtTOC: b.ExtTOC, Note: b.Comp}
}

// Tar returns a hostile tar for estargz.Build.
func (g *Gen) Tar() Input {
	r := g.R
	ents := baseTar()
	class := "tar:valid"
	var prio []string
	switch r.Intn(10) {
	case 0:
		ents = append(ents, tarEnt{name: "l1", typ: tar.TypeLink, link: "l2"}, tarEnt{name: "l2", typ: tar.TypeLink, link: "l1"})
		class = "tar:hardlink-cycle"
		if r.Bool() {
			prio = []string{"d/a.txt"}
			class = "tar:hardlink-cycle-unrelated-prio"
		}
	case 1:
		ents = append(ents, tarEnt{name: "m", typ: tar.TypeLink, link: "missing"})
		prio = []string{"m"}
		class = "tar:hardlink-missing-prio"
	case 2:
		ents = append(ents, tarEnt{name: "d/l", typ: tar.TypeLink, link: "d"})
		prio = []string{"d/l"}
		class = "tar:hardlink-to-dir-prio"
	case 3:
		prio = []string{[]string{"", ".", "..", "/", "missing", "d", "d/", "../d/a.txt", "d/a.txt/x", "f/g", "\x00"}[r.Intn(11)]}
		class = "tar:odd-prio"
	case 4:
		ents = append(ents, ents...)
		prio = []string{"d/a.txt", "d/a.txt", "e"}
		class = "tar:duplicates"
	case 5:
		ents = append(ents, tarEnt{name: []string{"", ".", "..", "/", "../x", "a//b", "./"}[r.Intn(7)], typ: []byte{tar.TypeReg, tar.TypeDir, tar.TypeSymlink}[r.Intn(3)]})
		class = "tar:odd-names"
	case 6:
		t := MakeTar(ents)
		return Input{Class: "tar:truncated", Kind: "tar", Data: t[:r.Intn(len(t))]}
	case 7:
		t := MakeTar(ents)
		for k := 0; k < 1+r.Intn(4); k++ {
			t[r.Intn(len(t))] ^= byte(1 << r.Intn(8))
		}
		return Input{Class: "tar:bitflip", Kind: "tar", Data: t}
	case 8:
		return Input{Class: "tar:raw", Kind: "tar", Data: r.Bytes(r.Intn(1200))}
	default:
		prio = []string{"e", "f/g/h"}
	}
	return Input{Class: class, Kind: "tar", Data: MakeTar(ents), Prio: prio}
}

// Fixed returns hand-written scenarios: the inputs of the repaired defects (each MUST now be
// rejected with an error) and a valid control per flavour.
func (g *Gen) Fixed() (out, late []Input) {
	for _, b := range g.Bases {
		out = append(out, Input{Class: "valid:" + b.Comp, Kind: "blob", MustOK: true, Data: b.Blob, ExtTOC: b.ExtTOC, Note: b.Comp})
	}
	gz := g.Bases[0]
	// well-formed layers with an entry for the root directory itself (tars made with `tar -C dir .`)
	for _, rn := range []string{"./", "/", ".", ""} {
		ents := append([]Ent{E(rn, "dir", "mode", 0o755)}, cloneEnts(gz.Entries)...)
		in := g.blobInput(gz, "scenario:root-entry:"+hexOrDash([]byte(rn)), tocText(1, ents))
		in.MustOK = true
		out = append(out, in)
	}
	body := gz.Blob[:len(gz.Blob)-51]
	// c08616d: short FEXTRA subfield, externaltoc without FEXTRA, zstd on < 40 bytes
	out = append(out,
		Input{Class: "fixed:c08616d:gz-short-fextra", Kind: "footer", MustErr: true, Data: padTo51(nil, GzipFooter([]byte{'S', 'G', 22, 0, '0', '0', '0'}))},
		Input{Class: "fixed:c08616d:gz-short-fextra-blob", Kind: "blob", MustErr: true, Data: padTo51(body, GzipFooter([]byte{'S', 'G', 22, 0, '0', '0', '0'}))},
		Input{Class: "fixed:c08616d:ext-no-fextra", Kind: "footer", MustErr: true, Data: gzipNoExtra(46)},
		Input{Class: "fixed:c08616d:zstd-short", Kind: "footer", MustErr: true, Data: []byte{}},
		Input{Class: "fixed:c08616d:zstd-short-blob", Kind: "blob", MustErr: true, Data: []byte("0123456789")},
	)
	// 588493d: TOC offset beyond the blob, hardlink cycle, hardlink to own ancestor directory
	out = append(out,
		Input{Class: "fixed:588493d:toc-offset-beyond-blob", Kind: "blob", MustErr: true, MustErrDB: true, Data: append(append([]byte{}, body...), GzipFooter(StargzExtra(fmt.Sprintf("%016x", int64(1)<<40)))...)},
		markMust(g.blobInput(gz, "fixed:588493d:hardlink-cycle", tocText(1, []Ent{E("a", "hardlink", "linkName", "b"), E("b", "hardlink", "linkName", "a")}))),
		markMust(g.blobInput(gz, "fixed:588493d:hardlink-to-parent-dir", tocText(1, []Ent{E("d/", "dir"), E("d/x", "hardlink", "linkName", "d")}))),
	)
	out[len(out)-1].MustErrDB = true // a0e1c6d: the db store refuses hardlinks to directories too
	// f3cca50: hardlink whose source is used as a directory (non-directory ancestor)
	out = append(out, markMust(g.blobInput(gz, "fixed:f3cca50:hardlink-source-with-children",
		tocText(1, []Ent{E("a", "reg"), E("a/b", "reg"), E("a/b/c", "hardlink", "linkName", "a")}))))
	// 42545b8: negative chunk size (opens fine; the read must fail with an error, not panic)
	ents := cloneEnts(gz.Entries)
	if i := entIdx(ents, "d/a.txt"); i >= 0 && i+1 < len(ents) {
		ents[i+1]["chunkSize"] = -3
	}
	// d5da172: Build with a prioritized path that reaches a hardlink cycle
	cyc := append(baseTar(), tarEnt{name: "l1", typ: tar.TypeLink, link: "l2"}, tarEnt{name: "l2", typ: tar.TypeLink, link: "l1"})
	self := append(baseTar(), tarEnt{name: "s", typ: tar.TypeLink, link: "s"})
	out = append(out,
		Input{Class: "fixed:d5da172:build-hardlink-cycle-prioritized", Kind: "tar", MustErr: true, Data: MakeTar(cyc), Prio: []string{"l1"}},
		Input{Class: "fixed:d5da172:build-hardlink-self-prioritized", Kind: "tar", MustErr: true, Data: MakeTar(self), Prio: []string{"s"}})
	// 6332cf7: chunk size that does not tile the merge buffer (passthrough merge sizes 6 and 7
	// against 4-byte chunks, see ExerciseReader)
	out = append(out, g.blobInput(gz, "fixed:6332cf7:passthrough-straddle", gz.TOCJSON))
	late = append(late, g.blobInput(gz, "fixed:42545b8:negative-chunk-size", tocText(1, ents))) // passthrough part: 95288ee
	return out, late
}

func markMust(in Input) Input { in.MustErr = true; return in }

func padTo51(body, footer []byte) []byte {
	for len(footer) < 51 {
		footer = append(footer, 0)
	}
	return append(append([]byte{}, body...), footer[:51]...)
}

// gzipNoExtra is a syntactically valid gzip header without FEXTRA, padded to n bytes.
func gzipNoExtra(n int) []byte {
	p := []byte{0x1f, 0x8b, 8, 0, 0, 0, 0, 0, 0, 255, 1, 0, 0, 0xff, 0xff, 0, 0, 0, 0, 0, 0, 0, 0}
	for len(p) < n {
		p = append(p, 0)
	}
	return p[:n]
}
