// Package verifc04 holds the crash-isolating executor, the hostile-input generators and the
// walkers of the C04 harness ("untrusted layer bytes cause errors, never a crash or a hang").
// It is injected into the repository at build time with `go build -overlay` and is imported only
// by the zz_verif_c04*_test.go files.
//
// Executor protocol.  The parent (TestVerifC04) writes a batch of inputs to a file and re-executes
// the test binary as a child (`-test.run ^TestVerifC04Child$`).  The child runs every target on
// every input and appends unbuffered text lines to the result file:
//
//	S <id>                       input started
//	T <id> <target>              target started
//	R <id> <target> <class>      target finished: ok | err | panic  (panic = recovered in the child)
//	P <id> <target> <site> <hex> details of a recovered panic
//	F <id> <sig> <hex>           property-oracle failure found by the child
//	L <id> <hexop> <hexres>      one line for the model correspondence (op, implementation answer)
//	E <id>                       input finished
//
// A child that dies (unrecovered panic in another goroutine, fatal stack overflow, out of memory,
// kill on timeout = hang) leaves `S` without `E`: that input is re-run alone to pin the culprit.
package verifc04

import (
	"bufio"
	"encoding/hex"
	"encoding/json"
	"fmt"
	"os"
	"os/exec"
	"regexp"
	"runtime/debug"
	"sort"
	"strconv"
	"strings"
	"sync"
	"sync/atomic"
	"syscall"
	"time"

	"github.com/containerd/stargz-snapshotter/internal/verifutil"
)

// Input is one hostile input handed to the child.
type Input struct {
	ID      int      `json:"id"`
	Class   string   `json:"class"`              // input class (statistics)
	Kind    string   `json:"kind"`               // footer | blob | tar | arith | range
	Data    []byte   `json:"data,omitempty"`     // footer bytes / blob / tar
	ExtTOC  []byte   `json:"ext,omitempty"`      // TOC handed out by the external-TOC provider
	Prio    []string `json:"prio,omitempty"`     // prioritized files (Build)
	Op      string   `json:"op,omitempty"`       // arithmetic op line (Kind arith)
	MustErr bool     `json:"must_err,omitempty"` // repaired defect: opening MUST fail with an error
	MustOK  bool     `json:"must_ok,omitempty"`  // well-formed input: opening must succeed
	// MustErrDB: the bolt store must reject it as well (it has its own copy of the checks)
	MustErrDB bool   `json:"must_err_db,omitempty"`
	Suspect   string `json:"suspect,omitempty"` // labelled stream of candidate findings
	Note      string `json:"note,omitempty"`
	TOC       string `json:"toc,omitempty"` // the hostile TOC JSON wrapped into Data (readable form, for reports)
}

// Rec is the child-side recorder of one input.
type Rec struct {
	id    int
	class string
	w     *os.File
	beat  time.Time
}

func (r *Rec) line(s string) { r.w.WriteString(s + "\n") }

func hx(s string) string {
	if s == "" {
		return "-"
	}
	return hex.EncodeToString([]byte(s))
}

func unhx(s string) string {
	if s == "-" {
		return ""
	}
	b, _ := hex.DecodeString(s)
	return string(b)
}

// Settle gives a worker goroutine that is dying of a panic the time to take the process down before
// the input is recorded as finished: the worker's deferred Done releases the main goroutine, which
// would otherwise run on for a moment (and the crash would be pinned on a later input).
func (r *Rec) Settle() { time.Sleep(5 * time.Millisecond) }

// Beat tells the parent that the harness is making progress inside a long target (a walk over
// thousands of entries): the hang detector looks for "no new line for StallS seconds", and a slow
// walker must not look like a hang.  Called by the harness between calls into the code under test,
// never from inside one, so a call that does not return still stalls.
func (r *Rec) Beat() {
	if now := time.Now(); now.Sub(r.beat) > 500*time.Millisecond {
		r.beat = now
		r.line(fmt.Sprintf("B %d", r.id))
	}
}

// Fail records a property-oracle failure.
func (r *Rec) Fail(sig, what string) { r.line(fmt.Sprintf("F %d %s %s", r.id, sig, hx(what))) }

// Line records one (op, implementation answer) pair for the model correspondence.
func (r *Rec) Line(op, res string) { r.line(fmt.Sprintf("L %d %s %s", r.id, hx(op), hx(res))) }

var reFrame = regexp.MustCompile(`^(github\.com/containerd/stargz-snapshotter/[^\s(]+(?:\(\*?[A-Za-z0-9_]+\))?[^\s(]*)\(`)
var reClosure = regexp.MustCompile(`(\.func\d+)+(\.\d+)*$`)

// SiteOf extracts the innermost stack frame that belongs to the repository (not to the harness:
// frames whose source file is a zz_verif* file or lives under internal/verif* are skipped).
func SiteOf(stack string) string {
	lines := strings.Split(stack, "\n")
	for i, l := range lines {
		m := reFrame.FindStringSubmatch(l)
		if m == nil {
			continue
		}
		file := ""
		if i+1 < len(lines) {
			file = lines[i+1]
		}
		if strings.Contains(file, "zz_verif") || strings.Contains(file, "/internal/verif") || strings.Contains(m[1], "/internal/verif") {
			continue
		}
		f := strings.TrimPrefix(m[1], "github.com/containerd/stargz-snapshotter/")
		if j := strings.LastIndex(f, "/"); j >= 0 {
			f = f[j+1:]
		}
		// drop closure suffixes (.func1.2) so that a refactoring of closures keeps the signature
		return reClosure.ReplaceAllString(f, "")
	}
	return "unknown"
}

// KindOf classifies a panic / fatal error message; part of the signature of a crash.
func KindOf(msg string) string {
	for _, k := range [][2]string{
		{"slice bounds out of range", "slice"}, {"index out of range", "index"},
		{"nil pointer dereference", "nil"}, {"makeslice", "makeslice"}, {"bytes.Buffer: too large", "buffer-too-large"},
		{"negative count", "negative-count"}, {"stack overflow", "stack-overflow"}, {"stack exceeds", "stack-overflow"},
		{"out of memory", "oom"}, {"cannot allocate memory", "oom"}, {"divide by zero", "div0"},
		{"concurrent map", "concurrent-map"}, {"all goroutines are asleep", "deadlock"},
	} {
		if strings.Contains(msg, k[0]) {
			return k[1]
		}
	}
	return "other"
}

// HandWritten: classes of the hand-written scenario streams.
func HandWritten(class string) bool {
	for _, p := range []string{"fixed:", "suspect:", "scenario:", "valid:"} {
		if strings.HasPrefix(class, p) {
			return true
		}
	}
	return false
}

// sigOf builds the signature of a crash or hang.  Generated inputs: kind:site:panic-kind.  The
// hand-written scenario streams (repaired defects, candidate findings) carry their class as well, so
// that a known finding of a site can never hide the regression of a repaired defect of that site.
func sigOf(kind, site, pk string, in *Input) string {
	s := kind + ":" + site
	if pk != "" {
		s += ":" + pk
	}
	if HandWritten(in.Class) {
		s += "@" + in.Class
	}
	return s
}

// OuterSiteOf is the outermost repository frame of a goroutine: the API the harness called.  Used
// for hangs, where the innermost frame is whatever leaf happened to run when the dump was taken.
func OuterSiteOf(stack string) string {
	lines := strings.Split(stack, "\n")
	res := "unknown"
	for i := range lines {
		if reFrame.MatchString(lines[i]) {
			end := i + 2
			if end > len(lines) {
				end = len(lines)
			}
			if st := SiteOf(strings.Join(lines[i:end], "\n")); st != "unknown" {
				res = st
			}
		}
	}
	return res
}

// Try runs one target with panic recovery and records its outcome class.
func (r *Rec) Try(target string, f func() error) (class string) {
	hand := HandWritten(r.class)
	if !hand && (skipTargets[target] || skipTargets[target+"|"+r.class]) {
		r.line(fmt.Sprintf("R %d %s skipped", r.id, target))
		return "skipped"
	}
	r.line(fmt.Sprintf("T %d %s", r.id, target))
	t0 := time.Now()
	defer func() {
		if os.Getenv("VERIF_C04_TIMES") != "" {
			fmt.Fprintf(os.Stderr, "TTIME %6d ms %s\n", time.Since(t0).Milliseconds(), target)
		}
		if p := recover(); p != nil {
			site := SiteOf(string(debug.Stack()))
			r.line(fmt.Sprintf("P %d %s %s %s", r.id, target, site, hx(fmt.Sprint(p))))
			r.line(fmt.Sprintf("R %d %s panic", r.id, target))
			class = "panic"
		}
	}()
	if err := f(); err != nil {
		class = "err"
	} else {
		class = "ok"
	}
	r.line(fmt.Sprintf("R %d %s %s", r.id, target, class))
	return class
}

var skipTargets = map[string]bool{}

// ChildMain is the body of TestVerifC04Child.
func ChildMain(run func(in *Input, rec *Rec)) {
	bf := os.Getenv("VERIF_C04_BATCH")
	rf := os.Getenv("VERIF_C04_RESULT")
	if bf == "" || rf == "" {
		return // not a child invocation
	}
	// Limits: a huge allocation or an unbounded recursion must kill the child quickly.
	if v := verifutil.EnvInt("VERIF_C04_AS_MB", 4096); v > 0 {
		lim := syscall.Rlimit{Cur: uint64(v) << 20, Max: uint64(v) << 20}
		syscall.Setrlimit(syscall.RLIMIT_AS, &lim)
	}
	debug.SetMaxStack(verifutil.EnvInt("VERIF_C04_STACK_MB", 64) << 20)
	for _, t := range strings.Split(os.Getenv("VERIF_C04_SKIP"), ",") {
		if t != "" {
			skipTargets[t] = true
		}
	}
	b, err := os.ReadFile(bf)
	if err != nil {
		panic(err)
	}
	var ins []Input
	if err := json.Unmarshal(b, &ins); err != nil {
		panic(err)
	}
	w, err := os.OpenFile(rf, os.O_CREATE|os.O_WRONLY|os.O_APPEND, 0o644)
	if err != nil {
		panic(err)
	}
	defer w.Close()
	for i := range ins {
		rec := &Rec{id: ins[i].ID, class: ins[i].Class, w: w}
		rec.line(fmt.Sprintf("S %d", ins[i].ID))
		t0 := time.Now()
		run(&ins[i], rec)
		rec.line(fmt.Sprintf("E %d %d", ins[i].ID, time.Since(t0).Milliseconds()))
	}
}

// ---------------------------------------------------------------------------------------------
// parent side

type childRes struct {
	results map[int][][2]string // id -> (target, class)
	panics  map[int][][3]string // id -> (target, site, msg)
	fails   map[int][][2]string
	lines   map[int][][2]string
	ended   map[int]bool
	started []int
	lastTgt map[int]string
	ms      map[int]int
}

func parseResults(path string) *childRes {
	cr := &childRes{results: map[int][][2]string{}, panics: map[int][][3]string{}, fails: map[int][][2]string{},
		lines: map[int][][2]string{}, ended: map[int]bool{}, lastTgt: map[int]string{}, ms: map[int]int{}}
	f, err := os.Open(path)
	if err != nil {
		return cr
	}
	defer f.Close()
	sc := bufio.NewScanner(f)
	sc.Buffer(make([]byte, 1<<20), 64<<20)
	for sc.Scan() {
		w := strings.Fields(sc.Text())
		if len(w) < 2 {
			continue
		}
		id, err := strconv.Atoi(w[1])
		if err != nil {
			continue
		}
		switch {
		case w[0] == "S":
			cr.started = append(cr.started, id)
		case w[0] == "E":
			cr.ended[id] = true
			if len(w) > 2 {
				cr.ms[id], _ = strconv.Atoi(w[2])
			}
		case w[0] == "T" && len(w) == 3:
			cr.lastTgt[id] = w[2]
		case w[0] == "R" && len(w) == 4:
			cr.results[id] = append(cr.results[id], [2]string{w[2], w[3]})
		case w[0] == "P" && len(w) == 5:
			cr.panics[id] = append(cr.panics[id], [3]string{w[2], w[3], unhx(w[4])})
		case w[0] == "F" && len(w) == 4:
			cr.fails[id] = append(cr.fails[id], [2]string{w[2], unhx(w[3])})
		case w[0] == "L" && len(w) == 4:
			cr.lines[id] = append(cr.lines[id], [2]string{unhx(w[2]), unhx(w[3])})
		}
	}
	return cr
}

// Config of the parent runner.
type Config struct {
	Batch       int
	StallS      int // a child that records no progress (no new result line) for this long hangs
	MaxHangs    int // after this many confirmed hangs of one target the target is skipped (and reported as skipped)
	Par         int // children running in parallel
	WorkDir     string
	ChildTest   string
	ExtraEnv    []string
	KeepCrashes int // max number of crash/hang reports with full stderr
}

func DefaultConfig() Config {
	return Config{
		Batch:     verifutil.EnvInt("VERIF_C04_BATCH_N", 60),
		StallS:    verifutil.EnvInt("VERIF_C04_HANG_S", 8),
		MaxHangs:  verifutil.EnvInt("VERIF_C04_MAX_HANGS", 2),
		Par:       verifutil.EnvInt("VERIF_C04_PAR", 6),
		ChildTest: "TestVerifC04Child",
	}
}

type died struct {
	how    string // exit | timeout
	stderr string
}

var childSeq atomic.Int64

func runChild(cfg Config, ins []Input, stall time.Duration, skip []string) (*childRes, *died) {
	base := fmt.Sprintf("%s/c04-%d-%d", cfg.WorkDir, os.Getpid(), childSeq.Add(1))
	bf, rf, ef := base+".batch", base+".res", base+".err"
	defer func() { os.Remove(bf); os.Remove(rf); os.Remove(ef) }()
	b, _ := json.Marshal(ins)
	if err := os.WriteFile(bf, b, 0o644); err != nil {
		panic(err)
	}
	errf, err := os.Create(ef)
	if err != nil {
		panic(err)
	}
	cmd := exec.Command(os.Args[0], "-test.run", "^"+cfg.ChildTest+"$", "-test.count=1", "-test.timeout=0")
	cmd.Env = append(os.Environ(), "VERIF_C04_BATCH="+bf, "VERIF_C04_RESULT="+rf, "GOMEMLIMIT=2GiB", "GOTRACEBACK=single",
		"VERIF_C04_SKIP="+strings.Join(skip, ","))
	cmd.Env = append(cmd.Env, cfg.ExtraEnv...)
	cmd.Stdout = errf
	cmd.Stderr = errf
	if os.Getenv("VERIF_C04_TIMES") != "" {
		cmd.Stderr = os.Stderr
	}
	cmd.Dir = cfg.WorkDir
	if err := cmd.Start(); err != nil {
		panic(err)
	}
	done := make(chan error, 1)
	go func() { done <- cmd.Wait() }()
	var d *died
	lastSize, lastChange := int64(-1), time.Now()
	tick := time.NewTicker(100 * time.Millisecond)
	defer tick.Stop()
wait:
	for {
		select {
		case err := <-done:
			if err != nil {
				d = &died{how: "exit"}
			}
			break wait
		case <-tick.C:
			if st, err := os.Stat(rf); err == nil && st.Size() != lastSize {
				lastSize, lastChange = st.Size(), time.Now()
			}
			if time.Since(lastChange) < stall {
				continue
			}
			// no progress: ask the Go runtime for the goroutine dump, then kill
			cmd.Process.Signal(syscall.SIGQUIT)
			select {
			case <-done:
			case <-time.After(10 * time.Second):
				cmd.Process.Kill()
				<-done
			}
			d = &died{how: "timeout"}
			break wait
		}
	}
	errf.Close()
	if d != nil {
		if st, err := os.Stat(ef); err == nil && st.Size() > 0 {
			f, _ := os.Open(ef)
			buf := make([]byte, 1<<20)
			n, _ := f.Read(buf)
			d.stderr = string(buf[:n])
			if st.Size() > int64(n) { // keep the tail too (bottom of a deep stack)
				tail := make([]byte, 64<<10)
				m, _ := f.ReadAt(tail, st.Size()-int64(len(tail)))
				d.stderr += "\n...\n" + string(tail[:m])
			}
			f.Close()
		}
	}
	return parseResults(rf), d
}

var reMalloc = regexp.MustCompile(`runtime\.mallocgc\(0x([0-9a-f]+),`)
var reGoroutine = regexp.MustCompile(`(?m)^goroutine \d+(?: gp=\S+ m=\S+(?: mp=\S+)?)? \[([^\]]*)\]:$`)

// classifyDeath turns the stderr of a dead child into (kind, site).
func classifyDeath(d *died) (kind, site, head string) {
	s := d.stderr
	if d.how == "timeout" {
		kind = "hang"
		// the goroutine dump: prefer a running/runnable goroutine that is inside the repository
		blocks := strings.Split(s, "\n\n")
		best := ""
		for _, b := range blocks {
			m := reGoroutine.FindStringSubmatch(b)
			if m == nil {
				continue
			}
			st := SiteOf(b)
			if st == "unknown" {
				continue
			}
			if strings.HasPrefix(m[1], "running") || strings.HasPrefix(m[1], "runnable") {
				return kind, OuterSiteOf(b), firstLines(b, 16)
			}
			if best == "" && strings.Contains(b, "erifC04Child") {
				best = b
			}
		}
		if best != "" {
			return kind, OuterSiteOf(best), firstLines(best, 16)
		}
		return kind, "unknown", firstLines(s, 12)
	}
	kind = "crash"
	idx := -1
	for _, key := range []string{"fatal error: ", "panic: ", "runtime: goroutine stack exceeds", "signal: killed"} {
		if i := strings.Index(s, key); i >= 0 && (idx < 0 || i < idx) {
			idx = i
		}
	}
	if idx < 0 {
		return kind, "unknown", firstLines(s, 12)
	}
	rest := s[idx:]
	if strings.HasPrefix(rest, "fatal error: out of memory") || strings.Contains(firstLines(rest, 3), "pthread_create failed") ||
		strings.Contains(firstLines(rest, 3), "cannot allocate memory") {
		// Out of memory.  When the failing allocation itself is huge its frame is the culprit;
		// otherwise memory ran out wherever the next small allocation happened: name no frame.
		if m := reMalloc.FindStringSubmatch(rest); m != nil {
			if n, err := strconv.ParseUint(m[1], 16, 64); err == nil && n >= 256<<20 {
				return "crash", SiteOf(rest), firstLines(rest, 14)
			}
		}
		return "oom", "", firstLines(rest, 14)
	}
	if strings.Contains(rest, "stack overflow") || strings.Contains(rest, "goroutine stack exceeds") {
		// the innermost frame is accidental: name the function that recurses
		return kind, recursingSite(rest), firstLines(rest, 14)
	}
	// first goroutine block after the message is the crashing one
	return kind, SiteOf(rest), firstLines(rest, 14)
}

// recursingSite returns the repository function that occurs most often in the (elided) trace.
func recursingSite(stack string) string {
	lines := strings.Split(stack, "\n")
	cnt := map[string]int{}
	for i := range lines {
		if reFrame.MatchString(lines[i]) {
			end := i + 2
			if end > len(lines) {
				end = len(lines)
			}
			if st := SiteOf(strings.Join(lines[i:end], "\n")); st != "unknown" {
				cnt[st]++
			}
		}
	}
	best, bn := "unknown", 0
	for k, v := range cnt {
		if v > bn || (v == bn && k < best) {
			best, bn = k, v
		}
	}
	return best
}

func firstLines(s string, n int) string {
	l := strings.SplitN(s, "\n", n+1)
	if len(l) > n {
		l = l[:n]
	}
	return strings.Join(l, "\n")
}

// Summary of one parent run.
type Summary struct {
	Inputs  int
	Crashes int
	Hangs   int
}

func hexOf(b []byte, max int) string {
	if len(b) > max {
		return hex.EncodeToString(b[:max]) + fmt.Sprintf("...(%d bytes)", len(b))
	}
	return hex.EncodeToString(b)
}

func describe(in *Input) string {
	s := fmt.Sprintf("input class=%s kind=%s", in.Class, in.Kind)
	if in.Op != "" {
		s += " op=" + in.Op
	}
	if in.Note != "" {
		s += " note=" + in.Note
	}
	if len(in.Prio) > 0 {
		s += fmt.Sprintf(" prio=%q", in.Prio)
	}
	if in.TOC != "" {
		t := in.TOC
		if len(t) > 1600 {
			t = t[:1600] + fmt.Sprintf("...(%d bytes)", len(in.TOC))
		}
		s += " toc=" + t
	}
	if len(in.Data) > 0 {
		s += " data=" + hexOf(in.Data, 6000)
	}
	if len(in.ExtTOC) > 0 {
		s += " exttoc=" + hexOf(in.ExtTOC, 600)
	}
	return s
}

// deathRep is the recorded death of the child on one input.
type deathRep struct {
	how, kind, site, head, tgt string
	confirmed                  bool
}

// inRes is everything recorded about one input (filled by the workers, emitted in input order).
type inRes struct {
	results [][2]string
	panics  [][3]string
	fails   [][2]string
	lines   [][2]string
	ms      int
	death   *deathRep
	extra   []string // extra failures: (sig, what) pairs flattened
}

// Run executes all inputs in crash-isolated batches (several children in parallel) and reports
// into out in input order, so that the streams are a function of the seed only.
func Run(out *verifutil.Out, inputs []Input, cfg Config) Summary {
	var sum Summary
	if cfg.WorkDir == "" {
		d, err := os.MkdirTemp("", "verifc04")
		if err != nil {
			panic(err)
		}
		defer os.RemoveAll(d)
		cfg.WorkDir = d
	}
	if only := os.Getenv("VERIF_C04_ONLY"); only != "" {
		var keep []Input
		for _, in := range inputs {
			if strings.Contains(in.Class, only) {
				keep = append(keep, in)
			}
		}
		inputs = keep
	}
	for i := range inputs {
		inputs[i].ID = i
	}
	sum.Inputs = len(inputs)
	res := make([]inRes, len(inputs))
	var mu sync.Mutex // guards res, hangs, skipped, outside
	hangs := map[string]int{}
	skipped := map[string]bool{}
	var outside []string
	skipList := func() []string {
		mu.Lock()
		defer mu.Unlock()
		var l []string
		for t := range skipped {
			l = append(l, t)
		}
		sort.Strings(l)
		return l
	}
	store := func(cr *childRes, ids []int) {
		mu.Lock()
		defer mu.Unlock()
		for _, id := range ids {
			r := &res[id]
			r.results, r.panics, r.fails, r.lines, r.ms = cr.results[id], cr.panics[id], cr.fails[id], cr.lines[id], cr.ms[id]
		}
	}
	storeDeath := func(id int, cr *childRes, d *died, confirmed bool) {
		kind, site, head := classifyDeath(d)
		mu.Lock()
		defer mu.Unlock()
		res[id].death = &deathRep{how: d.how, kind: kind, site: site, head: head, tgt: cr.lastTgt[id], confirmed: confirmed}
	}
	// one batch, including the handling of a dying child
	runBatch := func(ids []int) {
		pending := ids
		for len(pending) > 0 {
			n := len(pending)
			cur := pending
			batch := make([]Input, n)
			for i, id := range cur {
				batch[i] = inputs[id]
			}
			cr, d := runChild(cfg, batch, time.Duration(cfg.StallS)*time.Second, skipList())
			var doneIDs []int
			for _, id := range cur {
				if cr.ended[id] {
					doneIDs = append(doneIDs, id)
				}
			}
			if d == nil && len(doneIDs) == n {
				store(cr, doneIDs)
				return
			}
			if d == nil {
				d = &died{how: "exit"}
			}
			// The child died.  The input that was started but not ended is the first suspect.  A
			// panic in a goroutine the input started (errgroup worker) races with the main goroutine,
			// which may be released by the worker's deferred Done and finish the input (even start
			// the next ones) before the runtime kills the process: the inputs that ended last are
			// suspects too.  Each suspect is run again alone; what it does alone is what is recorded.
			culprit, k := -1, -1
			for i, id := range cur {
				if !cr.ended[id] {
					for _, st := range cr.started {
						if st == id {
							culprit, k = id, i
						}
					}
					break
				}
			}
			var suspects []int
			clean := doneIDs
			if d.how == "exit" && len(doneIDs) > 0 {
				nsus := 6
				if nsus > len(doneIDs) {
					nsus = len(doneIDs)
				}
				suspects = append(suspects, doneIDs[len(doneIDs)-nsus:]...)
				clean = doneIDs[:len(doneIDs)-nsus]
			}
			if culprit >= 0 {
				suspects = append(suspects, culprit)
			}
			store(cr, clean)
			anyDied := false
			for _, sid := range suspects {
				in := &inputs[sid]
				cr2, d2 := runChild(cfg, []Input{*in}, 2*time.Duration(cfg.StallS)*time.Second, skipList())
				store(cr2, []int{sid}) // also what the targets before a fatal one answered
				if d2 == nil {
					continue
				}
				anyDied = true
				storeDeath(sid, cr2, d2, true)
				if d2.how == "timeout" {
					// A hang costs StallS*3 seconds.  The same target is not run again on inputs
					// of the same class, and after MaxHangs hangs not at all (the gates open/mem/db
					// are never switched off as a whole).  What was skipped is counted in the
					// statistics; every hang that was seen is a reported violation.
					t := cr2.lastTgt[sid]
					mu.Lock()
					hangs[t]++
					skipped[t+"|"+in.Class] = true
					if hangs[t] >= cfg.MaxHangs && t != "open" && t != "mem" && t != "db" {
						skipped[t] = true
					}
					mu.Unlock()
				}
			}
			if !anyDied && d.how == "exit" {
				// died in the batch, nobody dies alone: still a crash, pinned on the batch position
				if culprit >= 0 {
					storeDeath(culprit, cr, d, false)
				} else {
					mu.Lock()
					outside = append(outside, firstLines(d.stderr, 20))
					mu.Unlock()
				}
			}
			switch {
			case culprit >= 0:
				pending = cur[k+1:]
			case len(doneIDs) > 0 && len(doneIDs) < n:
				pending = cur[len(doneIDs):]
			default:
				if len(doneIDs) == 0 {
					mu.Lock()
					outside = append(outside, "child died before the first input: "+firstLines(d.stderr, 20))
					mu.Unlock()
				}
				return
			}
		}
	}
	// feed the batches to the workers
	par := cfg.Par
	if par < 1 {
		par = 1
	}
	ch := make(chan []int)
	var wg sync.WaitGroup
	for w := 0; w < par; w++ {
		wg.Add(1)
		go func() {
			defer wg.Done()
			for ids := range ch {
				runBatch(ids)
			}
		}()
	}
	// hand-written scenarios: one child each (they are never skipped and several of them are
	// expected to hang on a tree with open findings; alone they cost no one else time)
	var rest []int
	for id := range inputs {
		if HandWritten(inputs[id].Class) {
			ch <- []int{id}
		} else {
			rest = append(rest, id)
		}
	}
	for i := 0; i < len(rest); i += cfg.Batch {
		j := i + cfg.Batch
		if j > len(rest) {
			j = len(rest)
		}
		ch <- rest[i:j]
	}
	close(ch)
	wg.Wait()

	// emit in input order
	timeByClass := map[string]int{}
	for id := range inputs {
		in := &inputs[id]
		r := &res[id]
		out.Count("in:" + in.Class)
		out.Count("kind:" + in.Kind)
		timeByClass[in.Class] += r.ms
		for _, x := range r.results {
			cl := x[1]
			if cl == "panic" {
				cl = "crash"
			}
			out.Count("out:" + x[0] + ":" + cl)
			out.Count("outcome:" + cl)
		}
		for _, p := range r.panics {
			sum.Crashes++
			out.Fail(sigOf("crash", p[1], KindOf(p[2]), in), fmt.Sprintf("panic in target %s: %s; %s", p[0], p[2], describe(in)))
		}
		for _, f := range r.fails {
			fs := f[0]
			if HandWritten(in.Class) {
				fs += "@" + in.Class
			}
			out.Fail(fs, f[1]+"; "+describe(in))
		}
		for _, l := range r.lines {
			out.Emit(l[0], l[1])
		}
		if in.MustErr {
			for _, x := range r.results {
				if (x[0] == "open" || x[0] == "mem" || x[0] == "build.prio" || strings.HasPrefix(x[0], "footer") ||
					(x[0] == "db" && in.MustErrDB)) && x[1] == "ok" {
					out.Fail("repaired-input-accepted:"+in.Class, fmt.Sprintf("target %s accepted an input that must be rejected; %s", x[0], describe(in)))
				}
			}
		}
		if in.MustOK {
			for _, x := range r.results {
				if (x[0] == "open" || x[0] == "mem" || x[0] == "db") && x[1] == "err" {
					out.Fail("valid-input-rejected:"+in.Class, fmt.Sprintf("target %s rejected a well-formed input; %s", x[0], describe(in)))
				}
			}
		}
		if d := r.death; d != nil {
			if d.kind == "hang" {
				sum.Hangs++
			} else {
				sum.Crashes++
			}
			out.Count("out:" + d.tgt + ":crash")
			out.Count("outcome:crash")
			site := d.site
			if site == "unknown" {
				site = "in-" + d.tgt
			}
			pk := ""
			if d.kind == "crash" {
				pk = KindOf(d.head)
			}
			sig := sigOf(d.kind, site, pk, in)
			if d.kind == "oom" || d.kind == "hang" {
				// where the dump was taken (hang) or the allocation failed (oom) is accidental: the
				// signature names the target, the message keeps the stack
				sig = sigOf(d.kind, d.tgt, "", in)
			}
			note := ""
			if !d.confirmed {
				note = " [the child died while this input was in flight but none of the last inputs dies when run alone: the culprit is one of the inputs just before it]"
			}
			out.Fail(sig, fmt.Sprintf("child process died (%s) in target %s%s: %s ; %s", d.how, d.tgt, note, d.head, describe(in)))
		}
		// distinct: (class, outcome vector)
		var ov []string
		for _, x := range r.results {
			ov = append(ov, x[0]+"="+x[1])
		}
		sort.Strings(ov)
		out.Distinct(in.Class + "|" + strings.Join(ov, ","))
	}
	for _, o := range outside {
		out.Fail("crash:child-outside-input", "child died outside of any input: "+o)
	}
	var sk []string
	for t := range skipped {
		sk = append(sk, t)
	}
	sort.Strings(sk)
	for _, t := range sk {
		out.Count("skipped-after-hang:" + t)
	}
	if os.Getenv("VERIF_C04_TIMES") != "" {
		for k, v := range timeByClass {
			fmt.Fprintf(os.Stderr, "TIME %8d ms %s\n", v, k)
		}
	}
	return sum
}
