//go:build verif

// Package verifc01 is the shared core of the C01 harnesses (verified layers never return bytes
// that do not match the TOC-pinned digests).  It builds eStargz blobs with the real builder,
// derives altered views of them, serves them through a switchable corrupting blob source and
// drives a verifiable reader (reached through the small VR interface so that the in-package
// harness of fs/reader and the harness of the db metadata store share one implementation).
// It never imports fs/reader or fs/layer.
package verifc01

import (
	"archive/tar"
	"bytes"
	"compress/gzip"
	"crypto/sha256"
	"encoding/binary"
	"encoding/hex"
	"encoding/json"
	"fmt"
	"io"
	"os"
	"path/filepath"
	"sort"
	"strconv"
	"strings"
	"sync"
	"syscall"
	"time"

	"github.com/containerd/stargz-snapshotter/cache"
	"github.com/containerd/stargz-snapshotter/estargz"
	"github.com/containerd/stargz-snapshotter/estargz/externaltoc"
	"github.com/containerd/stargz-snapshotter/estargz/zstdchunked"
	"github.com/containerd/stargz-snapshotter/internal/verifutil"
	"github.com/containerd/stargz-snapshotter/metadata"
	tutil "github.com/containerd/stargz-snapshotter/util/testutil"
	"github.com/klauspost/compress/zstd"
	digest "github.com/opencontainers/go-digest"
)

// ---------------------------------------------------------------------------------------------
// blobs

// FileSpec is one regular file of the source tar.
type FileSpec struct {
	Name string
	Data []byte
}

// Blob is an eStargz blob built by the real builder plus what the harness knows about it.
type Blob struct {
	Comp      string // gzip | zstd | ext
	ChunkSize int
	MinChunk  int
	Files     []FileSpec
	B0        []byte        // the pristine blob
	Ext0      []byte        // the pristine external TOC (Comp == ext)
	D0        digest.Digest // TOC digest reported by the builder
	// layout, from the pristine TOC
	TocOff  int64 // end of the payload = where WriteTOCAndFooter starts writing
	Streams []Stream
	Toc     *estargz.JTOC
}

// Stream is one compressed stream (gzip member / zstd frame) of the payload.
type Stream struct {
	Off, End int64
	Ents     []*estargz.TOCEntry // data entries (reg with size>0 / chunk) stored in it
}

type compression struct {
	estargz.Compressor
	estargz.Decompressor
}

func compressor(comp string) estargz.Compressor {
	switch comp {
	case "zstd":
		return &zstdchunked.Compressor{CompressionLevel: zstd.SpeedFastest}
	case "ext":
		return externaltoc.NewGzipCompressorWithLevel(gzip.BestSpeed)
	default:
		return estargz.NewGzipCompressorWithLevel(gzip.BestSpeed)
	}
}

// Decompressor returns a fresh decompressor; ext supplies the external TOC (Comp == ext).
func (b *Blob) Decompressor(ext func() []byte) metadata.Decompressor {
	switch b.Comp {
	case "zstd":
		return &zstdchunked.Decompressor{}
	case "ext":
		return externaltoc.NewGzipDecompressor(func() ([]byte, error) {
			p := ext()
			if p == nil {
				return nil, fmt.Errorf("no external TOC")
			}
			return p, nil
		})
	default:
		return &estargz.GzipDecompressor{}
	}
}

// BuildBlob builds a blob with the real builder.
func BuildBlob(comp string, chunkSize, minChunk int, files []FileSpec) (*Blob, error) {
	var ents []tutil.TarEntry
	dirs := map[string]bool{}
	for _, f := range files {
		if d := filepath.Dir(f.Name); d != "." && !dirs[d] {
			dirs[d] = true
			ents = append(ents, tutil.Dir(d+"/"))
		}
		ents = append(ents, tutil.File(f.Name, string(f.Data)))
	}
	c := compressor(comp)
	b := &Blob{Comp: comp, ChunkSize: chunkSize, MinChunk: minChunk, Files: files}
	sr, dgst, err := tutil.BuildEStargz(ents, tutil.WithEStargzOptions(
		estargz.WithChunkSize(chunkSize), estargz.WithMinChunkSize(minChunk),
		estargz.WithCompression(compression{c, b.Decompressor(func() []byte { return nil })})))
	if err != nil {
		return nil, err
	}
	b0, err := io.ReadAll(sr)
	if err != nil {
		return nil, err
	}
	b.B0, b.D0 = b0, dgst
	if comp == "ext" {
		buf := new(bytes.Buffer)
		if _, err := c.(*externaltoc.GzipCompressor).WriteTOCTo(buf); err != nil {
			return nil, err
		}
		b.Ext0 = buf.Bytes()
	}
	if err := b.parseLayout(); err != nil {
		return nil, err
	}
	return b, nil
}

// parseTOC parses the TOC of a blob view with the real decompressor (decoders are trusted).
func (b *Blob) parseTOC(blob, ext []byte) (toc *estargz.JTOC, tocOff int64, err error) {
	d := b.Decompressor(func() []byte { return ext })
	fs := d.FooterSize()
	if int64(len(blob)) < fs {
		return nil, 0, fmt.Errorf("short blob")
	}
	_, tocOff, tocSize, err := d.ParseFooter(blob[int64(len(blob))-fs:])
	if err != nil {
		return nil, 0, err
	}
	if tocOff < 0 {
		toc, _, err = d.ParseTOC(nil)
		return toc, int64(len(blob)) - fs, err
	}
	payloadEnd := tocOff
	if b.Comp == "zstd" {
		payloadEnd = tocOff - 8 // the TOC frame is wrapped in a skippable frame (8 bytes header)
	}
	if tocSize <= 0 {
		tocSize = int64(len(blob)) - tocOff - fs
	}
	if tocOff > int64(len(blob)) || tocOff+tocSize > int64(len(blob)) || tocSize < 0 {
		return nil, 0, fmt.Errorf("toc out of range")
	}
	toc, _, err = d.ParseTOC(bytes.NewReader(blob[tocOff : tocOff+tocSize]))
	return toc, payloadEnd, err
}

func (b *Blob) parseLayout() error {
	toc, tocOff, err := b.parseTOC(b.B0, b.Ext0)
	if err != nil {
		return fmt.Errorf("pristine TOC: %w", err)
	}
	b.Toc, b.TocOff = toc, tocOff
	offs := map[int64]bool{}
	for _, e := range toc.Entries {
		offs[e.Offset] = true
	}
	var sorted []int64
	for o := range offs {
		sorted = append(sorted, o)
	}
	sort.Slice(sorted, func(i, j int) bool { return sorted[i] < sorted[j] })
	idx := map[int64]int{}
	for i, o := range sorted {
		end := tocOff
		if i+1 < len(sorted) {
			end = sorted[i+1]
		}
		idx[o] = len(b.Streams)
		b.Streams = append(b.Streams, Stream{Off: o, End: end})
	}
	for _, e := range toc.Entries {
		if (e.Type == "reg" && e.Size > 0) || e.Type == "chunk" {
			s := &b.Streams[idx[e.Offset]]
			s.Ents = append(s.Ents, e)
		}
	}
	return nil
}

// DataStreams returns the indices of the streams holding file data.
func (b *Blob) DataStreams() (res []int) {
	for i, s := range b.Streams {
		if len(s.Ents) > 0 {
			res = append(res, i)
		}
	}
	return
}

// ---------------------------------------------------------------------------------------------
// alterations

// View is what the adversary serves: the blob bytes and (ext) the external TOC.
type View struct {
	Blob []byte
	Ext  []byte
	Kind string // pristine | bitflip | bitflip-any | truncate | swap | replace | toc-* | forge | ext-*
	// Forged holds, for "replace"/"forge", the new payload of the chunk (name, chunkOffset).
	Forged map[string][]byte
	// TocDigest is the digest the (real) compressor reported for a re-serialised TOC ("" otherwise).
	TocDigest digest.Digest
}

func chunkKey(name string, chunkOff int64) string { return name + "@" + strconv.FormatInt(chunkOff, 10) }

func (b *Blob) Pristine() *View { return &View{Blob: b.B0, Ext: b.Ext0, Kind: "pristine"} }

func clone(p []byte) []byte { return append([]byte(nil), p...) }

// decompressStream returns the plain bytes of stream s of the pristine blob.
func (b *Blob) decompressStream(s Stream) ([]byte, error) {
	d := b.Decompressor(func() []byte { return b.Ext0 })
	var r io.Reader = bytes.NewReader(b.B0[s.Off:s.End])
	if b.Comp != "zstd" {
		zr, err := gzip.NewReader(r)
		if err != nil {
			return nil, err
		}
		zr.Multistream(false)
		return io.ReadAll(zr)
	}
	rc, err := d.Reader(r)
	if err != nil {
		return nil, err
	}
	defer rc.Close()
	return io.ReadAll(rc)
}

func (b *Blob) compress(p []byte) ([]byte, error) {
	buf := new(bytes.Buffer)
	w, err := compressor(b.Comp).Writer(buf)
	if err != nil {
		return nil, err
	}
	if _, err := w.Write(p); err != nil {
		return nil, err
	}
	if err := w.Close(); err != nil {
		return nil, err
	}
	return buf.Bytes(), nil
}

func entChunkSize(e *estargz.TOCEntry, fileSize int64) int64 {
	if e.ChunkSize > 0 {
		return e.ChunkSize
	}
	return fileSize - e.ChunkOffset
}

func (b *Blob) fileSize(name string) int64 {
	for _, e := range b.Toc.Entries {
		if e.Name == name && e.Type == "reg" {
			return e.Size
		}
	}
	return 0
}

// replaceMember builds a validly compressed stream with a different payload for one chunk of
// stream si, of exactly the compressed length of the original when possible (else shorter and
// zero padded).  Returns the new blob, the entry and the new payload of the chunk.
func (b *Blob) replaceMember(rnd *verifutil.Rand, si int) ([]byte, *estargz.TOCEntry, []byte, bool) {
	s := b.Streams[si]
	plain, err := b.decompressStream(s)
	if err != nil || len(s.Ents) == 0 {
		return nil, nil, nil, false
	}
	e := s.Ents[rnd.Intn(len(s.Ents))]
	csz := entChunkSize(e, b.fileSize(e.Name))
	if csz <= 0 || e.InnerOffset+csz > int64(len(plain)) {
		return nil, nil, nil, false
	}
	var best []byte
	var bestPayload []byte
	for try := 0; try < 120; try++ {
		p := clone(plain)
		region := p[e.InnerOffset : e.InnerOffset+csz]
		pos := rnd.Intn(len(region))
		switch try % 3 {
		case 0:
			region[pos] ^= byte(1 + rnd.Intn(255))
		case 1: // swap two bytes (keeps the byte histogram)
			q := rnd.Intn(len(region))
			if region[pos] == region[q] {
				continue
			}
			region[pos], region[q] = region[q], region[pos]
		default:
			region[pos] = byte('a' + rnd.Intn(26))
		}
		if bytes.Equal(p, plain) {
			continue
		}
		m, err := b.compress(p)
		if err != nil {
			continue
		}
		if int64(len(m)) == s.End-s.Off {
			best, bestPayload = m, clone(region)
			break
		}
		if int64(len(m)) < s.End-s.Off && best == nil {
			best, bestPayload = m, clone(region)
		}
	}
	if best == nil {
		return nil, nil, nil, false
	}
	nb := clone(b.B0)
	for i := s.Off; i < s.End; i++ {
		nb[i] = 0
	}
	copy(nb[s.Off:], best)
	return nb, e, bestPayload, true
}

// reserialise writes toc with the real compressor after the payload of `blob`.
func (b *Blob) reserialise(blob []byte, toc *estargz.JTOC) (nb, ext []byte, dg digest.Digest, err error) {
	c := compressor(b.Comp)
	buf := new(bytes.Buffer)
	off := b.TocOff
	dg, err = c.WriteTOCAndFooter(buf, off, toc, nil)
	if err != nil {
		return nil, nil, "", err
	}
	nb = append(clone(blob[:b.TocOff]), buf.Bytes()...)
	if b.Comp == "ext" {
		eb := new(bytes.Buffer)
		if _, err := c.(*externaltoc.GzipCompressor).WriteTOCTo(eb); err != nil {
			return nil, nil, "", err
		}
		ext = eb.Bytes()
	}
	return nb, ext, dg, nil
}

func cloneTOC(t *estargz.JTOC) *estargz.JTOC {
	raw, _ := json.Marshal(t)
	n := new(estargz.JTOC)
	_ = json.Unmarshal(raw, n)
	return n
}

var AlterKinds = []string{"bitflip", "bitflip-any", "truncate", "swap", "replace", "toc-digest", "toc-nodigest", "nodigest-replace",
	"toc-size", "toc-offset", "toc-same", "forge", "ext-bitflip", "toc-trailing"}

// Alter derives an altered view of kind k (at a PRNG position).  ok=false: not applicable.
func (b *Blob) Alter(rnd *verifutil.Rand, k string) (*View, bool) {
	v := &View{Blob: b.B0, Ext: b.Ext0, Kind: k, Forged: map[string][]byte{}}
	ds := b.DataStreams()
	if len(ds) == 0 {
		return nil, false
	}
	dataEnts := func() (res []*estargz.TOCEntry) {
		for _, e := range b.Toc.Entries {
			if (e.Type == "reg" && e.Size > 0) || e.Type == "chunk" {
				res = append(res, e)
			}
		}
		return
	}
	switch k {
	case "bitflip": // one bit in the compressed range of a chunk
		s := b.Streams[ds[rnd.Intn(len(ds))]]
		nb := clone(b.B0)
		pos := s.Off + int64(rnd.Intn(int(s.End-s.Off)))
		nb[pos] ^= 1 << uint(rnd.Intn(8))
		v.Blob = nb
	case "bitflip-any": // one bit anywhere (payload, tar headers, TOC, footer)
		nb := clone(b.B0)
		pos := rnd.Intn(len(nb))
		nb[pos] ^= 1 << uint(rnd.Intn(8))
		v.Blob = nb
	case "truncate":
		v.Blob = clone(b.B0[:rnd.Intn(len(b.B0))])
	case "swap":
		if len(ds) < 2 {
			return nil, false
		}
		i := rnd.Intn(len(ds))
		j := rnd.Intn(len(ds) - 1)
		if j >= i {
			j++
		}
		if i > j {
			i, j = j, i
		}
		a, c := b.Streams[ds[i]], b.Streams[ds[j]]
		nb := make([]byte, 0, len(b.B0))
		nb = append(nb, b.B0[:a.Off]...)
		nb = append(nb, b.B0[c.Off:c.End]...)
		nb = append(nb, b.B0[a.End:c.Off]...)
		nb = append(nb, b.B0[a.Off:a.End]...)
		nb = append(nb, b.B0[c.End:]...)
		if bytes.Equal(nb, b.B0) {
			return nil, false
		}
		v.Blob = nb
	case "replace", "forge", "nodigest-replace":
		nb, e, payload, ok := b.replaceMember(rnd, ds[rnd.Intn(len(ds))])
		if !ok {
			return nil, false
		}
		v.Blob = nb
		if k != "nodigest-replace" {
			v.Forged[chunkKey(e.Name, e.ChunkOffset)] = payload
		}
		if k != "replace" {
			// forge: a TOC that pins the new payload; nodigest-replace: a genuine-looking TOC
			// (it hashes to the digest it is verified with) that records NO digest for that chunk
			toc := cloneTOC(b.Toc)
			for _, te := range toc.Entries {
				if te.Name == e.Name && te.ChunkOffset == e.ChunkOffset && ((te.Type == "reg" && te.Size > 0) || te.Type == "chunk") {
					if k == "forge" {
						te.ChunkDigest = digest.FromBytes(payload).String()
					} else {
						te.ChunkDigest, te.Digest = "", ""
					}
				}
			}
			nb2, ext, dg, err := b.reserialise(nb, toc)
			if err != nil {
				return nil, false
			}
			v.Blob, v.Ext, v.TocDigest = nb2, ext, dg
			if b.Comp == "ext" {
				v.Blob = nb
			}
		}
	case "toc-digest", "toc-nodigest", "toc-size", "toc-offset", "toc-same":
		toc := cloneTOC(b.Toc)
		var des []*estargz.TOCEntry
		for _, e := range toc.Entries {
			if (e.Type == "reg" && e.Size > 0) || e.Type == "chunk" {
				des = append(des, e)
			}
		}
		if len(des) == 0 {
			return nil, false
		}
		e := des[rnd.Intn(len(des))]
		switch k {
		case "toc-digest":
			e.ChunkDigest = digest.FromBytes(rnd.Bytes(8)).String()
		case "toc-nodigest":
			e.ChunkDigest = ""
			if rnd.Bool() {
				e.Digest = ""
			}
		case "toc-size":
			if e.Type == "reg" {
				e.Size += int64(1 + rnd.Intn(3))
			} else {
				e.ChunkSize += int64(1 + rnd.Intn(3))
			}
		case "toc-offset":
			o := dataEnts()[rnd.Intn(len(dataEnts()))]
			if o.Offset == e.Offset {
				e.Offset += int64(1 + rnd.Intn(5))
			} else {
				e.Offset = o.Offset
			}
		}
		nb, ext, dg, err := b.reserialise(b.B0, toc)
		if err != nil {
			return nil, false
		}
		v.Blob, v.Ext, v.TocDigest = nb, ext, dg
		if b.Comp == "ext" {
			v.Blob = b.B0
		}
	case "toc-trailing": // bytes after the JSON value inside the TOC entry (gzip/ext: tar entry; zstd: frame)
		nb, ext, ok := b.tocTrailing(rnd)
		if !ok {
			return nil, false
		}
		v.Blob, v.Ext = nb, ext
	case "ext-bitflip":
		if b.Comp != "ext" || len(b.Ext0) == 0 {
			return nil, false
		}
		ne := clone(b.Ext0)
		pos := rnd.Intn(len(ne))
		ne[pos] ^= 1 << uint(rnd.Intn(8))
		v.Ext = ne
	default:
		return nil, false
	}
	return v, true
}

// tocTrailing re-encodes the TOC container with white space appended to the TOC JSON.
func (b *Blob) tocTrailing(rnd *verifutil.Rand) (nb, ext []byte, ok bool) {
	tocJSON, err := json.MarshalIndent(b.Toc, "", "\t")
	if err != nil {
		return nil, nil, false
	}
	tocJSON = append(tocJSON, bytes.Repeat([]byte{' '}, 1+rnd.Intn(600))...)
	tocJSON = append(tocJSON, '\n')
	switch b.Comp {
	case "zstd":
		return nil, nil, false // the footer pins the sizes; covered by toc-* kinds
	default:
		buf := new(bytes.Buffer)
		gz, _ := gzip.NewWriterLevel(buf, gzip.BestSpeed)
		tw := tar.NewWriter(gz)
		if err := tw.WriteHeader(&tar.Header{Typeflag: tar.TypeReg, Name: estargz.TOCTarName, Size: int64(len(tocJSON))}); err != nil {
			return nil, nil, false
		}
		tw.Write(tocJSON)
		tw.Close()
		gz.Close()
		if b.Comp == "ext" {
			return b.B0, buf.Bytes(), true
		}
		fs := int64(estargz.FooterSize)
		nb = append(clone(b.B0[:b.TocOff]), buf.Bytes()...)
		nb = append(nb, b.B0[int64(len(b.B0))-fs:]...)
		return nb, nil, true
	}
}

// ---------------------------------------------------------------------------------------------
// independent decoding of "the TOC JSON actually used" (oracle side; stdlib + zstd only)

// OwnTOCDigests returns the digests the oracle accepts for the TOC of a view: SHA-256 of the whole
// TOC payload and SHA-256 of the JSON value alone.  nil: the TOC cannot be decoded at all.
func OwnTOCDigests(comp string, blob, ext []byte) []digest.Digest {
	var payload []byte
	switch comp {
	case "zstd":
		if len(blob) < 40 {
			return nil
		}
		f := blob[len(blob)-40:]
		off := binary.LittleEndian.Uint64(f[0:8])
		clen := binary.LittleEndian.Uint64(f[8:16])
		if off > uint64(len(blob)) || clen > uint64(len(blob)) || off+clen > uint64(len(blob)) {
			return nil
		}
		zr, err := zstd.NewReader(bytes.NewReader(blob[off:off+clen]), zstd.IgnoreChecksum(true))
		if err != nil {
			return nil
		}
		defer zr.Close()
		payload, _ = io.ReadAll(zr)
	default:
		var raw []byte
		if comp == "ext" {
			raw = ext
		} else {
			if len(blob) < 51 {
				return nil
			}
			f := blob[len(blob)-51:]
			off, err := strconv.ParseInt(string(f[16:32]), 16, 64)
			if err != nil || off < 0 || off > int64(len(blob))-51 {
				return nil
			}
			raw = blob[off : int64(len(blob))-51]
		}
		zr, err := gzip.NewReader(bytes.NewReader(raw))
		if err != nil {
			return nil
		}
		tr := tar.NewReader(zr)
		if _, err := tr.Next(); err != nil {
			return nil
		}
		payload, _ = io.ReadAll(tr)
	}
	if len(payload) == 0 {
		return nil
	}
	res := []digest.Digest{digest.FromBytes(payload)}
	dec := json.NewDecoder(bytes.NewReader(payload))
	var any json.RawMessage
	if err := dec.Decode(&any); err == nil {
		res = append(res, digest.FromBytes(payload[:dec.InputOffset()]))
	}
	return res
}

// ---------------------------------------------------------------------------------------------
// the corrupting blob source

// Src is an io.ReaderAt whose content the harness switches between views.
type Src struct {
	mu    sync.RWMutex
	cur   []byte
	Yield func() // called on every read (used to shake the schedule in race scenarios)
	Reads int
	// gate: reads overlapping [gateLo, gateHi) signal gateHit once and block until gateOpen is closed
	gateLo, gateHi int64
	gateOpen       chan struct{}
	gateHit        chan struct{}
	gateOnce       *sync.Once
}

// Gate blocks every later read overlapping [lo, hi) until the returned release function is called;
// hit is closed when the first such read arrives.
func (s *Src) Gate(lo, hi int64) (hit <-chan struct{}, release func()) {
	s.mu.Lock()
	defer s.mu.Unlock()
	s.gateLo, s.gateHi = lo, hi
	s.gateOpen = make(chan struct{})
	h := make(chan struct{})
	s.gateHit = h
	s.gateOnce = new(sync.Once)
	open := s.gateOpen
	var once sync.Once
	return h, func() {
		once.Do(func() {
			close(open)
			s.mu.Lock()
			s.gateOpen, s.gateHit, s.gateOnce = nil, nil, nil
			s.mu.Unlock()
		})
	}
}

func (s *Src) Set(p []byte) {
	s.mu.Lock()
	s.cur = p
	s.mu.Unlock()
}

func (s *Src) ReadAt(p []byte, off int64) (int, error) {
	s.mu.RLock()
	cur, y := s.cur, s.Yield
	open, hit, once, lo, hi := s.gateOpen, s.gateHit, s.gateOnce, s.gateLo, s.gateHi
	s.mu.RUnlock()
	if open != nil && off < hi && lo < off+int64(len(p)) {
		once.Do(func() { close(hit) })
		<-open
	}
	if y != nil {
		y()
	}
	if off < 0 {
		return 0, fmt.Errorf("negative offset")
	}
	if off >= int64(len(cur)) {
		return 0, io.EOF
	}
	n := copy(p, cur[off:])
	if n < len(p) {
		return n, io.EOF
	}
	return n, nil
}

// ---------------------------------------------------------------------------------------------
// the stack under test

// VR is the verifiable reader under test (adapter over fs/reader.VerifiableReader).
type VR interface {
	VerifyTOC(d digest.Digest) error
	Skip()
	Cache(filter func(int64) bool) error
	// CacheReader = Cache(WithReader(sr)): what layer.backgroundFetch does.
	CacheReader(sr *io.SectionReader) error
	// ReadAndCache runs readAndCache for ONE chunk; supported=false when the adapter cannot reach it.
	ReadAndCache(id uint32, r io.Reader, off, size int64, dgst string) (err error, supported bool)
	OpenFile(id uint32) (io.ReaderAt, error)
	Passthrough(ra io.ReaderAt, mergeBuf int64, workers int) (uintptr, cache.Reader, error)
	GenID(id uint32, off, size int64) string
	Close() error
}

// Stack says how to make a metadata reader and a verifiable reader.
type Stack struct {
	Name      string
	Store     metadata.Store
	NewReader func(mr metadata.Reader, c cache.BlobCache) (VR, error)
}

type Chunk struct {
	Gid       int
	File      *File
	Off, Size int64
	Dgst      string
	COff      int64 // compressed offset of the stream holding it (-1: unknown)
	Run       int   // the run of consecutive TOC data entries with that offset (what the pre-reader walks)
}

type File struct {
	Idx    int
	Name   string
	ID     uint32
	Size   int64
	Offset int64
	Chunks []*Chunk
	Want   []byte // the content of the source tar (nil: unknown)
}

// Session is one reader object over one blob source.
type Session struct {
	Out   *verifutil.Out
	Rnd   *verifutil.Rand
	B     *Blob
	Src   *Src
	Ext   func() []byte
	setEx func([]byte)
	MR    metadata.Reader
	VR    VR
	Cache cache.BlobCache
	// Win: the hook wrapper the reader under test sees instead of Cache (window sessions only; nil otherwise)
	Win   *WindowCache
	CKind string // mem | dir | dirdirect | win-l<memory LRU entries>-f<descriptor LRU entries>
	CDir  string
	Files []*File
	Chs   []*Chunk
	byKey map[string]*Chunk
	// chunks by the compressed offset of their stream, in TOC (= stream) order
	byStream map[int][]*Chunk
	Open  *View // the view at open time (its TOC is the TOC actually used)
	Cur   *View
	Views []*View
	// oracle state
	TocOK          []digest.Digest // digests the oracle accepts for the TOC actually used
	VerifiedOK     bool            // a VerifyTOC succeeded
	UsedUnverified bool            // data was read through the reader before that
	Tag          string
	// LayerLevel: the VR is a layer object (layer.Verify / SkipVerify / l.r): op lines are "l.*"
	// and every reader handed out after a successful Verify must behave as verified.
	LayerLevel    bool
	SkipEffective bool // SkipVerify was called while the layer had no reader yet
	// Irregular: the TOC actually used lays the chunks out differently from the blob (an altered
	// size / offset field): what the decoders yield then depends on read order in ways the model
	// does not describe (C04's matter).  Operations are still run and the property oracle is still
	// evaluated, but the op lines are written as comments (not compared with the model).
	Irregular bool
}

func (s *Session) Close() {
	if s.VR != nil {
		s.VR.Close()
	} else if s.MR != nil {
		s.MR.Close()
	}
	if s.CDir != "" {
		os.RemoveAll(s.CDir)
	}
}

// NewCache makes the chunk cache of kind k.
func NewCache(k string) (cache.BlobCache, string, error) {
	if k == "mem" {
		return cache.NewMemoryCache(), "", nil
	}
	dir, err := os.MkdirTemp("", "verifc01")
	if err != nil {
		return nil, "", err
	}
	if lru, fds, ok := windowKind(k); ok {
		// the directory cache with a SMALL memory LRU and descriptor LRU (0 = the defaults of the
		// cache package): entries are evicted and their buffers recycled while the session runs
		c, err := cache.NewDirectoryCache(dir, cache.DirectoryCacheConfig{SyncAdd: true, MaxLRUCacheEntry: lru, MaxCacheFds: fds})
		return c, dir, err
	}
	// "dir": every entry stays in the in-memory LRU (so Get never hands out an *os.File and the
	// answer of GetPassthroughFd does not depend on LRU evictions); "dirdirect": files only.
	c, err := cache.NewDirectoryCache(dir, cache.DirectoryCacheConfig{SyncAdd: true, Direct: k == "dirdirect",
		MaxLRUCacheEntry: 1 << 20, MaxCacheFds: 64})
	return c, dir, err
}

// OpenSession opens the blob through the stack with `open` as the view at open time.  A nil
// session with a nil error means the (altered) blob was refused at open time.
func OpenSession(out *verifutil.Out, rnd *verifutil.Rand, st Stack, b *Blob, open *View, ckind string) (*Session, error) {
	s := &Session{Out: out, Rnd: rnd, B: b, Open: open, Cur: open, CKind: ckind, byKey: map[string]*Chunk{},
		byStream: map[int][]*Chunk{}}
	var mu sync.Mutex
	ext := open.Ext
	s.Ext = func() []byte { mu.Lock(); defer mu.Unlock(); return ext }
	s.setEx = func(p []byte) { mu.Lock(); ext = p; mu.Unlock() }
	s.Src = &Src{}
	s.Src.Set(open.Blob)
	sr := io.NewSectionReader(s.Src, 0, int64(len(open.Blob)))
	mr, err := st.Store(sr, metadata.WithDecompressors(b.Decompressor(s.Ext)))
	if err != nil {
		return nil, nil
	}
	s.MR = mr
	c, dir, err := NewCache(ckind)
	if err != nil {
		mr.Close()
		return nil, err
	}
	s.Cache, s.CDir = c, dir
	if _, _, ok := windowKind(ckind); ok {
		// the reader under test talks to the cache through the hook wrapper; the oracle inspects the
		// real cache directly (s.Cache) so that its look-ups never run a hook
		s.Win = &WindowCache{BlobCache: c}
		c = s.Win
	}
	vr, err := st.NewReader(mr, c)
	if err != nil {
		mr.Close()
		return nil, err
	}
	s.VR = vr
	s.TocOK = OwnTOCDigests(b.Comp, open.Blob, open.Ext)
	if err := s.enumerate(); err != nil {
		// a TOC the stores accept but cannot be walked: no reads are possible
		s.Close()
		return nil, nil
	}
	return s, nil
}

func (s *Session) enumerate() error {
	want := map[string][]byte{}
	for _, f := range s.B.Files {
		want[f.Name] = f.Data
	}
	coff := map[string]int64{}
	ord := map[string]int{}
	runOf := map[string]int{}
	if toc, _, err := s.B.parseTOC(s.Open.Blob, s.Open.Ext); err == nil && toc != nil && len(toc.Entries) > 0 {
		// estargz.Reader.initFields: a data entry starts a new run when its offset differs from
		// the offset of the entry the current run started at.
		run, top := 0, toc.Entries[0].Offset
		for i, e := range toc.Entries {
			if e.Type != "reg" && e.Type != "chunk" {
				continue
			}
			if e.Offset != top {
				run, top = run+1, e.Offset
			}
			if e.Type == "chunk" || e.Size > 0 {
				k := chunkKey(strings.TrimPrefix(e.Name, "./"), e.ChunkOffset)
				coff[k] = e.Offset
				ord[k] = i
				runOf[k] = run
			}
		}
	}
	var walk func(id uint32, p string, depth int) error
	var files []*File
	walk = func(id uint32, p string, depth int) error {
		if depth > 64 {
			return fmt.Errorf("too deep")
		}
		var rerr error
		type kid struct {
			name string
			id   uint32
			mode os.FileMode
		}
		var kids []kid
		if err := s.MR.ForeachChild(id, func(name string, cid uint32, mode os.FileMode) bool {
			kids = append(kids, kid{name, cid, mode})
			return true
		}); err != nil {
			return err
		}
		for _, k := range kids {
			if k.name == "" || k.name == "." {
				continue
			}
			full := filepath.Join(p, k.name)
			if k.mode.IsDir() {
				if err := walk(k.id, full, depth+1); err != nil {
					return err
				}
				continue
			}
			if !k.mode.IsRegular() {
				continue
			}
			if p == "" && k.name == estargz.TOCTarName {
				continue
			}
			attr, err := s.MR.GetAttr(k.id)
			if err != nil {
				return err
			}
			off, err := s.MR.GetOffset(k.id)
			if err != nil {
				return err
			}
			f := &File{Name: full, ID: k.id, Size: attr.Size, Offset: off}
			if w, ok := want[full]; ok {
				f.Want = w
			} else if full == estargz.NoPrefetchLandmark || full == estargz.PrefetchLandmark {
				f.Want = []byte{0xf}
			}
			files = append(files, f)
		}
		return rerr
	}
	if err := walk(s.MR.RootID(), "", 0); err != nil {
		return err
	}
	sort.Slice(files, func(i, j int) bool { return files[i].Name < files[j].Name })
	for i, f := range files {
		f.Idx = i
		fr, err := s.MR.OpenFile(f.ID)
		if err != nil {
			return err
		}
		var off int64
		for n := 0; off < f.Size && n < 100000; n++ {
			co, cs, dg, ok := fr.ChunkEntryForOffset(off)
			if !ok {
				break
			}
			if cs <= 0 || co != off {
				return fmt.Errorf("irregular chunk table of %q at %d: (%d,%d)", f.Name, off, co, cs)
			}
			c := &Chunk{Gid: len(s.Chs), File: f, Off: co, Size: cs, Dgst: dg, COff: -1, Run: -1}
			if o, ok := coff[chunkKey(f.Name, co)]; ok {
				c.COff = o
				c.Run = runOf[chunkKey(f.Name, co)]
			}
			f.Chunks = append(f.Chunks, c)
			s.Chs = append(s.Chs, c)
			s.byKey[fmt.Sprintf("%d@%d", f.ID, co)] = c
			off = co + cs
		}
	}
	s.Files = files
	for _, c := range s.Chs {
		if c.Run >= 0 {
			s.byStream[c.Run] = append(s.byStream[c.Run], c)
		}
	}
	for _, l := range s.byStream {
		sort.SliceStable(l, func(i, j int) bool {
			return ord[chunkKey(l[i].File.Name, l[i].Off)] < ord[chunkKey(l[j].File.Name, l[j].Off)]
		})
	}
	// regular layout: every chunk sits where the builder put it, files are exactly their chunks
	type pos struct{ off, inner, size int64 }
	built := map[string]pos{}
	for _, e := range s.B.Toc.Entries {
		if (e.Type == "reg" && e.Size > 0) || e.Type == "chunk" {
			name := strings.TrimPrefix(e.Name, "./")
			built[chunkKey(name, e.ChunkOffset)] = pos{e.Offset, e.InnerOffset, entChunkSize(e, s.B.fileSize(e.Name))}
		}
	}
	used := map[string]pos{}
	if toc, _, err := s.B.parseTOC(s.Open.Blob, s.Open.Ext); err == nil && toc != nil {
		for _, e := range toc.Entries {
			if (e.Type == "reg" && e.Size > 0) || e.Type == "chunk" {
				used[chunkKey(strings.TrimPrefix(e.Name, "./"), e.ChunkOffset)] = pos{e.Offset, e.InnerOffset, 0}
			}
		}
	}
	nchunks := 0
	for _, f := range s.Files {
		var sum int64
		for _, c := range f.Chunks {
			sum += c.Size
			nchunks++
			k := chunkKey(f.Name, c.Off)
			b, ok1 := built[k]
			u, ok2 := used[k]
			if !ok1 || !ok2 || b.off != u.off || b.inner != u.inner || b.size != c.Size || c.Run < 0 {
				s.Irregular = true
			}
		}
		if sum != f.Size {
			s.Irregular = true
		}
	}
	if nchunks != len(built) {
		s.Irregular = true
	}
	return nil
}

// SetView switches what the adversary serves from now on.
func (s *Session) SetView(v *View) {
	s.Cur = v
	s.Src.Set(v.Blob)
	s.setEx(v.Ext)
}

// emit writes an op line and the implementation's answer (as a comment for irregular sessions).
func (s *Session) emit(op, res string) {
	if s.Irregular {
		s.Out.Comment("irregular-layout " + op + " -> " + res)
		s.Out.Count("irregular-ops")
		return
	}
	s.Out.Emit(op, res)
}

// NewLine is the `new` op of the driver.
func (s *Session) NewLine(disable, allow bool) string {
	var fs, nd []string
	for _, f := range s.Files {
		var cs []string
		for _, c := range f.Chunks {
			cs = append(cs, strconv.Itoa(c.Gid))
			if _, err := digest.Parse(c.Dgst); err != nil {
				nd = append(nd, strconv.Itoa(c.Gid))
			}
		}
		fs = append(fs, fmt.Sprintf("%d:%s", f.Idx, strings.Join(cs, ",")))
	}
	return fmt.Sprintf("new %s %s files=%s nodig=%s", b01(disable), b01(allow), dash(strings.Join(fs, ";")), dash(strings.Join(nd, ",")))
}

func b01(b bool) string {
	if b {
		return "1"
	}
	return "0"
}

func dash(s string) string {
	if s == "" {
		return "-"
	}
	return s
}

// ---------------------------------------------------------------------------------------------
// classification of what the decoders yield under the current view

func classify(buf []byte, err error, dg string) byte {
	if err != nil {
		return 'f'
	}
	d, perr := digest.Parse(dg)
	if perr != nil {
		return 'b'
	}
	if digest.FromBytes(buf) == d {
		return 'g'
	}
	return 'b'
}

type preItem struct {
	c  *Chunk
	st byte
}

// own classifies the bytes the decoders yield for chunk c alone under the current view: the stream
// is decoded from its start to the end of c, straight from the metadata reader (no pre-reader, no
// cache, no verification).
func (s *Session) own(c *Chunk) byte {
	fr, err := s.MR.OpenFile(c.File.ID)
	if err != nil {
		return 'f'
	}
	buf := make([]byte, c.Size)
	_, err = fr.ReadAt(buf, c.Off)
	if err != nil && err != io.EOF {
		return 'f'
	}
	return classify(buf, nil, c.Dgst)
}

// Probe returns the classification of chunk c and of the other chunks stored in the same compressed
// stream, in stream order (what estargz.fileReader.ReadAt hands to the pre-reader on a miss).
func (s *Session) Probe(c *Chunk) (st byte, pre []preItem) {
	st = s.own(c)
	if c.Run < 0 {
		return st, nil
	}
	for _, n := range s.byStream[c.Run] {
		if n != c {
			pre = append(pre, preItem{n, s.own(n)})
		}
	}
	return st, pre
}

// StepStr is the driver's step for chunk c: "c:st[/n:st,...]".
func (s *Session) StepStr(c *Chunk) string {
	st, pre := s.Probe(c)
	res := fmt.Sprintf("%d:%c", c.Gid, st)
	if len(pre) > 0 {
		var ps []string
		for _, p := range pre {
			ps = append(ps, fmt.Sprintf("%d:%c", p.c.Gid, p.st))
		}
		res += "/" + strings.Join(ps, ",")
	}
	return res
}

func (s *Session) steps(cs []*Chunk) string {
	var ss []string
	for _, c := range cs {
		ss = append(ss, s.StepStr(c))
	}
	return dash(strings.Join(ss, ";"))
}

// ---------------------------------------------------------------------------------------------
// cache inspection

func (s *Session) cacheBytes(key string) ([]byte, bool) {
	r, err := s.Cache.Get(key)
	if err != nil {
		return nil, false
	}
	defer r.Close()
	var buf bytes.Buffer
	if _, err := io.Copy(&buf, io.NewSectionReader(r, 0, 1<<40)); err != nil {
		return nil, false
	}
	return buf.Bytes(), true
}

func (s *Session) chunkCached(c *Chunk) ([]byte, bool) {
	return s.cacheBytes(s.VR.GenID(c.File.ID, c.Off, c.Size))
}

func (s *Session) cachedList(cs []*Chunk) string {
	var l []string
	for _, c := range cs {
		if _, ok := s.chunkCached(c); ok {
			l = append(l, strconv.Itoa(c.Gid))
		}
	}
	return dash(strings.Join(l, ","))
}

// allEntries returns every committed entry of the chunk cache (by content, whatever the key).
func (s *Session) allEntries() [][]byte {
	var res [][]byte
	if mc, ok := s.Cache.(*cache.MemoryCache); ok {
		// Membuf is guarded by an unexported mutex: only called while no operation is running.
		for _, b := range mc.Membuf {
			res = append(res, clone(b.Bytes()))
		}
		return res
	}
	filepath.Walk(s.CDir, func(p string, info os.FileInfo, err error) error {
		if err != nil || info.IsDir() {
			return nil
		}
		if strings.Contains(p, string(filepath.Separator)+"wip"+string(filepath.Separator)) {
			return nil
		}
		if b, err := os.ReadFile(p); err == nil {
			res = append(res, b)
		}
		return nil
	})
	return res
}

// ---------------------------------------------------------------------------------------------
// the oracle

// expected returns the payload the TOC actually used pins for chunk c among the payloads the harness
// knows (source tar, forged payloads); nil when it pins none of them.
func (s *Session) expected(c *Chunk) []byte {
	d, err := digest.Parse(c.Dgst)
	if err != nil {
		return nil
	}
	// candidates are looked up by content, not by file name (an altered TOC may rename entries)
	var cands [][]byte
	if w := c.File.Want; w != nil && c.Off+c.Size <= int64(len(w)) {
		cands = append(cands, w[c.Off:c.Off+c.Size])
	}
	for _, f := range s.B.Files {
		if c.Off+c.Size <= int64(len(f.Data)) {
			cands = append(cands, f.Data[c.Off:c.Off+c.Size])
		}
	}
	if c.Off == 0 && c.Size == 1 {
		cands = append(cands, []byte{0xf}) // landmark files
	}
	for _, v := range s.Views {
		for _, p := range v.Forged {
			cands = append(cands, p)
		}
	}
	for _, p := range cands {
		if digest.FromBytes(p) == d {
			return p
		}
	}
	return nil
}

// disciplined: the reader was verified and never handed out data before that (what a layer object
// guarantees for a reader acquired through Verify).
func (s *Session) disciplined() bool {
	if s.LayerLevel {
		return s.VerifiedOK
	}
	return s.VerifiedOK && !s.UsedUnverified
}

func (s *Session) pfx() string {
	if s.LayerLevel {
		return "l."
	}
	return "r."
}

// checkData evaluates the property on bytes returned for [off, off+len(data)) of file f.
func (s *Session) checkData(f *File, off int64, data []byte, how string) bool {
	okAll := true
	for _, c := range f.Chunks {
		lo, hi := max64(c.Off, off), min64(c.Off+c.Size, off+int64(len(data)))
		if lo >= hi {
			continue
		}
		got := data[lo-off : hi-off]
		exp := s.expected(c)
		if exp == nil || !bytes.Equal(got, exp[lo-c.Off:hi-c.Off]) {
			okAll = false
			if s.disciplined() {
				s.Out.Fail(s.sig("altered-bytes-returned"), fmt.Sprintf("%s: %s of %q [%d,%d) chunk@%d (%s/%s/%s view=%s open=%s) returned bytes the TOC does not pin",
					s.Tag, how, f.Name, lo, hi, c.Off, s.B.Comp, s.CKind, s.stackInfo(), s.Cur.Kind, s.Open.Kind))
			}
		}
	}
	return okAll
}

// CloneSig: Cache(WithReader) walked a clone carrying a TOC whose digest nobody compared.
const CloneSig = "clone-prefetch-unverified-toc"

func (s *Session) sig(generic string) string { return generic }

func (s *Session) stackInfo() string { return fmt.Sprintf("chunk=%d,min=%d", s.B.ChunkSize, s.B.MinChunk) }

// CheckCache evaluates "no altered bytes stay cached" on a verified reader.
func (s *Session) CheckCache(after string) {
	if !s.disciplined() {
		return
	}
	okd := map[digest.Digest]bool{}
	for _, c := range s.Chs {
		if d, err := digest.Parse(c.Dgst); err == nil {
			okd[d] = true
		}
	}
entries:
	for _, e := range s.allEntries() {
		if okd[digest.FromBytes(e)] {
			continue
		}
		// a whole file (passthrough)?
		for _, f := range s.Files {
			if int64(len(e)) != f.Size {
				continue
			}
			good := true
			for _, c := range f.Chunks {
				d, err := digest.Parse(c.Dgst)
				if err != nil || digest.FromBytes(e[c.Off:c.Off+c.Size]) != d {
					good = false
					break
				}
			}
			if good {
				continue entries
			}
		}
		s.Out.Fail(s.sig("altered-bytes-cached"), fmt.Sprintf("%s: after %s the chunk cache of a verified reader holds %d bytes (sha256 %s…) matching no digest of the TOC (%s/%s/%s view=%s open=%s)",
			s.Tag, after, len(e), hex.EncodeToString(sha(e))[:12], s.B.Comp, s.CKind, s.stackInfo(), s.Cur.Kind, s.Open.Kind))
		return
	}
}

func sha(p []byte) []byte { h := sha256.Sum256(p); return h[:] }

func preadFull(fd int, buf []byte) (int, error) {
	n := 0
	for n < len(buf) {
		m, err := syscall.Pread(fd, buf[n:], int64(n))
		if m <= 0 || err != nil {
			return n, err
		}
		n += m
	}
	return n, nil
}

func max64(a, b int64) int64 {
	if a > b {
		return a
	}
	return b
}

func min64(a, b int64) int64 {
	if a < b {
		return a
	}
	return b
}

// ---------------------------------------------------------------------------------------------
// operations (each emits one op line + the implementation's canonical answer)

func okerr(err error) string {
	if err != nil {
		return "err"
	}
	return "ok"
}

// DigestArg classifies a digest presented for verification against the oracle's own decoding.
func (s *Session) DigestArg(d digest.Digest) string {
	// TocOK[0] (the whole TOC payload) is what both metadata stores hash.
	if len(s.TocOK) > 0 && s.TocOK[0] == d {
		return "good"
	}
	return "wrong"
}

func (s *Session) oracleAccepts(d digest.Digest) bool {
	for _, x := range s.TocOK {
		if x == d {
			return true
		}
	}
	return false
}

// Verify = VerifiableReader.VerifyTOC(d).
func (s *Session) Verify(d digest.Digest) error {
	arg := s.DigestArg(d)
	err := s.VR.VerifyTOC(d)
	s.emit(s.pfx()+"verify "+arg, okerr(err))
	s.Out.Count("verify-" + arg + "-" + okerr(err))
	if err == nil {
		if !s.oracleAccepts(d) {
			s.Out.Fail("verify-wrong-digest-accepted", fmt.Sprintf("%s: VerifyTOC(%s) succeeded but the TOC JSON actually used hashes to %v (%s open=%s)",
				s.Tag, d, s.TocOK, s.B.Comp, s.Open.Kind))
		}
		if s.LayerLevel && s.SkipEffective {
			s.Out.Fail("verify-after-skip-accepted", fmt.Sprintf("%s: layer.Verify(%s) succeeded on a layer object that was already served without verification", s.Tag, d))
		}
		s.VerifiedOK = true
		s.CheckCache("verify")
	}
	return err
}

func (s *Session) Skip() {
	if s.LayerLevel && !s.VerifiedOK {
		s.SkipEffective = true
	}
	s.VR.Skip()
	s.emit(s.pfx()+"skip", "ok")
}

// Prefetch = readAndCache of one chunk.
func (s *Session) Prefetch(c *Chunk) bool {
	if s.B.MinChunk > 0 { // the model's single-chunk prefetch has no stream neighbours
		return false
	}
	st := s.own(c)
	fr, err := s.MR.OpenFileWithPreReader(c.File.ID, func(nid uint32, off, size int64, dg string, r io.Reader) error {
		e, _ := s.VR.ReadAndCache(nid, r, off, size, dg)
		return e
	})
	var supported bool
	if err == nil {
		err, supported = s.VR.ReadAndCache(c.File.ID, io.NewSectionReader(fr, c.Off, c.Size), c.Off, c.Size, c.Dgst)
		if !supported {
			return false
		}
	}
	s.emit(fmt.Sprintf("%sprefetch %d %c", s.pfx(), c.Gid, st), okerr(err))
	s.Out.Count(fmt.Sprintf("prefetch-%c-%s", st, okerr(err)))
	s.CheckCache("prefetch")
	return true
}

// closure of a file selection under "same compressed offset" (Cache() filters by that offset).
func (s *Session) selection(sel map[int]bool) (map[int64]bool, []*Chunk) {
	offs := map[int64]bool{}
	for _, f := range s.Files {
		if sel == nil || sel[f.Idx] {
			offs[f.Offset] = true
		}
	}
	var cs []*Chunk
	for _, f := range s.Files {
		if offs[f.Offset] {
			cs = append(cs, f.Chunks...)
		}
	}
	if s.B.MinChunk > 0 { // the pre-reader reaches stream neighbours of other files
		offs, cs = nil, s.Chs
	}
	return offs, cs
}

func (s *Session) items(cs []*Chunk) string {
	var l []string
	for _, c := range cs {
		st := s.own(c)
		l = append(l, fmt.Sprintf("%d:%c", c.Gid, st))
	}
	return dash(strings.Join(l, ","))
}

// CacheAll = VerifiableReader.Cache() over a file selection (nil: everything).
func (s *Session) CacheAll(sel map[int]bool) error {
	offs, cs := s.selection(sel)
	items := s.items(cs)
	err := s.VR.Cache(func(o int64) bool { return offs == nil || offs[o] })
	s.emit(fmt.Sprintf("%scache %s cached=%s", s.pfx(), items, s.cachedList(cs)), okerr(err))
	s.Out.Count("cache-" + okerr(err))
	s.CheckCache("cache")
	return err
}

// CacheClone = VerifiableReader.Cache(WithReader(sr)) with sr serving view v (layer.backgroundFetch
// reads the blob through another reader).  The walk goes over metadata.Reader.Clone(sr); the memory
// store's clone re-parses the TOC from sr, and Cache must refuse it unless its digest is the TOC
// digest of the layer.  Returns false when the op was not generated.
func (s *Session) CacheClone(v *View) bool {
	src2 := &Src{}
	src2.Set(v.Blob)
	mk := func() *io.SectionReader { return io.NewSectionReader(src2, 0, int64(len(v.Blob))) }
	mr2, err := s.MR.Clone(mk())
	if err != nil || mr2.TOCDigest() != s.MR.TOCDigest() {
		before := s.cachedList(s.Chs)
		err2 := s.VR.CacheReader(mk())
		s.emit(s.pfx()+"clone.err", okerr(err2))
		if err != nil {
			s.Out.Count("clone-failed")
		} else {
			s.Out.Count("clone-foreign-toc-" + okerr(err2))
			// regression scenario of the repaired finding: chunks would be compared with the digests
			// of a TOC nobody verified
			if err2 == nil || s.cachedList(s.Chs) != before {
				s.Out.Fail(CloneSig, fmt.Sprintf("%s: Cache(WithReader) walked a clone whose TOC digest %v differs from the TOC digest %v of the layer (result %v, view %s)",
					s.Tag, mr2.TOCDigest(), s.MR.TOCDigest(), err2, v.Kind))
			}
		}
		s.CheckCache("clone-prefetch")
		return true
	}
	var items []string
	for _, c := range s.Chs {
		fr, err := mr2.OpenFile(c.File.ID)
		if err != nil {
			return false
		}
		co, cs, dg2, ok := fr.ChunkEntryForOffset(c.Off)
		if !ok || co != c.Off || cs != c.Size || dg2 != c.Dgst {
			return false // same TOC digest, other contents: cannot happen short of a collision
		}
		buf := make([]byte, c.Size)
		_, rerr := fr.ReadAt(buf, c.Off)
		if rerr == io.EOF {
			rerr = nil
		}
		items = append(items, fmt.Sprintf("%d:%c", c.Gid, classify(buf, rerr, c.Dgst)))
	}
	err = s.VR.CacheReader(mk())
	s.emit(fmt.Sprintf("%sclone %s cached=%s", s.pfx(), dash(strings.Join(items, ",")), s.cachedList(s.Chs)), okerr(err))
	s.Out.Count("clone-" + v.Kind + "-" + okerr(err))
	s.CheckCache("clone-prefetch")
	return true
}

// Race = Cache() and VerifyTOC(d) in two goroutines.  pause shakes the schedule.
func (s *Session) Race(sel map[int]bool, d digest.Digest, pause func(who int)) (verr, cerr error) {
	offs, cs := s.selection(sel)
	items := s.items(cs)
	arg := s.DigestArg(d)
	start := make(chan struct{})
	var wg sync.WaitGroup
	wg.Add(2)
	s.Src.mu.Lock()
	s.Src.Yield = func() { pause(0) }
	s.Src.mu.Unlock()
	go func() {
		defer wg.Done()
		<-start
		cerr = s.VR.Cache(func(o int64) bool { return offs == nil || offs[o] })
	}()
	go func() {
		defer wg.Done()
		<-start
		pause(1)
		verr = s.VR.VerifyTOC(d)
	}()
	close(start)
	wg.Wait()
	s.Src.mu.Lock()
	s.Src.Yield = nil
	s.Src.mu.Unlock()
	s.emit(fmt.Sprintf("r.race %s %s cached=%s", arg, items, s.cachedList(cs)),
		fmt.Sprintf("verify=%s cache=%s", okerr(verr), okerr(cerr)))
	s.Out.Count(fmt.Sprintf("race-verify=%s-cache=%s", okerr(verr), okerr(cerr)))
	if verr == nil {
		if !s.oracleAccepts(d) {
			s.Out.Fail("verify-wrong-digest-accepted", fmt.Sprintf("%s: VerifyTOC(%s) racing with Cache() succeeded but the TOC hashes to %v", s.Tag, d, s.TocOK))
		}
		s.VerifiedOK = true
	}
	s.CheckCache("race")
	return
}

// Straddle = Cache() whose fetch of chunk c is held inside the blob read while VerifyTOC(d) runs to
// completion, then released: the critical section of that readAndCache comes AFTER the decision.
func (s *Session) Straddle(c *Chunk, d digest.Digest) (verr, cerr error) {
	offs, cs := s.selection(nil)
	items := s.items(cs)
	arg := s.DigestArg(d)
	lo, hi := c.COff, c.COff+1
	for _, st := range s.B.Streams {
		if st.Off == c.COff {
			hi = st.End
		}
	}
	if c.COff < 0 {
		return nil, nil
	}
	hit, release := s.Src.Gate(lo, hi)
	done := make(chan struct{})
	go func() {
		defer close(done)
		cerr = s.VR.Cache(func(o int64) bool { return offs == nil || offs[o] })
	}()
	held := true
	select {
	case <-hit:
	case <-done:
		held = false
	case <-time.After(5 * time.Second):
		held = false
	}
	verr = s.VR.VerifyTOC(d)
	release()
	<-done
	s.emit(fmt.Sprintf("%srace %s %s cached=%s", s.pfx(), arg, items, s.cachedList(cs)),
		fmt.Sprintf("verify=%s cache=%s", okerr(verr), okerr(cerr)))
	s.Out.Count(fmt.Sprintf("straddle-held=%v-verify=%s-cache=%s", held, okerr(verr), okerr(cerr)))
	if verr == nil {
		if !s.oracleAccepts(d) {
			s.Out.Fail("verify-wrong-digest-accepted", fmt.Sprintf("%s: VerifyTOC(%s) succeeded but the TOC hashes to %v", s.Tag, d, s.TocOK))
		}
		s.VerifiedOK = true
	}
	s.CheckCache("straddling-prefetch")
	return
}

func (s *Session) touched(f *File, off, n int64) []*Chunk {
	var cs []*Chunk
	for _, c := range f.Chunks {
		if c.Off < off+n && off < c.Off+c.Size {
			cs = append(cs, c)
		}
	}
	return cs
}

// cleanByCache: every touched chunk, as cached now, matches its recorded digest.
func (s *Session) cleanByCache(cs []*Chunk, f *File, off int64, data []byte) bool {
	for _, c := range cs {
		if b, ok := s.chunkCached(c); ok {
			if classify(b, nil, c.Dgst) != 'g' {
				return false
			}
			continue
		}
		lo, hi := max64(c.Off, off), min64(c.Off+c.Size, off+int64(len(data)))
		exp := s.expected(c)
		if lo < hi && (exp == nil || !bytes.Equal(data[lo-off:hi-off], exp[lo-c.Off:hi-c.Off])) {
			return false
		}
	}
	return true
}

// hidden: the node tree of a layer does not show the landmark files of the root directory.
func (s *Session) hidden(f *File) bool {
	return s.LayerLevel && (f.Name == estargz.PrefetchLandmark || f.Name == estargz.NoPrefetchLandmark)
}

// Read = Reader.OpenFile(f).ReadAt(p[:n], off).
func (s *Session) Read(f *File, off, n int64) error {
	if s.hidden(f) {
		return nil
	}
	if n > f.Size-off {
		n = f.Size - off
	}
	if n < 0 {
		n = 0
	}
	cs := s.touched(f, off, n)
	steps := s.steps(cs)
	if !s.VerifiedOK && !s.LayerLevel {
		s.UsedUnverified = true
	}
	ra, err := s.VR.OpenFile(f.ID)
	var got int
	p := make([]byte, n)
	if err == nil {
		got, err = ra.ReadAt(p, off)
		if err == io.EOF {
			err = nil
		}
	}
	res := "err"
	if err == nil {
		data := p[:got]
		s.checkData(f, off, data, "read")
		if s.cleanByCache(s.touched(f, off, int64(got)), f, off, data) {
			res = "ok clean"
		} else {
			res = "ok dirty"
		}
	}
	s.emit(s.pfx()+"read "+steps, res)
	s.Out.Count("read-" + strings.ReplaceAll(strings.SplitN(res, "=", 2)[0], " ", "-"))
	s.CheckCache("read")
	return err
}

// Pass = GetPassthroughFd on f (then the file is read back through the fd).
func (s *Session) Pass(f *File, mergeBuf int64, workers int) error {
	if s.CKind == "dir" || s.Win != nil {
		// whether the directory cache hands out an *os.File depends on its in-memory LRU and on
		// how each entry was added (cache.Direct()); passthrough is driven on mem and dirdirect
		return nil
	}
	if s.hidden(f) {
		return nil
	}
	steps := s.steps(f.Chunks)
	if !s.VerifiedOK {
		s.UsedUnverified = true
	}
	kind := "mem"
	if s.CKind == "dirdirect" {
		kind = "file"
	}
	ra, err := s.VR.OpenFile(f.ID)
	if err == nil {
		var fd uintptr
		var cr cache.Reader
		fd, cr, err = s.VR.Passthrough(ra, mergeBuf, workers)
		if err == nil {
			// what the kernel would serve from the fd
			var total int64
			for _, c := range f.Chunks {
				total += c.Size
			}
			buf := make([]byte, total+16)
			n, _ := preadFull(int(fd), buf)
			s.checkData(f, 0, buf[:n], "passthrough-fd")
			if int64(n) != total && s.disciplined() {
				s.Out.Fail(s.sig("altered-bytes-returned"), fmt.Sprintf("%s: passthrough fd of %q serves %d bytes, its chunks have %d", s.Tag, f.Name, n, total))
			}
			cr.Close()
		}
	}
	s.emit(fmt.Sprintf("%spass %d %s %s", s.pfx(), f.Idx, kind, steps), okerr(err))
	s.Out.Count("pass-" + kind + "-" + okerr(err))
	s.CheckCache("passthrough")
	return err
}

// ReadFd = what the whole-file cache entry of f serves.
func (s *Session) ReadFd(f *File) {
	if s.hidden(f) {
		return
	}
	var total int64
	for _, c := range f.Chunks {
		total += c.Size
	}
	b, ok := s.cacheBytes(s.VR.GenID(f.ID, 0, total))
	if ok && s.LayerLevel {
		// an fd is only ever obtained through a file opened on the reader of the layer
		if _, err := s.VR.OpenFile(f.ID); err != nil {
			ok = false
		}
	}
	res := "err"
	if ok {
		if !s.VerifiedOK {
			s.UsedUnverified = true
		}
		s.checkData(f, 0, b, "whole-file-entry")
		clean := int64(len(b)) == total
		for _, c := range f.Chunks {
			if !clean || classify(b[c.Off:c.Off+c.Size], nil, c.Dgst) != 'g' {
				clean = false
				break
			}
		}
		if clean {
			res = "ok clean"
		} else {
			res = "ok dirty"
		}
	}
	s.emit(fmt.Sprintf("%sreadfd %d", s.pfx(), f.Idx), res)
	s.Out.Count("readfd-" + strings.ReplaceAll(res, " ", "-"))
}
