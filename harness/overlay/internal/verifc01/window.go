//go:build verif

package verifc01

// C01, the "window" stream: schedules in which ANOTHER handle of the same layer works on the chunk
// cache inside the window between the moment a read obtained a cache object (a cache.Reader from
// Get, a cache.Writer from Add) and the moment it uses it (Reader.ReadAt, Writer.Commit).
//
// The other streams run the directory cache with a memory LRU that never evicts and never
// interleave anything with a cache hit, so the life time of what Get hands out (the LRU reference
// of the entry, the pooled buffer behind it, the cached descriptor) was never exercised at the
// level where C01 is observed: "bytes returned by a verified read hash to the TOC-pinned chunk
// digest".  Here the reader under test talks to the REAL directory cache, configured with a small
// memory LRU / descriptor LRU, through a thin wrapper (WindowCache) which runs a hook exactly at a
// chosen site for a chosen key.  The hook is "the second file handle": it reads (fetches, verifies,
// caches) a number of OTHER chunks — more than the LRU holds — on the goroutine that is inside the
// window, so the interleaving is forced, not hoped for (no sleeps, nothing depends on timing).
// All operations are ordinary Session ops: compared with the model line by line, and the property
// oracle (checkData / CheckCache) is evaluated on every byte returned and on everything cached.

import (
	"fmt"
	"sync"

	"github.com/containerd/stargz-snapshotter/cache"
	"github.com/containerd/stargz-snapshotter/internal/verifutil"
)

// hook sites
const (
	SiteGet    = "get"    // inside Get, after the real Get returned a Reader (before the caller sees it)
	SiteReadAt = "readat" // inside Reader.ReadAt, before the real ReadAt (the caller holds the Reader)
	SiteCommit = "commit" // inside Writer.Commit, before the real Commit (the writer holds its buffer)
)

func windowKind(k string) (lru, fds int, ok bool) {
	if _, err := fmt.Sscanf(k, "win-l%d-f%d", &lru, &fds); err != nil {
		return 0, 0, false
	}
	return lru, fds, true
}

// WindowCache wraps the real chunk cache and runs a one-shot hook at (site, key).
type WindowCache struct {
	cache.BlobCache
	mu    sync.Mutex
	site  string
	key   string
	hook  func()
	fired int
}

func (w *WindowCache) Arm(site, key string, hook func()) {
	w.mu.Lock()
	w.site, w.key, w.hook = site, key, hook
	w.mu.Unlock()
}

// Disarm removes the hook; pending = it never ran.
func (w *WindowCache) Disarm() (pending bool) {
	w.mu.Lock()
	pending = w.hook != nil
	w.hook = nil
	w.mu.Unlock()
	return pending
}

func (w *WindowCache) fire(site, key string) {
	w.mu.Lock()
	var h func()
	if w.hook != nil && w.site == site && w.key == key {
		h, w.hook = w.hook, nil
		w.fired++
	}
	w.mu.Unlock()
	if h != nil {
		h()
	}
}

func (w *WindowCache) Get(key string, opts ...cache.Option) (cache.Reader, error) {
	r, err := w.BlobCache.Get(key, opts...)
	if err != nil {
		return nil, err
	}
	w.fire(SiteGet, key)
	return &winReader{Reader: r, w: w, key: key}, nil
}

func (w *WindowCache) Add(key string, opts ...cache.Option) (cache.Writer, error) {
	wr, err := w.BlobCache.Add(key, opts...)
	if err != nil {
		return nil, err
	}
	return &winWriter{Writer: wr, w: w, key: key}, nil
}

// winReader: Close and GetReaderAt (the *os.File of FUSE passthrough) are the real ones.
type winReader struct {
	cache.Reader
	w   *WindowCache
	key string
}

func (r *winReader) ReadAt(p []byte, off int64) (int, error) {
	r.w.fire(SiteReadAt, r.key)
	return r.Reader.ReadAt(p, off)
}

type winWriter struct {
	cache.Writer
	w   *WindowCache
	key string
}

func (x *winWriter) Commit() error {
	x.w.fire(SiteCommit, x.key)
	return x.Writer.Commit()
}

// ---------------------------------------------------------------------------------------------
// blobs of the window stream: files with many equally sized chunks, every chunk with its own content

func windowData(rnd *verifutil.Rand, name string, chunk, n int) []byte {
	var res []byte
	for i := 0; len(res) < n; i++ {
		c := []byte(fmt.Sprintf("%s%04d|", name, i))
		c = append(c, genData(rnd, chunk)...)
		res = append(res, c[:chunk]...)
	}
	return res[:n]
}

func buildWindowPool(rnd *verifutil.Rand, thorough bool) ([]*Blob, error) {
	// (zstd only in the thorough tier: its decoder allocates megabytes per chunk stream, and the
	// compression is irrelevant for what this stream exercises)
	specs := []blobSpec{{"gzip", 64, 0}, {"ext", 256, 0}, {"gzip", 1000, 0}}
	if thorough {
		specs = append(specs, blobSpec{"zstd", 100, 0}, blobSpec{"gzip", 4096, 0}, blobSpec{"gzip", 16, 0})
	}
	var pool []*Blob
	for _, sp := range specs {
		files := []FileSpec{
			{Name: "big", Data: windowData(rnd, "B", sp.chunk, 40*sp.chunk+sp.chunk/2)},
			{Name: "mid", Data: windowData(rnd, "M", sp.chunk, 12*sp.chunk)},
			{Name: "d/one", Data: windowData(rnd, "O", sp.chunk, sp.chunk/2)},
		}
		b, err := BuildBlob(sp.comp, sp.chunk, sp.minChunk, files)
		if err != nil {
			return nil, fmt.Errorf("build %v: %w", sp, err)
		}
		pool = append(pool, b)
	}
	return pool, nil
}

// ---------------------------------------------------------------------------------------------
// one window scenario

type winPlan struct {
	lru, fds int    // capacities of the memory LRU / descriptor LRU (0: the defaults of the cache package)
	site     string // hook site
	file     string // file of the chunk X whose cache object is inside the window
	idx      int    // index of X in its file
	whole    bool   // the hook key is the whole-file (passthrough) entry of `file` instead of X
	warm     int    // other chunks of `file` cached before (so a merge mixes cached and fetched chunks)
	preEvict int    // chunks read after warming, then X is read again: X has left the memory LRU and is
	//                 served through the descriptor LRU when the window opens
	others   int    // chunks the second handle reads (fetches + caches) inside the window
	trigger  string // read | span | pass-seq | pass-batch
}

func (p winPlan) String() string {
	return fmt.Sprintf("lru=%d fds=%d site=%s x=%s#%d whole=%v warm=%d preevict=%d others=%d trigger=%s",
		p.lru, p.fds, p.site, p.file, p.idx, p.whole, p.warm, p.preEvict, p.others, p.trigger)
}

func (s *Session) fileByName(n string) *File {
	for _, f := range s.Files {
		if f.Name == n {
			return f
		}
	}
	return nil
}

func (s *Session) wholeKey(f *File) (string, int64) {
	var total int64
	for _, c := range f.Chunks {
		total += c.Size
	}
	return s.VR.GenID(f.ID, 0, total), total
}

// PassWindow = GetPassthroughFd on a window session.  Whether the directory cache can hand out an
// *os.File for the merged entry depends on its memory LRU, so the outcome is not compared with the
// model (comment line); the property oracle is evaluated on the fd, on the whole-file entry the
// merge left in the cache and on every cache entry.
func (s *Session) PassWindow(f *File, mergeBuf int64, workers int) {
	ra, err := s.VR.OpenFile(f.ID)
	key, total := s.wholeKey(f)
	if err == nil {
		var fd uintptr
		var cr cache.Reader
		fd, cr, err = s.VR.Passthrough(ra, mergeBuf, workers)
		if err == nil {
			buf := make([]byte, total+16)
			n, _ := preadFull(int(fd), buf)
			s.checkData(f, 0, buf[:n], "passthrough-fd")
			if int64(n) != total && s.disciplined() {
				s.Out.Fail(s.sig("altered-bytes-returned"), fmt.Sprintf("%s: passthrough fd of %q serves %d bytes, its chunks have %d", s.Tag, f.Name, n, total))
			}
			cr.Close()
		}
	}
	s.Out.Comment(fmt.Sprintf("window pass %d mergebuf=%d workers=%d (outcome depends on the LRU: not compared)", f.Idx, mergeBuf, workers))
	s.Out.Count("window-pass-" + okerr(err))
	if b, ok := s.cacheBytes(key); ok {
		// what a later GetPassthroughFd / a kernel holding the fd would serve
		s.checkData(f, 0, b, "whole-file-entry")
		if int64(len(b)) != total && s.disciplined() {
			s.Out.Fail(s.sig("altered-bytes-cached"), fmt.Sprintf("%s: whole-file entry of %q has %d bytes, its chunks have %d", s.Tag, f.Name, len(b), total))
		}
		s.Out.Count("window-whole-entry-checked")
	}
	s.CheckCache("passthrough")
}

func windowScenario(out *verifutil.Out, rnd *verifutil.Rand, cfg Config, b *Blob, p winPlan, tag string) (fired bool) {
	pr := b.Pristine()
	s := open(out, rnd, cfg, b, pr, []*View{pr}, fmt.Sprintf("win-l%d-f%d", p.lru, p.fds), tag)
	if s == nil || s.Win == nil {
		panic("harness: cannot open a window session on a pristine blob")
	}
	defer s.Close()
	out.Comment("window plan " + p.String())
	s.Verify(s.goodDigest())
	f := s.fileByName(p.file)
	if f == nil || len(f.Chunks) == 0 {
		panic("harness: window blob without file " + p.file)
	}
	x := f.Chunks[p.idx%len(f.Chunks)]
	// the read that opens the window
	lo, hi := x.Off, x.Off+x.Size
	if p.trigger == "span" {
		if i := p.idx % len(f.Chunks); i > 0 {
			lo = f.Chunks[i-1].Off + f.Chunks[i-1].Size/2
		}
		if i := p.idx % len(f.Chunks); i+1 < len(f.Chunks) {
			hi = f.Chunks[i+1].Off + (f.Chunks[i+1].Size+1)/2
		}
	}
	inTrigger := func(c *Chunk) bool {
		if c.File != f {
			return false
		}
		if p.trigger == "pass-seq" || p.trigger == "pass-batch" {
			return true
		}
		return c.Off < hi && lo < c.Off+c.Size
	}
	// the chunks the other handle may touch: everything the trigger does not, shuffled
	var rest []*Chunk
	for _, c := range s.Chs {
		if c != x && !inTrigger(c) && !s.hidden(c.File) {
			rest = append(rest, c)
		}
	}
	for i := len(rest) - 1; i > 0; i-- {
		j := rnd.Intn(i + 1)
		rest[i], rest[j] = rest[j], rest[i]
	}
	take := func(n int) []*Chunk {
		if n > len(rest) {
			n = len(rest)
		}
		r := rest[:n]
		rest = rest[n:]
		return r
	}
	readChunk := func(c *Chunk) { s.Read(c.File, c.Off, c.Size) }

	// 1. warm up: some other chunks of the file, then X (so X is the most recent entry of the memory
	//    LRU): verified and cached -- unless the window is the one of X's own writer
	for i, n := 0, 0; i < len(f.Chunks) && n < p.warm; i++ {
		if c := f.Chunks[(p.idx+1+2*i)%len(f.Chunks)]; c != x {
			readChunk(c)
			n++
		}
	}
	if p.site != SiteCommit || p.whole {
		readChunk(x)
	}
	// 2. optionally push X out of the memory LRU and bring it back through the descriptor LRU
	if p.preEvict > 0 {
		for _, c := range take(p.preEvict) {
			readChunk(c)
		}
		readChunk(x)
	}
	// 3. arm: inside the window the second handle reads `others` other chunks
	key := s.VR.GenID(x.File.ID, x.Off, x.Size)
	if p.whole {
		key, _ = s.wholeKey(f)
	}
	others := take(p.others)
	s.Win.Arm(p.site, key, func() {
		s.Out.Comment(fmt.Sprintf("window open site=%s: second handle reads %d other chunks", p.site, len(others)))
		for _, c := range others {
			readChunk(c)
		}
		s.Out.Comment("window closes")
	})
	// 4. the operation that goes through the window
	switch p.trigger {
	case "pass-seq":
		s.PassWindow(f, 1, 1) // every chunk is "large": prefetchEntireFileSequential
	case "pass-batch":
		s.PassWindow(f, 4*x.Size+int64(rnd.Intn(3))*x.Size, 1+rnd.Intn(3)) // processBatchChunks
	default:
		s.Read(f, lo, hi-lo)
	}
	fired = !s.Win.Disarm()
	// 5. afterwards: what the window left behind must still be served right
	readChunk(x)
	s.readAll(rnd)
	if p.trigger == "pass-seq" || p.trigger == "pass-batch" {
		s.PassWindow(f, 1, 1)
	}
	lruClass := "default"
	if p.lru > 0 {
		lruClass = "small"
	}
	evict := "noevict"
	eff := p.lru
	if eff == 0 {
		eff = 10
	}
	if len(others) >= eff {
		evict = "evict"
	}
	if fired {
		out.Count("window-fired-" + p.site)
		out.Distinct(fmt.Sprintf("window/%s/%s/whole=%v/lru=%s/fds=%d/pre=%v/%s/%s/%s", p.site, p.trigger, p.whole, lruClass, p.fds,
			p.preEvict > 0, evict, b.Comp, cfg.Stack.Name))
	} else {
		out.Count("window-not-fired-" + p.site)
	}
	return fired
}

func randomWinPlan(rnd *verifutil.Rand) winPlan {
	p := winPlan{
		lru:  []int{0, 1, 2, 3, 5}[rnd.Intn(5)],
		fds:  []int{0, 1, 2}[rnd.Intn(3)],
		site: []string{SiteGet, SiteReadAt, SiteReadAt, SiteCommit}[rnd.Intn(4)],
		file: []string{"big", "mid", "mid"}[rnd.Intn(3)],
		idx:  rnd.Intn(40),
	}
	eff := p.lru
	if eff == 0 {
		eff = 10
	}
	p.trigger = []string{"read", "read", "span", "pass-seq", "pass-batch"}[rnd.Intn(5)]
	if p.trigger == "pass-seq" || p.trigger == "pass-batch" {
		p.file = "mid"
		p.warm = rnd.Intn(6)
		if p.site == SiteCommit {
			p.whole = rnd.Bool()
		}
	}
	switch rnd.Intn(5) {
	case 0: // fewer additions than the LRU holds: nothing is evicted
		p.others = rnd.Intn(eff + 1)
	default:
		p.others = eff + 1 + rnd.Intn(2*eff+6)
	}
	if rnd.Intn(4) == 0 {
		p.preEvict = eff + 1 + rnd.Intn(3)
	}
	return p
}

// RunWindow generates the window scenarios of one harness run.
func RunWindow(out *verifutil.Out, rnd *verifutil.Rand, cfg Config) error {
	pool, err := buildWindowPool(rnd, cfg.Thorough)
	if err != nil {
		return err
	}
	fired := 0
	run := func(b *Blob, p winPlan, tag string) {
		if windowScenario(out, rnd, cfg, b, p, tag) {
			fired++
		}
	}
	// hand-written shapes first, on every blob
	for _, b := range pool {
		// a cache hit of chunk 0 with the default LRU while the other handle reads the rest of the file
		run(b, winPlan{site: SiteGet, file: "big", idx: 0, others: 39, trigger: "read"}, "win-hit-default")
		// the caller already holds the Reader; tiny LRU; a read spanning three chunks
		run(b, winPlan{lru: 2, site: SiteReadAt, file: "mid", idx: 3, others: 9, trigger: "span"}, "win-hit-span")
		// the passthrough merge copies a cached chunk into the whole-file entry (sequential and batch paths)
		run(b, winPlan{lru: 3, site: SiteReadAt, file: "mid", idx: 1, warm: 3, others: 12, trigger: "pass-seq"}, "win-merge-seq")
		run(b, winPlan{lru: 6, site: SiteReadAt, file: "mid", idx: 5, warm: 4, others: 20, trigger: "pass-batch"}, "win-merge-batch")
		// the writer of a freshly verified chunk / of the merged file holds its pooled buffer
		run(b, winPlan{lru: 2, site: SiteCommit, file: "big", idx: 7, others: 8, trigger: "read"}, "win-commit")
		run(b, winPlan{lru: 2, site: SiteCommit, file: "mid", idx: 2, whole: true, warm: 2, others: 8, trigger: "pass-seq"}, "win-commit-whole")
		// X left the memory LRU and is served through the descriptor LRU when the window opens
		run(b, winPlan{lru: 1, fds: 1, site: SiteReadAt, file: "big", idx: 11, preEvict: 3, others: 6, trigger: "read"}, "win-fd")
	}
	for i := 0; i < cfg.N; i++ {
		run(pool[rnd.Intn(len(pool))], randomWinPlan(rnd), fmt.Sprintf("win-random-%d", i))
	}
	if fired == 0 {
		return fmt.Errorf("no window scenario ran its hook: the stream no longer reaches the chunk cache of the reader")
	}
	return nil
}
