//go:build verif

package verifc01

import (
	"fmt"
	"runtime"
	"strings"
	"time"

	"github.com/containerd/stargz-snapshotter/internal/verifutil"
	digest "github.com/opencontainers/go-digest"
)

// Config of one harness run.
type Config struct {
	Stack    Stack
	N        int      // random scenarios
	Races    int      // race scenarios
	Thorough bool
	Caches   []string // chunk cache kinds: mem, dir, dirdirect
	Single   bool     // the adapter supports ReadAndCache of one chunk
	// LayerLevel: Stack.NewReader returns an adapter over a layer object (Verify / SkipVerify / l.r).
	LayerLevel bool
	// NoMinChunk: leave out blobs built with a min-chunk-size (several chunks per compressed stream).
	NoMinChunk bool
}

// compressible pseudo-random content
func genData(rnd *verifutil.Rand, n int) []byte {
	words := []string{"alpha", "beta", "gamma", "delta", "0123456789", "stargz", "\n", " ", "xx", "layer"}
	var sb strings.Builder
	for sb.Len() < n {
		if rnd.Intn(4) == 0 {
			sb.WriteByte(byte(rnd.Intn(256)))
		} else {
			sb.WriteString(words[rnd.Intn(len(words))])
		}
	}
	return []byte(sb.String()[:n])
}

func genFiles(rnd *verifutil.Rand, chunk int) []FileSpec {
	sizes := []int{0, 1, chunk - 1, chunk, chunk + 1, 2 * chunk, 3*chunk + 2, 5*chunk + chunk/2}
	n := 2 + rnd.Intn(4)
	var fs []FileSpec
	for i := 0; i < n; i++ {
		sz := sizes[rnd.Intn(len(sizes))]
		if sz < 0 {
			sz = 0
		}
		name := fmt.Sprintf("f%d", i)
		if i == n-1 {
			name = "d/" + name
		}
		fs = append(fs, FileSpec{Name: name, Data: genData(rnd, sz)})
	}
	// at least one multi-chunk and one single-chunk file
	fs = append(fs, FileSpec{Name: "multi", Data: genData(rnd, 4*chunk+1)})
	fs = append(fs, FileSpec{Name: "one", Data: genData(rnd, max(1, chunk/2))})
	return fs
}

type blobSpec struct {
	comp     string
	chunk    int
	minChunk int
}

func buildPool(rnd *verifutil.Rand, thorough, noMinChunk bool) ([]*Blob, error) {
	specs := []blobSpec{
		{"gzip", 7, 0}, {"zstd", 16, 0}, {"ext", 5, 0}, {"gzip", 64, 0}, {"gzip", 9, 40}, {"zstd", 11, 60},
	}
	if thorough {
		specs = append(specs, blobSpec{"gzip", 3, 0}, blobSpec{"zstd", 100, 0}, blobSpec{"ext", 33, 0},
			blobSpec{"gzip", 1000, 0}, blobSpec{"ext", 8, 50}, blobSpec{"gzip", 1, 0}, blobSpec{"zstd", 4, 0},
			blobSpec{"gzip", 20, 500})
	}
	var pool []*Blob
	for _, sp := range specs {
		if noMinChunk && sp.minChunk > 0 {
			continue
		}
		b, err := BuildBlob(sp.comp, sp.chunk, sp.minChunk, genFiles(rnd, sp.chunk))
		if err != nil {
			return nil, fmt.Errorf("build %v: %w", sp, err)
		}
		// the builder's digest must be what the oracle decodes from the pristine blob
		own := OwnTOCDigests(b.Comp, b.B0, b.Ext0)
		if len(own) == 0 || own[0] != b.D0 {
			return nil, fmt.Errorf("oracle decoder disagrees with the builder on the pristine TOC digest: %v vs %v", own, b.D0)
		}
		pool = append(pool, b)
	}
	return pool, nil
}

// digests presented for verification: the builder's, the re-serialised one, near misses.
func digestMenu(rnd *verifutil.Rand, s *Session) []digest.Digest {
	d0 := string(s.B.D0)
	hexpart := d0[len("sha256:"):]
	flip := func(i int) string {
		b := []byte(hexpart)
		if b[i] == '0' {
			b[i] = '1'
		} else {
			b[i] = '0'
		}
		return "sha256:" + string(b)
	}
	m := []digest.Digest{
		s.B.D0,
		digest.Digest(flip(len(hexpart) - 1)),
		digest.Digest(flip(0)),
		digest.Digest(flip(rnd.Intn(len(hexpart)))),
		digest.Digest("sha256:" + hexpart[:16]),
		digest.Digest(d0 + "00"),
		digest.Digest("sha256:" + strings.ToUpper(hexpart)),
		digest.FromBytes(rnd.Bytes(16)),
		digest.Digest(""),
	}
	for _, v := range s.Views {
		if v.TocDigest != "" {
			m = append(m, v.TocDigest)
		}
	}
	if len(s.TocOK) > 0 {
		m = append(m, s.TocOK[0])
	}
	return m
}

func (s *Session) goodDigest() digest.Digest {
	if len(s.TocOK) > 0 {
		return s.TocOK[0]
	}
	return s.B.D0
}

func (s *Session) pickView(rnd *verifutil.Rand) *View { return s.Views[rnd.Intn(len(s.Views))] }

func (s *Session) setViewC(v *View) {
	if s.Cur != v {
		s.SetView(v)
		s.Out.Comment("view " + v.Kind)
	}
}

func (s *Session) randFile(rnd *verifutil.Rand, nonEmpty bool) *File {
	for try := 0; try < 20; try++ {
		f := s.Files[rnd.Intn(len(s.Files))]
		if !nonEmpty || len(f.Chunks) > 0 {
			return f
		}
	}
	return s.Files[0]
}

// a read plan on f
func (s *Session) randRead(rnd *verifutil.Rand, f *File) (off, n int64) {
	if f.Size == 0 {
		return 0, int64(rnd.Intn(3))
	}
	switch rnd.Pick(4, 3, 3, 2, 1, 1) {
	case 0: // whole file
		return 0, f.Size
	case 1: // one whole chunk
		c := f.Chunks[rnd.Intn(len(f.Chunks))]
		return c.Off, c.Size
	case 2: // arbitrary range
		off = rnd.Range(0, f.Size-1)
		return off, rnd.Range(1, f.Size-off)
	case 3: // straddling a chunk boundary
		c := f.Chunks[rnd.Intn(len(f.Chunks))]
		off = max64(0, c.Off+c.Size-1-int64(rnd.Intn(2)))
		return off, min64(f.Size-off, int64(2+rnd.Intn(3)))
	case 4: // one byte
		return rnd.Range(0, f.Size-1), 1
	default: // tail, over-long
		off = rnd.Range(0, f.Size)
		return off, f.Size + 5
	}
}

func (s *Session) pause(rnd *verifutil.Rand) func(int) {
	// a tiny PRNG-free jitter source would make races irreproducible anyway; keep it cheap
	k := rnd.Intn(4)
	return func(who int) {
		switch (k + who) % 4 {
		case 0:
		case 1:
			runtime.Gosched()
		case 2:
			time.Sleep(time.Microsecond * time.Duration(5*(k+1)))
		default:
			for i := 0; i < 3; i++ {
				runtime.Gosched()
			}
		}
	}
}

// open a session; tag describes the scenario for failure messages.
func open(out *verifutil.Out, rnd *verifutil.Rand, cfg Config, b *Blob, openView *View, views []*View, ckind, tag string) *Session {
	s, err := OpenSession(out, rnd, cfg.Stack, b, openView, ckind)
	if err != nil {
		panic(fmt.Sprintf("harness: cannot set up a session: %v", err))
	}
	if s == nil {
		out.Comment(fmt.Sprintf("open refused %s %s open=%s", cfg.Stack.Name, b.Comp, openView.Kind))
		out.Count("open-refused-" + openView.Kind)
		return nil
	}
	if len(s.Files) == 0 { // an altered TOC without regular files: nothing can be read
		out.Comment(fmt.Sprintf("open without files %s %s open=%s", cfg.Stack.Name, b.Comp, openView.Kind))
		out.Count("open-empty-" + openView.Kind)
		s.Close()
		return nil
	}
	s.Views = views
	s.LayerLevel = cfg.LayerLevel
	s.Tag = fmt.Sprintf("%s[%s %s %s]", tag, cfg.Stack.Name, b.Comp, ckind)
	out.Comment(fmt.Sprintf("session %s open=%s", s.Tag, openView.Kind))
	s.emit(s.NewLine(false, false), "ok")
	out.Count("open-ok-" + openView.Kind)
	if s.Irregular {
		out.Count("open-irregular-" + openView.Kind)
	}
	return s
}

func (s *Session) readAll(rnd *verifutil.Rand) {
	for _, f := range s.Files {
		s.Read(f, 0, f.Size)
	}
}

// firstAltered returns a chunk whose bytes under view v do not match its digest (nil: none).
func (s *Session) firstAltered(v *View) *Chunk {
	cur := s.Cur
	s.SetView(v)
	defer s.SetView(cur)
	for _, c := range s.Chs {
		if s.own(c) != 'g' {
			return c
		}
	}
	return nil
}

// scripted scenarios: the shapes the property names, on every blob of the pool.
func scripted(out *verifutil.Out, rnd *verifutil.Rand, cfg Config, b *Blob, ckind string) {
	pr := b.Pristine()
	mk := func(k string) *View {
		for i := 0; i < 5; i++ {
			if v, ok := b.Alter(rnd, k); ok {
				return v
			}
		}
		return nil
	}
	// 1. pristine: verify, read everything, prefetch everything, passthrough
	if s := open(out, rnd, cfg, b, pr, []*View{pr}, ckind, "pristine"); s != nil {
		s.Verify(digest.FromBytes([]byte("x")))
		s.Verify(s.B.D0)
		s.readAll(rnd)
		s.CacheAll(nil)
		for _, f := range s.Files {
			s.Pass(f, 64, 2)
			s.ReadFd(f)
		}
		out.Distinct("pristine/" + b.Comp + "/" + ckind + "/" + cfg.Stack.Name)
		s.Close()
	}
	// 2. a chunk replaced by a valid member with other content: verified reads fail, re-reads
	//    (altered or healed source) never return it, passthrough refuses it
	for _, k := range []string{"replace", "bitflip", "swap"} {
		v := mk(k)
		if v == nil {
			continue
		}
		views := []*View{pr, v}
		if s := open(out, rnd, cfg, b, pr, views, ckind, "read-altered-"+k); s != nil {
			s.Verify(s.B.D0)
			s.setViewC(v)
			if c := s.firstAltered(v); c != nil {
				s.Read(c.File, c.Off, c.Size)
				s.Read(c.File, 0, c.File.Size)
				s.Pass(c.File, 32, 1)
				s.ReadFd(c.File)
				s.setViewC(pr)
				s.Read(c.File, c.Off, c.Size)
				s.setViewC(v)
				s.Read(c.File, 0, c.File.Size)
				out.Distinct("read-altered/" + k + "/" + b.Comp + "/" + ckind + "/" + cfg.Stack.Name)
			}
			s.readAll(rnd)
			s.Close()
		}
		// 3. prefetch of the altered chunk BEFORE the decision: every later verify fails
		if s := open(out, rnd, cfg, b, pr, views, ckind, "prefetch-before-"+k); s != nil {
			s.setViewC(v)
			s.CacheAll(nil)
			s.setViewC(pr)
			s.Verify(s.B.D0)
			s.CacheAll(nil)
			s.Verify(s.B.D0)
			out.Distinct("prefetch-before/" + k + "/" + b.Comp + "/" + ckind + "/" + cfg.Stack.Name)
			s.Close()
		}
		// 4. ... AFTER the decision: aborted, never committed, reads stay clean
		if s := open(out, rnd, cfg, b, pr, views, ckind, "prefetch-after-"+k); s != nil {
			s.Verify(s.B.D0)
			s.setViewC(v)
			s.CacheAll(nil)
			if cfg.Single {
				if c := s.firstAltered(v); c != nil {
					s.Prefetch(c)
				}
			}
			s.readAll(rnd)
			s.setViewC(pr)
			s.readAll(rnd)
			out.Distinct("prefetch-after/" + k + "/" + b.Comp + "/" + ckind + "/" + cfg.Stack.Name)
			s.Close()
		}
	}
	// 4a. a prefetch worker held inside the fetch of the altered chunk while VerifyTOC runs: its
	//     critical section comes after the decision, so the chunk must be aborted, never committed
	for _, k := range []string{"replace", "bitflip"} {
		v := mk(k)
		if v == nil {
			continue
		}
		if s := open(out, rnd, cfg, b, pr, []*View{pr, v}, ckind, "straddle-"+k); s != nil {
			s.setViewC(v)
			if c := s.firstAltered(v); c != nil && c.COff >= 0 {
				s.Straddle(c, s.B.D0)
				s.readAll(rnd)
				s.setViewC(pr)
				s.readAll(rnd)
				out.Distinct("straddle/" + k + "/" + b.Comp + "/" + ckind + "/" + cfg.Stack.Name)
			}
			s.Close()
		}
	}
	// 4b. background fetch through another reader (Cache(WithReader)): a source that serves a
	//     consistently forged (chunk, TOC) pair / an altered chunk with the right TOC / an altered TOC
	for _, k := range []string{"forge", "replace", "toc-digest", "toc-nodigest"} {
		v := mk(k)
		if v == nil {
			continue
		}
		if s := open(out, rnd, cfg, b, pr, []*View{pr, v}, ckind, "clone-"+k); s != nil {
			s.Verify(s.B.D0)
			if s.CacheClone(v) {
				s.readAll(rnd)
				s.setViewC(v)
				s.readAll(rnd)
				out.Distinct("clone/" + k + "/" + b.Comp + "/" + ckind + "/" + cfg.Stack.Name)
			}
			s.Close()
		}
	}
	// 5. altered TOC at open time
	for _, k := range []string{"toc-digest", "toc-nodigest", "nodigest-replace", "toc-size", "toc-offset", "toc-same", "toc-trailing", "forge", "ext-bitflip", "truncate", "bitflip-any"} {
		v := mk(k)
		if v == nil {
			continue
		}
		if s := open(out, rnd, cfg, b, v, []*View{pr, v}, ckind, "open-"+k); s != nil {
			s.Verify(s.B.D0)
			if v.TocDigest != "" {
				s.Verify(v.TocDigest)
			}
			if !s.VerifiedOK && rnd.Bool() {
				s.Verify(s.goodDigest())
			}
			s.readAll(rnd)
			s.CacheAll(nil)
			s.setViewC(pr)
			s.readAll(rnd)
			out.Distinct("open-altered/" + k + "/" + b.Comp + "/" + ckind + "/" + cfg.Stack.Name)
			s.Close()
		}
	}
}

// pickBlob: zstd blobs are drawn less often (every read of the real zstd decoder allocates its
// window, ~10 ms).
func pickBlob(rnd *verifutil.Rand, pool []*Blob) *Blob {
	for {
		b := pool[rnd.Intn(len(pool))]
		if b.Comp != "zstd" || rnd.Intn(5) == 0 {
			return b
		}
	}
}

// one random scenario
func random(out *verifutil.Out, rnd *verifutil.Rand, cfg Config, pool []*Blob, idx int) {
	b := pickBlob(rnd, pool)
	ckind := cfg.Caches[rnd.Intn(len(cfg.Caches))]
	pr := b.Pristine()
	views := []*View{pr}
	nalt := 1 + rnd.Intn(2)
	var kinds []string
	for i := 0; i < nalt; i++ {
		k := AlterKinds[rnd.Intn(len(AlterKinds))]
		if v, ok := b.Alter(rnd, k); ok {
			views = append(views, v)
			kinds = append(kinds, k)
		}
	}
	openView := pr
	if rnd.Intn(3) == 0 {
		openView = views[rnd.Intn(len(views))]
	}
	// undisciplined: data is read before the reader is verified (what a layer object never does
	// with a reader it later hands out as verified); only the model is compared there.
	undisciplined := rnd.Intn(6) == 0
	tag := "random"
	if undisciplined {
		tag = "raw-undisciplined"
	}
	s := open(out, rnd, cfg, b, openView, views, ckind, fmt.Sprintf("%s#%d", tag, idx))
	if s == nil {
		return
	}
	defer s.Close()
	menu := digestMenu(rnd, s)
	nops := 6 + rnd.Intn(14)
	shape := []string{b.Comp, ckind, cfg.Stack.Name, openView.Kind, strings.Join(kinds, "+")}
	for i := 0; i < nops; i++ {
		if rnd.Intn(3) == 0 {
			s.setViewC(s.pickView(rnd))
		}
		canRead := s.VerifiedOK || undisciplined
		switch rnd.Pick(3, 1, 3, 2, 8, 2, 1, 1) {
		case 0: // verify
			d := menu[rnd.Intn(len(menu))]
			if rnd.Intn(3) == 0 {
				d = s.goodDigest()
			}
			s.Verify(d)
			shape = append(shape, "v")
		case 1:
			s.Skip()
		case 2: // prefetch one chunk
			if cfg.Single && len(s.Chs) > 0 && s.B.MinChunk == 0 {
				s.Prefetch(s.Chs[rnd.Intn(len(s.Chs))])
				shape = append(shape, "p")
			} else {
				s.CacheAll(map[int]bool{s.randFile(rnd, true).Idx: true})
				shape = append(shape, "c")
			}
		case 3: // Cache() over a selection
			if rnd.Bool() {
				s.CacheAll(nil)
			} else {
				s.CacheAll(map[int]bool{s.randFile(rnd, true).Idx: true, s.randFile(rnd, false).Idx: true})
			}
			shape = append(shape, "c")
		case 4: // read
			if !canRead {
				s.Verify(s.goodDigest())
				continue
			}
			f := s.randFile(rnd, rnd.Intn(8) != 0)
			off, n := s.randRead(rnd, f)
			if err := s.Read(f, off, n); err != nil && rnd.Bool() {
				// after a failed read: read again, from the same or from the healed source
				if rnd.Bool() {
					s.setViewC(pr)
				}
				s.Read(f, off, n)
				shape = append(shape, "R")
			}
			shape = append(shape, "r")
		case 5: // passthrough
			if !canRead {
				continue
			}
			f := s.randFile(rnd, rnd.Intn(4) != 0)
			workers := 1
			if s.B.MinChunk == 0 {
				workers = 1 + rnd.Intn(3)
			}
			mb := []int64{1, 8, 64, 1 << 20}[rnd.Intn(4)]
			s.Pass(f, mb, workers)
			s.ReadFd(f)
			shape = append(shape, "P")
		case 6:
			if !canRead {
				continue
			}
			s.ReadFd(s.randFile(rnd, false))
		case 7: // background fetch through a clone
			if s.CacheClone(s.pickView(rnd)) {
				shape = append(shape, "k")
			}
		}
	}
	out.Distinct(strings.Join(shape, "/"))
}

// one race scenario: Cache() against VerifyTOC with real goroutines
func race(out *verifutil.Out, rnd *verifutil.Rand, cfg Config, pool []*Blob, idx int) {
	b := pickBlob(rnd, pool)
	ckind := cfg.Caches[rnd.Intn(len(cfg.Caches))]
	pr := b.Pristine()
	k := []string{"replace", "replace", "bitflip", "swap", "truncate"}[rnd.Intn(5)]
	v, ok := b.Alter(rnd, k)
	if !ok {
		return
	}
	s := open(out, rnd, cfg, b, pr, []*View{pr, v}, ckind, fmt.Sprintf("race#%d", idx))
	if s == nil {
		return
	}
	defer s.Close()
	if rnd.Intn(3) != 0 {
		s.setViewC(v)
	}
	d := s.B.D0
	if rnd.Intn(6) == 0 {
		d = digest.FromBytes(rnd.Bytes(4))
	}
	var verr, cerr error
	if c := s.firstAltered(v); s.Cur == v && c != nil && c.COff >= 0 && rnd.Bool() {
		verr, cerr = s.Straddle(c, d) // deterministic: the fetch of c straddles VerifyTOC
	} else {
		verr, cerr = s.Race(nil, d, s.pause(rnd))
	}
	// afterwards: everything that can be read must be clean, everything cached must be pinned
	if verr != nil {
		s.Verify(s.B.D0)
	}
	if s.VerifiedOK {
		s.readAll(rnd)
		s.setViewC(pr)
		s.readAll(rnd)
	}
	out.Distinct(fmt.Sprintf("race/%s/%s/%s/%s/v=%v/c=%v", b.Comp, ckind, cfg.Stack.Name, s.Cur.Kind, verr == nil, cerr == nil))
}

// Run generates the scenarios of one harness run.
func Run(out *verifutil.Out, rnd *verifutil.Rand, cfg Config) error {
	pool, err := buildPool(rnd, cfg.Thorough, cfg.NoMinChunk)
	if err != nil {
		return err
	}
	for i, b := range pool {
		scripted(out, rnd, cfg, b, cfg.Caches[i%len(cfg.Caches)])
	}
	for i := 0; i < cfg.N; i++ {
		random(out, rnd, cfg, pool, i)
	}
	for i := 0; i < cfg.Races; i++ {
		race(out, rnd, cfg, pool, i)
	}
	return nil
}


// ---------------------------------------------------------------------------------------------
// layer level: orders of Verify / SkipVerify requests reaching ONE layer object

func layerScripted(out *verifutil.Out, rnd *verifutil.Rand, cfg Config, b *Blob, ckind string) {
	pr := b.Pristine()
	var v *View
	for _, k := range []string{"replace", "replace", "bitflip", "swap"} {
		if x, ok := b.Alter(rnd, k); ok {
			v = x
			break
		}
	}
	if v == nil {
		return
	}
	views := []*View{pr, v}
	wrong := func(s *Session) digest.Digest { return digestMenu(rnd, s)[1+rnd.Intn(7)] }
	readAltered := func(s *Session) {
		s.setViewC(v)
		if c := s.firstAltered(v); c != nil {
			s.Read(c.File, c.Off, c.Size)
			s.Read(c.File, 0, c.File.Size)
		}
	}
	shapes := map[string]func(s *Session){
		"noreader-read": func(s *Session) { s.readAll(rnd); s.Verify(s.B.D0); s.readAll(rnd) },
		"skip-verifygood": func(s *Session) {
			s.Skip()
			s.Verify(s.B.D0)
			readAltered(s)
			s.Verify(s.B.D0)
			s.readAll(rnd)
		},
		"skip-verifybad": func(s *Session) { s.Skip(); s.Verify(wrong(s)); s.Verify(s.B.D0); readAltered(s) },
		"verifygood-verifybad": func(s *Session) {
			s.Verify(s.B.D0)
			s.Verify(wrong(s))
			s.Verify(digest.FromBytes(rnd.Bytes(8)))
			readAltered(s)
			s.Verify(s.B.D0)
			s.setViewC(pr)
			s.readAll(rnd)
		},
		"verifybad-verifygood": func(s *Session) { s.Verify(wrong(s)); s.readAll(rnd); s.Verify(s.B.D0); readAltered(s); s.readAll(rnd) },
		"verify-skip-read": func(s *Session) {
			s.Verify(s.B.D0)
			s.Skip()
			readAltered(s)
			s.setViewC(pr)
			s.readAll(rnd)
			s.setViewC(v)
			s.readAll(rnd)
		},
		"skip-read-verify-read": func(s *Session) {
			s.Skip()
			readAltered(s)
			s.Verify(s.B.D0)
			s.Verify(wrong(s))
			readAltered(s)
			s.setViewC(pr)
			s.readAll(rnd)
		},
		"prefetchbad-verify-skip-verify": func(s *Session) {
			s.setViewC(v)
			s.CacheAll(nil)
			s.Verify(s.B.D0)
			s.Skip()
			s.Verify(s.B.D0)
			s.readAll(rnd)
		},
		"verify-pass": func(s *Session) {
			s.Verify(s.B.D0)
			s.setViewC(v)
			for _, f := range s.Files {
				s.Pass(f, 16, 1)
				s.ReadFd(f)
			}
			s.readAll(rnd)
		},
	}
	names := []string{"noreader-read", "skip-verifygood", "skip-verifybad", "verifygood-verifybad", "verifybad-verifygood",
		"verify-skip-read", "skip-read-verify-read", "prefetchbad-verify-skip-verify", "verify-pass"}
	for _, n := range names {
		if s := open(out, rnd, cfg, b, pr, views, ckind, "layer-"+n); s != nil {
			shapes[n](s)
			out.Distinct("layer/" + n + "/" + b.Comp + "/" + ckind + "/" + v.Kind)
			s.Close()
		}
	}
}

func layerRandom(out *verifutil.Out, rnd *verifutil.Rand, cfg Config, pool []*Blob, idx int) {
	b := pickBlob(rnd, pool)
	ckind := cfg.Caches[rnd.Intn(len(cfg.Caches))]
	pr := b.Pristine()
	views := []*View{pr}
	var kinds []string
	for i := 0; i < 1+rnd.Intn(2); i++ {
		k := AlterKinds[rnd.Intn(len(AlterKinds))]
		if v, ok := b.Alter(rnd, k); ok {
			views = append(views, v)
			kinds = append(kinds, k)
		}
	}
	openView := pr
	if rnd.Intn(4) == 0 {
		openView = views[rnd.Intn(len(views))]
	}
	s := open(out, rnd, cfg, b, openView, views, ckind, fmt.Sprintf("layer-random#%d", idx))
	if s == nil {
		return
	}
	defer s.Close()
	menu := digestMenu(rnd, s)
	shape := []string{"layer", b.Comp, ckind, openView.Kind, strings.Join(kinds, "+")}
	for i, nops := 0, 5+rnd.Intn(12); i < nops; i++ {
		if rnd.Intn(3) == 0 {
			s.setViewC(s.pickView(rnd))
		}
		switch rnd.Pick(4, 2, 7, 2, 1, 1) {
		case 0:
			d := menu[rnd.Intn(len(menu))]
			if rnd.Intn(2) == 0 {
				d = s.goodDigest()
			}
			s.Verify(d)
			shape = append(shape, "v")
		case 1:
			s.Skip()
			shape = append(shape, "s")
		case 2:
			f := s.randFile(rnd, rnd.Intn(8) != 0)
			off, n := s.randRead(rnd, f)
			if err := s.Read(f, off, n); err != nil && rnd.Bool() {
				if rnd.Bool() {
					s.setViewC(pr)
				}
				s.Read(f, off, n)
			}
			shape = append(shape, "r")
		case 3:
			if rnd.Bool() {
				s.CacheAll(nil)
			} else {
				s.CacheAll(map[int]bool{s.randFile(rnd, true).Idx: true})
			}
			shape = append(shape, "c")
		case 4:
			f := s.randFile(rnd, true)
			workers := 1
			if s.B.MinChunk == 0 {
				workers = 1 + rnd.Intn(3)
			}
			s.Pass(f, []int64{4, 64, 1 << 20}[rnd.Intn(3)], workers)
			s.ReadFd(f)
			shape = append(shape, "P")
		case 5:
			if s.CacheClone(s.pickView(rnd)) {
				shape = append(shape, "k")
			}
		}
	}
	out.Distinct(strings.Join(shape, "/"))
}

// RunLayer generates the layer-level scenarios.
func RunLayer(out *verifutil.Out, rnd *verifutil.Rand, cfg Config) error {
	cfg.LayerLevel = true
	pool, err := buildPool(rnd, cfg.Thorough, cfg.NoMinChunk)
	if err != nil {
		return err
	}
	for i, b := range pool {
		layerScripted(out, rnd, cfg, b, cfg.Caches[i%len(cfg.Caches)])
	}
	for i := 0; i < cfg.N; i++ {
		layerRandom(out, rnd, cfg, pool, i)
	}
	return nil
}
