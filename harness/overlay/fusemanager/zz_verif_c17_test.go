//go:build verif

package fusemanager

// C17 harness: drives the REAL fusemanager.Server (real bolt store, real Init including the real
// service.NewFileSystem constructor) with recording fake snapshot.FileSystem instances injected
// through VerifWrapFileSystem, over generated histories of Init / Mount / Check / Unmount / Close /
// manager restart with scripted failures.  One canonical line per operation is compared with the
// Lean model (svdriver_c17); independently, the C17 predicate is evaluated on what the real code
// did (verifOracle).

import (
	"context"
	"encoding/json"
	"errors"
	"fmt"
	"go/ast"
	"go/parser"
	"go/token"
	"io"
	"os"
	"path/filepath"
	"runtime"
	"sort"
	"strconv"
	"strings"
	"testing"

	"github.com/moby/sys/mountinfo"
	"github.com/sirupsen/logrus"
	bolt "go.etcd.io/bbolt"

	fsconfig "github.com/containerd/stargz-snapshotter/fs/config"
	pb "github.com/containerd/stargz-snapshotter/fusemanager/api"
	"github.com/containerd/stargz-snapshotter/internal/verifutil"
	"github.com/containerd/stargz-snapshotter/service"
	"github.com/containerd/stargz-snapshotter/snapshot"
)

var verifLabelSets = []map[string]string{
	nil,
	{"a": "1"},
	{"containerd.io/snapshot/remote/stargz.reference": "example.com/x:1", "b": "2"},
}

func verifCanonLabels(m map[string]string) string {
	var ks []string
	for k := range m {
		ks = append(ks, k)
	}
	sort.Strings(ks)
	var sb strings.Builder
	for _, k := range ks {
		fmt.Fprintf(&sb, "%q=%q;", k, m[k])
	}
	return sb.String()
}

func verifLabelID(m map[string]string) string {
	c := verifCanonLabels(m)
	for i, l := range verifLabelSets {
		if verifCanonLabels(l) == c {
			return strconv.Itoa(i)
		}
	}
	return "?"
}

// verifFakeFs is a recording snapshot.FileSystem; its identity is its construction index.
type verifFakeFs struct {
	h       *verifHarness
	id      int
	gen     string         // configuration generation it was built from
	mounted map[string]int // mountpoint -> number of successful Mounts not undone by an Unmount
}

func verifOkStr(ok bool) string {
	if ok {
		return "ok"
	}
	return "fail"
}

func (f *verifFakeFs) Mount(ctx context.Context, mountpoint string, labels map[string]string) error {
	h := f.h
	ok := !h.failMount[mountpoint]
	mp := h.mpName(mountpoint)
	lab := verifLabelID(labels)
	h.calls = append(h.calls, fmt.Sprintf("M%d:%s:%s:%s", f.id, mp, lab, verifOkStr(ok)))
	h.mountCalls = append(h.mountCalls, verifMountCall{fs: f.id, mp: mountpoint, lab: lab, ok: ok})
	// oracle: a mountpoint with a live mount is never mounted again (on any instance)
	for _, g := range h.fakes {
		if g.mounted[mountpoint] > 0 {
			h.out.Fail("second-mount", fmt.Sprintf("fs.Mount(%s) on fs%d while it is live on fs%d", mp, f.id, g.id))
		}
	}
	// oracle: mounts go to the newest filesystem
	if f.id != h.newest {
		h.out.Fail("mount-on-stale-fs", fmt.Sprintf("fs.Mount(%s) on fs%d but the newest filesystem is fs%d", mp, f.id, h.newest))
	}
	if !ok {
		return errors.New("verif: scripted mount failure")
	}
	f.mounted[mountpoint]++
	return nil
}

func (f *verifFakeFs) Check(ctx context.Context, mountpoint string, labels map[string]string) error {
	h := f.h
	ok := !h.failCall
	mp := h.mpName(mountpoint)
	h.calls = append(h.calls, fmt.Sprintf("C%d:%s:%s:%s", f.id, mp, verifLabelID(labels), verifOkStr(ok)))
	if f.mounted[mountpoint] == 0 {
		h.out.Fail("check-wrong-fs", fmt.Sprintf("fs.Check(%s) sent to fs%d which has no live mount of it (owner: %s)", mp, f.id, h.ownerOf(mountpoint)))
	}
	if !ok {
		return errors.New("verif: scripted check failure")
	}
	return nil
}

func (f *verifFakeFs) Unmount(ctx context.Context, mountpoint string) error {
	h := f.h
	ok := !h.failCall
	mp := h.mpName(mountpoint)
	h.calls = append(h.calls, fmt.Sprintf("U%d:%s:%s", f.id, mp, verifOkStr(ok)))
	if f.mounted[mountpoint] == 0 {
		h.out.Fail("unmount-wrong-fs", fmt.Sprintf("fs.Unmount(%s) sent to fs%d which has no live mount of it (owner: %s)", mp, f.id, h.ownerOf(mountpoint)))
	}
	if !ok {
		return errors.New("verif: scripted unmount failure")
	}
	if f.mounted[mountpoint] > 0 {
		f.mounted[mountpoint]--
	}
	return nil
}

type verifMountCall struct {
	fs  int
	mp  string
	lab string
	ok  bool
}

type verifRec struct {
	lab string
	cfg string
}

type verifHarness struct {
	t         *testing.T
	out       *verifutil.Out
	base      string
	storePath string
	root      string
	mps       []string       // index -> path, in byte order (= bolt key order)
	mpIdx     map[string]int // path -> index
	isOs      []bool

	srv    *Server
	nextFs int
	fakes  []*verifFakeFs // fakes of the current manager process
	newest int            // id of the last constructed fake (-1: none in this process)

	// script of the operation in flight
	failCfgFunc   bool
	failConstruct bool
	failMount     map[string]bool
	failCall      bool
	calls         []string
	mountCalls    []verifMountCall
	constructed   int // id constructed by the Init in flight, -1 if none

	// oracle bookkeeping (derived from what the real code did, not from the model)
	closed    bool // Close() was called on this Server
	lastInit  string
	everBuilt bool // a filesystem was constructed since this manager process started
	revived   bool // an Init ran after Close() on the same Server
	histShape []string
}

func (h *verifHarness) mpName(path string) string {
	if i, ok := h.mpIdx[path]; ok {
		return strconv.Itoa(i)
	}
	return "?"
}

func (h *verifHarness) ownerOf(path string) string {
	var o []string
	for _, f := range h.fakes {
		if f.mounted[path] > 0 {
			o = append(o, fmt.Sprintf("fs%d", f.id))
		}
	}
	if len(o) == 0 {
		return "none"
	}
	return strings.Join(o, "+")
}

// owners: mountpoint -> ids of the fakes holding a live mount of it.
func (h *verifHarness) owners() map[string][]int {
	m := map[string][]int{}
	for _, f := range h.fakes {
		for p, n := range f.mounted {
			for i := 0; i < n; i++ {
				m[p] = append(m[p], f.id)
			}
		}
	}
	return m
}

func (h *verifHarness) wrap(fs snapshot.FileSystem, err error) (snapshot.FileSystem, error) {
	gen := "?"
	if h.srv != nil && h.srv.config != nil {
		gen = strconv.FormatInt(h.srv.config.Config.PrefetchSize, 10)
	}
	if err != nil {
		// the REAL constructor must work offline in the temp root; anything else is an environment problem
		h.out.Fail("real-newfilesystem-failed", err.Error())
	}
	if h.failConstruct {
		h.calls = append(h.calls, "NX"+gen)
		return nil, errors.New("verif: scripted construction failure")
	}
	f := &verifFakeFs{h: h, id: h.nextFs, gen: gen, mounted: map[string]int{}}

	h.nextFs++
	h.fakes = append(h.fakes, f)
	h.newest = f.id
	h.constructed = f.id
	h.everBuilt = true
	h.calls = append(h.calls, fmt.Sprintf("N%d:%s", f.id, gen))
	return f, nil
}

func (h *verifHarness) cfgFunc(cc *ConfigContext) ([]service.Option, error) {
	gen := strconv.FormatInt(cc.Config.Config.PrefetchSize, 10)
	h.calls = append(h.calls, fmt.Sprintf("F%s:%s", gen, verifOkStr(!h.failCfgFunc)))
	if h.failCfgFunc {
		return nil, errors.New("verif: scripted configFunc failure")
	}
	return nil, nil
}

// newServer starts a manager "process" on the kept store path.
func (h *verifHarness) newServer() {
	if h.srv != nil && !h.closed {
		// the old process dies: its bolt handle (and file lock) goes away, the file stays
		h.srv.ms.Close()
	}
	srv, err := NewFuseManager(context.Background(), nil, nil, h.storePath, "")
	if err != nil {
		h.t.Fatalf("NewFuseManager: %v", err)
	}
	h.srv = srv
	h.fakes = nil
	h.newest = -1
	h.closed = false
	h.lastInit = ""
	h.everBuilt = false
	h.revived = false
}

func (h *verifHarness) reset() {
	if h.srv != nil && !h.closed {
		h.srv.ms.Close()
	}
	h.srv = nil
	os.Remove(h.storePath)
	h.nextFs = 0
	h.histShape = nil
	h.newServer()
}

// readStore returns the bolt bucket content (nil, false when the database is closed).
func (h *verifHarness) readStore() (map[string]verifRec, []string, bool) {
	recs := map[string]verifRec{}
	var keys []string
	err := h.srv.ms.View(func(tx *bolt.Tx) error {
		b := tx.Bucket(fuseInfoBucket)
		if b == nil {
			return nil
		}
		return b.ForEach(func(k, v []byte) error {
			fi := &fuseInfo{}
			if err := json.Unmarshal(v, fi); err != nil {
				return err
			}
			if fi.Mountpoint != string(k) {
				h.out.Fail("store-key-ne-mountpoint", fmt.Sprintf("key %q holds record of %q", k, fi.Mountpoint))
			}
			recs[string(k)] = verifRec{lab: verifLabelID(fi.Labels), cfg: strconv.FormatInt(fi.Config.PrefetchSize, 10)}
			keys = append(keys, string(k)) // ForEach order = bolt key order
			return nil
		})
	})
	if err != nil {
		return nil, nil, false
	}
	return recs, keys, true
}

func (h *verifHarness) fsMapSnapshot() map[string]int {
	m := map[string]int{}
	h.srv.fsMap.Range(func(k, v any) bool {
		id := -1
		if f, ok := v.(*verifFakeFs); ok {
			id = f.id
		}
		m[k.(string)] = id
		return true
	})
	return m
}

func verifJoin(l []string) string {
	if len(l) == 0 {
		return "-"
	}
	return strings.Join(l, ",")
}

type verifState struct {
	store     map[string]verifRec
	storeOpen bool
	fsMap     map[string]int
	owners    map[string][]int
}

func (h *verifHarness) snapshot() verifState {
	recs, _, open := h.readStore()
	return verifState{store: recs, storeOpen: open, fsMap: h.fsMapSnapshot(), owners: h.owners()}
}

// stateLine renders the observable state exactly like svdriver_c17.
func (h *verifHarness) stateLine(res string) string {
	st := map[int32]string{FuseManagerNotReady: "notready", FuseManagerWaitInit: "wait", FuseManagerReady: "ready"}[h.srv.status]
	cur := "-"
	if h.srv.curFs != nil {
		if f, ok := h.srv.curFs.(*verifFakeFs); ok {
			cur = strconv.Itoa(f.id)
		} else {
			cur = "real"
		}
	}
	cfg := "-"
	if h.srv.config != nil {
		cfg = strconv.FormatInt(h.srv.config.Config.PrefetchSize, 10)
	}
	recs, keys, open := h.readStore()
	var store []string
	if open {
		// keys are in bolt order; the mountpoint numbering is the byte order, so this is ascending
		for _, k := range keys {
			store = append(store, fmt.Sprintf("%s:%s:%s", h.mpName(k), recs[k].lab, recs[k].cfg))
		}
	} else if _, err := os.Stat(h.storePath); err == nil {
		store = append(store, "closed-but-file-exists")
	}
	fm := h.fsMapSnapshot()
	var fks []string
	for k := range fm {
		fks = append(fks, k)
	}
	sort.Slice(fks, func(i, j int) bool { return h.mpIdx[fks[i]] < h.mpIdx[fks[j]] })
	var fsmap []string
	for _, k := range fks {
		fsmap = append(fsmap, fmt.Sprintf("%s:%d", h.mpName(k), fm[k]))
	}
	var live []string
	for _, f := range h.fakes { // fakes are in ascending id order
		var ps []string
		for p := range f.mounted {
			ps = append(ps, p)
		}
		sort.Slice(ps, func(i, j int) bool { return h.mpIdx[ps[i]] < h.mpIdx[ps[j]] })
		for _, p := range ps {
			for i := 0; i < f.mounted[p]; i++ {
				live = append(live, fmt.Sprintf("%d:%s", f.id, h.mpName(p)))
			}
		}
	}
	return fmt.Sprintf("%s st=%s cur=%s cfg=%s calls=%s store=%s fsmap=%s live=%s",
		res, st, cur, cfg, verifJoin(h.calls), verifJoin(store), verifJoin(fsmap), verifJoin(live))
}

// rpc runs one RPC on the real server, converting a panic into the result "panic".
func (h *verifHarness) rpc(f func() error) (res string) {
	defer func() {
		if r := recover(); r != nil {
			res = "panic"
			h.out.Fail("panic", fmt.Sprintf("%v (history %s)", r, strings.Join(h.histShape, " ")))
		}
	}()
	if err := f(); err != nil {
		return "err"
	}
	return "ok"
}

func (h *verifHarness) cfgJSON(gen int64) []byte {
	c := &Config{Config: service.Config{Config: fsconfig.Config{
		PrefetchSize: gen, HTTPCacheType: "memory", FSCacheType: "memory", NoBackgroundFetch: true}}}
	b, err := json.Marshal(c)
	if err != nil {
		h.t.Fatal(err)
	}
	return b
}

// exec parses one op line (the same line the Lean driver reads), runs it on the real code, emits
// the canonical result and evaluates the oracle.  Returns false on a malformed line.
func (h *verifHarness) exec(line string) bool {
	ws := strings.Fields(line)
	if len(ws) == 0 {
		return false
	}
	ctx := context.Background()
	h.failCfgFunc, h.failConstruct, h.failCall = false, false, false
	h.failMount = map[string]bool{}
	h.calls, h.mountCalls, h.constructed = nil, nil, -1
	mpOf := func(s string) (string, bool) {
		i, err := strconv.Atoi(s)
		if err != nil || i < 0 || i >= len(h.mps) {
			return "", false
		}
		return h.mps[i], true
	}
	labOf := func(s string) (map[string]string, bool) {
		i, err := strconv.Atoi(s)
		if err != nil || i < 0 || i >= len(verifLabelSets) {
			return nil, false
		}
		return verifLabelSets[i], true
	}
	okOf := func(s string) (bool, bool) { return s == "ok", s == "ok" || s == "fail" }

	if ws[0] == "reset" && len(ws) == 1 {
		h.reset()
		h.out.Emit(line, h.stateLine("ok"))
		return true
	}
	before := h.snapshot()
	h.histShape = append(h.histShape, line)
	var res string
	switch {
	case ws[0] == "init" && len(ws) == 4:
		gen, err := strconv.ParseInt(ws[1], 10, 64)
		if err != nil {
			return false
		}
		cfg := h.cfgJSON(gen)
		switch ws[2] {
		case "ok":
		case "parse":
			cfg = []byte("{")
		case "cfgfunc":
			h.failCfgFunc = true
		case "construct":
			h.failConstruct = true
		default:
			return false
		}
		if ws[3] != "-" {
			for _, s := range strings.Split(ws[3], ",") {
				p, ok := mpOf(s)
				if !ok {
					return false
				}
				h.failMount[p] = true
			}
		}
		if h.closed {
			// Init on a Server whose Close() has run: with a filesystem left over from before the
			// Close it turns Ready again whatever its own outcome (known finding)
			h.revived = true
		}
		res = h.rpc(func() error {
			_, err := h.srv.Init(ctx, &pb.InitRequest{Root: h.root, Config: cfg})
			return err
		})
		h.oracleInit(ws[2], res, before)
		h.lastInit = res
	case ws[0] == "mount" && len(ws) == 4:
		p, ok1 := mpOf(ws[1])
		lab, ok2 := labOf(ws[2])
		ok, ok3 := okOf(ws[3])
		if !ok1 || !ok2 || !ok3 {
			return false
		}
		h.failMount[p] = !ok
		res = h.rpc(func() error {
			_, err := h.srv.Mount(ctx, &pb.MountRequest{Mountpoint: p, Labels: lab})
			return err
		})
		h.oracleMount(p, ws[2], res, before)
	case ws[0] == "check" && len(ws) == 4:
		p, ok1 := mpOf(ws[1])
		lab, ok2 := labOf(ws[2])
		ok, ok3 := okOf(ws[3])
		if !ok1 || !ok2 || !ok3 {
			return false
		}
		h.failCall = !ok
		res = h.rpc(func() error {
			_, err := h.srv.Check(ctx, &pb.CheckRequest{Mountpoint: p, Labels: lab})
			return err
		})
		h.oracleCheck(p, res, ok, before)
	case ws[0] == "unmount" && len(ws) == 4:
		p, ok1 := mpOf(ws[1])
		ok, ok3 := okOf(ws[2])
		if !ok1 || !ok3 || (ws[3] != "0" && ws[3] != "1") {
			return false
		}
		if (ws[3] == "1") != h.isOs[h.mpIdx[p]] {
			h.t.Fatalf("op line says os=%s for %s but mountinfo disagrees", ws[3], p)
		}
		h.failCall = !ok
		res = h.rpc(func() error {
			_, err := h.srv.Unmount(ctx, &pb.UnmountRequest{Mountpoint: p})
			return err
		})
		h.oracleUnmount(p, res, ok, before)
	case ws[0] == "close" && len(ws) == 1:
		res = h.rpc(func() error { return h.srv.Close(ctx) })
		h.closed = true
		h.revived = false
		if len(h.calls) != 0 {
			h.out.Fail("close-calls-fs", verifJoin(h.calls))
		}
	case ws[0] == "restart" && len(ws) == 1:
		h.newServer()
		res = "ok"
	default:
		return false
	}
	h.out.Emit(line, h.stateLine(res))
	h.out.Count(ws[0])
	h.oracleQuiescent(ws[0], before)
	return true
}

// ---------------------------------------------------------------------------------------------
// The property oracle.  It only uses: RPC results, the fakes' call logs / live sets, the bolt
// bucket and fm.fsMap — never the model.

// requests before a successful first initialisation (no filesystem constructed since the process
// started) and after Close must fail without calling any filesystem and without changing anything.
func (h *verifHarness) mustReject(what, res string, before verifState) bool {
	var when, sig string
	switch {
	case !h.everBuilt:
		when, sig = "before a successful first Init", "request-before-init-not-rejected"
	case h.closed && !h.revived:
		when, sig = "after Close", "request-after-close-not-rejected"
	default:
		return false
	}
	if res != "err" {
		h.out.Fail(sig, fmt.Sprintf("%s %s returned %s", what, when, res))
	}
	if len(h.calls) != 0 {
		h.out.Fail(sig, fmt.Sprintf("%s %s called %s", what, when, verifJoin(h.calls)))
	}
	return true
}

func (h *verifHarness) oracleInit(stage, res string, before verifState) {
	if stage != "ok" && res != "err" {
		h.out.Fail("init-hides-failure", fmt.Sprintf("Init with a %s failure returned %s", stage, res))
	}
	for _, c := range h.mountCalls {
		if c.fs != h.constructed {
			h.out.Fail("restore-on-stale-fs", fmt.Sprintf("Init mounted %s on fs%d, not on the filesystem it constructed (fs%d)", h.mpName(c.mp), c.fs, h.constructed))
		}
		if _, ok := before.store[c.mp]; !ok {
			h.out.Fail("restore-mounts-unrecorded", fmt.Sprintf("Init mounted %s which was not recorded", h.mpName(c.mp)))
		}
	}
	if res == "ok" {
		if stage == "ok" && !before.storeOpen {
			h.out.Fail("init-ok-without-store", "Init returned ok although the store is closed")
		}
		// every recorded mountpoint is served afterwards; those not served before were mounted on the
		// new filesystem with their recorded labels
		after := h.fsMapSnapshot()
		for p, r := range before.store {
			if _, ok := after[p]; !ok {
				h.out.Fail("init-ok-but-recorded-not-served", fmt.Sprintf("Init returned ok but recorded %s is not served", h.mpName(p)))
				continue
			}
			if _, was := before.fsMap[p]; was {
				continue
			}
			found := false
			for _, c := range h.mountCalls {
				if c.mp == p && c.ok && c.fs == h.constructed {
					found = true
					if c.lab != r.lab {
						h.out.Fail("restore-wrong-labels", fmt.Sprintf("%s restored with labels %s, recorded %s", h.mpName(p), c.lab, r.lab))
					}
				}
			}
			if !found {
				h.out.Fail("init-ok-but-recorded-not-mounted", fmt.Sprintf("Init returned ok but recorded %s was not mounted on the new filesystem", h.mpName(p)))
			}
		}
	}
}

func (h *verifHarness) oracleMount(p, lab, res string, before verifState) {
	if h.mustReject("Mount", res, before) {
		return
	}
	after := h.fsMapSnapshot()
	_, served := after[p]
	if res == "ok" {
		if !served {
			h.out.Fail("mount-ok-not-served", fmt.Sprintf("Mount(%s) returned ok but it is not in fsMap", h.mpName(p)))
		}
		for _, c := range h.mountCalls {
			if !c.ok {
				h.out.Fail("mount-ok-after-failed-fs-mount", fmt.Sprintf("Mount(%s) returned ok although fs.Mount failed", h.mpName(p)))
			}
			if c.mp != p || c.lab != lab {
				h.out.Fail("mount-wrong-args", fmt.Sprintf("Mount(%s,%s) called fs.Mount(%s,%s)", h.mpName(p), lab, h.mpName(c.mp), c.lab))
			}
		}
		if _, was := before.fsMap[p]; !was && len(h.mountCalls) != 1 {
			h.out.Fail("mount-ok-without-fs-mount", fmt.Sprintf("Mount(%s) returned ok with %d fs.Mount calls", h.mpName(p), len(h.mountCalls)))
		}
		// observation, NOT a clause of C17 (the property speaks of mountpoints and labels, and
		// restoreFuseInfo never reads the field): the record written for a NEW mount carries fm.config,
		// which a failed re-Init may have replaced while the filesystem built from the previous config
		// keeps serving.  Only counted; checks/C17.py turns the count into an evidence note.
		if len(h.mountCalls) == 1 {
			recs, _, open := h.readStore()
			for _, f := range h.fakes {
				if open && f.id == h.mountCalls[0].fs && recs[p].cfg != f.gen {
					h.out.Count("obs-record-config-differs-from-owner-config")
				}
			}
		}
	} else {
		if _, was := before.fsMap[p]; !was && served {
			h.out.Fail("mount-failed-but-served", fmt.Sprintf("Mount(%s) returned %s but it is in fsMap", h.mpName(p), res))
		}
	}
}

func (h *verifHarness) oracleCheck(p, res string, scriptedOk bool, before verifState) {
	if h.mustReject("Check", res, before) {
		return
	}
	own := before.owners[p]
	if len(own) == 0 {
		if res != "err" || len(h.calls) != 0 {
			h.out.Fail("check-unserved-not-rejected", fmt.Sprintf("Check(%s) of an unserved mountpoint: %s calls=%s", h.mpName(p), res, verifJoin(h.calls)))
		}
		return
	}
	want := fmt.Sprintf("C%d:%s:", own[0], h.mpName(p))
	if len(h.calls) != 1 || !strings.HasPrefix(h.calls[0], want) {
		h.out.Fail("check-wrong-fs", fmt.Sprintf("Check(%s) owned by fs%d produced calls %s", h.mpName(p), own[0], verifJoin(h.calls)))
	}
	if (res == "ok") != scriptedOk {
		h.out.Fail("check-result", fmt.Sprintf("Check(%s): fs.Check ok=%v but RPC returned %s", h.mpName(p), scriptedOk, res))
	}
}

func (h *verifHarness) oracleUnmount(p, res string, scriptedOk bool, before verifState) {
	if h.mustReject("Unmount", res, before) {
		return
	}
	own := before.owners[p]
	_, recorded := before.store[p]
	if len(own) == 0 {
		if len(h.calls) != 0 {
			h.out.Fail("unmount-wrong-fs", fmt.Sprintf("Unmount(%s) of an unserved mountpoint called %s", h.mpName(p), verifJoin(h.calls)))
		}
		if !recorded && !h.isOs[h.mpIdx[p]] && res != "ok" {
			h.out.Fail("unmount-unknown-failed", fmt.Sprintf("Unmount(%s), neither recorded nor mounted, returned %s", h.mpName(p), res))
		}
		return
	}
	want := fmt.Sprintf("U%d:%s:", own[0], h.mpName(p))
	if len(h.calls) != 1 || !strings.HasPrefix(h.calls[0], want) {
		h.out.Fail("unmount-wrong-fs", fmt.Sprintf("Unmount(%s) owned by fs%d produced calls %s", h.mpName(p), own[0], verifJoin(h.calls)))
	}
	if (res == "ok") != scriptedOk {
		h.out.Fail("unmount-result", fmt.Sprintf("Unmount(%s): fs.Unmount ok=%v but RPC returned %s", h.mpName(p), scriptedOk, res))
	}
	after := h.fsMapSnapshot()
	if _, still := after[p]; still == (res == "ok") {
		h.out.Fail("unmount-serving-mismatch", fmt.Sprintf("Unmount(%s) returned %s, still in fsMap: %v", h.mpName(p), res, still))
	}
}

// oracleQuiescent: the invariant between two RPCs.
func (h *verifHarness) oracleQuiescent(op string, before verifState) {
	now := h.snapshot()
	// the manager's owner table is exactly the set of live backend mounts, one per mountpoint
	for p, ids := range now.owners {
		if len(ids) > 1 {
			h.out.Fail("second-mount", fmt.Sprintf("%s has %d live mounts (fs %v)", h.mpName(p), len(ids), ids))
		}
		if id, ok := now.fsMap[p]; !ok {
			h.out.Fail("live-mount-not-served", fmt.Sprintf("%s is mounted on fs%d but not in fsMap", h.mpName(p), ids[0]))
		} else if id != ids[0] {
			h.out.Fail("owner-mismatch", fmt.Sprintf("%s was mounted by fs%d but fsMap says fs%d", h.mpName(p), ids[0], id))
		}
	}
	for p, id := range now.fsMap {
		if len(now.owners[p]) == 0 {
			h.out.Fail("served-without-live-mount", fmt.Sprintf("%s is in fsMap (fs%d) but no filesystem has it mounted", h.mpName(p), id))
		}
	}
	// owner stability: only a successful Unmount of that mountpoint or a restart ends ownership
	if op != "restart" {
		for p, ids := range before.owners {
			if len(ids) == 0 {
				continue
			}
			nid, ok := now.fsMap[p]
			if ok && nid != ids[0] {
				h.out.Fail("owner-changed", fmt.Sprintf("%s moved from fs%d to fs%d during %s", h.mpName(p), ids[0], nid, op))
			}
			if !ok && op != "unmount" {
				h.out.Fail("owner-lost", fmt.Sprintf("%s (fs%d) dropped from fsMap by %s", h.mpName(p), ids[0], op))
			}
		}
	}
	if h.srv.status == FuseManagerReady && h.srv.curFs == nil {
		h.out.Fail("ready-without-filesystem", "status is Ready but curFs is nil")
	}
	if !now.storeOpen {
		// Close removed the record; a manager that serves afterwards does so unrecorded
		if h.closed && h.srv.status == FuseManagerReady {
			for p := range now.fsMap {
				if _, was := before.fsMap[p]; !was {
					h.out.Fail("served-after-close-unrecorded", fmt.Sprintf("after Close + Init the manager is Ready again and serves %s without a store record", h.mpName(p)))
				}
			}
		}
		return
	}
	// store vs serving
	for p := range now.fsMap {
		if _, ok := now.store[p]; !ok {
			h.out.Fail("served-not-recorded", fmt.Sprintf("%s is served but not in the store (after %s)", h.mpName(p), op))
		}
	}
	var unserved []string
	for p := range now.store {
		if _, ok := now.fsMap[p]; !ok {
			unserved = append(unserved, p)
		}
	}
	if len(unserved) > 0 && h.lastInit == "ok" {
		sort.Strings(unserved)
		h.out.Fail("recorded-not-served", fmt.Sprintf("%s recorded but not served although the last Init returned ok (after %s)", h.mpName(unserved[0]), op))
	}
	if op != "restart" && before.storeOpen {
		// the recorded-but-unserved set never grows while the process lives
		for _, p := range unserved {
			_, wasRec := before.store[p]
			_, wasServed := before.fsMap[p]
			if !wasRec || wasServed {
				h.out.Fail("recorded-not-served", fmt.Sprintf("%s became recorded-but-unserved during %s", h.mpName(p), op))
			}
		}
	}
}

// ---------------------------------------------------------------------------------------------
// generators

type verifGen struct {
	h          *verifHarness
	rnd        *verifutil.Rand
	gen        int64
	afterClose bool // also issue Init on a closed Server
}

func (g *verifGen) pickMp(biasServed bool) int {
	h := g.h
	if biasServed && g.rnd.Intn(100) < 70 {
		fm := h.fsMapSnapshot()
		recs, _, _ := h.readStore()
		var c []int
		for p := range fm {
			c = append(c, h.mpIdx[p])
		}
		for p := range recs {
			c = append(c, h.mpIdx[p])
		}
		if len(c) > 0 {
			sort.Ints(c)
			return c[g.rnd.Intn(len(c))]
		}
	}
	return g.rnd.Intn(len(h.mps))
}

func (g *verifGen) initLine() string {
	h := g.h
	// 40% of the re-Inits send the SAME config (byte-identical request) as the previous Init: the
	// snapshotter reconnecting with an unchanged configuration must still get a fresh filesystem
	// and a full restore (the config number is an explicit op parameter; fs identity stays the
	// construction index).
	if g.gen == 0 || g.rnd.Intn(100) >= 40 {
		g.gen++
	} else {
		h.out.Count("init-same-config")
	}
	stage := []string{"ok", "parse", "cfgfunc", "construct"}[g.rnd.Pick(76, 6, 9, 9)]
	fails := "-"
	if g.rnd.Intn(100) < 35 {
		recs, _, _ := h.readStore()
		var l []string
		for p := range recs {
			if g.rnd.Intn(100) < 40 {
				l = append(l, h.mpName(p))
			}
		}
		if g.rnd.Intn(100) < 10 {
			l = append(l, strconv.Itoa(g.rnd.Intn(len(h.mps))))
		}
		sort.Strings(l)
		// no duplicates
		var u []string
		for i, s := range l {
			if i == 0 || s != l[i-1] {
				u = append(u, s)
			}
		}
		if len(u) > 0 {
			fails = strings.Join(u, ",")
		}
	}
	return fmt.Sprintf("init %d %s %s", g.gen, stage, fails)
}

func (g *verifGen) okFail(pOk int) string {
	if g.rnd.Intn(100) < pOk {
		return "ok"
	}
	return "fail"
}

func (g *verifGen) next() string {
	h := g.h
	osBit := func(i int) string {
		if h.isOs[i] {
			return "1"
		}
		return "0"
	}
	if h.closed {
		// a closed Server: rejected requests, Close again, or a restart
		w := []int{2, 1, 2, 1, 6, 0}
		if g.afterClose {
			w[5] = 6
		}
		switch g.rnd.Pick(w...) {
		case 0:
			return fmt.Sprintf("mount %d %d %s", g.pickMp(false), g.rnd.Intn(len(verifLabelSets)), g.okFail(85))
		case 1:
			return fmt.Sprintf("check %d %d %s", g.pickMp(true), g.rnd.Intn(len(verifLabelSets)), g.okFail(85))
		case 2:
			i := g.pickMp(true)
			return fmt.Sprintf("unmount %d %s %s", i, g.okFail(85), osBit(i))
		case 3:
			return "close"
		case 4:
			return "restart"
		default:
			return g.initLine()
		}
	}
	wInit := 10
	if !h.everBuilt {
		wInit = 45
	}
	switch g.rnd.Pick(wInit, 30, 14, 22, 2, 6) {
	case 0:
		return g.initLine()
	case 1:
		return fmt.Sprintf("mount %d %d %s", g.pickMp(g.rnd.Intn(100) < 25), g.rnd.Intn(len(verifLabelSets)), g.okFail(85))
	case 2:
		return fmt.Sprintf("check %d %d %s", g.pickMp(true), g.rnd.Intn(len(verifLabelSets)), g.okFail(85))
	case 3:
		i := g.pickMp(true)
		return fmt.Sprintf("unmount %d %s %s", i, g.okFail(85), osBit(i))
	case 4:
		return "close"
	default:
		return "restart"
	}
}

// verifScenarios are hand-written histories run before the generated ones.  `O` stands for the
// index of the OS mountpoint (substituted at run time), mountpoints 1.. are plain directories.
func verifScenarios(osIdx int, osBit string, plain []int) [][]string {
	p := func(i int) string { return strconv.Itoa(plain[i]) }
	o := strconv.Itoa(osIdx)
	return [][]string{
		// requests on a fresh manager, then after a FAILED first Init at each stage (d17aed2 regression)
		{"mount " + p(0) + " 1 ok", "check " + p(0) + " 1 ok", "unmount " + p(0) + " ok 0",
			"init 1 parse -", "mount " + p(0) + " 1 ok", "check " + p(0) + " 0 ok", "unmount " + p(0) + " ok 0",
			"init 2 cfgfunc -", "mount " + p(0) + " 1 ok", "check " + p(0) + " 0 ok", "unmount " + p(0) + " ok 0",
			"init 3 construct -", "mount " + p(0) + " 1 ok", "check " + p(0) + " 0 ok", "unmount " + p(1) + " ok 0",
			"init 4 ok -", "mount " + p(0) + " 1 ok", "check " + p(0) + " 1 ok", "unmount " + p(0) + " ok 0"},
		// re-init with live mounts: owners stay, nothing is mounted twice, new mounts use the new instance
		{"init 1 ok -", "mount " + p(0) + " 1 ok", "mount " + p(1) + " 2 ok", "init 2 ok -",
			"check " + p(0) + " 1 ok", "mount " + p(2) + " 0 ok", "check " + p(2) + " 0 fail",
			"unmount " + p(1) + " fail 0", "unmount " + p(1) + " ok 0", "init 3 ok -",
			"unmount " + p(0) + " ok 0", "unmount " + p(2) + " ok 0", "check " + p(0) + " 1 ok"},
		// restart with a populated store; restore stops at the first failure; a later Init repairs
		{"init 1 ok -", "mount " + p(0) + " 1 ok", "mount " + p(1) + " 2 ok", "mount " + p(2) + " 0 ok",
			"restart", "mount " + p(3) + " 1 ok", "check " + p(0) + " 1 ok",
			"init 2 ok " + p(1), "check " + p(0) + " 1 ok", "check " + p(2) + " 0 ok",
			"unmount " + p(2) + " ok 0", "mount " + p(3) + " 1 ok", "init 3 ok -",
			"check " + p(1) + " 2 ok", "check " + p(2) + " 0 ok", "restart", "init 4 construct -",
			"check " + p(0) + " 1 ok", "init 5 ok -", "check " + p(0) + " 1 ok"},
		// unknown mountpoints, an OS mountpoint, re-mount with other labels, failing fs.Mount
		{"init 1 ok -", "unmount " + p(4) + " ok 0", "unmount " + o + " ok " + osBit, "mount " + o + " 1 ok",
			"unmount " + o + " ok " + osBit, "unmount " + o + " ok " + osBit, "mount " + p(0) + " 1 fail",
			"check " + p(0) + " 1 ok", "mount " + p(0) + " 1 ok", "mount " + p(0) + " 2 ok",
			"mount " + p(0) + " 0 fail", "restart", "init 2 ok -", "check " + p(0) + " 2 ok"},
		// failed re-init (config stage) with live mounts: the old instance keeps serving
		{"init 1 ok -", "mount " + p(0) + " 1 ok", "init 2 cfgfunc -", "mount " + p(1) + " 1 ok",
			"init 3 construct -", "mount " + p(2) + " 2 ok", "init 4 parse -", "check " + p(1) + " 1 ok",
			"unmount " + p(0) + " ok 0", "restart", "init 5 ok " + p(2), "init 6 cfgfunc -",
			"mount " + p(2) + " 2 ok", "init 7 ok -"},
		// the SAME config twice: after a restart the first Init fails restoring one mountpoint, the
		// second Init (byte-identical request) must build a new filesystem, finish the restore and only
		// then report ok; and a same-config re-Init with live mounts keeps owners, new mounts use the new fs
		{"init 1 ok -", "mount " + p(0) + " 1 ok", "mount " + p(1) + " 2 ok", "mount " + p(2) + " 0 ok",
			"restart", "init 2 ok " + p(1), "check " + p(1) + " 2 ok", "init 2 ok -",
			"check " + p(0) + " 1 ok", "check " + p(1) + " 2 ok", "check " + p(2) + " 0 ok",
			"init 2 ok -", "mount " + p(3) + " 1 ok", "check " + p(3) + " 1 ok", "unmount " + p(1) + " ok 0",
			"init 2 cfgfunc -", "init 2 ok -", "mount " + p(1) + " 2 ok",
			"restart", "init 2 ok " + p(0) + "," + p(3), "init 2 ok " + p(3), "init 2 ok -", "check " + p(3) + " 1 ok"},
		// Close: requests are rejected, the store file is gone, a restart begins empty
		{"init 1 ok -", "mount " + p(0) + " 1 ok", "close", "mount " + p(1) + " 1 ok",
			"check " + p(0) + " 1 ok", "unmount " + p(0) + " ok 0", "close", "restart",
			"init 2 ok -", "check " + p(0) + " 1 ok", "mount " + p(0) + " 1 ok", "restart", "close", "restart",
			"init 3 ok -"},
	}
}

// verifAfterCloseScenarios: Init on a Server whose Close has run (known finding
// `served-after-close-unrecorded`); run on every check with VERIF_C17_AFTERCLOSE=1.
func verifAfterCloseScenarios(plain []int) [][]string {
	p := func(i int) string { return strconv.Itoa(plain[i]) }
	return [][]string{
		{"init 1 ok -", "close", "init 2 ok -", "mount " + p(0) + " 1 ok", "check " + p(0) + " 1 ok",
			"unmount " + p(0) + " ok 0", "mount " + p(1) + " 1 ok", "restart", "init 3 ok -", "check " + p(1) + " 1 ok"},
		{"close", "init 1 ok -", "mount " + p(0) + " 1 ok"},
		{"init 1 ok -", "mount " + p(0) + " 1 ok", "close", "init 2 cfgfunc -", "mount " + p(1) + " 1 ok",
			"unmount " + p(0) + " ok 0"},
	}
}

// verifLockFacts re-derives, from the source the harness was built against, the atomicity premise
// of the model: every RPC method of Server takes fm.lock as its first statement and releases it in
// a defer.  One stat "fact-lock-first:<Method>" is counted per method for which this holds.
func verifLockFacts(out *verifutil.Out) {
	_, self, _, ok := runtime.Caller(0)
	if !ok {
		return
	}
	src := filepath.Join(filepath.Dir(self), "service.go")
	fset := token.NewFileSet()
	f, err := parser.ParseFile(fset, src, nil, 0)
	if err != nil {
		return
	}
	isLockCall := func(n ast.Node, names ...string) bool {
		c, ok := n.(*ast.CallExpr)
		if !ok {
			return false
		}
		sel, ok := c.Fun.(*ast.SelectorExpr)
		if !ok {
			return false
		}
		inner, ok := sel.X.(*ast.SelectorExpr)
		if !ok || inner.Sel.Name != "lock" {
			return false
		}
		for _, n := range names {
			if sel.Sel.Name == n {
				return true
			}
		}
		return false
	}
	for _, d := range f.Decls {
		fd, ok := d.(*ast.FuncDecl)
		if !ok || fd.Recv == nil || fd.Body == nil || len(fd.Body.List) == 0 {
			continue
		}
		switch fd.Name.Name {
		case "Init", "Mount", "Check", "Unmount", "Close":
		default:
			continue
		}
		first, ok := fd.Body.List[0].(*ast.ExprStmt)
		if !ok || !isLockCall(first.X, "Lock", "RLock") {
			continue
		}
		deferred := false
		for _, st := range fd.Body.List {
			ds, ok := st.(*ast.DeferStmt)
			if !ok {
				continue
			}
			ast.Inspect(ds, func(n ast.Node) bool {
				if n != nil && isLockCall(n, "Unlock", "RUnlock") {
					deferred = true
				}
				return true
			})
		}
		if deferred {
			out.Count("fact-lock-first:" + fd.Name.Name)
		}
	}
}

func TestVerifC17(t *testing.T) {
	logrus.SetOutput(io.Discard)
	logrus.SetLevel(logrus.PanicLevel)
	out := verifutil.OpenOut()
	defer out.Close()
	rnd := verifutil.NewRand(verifutil.Seed())
	verifLockFacts(out)

	base, err := os.MkdirTemp("", "verif-c17-")
	if err != nil {
		t.Fatal(err)
	}
	defer os.RemoveAll(base)
	h := &verifHarness{t: t, out: out, base: base, storePath: filepath.Join(base, "store", "fusestore.db"),
		root: filepath.Join(base, "root"), mpIdx: map[string]int{}, newest: -1}

	// mountpoints: plain directories (not OS mountpoints) and one real OS mountpoint
	mounted := func(p string) bool {
		ms, err := mountinfo.GetMounts(func(info *mountinfo.Info) (skip, stop bool) {
			if info.Mountpoint == p {
				return false, true
			}
			return true, false
		})
		return err == nil && len(ms) > 0
	}
	var names []string
	for i := 0; i < 5; i++ {
		d := filepath.Join(base, "mp", fmt.Sprintf("m%d", i))
		if err := os.MkdirAll(d, 0o755); err != nil {
			t.Fatal(err)
		}
		names = append(names, d)
	}
	for _, c := range []string{"/proc", "/sys", "/dev", "/"} {
		if mounted(c) {
			names = append(names, c)
			break
		}
	}
	sort.Strings(names) // byte order = bolt key order
	h.mps = names
	osIdx := -1
	var plain []int
	for i, n := range names {
		h.mpIdx[n] = i
		h.isOs = append(h.isOs, mounted(n))
		if h.isOs[i] {
			osIdx = i
		} else {
			plain = append(plain, i)
		}
	}
	if osIdx < 0 {
		// no OS mountpoint available: that branch of Unmount stays uncovered; use a plain one in its place
		out.Count("no-os-mountpoint")
		osIdx = plain[0]
	}

	saved := configFuncs
	savedHook := VerifWrapFileSystem
	defer func() { configFuncs = saved; VerifWrapFileSystem = savedHook }()
	configFuncs = []ConfigFunc{h.cfgFunc}
	VerifWrapFileSystem = h.wrap

	runHist := func(tag string, lines []string) {
		out.Comment("history " + tag)
		h.exec("reset")
		for _, l := range lines {
			if !h.exec(l) {
				t.Fatalf("malformed op line %q", l)
			}
		}
		out.Distinct(strings.Join(lines, ";"))
	}

	afterClose := os.Getenv("VERIF_C17_AFTERCLOSE") == "1"
	if rp := os.Getenv("VERIF_C17_REPLAY"); rp != "" {
		b, err := os.ReadFile(rp)
		if err != nil {
			t.Fatal(err)
		}
		for _, l := range strings.Split(string(b), "\n") {
			l = strings.TrimSpace(l)
			if l == "" || strings.HasPrefix(l, "#") {
				continue
			}
			if !h.exec(l) {
				t.Fatalf("malformed op line %q", l)
			}
		}
		return
	}
	if afterClose {
		for i, sc := range verifAfterCloseScenarios(plain) {
			runHist(fmt.Sprintf("afterclose-scenario-%d", i), sc)
		}
	} else {
		osBit := "0"
		if h.isOs[osIdx] {
			osBit = "1"
		}
		for i, sc := range verifScenarios(osIdx, osBit, plain) {
			runHist(fmt.Sprintf("scenario-%d", i), sc)
		}
	}
	nhist := verifutil.EnvInt("VERIF_N", 150)
	g := &verifGen{h: h, rnd: rnd, afterClose: afterClose}
	for i := 0; i < nhist; i++ {
		out.Comment(fmt.Sprintf("history gen-%d", i))
		h.exec("reset")
		g.gen = 0
		n := 10 + rnd.Intn(50)
		var shape []string
		for j := 0; j < n; j++ {
			l := g.next()
			if !h.exec(l) {
				t.Fatalf("generator produced a malformed op line %q", l)
			}
			shape = append(shape, l)
		}
		out.Distinct(strings.Join(shape, ";"))
	}
	if h.srv != nil && !h.closed {
		h.srv.ms.Close()
	}
}
